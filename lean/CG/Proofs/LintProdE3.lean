/-
  CG.Proofs.LintProdE3 — C20 (second half, fill_blackbox): the registry of the result (keys and entries, without any
  hypothesis on duplicate keys), its dotted names, and "every gate is driven".
-/
import CG.Proofs.LintProdE1
set_option linter.unusedSimpArgs false
set_option linter.unusedVariables false
namespace CG
namespace LintProdE
open Circuit LintLink

/-! ### the registry of the result -/

theorem relabel_bbs (c : Circuit) (m : List (Name × Name)) : (c.relabel m).bbs = c.bbs := by
  unfold Circuit.relabel
  simp only []
  generalize c.nodeNames.filter (fun n => (m.lookup n).isSome) = olds
  suffices H : ∀ (olds : List Name) (c0 : Circuit),
      (olds.foldl (fun c o => match m.lookup o with | some n => c.relabelOne o n | none => c) c0).bbs = c0.bbs from
    H olds c
  intro olds
  induction olds with
  | nil => intro c0; rfl
  | cons o olds ih =>
    intro c0
    simp only [List.foldl_cons]
    rw [ih]
    cases m.lookup o with
    | none => rfl
    | some n => exact (relabelOne_frame c0 o n).1

/-- the registry just before the child's blackboxes are written -/
theorem fillPre_bbs (P : Circuit) (inst : Name) (bb : BBox) (sub : Circuit) (ord : Ord) :
    ((bb.outs.foldl (fun acc n => acc.setOutRaw (pref inst n) false)
      (bb.ins.foldl (fun acc n => acc.setTyRaw (pref inst n) "buf")
        ((P.relabel ((ord (union bb.outs bb.ins)).map (fun p => (inst ++ "." ++ p, pref inst p)))).graphUpdate
          (sub.relabelCopy (pref inst))))).popBB inst).bbs = P.bbs.filter (fun p => !(p.1 == inst)) := by
  have e1 : ∀ (L : List Name) (c0 : Circuit), L.foldl (fun acc n => acc.setTyRaw (pref inst n) "buf") c0 =
      (L.map (pref inst)).foldl (fun acc n => acc.setTyRaw n "buf") c0 := fun L c0 => by rw [List.foldl_map]
  have e2 : ∀ (L : List Name) (c0 : Circuit), L.foldl (fun acc n => acc.setOutRaw (pref inst n) false) c0 =
      (L.map (pref inst)).foldl (fun acc n => acc.setOutRaw n false) c0 := fun L c0 => by rw [List.foldl_map]
  show List.filter _ _ = _
  rw [e1, e2, (foldl_setOutRaw_frame false _ _).2.1, (foldl_setTyRaw_frame "buf" _ _).2.1, graphUpdate_bbs,
    relabel_bbs]

theorem keys_filter_ne (l : List (Name × BBox)) (inst k : Name) :
    k ∈ keys (l.filter (fun p => !(p.1 == inst))) ↔ k ∈ keys l ∧ k ≠ inst := by
  unfold keys
  simp only [List.mem_map, List.mem_filter]
  constructor
  · rintro ⟨q, ⟨hq, hne⟩, rfl⟩
    exact ⟨⟨q, hq, rfl⟩, by simpa using hne⟩
  · rintro ⟨⟨q, hq, rfl⟩, hne⟩
    exact ⟨q, ⟨hq, by simpa using hne⟩, rfl⟩

theorem fillRes_keys (P : Circuit) (inst : Name) (bb : BBox) (sub : Circuit) (ord : Ord) (k : Name) :
    k ∈ keys (fillRes P inst bb sub ord).bbs ↔ (k ∈ keys P.bbs ∧ k ≠ inst) ∨ ∃ p ∈ sub.bbs, pref inst p.1 = k := by
  unfold fillRes
  rw [foldl_setBB_keys (pref inst), fillPre_bbs, keys_filter_ne]

/-- an entry of another instance of the parent survives the call -/
theorem fillRes_keep (P : Circuit) (inst : Name) (bb : BBox) (sub : Circuit) (ord : Ord) (q : Name × BBox)
    (hq : q ∈ P.bbs) (hne : q.1 ≠ inst) (hcl : ∀ p ∈ sub.bbs, P.bbs.lookup (pref inst p.1) = none) :
    q ∈ (fillRes P inst bb sub ord).bbs := by
  unfold fillRes
  apply foldl_setBB_keep (pref inst)
  · rw [fillPre_bbs]
    exact List.mem_filter.2 ⟨hq, by simpa using hne⟩
  · intro p hp e
    have := hcl p hp
    rw [e] at this
    exact (lookup_ne_none_iff P.bbs q.1).2 ⟨q, hq, rfl⟩ this

/-! ### the instance that is filled -/

theorem fill_lookup {P sub P' : Circuit} {inst : Name} {ord : Ord}
    (h : P.fillBlackbox inst sub ord = (P', .ok)) : ∃ bb, P.bbs.lookup inst = some bb := by
  cases hl : P.bbs.lookup inst with
  | some bb => exact ⟨bb, rfl⟩
  | none =>
    unfold fillBlackbox at h
    rw [hl] at h
    simp only [] at h
    injection h with _ h
    cases h

theorem lookup_mem' {l : List (Name × BBox)} {k : Name} {b : BBox} (h : l.lookup k = some b) : (k, b) ∈ l := by
  induction l with
  | nil => cases h
  | cons x l ih =>
    obtain ⟨k', v⟩ := x
    rw [List.lookup_cons] at h
    by_cases hk : k = k'
    · subst hk
      simp only [beq_self_eq_true] at h
      injection h with h
      subst h
      exact List.mem_cons_self
    · have : (k == k') = false := by simpa using hk
      rw [this] at h
      exact List.mem_cons_of_mem _ (ih h)

/-- the pins of the filled instance carry their types (second clause of `RegistryOK`) -/
theorem pin_types {P : Circuit} {inst : Name} {bb : BBox} (hr : C20.RegistryOK P) (hbb : P.bbs.lookup inst = some bb) :
    (∀ p ∈ bb.ins, P.ty? (inst ++ "." ++ p) = some "bb_input") ∧
    (∀ p ∈ bb.outs, P.ty? (inst ++ "." ++ p) = some "bb_output") := by
  obtain ⟨h1, h2⟩ := pinsOK_of_registry hr (inst, bb) (lookup_mem' hbb)
  exact ⟨fun p hp => h1 p hp (by simp), fun p hp => h2 p hp (by simp)⟩

/-! ### the two side conditions that were missing -/

/-- every dotted node named after the filled instance is one of its declared pins -/
def DotsArePinsOf (P : Circuit) (inst : Name) : Prop :=
  ∀ bb, P.bbs.lookup inst = some bb → ∀ g ∈ P.nodeNames, hasDot g = true → dotPrefix g = inst →
    ∃ p ∈ bb.outs ++ bb.ins, g = inst ++ "." ++ p

/-- no other recorded instance claims a pin node of the filled instance -/
def PinsNotShared (P : Circuit) (inst : Name) : Prop :=
  ∀ bb, P.bbs.lookup inst = some bb → ∀ q ∈ P.bbs, q.1 ≠ inst → ∀ g ∈ q.2.ins ++ q.2.outs, ∀ p ∈ bb.ins ++ bb.outs,
    q.1 ++ "." ++ g ≠ inst ++ "." ++ p

/-- a simple sufficient condition for `PinsNotShared`: the other instance names are dot-free -/
theorem pinsNotShared_of_nodot {P : Circuit} {inst : Name} (hinst : hasDot inst = false)
    (h : ∀ q ∈ P.bbs, q.1 ≠ inst → hasDot q.1 = false) : PinsNotShared P inst := by
  intro bb _ q hq hne g _ p _ e
  have := congrArg dotPrefix e
  rw [dotPrefix_pin q.1 g (h q hq hne), dotPrefix_pin inst p hinst] at this
  exact hne this

theorem fillOK_of {P : Circuit} {inst : Name} (hr : C20.RegistryOK P) (hsh : PinsNotShared P inst) :
    FillOK' P [] inst := by
  intro bb hbb
  obtain ⟨h1, h2⟩ := pin_types hr hbb
  refine ⟨fun p hp _ => h1 p hp, fun p hp _ => h2 p hp, ?_⟩
  intro q hq hne g hg p hp e
  exact absurd e (hsh bb hbb q hq hne g hg p hp)

/-! ### dotted names -/

theorem fill_dots {P sub P' : Circuit} {inst : Name} {bb : BBox} {ord : Ord} (hord : C20.OrdOK ord)
    (hP : WF P) (hsub : WF sub) (hfull : FullA sub) (hdP : DotsRegistered P) (hdsub : DotsRegistered sub)
    (hinst : hasDot inst = false) (hbb : P.bbs.lookup inst = some bb)
    (hdots : DotsArePinsOf P inst)
    (h : P.fillBlackbox inst sub ord = (P', .ok)) : DotsRegistered P' := by
  have F := fill_facts hord hP hsub hfull hbb h
  obtain ⟨_, _, _, _, hP'⟩ := fill_unfold hbb h
  intro g hg hd
  rw [lookup_ne_none_keys, hP', fillRes_keys]
  rcases (F.has g).1 ((has_iff_mem P' g).2 hg) with ⟨hgP, hnp⟩ | ⟨m, hm, rfl⟩
  · left
    have hgm : g ∈ P.nodeNames := (has_iff_mem P g).1 hgP
    refine ⟨(lookup_ne_none_keys _ _).1 (hdP g hgm hd), fun e => ?_⟩
    obtain ⟨p, hp, e'⟩ := hdots bb hbb g hgm hd e
    exact hnp p hp e'
  · right
    rw [hasDot_pref' inst m hinst] at hd
    have := hdsub m ((has_iff_mem sub m).1 hm) hd
    rw [lookup_ne_none_iff] at this
    obtain ⟨q, hq, e⟩ := this
    exact ⟨q, hq, by rw [dotPrefix_pref inst m hinst, e]⟩

/-! ### every gate of the result is driven -/

theorem fill_driven {P sub P' : Circuit} {inst : Name} {bb : BBox} {ord : Ord} (hord : C20.OrdOK ord)
    (hP : WF P) (hsub : WF sub) (hfull : FullA sub) (hdrP : Arith.Driven P) (hdrsub : Arith.Driven sub)
    (hbb : P.bbs.lookup inst = some bb) (hpin : ∀ p ∈ bb.ins, P.ty? (inst ++ "." ++ p) = some "bb_input")
    (h : P.fillBlackbox inst sub ord = (P', .ok)) : Arith.Driven P' := by
  have F := fill_facts hord hP hsub hfull hbb h
  intro n t ht hs
  rcases (F.has n).1 (has_of_ty? ht) with ⟨hnP, hnp⟩ | ⟨m, hm, rfl⟩
  · -- a node of the parent that is not a pin of the instance
    have htP : P.ty? n = some t := by
      unfold ty? at ht ⊢
      rw [← F.attrParent n hnP hnp]; exact ht
    obtain ⟨u, hu⟩ := hdrP n t htP hs
    refine ⟨renP inst bb u, (F.mem_edges _).2 (Or.inl ⟨(u, n), hu, ?_⟩)⟩
    rw [renP_other inst bb hnp]
  · -- a spliced node
    obtain ⟨a, ha⟩ := has_exists hm
    have hta : (stripA a).ty = some t := by rw [← ty?_of_attr (F.attrChild m a ha)]; exact ht
    by_cases hi : a.ty = some "input"
    · have hmi : m ∈ bb.ins := (F.ins m).1 ((mem_inputs_of_mem hsub.nodup ha).2 hi)
      obtain ⟨u, hu⟩ := hdrP _ "bb_input" (hpin m hmi) (Or.inl (by decide))
      refine ⟨renP inst bb u, (F.mem_edges _).2 (Or.inl ⟨(u, inst ++ "." ++ m), hu, ?_⟩)⟩
      rw [renP_pin inst bb (List.mem_append.2 (Or.inr hmi))]
    · rw [stripA_ty_eq hi] at hta
      have htsub : sub.ty? m = some t := by rw [ty?_of_mem hsub.nodup ha]; exact hta
      obtain ⟨u, hu⟩ := hdrsub m t htsub hs
      exact ⟨pref inst u, (F.mem_edges _).2 (Or.inr (List.mem_map.2 ⟨(u, m), hu, rfl⟩))⟩

end LintProdE
end CG
