/- C14 (character level, fast parser) helper: the body of the module text as a list of pieces, per pattern -/
import CG.Proofs.FastTextLayout
import CG.Proofs.BenchTextWrite
set_option linter.unusedSimpArgs false
set_option linter.unusedVariables false
namespace CG
namespace FT
open Regex BenchText Verilog C14

/-- a name the text-level theorem admits, on characters -/
def Word (n : Name) : Prop :=
  IdentL n.toList ∧ n.toList ≠ kModule ∧ n.toList ≠ VMT.kwE ∧ n.toList ≠ kInput ∧ n.toList ≠ kOutput ∧ n.toList ≠ kWire ∧
    n.toList ≠ kAssign

def OpOK : ROp → Prop
  | .net n => Word n
  | _ => True

def StmtOK : RStmt → Prop
  | .gate ty inst out ops => Word ty ∧ Word inst ∧ Word out ∧ ∀ o ∈ ops, OpOK o
  | .assign l r => Word l ∧ OpOK r
  | .bb ty inst pins => Word ty ∧ Word inst ∧ pins ≠ [] ∧ ∀ p ∈ pins, Word p.1 ∧ ∀ o, p.2 = some o → OpOK o

structure TOK (r : RMod) (wires : List Name) : Prop where
  name : Word r.name
  inputs : ∀ i ∈ r.inputs, Word i
  outputs : ∀ o ∈ r.outputs, Word o
  wires : ∀ w ∈ wires, Word w
  stmts : ∀ s ∈ r.stmts, StmtOK s

def nlP : Piece := ⟨[], ['\n'], none⟩

/-- per line kind, the pieces one pattern sees -/
structure Plan where
  fin : Name → List Piece
  fout : Name → List Piece
  fw : Name → List Piece
  fs : RStmt → List Piece

def flat (cs : List Piece) : List Char := (cs.map Piece.text).flatten

def Plan.pieces (P : Plan) (r : RMod) (wires : List Name) : List Piece :=
  nlP :: (r.inputs.flatMap P.fin ++ nlP :: (r.outputs.flatMap P.fout ++ nlP :: (wires.flatMap P.fw ++ nlP ::
    r.stmts.flatMap P.fs)))

theorem flat_append (a b : List Piece) : flat (a ++ b) = flat a ++ flat b := by simp [flat]
theorem flat_cons (a : Piece) (b : List Piece) : flat (a :: b) = a.text ++ flat b := by simp [flat]

theorem flat_flatMap {α : Type} (f : α → List Piece) (g : α → List Char) : ∀ (l : List α), (∀ x ∈ l, flat (f x) = g x) →
    flat (l.flatMap f) = (l.map g).flatten
  | [], _ => rfl
  | x :: l, h => by
    rw [List.flatMap_cons, flat_append, h x (by simp), flat_flatMap f g l (fun y hy => h y (by simp [hy]))]
    simp

theorem Plan.text (P : Plan) (r : RMod) (wires : List Name)
    (h1 : ∀ i ∈ r.inputs, flat (P.fin i) = declLine kInput i.toList)
    (h2 : ∀ i ∈ r.outputs, flat (P.fout i) = declLine kOutput i.toList)
    (h3 : ∀ i ∈ wires, flat (P.fw i) = declLine kWire i.toList)
    (h4 : ∀ s ∈ r.stmts, flat (P.fs s) = stmtLine s) : flat (P.pieces r wires) = bodyT r wires := by
  unfold Plan.pieces bodyT
  simp only [flat_cons, flat_append, flat_flatMap _ _ _ h1, flat_flatMap _ _ _ h2, flat_flatMap _ _ _ h3,
    flat_flatMap _ _ _ h4, nlP, Piece.text, List.nil_append, List.cons_append]

def hits (cs : List Piece) : List (List String) := cs.filterMap (·.hit)

theorem hits_flatMap {α : Type} (f : α → List Piece) : ∀ (l : List α), hits (l.flatMap f) = l.flatMap (fun x => hits (f x))
  | [] => rfl
  | x :: l => by
    simp only [List.flatMap_cons, hits, List.filterMap_append]
    have := hits_flatMap f l
    simp only [hits] at this
    rw [this]

theorem Plan.hits (P : Plan) (r : RMod) (wires : List Name) :
    FT.hits (P.pieces r wires) = r.inputs.flatMap (fun x => FT.hits (P.fin x)) ++ (r.outputs.flatMap (fun x => FT.hits (P.fout x)) ++
      (wires.flatMap (fun x => FT.hits (P.fw x)) ++ r.stmts.flatMap (fun x => FT.hits (P.fs x)))) := by
  unfold Plan.pieces
  have e : ∀ a b : List Piece, FT.hits (a ++ b) = FT.hits a ++ FT.hits b := by intro a b; simp [FT.hits]
  have e2 : ∀ b : List Piece, FT.hits (nlP :: b) = FT.hits b := by intro b; simp [FT.hits, nlP]
  simp only [e, e2, hits_flatMap]

theorem Plan.ok (P : Plan) (r : RMod) (wires : List Name) (ctx : Ctx) (rx : Re) (ng : Nat)
    (h0 : PieceOK ctx rx ng nlP)
    (h1 : ∀ i ∈ r.inputs, ∀ c ∈ P.fin i, PieceOK ctx rx ng c)
    (h2 : ∀ i ∈ r.outputs, ∀ c ∈ P.fout i, PieceOK ctx rx ng c)
    (h3 : ∀ i ∈ wires, ∀ c ∈ P.fw i, PieceOK ctx rx ng c)
    (h4 : ∀ s ∈ r.stmts, ∀ c ∈ P.fs s, PieceOK ctx rx ng c) : ∀ c ∈ P.pieces r wires, PieceOK ctx rx ng c := by
  intro c hc
  unfold Plan.pieces at hc
  simp only [List.mem_cons, List.mem_append, List.mem_flatMap] at hc
  rcases hc with rfl | ⟨i, hi, hc⟩ | rfl | ⟨i, hi, hc⟩ | rfl | ⟨i, hi, hc⟩ | rfl | ⟨i, hi, hc⟩
  · exact h0
  · exact h1 i hi c hc
  · exact h0
  · exact h2 i hi c hc
  · exact h0
  · exact h3 i hi c hc
  · exact h0
  · exact h4 i hi c hc

/-- `findall` of a pattern with groups over the module text, from a plan -/
theorem findall_plan {pat : String} {rx : Re} {ng : Nat} {d : Bool} (hparse : Regex.parse pat = some (rx, ng)) (hng : ng ≠ 0)
    (P : Plan) (r : RMod) (wires : List Name)
    (htext : flat (P.pieces r wires) = bodyT r wires)
    (hok : ∀ ctx : Ctx, ctx.dotall = d → txt ctx = bodyT r wires ++ VMT.kwE ++ ['\n'] →
      (∀ c ∈ P.pieces r wires, PieceOK ctx rx ng c) ∧
      ∀ p, p ≤ ctx.s.size → (txt ctx).drop p = VMT.kwE ++ ['\n'] →
        ∀ i, p ≤ i → i ≤ ctx.s.size → m ctx (fuelFor ctx.s) rx i [] k0 = none) :
    Regex.findall pat (String.ofList (bodyT r wires ++ VMT.kwE ++ ['\n'])) d = some (FT.hits (P.pieces r wires)) := by
  rw [findall_eq hparse]
  simp only [String.toList_ofList]
  let ctx : Ctx := { s := (bodyT r wires ++ VMT.kwE ++ ['\n']).toArray, dotall := d }
  have htxt : txt ctx = bodyT r wires ++ VMT.kwE ++ ['\n'] := by simp [txt, ctx]
  obtain ⟨h1, h2⟩ := hok ctx rfl htxt
  have hsz : ctx.s.size = (bodyT r wires).length + 10 := by
    rw [← txt_length, htxt]; simp [VMT.kwE]
  have hdrop : (txt ctx).drop (bodyT r wires).length = VMT.kwE ++ ['\n'] := by
    rw [htxt, List.append_assoc, List.drop_left]
  have := scan_pieces ctx rx ng (P.pieces r wires) (VMT.kwE ++ ['\n']) h1
    (fun i hi1 hi2 => h2 (bodyT r wires).length (by omega) hdrop i (by
      simp [VMT.kwE] at hi1; omega) hi2)
    (by rw [htxt]; show _ = flat (P.pieces r wires) ++ _; rw [htext, List.append_assoc])
  have hne : (ng == 0) = false := by rw [beq_eq_false_iff_ne]; exact hng
  simp only [hne, Bool.false_eq_true, if_false]
  show some (List.map _ (allMatches ctx rx ng (ctx.s.size + 2) 0)) = _
  rw [this]
  rfl

end FT
end CG
