/- C14 (text level, module extraction) helper: `Verilog.read` on a text of the writer's shape is `parseNetlist` of it -/
import CG.Proofs.VModTextSearch
import CG.Proofs.VModTextParse
import CG.Proofs.VModTextReplace
import CG.Proofs.VModTextLex
namespace CG
namespace VMT
open Verilog VX

theorem ident_chars {n : Name} (h : Ident n) :
    ∀ c ∈ n.toList, isLetter c = true ∨ isDigit c = true ∨ c = '_' := by
  obtain ⟨⟨ch, rest, e, hch, hrest⟩, _⟩ := h
  intro c hc
  rw [e] at hc
  rcases List.mem_cons.1 hc with rfl | hc
  · rcases hch with h | h
    · exact Or.inl h
    · exact Or.inr (Or.inr h)
  · exact hrest c hc

/-- the full reader on an emitted module text, given the shape of the text and the uniqueness of the closing keyword -/
theorem read_of_shape (wm : WModule) (h : WOK wm) (bbs : List BBox) (ord' : Ord)
    (hshape : ∃ P Bd : List Char, (render wm).toList =
        ['m','o','d','u','l','e'] ++ [' '] ++ wm.name.toList ++ [' ', '('] ++ P ++ [')', ';'] ++ Bd ++ kwE ++ ['\n'] ∧
      Bd.getLast? = some '\n')
    (huniq : ∀ pre post : List Char, (render wm).toList = pre ++ kwE ++ post → BrkL pre → BrkR post → post = ['\n']) :
    Verilog.read (render wm) wm.name bbs ord' = parseNetlist (render wm) bbs ord' := by
  obtain ⟨P, Bd, hT, hBd⟩ := hshape
  have hparse := parse_patText wm.name (ident_chars h.name)
  obtain ⟨mt, hs, hg⟩ := search_module (patText wm.name) (render wm).toList wm.name.toList P Bd hparse
    (by rw [hT]; simp [shapeOf]) hBd huniq
  rw [String.ofList_toList] at hs
  obtain ⟨toks, hl1, hl2⟩ := lex_dropLast wm h
  unfold Verilog.read
  rw [moduleRegex_eq]
  simp only [hs, hg, Option.getD_some]
  unfold parseNetlist
  rw [hl1, hl2]

end VMT
end CG
