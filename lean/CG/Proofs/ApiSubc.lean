/- C07 helper: add_subcircuit -/
import CG.Proofs.ApiSub
set_option linter.unusedSimpArgs false
set_option linter.unusedVariables false
namespace CG
open Circuit

theorem not_any_untyped {sc : Circuit} (hsc : WS sc) : (sc.nodes.any fun p => p.2.ty.isNone) = false := by
  cases h : (sc.nodes.any fun p => p.2.ty.isNone) with
  | false => rfl
  | true =>
    obtain ⟨p, hp, hn⟩ := List.any_eq_true.1 h
    obtain ⟨t, ht, _⟩ := typedL_of_typed hsc.nodup hsc.typed p hp
    rw [ht] at hn; simp at hn

/-- types of the nodes of the prefixed copy after IO stripping, for nodes that are not inputs -/
theorem strip_ty_of_sub {sc : Circuit} (hsc : WS sc) (f : Name → Name) (hf : ∀ a b, f a = f b → a = b)
    {F c1 : Circuit}
    (hty : ∀ n, F.ty? n = if (sc.relabelCopy f).has n = true then
        (if (sc.relabelCopy f).ty? n = some "input" then some "buf" else (sc.relabelCopy f).ty? n) else c1.ty? n)
    {m : Name} {t : String} (hm : sc.ty? m = some t) (hne : t ≠ "input") : F.ty? (f m) = some t := by
  obtain ⟨_, _, _, i4, i5, _⟩ := relabelCopy_view hsc f hf
  have hhas := has_of_ty? hm
  have hg : (sc.relabelCopy f).has (f m) = true := (i4 _).2 ⟨m, hhas, rfl⟩
  rw [hty, if_pos hg, i5 m hhas, hm, if_neg (by simpa using hne)]

theorem subc_main {c sc : Circuit} {gone : List Name} (h : Inv' c gone) (hsc : Inv' sc []) (name : Name)
    (hclash : ∀ n, sc.has n = true → c.has (pref name n) = false) :
    Inv' (sc.bbs.foldl (fun acc p => acc.setBB (pref name p.1) p.2)
      (sc.outputs.foldl (fun acc n => acc.setOutRaw (pref name n) false)
        (sc.inputs.foldl (fun acc n => acc.setTyRaw (pref name n) "buf")
          (c.graphUpdate (sc.relabelCopy (pref name)))))) gone := by
  have hf : ∀ a b, pref name a = pref name b → a = b := fun a b e => pref_inj name e
  have e1 : ∀ (L : List Name) (c0 : Circuit), L.foldl (fun acc n => acc.setTyRaw (pref name n) "buf") c0 =
      (L.map (pref name)).foldl (fun acc n => acc.setTyRaw n "buf") c0 := fun L c0 => by rw [List.foldl_map]
  have e2 : ∀ (L : List Name) (c0 : Circuit), L.foldl (fun acc n => acc.setOutRaw (pref name n) false) c0 =
      (L.map (pref name)).foldl (fun acc n => acc.setOutRaw n false) c0 := fun L c0 => by rw [List.foldl_map]
  rw [e1, e2]
  have hg := relabelCopy_WS hsc.1 (pref name) hf
  obtain ⟨_, _, _, i4, i5, _⟩ := relabelCopy_view hsc.1 (pref name) hf
  have hdisj : ∀ n, c.has n = true → (sc.relabelCopy (pref name)).has n = true → False := by
    intro n hc hgn
    obtain ⟨m, hm, e⟩ := (i4 n).1 hgn
    subst e
    rw [hclash m hm] at hc; cases hc
  obtain ⟨w, hb, hty⟩ := strip_union h.1 hg (fun n hc hgn => (hdisj n hc hgn).elim)
    (sc.inputs.map (pref name)) (sc.outputs.map (pref name))
    (ins_names_iff hsc.1 (pref name) hf sc.inputs (fun _ => Iff.rfl))
  generalize (List.foldl (fun acc n => acc.setOutRaw n false)
    (List.foldl (fun acc n => acc.setTyRaw n "buf") (c.graphUpdate (sc.relabelCopy (pref name)))
      (sc.inputs.map (pref name))) (sc.outputs.map (pref name))) = F at w hb hty
  have hF : Inv' F gone := by
    refine ⟨w, h.2.ext hb ?_ (fun _ hx => hx)⟩
    intro n _ hc
    have : ¬ (sc.relabelCopy (pref name)).has n = true := fun hgn => hdisj n hc hgn
    rw [hty, if_neg this]
  apply foldl_setBB_Inv (pref name) sc.bbs F gone hF
  intro p hp
  obtain ⟨a, b⟩ := hsc.2 p hp
  constructor
  · intro g hg'
    rw [pref_pin]
    exact strip_ty_of_sub hsc.1 (pref name) hf hty (a g hg' (by simp)) (by decide)
  · intro g hg'
    rw [pref_pin]
    exact strip_ty_of_sub hsc.1 (pref name) hf hty (b g hg' (by simp)) (by decide)

theorem addSubcircuit_spec {c sc : Circuit} {gone : List Name} (h : Inv' c gone) (hsc : Inv' sc [])
    (name : Name) (conns : List (Name × List Name)) :
    Inv' (c.addSubcircuit sc name conns true).1 gone ∧
    ((c.addSubcircuit sc name conns true).2 = .ok ∨ (c.addSubcircuit sc name conns true).2 = .valueError) ∧
    (conns = [] → (c.addSubcircuit sc name conns true).2 ≠ .ok → (c.addSubcircuit sc name conns true).1 = c) := by
  unfold addSubcircuit
  split
  · exact ⟨h, Or.inr rfl, fun _ _ => rfl⟩
  · split
    · exact ⟨h, Or.inr rfl, fun _ _ => rfl⟩
    · rename_i hcl
      rw [not_any_untyped hsc.1]
      simp only [Bool.false_eq_true, if_false]
      split
      · exact ⟨h, Or.inr rfl, fun _ _ => rfl⟩
      · simp only [if_true]
        have hclash : ∀ n, sc.has n = true → c.has (pref name n) = false := by
          intro n hn
          cases hh : c.has (pref name n) with
          | false => rfl
          | true =>
            exfalso; apply hcl
            exact List.any_eq_true.2 ⟨n, (has_iff_mem sc n).1 hn, hh⟩
        have hI := subc_main h hsc name hclash
        obtain ⟨k1, k2⟩ := connectAll_spec (conns.map (fun p =>
          if sc.inputs.contains p.1 then (p.2, [pref name p.1]) else ([pref name p.1], p.2))) _ gone hI
        refine ⟨k1, k2, ?_⟩
        intro hc hne
        subst hc
        simp only [List.map_nil] at hne
        rw [connectAll] at hne
        exact absurd rfl hne

end CG
