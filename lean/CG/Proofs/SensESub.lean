/- helper lemmas for C11 (selected endpoints): `tx.subcircuit(c, nodes)` without `modify_io`, as two folds, the exact
   shape of its result, and its success on lint-clean circuits with addable node names -/
import CG.Tx
import CG.Spec
import CG.Proofs.MiterOk
import CG.Proofs.SensBase
set_option linter.unusedSimpArgs false
set_option linter.unusedVariables false
namespace CG
namespace SensE
open Circuit Miter

/-- body of the node loop of `subcircuit` -/
def subNodeStep (c : Circuit) (sc : Circuit) (node : Name) : E Circuit :=
  match c.attr? node with
  | none => .error .keyError
  | some a =>
    match a.ty with
    | none => .error .keyError
    | some t =>
      if (T.subcircuitL 0).contains t then .error .notImplemented
      else Tx.addC sc { n := node, ty := t, output := a.out.getD false }

/-- body of the edge loop of `subcircuit` -/
def subEdgeStep (nodes : List Name) (sc : Circuit) (e : Name × Name) : E Circuit :=
  if nodes.contains e.1 && nodes.contains e.2 then liftO (sc.connect [e.1] [e.2]) else pure sc

theorem forIn_eq_foldlM {α β : Type} (f : α → β → E (ForInStep β)) (g : β → α → E β)
    (h : ∀ a b, f a b = (g b a >>= fun x => pure (ForInStep.yield x))) :
    ∀ (l : List α) (init : β), forIn l init f = l.foldlM g init := by
  intro l
  induction l with
  | nil => intro init; rfl
  | cons x l ih =>
    intro init
    rw [List.forIn_cons, List.foldlM_cons, h]
    cases g init x with
    | error e => rfl
    | ok r => exact ih r

theorem subcircuit_eq (c : Circuit) (nodes : List Name) (ordE : List (Name × Name) → List (Name × Name)) :
    Tx.subcircuit c nodes false ordE =
      nodes.foldlM (subNodeStep c) ({} : Circuit) >>= fun sc => (ordE c.edges).foldlM (subEdgeStep nodes) sc := by
  unfold Tx.subcircuit
  simp only [Bool.false_eq_true, if_false]
  rw [forIn_eq_foldlM _ (subNodeStep c)]
  · congr 1
    funext sc
    rw [forIn_eq_foldlM _ (subEdgeStep nodes)]
    · cases List.foldlM (subEdgeStep nodes) sc (ordE c.edges) <;> rfl
    · intro e b
      unfold subEdgeStep
      by_cases hx : (nodes.contains e.fst && nodes.contains e.snd) = true
      · rw [if_pos hx, if_pos hx]
      · rw [if_neg hx, if_neg hx]; rfl
  · intro x b
    unfold subNodeStep
    cases c.attr? x with
    | none => rfl
    | some a =>
      dsimp only
      cases a.ty with
      | none => rfl
      | some t =>
        dsimp only
        by_cases ht : (T.subcircuitL 0).contains t = true
        · rw [if_pos ht, if_pos ht]; rfl
        · rw [if_neg ht, if_neg ht]
          unfold Tx.addC
          cases addE b { n := x, ty := t, output := a.out.getD false } <;> rfl

/-- the attribute record `subcircuit` gives to node `x` -/
def subAttr (c : Circuit) (x : Name) : Attr := { ty := c.ty? x, out := some (c.isOut x) }

/-- the exact shape of a successful `subcircuit(c, keep)` -/
structure SubShape (c : Circuit) (keep : List Name) (ordE : List (Name × Name) → List (Name × Name))
    (sc : Circuit) : Prop where
  nodes : sc.nodes = keep.map (fun x => (x, subAttr c x))
  typed : ∀ x ∈ keep, ∃ t, c.ty? x = some t ∧ t ≠ "bb_input" ∧ t ≠ "bb_output"
  edges : sc.edges = (ordE c.edges).filter (fun e => keep.contains e.1 && keep.contains e.2)
  bbs : sc.bbs = []

/-! ### tables -/

theorem T_subcircuitL0 : T.subcircuitL 0 = ["bb_output", "bb_input"] := by decide

/-! ### the node loop -/

/-- what a successful iteration of the node loop did -/
theorem subNodeStep_ok {c s s1 : Circuit} {x : Name} (h : subNodeStep c s x = .ok s1) :
    ∃ a t, c.attr? x = some a ∧ a.ty = some t ∧ (T.subcircuitL 0).contains t = false ∧
      Tx.addC s { n := x, ty := t, output := a.out.getD false } = .ok s1 := by
  unfold subNodeStep at h
  cases ha : c.attr? x with
  | none => rw [ha] at h; cases h
  | some a =>
    rw [ha] at h
    dsimp only at h
    cases ht : a.ty with
    | none => rw [ht] at h; cases h
    | some t =>
      rw [ht] at h
      dsimp only at h
      by_cases hc : (T.subcircuitL 0).contains t = true
      · rw [if_pos hc] at h; cases h
      · rw [if_neg hc] at h
        exact ⟨a, t, rfl, ht, by simpa using hc, h⟩

theorem plain_sub (x : Name) (t : String) (o : Bool) : Plain { n := x, ty := t, output := o } :=
  ⟨rfl, rfl, rfl, List.nodup_nil, List.nodup_nil, fun h => by cases h⟩

theorem subAttr_eq {c : Circuit} {x : Name} {a : Attr} {t : String} (ha : c.attr? x = some a) (ht : a.ty = some t) :
    subAttr c x = { ty := some t, out := some (a.out.getD false) } := by
  unfold subAttr Circuit.ty? Circuit.isOut
  rw [ha]
  simp only [Option.bind_some, ht]

/-- one successful iteration of the node loop appends the node with its `subAttr` record -/
theorem subNodeStep_shape {c s s1 : Circuit} {x : Name} (hs : WF s) (h : subNodeStep c s x = .ok s1) :
    s.has x = false ∧ s1.nodes = s.nodes ++ [(x, subAttr c x)] ∧ s1.edges = s.edges ∧ s1.bbs = s.bbs ∧ WF s1 ∧
      ∃ t, c.ty? x = some t ∧ t ≠ "bb_input" ∧ t ≠ "bb_output" := by
  obtain ⟨a, t, ha, ht, hc, hadd⟩ := subNodeStep_ok h
  have A := addOK_of hs (plain_sub x t (a.out.getD false)) hadd
  refine ⟨A.fresh, ?_, ?_, A.bbs, A.wf, t, ?_, ?_, ?_⟩
  · rw [A.nodes, subAttr_eq ha ht]; rfl
  · rw [A.edges]; simp [newEdges]
  · unfold Circuit.ty?; rw [ha]; exact ht
  · rintro rfl; rw [T_subcircuitL0] at hc; exact absurd hc (by decide)
  · rintro rfl; rw [T_subcircuitL0] at hc; exact absurd hc (by decide)

/-- shape of the node fold from any well-formed start -/
theorem nodeFold_shape (c : Circuit) :
    ∀ (l : List Name) (s s' : Circuit), WF s → l.foldlM (subNodeStep c) s = .ok s' →
      s'.nodes = s.nodes ++ l.map (fun x => (x, subAttr c x)) ∧ s'.edges = s.edges ∧ s'.bbs = s.bbs ∧ WF s' ∧
        ∀ x ∈ l, ∃ t, c.ty? x = some t ∧ t ≠ "bb_input" ∧ t ≠ "bb_output" := by
  intro l
  induction l with
  | nil =>
    intro s s' hs h
    simp only [List.foldlM_nil] at h
    injection h with h
    subst h
    exact ⟨by simp, rfl, rfl, hs, fun x hx => by cases hx⟩
  | cons x l ih =>
    intro s s' hs h
    obtain ⟨s1, h1, h2⟩ := foldlM_cons_ok h
    obtain ⟨_, a1, a2, a3, a4, a5⟩ := subNodeStep_shape hs h1
    obtain ⟨i1, i2, i3, i4, i5⟩ := ih s1 s' a4 h2
    refine ⟨?_, by rw [i2, a2], by rw [i3, a3], i4, ?_⟩
    · rw [i1, a1]; simp
    · intro y hy
      rcases List.mem_cons.1 hy with rfl | hy
      · exact a5
      · exact i5 y hy

theorem wf_empty : WF ({} : Circuit) :=
  ⟨List.nodup_nil, List.nodup_nil, fun e he => by cases he⟩

/-! ### the edge loop -/

theorem addEdges_single (s : Circuit) (u v : Name) : s.addEdges [u] [v] = s.addEdge u v := rfl

/-- what a successful iteration of the edge loop did to a circuit not yet containing the edge -/
theorem subEdgeStep_shape {nodes : List Name} {s s1 : Circuit} {e : Name × Name} (hne : e ∉ s.edges)
    (h : subEdgeStep nodes s e = .ok s1) :
    s1.nodes = s.nodes ∧ s1.bbs = s.bbs ∧
      s1.edges = s.edges ++ [e].filter (fun e => nodes.contains e.1 && nodes.contains e.2) := by
  unfold subEdgeStep at h
  by_cases hp : (nodes.contains e.1 && nodes.contains e.2) = true
  · rw [if_pos hp] at h
    obtain ⟨e1, _⟩ := connect_ok_eq (liftO_ok h)
    subst e1
    rw [addEdges_single, Limit.addEdge_new s e.1 e.2 hne]
    refine ⟨rfl, rfl, ?_⟩
    simp only [List.filter_cons, hp, if_true, List.filter_nil]
  · rw [if_neg hp] at h
    injection h with h
    subst h
    refine ⟨rfl, rfl, ?_⟩
    simp only [List.filter_cons, hp, if_false, List.filter_nil, List.append_nil]
    simp

/-- shape of the edge fold over a duplicate-free list of edges none of which is present -/
theorem edgeFold_shape (nodes : List Name) :
    ∀ (es : List (Name × Name)) (s s' : Circuit), es.Nodup → (∀ e ∈ es, e ∉ s.edges) →
      es.foldlM (subEdgeStep nodes) s = .ok s' →
      s'.nodes = s.nodes ∧ s'.bbs = s.bbs ∧
        s'.edges = s.edges ++ es.filter (fun e => nodes.contains e.1 && nodes.contains e.2) := by
  intro es
  induction es with
  | nil =>
    intro s s' _ _ h
    simp only [List.foldlM_nil] at h
    injection h with h
    subst h
    exact ⟨rfl, rfl, by simp⟩
  | cons e es ih =>
    intro s s' hnd hd h
    obtain ⟨s1, h1, h2⟩ := foldlM_cons_ok h
    obtain ⟨a1, a2, a3⟩ := subEdgeStep_shape (hd e (by simp)) h1
    rw [List.nodup_cons] at hnd
    have hd1 : ∀ e' ∈ es, e' ∉ s1.edges := by
      intro e' he' hm
      rw [a3] at hm
      rcases List.mem_append.1 hm with hm | hm
      · exact hd e' (by simp [he']) hm
      · have := (List.mem_filter.1 hm).1
        simp only [List.mem_singleton] at this
        subst this
        exact hnd.1 he'
    obtain ⟨i1, i2, i3⟩ := ih s1 s' hnd.2 hd1 h2
    refine ⟨by rw [i1, a1], by rw [i2, a2], ?_⟩
    rw [i3, a3, List.append_assoc, ← List.filter_append]
    rfl

theorem subcircuit_shape {c sc : Circuit} {nodes : List Name} {ordE : List (Name × Name) → List (Name × Name)}
    (hwf : WF c) (hordE : ∀ l, (ordE l).Perm l) (hnd : nodes.Nodup)
    (h : Tx.subcircuit c nodes false ordE = .ok sc) : SubShape c nodes ordE sc := by
  rw [subcircuit_eq] at h
  obtain ⟨s1, h1, h2⟩ := bind_ok h
  obtain ⟨n1, e1, b1, w1, t1⟩ := nodeFold_shape c nodes {} s1 wf_empty h1
  have hnd' : (ordE c.edges).Nodup := (hordE c.edges).nodup_iff.2 hwf.edgesNodup
  obtain ⟨n2, b2, e2⟩ := edgeFold_shape nodes (ordE c.edges) s1 sc hnd'
    (fun e _ hm => by rw [e1] at hm; cases hm) h2
  refine ⟨?_, t1, ?_, ?_⟩
  · rw [n2, n1]; rfl
  · rw [e2, e1]; rfl
  · rw [b2, b1]

/-! ### success of the node loop -/

theorem subNodeStep_succeeds {c s : Circuit} {x : Name} (hc : LintClean c) (hfresh : s.has x = false)
    (hx : c.has x = true) (hname : Limit.NameOK x)
    (hnbb : c.ty? x ≠ some "bb_input" ∧ c.ty? x ≠ some "bb_output") : ∃ s1, subNodeStep c s x = .ok s1 := by
  obtain ⟨a, ha⟩ := Limit.attr_of_has hx
  obtain ⟨t, ht, hsup⟩ := hc.typed (x, a) (Limit.mem_nodes_of_attr ha)
  have hty : c.ty? x = some t := by unfold Circuit.ty?; rw [ha]; exact ht
  rw [hty] at hnbb
  have hnot : ¬ (T.subcircuitL 0).contains t = true := by
    rw [T_subcircuitL0]
    intro hm
    simp only [List.contains_iff_mem, List.mem_cons, List.not_mem_nil, or_false] at hm
    rcases hm with rfl | rfl
    · exact hnbb.2 rfl
    · exact hnbb.1 rfl
  unfold subNodeStep
  rw [ha]
  dsimp only
  rw [ht]
  dsimp only
  rw [if_neg hnot]
  exact addC_ok_of s { n := x, ty := t, output := a.out.getD false } (plain_sub x t _) hfresh
    (by rw [Limit.T_supported]; exact List.contains_iff_mem.2 hsup)
    (fun h => absurd h.1 (by simp)) (fun h => h.1 rfl) hname (fun h => absurd rfl h) (fun h => absurd rfl h)

theorem nodeFold_ok {c : Circuit} (hc : LintClean c) :
    ∀ (l : List Name) (s : Circuit), WF s → l.Nodup → (∀ x ∈ l, s.has x = false) →
      (∀ x ∈ l, c.has x = true) → (∀ x ∈ l, Limit.NameOK x) →
      (∀ x ∈ l, c.ty? x ≠ some "bb_input" ∧ c.ty? x ≠ some "bb_output") →
      ∃ s', l.foldlM (subNodeStep c) s = .ok s' := by
  intro l
  induction l with
  | nil => intro s _ _ _ _ _ _; exact ⟨s, rfl⟩
  | cons x l ih =>
    intro s hs hnd hfr hmem hnames hnbb
    obtain ⟨s1, h1⟩ := subNodeStep_succeeds (s := s) hc (hfr x (by simp)) (hmem x (by simp)) (hnames x (by simp))
      (hnbb x (by simp))
    obtain ⟨_, a1, _, _, a4, _⟩ := subNodeStep_shape hs h1
    rw [List.nodup_cons] at hnd
    have hfr1 : ∀ y ∈ l, s1.has y = false := by
      intro y hy
      cases hh : s1.has y with
      | false => rfl
      | true =>
        rcases (Limit.ext_has a1 y).1 hh with h | h
        · rw [hfr y (by simp [hy])] at h; cases h
        · subst h; exact absurd hy hnd.1
    obtain ⟨s', h2⟩ := ih s1 a4 hnd.2 hfr1 (fun y hy => hmem y (by simp [hy])) (fun y hy => hnames y (by simp [hy]))
      (fun y hy => hnbb y (by simp [hy]))
    refine ⟨s', ?_⟩
    rw [List.foldlM_cons, h1]
    exact h2

/-! ### success of the edge loop -/

theorem sub_nodeNames {c s : Circuit} {nodes : List Name} (hn : s.nodes = nodes.map (fun x => (x, subAttr c x))) :
    s.nodeNames = nodes := by
  unfold Circuit.nodeNames
  rw [hn, List.map_map]
  simp [Function.comp_def]

theorem sub_has {c s : Circuit} {nodes : List Name} (hn : s.nodes = nodes.map (fun x => (x, subAttr c x)))
    {x : Name} (hx : x ∈ nodes) : s.has x = true := by
  rw [has_iff_mem, sub_nodeNames hn]; exact hx

theorem sub_ty {c s : Circuit} {nodes : List Name} (hnd : nodes.Nodup)
    (hn : s.nodes = nodes.map (fun x => (x, subAttr c x))) {x : Name} (hx : x ∈ nodes) : s.ty? x = c.ty? x := by
  have hm : (x, subAttr c x) ∈ s.nodes := by rw [hn]; exact List.mem_map.2 ⟨x, hx, rfl⟩
  unfold Circuit.ty?
  rw [attr?_of_mem (by rw [sub_nodeNames hn]; exact hnd) hm]
  rfl

theorem mem_fanin' {s : Circuit} {w v : Name} : w ∈ s.fanin v ↔ (w, v) ∈ s.edges := by
  rw [fanin_eq_faninL, mem_faninL]

/-- one iteration of the edge loop succeeds on a partial sub-circuit of a lint-clean circuit -/
theorem subEdgeStep_succeeds {c s : Circuit} {nodes : List Name} {e : Name × Name} (hc : LintClean c)
    (hnd : nodes.Nodup) (hn : s.nodes = nodes.map (fun x => (x, subAttr c x)))
    (hsub : ∀ e' ∈ s.edges, e' ∈ c.edges) (hnot : e ∉ s.edges) (he : e ∈ c.edges)
    (hnbb : ∀ x ∈ nodes, c.ty? x ≠ some "bb_input" ∧ c.ty? x ≠ some "bb_output") :
    ∃ s1, subEdgeStep nodes s e = .ok s1 := by
  obtain ⟨u, v⟩ := e
  unfold subEdgeStep
  by_cases hp : (nodes.contains u && nodes.contains v) = true
  · rw [if_pos hp]
    rw [Bool.and_eq_true, List.contains_iff_mem, List.contains_iff_mem] at hp
    obtain ⟨hu, hv⟩ := hp
    have hcu : c.has u = true := (hc.closed _ he).1
    have hcv : c.has v = true := (hc.closed _ he).2
    have huv : u ∈ c.fanin v := mem_fanin'.2 he
    have typed : ∀ x, c.has x = true → ∃ t, c.ty? x = some t := by
      intro x hx
      obtain ⟨a, ha⟩ := Limit.attr_of_has hx
      obtain ⟨t, ht, _⟩ := hc.typed (x, a) (Limit.mem_nodes_of_attr ha)
      exact ⟨t, by unfold Circuit.ty?; rw [ha]; exact ht⟩
    have hk : s.connectCheck [u] [v] = none := by
      apply Limit.connectCheck_none
      · intro x hx
        simp only [List.mem_singleton] at hx
        subst hx
        exact sub_has hn hu
      · intro x hx
        simp only [List.mem_singleton] at hx
        subst hx
        exact sub_has hn hv
      · intro x hx
        simp only [List.mem_singleton] at hx
        subst hx
        obtain ⟨t, ht⟩ := typed x hcv
        refine ⟨t, by rw [sub_ty hnd hn hv]; exact ht, ?_, ?_⟩
        · rw [Limit.T_connectL0]
          cases hcon : (["input", "0", "1", "x", "bb_output"] : List String).contains t with
          | false => rfl
          | true =>
            have := hc.noFanin x t ht (List.contains_iff_mem.1 hcon)
            rw [this] at huv
            cases huv
        · rw [Limit.T_connectL1]
          intro hcon
          have hsingle : t ∈ singleTypes := by
            have := List.contains_iff_mem.1 hcon
            simp only [List.mem_cons, List.not_mem_nil, or_false] at this
            unfold singleTypes
            simp only [List.mem_cons, List.not_mem_nil, or_false]
            rcases this with h | h | h
            · exact Or.inr (Or.inr h)
            · exact Or.inl h
            · exact Or.inr (Or.inl h)
          have hlen := hc.single x t ht hsingle
          have hfi : c.fanin x = [u] := by
            cases hl : c.fanin x with
            | nil => rw [hl] at hlen; cases hlen
            | cons a l =>
              rw [hl] at hlen huv
              cases l with
              | nil =>
                simp only [List.mem_singleton] at huv
                rw [huv]
              | cons b l => simp at hlen
          have hs : s.fanin x = [] := by
            apply List.eq_nil_iff_forall_not_mem.2
            intro w hw
            have hw1 : (w, x) ∈ s.edges := mem_fanin'.1 hw
            have hw2 : w ∈ c.fanin x := mem_fanin'.2 (hsub _ hw1)
            rw [hfi] at hw2
            simp only [List.mem_singleton] at hw2
            subst hw2
            exact hnot hw1
          rw [hs]
          simp
      · intro x hx
        simp only [List.mem_singleton] at hx
        subst hx
        obtain ⟨t, ht⟩ := typed x hcu
        have hb := hnbb x hu
        rw [ht] at hb
        refine ⟨t, by rw [sub_ty hnd hn hu]; exact ht, ?_, ?_⟩
        · rw [Limit.T_connectL2]
          cases hcon : (["bb_input"] : List String).contains t with
          | false => rfl
          | true =>
            have := List.contains_iff_mem.1 hcon
            simp only [List.mem_singleton] at this
            subst this
            exact absurd rfl hb.1
        · rw [Limit.T_connectL3]
          cases hcon : (["bb_output"] : List String).contains t with
          | false => rfl
          | true =>
            have := List.contains_iff_mem.1 hcon
            simp only [List.mem_singleton] at this
            subst this
            exact absurd rfl hb.2
    refine ⟨s.addEdges [u] [v], ?_⟩
    show liftO (s.connect [u] [v]) = _
    rw [connect_of_check s [u] [v] (fun _ _ => hk)]
    rfl
  · rw [if_neg hp]
    exact ⟨s, rfl⟩

theorem edgeFold_ok {c : Circuit} {nodes : List Name} (hc : LintClean c) (hnd : nodes.Nodup)
    (hnbb : ∀ x ∈ nodes, c.ty? x ≠ some "bb_input" ∧ c.ty? x ≠ some "bb_output") :
    ∀ (es : List (Name × Name)) (s : Circuit), es.Nodup → (∀ e ∈ es, e ∈ c.edges) →
      (∀ e ∈ s.edges, e ∈ c.edges ∧ e ∉ es) → s.nodes = nodes.map (fun x => (x, subAttr c x)) →
      ∃ s', es.foldlM (subEdgeStep nodes) s = .ok s' := by
  intro es
  induction es with
  | nil => intro s _ _ _ _; exact ⟨s, rfl⟩
  | cons e es ih =>
    intro s hes hin hs hn
    rw [List.nodup_cons] at hes
    have hnot : e ∉ s.edges := fun hm => (hs e hm).2 (by simp)
    obtain ⟨s1, h1⟩ := subEdgeStep_succeeds hc hnd hn (fun e' he' => (hs e' he').1) hnot (hin e (by simp)) hnbb
    obtain ⟨a1, _, a3⟩ := subEdgeStep_shape hnot h1
    have hs1 : ∀ e' ∈ s1.edges, e' ∈ c.edges ∧ e' ∉ es := by
      intro e' he'
      rw [a3] at he'
      rcases List.mem_append.1 he' with hm | hm
      · exact ⟨(hs e' hm).1, fun h => (hs e' hm).2 (by simp [h])⟩
      · have := (List.mem_filter.1 hm).1
        simp only [List.mem_singleton] at this
        subst this
        exact ⟨hin e' (by simp), hes.1⟩
    obtain ⟨s', h2⟩ := ih s1 hes.2 (fun e' he' => hin e' (by simp [he'])) hs1 (by rw [a1, hn])
    refine ⟨s', ?_⟩
    rw [List.foldlM_cons, h1]
    exact h2

theorem subcircuit_ok {c : Circuit} {nodes : List Name} {ordE : List (Name × Name) → List (Name × Name)}
    (hc : LintClean c) (hordE : ∀ l, (ordE l).Perm l) (hnd : nodes.Nodup)
    (hmem : ∀ x ∈ nodes, c.has x = true) (hnames : ∀ x ∈ nodes, Limit.NameOK x)
    (hnbb : ∀ x ∈ nodes, c.ty? x ≠ some "bb_input" ∧ c.ty? x ≠ some "bb_output") :
    ∃ sc, Tx.subcircuit c nodes false ordE = .ok sc := by
  obtain ⟨s1, h1⟩ := nodeFold_ok hc nodes {} wf_empty hnd (fun _ _ => rfl) hmem hnames hnbb
  obtain ⟨n1, e1, _, _, _⟩ := nodeFold_shape c nodes {} s1 wf_empty h1
  have hnd' : (ordE c.edges).Nodup := (hordE c.edges).nodup_iff.2 hc.edgesNodup
  obtain ⟨sc, h2⟩ := edgeFold_ok hc hnd hnbb (ordE c.edges) s1 hnd'
    (fun e he => (hordE c.edges).mem_iff.1 he) (fun e he => by rw [e1] at he; cases he)
    (by rw [n1]; rfl)
  refine ⟨sc, ?_⟩
  rw [subcircuit_eq, h1]
  exact h2

end SensE
end CG
