/- C20 (second half, fill_blackbox): machine-checked counterexamples to `C20.fill_blackbox_passes_lint` as stated
   (lint-clean arguments with consistent registries, a dot-free instance name, a fully attributed child whose outputs are
   neither blackbox pins nor inputs, and a successful call do NOT imply that the result passes lint), and a non-vacuity
   check for the corrected theorem. -/
import CG.Proofs.LintProdE4
namespace CG
namespace LintProdECex
open LintProdE

/-- the child used in the first counterexample: a buffer `d → q` -/
def subBuf : Circuit :=
  { name := "ff",
    nodes := [("d", { ty := some "input", out := some false }), ("q", { ty := some "buf", out := some true })],
    edges := [("d", "q")] }

/-- first counterexample: a dotted node that is named after the instance but is not one of its pins.  `u.zz` is an
    ordinary buffer; lint accepts it because `u` is in the registry.  `fill_blackbox` renames the pins `u.d`, `u.q`,
    removes `u` from the registry and leaves `u.zz` behind under its dotted name, which lint then rejects. -/
def cexDot : Circuit :=
  { nodes := [("a", { ty := some "input", out := some false }),
              ("u.d", { ty := some "bb_input", out := some false }),
              ("u.q", { ty := some "bb_output", out := some false }),
              ("o", { ty := some "buf", out := some true }),
              ("u.zz", { ty := some "buf", out := some true })],
    edges := [("a", "u.d"), ("u.q", "o"), ("a", "u.zz")],
    bbs := [("u", { name := "ff", ins := ["d"], outs := ["q"] })] }

/-- the same parent without the stray node: the corrected theorem applies to it -/
def goodP : Circuit :=
  { nodes := [("a", { ty := some "input", out := some false }),
              ("u.d", { ty := some "bb_input", out := some false }),
              ("u.q", { ty := some "bb_output", out := some false }),
              ("o", { ty := some "buf", out := some true })],
    edges := [("a", "u.d"), ("u.q", "o")],
    bbs := [("u", { name := "ff", ins := ["d"], outs := ["q"] })] }

/-- the child used in the second counterexample: one input named `p.y`, after its own (pin-less) instance `p` -/
def subDotted : Circuit :=
  { name := "m",
    nodes := [("p.y", { ty := some "input", out := some false })],
    edges := [], bbs := [("p", { name := "e", ins := [], outs := [] })] }

/-- second counterexample: two recorded instances share a pin node.  The node `u.p.y` is pin `p.y` of the instance `u`
    and at the same time pin `y` of the instance `u.p`.  Filling `u` renames it to `u_p.y`; the instance `u.p` stays
    in the registry without its pin node, which lint rejects. -/
def cexShared : Circuit :=
  { nodes := [("a", { ty := some "input", out := some false }),
              ("u.p.y", { ty := some "bb_input", out := some false })],
    edges := [("a", "u.p.y")],
    bbs := [("u", { name := "m", ins := ["p.y"], outs := [] }), ("u.p", { name := "k", ins := ["y"], outs := [] })] }

theorem ordOK_id : C20.OrdOK id := fun l => List.Perm.refl l

theorem subBuf_hyps : LintClean subBuf ∧ C20.RegistryOK subBuf :=
  C20.lintClean_of_lint_ok subBuf id ordOK_id ⟨by decide, by decide, by decide⟩ (by decide) (by decide)

theorem subDotted_hyps : LintClean subDotted ∧ C20.RegistryOK subDotted :=
  C20.lintClean_of_lint_ok subDotted id ordOK_id ⟨by decide, by decide, by decide⟩ (by decide) (by decide)

theorem cexDot_hyps : LintClean cexDot ∧ C20.RegistryOK cexDot :=
  C20.lintClean_of_lint_ok cexDot id ordOK_id ⟨by decide, by decide, by decide⟩ (by decide) (by decide)

theorem goodP_hyps : LintClean goodP ∧ C20.RegistryOK goodP :=
  C20.lintClean_of_lint_ok goodP id ordOK_id ⟨by decide, by decide, by decide⟩ (by decide) (by decide)

theorem cexShared_hyps : LintClean cexShared ∧ C20.RegistryOK cexShared :=
  C20.lintClean_of_lint_ok cexShared id ordOK_id ⟨by decide, by decide, by decide⟩ (by decide) (by decide)

/-- the remaining hypotheses of `C20.fill_blackbox_passes_lint` about the child -/
def ChildOK (sub : Circuit) : Prop :=
  (∀ p ∈ sub.nodes, p.2.ty.isSome = true ∧ p.2.out.isSome = true) ∧
  (∀ n ∈ sub.outputs, sub.ty? n ≠ some "bb_input" ∧ sub.ty? n ≠ some "bb_output") ∧
  (∀ n ∈ sub.outputs, n ∉ sub.inputs)

theorem subBuf_child : ChildOK subBuf := ⟨by decide, by decide, by decide⟩
theorem subDotted_child : ChildOK subDotted := ⟨by decide, by decide, by decide⟩

/-- the call succeeds and its result is rejected by lint -/
theorem cexDot_fails :
    (cexDot.fillBlackbox "u" subBuf id).2 = Outcome.ok ∧
    lint (cexDot.fillBlackbox "u" subBuf id).1 {} id = Outcome.valueError := by
  decide +kernel

theorem cexShared_fails :
    (cexShared.fillBlackbox "u" subDotted id).2 = Outcome.ok ∧
    lint (cexShared.fillBlackbox "u" subDotted id).1 {} id = Outcome.valueError := by
  decide +kernel

/-- the statement of `C20.fill_blackbox_passes_lint`, universally closed -/
def Statement : Prop :=
  ∀ (P sub P' : Circuit) (inst : Name) (ord ord' : Ord), C20.OrdOK ord → C20.OrdOK ord' →
    LintClean P → C20.RegistryOK P → LintClean sub → C20.RegistryOK sub → hasDot inst = false →
    (∀ p ∈ sub.nodes, p.2.ty.isSome = true ∧ p.2.out.isSome = true) →
    (∀ n ∈ sub.outputs, sub.ty? n ≠ some "bb_input" ∧ sub.ty? n ≠ some "bb_output") →
    (∀ n ∈ sub.outputs, n ∉ sub.inputs) →
    P.fillBlackbox inst sub ord = (P', .ok) → lint P' {} ord' = Outcome.ok

private theorem refute (P sub : Circuit) (inst : Name) (hP : LintClean P ∧ C20.RegistryOK P)
    (hsub : LintClean sub ∧ C20.RegistryOK sub) (hinst : hasDot inst = false) (hch : ChildOK sub)
    (hf : (P.fillBlackbox inst sub id).2 = Outcome.ok ∧
      lint (P.fillBlackbox inst sub id).1 {} id = Outcome.valueError) : ¬ Statement := by
  intro hall
  have hrun : P.fillBlackbox inst sub id = ((P.fillBlackbox inst sub id).1, .ok) := Prod.ext rfl hf.1
  have hok := hall P sub _ inst id id ordOK_id ordOK_id hP.1 hP.2 hsub.1 hsub.2 hinst hch.1 hch.2.1 hch.2.2 hrun
  rw [hf.2] at hok
  cases hok

/-- **the statement `C20.fill_blackbox_passes_lint` is false as given** (a dotted non-pin node named after the
    instance) -/
theorem fill_blackbox_passes_lint_false : ¬ Statement :=
  refute cexDot subBuf "u" cexDot_hyps subBuf_hyps (by decide) subBuf_child cexDot_fails

/-- the second, independent reason (another recorded instance claims a pin node of the filled one) -/
theorem fill_blackbox_passes_lint_false' : ¬ Statement :=
  refute cexShared subDotted "u" cexShared_hyps subDotted_hyps (by decide) subDotted_child cexShared_fails

/-! the two counterexamples are independent: each satisfies the side condition the other one violates -/

theorem cexDot_notShared : PinsNotShared cexDot "u" :=
  pinsNotShared_of_nodot (by decide) (by decide)

theorem cexShared_dots : DotsArePinsOf cexShared "u" := by
  intro bb hbb
  have e : bb = { name := "m", ins := ["p.y"], outs := [] } := by
    have : cexShared.bbs.lookup "u" = some { name := "m", ins := ["p.y"], outs := [] } := by decide
    rw [this] at hbb
    injection hbb with hbb
    exact hbb.symm
  subst e
  decide

/-! non-vacuity of the corrected theorem: the flop-like instance `u` of `goodP` filled with the buffer `subBuf` -/

theorem goodP_dots : DotsArePinsOf goodP "u" := by
  intro bb hbb
  have e : bb = { name := "ff", ins := ["d"], outs := ["q"] } := by
    have : goodP.bbs.lookup "u" = some { name := "ff", ins := ["d"], outs := ["q"] } := by decide
    rw [this] at hbb
    injection hbb with hbb
    exact hbb.symm
  subst e
  decide

theorem goodP_notShared : PinsNotShared goodP "u" :=
  pinsNotShared_of_nodot (by decide) (by decide)

theorem goodP_runs : (goodP.fillBlackbox "u" subBuf id).2 = Outcome.ok := by decide +kernel

/-- … and the corrected theorem gives what direct evaluation confirms -/
theorem goodP_passes : lint (goodP.fillBlackbox "u" subBuf id).1 {} id = Outcome.ok :=
  fill_passes_lint goodP subBuf _ "u" id id ordOK_id ordOK_id goodP_hyps.1 goodP_hyps.2 subBuf_hyps.1 subBuf_hyps.2
    (by decide) subBuf_child.1 subBuf_child.2.1 goodP_dots goodP_notShared (Prod.ext rfl goodP_runs)

example : lint (goodP.fillBlackbox "u" subBuf id).1 {} id = Outcome.ok := by decide +kernel

end LintProdECex
end CG
