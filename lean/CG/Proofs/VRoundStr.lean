/- C03 helper: string facts about pin names `inst ++ "." ++ g` and plain identifiers -/
import CG.Proofs.LimitUid
namespace CG
namespace VR
open Circuit

theorem pin_toList (inst g : Name) : (inst ++ "." ++ g).toList = inst.toList ++ '.' :: g.toList := by
  rw [String.toList_append, String.toList_append]
  simp

theorem pin_inj_right {inst g g' : Name} (h : inst ++ "." ++ g = inst ++ "." ++ g') : g = g' := by
  have := congrArg String.toList h
  rw [pin_toList, pin_toList] at this
  have h2 := List.append_cancel_left this
  injection h2 with _ h3
  exact String.toList_injective h3

theorem split_dot : ∀ (a b c d : List Char), ¬ '.' ∈ a → ¬ '.' ∈ c → a ++ '.' :: b = c ++ '.' :: d → a = c ∧ b = d
  | [], b, [], d, _, _, h => by simpa using h
  | [], b, y :: c, d, _, hc, h => by
    simp only [List.nil_append, List.cons_append, List.cons.injEq] at h
    exact absurd (by rw [← h.1]; simp) hc
  | x :: a, b, [], d, ha, _, h => by
    simp only [List.nil_append, List.cons_append, List.cons.injEq] at h
    exact absurd (by rw [h.1]; simp) ha
  | x :: a, b, y :: c, d, ha, hc, h => by
    simp only [List.cons_append, List.cons.injEq] at h
    obtain ⟨r1, r2⟩ := split_dot a b c d (fun h' => ha (by simp [h'])) (fun h' => hc (by simp [h'])) h.2
    exact ⟨by rw [h.1, r1], r2⟩

/-- pin names decompose uniquely when the instance names have no dot -/
theorem pin_inj {i g i' g' : Name} (hi : ¬ i.toList.contains '.') (hi' : ¬ i'.toList.contains '.')
    (h : i ++ "." ++ g = i' ++ "." ++ g') : i = i' ∧ g = g' := by
  have := congrArg String.toList h
  rw [pin_toList, pin_toList] at this
  obtain ⟨r1, r2⟩ := split_dot _ _ _ _ (by simpa using hi) (by simpa using hi') this
  exact ⟨String.toList_injective r1, String.toList_injective r2⟩

theorem pin_has_dot (i g : Name) : (i ++ "." ++ g).toList.contains '.' = true := by
  rw [pin_toList]; simp

theorem ne_pin_of_nodot {x : Name} (hx : ¬ x.toList.contains '.') (i g : Name) : x ≠ i ++ "." ++ g := by
  intro h; rw [h, pin_has_dot] at hx; exact hx rfl

theorem nameOK_pin {i : Name} (h : Limit.NameOK i) (g : Name) : Limit.NameOK (i ++ "." ++ g) := by
  rw [String.append_assoc]; exact h.append _

theorem startsWith_bs_iff (s : Name) : s.startsWith "\\" = true ↔ ∃ l, s.toList = '\\' :: l := by
  rw [String.startsWith_string_iff]
  constructor
  · rintro ⟨t, ht⟩; exact ⟨t, by rw [← ht]; rfl⟩
  · rintro ⟨l, hl⟩; exact ⟨l, by rw [hl]; rfl⟩

theorem startsWith_pin {i : Name} (hne : i ≠ "") (h : ¬ i.startsWith "\\" = true) (g : Name) :
    ¬ (i ++ "." ++ g).startsWith "\\" = true := by
  rw [startsWith_bs_iff] at h ⊢
  rintro ⟨l, hl⟩
  rw [pin_toList] at hl
  cases hi : i.toList with
  | nil => exact hne (String.toList_injective (by rw [hi]; rfl))
  | cons ch r =>
    rw [hi] at hl
    simp only [List.cons_append, List.cons.injEq] at hl
    exact h ⟨r, by rw [hi, hl.1]⟩

end VR
end CG
