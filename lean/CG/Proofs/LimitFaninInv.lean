/- one grouping step of limit_fanin preserves LintClean and is a refinement (C05 helper) -/
import CG.Proofs.LimitFanin
set_option linter.unusedSectionVars false
namespace CG
namespace Limit
open Circuit

theorem gate2_some {g : String} (hg : g ∈ ["and", "or", "xor"]) (a b : Bool) :
    gateFn g [a, b] = some ((gateFn g [a, b]).getD false) := by
  simp only [List.mem_cons, List.not_mem_nil, or_false] at hg
  rcases hg with rfl | rfl | rfl <;> simp [gateFn]

namespace FaninPre
variable {c : Circuit} {n f0 f1 r : Name} {t g : String} (h : FaninPre c n f0 f1 r t g)
include h

theorem hn : (faninStep c n f0 f1 r g).nodes = c.nodes ++ [(r, gateAttr g)] := rfl

theorem nbb0 : c.ty? f0 ≠ some "bb_output" := fun hh =>
  (multi_facts h.tm).2.2.1 (by have := (h.lc.bbOut _ h.e0 hh).1; rw [h.ty] at this; exact Option.some.inj this)

theorem nbb1 : c.ty? f1 ≠ some "bb_output" := fun hh =>
  (multi_facts h.tm).2.2.1 (by have := (h.lc.bbOut _ h.e1 hh).1; rw [h.ty] at this; exact Option.some.inj this)

theorem gmulti : g ∈ multiTypes := (gate_facts h.gg).2.2.2.2.2.1

theorem step_wf : WF (faninStep c n f0 f1 r g) := by
  constructor
  · rw [ext_nodeNames h.hn, List.nodup_append]
    refine ⟨h.lc.nodup, by simp, ?_⟩
    intro a ha b hb
    rw [List.mem_singleton.mp hb]
    rintro rfl
    have := (RU.has_iff c a).mpr ha
    rw [h.fresh] at this
    cases this
  · show (c.edges.filter _ ++ [(r, n), (f0, r), (f1, r)]).Nodup
    rw [List.nodup_append]
    refine ⟨List.Pairwise.filter _ h.lc.edgesNodup, ?_, ?_⟩
    · have h1 := h.r0
      have h2 := h.r1
      have h3 := h.ne
      simp [Ne.symm h1, Ne.symm h2, h3]
    · intro a ha b hb
      have hne := h.noedge a (List.mem_filter.mp ha).1
      simp only [List.mem_cons, List.not_mem_nil, or_false] at hb
      rcases hb with rfl | rfl | rfl
      · intro he; exact hne.1 (by rw [he])
      · intro he; exact hne.2 (by rw [he])
      · intro he; exact hne.2 (by rw [he])
  · intro e he
    rcases (faninStep_mem_edges c n f0 f1 r g e).mp he with ⟨he, _⟩ | rfl | rfl | rfl
    · exact ⟨(ext_has h.hn _).mpr (Or.inl (h.lc.closed e he).1), (ext_has h.hn _).mpr (Or.inl (h.lc.closed e he).2)⟩
    · exact ⟨(ext_has h.hn _).mpr (Or.inr rfl), (ext_has h.hn _).mpr (Or.inl h.hasn)⟩
    · exact ⟨(ext_has h.hn _).mpr (Or.inl h.has0), (ext_has h.hn _).mpr (Or.inr rfl)⟩
    · exact ⟨(ext_has h.hn _).mpr (Or.inl h.has1), (ext_has h.hn _).mpr (Or.inr rfl)⟩

/-- a typed node of the new circuit is an old node different from `r` with its old type, or `r` with type `g` -/
theorem ty_cases {m : Name} {t' : String} (hty : (faninStep c n f0 f1 r g).ty? m = some t') :
    (c.has m = true ∧ m ≠ r ∧ c.ty? m = some t') ∨ (m = r ∧ t' = g) := by
  rcases ext_ty_cases h.hn h.fresh hty with ⟨h1, h2⟩ | ⟨h1, h2⟩
  · refine Or.inl ⟨h1, ?_, h2⟩
    rintro rfl
    rw [h.fresh] at h1
    cases h1
  · exact Or.inr ⟨h1, (Option.some.inj h2).symm⟩

theorem ty_old {m : Name} (hm : c.has m = true) : (faninStep c n f0 f1 r g).ty? m = c.ty? m :=
  ext_ty_old h.hn hm

theorem ty_r : (faninStep c n f0 f1 r g).ty? r = some g := ext_ty_new h.hn h.fresh

theorem step_typed : ∀ p ∈ (faninStep c n f0 f1 r g).nodes, ∃ t, p.2.ty = some t ∧ t ∈ Expected.supported_types := by
  intro p hp
  rw [h.hn, List.mem_append] at hp
  rcases hp with hp | hp
  · exact h.lc.typed p hp
  · rw [List.mem_singleton.mp hp]
    exact ⟨g, rfl, (gate_facts h.gg).2.2.2.2.2.2.2⟩

theorem step_noFanin : ∀ m t', (faninStep c n f0 f1 r g).ty? m = some t' → t' ∈ sourceTypes →
    (faninStep c n f0 f1 r g).fanin m = [] := by
  intro m t' hty hs
  rcases h.ty_cases hty with ⟨h1, h2, h3⟩ | ⟨_, rfl⟩
  · have hmn : m ≠ n := by
      rintro rfl
      rw [h.ty] at h3
      exact (multi_facts h.tm).2.2.2.1 (by rw [Option.some.inj h3]; exact hs)
    rw [faninStep_fanin_other c n f0 f1 r g hmn h2]
    exact h.lc.noFanin m t' h3 hs
  · exact absurd hs (multi_facts h.gmulti).2.2.2.1

theorem step_single : ∀ m t', (faninStep c n f0 f1 r g).ty? m = some t' → t' ∈ singleTypes →
    ((faninStep c n f0 f1 r g).fanin m).length = 1 := by
  intro m t' hty hs
  rcases h.ty_cases hty with ⟨h1, h2, h3⟩ | ⟨_, rfl⟩
  · have hmn : m ≠ n := by
      rintro rfl
      rw [h.ty] at h3
      exact (multi_facts h.tm).2.2.2.2.1 (by rw [Option.some.inj h3]; exact hs)
    rw [faninStep_fanin_other c n f0 f1 r g hmn h2]
    exact h.lc.single m t' h3 hs
  · exact absurd hs (multi_facts h.gmulti).2.2.2.2.1

theorem step_multi : ∀ m t', (faninStep c n f0 f1 r g).ty? m = some t' → t' ∈ multiTypes →
    1 ≤ ((faninStep c n f0 f1 r g).fanin m).length := by
  intro m t' hty hs
  rcases h.ty_cases hty with ⟨h1, h2, h3⟩ | ⟨rfl, _⟩
  · by_cases hmn : m = n
    · subst hmn
      rw [h.fanin_n]
      simp
    · rw [faninStep_fanin_other c n f0 f1 r g hmn h2]
      exact h.lc.multi m t' h3 hs
  · rw [h.fanin_r]
    simp

theorem step_bbOut : ∀ e ∈ (faninStep c n f0 f1 r g).edges,
    (faninStep c n f0 f1 r g).ty? e.1 = some "bb_output" →
    (faninStep c n f0 f1 r g).ty? e.2 = some "buf" ∧ ((faninStep c n f0 f1 r g).fanout e.1).length ≤ 1 := by
  intro e he hty
  have hgb : g ≠ "bb_output" := (multi_facts h.gmulti).2.2.2.2.2.1
  rcases (faninStep_mem_edges c n f0 f1 r g e).mp he with ⟨he, _⟩ | rfl | rfl | rfl
  · have hc1 := (h.lc.closed e he).1
    have hc2 := (h.lc.closed e he).2
    rw [h.ty_old hc1] at hty
    have hb := h.lc.bbOut e he hty
    rw [h.ty_old hc2]
    refine ⟨hb.1, ?_⟩
    have h0 : e.1 ≠ f0 := by intro he0; rw [he0] at hty; exact h.nbb0 hty
    have h1 : e.1 ≠ f1 := by intro he1; rw [he1] at hty; exact h.nbb1 hty
    rw [faninStep_fanout_other c n f0 f1 r g h0 h1 (h.noedge e he).1]
    exact hb.2
  · rw [h.ty_r] at hty
    exact absurd (Option.some.inj hty) hgb
  · rw [h.ty_old h.has0] at hty
    exact absurd hty h.nbb0
  · rw [h.ty_old h.has1] at hty
    exact absurd hty h.nbb1

theorem step_noBBIn : ∀ e ∈ (faninStep c n f0 f1 r g).edges,
    (faninStep c n f0 f1 r g).ty? e.1 ≠ some "bb_input" := by
  intro e he
  have hgb : g ≠ "bb_input" := (multi_facts h.gmulti).2.2.2.2.2.2
  rcases (faninStep_mem_edges c n f0 f1 r g e).mp he with ⟨he, _⟩ | rfl | rfl | rfl
  · rw [h.ty_old (h.lc.closed e he).1]
    exact h.lc.noBBInFanout e he
  · rw [h.ty_r]
    exact fun hh => hgb (Option.some.inj hh)
  · rw [h.ty_old h.has0]
    exact h.lc.noBBInFanout _ h.e0
  · rw [h.ty_old h.has1]
    exact h.lc.noBBInFanout _ h.e1

theorem step_lintClean : LintClean (faninStep c n f0 f1 r g) :=
  { toWF := h.step_wf, typed := h.step_typed, noFanin := h.step_noFanin, single := h.step_single,
    multi := h.step_multi, bbOut := h.step_bbOut, noBBInFanout := h.step_noBBIn }

theorem step_refines : Refines c (faninStep c n f0 f1 r g) id := by
  have hnotin : ∀ m, r ∉ c.fanin m := by
    intro m hm
    exact (h.noedge _ ((RU.mem_fanin c r m).mp hm)).1 rfl
  apply refines_ext h.hn h.fresh (g := g) rfl hnotin (fun w => (gateFn g [w f0, w f1]).getD false)
  · intro w b
    simp only [upd_ne w b h.r0, upd_ne w b h.r1]
  · intro w
    rw [h.fanin_r]
    exact gate2_some h.gg _ _
  · intro w hw p hp t' ht'
    have hpr : p.1 ≠ r := by
      intro he
      have : c.has p.1 = true := (RU.has_iff_exists c p.1).mpr ⟨p.2, hp⟩
      rw [he, h.fresh] at this
      cases this
    by_cases hpn : p.1 = n
    · have htt : t' = t := by
        have ha := RU.attr_of_mem c h.lc.nodup p.1 p.2 hp
        have hty := h.ty
        rw [← hpn] at hty
        simp only [Circuit.ty?, ha, Option.bind_some] at hty
        rw [ht'] at hty
        exact Option.some.inj hty
      subst htt
      rw [hpn, h.fanin_n, List.map_append, List.map_singleton]
      have hp1 : (List.map w ((c.fanin n).filter (fun x => !(x == f0 || x == f1))) ++ [w r]).Perm
          (w r :: List.map w ((c.fanin n).filter (fun x => !(x == f0 || x == f1)))) :=
        List.perm_append_singleton _ _
      rw [gateFn_perm_any t' hp1, gateFn_perm_any t' (h.fanin_perm.map w)]
      simp only [List.map_cons]
      rw [gatemap_assoc t' g h.gm, gate2_some h.gg, hw]
      rfl
    · rw [faninStep_fanin_other c n f0 f1 r g hpn hpr]

end FaninPre
end Limit
end CG
