/- C15 (character level) helper: a declarative semantics `Den` of the regular expressions of CG.Regex over suffixes of
   the text, and soundness of the backtracking matcher `Regex.m` with respect to it (for every fuel). -/
import CG.Regex
namespace CG
namespace BenchText
open Regex

/-- `n` progressing iterations of `R` -/
def Iter (R : List Char → Caps → List Char → Caps → Prop) : Nat → List Char → Caps → List Char → Caps → Prop
  | 0, s, c, s', c' => s' = s ∧ c' = c
  | n + 1, s, c, s', c' => ∃ s1 c1, R s c s1 c1 ∧ s1.length ≠ s.length ∧ Iter R n s1 c1 s' c'

/-- the word-boundary test of the matcher at position `pos` -/
def wbAt (ctx : Ctx) (pos : Nat) : Bool :=
  let isW := fun (i : Nat) => if h : i < ctx.s.size then CSet.mem { ranges := wordRanges } ctx.s[i] else false
  let before := if pos == 0 then false else isW (pos - 1)
  before != isW pos

/-- `Den ctx r s c s' c'`: from the suffix `s` of the text with captures `c`, `r` can consume a prefix of `s`, leaving
    the suffix `s'`, with captures `c'` (positions are recovered from the lengths of the suffixes) -/
def Den (ctx : Ctx) : Re → List Char → Caps → List Char → Caps → Prop
  | .eps => fun s c s' c' => s' = s ∧ c' = c
  | .set S => fun s c s' c' => ∃ x, s = x :: s' ∧ S.mem x = true ∧ c' = c
  | .any => fun s c s' c' => ∃ x, s = x :: s' ∧ (ctx.dotall || x != '\n') = true ∧ c' = c
  | .wordb => fun s c s' c' => wbAt ctx (ctx.s.size - s.length) = true ∧ s' = s ∧ c' = c
  | .seq a b => fun s c s' c' => ∃ s1 c1, Den ctx a s c s1 c1 ∧ Den ctx b s1 c1 s' c'
  | .alt a b => fun s c s' c' => Den ctx a s c s' c' ∨ Den ctx b s c s' c'
  | .group idx r => fun s c s' c' =>
      ∃ c1, Den ctx r s c s' c1 ∧ c' = (idx, ctx.s.size - s.length, ctx.s.size - s'.length) :: c1
  | .opt r _ => fun s c s' c' => Den ctx r s c s' c' ∨ (s' = s ∧ c' = c)
  | .star r _ => fun s c s' c' => ∃ n, Iter (Den ctx r) n s c s' c'
  | .plus r _ => fun s c s' c' => ∃ s1 c1, Den ctx r s c s1 c1 ∧ ∃ n, Iter (Den ctx r) n s1 c1 s' c'

theorem Iter.suffix {R : List Char → Caps → List Char → Caps → Prop}
    (hR : ∀ s c s' c', R s c s' c' → ∃ w, s = w ++ s') :
    ∀ n s c s' c', Iter R n s c s' c' → ∃ w, s = w ++ s'
  | 0, s, c, s', c', h => ⟨[], by rw [h.1]; rfl⟩
  | n + 1, s, c, s', c', ⟨s1, c1, h1, _, h2⟩ => by
    obtain ⟨w1, e1⟩ := hR _ _ _ _ h1
    obtain ⟨w2, e2⟩ := Iter.suffix hR n _ _ _ _ h2
    exact ⟨w1 ++ w2, by rw [e1, e2, List.append_assoc]⟩

/-- a regular expression consumes a prefix -/
theorem Den.suffix (ctx : Ctx) : ∀ r s c s' c', Den ctx r s c s' c' → ∃ w, s = w ++ s' := by
  intro r
  induction r with
  | eps => intro s c s' c' h; exact ⟨[], by rw [h.1]; rfl⟩
  | set S => intro s c s' c' ⟨x, e, _⟩; exact ⟨[x], by rw [e]; rfl⟩
  | any => intro s c s' c' ⟨x, e, _⟩; exact ⟨[x], by rw [e]; rfl⟩
  | wordb => intro s c s' c' h; exact ⟨[], by rw [h.2.1]; rfl⟩
  | seq a b iha ihb =>
    intro s c s' c' ⟨s1, c1, h1, h2⟩
    obtain ⟨w1, e1⟩ := iha _ _ _ _ h1
    obtain ⟨w2, e2⟩ := ihb _ _ _ _ h2
    exact ⟨w1 ++ w2, by rw [e1, e2, List.append_assoc]⟩
  | alt a b iha ihb =>
    intro s c s' c' h
    rcases h with h | h
    · exact iha _ _ _ _ h
    · exact ihb _ _ _ _ h
  | group idx r ih => intro s c s' c' ⟨c1, h, _⟩; exact ih _ _ _ _ h
  | opt r g ih =>
    intro s c s' c' h
    rcases h with h | h
    · exact ih _ _ _ _ h
    · exact ⟨[], by rw [h.1]; rfl⟩
  | star r g ih => intro s c s' c' ⟨n, h⟩; exact Iter.suffix ih n _ _ _ _ h
  | plus r g ih =>
    intro s c s' c' ⟨s1, c1, h1, n, h2⟩
    obtain ⟨w1, e1⟩ := ih _ _ _ _ h1
    obtain ⟨w2, e2⟩ := Iter.suffix ih n _ _ _ _ h2
    exact ⟨w1 ++ w2, by rw [e1, e2, List.append_assoc]⟩

/-- the text of a context -/
abbrev txt (ctx : Ctx) : List Char := ctx.s.toList

theorem txt_length (ctx : Ctx) : (txt ctx).length = ctx.s.size := by simp [txt]

theorem drop_length (ctx : Ctx) (p : Nat) : ((txt ctx).drop p).length = ctx.s.size - p := by
  rw [List.length_drop, txt_length]

theorem pos_drop (ctx : Ctx) {p : Nat} (hp : p ≤ ctx.s.size) : ctx.s.size - ((txt ctx).drop p).length = p := by
  rw [drop_length]; omega

/-- what is left of a suffix of the text is a suffix of the text -/
theorem drop_of_append (ctx : Ctx) {p : Nat} {w s' : List Char} (hp : p ≤ ctx.s.size)
    (h : (txt ctx).drop p = w ++ s') :
    ctx.s.size - s'.length ≤ ctx.s.size ∧ (txt ctx).drop (ctx.s.size - s'.length) = s' ∧
      ctx.s.size - s'.length = p + w.length := by
  have hl : ctx.s.size - p = w.length + s'.length := by
    rw [← drop_length, h, List.length_append]
  have e : ctx.s.size - s'.length = p + w.length := by omega
  refine ⟨Nat.sub_le _ _, ?_, e⟩
  rw [e, ← List.drop_drop, h, List.drop_left]

theorem drop_cons (ctx : Ctx) {p : Nat} (hp : p < ctx.s.size) :
    (txt ctx).drop p = ctx.s[p] :: (txt ctx).drop (p + 1) := by
  have : p < (txt ctx).length := by rw [txt_length]; exact hp
  rw [List.drop_eq_getElem_cons this]
  simp [txt]

/-- **soundness of the matcher**: a successful run is a declarative match followed by a successful continuation -/
theorem m_sound (ctx : Ctx) : ∀ (fuel : Nat) (r : Re) (pos : Nat) (caps : Caps) (k : Nat → Caps → Option (Nat × Caps))
    (x : Nat × Caps), pos ≤ ctx.s.size → m ctx fuel r pos caps k = some x →
    ∃ s' c', Den ctx r ((txt ctx).drop pos) caps s' c' ∧ k (ctx.s.size - s'.length) c' = some x := by
  intro fuel
  induction fuel with
  | zero => intro r pos caps k x _ h; simp [m] at h
  | succ f ih =>
    intro r pos caps k x hp h
    cases r with
    | eps =>
      simp only [m] at h
      exact ⟨_, caps, ⟨rfl, rfl⟩, by rw [pos_drop ctx hp]; exact h⟩
    | set S =>
      simp only [m] at h
      split at h
      · rename_i hlt
        split at h
        · rename_i hm
          refine ⟨(txt ctx).drop (pos + 1), caps, ⟨ctx.s[pos], drop_cons ctx hlt, hm, rfl⟩, ?_⟩
          rw [pos_drop ctx (by omega)]; exact h
        · cases h
      · cases h
    | any =>
      simp only [m] at h
      split at h
      · rename_i hlt
        split at h
        · rename_i hm
          refine ⟨(txt ctx).drop (pos + 1), caps, ⟨ctx.s[pos], drop_cons ctx hlt, hm, rfl⟩, ?_⟩
          rw [pos_drop ctx (by omega)]; exact h
        · cases h
      · cases h
    | wordb =>
      have e : m ctx (f + 1) .wordb pos caps k = if wbAt ctx pos = true then k pos caps else none := rfl
      rw [e] at h
      split at h
      · rename_i hw
        refine ⟨_, caps, ⟨?_, rfl, rfl⟩, by rw [pos_drop ctx hp]; exact h⟩
        rw [pos_drop ctx hp]
        exact hw
      · cases h
    | seq a b =>
      simp only [m] at h
      obtain ⟨s1, c1, h1, h2⟩ := ih a pos caps _ x hp h
      obtain ⟨w, e⟩ := Den.suffix ctx _ _ _ _ _ h1
      obtain ⟨hle, hd, _⟩ := drop_of_append ctx hp e
      obtain ⟨s', c', h3, h4⟩ := ih b _ c1 k x hle h2
      rw [hd] at h3
      exact ⟨s', c', ⟨s1, c1, h1, h3⟩, h4⟩
    | alt a b =>
      simp only [m] at h
      split at h
      · rename_i res hres
        obtain ⟨s', c', h1, h2⟩ := ih a pos caps k res hp hres
        exact ⟨s', c', Or.inl h1, by rw [h2, ← h]⟩
      · obtain ⟨s', c', h1, h2⟩ := ih b pos caps k x hp h
        exact ⟨s', c', Or.inr h1, h2⟩
    | group idx r' =>
      simp only [m] at h
      obtain ⟨s', c1, h1, h2⟩ := ih r' pos caps _ x hp h
      refine ⟨s', _, ⟨c1, h1, rfl⟩, ?_⟩
      rw [pos_drop ctx hp]
      exact h2
    | opt r' g =>
      simp only [m] at h
      have key : m ctx f r' pos caps k = some x ∨ k pos caps = some x := by
        cases g
        · simp only [Bool.false_eq_true, if_false] at h
          split at h
          · rename_i res hres; right; rw [hres, h]
          · left; exact h
        · simp only [if_true] at h
          split at h
          · rename_i res hres; left; rw [hres, h]
          · right; exact h
      rcases key with h1 | h1
      · obtain ⟨s', c', h2, h3⟩ := ih r' pos caps k x hp h1
        exact ⟨s', c', Or.inl h2, h3⟩
      · exact ⟨_, caps, Or.inr ⟨rfl, rfl⟩, by rw [pos_drop ctx hp]; exact h1⟩
    | star r' g =>
      simp only [m] at h
      have key : m ctx f r' pos caps (fun p c => if p == pos then none else m ctx f (.star r' g) p c k) = some x
          ∨ k pos caps = some x := by
        cases g
        · simp only [Bool.false_eq_true, if_false] at h
          split at h
          · rename_i res hres; right; rw [hres, h]
          · left; exact h
        · simp only [if_true] at h
          split at h
          · rename_i res hres; left; rw [hres, h]
          · right; exact h
      rcases key with h1 | h1
      · obtain ⟨s1, c1, h2, h3⟩ := ih r' pos caps _ x hp h1
        obtain ⟨w, e⟩ := Den.suffix ctx _ _ _ _ _ h2
        obtain ⟨hle, hd, he⟩ := drop_of_append ctx hp e
        split at h3
        · cases h3
        · rename_i hne
          obtain ⟨s', c', h4, h5⟩ := ih (.star r' g) _ c1 k x hle h3
          rw [hd] at h4
          obtain ⟨n, hn⟩ := h4
          refine ⟨s', c', ⟨n + 1, s1, c1, h2, ?_, hn⟩, h5⟩
          intro hlen
          apply hne
          rw [hlen, drop_length]
          simp only [beq_iff_eq]
          omega
      · exact ⟨_, caps, ⟨0, rfl, rfl⟩, by rw [pos_drop ctx hp]; exact h1⟩
    | plus r' g =>
      simp only [m] at h
      obtain ⟨s1, c1, h1, h2⟩ := ih r' pos caps _ x hp h
      obtain ⟨w, e⟩ := Den.suffix ctx _ _ _ _ _ h1
      obtain ⟨hle, hd, _⟩ := drop_of_append ctx hp e
      obtain ⟨s', c', h3, h4⟩ := ih (.star r' g) _ c1 k x hle h2
      rw [hd] at h3
      exact ⟨s', c', ⟨s1, c1, h1, h3⟩, h4⟩

end BenchText
end CG
