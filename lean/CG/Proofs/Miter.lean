/- helper lemmas for C04 (miter): entry point.
   MiterBase    names, Except monad, one successful plain `add`, folds of `add`
   MiterView    exact node/edge lists of a successful miter (`MView`)
   MiterFanin   fan-in of every kind of miter node
   MiterSem     reading a consistent valuation of the miter, inputs/outputs
   MiterCompl   building a consistent valuation of the miter
   MiterClean   the miter of two lint-clean circuits is `C01.Clean`
   MiterOk      the construction succeeds when the names do not collide
   (MiterCex    counterexamples to the original statement of `miter_ok`, imports the property file) -/
import CG.Tx
import CG.Spec
import CG.Sat
import CG.Props.C01
import CG.Props.C06
import CG.Proofs.MiterOk
namespace CG
end CG
