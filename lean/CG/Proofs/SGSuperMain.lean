/- C17 (super-circuit) helpers, part 8: assembly — `runSuper` succeeds, every instance can be filled, and the filled
   circuit is input/output equivalent to the original circuit -/
import CG.Proofs.SGSuperBuildE
import CG.Proofs.SGSuperFill
import CG.Proofs.SGSuperFacts
import CG.Proofs.SGSuperSem
namespace CG
namespace SGSuper
open Supergates SGA Circuit

theorem outputs_singleton {c : Circuit} (h : c.outputs.length = 1) : ∃ o, c.outputs = [o] := by
  cases hc : c.outputs with
  | nil => rw [hc] at h; cases h
  | cons o l =>
    cases l with
    | nil => exact ⟨o, rfl⟩
    | cons _ _ => rw [hc] at h; simp at h

theorem runSuper_eq (c c2 : Circuit) (ord : Ord) (hout : c.outputs.length = 1) (hnobb : c.bbs = [])
    (hc2 : Tx.limitFanin c 2 ord = .ok c2) (s : Circuit)
    (hs : superCircuit c2 ord (algo c2 (ord c2.outputs)).sgs = .ok s) :
    runSuper c ord = .ok (s, (kept (algo c2 (ord c2.outputs)).sgs).map (fun p => (inst p.1.head, p.2))) := by
  unfold runSuper
  rw [if_neg (by omega), hnobb, hc2]
  simp only [List.isEmpty_nil, Bool.not_true, Bool.false_eq_true, if_false, bind, Except.bind]
  rw [hs]
  rfl

/-- the corrected statement, with the disjointness of "x" nodes still as a hypothesis -/
theorem super_fill_of_xdisj (c : Circuit) (ord : Ord) (hord : OrdOK ord) (hc : LintClean c) (hnobb : c.bbs = [])
    (hac : Acyclic c) (hname : ∀ n, 2 < (c.fanin n).length → Circuit.isDigit0 n = false)
    (hbo : ∀ n, c.ty? n ≠ some "bb_output") (hout : c.outputs.length = 1)
    (c2 : Circuit) (hc2 : Tx.limitFanin c 2 ord = .ok c2) (hN : NamesOK c2)
    (hd : (algo c2 (ord c2.outputs)).headsDistinct = true)
    (hxd : ∀ p ∈ kept (algo c2 (ord c2.outputs)).sgs, ∀ q ∈ kept (algo c2 (ord c2.outputs)).sgs, ∀ n,
      c2.ty? n = some "x" → n ∈ internal p.2 → n ∈ internal q.2 → p = q) :
    ∃ s m full, runSuper c ord = .ok (s, m) ∧ fillAll s m ord = .ok full ∧
      (∀ x, x ∈ c.inputs ↔ x ∈ full.inputs) ∧ (∀ x, x ∈ c.outputs ↔ x ∈ full.outputs) ∧
      (∀ v, Consistent c v → ∃ w, Consistent full w ∧ (∀ x ∈ c.inputs, w x = v x) ∧ ∀ x ∈ c.outputs, w x = v x) ∧
      (∀ w, Consistent full w → ∃ v, Consistent c v ∧ (∀ x ∈ c.inputs, v x = w x) ∧ ∀ x ∈ c.outputs, v x = w x) := by
  obtain ⟨c2', hlim, _, hins, houts, href, hlc, _, hacy, hfi, hbo2, hperm⟩ :=
    SGRun.run_limited c ord hord hc hnobb hac hname hbo
  have : c2' = c2 := by rw [hlim] at hc2; injection hc2
  subst this
  have h1 : c2'.outputs.length = 1 := by rw [houts]; exact hout
  obtain ⟨o, ho⟩ := outputs_singleton h1
  have F := facts_of_algo c2' hlc hacy hfi hbo2 (ord c2'.outputs) hperm hd h1
  obtain ⟨s, hs, Ds⟩ := Build.superCircuit_desc c2' hlc.toWF hN ord hord o ho (algo c2' (ord c2'.outputs)).sgs
    F.ok F.headsNodup
  obtain ⟨full, hfull, Df⟩ := fillAll_desc c2' hlc.toWF hN ord hord _ s F.ok F.headsNodup Ds
  obtain ⟨e1, e2, e3, e4⟩ := equiv_of_desc c2' full _ hlc hacy hbo2 hN F Df hxd
  refine ⟨s, _, full, runSuper_eq c c2' ord hout hnobb hlim s hs, hfull, ?_, ?_, ?_, ?_⟩
  · intro x; rw [← hins]; exact e1 x
  · intro x; rw [← houts]; exact e2 x
  · intro v hv
    obtain ⟨v', hv', hag⟩ := href.2 v hv
    obtain ⟨w, hw, hwi, hwo⟩ := e3 v' hv'
    refine ⟨w, hw, ?_, ?_⟩
    · intro x hx
      have hx' : x ∈ c2'.inputs := hins ▸ hx
      rw [hwi x hx']
      exact hag x (mem_inputs_has hx)
    · intro x hx
      have hx' : x ∈ c2'.outputs := houts ▸ hx
      rw [hwo x hx']
      exact hag x (mem_outputs_has hx)
  · intro w hw
    obtain ⟨v, hv, hvi, hvo⟩ := e4 w hw
    refine ⟨v, href.1 v hv, ?_, ?_⟩
    · intro x hx; exact hvi x (hins ▸ hx)
    · intro x hx; exact hvo x (houts ▸ hx)

end SGSuper
end CG
