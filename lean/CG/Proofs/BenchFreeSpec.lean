/- C15 (character level, free layout) helper: the four patterns on a text made of statements in free layout -/
import CG.Proofs.BenchFreeLine
set_option linter.unusedSimpArgs false
set_option linter.unusedVariables false
namespace CG
namespace BenchText
open Regex Bench

/-- what `findall` returns per statement for the INPUT (`true`) / OUTPUT (`false`) pattern -/
def hitIOF (b : Bool) : FL → Option (List String)
  | .io b' _ _ _ n _ => if b' = b then some [String.ofList n] else none
  | _ => none

/-- what `findall` returns per statement for the gate (`true`) / DFF (`false`) pattern -/
def hitGF (b : Bool) : FL → Option (List String)
  | .gate n _ _ K _ A => if K ∈ kwsOf b then some [String.ofList n, String.ofList K, String.ofList A] else none
  | _ => none

theorem KofF_facts (b : Bool) : AllLetter (Kof b) ∧ AllLetter (kof b) ∧ Kof b ≠ [] ∧ kof b ≠ [] ∧
    (∀ K' ∈ [Kof (!b), kof (!b)] ++ (gateKws ++ dffKws), ¬ Kof b <:+ K' ∧ ¬ kof b <:+ K') := by
  cases b <;> decide

theorem ends_nonletter (P w : List Char) (hw : AllWs w) : ∃ Z z, P ++ '=' :: w = Z ++ [z] ∧ ¬ isLetter z := by
  rcases List.eq_nil_or_concat w with rfl | ⟨w', b, rfl⟩
  · exact ⟨P, '=', rfl, by decide⟩
  · refine ⟨P ++ '=' :: w', b, by simp [List.concat_eq_append], ?_⟩
    exact ws_not_letter hw b (by simp [List.concat_eq_append])

theorem specIOF (ctx : Ctx) (b : Bool) (hneed : need ctx.s.size (rxIO (Kof b) (kof b)) ≤ fuelFor ctx.s) :
    LineSpec FL.chars ctx (rxIO (Kof b) (kof b)) 1 FL.ok (hitIOF b) := by
  obtain ⟨hK, hk, hK0, hk0, hsuf⟩ := KofF_facts b
  refine ⟨?_, ?_, ?_, ?_⟩
  · intro p hp hd
    apply m_none ctx _ _ p hp
    intro s' c'
    rw [hd]
    exact io_nil ctx hK0 hk0
  · intro p rest hp hd
    apply m_none ctx _ _ p hp
    intro s' c'
    rw [hd]
    exact io_first ctx hK hk hK0 hk0 (by decide)
  · intro l hl hh u t rest p hu ht hp hd
    apply m_none ctx _ _ p hp
    intro s' c'
    rw [hd]
    cases l with
    | io b' K w1 w2 n w3 =>
      obtain ⟨hKK, hw1, hw2, hw3, hn⟩ := hl
      have hb : b' = !b := by cases b <;> cases b' <;> simp_all [hitIOF]
      subst hb
      have hKm : K ∈ [Kof (!b), kof (!b)] ++ (gateKws ++ dffKws) := by
        rcases hKK with rfl | rfl <;> simp
      have hKl : AllLetter K ∧ K ≠ [] := by
        obtain ⟨h1, h2, h3, h4, _⟩ := KofF_facts (!b)
        rcases hKK with rfl | rfl
        · exact ⟨h1, h3⟩
        · exact ⟨h2, h4⟩
      refine io_missF ctx hK hk hK0 hk0 (Y := []) (K' := K) (w := w1) (A := w2 ++ (n ++ w3)) (Or.inl rfl) (by simp) hKl.1
        hKl.2 hw1 (hsuf K hKm).1 (hsuf K hKm).2 ?_ (by simpa [FL.chars] using hu) ht
      intro hm
      simp only [List.mem_append] at hm
      rcases hm with hm | hm | hm
      · exact (ws_ne (hw2 _ hm)).1 rfl
      · exact (idC_ne (hn.all _ hm)).1 rfl
      · exact (ws_ne (hw3 _ hm)).1 rfl
    | gate n w1 w2 K w3 A =>
      obtain ⟨hn, hw1, hw2, hw3, hKK, hA, _⟩ := hl
      have hKl := allKws_letters hKK
      have hKm : K ∈ [Kof (!b), kof (!b)] ++ (gateKws ++ dffKws) := by
        rcases hKK with h | h <;> simp [h]
      obtain ⟨Z, z, hZ, hz⟩ := ends_nonletter (n ++ w1) w2 hw2
      refine io_missF ctx hK hk hK0 hk0 (Y := (n ++ w1) ++ '=' :: w2) (K' := K) (w := w3) (A := A) (Or.inr ⟨Z, z, hZ, hz⟩)
        ?_ hKl.1 hKl.2 hw3 (hsuf K hKm).1 (hsuf K hKm).2 (fun hm => (argF_ne (hA _ hm)).1 rfl)
        (by simpa [FL.chars] using hu) ht
      intro hm
      simp only [List.mem_append, List.mem_cons] at hm
      rcases hm with (hm | hm) | hm | hm
      · exact (idC_ne (hn.all _ hm)).1 rfl
      · exact (ws_ne (hw1 _ hm)).1 rfl
      · exact absurd hm (by decide)
      · exact (ws_ne (hw2 _ hm)).1 rfl
    | blank =>
      simp only [FL.chars, List.append_eq_nil_iff] at hu
      exact absurd hu.2 ht
  · intro l gs hl hh rest p hp hd
    cases l with
    | io b' K w1 w2 n w3 =>
      obtain ⟨hKK, hw1, hw2, hw3, hn⟩ := hl
      have hb : b' = b := by cases b <;> cases b' <;> simp_all [hitIOF]
      subst hb
      simp only [hitIOF, if_true, Option.some.injEq] at hh
      refine ⟨by simp [FL.chars], ?_⟩
      have hd' : (txt ctx).drop p = K ++ (w1 ++ '(' :: (w2 ++ (n ++ (w3 ++ ')' :: rest)))) := by
        rw [hd]; simp [FL.chars]
      have hm := m_some ctx (fuelFor ctx.s) (rxIO (Kof b') (kof b')) p hp hneed rest
        [(1, ctx.s.size - (n ++ (w3 ++ ')' :: rest)).length, ctx.s.size - (w3 ++ ')' :: rest).length)]
        (by rw [hd']; exact (io_successF ctx hK hk hK0 hk0 hKK hw1 hw2 hw3 hn).mpr ⟨rfl, rfl⟩)
        (by intro s' c' h; rw [hd'] at h; exact (io_successF ctx hK hk hK0 hk0 hKK hw1 hw2 hw3 hn).mp h)
      refine ⟨[(1, ctx.s.size - (n ++ (w3 ++ ')' :: rest)).length, ctx.s.size - (w3 ++ ')' :: rest).length)], ?_, ?_⟩
      · rw [hm, end_pos ctx hp hd]
      · rw [grp1, ← hh]
        have : (txt ctx).drop p = (K ++ (w1 ++ '(' :: w2)) ++ (n ++ (w3 ++ ')' :: rest)) := by rw [hd']; simp
        rw [slice_eq ctx hp this]
    | gate n w1 w2 K w3 A => simp [hitIOF] at hh
    | blank => simp [hitIOF] at hh

theorem kwsOfF_facts (b : Bool) : KwsOK (kwsOf b) ∧ (∀ K, K ∈ gateKws ∨ K ∈ dffKws → K ∉ kwsOf b → K ∈ kwsOf (!b)) := by
  cases b
  · refine ⟨kwsOK_dff, ?_⟩
    intro K hK hn
    rcases hK with h | h
    · exact h
    · exact absurd h hn
  · refine ⟨kwsOK_gate, ?_⟩
    intro K hK hn
    rcases hK with h | h
    · exact absurd h hn
    · exact h

theorem specGF (ctx : Ctx) (b : Bool) (hneed : need ctx.s.size (rxGate (kwsOf b)) ≤ fuelFor ctx.s) :
    LineSpec FL.chars ctx (rxGate (kwsOf b)) 3 FL.ok (hitGF b) := by
  obtain ⟨hk, _⟩ := kwsOfF_facts b
  refine ⟨?_, ?_, ?_, ?_⟩
  · intro p hp hd
    apply m_none ctx _ _ p hp
    intro s' c'
    rw [hd]
    exact gate_nil ctx hk
  · intro p rest hp hd
    apply m_none ctx _ _ p hp
    intro s' c'
    rw [hd]
    exact gate_first ctx hk (by decide)
  · intro l hl hh u t rest p hu ht hp hd
    apply m_none ctx _ _ p hp
    intro s' c'
    rw [hd]
    cases l with
    | io b' K w1 w2 n w3 =>
      obtain ⟨hKK, hw1, hw2, hw3, hn⟩ := hl
      have hKl : AllLetter K := by
        obtain ⟨h1, h2, _⟩ := KofF_facts b'
        rcases hKK with rfl | rfl
        · exact h1
        · exact h2
      refine gate_miss_noeq ctx hk (X := K ++ (w1 ++ '(' :: (w2 ++ (n ++ w3)))) ?_ (by simpa [FL.chars] using hu) ht
      intro hm
      simp only [List.mem_append, List.mem_cons] at hm
      rcases hm with hm | hm | hm | hm | hm | hm
      · exact absurd (hKl _ hm) (by decide)
      · exact (ws_ne (hw1 _ hm)).2.2 rfl
      · exact absurd hm (by decide)
      · exact (ws_ne (hw2 _ hm)).2.2 rfl
      · exact (idC_ne (hn.all _ hm)).2.2.1 rfl
      · exact (ws_ne (hw3 _ hm)).2.2 rfl
    | gate n w1 w2 K w3 A =>
      obtain ⟨hn, hw1, hw2, hw3, hKK, hA, _⟩ := hl
      have hKl := allKws_letters hKK
      have hnk : K ∉ kwsOf b := by
        intro hm
        simp [hitGF, hm] at hh
      exact gate_miss_lineF ctx hk hn.all hw1 hw2 hw3 hKl.1 hKl.2 hA hnk hu ht
    | blank =>
      simp only [FL.chars, List.append_eq_nil_iff] at hu
      exact absurd hu.2 ht
  · intro l gs hl hh rest p hp hd
    cases l with
    | io b' K w1 w2 n w3 => simp [hitGF] at hh
    | blank => simp [hitGF] at hh
    | gate n w1 w2 K w3 A =>
      obtain ⟨hn, hw1, hw2, hw3, hKK, hA, hA0⟩ := hl
      have hKl := allKws_letters hKK
      have hKm : K ∈ kwsOf b := by
        by_cases hm : K ∈ kwsOf b
        · exact hm
        · simp [hitGF, hm] at hh
      simp only [hitGF, hKm, if_true, Option.some.injEq] at hh
      have hAp : ')' ∉ A := fun hm => (argF_ne (hA _ hm)).2.1 rfl
      refine ⟨by simp [FL.chars], ?_⟩
      have hd' : (txt ctx).drop p = n ++ (w1 ++ '=' :: (w2 ++ (K ++ (w3 ++ '(' :: (A ++ ')' :: rest))))) := by
        rw [hd]; simp [FL.chars]
      have hm := m_some ctx (fuelFor ctx.s) (rxGate (kwsOf b)) p hp hneed rest (gateCapsF ctx n w1 w2 K w3 A rest)
        (by rw [hd']; exact gate_successF ctx hk hn hw1 hw2 hw3 hKm hAp hA0)
        (by
          intro s' c' h
          rw [hd'] at h
          obtain ⟨_, h2, _, h4⟩ := gate_alignF ctx hk hn.all hw1 hw2 hw3 hKl.1 hKl.2 hAp h
          exact ⟨h2, h4⟩)
      refine ⟨gateCapsF ctx n w1 w2 K w3 A rest, ?_, ?_⟩
      · rw [hm, end_pos ctx hp hd]
      · rw [gateCapsF, grp3, ← hh]
        have e1 : (txt ctx).drop p = [] ++ (n ++ (w1 ++ '=' :: (w2 ++ (K ++ (w3 ++ '(' :: (A ++ ')' :: rest)))))) := by
          rw [hd']; rfl
        have e2 : (txt ctx).drop p = (n ++ (w1 ++ '=' :: w2)) ++ (K ++ (w3 ++ '(' :: (A ++ ')' :: rest))) := by
          rw [hd']; simp
        have e3 : (txt ctx).drop p = (n ++ (w1 ++ '=' :: (w2 ++ (K ++ (w3 ++ ['('])))))  ++ (A ++ ')' :: rest) := by
          rw [hd']; simp
        rw [slice_eq ctx hp e1, slice_eq ctx hp e2, slice_eq ctx hp e3]

end BenchText
end CG
