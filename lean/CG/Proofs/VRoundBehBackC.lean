/- C03 helper (behavioural round trip): the fold of `doAssign` keeps the *backward* invariant `VB.BI`: every valuation
   of the declared nets that satisfies the assignments processed so far extends to a consistent valuation of the
   circuit under construction.  Mirrors `CG/Proofs/VlogFold.lean`. -/
import CG.Proofs.VRoundBehBackB
namespace CG
namespace VB
open Verilog Circuit Ternary VT

variable {D : Name → Prop} {ins : List Name}

/-- the backward invariant of the fold over the assignments -/
def BI (done : List (Name × Expr)) (c : Circuit) : Prop :=
  ∀ v : Val, v "tie_0" = false → v "tie_1" = true → (∀ a ∈ done, v a.1 = denote v a.2) →
    ∃ v', Consistent c v' ∧ ∀ x, ¬ IsSyn x → v' x = v x

theorem gate_buf1 (b : Bool) : gateFn "buf" [b] = some b := by simp [gateFn]

theorem doAssign_bi (hD : DeclOK D ins) {todo done : List (Name × Expr)} {st : TState} {l : Name} {e : Expr}
    (h : FI D ins ((l, e) :: todo) done st) (hl : D l)
    (hids : ∀ x ∈ exprIds e, D x) (hc : BinConsts e) (hnm : VP.NoMux e) (hbi : BI done st.c)
    (st' : TState) (hst' : doAssign st (l, e) = .ok st') : BI ((l, e) :: done) st'.c := by
  intro v h0 h1 hdone'
  obtain ⟨v0, hv0, ag0⟩ := hbi v h0 h1 (fun a ha => hdone' a (List.mem_cons_of_mem _ ha))
  obtain ⟨s1, m, he1, o, bx⟩ := evalExpr_ok2 hD e st h.si h.ge hids hc hnm
  obtain ⟨v1, hv1, ag1⟩ := bx v0 hv0
  have agv : ∀ x, ¬ IsSyn x → v1 x = v x := fun x hx => (ag1 x (Or.inr hx)).trans (ag0 x hx)
  have hlns : ¬ IsSyn l := hD.notSyn l hl
  have hml : v1 m = v1 l := by
    have e1 : v1 m = denote v1 e := o.val v1 hv1
    have e2 : denote v1 e = denote v e := denote_congr e (fun x hx => agv x (hD.notSyn x (hids x hx)))
    have e3 : v l = denote v e := hdone' (l, e) (by simp)
    rw [e1, e2, agv l hlns, e3]
  have hundl : Und s1.c l := (h.und (l, e) (by simp)).ext o.ext hlns
  have htest := tie_test (hD.notTie l hl)
  have hdo : doAssign st (l, e) =
      (if s1.gateExprs.contains m then
        pure { c := s1.c.relabel [(m, l)], gateExprs := s1.gateExprs.filter (· != m) }
      else addNode s1 l "buf" [m] false >>= fun r2 => pure r2.1) := by
    unfold doAssign
    simp only []
    rw [he1]
    simp only [Arith.bind_ok, htest, Bool.false_eq_true, if_false]
  rw [hdo] at hst'
  rcases o.cls with hleft | ⟨hmem, hsyn, _, hhas, hnoOut⟩
  · -- buffer of a declared net or constant
    have hns : ¬ IsSyn m := by
      rcases hleft with h' | rfl | rfl
      · exact hD.notSyn m h'
      · exact tie0_not_syn
      · exact tie1_not_syn
    have hcont : s1.gateExprs.contains m = false := by
      cases hh : s1.gateExprs.contains m with
      | false => rfl
      | true => exact absurd (o.ge m (by simpa using hh)) hns
    rw [hcont] at hst'
    simp only [Bool.false_eq_true, if_false] at hst'
    have hm := o.usable
    have hmx : m ≠ "tie_x" := by
      rcases hm with ⟨_, h⟩ | h
      · exact h
      · exact (hD.notTie m h).2.2
    obtain ⟨c', hadd, s⟩ := add_ok' s1.c
      { n := l, ty := "buf", fanin := [m], uid := false, addConnected := true, allowRedef := true } l
      rfl (fun _ => rfl) (hD.nameOK l hl) (show "buf" ∈ okTypes by decide)
      (fun _ => ⟨by simp, fun _ e he => hundl.2 e he⟩)
      (by
        intro h
        have h' : "buf" = "0" ∨ "buf" = "1" ∨ "buf" = "input" := h
        exact absurd h' (by decide))
      rfl
      (by
        intro u hu
        rw [List.mem_singleton] at hu; subst hu
        rcases hm with ⟨h, _⟩ | h
        · exact Or.inl h
        · exact Or.inr ⟨rfl, hD.nameOK u h⟩)
      (by
        intro u hu _ hh
        rw [List.mem_singleton] at hu; subst hu
        obtain ⟨a, ha⟩ := Limit.attr_of_has hh
        obtain ⟨_, ty', h1, h2⟩ := o.si.typed u a ha hmx
        exact ⟨ty', by rw [ty_of_attr ha]; exact h1, h2⟩)
    have hst2 : st' = { s1 with c := c' } := by
      unfold addNode addE at hst'
      rw [hadd] at hst'
      simp only [Arith.bind_ok] at hst'
      injection hst' with hst'
      exact hst'.symm
    rw [hst2]
    refine ⟨v1, ?_, agv⟩
    apply addSpec_consistent s o.si.wf rfl hv1
    intro b hb
    have hfi : FaninIs c' l [m] := by
      intro u
      rw [s.edges]
      constructor
      · rintro (h | h | h)
        · exact absurd rfl (hundl.2 _ h)
        · simp at h
        · exact h.1
      · intro h; exact Or.inr (Or.inr ⟨h, rfl⟩)
    rw [Arith.gate_preds (s.nodupE o.si.wf.edgesNodup) [m] (by simp) hfi] at hb
    simp only [List.map_cons, List.map_nil] at hb
    rw [gate_buf1] at hb
    injection hb with hb
    rw [← hb, hml]
  · -- the gate is renamed onto the net
    have hcont : s1.gateExprs.contains m = true := by simpa using hmem
    rw [hcont] at hst'
    simp only [if_true] at hst'
    have hst2 : st' = { c := s1.c.relabel [(m, l)], gateExprs := s1.gateExprs.filter (· != m) } := by
      injection hst' with hst'
      exact hst'.symm
    rw [hst2]
    have hlm : l ≠ m := fun h => hlns (h ▸ hsyn)
    have hmx : m ≠ "tie_x" := fun h => tiex_not_syn (h ▸ hsyn)
    obtain ⟨a, ha⟩ := Limit.attr_of_has hhas
    obtain ⟨haout, ty, haty, _⟩ := o.si.typed m a ha hmx
    exact ⟨v1, relabel_consistent o.si.wf hundl hhas hnoOut hlm ha (by rw [haty]; rfl) (by rw [haout]; rfl) hv1 hml,
      agv⟩

/-- the fold over the `assign` items keeps the backward invariant -/
theorem assign_items_bi (hD : DeclOK D ins) (bbs : List BBox) (ord : Ord) (d : Decls) :
    ∀ (todo done : List (Name × Expr)) (st : TState), FI D ins todo done st → (todo.map (·.1)).Nodup →
      (∀ a ∈ todo, D a.1 ∧ a.1 ∉ ins ∧ (∀ x ∈ exprIds a.2, D x) ∧ BinConsts a.2 ∧ VP.NoMux a.2) →
      (∀ a ∈ done, D a.1 ∧ ∀ x ∈ exprIds a.2, D x) → BI done st.c →
      ∀ st', (todo.map (fun a => Item.assign [a])).foldlM (doItem bbs ord) (st, d) = .ok (st', d) →
        BI (todo.reverse ++ done) st'.c
  | [], done, st, _, _, _, _, hbi, st', hst' => by
    simp only [List.map_nil, List.foldlM_nil] at hst'
    injection hst' with hst'
    injection hst' with hst' _
    rw [← hst']
    simpa using hbi
  | (l, e) :: todo, done, st, h, hnd, htodo, hdone, hbi, st', hst' => by
    obtain ⟨hl, hlins, hids, hc, hnm⟩ := htodo (l, e) (by simp)
    rw [List.map_cons, List.nodup_cons] at hnd
    obtain ⟨st1, h1, fi1⟩ := doAssign_ok hD h hl hlins
      (fun a ha hal => hnd.1 (List.mem_map.2 ⟨a, ha, hal⟩))
      (fun a ha => (htodo a (List.mem_cons_of_mem _ ha)).1) hids hdone hc
    have bi1 := doAssign_bi hD h hl hids hc hnm hbi st1 h1
    rw [List.map_cons, List.foldlM_cons] at hst'
    have : doItem bbs ord (st, d) (Item.assign [(l, e)]) = .ok (st1, d) := by
      simp only [doItem, List.foldlM_cons, List.foldlM_nil]
      rw [h1]
      rfl
    rw [this, Arith.bind_ok] at hst'
    have := assign_items_bi hD bbs ord d todo ((l, e) :: done) st1 fi1 hnd.2
      (fun a ha => htodo a (List.mem_cons_of_mem _ ha))
      (by
        intro a ha
        rcases List.mem_cons.mp ha with rfl | ha
        · exact ⟨hl, hids⟩
        · exact hdone a ha) bi1 st' hst'
    simpa using this

/-- `VT.items_ok` with the backward invariant for the state after the fold -/
theorem items_ok2 {m : Module} {ins outs : List Name} {asg : List (Name × Expr)} (h : ModOK m ins outs asg)
    (hnm : ∀ a ∈ asg, VP.NoMux a.2) (bbs : List BBox) (ord : Ord) :
    ∃ stA d, m.items.foldlM (doItem bbs ord) ({ c := c2 }, { io := m.ports }) = .ok (stA, d) ∧
      d.io = m.ports ∧ d.inputs = ins ∧ d.outputs = outs ∧ FI (Decl ins asg) ins [] asg.reverse stA ∧
      (∀ i ∈ ins, stA.c.has i = true) ∧ BI asg.reverse stA.c := by
  have hD := h.declOK
  have hnd := List.nodup_append.mp h.defsNodup
  obtain ⟨cI, dI, hI, gI1, gI2, gI3, siI, heI, hhI⟩ := input_items (D := Decl ins asg) bbs ord ins []
    { c := c2 } { io := m.ports } (c2_SI _) rfl
    (fun i hi => ⟨Or.inl hi, (h.noCapture i (Or.inl hi)).2.1, (h.noCapture i (Or.inl hi)).2.2⟩)
  obtain ⟨dO, hO, gO1, gO2, gO3⟩ := output_items bbs ord { c := cI } outs dI
  have siI' : SI (Decl ins asg) ins cI := by simpa using siI
  have fi0 : FI (Decl ins asg) ins asg [] { c := cI } := by
    constructor
    · exact siI'
    · intro g hg; simp at hg
    · intro a ha
      have hmem : a.1 ∈ asg.map (·.1) := List.mem_map.2 ⟨a, ha, rfl⟩
      have hnot : cI.has a.1 = false := by
        cases hc : cI.has a.1 with
        | false => rfl
        | true =>
          rcases (hhI a.1).mp hc with h1 | h1
          · have hn := (h.noCapture a.1 (Or.inr hmem)).2.1
            rcases (c2_has a.1).mp h1 with h2 | h2 | h2
            · exact absurd h2 hn.1
            · exact absurd h2 hn.2.1
            · exact absurd h2 hn.2.2
          · exact absurd rfl (hnd.2.2 a.1 h1 a.1 hmem)
      constructor
      · intro hh; rw [hnot] at hh; cases hh
      · intro e he; rw [heI] at he; cases he
    · intro _ _ a ha; simp at ha
    · intro a ha; simp at ha
  -- the backward invariant holds initially: only constants and inputs, no wires
  have bi0 : BI [] cI := by
    intro v h0 h1 _
    refine ⟨v, ?_, fun _ _ => rfl⟩
    intro p hp t ht b hb
    have hfan : cI.fanin p.1 = [] := by
      apply fanin_nil_of
      intro e he; rw [heI] at he; cases he
    rw [hfan] at hb
    have hpa : cI.attr? p.1 = some p.2 := attr?_of_mem siI'.wf.nodup hp
    have hph : cI.has p.1 = true := has_of_attr' hpa
    have hty : cI.ty? p.1 = some t := by rw [ty_of_attr hpa]; exact ht
    rcases (hhI p.1).mp hph with h2 | h2
    · rcases (c2_has p.1).mp h2 with h3 | h3 | h3
      · rw [h3] at hty ⊢
        rw [ty_of_attr siI'.tie0] at hty
        injection hty with hty
        rw [← hty] at hb
        simp only [List.map_nil] at hb
        rw [Arith.gate_zero] at hb
        injection hb with hb
        rw [h0, hb]
      · rw [h3] at hty ⊢
        rw [ty_of_attr siI'.tie1] at hty
        injection hty with hty
        rw [← hty] at hb
        simp [gateFn] at hb
        rw [h1, hb]
      · rw [h3] at hty
        rw [ty_of_attr siI'.tiex] at hty
        injection hty with hty
        rw [← hty] at hb
        simp [gateFn] at hb
    · have := (siI'.inp p.1).mpr h2
      rw [hty] at this
      injection this with this
      rw [this] at hb
      simp [gateFn] at hb
  obtain ⟨stA, hA, fiA⟩ := assign_items hD bbs ord dO asg [] { c := cI } fi0 hnd.2.1
    (by
      intro a ha
      have hmem : a.1 ∈ asg.map (·.1) := List.mem_map.2 ⟨a, ha, rfl⟩
      exact ⟨Or.inr hmem, fun hi => hnd.2.2 a.1 hi a.1 hmem rfl, h.uses a ha, h.consts a ha⟩)
    (fun a ha => by cases ha)
  have biA := assign_items_bi hD bbs ord dO asg [] { c := cI } fi0 hnd.2.1
    (by
      intro a ha
      have hmem : a.1 ∈ asg.map (·.1) := List.mem_map.2 ⟨a, ha, rfl⟩
      exact ⟨Or.inr hmem, fun hi => hnd.2.2 a.1 hi a.1 hmem rfl, h.uses a ha, h.consts a ha, hnm a ha⟩)
    (fun a ha => by cases ha) bi0 stA hA
  refine ⟨stA, dO, ?_, by rw [gO1, gI1], by rw [gO2, gI2]; rfl, by rw [gO3, gI3]; rfl, by simpa using fiA, ?_,
    by simpa using biA⟩
  · rw [h.shape, List.foldlM_append, List.foldlM_append, hI]
    simp only [Arith.bind_ok]
    rw [hO]
    simp only [Arith.bind_ok]
    exact hA
  · intro i hi
    have : (Circuit.ty? stA.c i) = some "input" := (fiA.si.inp i).mpr hi
    exact has_of_ty? this

/-- **the transformer on a module of mux-free continuous assignments, backward direction**: every valuation of the nets
    that satisfies all the assignments extends to a consistent valuation of the circuit that is read -/
theorem transform_back {m : Module} {ins outs : List Name} {asg : List (Name × Expr)} (h : ModOK m ins outs asg)
    (hnm : ∀ a ∈ asg, VP.NoMux a.2) (bbs : List BBox) (ord : Ord) (c : Circuit) (hc : transform m bbs ord = .ok c)
    (v : Val) (h0 : v "tie_0" = false) (h1 : v "tie_1" = true) (hasg : ∀ a ∈ asg, v a.1 = denote v a.2) :
    ∃ v', Consistent c v' ∧ ∀ x, ¬ IsSyn x → v' x = v x := by
  obtain ⟨stA, d, hitems, gio, gin, gout, fi, hasIns, bi⟩ := items_ok2 h hnm bbs ord
  have hSI := fi.si
  have hasOuts : ∀ o ∈ outs, stA.c.has o = true := by
    intro o ho
    rcases h.outsDef o ho with h1 | h1
    · exact hasIns o h1
    · obtain ⟨a, ha, rfl⟩ := List.mem_map.1 h1
      exact fi.hasDone a (by simpa using ha)
  let c3 : Circuit := { stA.c with name := m.name }
  let c4 := outs.foldl (fun acc n => acc.setOutRaw n true) c3
  obtain ⟨f1, f2, f3, f4, f5⟩ := outs_fold_facts outs c3
  have hrun : transform m bbs ord = .ok (dropTie (dropTie (dropTie c4 "tie_0") "tie_1") "tie_x") := by
    unfold transform
    rw [init0]; simp only [Arith.bind_ok]
    rw [init1]; simp only [Arith.bind_ok]
    rw [init2]; simp only [Arith.bind_ok]
    rw [hitems]; simp only [Arith.bind_ok]
    have a1 : (d.inputs.any fun i => !d.io.contains i) = false := by
      apply any_false_of
      intro i hi
      rw [gin] at hi
      have : i ∈ d.io := by rw [gio, h.ports]; exact Or.inl hi
      simp [this]
    have a2 : (d.outputs.any fun o => !d.io.contains o) = false := by
      apply any_false_of
      intro o ho
      rw [gout] at ho
      have : o ∈ d.io := by rw [gio, h.ports]; exact Or.inr ho
      simp [this]
    have a3 : (d.io.any fun v => !d.inputs.contains v && !d.outputs.contains v) = false := by
      apply any_false_of
      intro x hx
      rw [gio, h.ports] at hx
      rcases hx with hx | hx
      · have : x ∈ d.inputs := by rw [gin]; exact hx
        simp [this]
      · have : x ∈ d.outputs := by rw [gout]; exact hx
        simp [this]
    simp only [a1, a2, a3, Bool.false_eq_true, if_false]
    rw [gout, setOutput_fold outs c3 hasOuts]
    rfl
  rw [hrun] at hc
  injection hc with hc
  rw [← hc]
  obtain ⟨v', hv', ag⟩ := bi v h0 h1 (fun a ha => hasg a (by simpa using ha))
  refine ⟨v', ?_, ag⟩
  have hnd4 : c4.nodeNames.Nodup := by rw [f1]; exact hSI.wf.nodup
  have hed4 : c4.edges.Nodup := by rw [f2]; exact hSI.wf.edgesNodup
  have hv3 : Consistent c3 v' := hv'
  have hv4 : Consistent c4 v' :=
    consistent_congr (c := c4) (c' := c3) f1.symm hnd4 (fun x => (f4 x).symm) f2.symm hv3
  have d0 := dropTie_out c4 "tie_0"
  have d1 := dropTie_out (dropTie c4 "tie_0") "tie_1"
  have hv5 := dropTie_consistent c4 "tie_0" hnd4 hed4 hv4
  have hv6 := dropTie_consistent _ "tie_1" (d0.nodup hnd4) (d0.enodup hed4) hv5
  exact dropTie_consistent _ "tie_x" (d1.nodup (d0.nodup hnd4)) (d1.enodup (d0.enodup hed4)) hv6

/-! ### `wire` declarations are no-ops for the transformer -/

theorem wire_items (bbs : List BBox) (ord : Ord) : ∀ (ws : List Name) (s : TState × Decls),
    (ws.map (fun w => Item.wire [w])).foldlM (doItem bbs ord) s = .ok s
  | [], _ => rfl
  | w :: ws, s => by
    rw [List.map_cons, List.foldlM_cons]
    exact wire_items bbs ord ws s

/-- a module with `wire` declarations between the port declarations and the statements reads like the module
    without them -/
theorem transform_wires (name : Name) (ports : List Name) (A S : List Item) (ws : List Name) (bbs : List BBox)
    (ord : Ord) :
    transform { name := name, ports := ports, items := A ++ ws.map (fun w => Item.wire [w]) ++ S } bbs ord =
    transform { name := name, ports := ports, items := A ++ S } bbs ord := by
  unfold transform
  simp only []
  have : ∀ s0 : TState × Decls,
      (A ++ ws.map (fun w => Item.wire [w]) ++ S).foldlM (doItem bbs ord) s0 = (A ++ S).foldlM (doItem bbs ord) s0 := by
    intro s0
    rw [List.foldlM_append, List.foldlM_append, List.foldlM_append]
    cases hA : A.foldlM (doItem bbs ord) s0 with
    | error e => rfl
    | ok s1 =>
      simp only [Arith.bind_ok]
      rw [wire_items]
      rfl
  simp only [this]

end VB
end CG
