/- helper lemmas for C06 (strip_blackboxes): the model meets the view; rejection of colliding exposed names -/
import CG.Proofs.StripSem
set_option linter.unusedSimpArgs false
set_option linter.unusedVariables false
namespace CG.Strip
open CG Circuit

theorem strip_ok {c c' : Circuit} {ig : List Name} {ord : Ord} (hord : OrdOK ord) (hc : WF c)
    (h : Tx.stripBlackboxes c ig ord = .ok c') : c'.bbs = [] ∧ StripView c ig c' := by
  rw [strip_eq] at h
  split at h
  · cases h
  · split at h
    · cases h
    · rename_i hchk
      injection h with h
      subst h
      simp only [Bool.or_eq_true, decide_eq_true_eq, not_or] at hchk
      have P := phaseView ig hord hc.nodup
      have S := stripView P hc.edgesNodup (by simpa using hchk.1) hchk.2
      exact ⟨rfl, S.congr rfl rfl rfl⟩

theorem strip_rejects {c : Circuit} {ig : List Name} {ord : Ord} (hord : OrdOK ord)
    (hty : ∀ p ∈ c.nodes, p.2.ty.isSome = true) (hnd : c.nodeNames.Nodup)
    (hov : (∃ n, c.has n = true ∧ kept c ig n = true ∧ c.has (Tx.replaceDots n) = true ∧
              dropped c ig (Tx.replaceDots n) = false) ∨
           (∃ n₁ n₂, n₁ ≠ n₂ ∧ c.has n₁ = true ∧ c.has n₂ = true ∧ kept c ig n₁ = true ∧ kept c ig n₂ = true ∧
              Tx.replaceDots n₁ = Tx.replaceDots n₂)) :
    Tx.stripBlackboxes c ig ord = .error .valueError := by
  rw [strip_eq]
  have hnone : c.nodes.any (fun p => p.2.ty.isNone) = false := by
    rw [List.any_eq_false]
    intro p hp
    have := hty p hp
    cases h : p.2.ty <;> simp [h] at this ⊢
  rw [hnone]
  simp only [Bool.false_eq_true, if_false]
  have P := phaseView ig hord hnd
  suffices hh : ((pmap (phase c ig ord).2).any (fun p => (phase c ig ord).1.has p.2) ||
      decide ((dedup ((pmap (phase c ig ord).2).map (·.2))).length < (pmap (phase c ig ord).2).length)) = true by
    rw [if_pos hh]
  generalize phase c ig ord = r at P
  rw [Bool.or_eq_true, decide_eq_true_eq]
  rcases hov with ⟨n, _, hk, hrn, hdr⟩ | ⟨n₁, n₂, hne, _, _, k1, k2, e⟩
  · left
    rw [List.any_eq_true]
    refine ⟨(n, Tx.replaceDots n), ?_, ?_⟩
    · unfold pmap
      exact List.mem_map.2 ⟨n, (P.pins n).2 hk, rfl⟩
    · show r.1.has (Tx.replaceDots n) = true
      rw [P.has, hrn, hdr]; rfl
  · right
    have e' : (pmap r.2).map (·.2) = r.2.map Tx.replaceDots := by
      unfold pmap; rw [List.map_map]; rfl
    have hl : (pmap r.2).length = ((pmap r.2).map (·.2)).length := by rw [List.length_map]
    rw [hl]
    apply dedup_length_lt_of_not_nodup
    rw [e']
    intro hN
    exact hne (eq_of_map_nodup Tx.replaceDots r.2 hN n₁ ((P.pins n₁).2 k1) n₂ ((P.pins n₂).2 k2) e)

end CG.Strip
