/- C02 helper: the lexer skips white space between tokens (`lex_ws_irrelevant`). -/
import CG.Verilog
set_option linter.unusedSimpArgs false
namespace CG
namespace VL
open Verilog

/-! ### one step of the lexer -/

def lineC (r : List Char) : Option (List Char × List Tok) :=
  match r.dropWhile (· != '\n') with
  | '\n' :: r' => some (r', [])
  | _ => none

def blockC (r : List Char) : Option (List Char × List Tok) :=
  match skipBlock r with | some r' => some (r', []) | none => none

def slash (rest : List Char) : Option (List Char × List Tok) :=
  match rest with
  | '/' :: r => lineC r
  | '*' :: r => blockC r
  | _ => none

def esc (c : Char) (rest : List Char) : Option (List Char × List Tok) :=
  let nm := rest.takeWhile (fun ch => !isReSpace ch)
  if nm.isEmpty then none else some (rest.drop nm.length, [Tok.id (String.ofList (c :: nm))])

def ident (c : Char) (rest : List Char) : Option (List Char × List Tok) :=
  let nm := (c :: rest).takeWhile (fun ch => isLetter ch || isDigit ch || ch == '_')
  let s := String.ofList nm
  some ((c :: rest).drop nm.length, [if keywords.contains s then Tok.kw s else Tok.id s])

def punct (l : List Char) : Option (List Char × List Tok) :=
  match constToks.findSome? (fun p => (dropPrefix? p.1 l).map (fun r => (p.2, r))) with
  | some (v, r) => some (r, [Tok.const v])
  | none =>
    match symToks.findSome? (fun s => (dropPrefix? s.toList l).map (fun r => (s, r))) with
    | some (s, r) => some (r, [Tok.sym s])
    | none => none

/-- one step of the lexer at top level: the remaining input and the token produced (none for blanks/comments) -/
def step (c : Char) (rest : List Char) : Option (List Char × List Tok) :=
  if isWs c then some (rest, [])
  else if c == '/' then slash rest
  else if c == '\\' then esc c rest
  else if isLetter c || c == '_' then ident c rest
  else punct (c :: rest)

theorem lexGo_step (f : Nat) (c : Char) (rest : List Char) (acc : List Tok) :
    lexGo (f + 1) (c :: rest) acc =
      match step c rest with
      | none => none
      | some (r, t) => lexGo f r (t ++ acc) := by
  rw [lexGo.eq_def]
  simp only []
  unfold step
  by_cases h1 : isWs c = true
  · simp only [h1, if_true, List.nil_append]
  simp only [h1, Bool.false_eq_true, if_false]
  by_cases h2 : (c == '/') = true
  · simp only [h2, if_true]
    unfold slash lineC blockC
    split
    · split <;> simp_all
    · split <;> simp_all
    · split <;> simp_all
  simp only [h2, Bool.false_eq_true, if_false]
  by_cases h3 : (c == '\\') = true
  · simp only [h3, if_true]
    unfold esc
    simp only []
    by_cases he : (List.takeWhile (fun ch => !isReSpace ch) rest).isEmpty = true
    · simp only [he, if_true]
    · simp only [he, Bool.false_eq_true, if_false, List.singleton_append]
  simp only [h3, Bool.false_eq_true, if_false]
  by_cases h4 : (isLetter c || c == '_') = true
  · simp only [h4, if_true, List.singleton_append]
    rfl
  simp only [h4, Bool.false_eq_true, if_false]
  unfold punct
  cases hcs : constToks.findSome? (fun p => (dropPrefix? p.1 (c :: rest)).map (fun r => (p.2, r))) with
  | some p => rfl
  | none =>
    simp only []
    cases hss : symToks.findSome? (fun s => (dropPrefix? s.toList (c :: rest)).map (fun r => (s, r))) with
    | some p => rfl
    | none => rfl

/-! ### locality: a step taken inside `xs ++ " "` does not look beyond the blank -/

/-- the result of a step on `xs ++ " "` keeps the final blank, and the step is the same with more input behind it -/
def Loc (g : List Char → Option (List Char × List Tok)) (xs : List Char) : Prop :=
  ∀ r t, g (xs ++ [' ']) = some (r, t) →
    ∃ post, r = post ++ [' '] ∧ ∀ zs, g (xs ++ ' ' :: zs) = some (post ++ ' ' :: zs, t)

theorem lineC_loc : ∀ xs, Loc lineC xs
  | [] => by
    intro r t h
    simp [lineC, List.dropWhile] at h
  | x :: xs => by
    intro r t h
    by_cases hx : x = '\n'
    · subst hx
      have e : ∀ l, lineC ('\n' :: l) = some (l, []) := fun l => by simp [lineC, List.dropWhile]
      rw [List.cons_append, e] at h
      injection h with h
      injection h with h1 h2
      exact ⟨xs, h1.symm, fun zs => by rw [List.cons_append, e, h2]⟩
    · have e : ∀ l, lineC (x :: l) = lineC l := fun l => by
        have : (x != '\n') = true := by simpa using hx
        simp [lineC, List.dropWhile, this]
      rw [List.cons_append, e] at h
      obtain ⟨post, h1, h2⟩ := lineC_loc xs r t h
      exact ⟨post, h1, fun zs => by rw [List.cons_append, e]; exact h2 zs⟩

theorem skipBlock_loc : ∀ (xs r' : List Char), skipBlock (xs ++ [' ']) = some r' →
    ∃ post, r' = post ++ [' '] ∧ ∀ zs, skipBlock (xs ++ ' ' :: zs) = some (post ++ ' ' :: zs)
  | [], r', h => by
    rw [List.nil_append, skipBlock.eq_3 _ _ (fun _ h _ => absurd h (by decide)), skipBlock.eq_1] at h
    cases h
  | [x], r', h => by
    have : skipBlock ([x] ++ [' ']) = none := by
      show skipBlock (x :: [' ']) = none
      rw [skipBlock.eq_3 _ _ (fun r _ h2 => by injection h2 with h2; exact absurd h2 (by decide)),
        skipBlock.eq_3 _ _ (fun _ h _ => absurd h (by decide)), skipBlock.eq_1]
    rw [this] at h
    cases h
  | x :: y :: ys, r', h => by
    by_cases hxy : x = '*' ∧ y = '/'
    · obtain ⟨rfl, rfl⟩ := hxy
      have e : ∀ l, skipBlock ('*' :: '/' :: ys ++ l) = some (ys ++ l) := fun l => skipBlock.eq_2 _
      rw [e] at h
      injection h with h
      exact ⟨ys, h.symm, fun zs => e _⟩
    · have e : ∀ l, skipBlock (x :: y :: ys ++ l) = skipBlock (y :: ys ++ l) := fun l => by
        apply skipBlock.eq_3
        intro r h1 h2
        injection h2 with h2
        exact hxy ⟨h1, h2⟩
      rw [e] at h
      obtain ⟨post, h1, h2⟩ := skipBlock_loc (y :: ys) r' h
      exact ⟨post, h1, fun zs => by rw [e]; exact h2 zs⟩

theorem blockC_loc (xs : List Char) : Loc blockC xs := by
  intro r t h
  unfold blockC at h
  cases hs : skipBlock (xs ++ [' ']) with
  | none => rw [hs] at h; cases h
  | some r' =>
    rw [hs] at h
    injection h with h
    injection h with h1 h2
    obtain ⟨post, g1, g2⟩ := skipBlock_loc xs r' hs
    refine ⟨post, by rw [← h1, g1], fun zs => ?_⟩
    unfold blockC
    rw [g2 zs, ← h2]

theorem slash_loc : ∀ xs, Loc slash xs
  | [] => by
    intro r t h
    have : slash ([] ++ [' ']) = none := rfl
    rw [this] at h; cases h
  | d :: xs => by
    intro r t h
    by_cases h1 : d = '/'
    · subst h1
      have e : ∀ l, slash ('/' :: l) = lineC l := fun l => rfl
      rw [List.cons_append, e] at h
      obtain ⟨post, g1, g2⟩ := lineC_loc xs r t h
      exact ⟨post, g1, fun zs => by rw [List.cons_append, e]; exact g2 zs⟩
    · by_cases h2 : d = '*'
      · subst h2
        have e : ∀ l, slash ('*' :: l) = blockC l := fun l => rfl
        rw [List.cons_append, e] at h
        obtain ⟨post, g1, g2⟩ := blockC_loc xs r t h
        exact ⟨post, g1, fun zs => by rw [List.cons_append, e]; exact g2 zs⟩
      · have e : ∀ l, slash (d :: l) = none := fun l => by
          unfold slash
          split
          · rename_i heq; injection heq with heq; exact absurd heq h1
          · rename_i heq; injection heq with heq; exact absurd heq h2
          · rfl
        rw [List.cons_append, e] at h
        cases h

/-- `takeWhile` stops at the blank at the latest -/
theorem takeWhile_loc (q : Char → Bool) (hq : q ' ' = false) : ∀ (xs : List Char),
    ∃ pre post, xs = pre ++ post ∧ ∀ zs, (xs ++ ' ' :: zs).takeWhile q = pre ∧
      (xs ++ ' ' :: zs).drop pre.length = post ++ ' ' :: zs
  | [] => ⟨[], [], rfl, fun zs => by simp [List.takeWhile, hq]⟩
  | x :: xs => by
    cases hx : q x with
    | false => exact ⟨[], x :: xs, rfl, fun zs => by simp [List.takeWhile, hx]⟩
    | true =>
      obtain ⟨pre, post, h1, h2⟩ := takeWhile_loc q hq xs
      refine ⟨x :: pre, post, by rw [h1]; rfl, fun zs => ?_⟩
      obtain ⟨g1, g2⟩ := h2 zs
      constructor
      · rw [List.cons_append, List.takeWhile_cons, hx, if_pos rfl, g1]
      · rw [List.cons_append, List.length_cons, List.drop_succ_cons, g2]

theorem esc_loc (c : Char) (xs : List Char) : Loc (esc c) xs := by
  intro r t h
  obtain ⟨pre, post, h1, h2⟩ := takeWhile_loc (fun ch => !isReSpace ch) (by decide) xs
  have e : ∀ zs, esc c (xs ++ ' ' :: zs) =
      if pre.isEmpty then none else some (post ++ ' ' :: zs, [Tok.id (String.ofList (c :: pre))]) := by
    intro zs
    unfold esc
    simp only []
    rw [(h2 zs).1, (h2 zs).2]
  rw [e []] at h
  by_cases hp : pre.isEmpty = true
  · rw [if_pos hp] at h; cases h
  · rw [if_neg hp] at h
    injection h with h
    injection h with g1 g2
    exact ⟨post, g1.symm, fun zs => by rw [e zs, if_neg hp, g2]⟩

theorem ident_loc (c : Char) (xs : List Char) : Loc (ident c) xs := by
  intro r t h
  obtain ⟨pre, post, h1, h2⟩ := takeWhile_loc (fun ch => isLetter ch || isDigit ch || ch == '_') (by decide) (c :: xs)
  have e : ∀ zs, ident c (xs ++ ' ' :: zs) =
      some (post ++ ' ' :: zs, [if keywords.contains (String.ofList pre) then Tok.kw (String.ofList pre)
        else Tok.id (String.ofList pre)]) := by
    intro zs
    unfold ident
    simp only []
    rw [← List.cons_append, (h2 zs).1, (h2 zs).2]
  rw [e []] at h
  injection h with h
  injection h with g1 g2
  exact ⟨post, g1.symm, fun zs => by rw [e zs, g2]⟩

/-- matching a blank-free literal against `l ++ " " ++ …` does not depend on what follows the blank -/
theorem dropPrefix_loc : ∀ (p : List Char), ' ' ∉ p → ∀ (l : List Char),
    (dropPrefix? p (l ++ [' ']) = none ∧ ∀ zs, dropPrefix? p (l ++ ' ' :: zs) = none) ∨
    (∃ post, ∀ zs, dropPrefix? p (l ++ ' ' :: zs) = some (post ++ ' ' :: zs))
  | [], _, l => Or.inr ⟨l, fun zs => rfl⟩
  | a :: p, hp, [] => by
    left
    have ha : (a == ' ') = false := by
      have : a ≠ ' ' := fun h => hp (by simp [h])
      simpa using this
    constructor
    · show dropPrefix? (a :: p) (' ' :: []) = none
      rw [dropPrefix?.eq_3, ha]; rfl
    · intro zs
      show dropPrefix? (a :: p) (' ' :: zs) = none
      rw [dropPrefix?.eq_3, ha]; rfl
  | a :: p, hp, x :: l => by
    have hp' : ' ' ∉ p := fun h => hp (List.mem_cons_of_mem _ h)
    by_cases hax : (a == x) = true
    · have e : ∀ zs, dropPrefix? (a :: p) (x :: l ++ zs) = dropPrefix? p (l ++ zs) := fun zs => by
        rw [List.cons_append, dropPrefix?.eq_3, if_pos hax]
      rcases dropPrefix_loc p hp' l with ⟨h1, h2⟩ | ⟨post, h2⟩
      · left
        exact ⟨by rw [e]; exact h1, fun zs => by rw [e]; exact h2 zs⟩
      · right
        exact ⟨post, fun zs => by rw [e]; exact h2 zs⟩
    · left
      have e : ∀ zs, dropPrefix? (a :: p) (x :: l ++ zs) = none := fun zs => by
        rw [List.cons_append, dropPrefix?.eq_3, if_neg hax]
      exact ⟨e _, fun zs => e _⟩

theorem dropPrefix_loc_nil {p l : List Char} {post : List Char}
    (h : ∀ zs, dropPrefix? p (l ++ ' ' :: zs) = some (post ++ ' ' :: zs)) :
    dropPrefix? p (l ++ [' ']) = some (post ++ [' ']) := h []

/-- first match in a table of blank-free literals -/
theorem findSome_loc {α : Type} (key : α → List Char) (val : α → String) : ∀ (tbl : List α), (∀ x ∈ tbl, ' ' ∉ key x) →
    ∀ (l : List Char),
    (tbl.findSome? (fun x => (dropPrefix? (key x) (l ++ [' '])).map (fun r => (val x, r))) = none ∧
      ∀ zs, tbl.findSome? (fun x => (dropPrefix? (key x) (l ++ ' ' :: zs)).map (fun r => (val x, r))) = none) ∨
    (∃ v post, ∀ zs, tbl.findSome? (fun x => (dropPrefix? (key x) (l ++ ' ' :: zs)).map (fun r => (val x, r))) =
      some (v, post ++ ' ' :: zs))
  | [], _, l => Or.inl ⟨rfl, fun _ => rfl⟩
  | x :: tbl, h, l => by
    rcases dropPrefix_loc (key x) (h x (by simp)) l with ⟨h1, h2⟩ | ⟨post, h2⟩
    · rcases findSome_loc key val tbl (fun y hy => h y (List.mem_cons_of_mem _ hy)) l with ⟨g1, g2⟩ | ⟨v, post, g2⟩
      · left
        refine ⟨by rw [List.findSome?_cons, h1]; exact g1, fun zs => by rw [List.findSome?_cons, h2 zs]; exact g2 zs⟩
      · right
        exact ⟨v, post, fun zs => by rw [List.findSome?_cons, h2 zs]; exact g2 zs⟩
    · right
      exact ⟨val x, post, fun zs => by rw [List.findSome?_cons, h2 zs]; rfl⟩

theorem punct_loc (l : List Char) : Loc punct l := by
  intro r t h
  have e0 : l ++ [' '] = l ++ ' ' :: [] := rfl
  rcases findSome_loc (fun p : List Char × String => p.1) (fun p => p.2) constToks (by decide) l with
    ⟨c1, c2⟩ | ⟨v, post, c2⟩
  · rcases findSome_loc (fun s : String => s.toList) (fun s => s) symToks (by decide) l with ⟨s1, s2⟩ | ⟨v, post, s2⟩
    · have : punct (l ++ [' ']) = none := by
        unfold punct
        rw [c1]
        simp only []
        rw [s1]
      rw [this] at h; cases h
    · have e : ∀ zs, punct (l ++ ' ' :: zs) = some (post ++ ' ' :: zs, [Tok.sym v]) := by
        intro zs
        unfold punct
        rw [c2 zs]
        simp only []
        rw [s2 zs]
      rw [e0, e []] at h
      injection h with h
      injection h with g1 g2
      exact ⟨post, g1.symm, fun zs => by rw [e zs, g2]⟩
  · have e : ∀ zs, punct (l ++ ' ' :: zs) = some (post ++ ' ' :: zs, [Tok.const v]) := by
      intro zs
      unfold punct
      rw [c2 zs]
    rw [e0, e []] at h
    injection h with h
    injection h with g1 g2
    exact ⟨post, g1.symm, fun zs => by rw [e zs, g2]⟩

theorem step_loc (c : Char) (xs : List Char) : Loc (step c) xs := by
  intro r t h
  unfold step at h
  by_cases h1 : isWs c = true
  · rw [if_pos h1] at h
    injection h with h
    injection h with g1 g2
    exact ⟨xs, g1.symm, fun zs => by unfold step; rw [if_pos h1, g2]⟩
  rw [if_neg h1] at h
  by_cases h2 : (c == '/') = true
  · rw [if_pos h2] at h
    obtain ⟨post, g1, g2⟩ := slash_loc xs r t h
    exact ⟨post, g1, fun zs => by unfold step; rw [if_neg h1, if_pos h2]; exact g2 zs⟩
  rw [if_neg h2] at h
  by_cases h3 : (c == '\\') = true
  · rw [if_pos h3] at h
    obtain ⟨post, g1, g2⟩ := esc_loc c xs r t h
    exact ⟨post, g1, fun zs => by unfold step; rw [if_neg h1, if_neg h2, if_pos h3]; exact g2 zs⟩
  rw [if_neg h3] at h
  by_cases h4 : (isLetter c || c == '_') = true
  · rw [if_pos h4] at h
    obtain ⟨post, g1, g2⟩ := ident_loc c xs r t h
    exact ⟨post, g1, fun zs => by unfold step; rw [if_neg h1, if_neg h2, if_neg h3, if_pos h4]; exact g2 zs⟩
  rw [if_neg h4] at h
  obtain ⟨post, g1, g2⟩ := punct_loc (c :: xs) r t h
  exact ⟨post, g1, fun zs => by unfold step; rw [if_neg h1, if_neg h2, if_neg h3, if_neg h4]; exact g2 zs⟩

/-! ### runs of the lexer -/

/-- more fuel does not change a successful run -/
theorem lexGo_mono : ∀ (f : Nat) (l : List Char) (acc : List Tok) (r : List Tok),
    lexGo f l acc = some r → lexGo (f + 1) l acc = some r
  | 0, _, _, _, h => by rw [lexGo.eq_1] at h; cases h
  | f + 1, [], acc, r, h => by rw [lexGo.eq_2] at h ⊢; exact h
  | f + 1, c :: rest, acc, r, h => by
    rw [lexGo_step] at h ⊢
    cases hs : step c rest with
    | none => rw [hs] at h; cases h
    | some p =>
      rw [hs] at h
      exact lexGo_mono f p.1 (p.2 ++ acc) r h

theorem lexGo_mono' {f : Nat} {l : List Char} {acc r : List Tok} (h : lexGo f l acc = some r) :
    ∀ g, lexGo (f + g) l acc = some r
  | 0 => h
  | g + 1 => lexGo_mono _ _ _ _ (lexGo_mono' h g)

/-- the accumulator is only prepended to -/
theorem lexGo_acc : ∀ (f : Nat) (l : List Char) (acc : List Tok),
    lexGo f l acc = (lexGo f l []).map (fun r => acc.reverse ++ r)
  | 0, _, _ => by rw [lexGo.eq_1, lexGo.eq_1]; rfl
  | f + 1, [], acc => by rw [lexGo.eq_2, lexGo.eq_2]; simp
  | f + 1, c :: rest, acc => by
    rw [lexGo_step, lexGo_step]
    cases hs : step c rest with
    | none => rfl
    | some p =>
      simp only []
      rw [lexGo_acc f p.1 (p.2 ++ acc), lexGo_acc f p.1 (p.2 ++ [])]
      cases lexGo f p.1 [] with
      | none => rfl
      | some r => simp

/-- blanks are skipped -/
theorem lexGo_ws : ∀ (ws : List Char), (∀ ch ∈ ws, isWs ch = true) → ∀ (f : Nat) (l : List Char) (acc : List Tok),
    lexGo (f + ws.length) (ws ++ l) acc = lexGo f l acc
  | [], _, f, l, acc => rfl
  | c :: ws, h, f, l, acc => by
    have hc : isWs c = true := h c (by simp)
    have hs : step c (ws ++ l) = some (ws ++ l, []) := by unfold step; rw [if_pos hc]
    rw [List.length_cons, ← Nat.add_assoc, List.cons_append, lexGo_step, hs]
    exact lexGo_ws ws (fun ch hch => h ch (List.mem_cons_of_mem _ hch)) f l acc

/-- a successful run on `xs ++ " "` is a prefix of the run on `xs ++ " " ++ zs` -/
theorem lexGo_split : ∀ (f : Nat) (xs : List Char) (acc r : List Tok), lexGo f (xs ++ [' ']) acc = some r →
    ∀ (zs : List Char) (g : Nat), ∃ k, 1 ≤ k ∧ lexGo (f + g) (xs ++ ' ' :: zs) acc = lexGo (k + g) zs r.reverse
  | 0, _, _, _, h, _, _ => by rw [lexGo.eq_1] at h; cases h
  | f + 1, [], acc, r, h, zs, g => by
    have hs : ∀ l, step ' ' l = some (l, []) := fun l => by unfold step; rw [if_pos (by decide)]
    rw [List.nil_append, lexGo_step, hs] at h
    have h' : lexGo f [] acc = some r := h
    have hr : 1 ≤ f ∧ r.reverse = acc := by
      cases f with
      | zero => rw [lexGo.eq_1] at h'; cases h'
      | succ f' =>
        rw [lexGo.eq_2] at h'
        injection h' with h'
        rw [← h']
        exact ⟨by omega, by simp⟩
    refine ⟨f, hr.1, ?_⟩
    rw [List.nil_append, Nat.add_right_comm, lexGo_step, hs, hr.2]
    rfl
  | f + 1, c :: xs, acc, r, h, zs, g => by
    rw [List.cons_append, lexGo_step] at h
    cases hs : step c (xs ++ [' ']) with
    | none => rw [hs] at h; cases h
    | some p =>
      rw [hs] at h
      obtain ⟨post, g1, g2⟩ := step_loc c xs p.1 p.2 hs
      have h' : lexGo f p.1 (p.2 ++ acc) = some r := h
      rw [g1] at h'
      obtain ⟨k, hk1, hk⟩ := lexGo_split f post (p.2 ++ acc) r h' zs g
      refine ⟨k, hk1, ?_⟩
      rw [List.cons_append, Nat.add_right_comm, lexGo_step, g2 zs]
      exact hk

/-- the list-level statement of `lex_ws_irrelevant` -/
theorem lex_ws_list (A B W : List Char) (hW : ∀ ch ∈ W, isWs ch = true) (ta tb : List Tok)
    (ha : lexGo ((A ++ [' ']).length + 1) (A ++ [' ']) [] = some ta)
    (hb : lexGo ((' ' :: B).length + 1) (' ' :: B) [] = some tb) :
    lexGo ((A ++ ' ' :: (W ++ ' ' :: B)).length + 1) (A ++ ' ' :: (W ++ ' ' :: B)) [] = some (ta ++ tb) := by
  -- the run on `B`
  have hs : ∀ l, step ' ' l = some (l, []) := fun l => by unfold step; rw [if_pos (by decide)]
  have hb' : lexGo (B.length + 1) B [] = some tb := by
    rw [List.length_cons, lexGo_step, hs] at hb
    exact hb
  have hb'' : lexGo (B.length + 1) B ta.reverse = some (ta ++ tb) := by
    rw [lexGo_acc, hb']
    simp
  -- split after `A ++ " "`
  obtain ⟨k, hk1, hk⟩ := lexGo_split _ A [] ta ha (W ++ ' ' :: B) (W.length + 1 + B.length)
  have hlen : (A ++ ' ' :: (W ++ ' ' :: B)).length + 1 = (A ++ [' ']).length + 1 + (W.length + 1 + B.length) := by
    simp only [List.length_append, List.length_cons, List.length_nil]
    omega
  rw [hlen, hk]
  -- skip the blanks
  have hW' : ∀ ch ∈ W ++ [' '], isWs ch = true := by
    intro ch hch
    rcases List.mem_append.mp hch with h | h
    · exact hW ch h
    · rw [List.mem_singleton] at h; rw [h]; decide
  have e1 : W ++ ' ' :: B = (W ++ [' ']) ++ B := by simp
  have e2 : k + (W.length + 1 + B.length) = (B.length + 1 + (k - 1)) + (W ++ [' ']).length := by
    simp only [List.length_append, List.length_cons, List.length_nil]
    omega
  rw [e1, e2, lexGo_ws _ hW']
  exact lexGo_mono' hb'' (k - 1)

/-- **white space between tokens is irrelevant** -/
theorem lex_ws (a b ws : String) (hws : ∀ ch ∈ ws.toList, isWs ch = true)
    (ta tb : List Tok) (ha : lex (a ++ " ") = some ta) (hb : lex (" " ++ b) = some tb) :
    lex (a ++ " " ++ ws ++ " " ++ b) = some (ta ++ tb) := by
  have hsp : " ".toList = [' '] := by decide
  unfold lex at ha hb ⊢
  rw [← String.length_toList] at ha hb ⊢
  simp only [String.toList_append, hsp] at ha hb ⊢
  have := lex_ws_list a.toList b.toList ws.toList hws ta tb ha hb
  simpa [List.append_assoc] using this

end VL
end CG
