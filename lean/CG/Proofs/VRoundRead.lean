/- C03 helper: replay of the reader's transformer on the statements the writer emits -/
import CG.Proofs.VRoundInv
namespace CG
namespace VR
open Verilog Circuit

/-! ### small evaluation lemmas -/

theorem addNode_ok {st : TState} {n ty : String} {F : List Name} {c' : Circuit}
    (h : st.c.add (rdArgs n ty F) = (c', .ok, n)) :
    addNode st n ty F false = .ok ({ st with c := c' }, n) := by
  unfold addNode addE
  show (match st.c.add (rdArgs n ty F) with
    | (c', .ok, n) => Except.ok (c', n)
    | (_, o, _) => Except.error o) >>= _ = _
  rw [h]
  rfl

theorem evalExprs_ids (st : TState) : ∀ l : List Name, evalExprs st (l.map Expr.id) = .ok (st, l)
  | [] => rfl
  | x :: l => by
    rw [List.map_cons, evalExprs, evalExpr]
    show evalExprs st (l.map Expr.id) >>= _ = _
    rw [evalExprs_ids st l]
    rfl

theorem primitive_of_gate {t : String} (h : t ∈ gateTypes) : T.primitive.contains t = true := by
  simp only [gateTypes, List.mem_cons, List.not_mem_nil, or_false] at h
  rcases h with rfl | rfl | rfl | rfl | rfl | rfl | rfl | rfl <;> decide

theorem foldlM_single {α β : Type} (f : β → α → E β) (b : β) (x : α) : [x].foldlM f b = f b x := by
  rw [List.foldlM_cons]
  cases f b x <;> rfl

theorem dedup_eq_of_nodup : ∀ l : List Name, l.Nodup → dedup l = l
  | [], _ => rfl
  | x :: xs, h => by
    rw [List.nodup_cons] at h
    rw [dedup, dedup_eq_of_nodup xs h.2]
    congr 1
    rw [List.filter_eq_self]
    intro y hy
    have : y ≠ x := fun e => h.1 (e ▸ hy)
    simp [this]

/-- the writer never repeats an operand, so the parity normalisation of the reader (K30) leaves its lists alone -/
theorem parityFanin_nodup (t : String) (F : List Name) (h : F.Nodup) : parityFanin t F = F := by
  unfold parityFanin
  rw [dedup_eq_of_nodup F h]
  simp

theorem doInstance_prim {bbs : List BBox} {ord' : Ord} {t : String} (ht : t ∈ gateTypes) (st : TState) (g n : Name)
    (F : List Name) (hF : F.Nodup) {c' : Circuit} (h : st.c.add (rdArgs n t F) = (c', .ok, n)) :
    doInstance bbs ord' t st (g, Conns.positional ((n :: F).map Expr.id)) = .ok { st with c := c' } := by
  unfold doInstance
  rw [if_pos (primitive_of_gate ht)]
  show evalExprs st ((n :: F).map Expr.id) >>= _ = _
  rw [evalExprs_ids]
  show addNode st n t (parityFanin t F) false >>= _ = _
  rw [parityFanin_nodup t F hF, addNode_ok h]
  rfl

theorem doAssign_const (st : TState) (hg : st.gateExprs = []) (n t : String) (hn : ¬ isTie n) {c' : Circuit}
    (h : st.c.add (rdArgs n "buf" ["tie_" ++ t]) = (c', .ok, n)) :
    doAssign st (n, Expr.const t) = .ok { st with c := c' } := by
  unfold doAssign
  rw [evalExpr]
  show (if (n == "tie_0" || n == "tie_1" || n == "tie_x") = true then _ else _) = _
  have h1 : (n == "tie_0" || n == "tie_1" || n == "tie_x") = false := by
    unfold isTie at hn
    simp only [not_or] at hn
    simp [hn.1, hn.2.1, hn.2.2]
  rw [h1]
  simp only [Bool.false_eq_true, if_false]
  have h2 : st.gateExprs.contains ("tie_" ++ t) = false := by rw [hg]; rfl
  rw [h2]
  simp only [Bool.false_eq_true, if_false]
  rw [addNode_ok h]
  rfl

/-! ### one gate / constant statement -/

theorem gate_facts {t : String} (h : t ∈ gateTypes) :
    t ∉ constTys ∧ t ≠ "bb_input" ∧ t ≠ "bb_output" ∧ ¬ (t = "0" ∨ t = "1" ∨ t = "x" ∨ t = "input") ∧
    (t = "buf" ∨ t = "not" → t ∈ ["bb_input", "buf", "not"]) := by
  simp only [gateTypes, List.mem_cons, List.not_mem_nil, or_false] at h
  rcases h with rfl | rfl | rfl | rfl | rfl | rfl | rfl | rfl <;> decide

theorem const_facts {t : String} (h : t ∈ constTys) :
    t ∈ ["input", "0", "1", "x", "bb_output"] ∧ t ≠ "bb_input" ∧ t ≠ "bb_output" := by
  simp only [constTys, List.mem_cons, List.not_mem_nil, or_false] at h
  rcases h with rfl | rfl | rfl <;> decide

theorem gstep {c : Circuit} (hc : Wr c) {bbs : List BBox} {ord' : Ord} {st : TState} {d : Decls}
    {B : List (Name × BBox)} {D : Name → Prop} (h : RInv c st.c B D) (hg : st.gateExprs = [])
    {n : Name} {it : Item} (hs : GSpec c n it) (hD : ¬ D n) :
    ∃ st', doItem bbs ord' (st, d) it = .ok (st', d) ∧ RInv c st'.c B (fun x => D x ∨ x = n) ∧
      st'.gateExprs = [] := by
  obtain ⟨t, ht, hcase⟩ := hs
  have hn : c.has n = true := has_of_ty? ht
  have hDD : ∀ x, (D x ∨ x = n) ↔ (D x ∨ (x = n ∧ (D n ∨ n = n))) := by
    intro x
    constructor
    · rintro (h1 | h1)
      · exact Or.inl h1
      · exact Or.inr ⟨h1, Or.inr rfl⟩
    · rintro (h1 | ⟨h1, _⟩)
      · exact Or.inl h1
      · exact Or.inr h1
  rcases hcase with ⟨htg, g, F, rfl, hFnd, hFne, hF⟩ | ⟨htc, rfl⟩
  · obtain ⟨f1, f2, f3, f4, f5⟩ := gate_facts htg
    have hnp : ¬ PinTy c n := by
      rintro (h1 | h1) <;> (rw [ht] at h1; injection h1 with h1)
      · exact f2 h1
      · exact f3 h1
    obtain ⟨u0, hu0⟩ := List.exists_mem_of_ne_nil F hFne
    have hu0' := (hF u0).1 hu0
    have hall : ∀ u, (u, n) ∈ c.edges → c.ty? u ≠ some "bb_output" := by
      intro u hu hbo
      obtain ⟨hbuf, _⟩ := hc.ws.bbOut u n hu hbo
      have : u0 = u := hc.ws.single n "buf" hbuf (by decide) u0 u hu0'.1 hu
      rw [this] at hu0'
      exact hu0'.2 hbo
    have a1 : ∀ u, u ∈ F ↔ ((D n ∨ n = n) ∧ ¬ D n ∧ CEdge c (u, n)) := by
      intro u
      rw [hF u]
      constructor
      · rintro ⟨h1, _⟩; exact ⟨Or.inr rfl, hD, Or.inl h1⟩
      · rintro ⟨_, _, h1 | ⟨t', ht', h2, _⟩⟩
        · exact ⟨h1, hall u h1⟩
        · simp only at h2
          rw [ht] at h2; injection h2 with h2
          rw [h2] at f1; exact absurd ht' f1
    have a2 : ∀ u ∈ F, isTie u ∨ (c.has u = true ∧ ¬ PinTy c u) := by
      intro u hu
      right
      obtain ⟨h1, h2⟩ := (hF u).1 hu
      refine ⟨(hc.ws.closed u n h1).1, ?_⟩
      rintro (h3 | h3)
      · exact hc.ws.noBBInFanout u n h1 h3
      · exact h2 h3
    have a3 : t = "buf" ∨ t = "not" → F.length ≤ 1 := by
      intro hbn
      apply length_le_one_of_nodup_all_eq hFnd
      intro x hx y hy
      exact hc.ws.single n t ht (f5 hbn) x y ((hF x).1 hx).1 ((hF y).1 hy).1
    obtain ⟨c', e, hr, _⟩ := rinv_add (D' := fun x => D x ∨ x = n) hc h hn hnp (fty_of ht f1).symm hDD
      a1 a2 a3 (fun h1 => absurd h1 f4)
    refine ⟨{ st with c := c' }, ?_, hr, hg⟩
    show [(g, Conns.positional ((n :: F).map Expr.id))].foldlM (doInstance bbs ord' t) st >>= _ = _
    rw [foldlM_single, doInstance_prim htg st g n F hFnd e]
    rfl
  · obtain ⟨f1, f2, f3⟩ := const_facts htc
    have hnp : ¬ PinTy c n := by
      rintro (h1 | h1) <;> (rw [ht] at h1; injection h1 with h1)
      · exact f2 h1
      · exact f3 h1
    have a1 : ∀ u, u ∈ ["tie_" ++ t] ↔ ((D n ∨ n = n) ∧ ¬ D n ∧ CEdge c (u, n)) := by
      intro u
      rw [List.mem_singleton]
      constructor
      · rintro rfl; exact ⟨Or.inr rfl, hD, Or.inr ⟨t, htc, ht, rfl⟩⟩
      · rintro ⟨_, _, h1 | ⟨t', ht', h2, h3⟩⟩
        · exact absurd f1 (hc.ws.noFanin u n h1 t ht)
        · simp only at h2 h3
          rw [ht] at h2; injection h2 with h2
          rw [h3, h2]
    have a2 : ∀ u ∈ ["tie_" ++ t], isTie u ∨ (c.has u = true ∧ ¬ PinTy c u) := by
      intro u hu
      rw [List.mem_singleton] at hu
      exact Or.inl ((isTie_iff u).2 ⟨t, htc, hu⟩)
    obtain ⟨c', e, hr, _⟩ := rinv_add (D' := fun x => D x ∨ x = n) hc h hn hnp (fty_const ht htc).symm hDD
      a1 a2 (fun _ => by simp) (fun h1 => absurd h1 (by decide))
    refine ⟨{ st with c := c' }, ?_, hr, hg⟩
    show [(n, Expr.const t)].foldlM doAssign st >>= _ = _
    rw [foldlM_single, doAssign_const st hg n t (hc.not_tie hn) e]
    rfl

theorem RInv.congr {c st : Circuit} {B : List (Name × BBox)} {D D' : Name → Prop} (h : RInv c st B D)
    (hd : ∀ x, D x ↔ D' x) : RInv c st B D' := by
  have : D = D' := funext (fun x => propext (hd x))
  rw [← this]; exact h

theorem gphase {c : Circuit} (hc : Wr c) {bbs : List BBox} {ord' : Ord} {B : List (Name × BBox)} :
    ∀ (L : List Name) (gi : List Item), All2 (GSpec c) L gi → L.Nodup →
    ∀ (st : TState) (d : Decls) (D : Name → Prop), RInv c st.c B D → st.gateExprs = [] → (∀ n ∈ L, ¬ D n) →
    ∃ st', gi.foldlM (doItem bbs ord') (st, d) = .ok (st', d) ∧ RInv c st'.c B (fun x => D x ∨ x ∈ L) ∧
      st'.gateExprs = [] := by
  intro L gi hall
  induction hall with
  | nil =>
    intro _ st d D h hg _
    exact ⟨st, rfl, h.congr (fun x => by simp), hg⟩
  | @cons n it l m hs _ ih =>
    intro hnd st d D h hg hD
    obtain ⟨st1, e1, h1, hg1⟩ := gstep (bbs := bbs) (ord' := ord') (d := d) hc h hg hs (hD n (by simp))
    have hnd' := List.nodup_cons.1 hnd
    obtain ⟨st2, e2, h2, hg2⟩ := ih hnd'.2 st1 d _ h1 hg1 (by
      intro x hx
      rintro (h3 | h3)
      · exact hD x (by simp [hx]) h3
      · rw [h3] at hx; exact hnd'.1 hx)
    refine ⟨st2, ?_, h2.congr ?_, hg2⟩
    · rw [List.foldlM_cons, e1]
      exact e2
    · intro x
      simp only [List.mem_cons]
      constructor
      · rintro ((h3 | h3) | h3)
        · exact Or.inl h3
        · exact Or.inr (Or.inl h3)
        · exact Or.inr (Or.inr h3)
      · rintro (h3 | h3 | h3)
        · exact Or.inl (Or.inl h3)
        · exact Or.inl (Or.inr h3)
        · exact Or.inr h3

/-! ### declarations -/

theorem istep {c : Circuit} (hc : Wr c) {bbs : List BBox} {ord' : Ord} {st : TState} {d : Decls}
    {B : List (Name × BBox)} {D : Name → Prop} (h : RInv c st.c B D) {i : Name} (hi : c.ty? i = some "input") :
    ∃ st', doItem bbs ord' (st, d) (Item.input [i]) = .ok (st', { d with inputs := d.inputs ++ [i] }) ∧
      RInv c st'.c B (fun x => D x ∨ x = i) ∧ st'.gateExprs = st.gateExprs := by
  have hn : c.has i = true := has_of_ty? hi
  have hnp : ¬ PinTy c i := by
    rintro (h1 | h1) <;> (rw [hi] at h1; injection h1 with h1; revert h1; decide)
  have hDD : ∀ x, (D x ∨ x = i) ↔ (D x ∨ (x = i ∧ (D i ∨ i = i))) := by
    intro x
    constructor
    · rintro (h1 | h1)
      · exact Or.inl h1
      · exact Or.inr ⟨h1, Or.inr rfl⟩
    · rintro (h1 | ⟨h1, _⟩)
      · exact Or.inl h1
      · exact Or.inr h1
  have a1 : ∀ u, u ∈ ([] : List Name) ↔ ((D i ∨ i = i) ∧ ¬ D i ∧ CEdge c (u, i)) := by
    intro u
    constructor
    · intro h1; cases h1
    · rintro ⟨_, _, h1 | ⟨t', ht', h2, _⟩⟩
      · exact absurd (by decide) (hc.ws.noFanin u i h1 "input" hi)
      · simp only at h2
        rw [hi] at h2; injection h2 with h2
        rw [← h2] at ht'; exact absurd ht' (by decide)
  obtain ⟨c', e, hr, _⟩ := rinv_add (D' := fun x => D x ∨ x = i) hc h hn hnp
    (fty_of hi (by decide)).symm hDD a1 (fun u hu => nomatch hu) (fun _ => by simp) (fun _ => rfl)
  refine ⟨{ st with c := c' }, ?_, hr, rfl⟩
  show [i].foldlM (fun st n => addNode st n "input" [] false >>= fun r => pure r.1) st >>= _ = _
  rw [foldlM_single, addNode_ok e]
  rfl

theorem iphase {c : Circuit} (hc : Wr c) {bbs : List BBox} {ord' : Ord} {B : List (Name × BBox)} :
    ∀ (I : List Name), (∀ i ∈ I, c.ty? i = some "input") →
    ∀ (st : TState) (d : Decls) (D : Name → Prop), RInv c st.c B D →
    ∃ st', (I.map (fun i => Item.input [i])).foldlM (doItem bbs ord') (st, d) =
        .ok (st', { d with inputs := d.inputs ++ I }) ∧
      RInv c st'.c B (fun x => D x ∨ x ∈ I) ∧ st'.gateExprs = st.gateExprs := by
  intro I
  induction I with
  | nil =>
    intro _ st d D h
    refine ⟨st, ?_, h.congr (fun x => by simp), rfl⟩
    simp only [List.map_nil, List.foldlM_nil, List.append_nil]
    rfl
  | cons i l ih =>
    intro hI st d D h
    obtain ⟨st1, e1, h1, hg1⟩ := istep (bbs := bbs) (ord' := ord') (d := d) hc h (hI i (by simp))
    obtain ⟨st2, e2, h2, hg2⟩ := ih (fun x hx => hI x (by simp [hx])) st1
      { d with inputs := d.inputs ++ [i] } _ h1
    refine ⟨st2, ?_, h2.congr ?_, by rw [hg2, hg1]⟩
    · rw [List.map_cons, List.foldlM_cons, e1, Arith.bind_ok, e2]
      simp only [List.append_assoc, List.singleton_append]
    · intro x
      simp only [List.mem_cons]
      constructor
      · rintro ((h3 | h3) | h3)
        · exact Or.inl h3
        · exact Or.inr (Or.inl h3)
        · exact Or.inr (Or.inr h3)
      · rintro (h3 | h3 | h3)
        · exact Or.inl (Or.inl h3)
        · exact Or.inl (Or.inr h3)
        · exact Or.inr h3

theorem ophase {bbs : List BBox} {ord' : Ord} : ∀ (O : List Name) (st : TState) (d : Decls),
    (O.map (fun o => Item.output [o])).foldlM (doItem bbs ord') (st, d) =
      .ok (st, { d with outputs := d.outputs ++ O })
  | [], st, d => by
    simp only [List.map_nil, List.foldlM_nil, List.append_nil]; rfl
  | o :: l, st, d => by
    rw [List.map_cons, List.foldlM_cons]
    show (Except.ok (st, { d with outputs := d.outputs ++ [o] }) >>= fun s' => _) = _
    rw [Arith.bind_ok, ophase l]
    simp

theorem wphase {bbs : List BBox} {ord' : Ord} : ∀ (W : List Name) (s : TState × Decls),
    (W.map (fun w => Item.wire [w])).foldlM (doItem bbs ord') s = .ok s
  | [], s => rfl
  | w :: l, s => by
    rw [List.map_cons, List.foldlM_cons]
    show (Except.ok s >>= fun s' => _) = _
    rw [Arith.bind_ok, wphase l]

end VR
end CG
