/- C17 (algorithm) helpers, part 2: the cone digraph `g`, reachability avoiding a node, strict dominators (`SD`) -/
import CG.Proofs.SGAlgoDom
import CG.Proofs.SG
set_option linter.unusedSectionVars false
set_option linter.unusedVariables false
set_option linter.unusedSimpArgs false
namespace CG
namespace SGA
open Query Supergates Q

/-- `a` is a proper ancestor of `b` -/
abbrev Anc (c : Circuit) (a b : Name) : Prop := Plus (EdgeRel c) a b
/-- `a` is `b` or a proper ancestor of `b` -/
abbrev AncR (c : Circuit) (a b : Name) : Prop := Star (EdgeRel c) a b

theorem anc_edge {c : Circuit} {a b : Name} (h : (a, b) ∈ c.edges) : Anc c a b := Plus.single h

theorem anc_irrefl {c : Circuit} (hac : Acyclic c) {a : Name} : ¬ Anc c a a := by
  obtain ⟨rank, hr⟩ := hac
  intro h
  have := Plus.rank_lt rank (fun a b hab => hr (a, b) hab) h
  omega

theorem anc_asymm {c : Circuit} (hac : Acyclic c) {a b : Name} (h1 : Anc c a b) (h2 : Anc c b a) : False :=
  anc_irrefl hac (h1.trans h2)

theorem ancR_antisymm {c : Circuit} (hac : Acyclic c) {a b : Name} (h1 : AncR c a b) (h2 : AncR c b a) : a = b := by
  rcases h1.cases with h | h
  · exact h
  · rcases h2.cases with h' | h'
    · exact h'.symm
    · exact (anc_asymm hac h h').elim

/-! ### the cone -/

theorem mem_cone (c2 : Circuit) (hwf : WF c2) (o x : Name) : x ∈ coneOf c2 o ↔ AncR c2 x o := by
  unfold coneOf
  rw [List.mem_cons, Q.mem_ancestors c2 hwf]
  constructor
  · rintro (h | ⟨h, _⟩)
    · exact h ▸ Star.refl _
    · exact h.star
  · intro h
    rcases h.cases with h | h
    · exact Or.inl h
    · by_cases hx : x = o
      · exact Or.inl hx
      · exact Or.inr ⟨h, hx⟩

theorem root_mem_cone (c2 : Circuit) (o : Name) : o ∈ coneOf c2 o := List.mem_cons_self

theorem cone_nodup (c2 : Circuit) (hwf : WF c2) (o : Name) : (coneOf c2 o).Nodup := by
  unfold coneOf ancestors
  refine List.nodup_cons.mpr ⟨?_, ?_⟩
  · intro h
    have := (List.mem_filter.mp h).2
    simp at this
  · exact (Q.closure_nodup c2.fanin c2.nodeNames (Q.fanin_sub c2 hwf) _
      (by rw [Q.nodeNames_length]; omega) o).filter _

theorem cone_fanin (c2 : Circuit) (hwf : WF c2) {o a b : Name} (hb : b ∈ coneOf c2 o) (he : (a, b) ∈ c2.edges) :
    a ∈ coneOf c2 o := by
  rw [mem_cone c2 hwf] at hb ⊢
  exact (Plus.trans_star (anc_edge he) hb).star

theorem cone_anc (c2 : Circuit) (hwf : WF c2) {o a b : Name} (hb : b ∈ coneOf c2 o) (he : AncR c2 a b) :
    a ∈ coneOf c2 o := by
  rw [mem_cone c2 hwf] at hb ⊢
  exact he.trans hb

/-- sub-cones: the cone of a cone node is contained in the cone -/
theorem cone_sub (c2 : Circuit) (hwf : WF c2) {o h x : Name} (hh : h ∈ coneOf c2 o) (hx : x ∈ coneOf c2 h) :
    x ∈ coneOf c2 o := cone_anc c2 hwf hh ((mem_cone c2 hwf h x).mp hx)

/-! ### the digraph `g` of a cone -/

/-- the edge relation of `g` -/
abbrev gE (c2 : Circuit) (o : Name) : Name → Name → Prop := SuccRel (gSucc c2 (coneOf c2 o) o)

theorem gE_iff (c2 : Circuit) (o x y : Name) :
    gE c2 o x y ↔ ((y, x) ∈ c2.edges ∧ y ∈ coneOf c2 o) ∨ ((x, y) ∈ c2.edges ∧ y ∈ coneOf c2 o ∧ y ≠ o) := by
  show y ∈ gSucc c2 (coneOf c2 o) o x ↔ _
  unfold gSucc
  rw [List.mem_append, List.mem_filter, List.mem_filter, Q.mem_fanin, Q.mem_fanout]
  simp

theorem gE_mem (c2 : Circuit) {o x y : Name} (h : gE c2 o x y) : y ∈ coneOf c2 o := by
  rcases (gE_iff c2 o x y).mp h with h | h
  · exact h.2
  · exact h.2.1

theorem gE_back (c2 : Circuit) (hwf : WF c2) {o a b : Name} (he : (a, b) ∈ c2.edges) (hb : b ∈ coneOf c2 o) :
    gE c2 o b a := (gE_iff c2 o b a).mpr (Or.inl ⟨he, cone_fanin c2 hwf hb he⟩)

theorem gE_fwd (c2 : Circuit) {o a b : Name} (he : (a, b) ∈ c2.edges) (hb : b ∈ coneOf c2 o) (hbo : b ≠ o) :
    gE c2 o a b := (gE_iff c2 o a b).mpr (Or.inr ⟨he, hb, hbo⟩)

/-- reachable from the root `o` in `g` avoiding `d` -/
abbrev Rd (c2 : Circuit) (o d x : Name) : Prop := R (gE c2 o) o d x

theorem Rd_mem (c2 : Circuit) {o d x : Name} (h : Rd c2 o d x) : x ∈ coneOf c2 o := by
  cases h with
  | refl _ => exact root_mem_cone c2 o
  | step _ he _ => exact gE_mem c2 he

theorem Rd_root (c2 : Circuit) {o d : Name} (h : o ≠ d) : Rd c2 o d o := .refl o h

theorem Rd_back (c2 : Circuit) (hwf : WF c2) {o d a b : Name} (hb : Rd c2 o d b) (he : (a, b) ∈ c2.edges)
    (had : a ≠ d) : Rd c2 o d a := .step hb (gE_back c2 hwf he (Rd_mem c2 hb)) had

theorem Rd_fwd (c2 : Circuit) {o d a b : Name} (ha : Rd c2 o d a) (he : (a, b) ∈ c2.edges)
    (hb : b ∈ coneOf c2 o) (hbo : b ≠ o) (hbd : b ≠ d) : Rd c2 o d b := .step ha (gE_fwd c2 he hb hbo) hbd

/-- walking backwards along a forward path that avoids `d` -/
theorem Rd_back_star (c2 : Circuit) (hwf : WF c2) {o d a b : Name} (hab : AncR c2 a b) (hb : Rd c2 o d b)
    (hav : ∀ z, AncR c2 a z → AncR c2 z b → z ≠ d) : Rd c2 o d a := by
  obtain ⟨k, hp⟩ := hab
  induction hp with
  | nil a => exact hb
  | @cons a m b k he hp ih =>
    have hm : Rd c2 o d m := ih hb (fun z hz1 hz2 => hav z ((anc_edge he).trans_star hz1).star hz2)
    exact Rd_back c2 hwf hm he (hav a (Star.refl a) (Plus.of_step_star he ⟨k, hp⟩).star)

/-- walking forwards along a forward path that avoids `d` and the root -/
theorem Rd_fwd_star (c2 : Circuit) (hwf : WF c2) {o d a b : Name} (hab : AncR c2 a b) (ha : Rd c2 o d a)
    (hb : b ∈ coneOf c2 o) (hav : ∀ z, Anc c2 a z → AncR c2 z b → z ≠ d ∧ z ≠ o) : Rd c2 o d b := by
  obtain ⟨k, hp⟩ := hab
  induction hp with
  | nil a => exact ha
  | @cons a m b k he hp ih =>
    have hmb : AncR c2 m b := ⟨k, hp⟩
    have hm : m ∈ coneOf c2 o := cone_anc c2 hwf hb hmb
    have h1 := hav m (anc_edge he) hmb
    have hm' : Rd c2 o d m := Rd_fwd c2 ha he hm h1.2 h1.1
    exact ih hm' hb (fun z hz1 hz2 => hav z ((anc_edge he).trans hz1) hz2)

end SGA
end CG
