/- helper lemmas for C20 (tied miter passes lint): edges, types and name distinctness read off the `MView`;
   what a successful miter says about the compared endpoints -/
import CG.Proofs.LintProdCBase
set_option linter.unusedSimpArgs false
set_option linter.unusedVariables false
namespace CG
namespace LintProd
open Circuit Miter

/-! ### lists -/

theorem length_le_one_of_all_eq {α : Type} {a : α} : ∀ {l : List α}, l.Nodup → (∀ y ∈ l, y = a) → l.length ≤ 1
  | [], _, _ => by simp
  | [_], _, _ => by simp
  | x :: y :: l, hnd, h => by
    exfalso
    have hx := h x (by simp)
    have hy := h y (by simp)
    simp only [List.nodup_cons, List.mem_cons, not_or] at hnd
    exact hnd.1.1 (hx.trans hy.symm)

theorem eq_of_length_le_one {α : Type} {a b : α} : ∀ {l : List α}, l.length ≤ 1 → a ∈ l → b ∈ l → a = b
  | [], _, ha, _ => by cases ha
  | [x], _, ha, hb => by
    simp only [List.mem_singleton] at ha hb
    rw [ha, hb]
  | _ :: _ :: _, h, _, _ => by simp at h

/-! ### stripped attributes -/

theorem stripA_ne_input (a : Attr) : (stripA a).ty ≠ some "input" := by
  intro h
  rcases stripA_cases a h with ⟨_, h2⟩ | ⟨_, h2⟩
  · exact absurd h2 (by decide)
  · exact h2 rfl

theorem strip_typed {c : Circuit} (hc : LintClean c) {q : Name × Attr} (hq : q ∈ c.nodes) :
    ∃ t, (stripA q.2).ty = some t ∧ t ∈ Expected.supported_types := by
  obtain ⟨t, ht, hsup⟩ := hc.typed q hq
  by_cases hi : t = "input"
  · subst hi
    exact ⟨"buf", stripA_input ht, by decide⟩
  · exact ⟨t, stripA_ty_of_ne ht hi, hsup⟩

/-- a stripped attribute of pin type comes from the same pin type -/
theorem stripA_bb {a : Attr} {t : String} (h : (stripA a).ty = some t) (hb : t = "bb_output" ∨ t = "bb_input") :
    a.ty = some t := by
  rcases stripA_cases a h with ⟨_, h2⟩ | ⟨h1, _⟩
  · subst h2
    rcases hb with hb | hb <;> exact absurd hb (by decide)
  · exact h1

section view
variable {c0 c1 m : Circuit} {sp ep : List Name}

/-! ### edges -/

theorem mv_edges (V : MView c0 c1 sp ep m) (e : Name × Name) :
    e ∈ m.edges ↔ (∃ e0 ∈ c0.edges, e = (pref "c0" e0.1, pref "c0" e0.2)) ∨
      (∃ e0 ∈ c1.edges, e = (pref "c1" e0.1, pref "c1" e0.2)) ∨
      (∃ s ∈ sp, e = (s, pref "c0" s) ∨ e = (s, pref "c1" s)) ∨
      (∃ x ∈ ep, e = (dif x, "sat") ∨ e = (pref "c0" x, dif x) ∨ e = (pref "c1" x, dif x)) := by
  rw [V.edges]
  simp only [List.mem_append, Sens.mem_edgesOf, tieEdges, difEdges, List.mem_flatMap, List.mem_cons,
    List.not_mem_nil, or_false, or_assoc]

/-! ### types -/

theorem mv_ty_c0 (V : MView c0 c1 sp ep m) {q : Name × Attr} (hq : q ∈ c0.nodes) :
    m.ty? (pref "c0" q.1) = (stripA q.2).ty := by
  rw [ty?, attr?_of_mem V.wf.nodup (V.mem_c0 hq)]
  rfl

theorem mv_ty_c1 (V : MView c0 c1 sp ep m) {q : Name × Attr} (hq : q ∈ c1.nodes) :
    m.ty? (pref "c1" q.1) = (stripA q.2).ty := by
  rw [ty?, attr?_of_mem V.wf.nodup (V.mem_c1 hq)]
  rfl

theorem mv_ty_tie (V : MView c0 c1 sp ep m) {s : Name} (hs : s ∈ sp) : m.ty? s = some "input" := by
  rw [ty?, attr?_of_mem V.wf.nodup (V.mem_tie hs)]
  rfl

theorem mv_ty_sat (V : MView c0 c1 sp ep m) : m.ty? "sat" = some (satTy ep) := by
  have := V.mem_sat
  unfold satNode at this
  rw [ty?, attr?_of_mem V.wf.nodup this]
  rfl

theorem mv_ty_dif (V : MView c0 c1 sp ep m) {e : Name} (he : e ∈ ep) : m.ty? (dif e) = some "xor" := by
  rw [ty?, attr?_of_mem V.wf.nodup (V.mem_dif he)]
  rfl

/-- every typed node of the miter is of one of the five kinds -/
theorem mv_ty_cases (V : MView c0 c1 sp ep m) {x : Name} {t : String} (h : m.ty? x = some t) :
    (∃ q ∈ c0.nodes, x = pref "c0" q.1 ∧ (stripA q.2).ty = some t) ∨
    (∃ q ∈ c1.nodes, x = pref "c1" q.1 ∧ (stripA q.2).ty = some t) ∨
    (x ∈ sp ∧ t = "input") ∨ (x = "sat" ∧ t = satTy ep) ∨ (∃ e ∈ ep, x = dif e ∧ t = "xor") := by
  obtain ⟨p, hp, rfl, ht⟩ := Tseitin.mem_of_ty m x t h
  rcases V.cases hp with ⟨q, hq, rfl⟩ | ⟨q, hq, rfl⟩ | ⟨s, hs, rfl⟩ | rfl | ⟨e, he, rfl⟩
  · exact Or.inl ⟨q, hq, rfl, ht⟩
  · exact Or.inr (Or.inl ⟨q, hq, rfl, ht⟩)
  · simp only [] at ht
    injection ht with ht
    exact Or.inr (Or.inr (Or.inl ⟨hs, ht.symm⟩))
  · simp only [satNode] at ht
    injection ht with ht
    exact Or.inr (Or.inr (Or.inr (Or.inl ⟨rfl, ht.symm⟩)))
  · simp only [] at ht
    injection ht with ht
    exact Or.inr (Or.inr (Or.inr (Or.inr ⟨e, he, rfl, ht.symm⟩)))

theorem satTy_ne_input (ep : List Name) : satTy ep ≠ "input" := by
  rcases satTy_cases ep with h | h | h <;> rw [h] <;> decide

/-! ### the tied startpoints are not copies, comparators or `sat` -/

theorem tie_ne_c0 (V : MView c0 c1 sp ep m) {s : Name} (hs : s ∈ sp) {y : Name} (hy : c0.has y = true) :
    s ≠ pref "c0" y := by
  intro e
  obtain ⟨a, ha⟩ := has_exists hy
  have h1 := mv_ty_c0 V ha
  simp only [] at h1
  rw [← e, mv_ty_tie V hs] at h1
  exact stripA_ne_input a h1.symm

theorem tie_ne_c1 (V : MView c0 c1 sp ep m) {s : Name} (hs : s ∈ sp) {y : Name} (hy : c1.has y = true) :
    s ≠ pref "c1" y := by
  intro e
  obtain ⟨a, ha⟩ := has_exists hy
  have h1 := mv_ty_c1 V ha
  simp only [] at h1
  rw [← e, mv_ty_tie V hs] at h1
  exact stripA_ne_input a h1.symm

theorem tie_ne_sat (V : MView c0 c1 sp ep m) {s : Name} (hs : s ∈ sp) : s ≠ "sat" := by
  intro e
  have h1 := mv_ty_sat V
  rw [← e, mv_ty_tie V hs] at h1
  injection h1 with h1
  exact satTy_ne_input ep h1.symm

theorem tie_ne_dif (V : MView c0 c1 sp ep m) {s : Name} (hs : s ∈ sp) {x : Name} (hx : x ∈ ep) : s ≠ dif x := by
  intro e
  have h1 := mv_ty_dif V hx
  rw [← e, mv_ty_tie V hs] at h1
  injection h1 with h1
  exact absurd h1 (by decide)

/-- a tied startpoint has no driver -/
theorem mv_fanin_tie (V : MView c0 c1 sp ep m) (w0 : WF c0) (w1 : WF c1)
    (hin0 : ∀ s ∈ sp, s ∈ c0.inputs) (hin1 : ∀ s ∈ sp, s ∈ c1.inputs) {s : Name} (hs : s ∈ sp) :
    m.fanin s = [] := by
  rw [List.eq_nil_iff_forall_not_mem]
  intro u hu
  have he := mem_fanin.1 hu
  rcases (mv_edges V _).1 he with ⟨e0, h0, e⟩ | ⟨e0, h0, e⟩ | ⟨s', hs', e | e⟩ | ⟨x, hx, e | e | e⟩
  · injection e with _ e2
    exact tie_ne_c0 V hs (w0.closed e0 h0).2 e2
  · injection e with _ e2
    exact tie_ne_c1 V hs (w1.closed e0 h0).2 e2
  · injection e with _ e2
    exact tie_ne_c0 V hs (mem_inputs_has (hin0 s' hs')) e2
  · injection e with _ e2
    exact tie_ne_c1 V hs (mem_inputs_has (hin1 s' hs')) e2
  · injection e with _ e2
    exact tie_ne_sat V hs e2
  · injection e with _ e2
    exact tie_ne_dif V hs hx e2
  · injection e with _ e2
    exact tie_ne_dif V hs hx e2

end view

/-! ### what a successful miter says about the compared endpoints -/

theorem dif_fanin_c0 (e : Name) : pref "c0" e ∈ (difArgs e).fanin := by
  rw [pref_c0]; simp [difArgs]

theorem dif_fanin_c1 (e : Name) : pref "c1" e ∈ (difArgs e).fanin := by
  rw [pref_c1]; simp [difArgs]

/-- the compared endpoints are not blackbox pins: `connect` refuses a `bb_input` driver and lets a `bb_output` drive
    only a `buf` -/
theorem miter_ep_types {c0 c1 m : Circuit} {sp ep : List Name} {ord : Ord}
    (h0 : LintClean c0) (h1 : LintClean c1) (hb0 : c0.bbs = []) (hb1 : c1.bbs = []) (hne : c1.nodes ≠ [])
    (h : Tx.miter c0 (some c1) (some sp) (some ep) ord = .ok m) :
    ∀ e ∈ ep, (∀ a, (e, a) ∈ c0.nodes → a.ty ≠ some "bb_input" ∧ a.ty ≠ some "bb_output") ∧
      (∀ a, (e, a) ∈ c1.nodes → a.ty ≠ some "bb_input" ∧ a.ty ≠ some "bb_output") := by
  obtain ⟨m1, m2, m3, m4, s1, s2, s3, s4, s5⟩ :=
    miter_steps hb0 hb1 hne (typed_isNone h0) (typed_isNone h1) h
  obtain ⟨n1, _, _, w1⟩ := sub_exact (wf_m0 c0 c1) h0.toWF s1
  obtain ⟨n2, _, _, w2⟩ := sub_exact w1 h1.toWF s2
  obtain ⟨n3, _, _, w3⟩ := foldAdd_ok tieArgs plain_tie _ m2 m3 w2 s3
  have A4 := addOK_of w3 (plain_sat _) s4
  have hm4a : ∀ q ∈ c0.nodes, (pref "c0" q.1, stripA q.2) ∈ m4.nodes := by
    intro q hq
    rw [A4.nodes, n3, n2, n1]
    simp only [List.mem_append]
    exact Or.inl (Or.inl (Or.inl (Or.inr (List.mem_map.2 ⟨q, hq, rfl⟩))))
  have hm4b : ∀ q ∈ c1.nodes, (pref "c1" q.1, stripA q.2) ∈ m4.nodes := by
    intro q hq
    rw [A4.nodes, n3, n2]
    simp only [List.mem_append]
    exact Or.inl (Or.inl (Or.inr (List.mem_map.2 ⟨q, hq, rfl⟩)))
  intro e he
  obtain ⟨ci, ci', w, hsub, hadd⟩ := Sens.foldAdd_each difArgs plain_dif _ m4 m A4.wf s5 e he
  have key : ∀ (nm : Name) (a : Attr), pref nm e ∈ (difArgs e).fanin → (pref nm e, stripA a) ∈ m4.nodes →
      a.ty ≠ some "bb_input" ∧ a.ty ≠ some "bb_output" := by
    intro nm a hfi hm
    obtain ⟨t, ht, hn1, hn2⟩ := add_fanin_src_ty (plain_dif e) hadd (show "xor" ≠ "buf" by decide) hfi
    rw [ty?, attr?_of_mem w.nodup (hsub _ hm)] at ht
    simp only [Option.bind_some] at ht
    constructor
    · intro hty
      rw [stripA_ty_of_ne hty (by decide)] at ht
      injection ht with ht
      exact hn1 ht.symm
    · intro hty
      rw [stripA_ty_of_ne hty (by decide)] at ht
      injection ht with ht
      exact hn2 ht.symm
  exact ⟨fun a ha => key "c0" a (dif_fanin_c0 e) (hm4a (e, a) ha),
    fun a ha => key "c1" a (dif_fanin_c1 e) (hm4b (e, a) ha)⟩

end LintProd
end CG
