/- helper lemmas for C12 (graph queries): aggregator of the CG/Proofs/Query*.lean files -/
import CG.Query
import CG.Spec
import CG.Proofs.QueryBasic
import CG.Proofs.QueryClosure
import CG.Proofs.QueryKahn
import CG.Proofs.QueryRecon
import CG.Proofs.QueryLevel
import CG.Proofs.QueryKcuts
import CG.Proofs.QueryVisit
import CG.Proofs.QueryComplete
import CG.Proofs.QueryDepth
namespace CG
end CG
