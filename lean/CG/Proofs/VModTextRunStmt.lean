/- C14 (text level, module extraction) helper: every line the writer prints is a closed segment without a whole-word
   `endmodule` -/
import CG.Proofs.VModTextRun
import CG.Proofs.VTextItem
namespace CG
namespace VMT
open Verilog

/-! ### lists -/

/-- comma-separated words between a non-word character and a non-empty closed segment -/
theorem seg_commas_words : ∀ (ws : List (List Char)), (∀ w ∈ ws, W w) → ∀ (c : Char) (r : List Char), wc c = false →
    Seg r → r ≠ [] → Seg (c :: ((", ".toList).intercalate ws ++ r))
  | [], _, c, r, hc, hr, _ => by
    simpa [List.intercalate] using Seg.sym hc hr
  | [w], h, c, r, hc, hr, hne => by
    rw [VX.intercalate_one]
    exact Seg.symWord hc (h w (by simp)) hr hne
  | w :: w' :: ws, h, c, r, hc, hr, hne => by
    have ih := seg_commas_words (w' :: ws) (fun x hx => h x (by simp [hx])) ' ' r nw_sp hr hne
    have e : ", ".toList = [',', ' '] := by decide
    rw [VX.intercalate_cons₂, e]
    simp only [List.append_assoc, List.cons_append, List.nil_append]
    rw [e] at ih
    exact Seg.symWord hc (h w (by simp)) (Seg.sym nw_comma ih) (by simp)

/-- comma-separated closed segments -/
theorem seg_commas_segs : ∀ (L : List (List Char)), (∀ l ∈ L, Seg l) → Seg ((", ".toList).intercalate L)
  | [], _ => by simpa [List.intercalate] using Seg.nil
  | [l], h => by
    rw [VX.intercalate_one]
    exact h l (by simp)
  | l :: l' :: L, h => by
    have ih := seg_commas_segs (l' :: L) (fun x hx => h x (by simp [hx]))
    have e : ", ".toList = [',', ' '] := by decide
    rw [VX.intercalate_cons₂]
    refine ((h l (by simp)).append ?_).append ih
    rw [e]
    exact Seg.sym nw_comma (Seg.one nw_sp)

theorem seg_conn {q : Name × Option Expr} (hq : VX.ConnOK q) : Seg (VX.connText q).toList := by
  obtain ⟨pn, pe⟩ := q
  obtain ⟨hpn, hpe⟩ := hq
  simp only at hpn hpe
  have e1 : ".".toList = ['.'] := by decide
  have e2 : "(".toList = ['('] := by decide
  have e3 : ")".toList = [')'] := by decide
  have e4 : "".toList = [] := by decide
  rcases hpe with rfl | ⟨d, rfl, hd⟩
  · simp only [VX.connText, String.toList_append, e1, e2, e3, e4, List.cons_append, List.nil_append,
      List.append_assoc]
    exact Seg.symWord nw_dot (W.ident hpn) (Seg.sym nw_lparen (Seg.one nw_rparen)) (by simp)
  · have er : renderExpr (Expr.id d) = d := rfl
    simp only [VX.connText, er, String.toList_append, e1, e2, e3, List.cons_append, List.nil_append,
      List.append_assoc]
    exact Seg.symWord nw_dot (W.ident hpn) (Seg.symWord nw_lparen (W.ident hd) (Seg.one nw_rparen) (by simp)) (by simp)

/-- a chain `x op y op z` between a non-word character and a non-empty closed segment -/
theorem seg_chain {op : Expr → Expr → Expr} {s : String} (ho : VX.IsOp op s) : ∀ (xs : List Name) (x : Name),
    (∀ y ∈ x :: xs, VX.Ident y) → ∀ (c : Char) (r : List Char), wc c = false → Seg r → r ≠ [] →
    Seg (c :: (VX.chainText s x xs ++ r))
  | [], x, h, c, r, hc, hr, hne => by
    simp only [VX.chainText, List.flatMap_nil, List.append_nil]
    exact Seg.symWord hc (W.ident (h x (by simp))) hr hne
  | y :: ys, x, h, c, r, hc, hr, hne => by
    have ih := seg_chain ho ys y (fun z hz => h z (by simp [hz])) ' ' r nw_sp hr hne
    simp only [VX.chainText, List.flatMap_cons, List.append_assoc, List.cons_append] at ih ⊢
    refine Seg.symWord hc (W.ident (h x (by simp))) (Seg.sym nw_sp ?_) (by simp)
    cases ho
    · exact Seg.sym (c := '&') (by decide) ih
    · exact Seg.sym (c := '|') (by decide) ih
    · exact Seg.sym (c := '^') (by decide) ih

/-! ### declarations -/

theorem seg_decl {kw : List Char} (hk : W kw) {i : Name} (hi : VX.Ident i) :
    Seg (' ' :: ' ' :: (kw ++ ' ' :: (i.toList ++ [';', '\n']))) :=
  Seg.sym nw_sp (Seg.symWord nw_sp hk (Seg.symWord nw_sp (W.ident hi) (Seg.sym nw_semi (Seg.one nw_nl)) (by simp)) (by simp))

theorem seg_input {i : Name} (hi : VX.Ident i) : Seg ("  input " ++ i ++ ";\n").toList := by
  have e1 : "  input ".toList = ' ' :: ' ' :: ("input".toList ++ [' ']) := by decide
  have e2 : ";\n".toList = [';', '\n'] := by decide
  have := seg_decl W.input hi
  simp only [String.toList_append, e1, e2]
  simpa using this

theorem seg_output {i : Name} (hi : VX.Ident i) : Seg ("  output " ++ i ++ ";\n").toList := by
  have e1 : "  output ".toList = ' ' :: ' ' :: ("output".toList ++ [' ']) := by decide
  have e2 : ";\n".toList = [';', '\n'] := by decide
  have := seg_decl W.output hi
  simp only [String.toList_append, e1, e2]
  simpa using this

theorem seg_wire {i : Name} (hi : VX.Ident i) : Seg ("  wire " ++ i ++ ";\n").toList := by
  have e1 : "  wire ".toList = ' ' :: ' ' :: ("wire".toList ++ [' ']) := by decide
  have e2 : ";\n".toList = [';', '\n'] := by decide
  have := seg_decl W.wire hi
  simp only [String.toList_append, e1, e2]
  simpa using this

/-! ### statements -/

theorem seg_end : Seg [';', '\n'] := Seg.sym nw_semi (Seg.one nw_nl)

theorem seg_named {m i : Name} {ps : List (Name × Option Expr)} (hm : VX.Ident m) (hi : VX.Ident i)
    (hps : ∀ q ∈ ps, VX.ConnOK q) :
    Seg ("  " ++ renderStmt false (Item.inst m [(i, Conns.named ps)]) ++ ";\n").toList := by
  have er : renderStmt false (Item.inst m [(i, Conns.named ps)]) =
      m ++ " " ++ i ++ " (" ++ ", ".intercalate (ps.map VX.connText) ++ ")" := rfl
  have e1 : "  ".toList = [' ', ' '] := by decide
  have e2 : " ".toList = [' '] := by decide
  have e3 : " (".toList = [' ', '('] := by decide
  have e4 : ")".toList = [')'] := by decide
  have e5 : ";\n".toList = [';', '\n'] := by decide
  simp only [er, String.toList_append, String.toList_intercalate, e1, e2, e3, e4, e5, List.cons_append,
    List.nil_append, List.append_assoc, List.map_map]
  have hl : Seg ((", ".toList).intercalate (List.map (String.toList ∘ VX.connText) ps)) :=
    seg_commas_segs _ (by
      intro l hl
      obtain ⟨q, hq, rfl⟩ := List.mem_map.1 hl
      exact seg_conn (hps q hq))
  exact Seg.sym nw_sp (Seg.symWord nw_sp (W.ident hm) (Seg.symWord nw_sp (W.ident hi) (Seg.sym nw_sp
    (Seg.sym nw_lparen (hl.append (Seg.sym nw_rparen seg_end)))) (by simp)) (by simp))

theorem seg_pos {t g : Name} {ns : List Name} (ht : VX.Ident t) (hg : VX.Ident g) (hns : ∀ n ∈ ns, VX.Ident n) :
    Seg ("  " ++ renderStmt false (Item.inst t [(g, Conns.positional (ns.map Expr.id))]) ++ ";\n").toList := by
  have er : renderStmt false (Item.inst t [(g, Conns.positional (ns.map Expr.id))]) =
      t ++ " " ++ g ++ "(" ++ ", ".intercalate ((ns.map Expr.id).map renderExpr) ++ ")" := rfl
  have em : (ns.map Expr.id).map renderExpr = ns := by
    rw [List.map_map]
    have : (renderExpr ∘ Expr.id) = id := rfl
    rw [this, List.map_id]
  have e1 : "  ".toList = [' ', ' '] := by decide
  have e2 : " ".toList = [' '] := by decide
  have e3 : "(".toList = ['('] := by decide
  have e4 : ")".toList = [')'] := by decide
  have e5 : ";\n".toList = [';', '\n'] := by decide
  simp only [er, em, String.toList_append, String.toList_intercalate, e1, e2, e3, e4, e5, List.cons_append,
    List.nil_append, List.append_assoc]
  have hl := seg_commas_words (ns.map String.toList) (by
      intro l hl
      obtain ⟨q, hq, rfl⟩ := List.mem_map.1 hl
      exact W.ident (hns q hq)) '(' (')' :: ';' :: ['\n']) nw_lparen (Seg.sym nw_rparen seg_end) (by simp)
  exact Seg.sym nw_sp (Seg.symWord nw_sp (W.ident ht) (Seg.symWord nw_sp (W.ident hg) hl (by simp)) (by simp))

/-- right-hand sides, between the blank after `=` and the final `;\n` -/
theorem seg_asg_expr {p : Bool} {e : Expr} (h : VX.AsgOK p e) :
    ∃ cs, (∀ n, (renderStmt p (Item.assign [(n, e)])).toList =
        "assign".toList ++ ' ' :: (n.toList ++ ' ' :: '=' :: ' ' :: cs)) ∧ Seg (' ' :: (cs ++ [';', '\n'])) := by
  rcases h with ⟨rfl, t, rfl, ht⟩ | ⟨rfl, d, rfl, hd⟩ | ⟨rfl, op, s, x, xs, ho, rfl, hx⟩ | ⟨rfl, op, s, x, xs, ho, rfl, hx⟩
  · refine ⟨("1'b" ++ t).toList, fun n => ?_, ?_⟩
    · rw [VX.render_asg_false, ← VX.asg_prefix]
      rfl
    · have e : "1'b".toList = ['1', '\'', 'b'] := by decide
      simp only [String.toList_append, e, List.cons_append, List.nil_append]
      exact Seg.symWord (u := ['1']) nw_sp W.one (Seg.symWord nw_quote (W.bit ht) seg_end (by simp)) (by simp)
  · refine ⟨'~' :: d.toList, fun n => ?_, ?_⟩
    · rw [VX.render_asg_false]
      have : renderExpr (Expr.not (Expr.id d)) = "~" ++ d := rfl
      rw [this, VX.asg_prefix, String.toList_append]
      rfl
    · exact Seg.sym nw_sp (Seg.symWord nw_tilde (W.ident hd) seg_end (by simp))
  · refine ⟨VX.chainText s x xs, fun n => ?_, seg_chain ho xs x hx ' ' _ nw_sp seg_end (by simp)⟩
    rw [VX.render_asg_false, VX.asg_prefix, VX.render_chain ho]
  · refine ⟨'~' :: '(' :: (VX.chainText s x xs ++ [')']), fun n => ?_, ?_⟩
    · have er : renderStmt true (Item.assign [(n, Expr.not (chain op (x :: xs)))]) =
          "assign " ++ n ++ " = ~(" ++ renderExpr (chain op (x :: xs)) ++ ")" := rfl
      have e1 : "assign ".toList = "assign".toList ++ [' '] := by decide
      have e2 : " = ~(".toList = [' ', '=', ' ', '~', '('] := by decide
      have e3 : ")".toList = [')'] := by decide
      rw [er]
      simp only [String.toList_append, e1, e2, e3, VX.render_chain ho]
      simp
    · have := seg_chain ho xs x hx '(' (')' :: ';' :: ['\n']) nw_lparen (Seg.sym nw_rparen seg_end) (by simp)
      simp only [List.cons_append, List.append_assoc, List.nil_append]
      exact Seg.sym nw_sp (Seg.sym nw_tilde this)

theorem seg_assign {n : Name} {e : Expr} {p : Bool} (hn : VX.Ident n) (he : VX.AsgOK p e) :
    Seg ("  " ++ renderStmt p (Item.assign [(n, e)]) ++ ";\n").toList := by
  obtain ⟨cs, hr, hs⟩ := seg_asg_expr he
  have e1 : "  ".toList = [' ', ' '] := by decide
  have e5 : ";\n".toList = [';', '\n'] := by decide
  simp only [String.toList_append, hr n, e1, e5, List.cons_append, List.nil_append, List.append_assoc]
  exact Seg.sym nw_sp (Seg.symWord nw_sp W.assign (Seg.symWord nw_sp (W.ident hn) (Seg.sym nw_sp (Seg.sym nw_eq hs))
    (by simp)) (by simp))

/-- every emitted statement line is a closed segment -/
theorem seg_stmt {it : Item} {p : Bool} (h : VX.StmtOK it p) : Seg ("  " ++ renderStmt p it ++ ";\n").toList := by
  rcases h with ⟨rfl, m, i, ps, rfl, hm, hi, _, hps⟩ | ⟨rfl, t, g, ns, rfl, ht, hg, _, hns⟩ | ⟨n, e, rfl, hn, he⟩
  · exact seg_named hm hi hps
  · exact seg_pos ht hg hns
  · exact seg_assign hn he

end VMT
end CG
