/- C09 (sequential_unroll with a per-flop initial-value dict): soundness, completeness and success -/
import CG.Proofs.UnrollSeqDictUnfold
import CG.Proofs.UnrollSeqDictCore
set_option linter.unusedSimpArgs false
set_option linter.unusedVariables false
namespace CG
namespace USD
open Circuit Unroll Strip USS

/-- what a successful call with a dict establishes: the setup of the plain unrolling, plus the dict loop's frame -/
theorem unfold_dict {c : Circuit} {bb : BBox} {n : Nat} {d q : Name} {ig : List Name} {afo : Bool}
    {dict : List (Name × String)} {ru : Bool} {pfx : String} {ord : Ord} (hord : OrdOK ord)
    (G : SeqGood' c bb d q) (K : NoClash c bb ig) (hig : d ∉ ig ∧ q ∉ ig)
    (hkeys : ∀ kv ∈ dict, ∃ u ∈ c.bbs, u.1 = kv.1)
    {uc : Circuit} {ioMap : List (Name × List Name)}
    (h : Tx.sequentialUnroll c n d q ig afo none dict ru pfx ord = .ok (uc, ioMap)) :
    ∃ cs0 r, Setup c bb d q ig ru pfx ord n cs0 r ∧ ioMap = r.2 ∧
      uc.edges = r.1.edges ∧ uc.nodeNames = r.1.nodeNames ∧
      (∀ x, uc.ty? x = r.1.ty? x ∨ ∃ kv ∈ dict, uc.ty? x = some kv.2 ∧ ∃ u ∈ c.bbs, u.1 = kv.1 ∧
        x = N (prune cs0 bb (insts c) d q ig ru) pfx (u.1 ++ "_" ++ q) 0) ∧
      ((dict.map (·.1)).Nodup → ∀ kv ∈ dict, ∀ u ∈ c.bbs, u.1 = kv.1 →
        uc.ty? (N (prune cs0 bb (insts c) d q ig ru) pfx (u.1 ++ "_" ++ q) 0) = some kv.2) := by
  obtain ⟨r0, h0, hf, hm⟩ := seq_dict_unfold h
  obtain ⟨cs0, r, T, hm0, e1, e2, e3, _⟩ := unfold_all hord G K hig h0
  obtain ⟨f1, f2, f3⟩ := dictPhase _ _ _ _ _ hf
  have key : ∀ kv ∈ dict, ∀ u ∈ c.bbs, u.1 = kv.1 →
      Tx.ioName r0.2 (kv.1 ++ "_" ++ q) 0 = N (prune cs0 bb (insts c) d q ig ru) pfx (u.1 ++ "_" ++ q) 0 := by
    intro kv hkv u hu e
    rw [← e, hm0]
    exact T.ioName (T.qName u hu).2.2.2 T.npos
  refine ⟨cs0, r, T, hm.trans hm0, f1.trans e1, f2.trans e2, ?_, ?_⟩
  · intro x
    rcases f3 x with h3 | ⟨kv, hkv, h3, e⟩
    · rcases e3 x with h4 | ⟨s, hs, _⟩
      · exact Or.inl (h3.trans h4)
      · cases hs
    · obtain ⟨u, hu, eu⟩ := hkeys kv hkv
      exact Or.inr ⟨kv, hkv, h3, u, hu, eu, by rw [e]; exact key kv hkv u hu eu⟩
  · intro hnd kv hkv u hu eu
    rw [← key kv hkv u hu eu]
    apply dictPhase_set _ _ _ _ _ hf hnd _ kv hkv
    intro a ha b hb e
    obtain ⟨ua, hua, ea⟩ := hkeys a ha
    obtain ⟨ub, hub, eb⟩ := hkeys b hb
    rw [key a ha ua hua ea, key b hb ub hub eb] at e
    rw [← ea, ← eb]
    exact Setup.q0_inj T hua hub e

theorem dict_sound (c : Circuit) (bb : BBox) (n : Nat) (d q : Name) (ig : List Name) (afo : Bool)
    (dict : List (Name × String)) (ru : Bool) (pfx : String) (ord : Ord) (hord : OrdOK ord)
    (G : SeqGood' c bb d q) (K : NoClash c bb ig) (hig : d ∉ ig ∧ q ∉ ig)
    (hkeys : ∀ kv ∈ dict, ∃ u ∈ c.bbs, u.1 = kv.1) (hnd : (dict.map (·.1)).Nodup)
    (hvals : ∀ kv ∈ dict, kv.2 = "0" ∨ kv.2 = "1")
    (uc : Circuit) (ioMap : List (Name × List Name))
    (h : Tx.sequentialUnroll c n d q ig afo none dict ru pfx ord = .ok (uc, ioMap))
    (v : Val) (hv : Consistent uc v) :
    ∃ w, SeqRun' c d q n w ∧
      (∀ o ∈ c.outputs, ∀ t, t < n → v (Tx.ioName ioMap o t) = w t o) ∧
      (∀ u ∈ c.bbs, ∀ t, t < n → v (Tx.ioName ioMap (u.1 ++ "_" ++ d) t) = w t (u.1 ++ "." ++ d)) ∧
      (∀ kv ∈ dict, w 0 (kv.1 ++ "." ++ q) = (kv.2 == "1")) := by
  obtain ⟨cs0, r, T, hm, e1, e2, e3, e4⟩ := unfold_dict hord G K hig hkeys h
  subst hm
  obtain ⟨w, w1, w2, w3, w4⟩ := sound_core hord G K T e1 e2
    (fun x => by
      rcases e3 x with h3 | ⟨kv, _, _, u, hu, _, e⟩
      · exact Or.inl h3
      · exact Or.inr ⟨u, hu, e⟩) v hv
  refine ⟨w, w1, w2, w3, ?_⟩
  intro kv hkv
  obtain ⟨u, hu, eu⟩ := hkeys kv hkv
  rw [← eu, w4 u hu]
  obtain ⟨a, ha, hta⟩ := mem_of_ty? (e4 hnd kv hkv u hu eu)
  exact hv _ ha _ hta _ (gateFn_const (hvals kv hkv) ((uc.fanin _).map v))

theorem dict_complete (c : Circuit) (bb : BBox) (n : Nat) (d q : Name) (ig : List Name) (afo : Bool)
    (dict : List (Name × String)) (ru : Bool) (pfx : String) (ord : Ord) (hord : OrdOK ord)
    (G : SeqGood' c bb d q) (K : NoClash c bb ig) (hig : d ∉ ig ∧ q ∉ ig)
    (hkeys : ∀ kv ∈ dict, ∃ u ∈ c.bbs, u.1 = kv.1)
    (hvals : ∀ kv ∈ dict, kv.2 = "0" ∨ kv.2 = "1")
    (uc : Circuit) (ioMap : List (Name × List Name))
    (h : Tx.sequentialUnroll c n d q ig afo none dict ru pfx ord = .ok (uc, ioMap))
    (w : Nat → Val) (hw : SeqRun' c d q n w)
    (hw0 : ∀ kv ∈ dict, w 0 (kv.1 ++ "." ++ q) = (kv.2 == "1")) :
    ∃ v, Consistent uc v ∧
      (∀ o ∈ c.outputs, ∀ t, t < n → v (Tx.ioName ioMap o t) = w t o) ∧
      (∀ u ∈ c.bbs, ∀ t, t < n → v (Tx.ioName ioMap (u.1 ++ "_" ++ d) t) = w t (u.1 ++ "." ++ d)) := by
  obtain ⟨cs0, r, T, hm, e1, e2, e3, _⟩ := unfold_dict hord G K hig hkeys h
  subst hm
  apply complete_core hord G K T e1 e2 w hw
  intro x s hx
  rcases e3 x with h3 | ⟨kv, hkv, h3, u, hu, eu, e⟩
  · exact Or.inl (by rw [← h3]; exact hx)
  · rw [h3] at hx
    injection hx with hx
    subst hx
    exact Or.inr ⟨u, hu, e, hvals kv hkv, by rw [eu]; exact hw0 kv hkv⟩

theorem dict_succeeds (c : Circuit) (bb : BBox) (n : Nat) (d q : Name) (ig : List Name) (afo : Bool)
    (dict : List (Name × String)) (ru : Bool) (pfx : String) (ord : Ord) (hord : OrdOK ord)
    (G : SeqGood' c bb d q) (K : NoClash c bb ig) (hig : d ∉ ig ∧ q ∉ ig)
    (hkeys : ∀ kv ∈ dict, ∃ u ∈ c.bbs, u.1 = kv.1)
    (hvals : ∀ kv ∈ dict, kv.2 = "0" ∨ kv.2 = "1")
    (r0 : Circuit × List (Name × List Name))
    (h0 : Tx.sequentialUnroll c n d q ig afo none [] ru pfx ord = .ok r0) :
    ∃ uc, Tx.sequentialUnroll c n d q ig afo none dict ru pfx ord = .ok (uc, r0.2) := by
  obtain ⟨cs0, r, T, hm0, e1, e2, _, _⟩ := unfold_all hord G K hig h0
  obtain ⟨uc, hf⟩ := dict_ok r0.2 q dict r0.1
    (fun kv hkv => by
      obtain ⟨u, hu, eu⟩ := hkeys kv hkv
      have qio := (T.qName u hu).2.2.2
      obtain ⟨k, hk⟩ : ∃ k, n = k + 1 := ⟨n - 1, by have := T.npos; omega⟩
      refine ⟨N (prune cs0 bb (insts c) d q ig ru) pfx (u.1 ++ "_" ++ q) 0,
        (List.range k).map (fun t => N (prune cs0 bb (insts c) d q ig ru) pfx (u.1 ++ "_" ++ q) (t + 1)), ?_, ?_⟩
      · rw [← eu, hm0, T.I.map]
        unfold mapAt
        rw [lookup_map_key _ _ _ qio, hk, List.range_succ_eq_map, List.map_cons, List.map_map]
        rfl
      · rw [has_iff_mem, e2, ← has_iff_mem]
        exact T.I.hasN T.npos qio)
    hvals
  refine ⟨uc, ?_⟩
  rw [seq_dict_eq, h0]
  show (List.foldlM (dictStep r0.2 q) r0.1 dict >>= fun uc => pure (uc, r0.2)) = _
  rw [hf]
  rfl

end USD
end CG
