/- C17 (super-circuit) helpers: with a single output a node is internal to at most one kept supergate -/
import CG.Proofs.SGSuperFacts
set_option linter.unusedSectionVars false
set_option linter.unusedVariables false
set_option linter.unusedSimpArgs false
namespace CG
namespace SGSuper
open Query Supergates SGA Q

/-- a dominator-tree child is a proper ancestor of its parent -/
theorem anc_of_child {c2 : Circuit} (hwf : WF c2) (hac : Acyclic c2) {o n k : Name}
    (hk : k ∈ childrenOf (domChildren c2 o) n) : Anc c2 k n := by
  have T := treeOK c2 hwf hac o
  obtain ⟨hkc, hp⟩ := T.ch_par n k hk
  exact (par_SD c2 hwf hac hkc hp).anc hwf hkc

/-- a head of the cone is not an internal non-head member of a supergate of the same cone -/
theorem head_not_inner {c2 : Circuit} {o h' n : Name} {S' : List Name} (X' : SGCtx c2 o h' S')
    (hint : n ∈ internal (sgCircuit c2 o h' S')) (hne : n ≠ h') (hn : HeadOf c2 o n) : False := by
  obtain ⟨hnS, hcases⟩ := X'.internal_cases hint
  rcases hn.2 with h | hgt
  · exact X'.ne_root_of_ne hnS hne h
  · rcases hcases with hf | ⟨a, he, ha⟩
    · match hch : childrenOf (domChildren c2 o) n with
      | [] => rw [hch] at hgt; simp at hgt
      | k :: _ =>
        exact not_anc_of_fanin_nil hf (anc_of_child X'.wf X'.acyc (o := o) (n := n) (k := k)
          (by rw [hch]; exact List.mem_cons_self))
    · exact X'.nonfrontier_of_driven hnS hne he ha hgt

/-- two supergates of the same cone with a common internal node have the same head -/
theorem head_eq_of_common_internal {c2 : Circuit} {o h h' n : Name} {S S' : List Name} (X : SGCtx c2 o h S)
    (X' : SGCtx c2 o h' S') (hint : n ∈ internal (sgCircuit c2 o h S))
    (hint' : n ∈ internal (sgCircuit c2 o h' S')) : h = h' := by
  refine Classical.byContradiction (fun hne => ?_)
  have hnS := ((mem_sg_internal c2 o h S n).mp hint).1
  have hnS' := ((mem_sg_internal c2 o h' S' n).mp hint').1
  have T := treeOK c2 X.wf X.acyc o
  by_cases h1 : n = h
  · subst h1
    exact head_not_inner X' hint' hne X.head
  · by_cases h2 : n = h'
    · subst h2
      exact head_not_inner X hint h1 X'.head
    · have hc := X.chain_of_ne hnS h1
      have hc' := X'.chain_of_ne hnS' h2
      rcases hc.two_heads T hc' hne with ⟨hch, hlen⟩ | ⟨hch, hlen⟩
      · rcases X'.head.2 with h3 | h3
        · exact X.ne_root_of_ne ((X.mem h').mpr (Or.inr hch)) (fun e => hne e.symm) h3
        · omega
      · rcases X.head.2 with h3 | h3
        · exact X'.ne_root_of_ne ((X'.mem h).mpr (Or.inr hch)) hne h3
        · omega

/-- with a single output, a node is internal to at most one kept supergate -/
theorem kept_internal_disj (c2 : Circuit) (hc : LintClean c2) (hac : Acyclic c2) (hfi : ∀ n, (c2.fanin n).length ≤ 2)
    (hbo : ∀ n, c2.ty? n ≠ some "bb_output") (outs : List Name) (houts : outs.Perm c2.outputs)
    (hd : (algo c2 outs).headsDistinct = true) (h1 : c2.outputs.length = 1) :
    ∀ p ∈ kept (algo c2 outs).sgs, ∀ q ∈ kept (algo c2 outs).sgs, ∀ n,
      n ∈ internal p.2 → n ∈ internal q.2 → p = q := by
  intro p hpk q hqk n hnp hnq
  obtain ⟨hp, _⟩ := mem_kept.mp hpk
  obtain ⟨hq, _⟩ := mem_kept.mp hqk
  obtain ⟨heq, hcone, X⟩ := algo_ctx c2 hc hac hfi outs houts hp
  obtain ⟨heq', hcone', X'⟩ := algo_ctx c2 hc hac hfi outs houts hq
  have hco : p.1.cone ∈ c2.outputs := houts.mem_iff.mp hcone
  rw [cone_eq_of_single houts h1 hco hcone'] at X' heq'
  rw [heq] at hnp
  rw [heq'] at hnq
  have hh := head_eq_of_common_internal X X' hnp hnq
  exact eq_of_key_eq (fun r : Found × Circuit => r.1.head) (kept_heads_nodup hd) hpk hqk hh

/-- a node typed `x` is internal to at most one kept supergate -/
theorem kept_x_disj (c2 : Circuit) (hc : LintClean c2) (hac : Acyclic c2) (hfi : ∀ n, (c2.fanin n).length ≤ 2)
    (hbo : ∀ n, c2.ty? n ≠ some "bb_output") (outs : List Name) (houts : outs.Perm c2.outputs)
    (hd : (algo c2 outs).headsDistinct = true) (h1 : c2.outputs.length = 1) :
    ∀ p ∈ kept (algo c2 outs).sgs, ∀ q ∈ kept (algo c2 outs).sgs, ∀ n, c2.ty? n = some "x" →
      n ∈ internal p.2 → n ∈ internal q.2 → p = q :=
  fun p hp q hq n _ => kept_internal_disj c2 hc hac hfi hbo outs houts hd h1 p hp q hq n

end SGSuper
end CG

#print axioms CG.SGSuper.kept_internal_disj
#print axioms CG.SGSuper.kept_x_disj
