/- helper lemmas for C11 (influence): the model count of `sensitization_transform(c, sx, [n])` under `sat = 1` is the
   number of valuations of the startpoints of `n` under which flipping `sx` flips `n` -/
import CG.Proofs.SensESem
import CG.Proofs.ModelCount
set_option linter.unusedSimpArgs false
set_option linter.unusedVariables false
namespace CG
namespace SensE
open Circuit Miter Q Query

/-- a duplicate-free list of startpoint valuations, re-indexed along a permutation of the startpoints -/
theorem reindex_list {sp1 sp2 : List Name} (h : sp1.Perm sp2) (P : (Name → Bool) → Prop)
    (L1 : List (List Bool)) (hn1 : L1.Nodup) (h1 : ∀ bs, bs ∈ L1 ↔ ∃ v, P v ∧ sp1.map v = bs) :
    ∃ L2 : List (List Bool), L2.Nodup ∧ L2.length = L1.length ∧ ∀ bs, bs ∈ L2 ↔ ∃ v, P v ∧ sp2.map v = bs := by
  obtain ⟨φ, hφ⟩ := MC.perm_reindex h
  obtain ⟨ψ, hψ⟩ := MC.perm_reindex h.symm
  have hinv : ∀ x ∈ L1, ψ (φ x) = x := by
    intro x hx
    obtain ⟨v, _, rfl⟩ := (h1 x).mp hx
    rw [hφ v, hψ v]
  refine ⟨L1.map φ, ?_, List.length_map _, ?_⟩
  · exact MC.nodup_map_of_inj_on φ L1 hn1 (fun x hx y hy hxy => by rw [← hinv x hx, ← hinv y hy, hxy])
  · intro bs
    rw [List.mem_map]
    constructor
    · rintro ⟨x, hx, rfl⟩
      obtain ⟨v, hv, rfl⟩ := (h1 x).mp hx
      exact ⟨v, hv, (hφ v).symm⟩
    · rintro ⟨v, hv, rfl⟩
      exact ⟨sp1.map v, (h1 _).2 ⟨v, hv, rfl⟩, hφ v⟩

section eview
variable {c m sc m0 : Circuit} {n : Name} {E K sp ep : List Name}

theorem EView.clean (X : EView c n E K m sc m0 sp ep) (hnox : ∀ p ∈ c.nodes, p.2.ty ≠ some "x") : C01.Clean m := by
  have hinsp : ∀ s ∈ sp, s ∈ sc.inputs := fun s hs => (X.hsp s).1 hs
  have hx : ∀ p ∈ sc.nodes, p.2.ty ≠ some "x" :=
    X.eq.nox X.wcone (fun p hp => hnox p ((Sens.sub_mem_nodes p).1 hp).1)
  exact X.sv.clean (X.sv.mv.clean X.lint X.lint X.spN X.epN X.epne hinsp hinsp hx hx)

/-- the startpoints of the transform's result are the tied inputs -/
theorem EView.startpoints (X : EView c n E K m sc m0 sp ep) (x : Name) : x ∈ m.startpointsAll ↔ x ∈ sp := by
  refine ⟨fun h => X.sv.startpoints X.nbo h, fun hx => ?_⟩
  have S := X.sv
  have hm := S.mv.mem_tie hx
  have hne : x ≠ pref "c1" n := by
    intro e
    -- `c1_n` is a copied node of `m0`; names of `m0` are duplicate-free
    obtain ⟨a, ha⟩ := has_exists ((X.has n).2 X.hn)
    have h1 := S.mv.mem_c1 ha
    rw [e] at hm
    have e1 := attr?_of_mem S.mv.wf.nodup hm
    rw [attr?_of_mem S.mv.wf.nodup h1] at e1
    injection e1 with e1
    have h2 : (stripA a).ty = some "input" := by rw [e1]
    rcases stripA_cases a h2 with ⟨_, hh⟩ | ⟨_, hh⟩
    · exact absurd hh (by decide)
    · exact hh rfl
  have hm' := S.mem_other hm hne
  unfold Circuit.startpointsAll
  rw [Sens.mem_filterType]
  exact ⟨_, hm', "input", rfl, by simp⟩

end eview

/-- a startpoint of `n` for which the transform succeeds is an input of the cone -/
theorem sx_input {c m : Circuit} {n sx : Name} {tfi sp : List Name} {ord : Ord}
    {ordE : List (Name × Name) → List (Name × Name)} (hord : OrdOK ord) (hordE : ∀ l, (ordE l).Perm l)
    (hcl : LintClean c) (hb : c.bbs = []) (hn : c.has n = true)
    (hsp : startpoints c [n] = .ok sp) (htfi : transitiveFanin c [n] = .ok tfi) (hsx : sx ∈ sp)
    (h : Tx.sensitizationTransform c sx [n] ord ordE = .ok m) : sx ∈ c.inputs ∧ sx ∈ [n] ++ tfi := by
  obtain ⟨fi, sc0, m0, m2, nm, hfi, _, hs0, _⟩ := steps_E hb (by simp) h
  rw [htfi] at hfi
  injection hfi with hfi
  subst hfi
  have w := hcl.toWF
  have S := subcircuit_shape w hordE (Sens.ord_nodup hord (nodup_dedup _)) hs0
  obtain ⟨hk, hsa⟩ := (Sens.mem_sp_iff hcl hn htfi hsp sx).1 hsx
  have hk' : sx ∈ [n] ++ tfi := hk
  refine ⟨?_, hk'⟩
  obtain ⟨t, ht, _, hnbo⟩ := S.typed sx (by rw [Sens.ord_mem hord, mem_dedup]; exact hk')
  unfold Circuit.startpointsAll at hsa
  rw [Sens.mem_filterType] at hsa
  obtain ⟨a, ha, t', ht', hm⟩ := hsa
  have e : c.ty? sx = some t' := ty?_of_mem w.nodup ha ht'
  rw [ht] at e
  injection e with e
  subst e
  simp only [List.mem_cons, List.not_mem_nil, or_false] at hm
  rcases hm with rfl | rfl
  · exact (CG.mem_inputs w.nodup sx).2 ht
  · exact absurd rfl hnbo

/-- **one entry of `influence`**: the count for startpoint `sx` -/
theorem count_one (s : Solver) (hs : SolverSpec s) {c m : Circuit} {n sx : Name} {tfi sp : List Name} {ord : Ord}
    {ordE : List (Name × Name) → List (Name × Name)} (hord : OrdOK ord) (hordE : ∀ l, (ordE l).Perm l)
    (hcl : LintClean c) (hb : c.bbs = []) (hnox : ∀ p ∈ c.nodes, p.2.ty ≠ some "x") (hn : c.has n = true)
    (hsp : startpoints c [n] = .ok sp) (htfi : transitiveFanin c [n] = .ok tfi) (hsx : sx ∈ sp)
    (h : Tx.sensitizationTransform c sx [n] ord ordE = .ok m) :
    ∃ L : List (List Bool), L.Nodup ∧ modelCount s m ord [("sat", true)] = .ok L.length ∧
      ∀ bs, bs ∈ L ↔ ∃ v, Consistent (Tx.inducedSub c (n :: tfi)) v ∧ sp.map v = bs ∧
        ∃ w, (Consistent (Tx.inducedSub c (n :: tfi)) w ∧ w sx = !v sx ∧
          ∀ i ∈ (Tx.inducedSub c (n :: tfi)).inputs, i ≠ sx → w i = v i) ∧ w n ≠ v n := by
  obtain ⟨hsxi, hsxK⟩ := sx_input hord hordE hcl hb hn hsp htfi hsx h
  obtain ⟨sc, m0, spm, ep, X⟩ := eview hord hordE hcl hb (by simp) htfi ⟨sx, hsxi, hsxK⟩ h
  have hK : [n] ++ tfi = n :: tfi := rfl
  rw [hK] at X
  have w := hcl.toWF
  have hclean := X.clean hnox
  have hsat : ∀ p ∈ [("sat", true)], m.has p.1 = true := by
    intro p hp
    simp only [List.mem_singleton] at hp
    subst hp
    exact X.sv.has_sat
  obtain ⟨L0, hnd0, hmem0, hcnt0⟩ := MC.modelCount_spec s hs m ord hord hclean [("sat", true)] hsat
  -- the cone's inputs are the startpoints of `n`
  have hspN : sp.Nodup := Sens.sp_nodup hcl hn hsp
  have hci : ∀ x, x ∈ (Tx.inducedSub c (n :: tfi)).inputs ↔ x ∈ sp := by
    intro x
    rw [CG.mem_inputs X.wcone.nodup, Sens.mem_sp_iff hcl hn htfi hsp]
    constructor
    · intro hx
      have hxK : x ∈ n :: tfi := ((Sens.sub_has x).1 (has_of_ty? hx)).2
      refine ⟨hxK, ?_⟩
      rw [Sens.sub_ty hxK] at hx
      obtain ⟨p, hp, rfl, hpt⟩ := Tseitin.mem_of_ty c x "input" hx
      unfold Circuit.startpointsAll
      rw [Sens.mem_filterType]
      exact ⟨p.2, hp, "input", hpt, by simp⟩
    · rintro ⟨hxK, hsa⟩
      rw [Sens.sub_ty hxK]
      unfold Circuit.startpointsAll at hsa
      rw [Sens.mem_filterType] at hsa
      obtain ⟨a, ha, t', ht', hm⟩ := hsa
      have e : c.ty? x = some t' := ty?_of_mem w.nodup ha ht'
      simp only [List.mem_cons, List.not_mem_nil, or_false] at hm
      rcases hm with rfl | rfl
      · exact e
      · exfalso
        have e2 : sc.ty? x = some "bb_output" := by rw [X.eq.ty, Sens.sub_ty hxK]; exact e
        obtain ⟨q, hq, _, hqt⟩ := Tseitin.mem_of_ty sc x "bb_output" e2
        exact X.nbo q hq hqt
  have hspm : ∀ x, x ∈ spm ↔ x ∈ sp := by
    intro x
    rw [X.hsp, X.eq.inputs X.wcone, hci]
  have hperm : (ord m.startpointsAll).Perm sp := by
    apply (List.perm_ext_iff_of_nodup (Sens.ord_nodup hord (Sens.filterType_nodup hclean.nodup _)) hspN).2
    intro x
    rw [Sens.ord_mem hord]
    exact (X.startpoints x).trans (hspm x)
  obtain ⟨L, hnd, hlen, hmem⟩ := reindex_list hperm (fun v => Consistent m v ∧ v "sat" = true) L0 hnd0 (by
    intro bs
    rw [hmem0]
    constructor
    · rintro ⟨v, h1, h2, h3⟩
      exact ⟨v, ⟨h1, h2 ("sat", true) (by simp)⟩, h3⟩
    · rintro ⟨v, ⟨h1, h2⟩, h3⟩
      refine ⟨v, h1, ?_, h3⟩
      intro p hp
      simp only [List.mem_singleton] at hp
      subst hp
      exact h2)
  refine ⟨L, hnd, by rw [hlen]; exact hcnt0, ?_⟩
  have hsxc : sx ∈ (Tx.inducedSub c (n :: tfi)).inputs := (hci sx).2 hsx
  intro bs
  rw [hmem]
  constructor
  · rintro ⟨v, ⟨hv, hsatv⟩, rfl⟩
    obtain ⟨k0, ⟨k1, k2, k3⟩, kt, ks⟩ := X.sem v hv
    refine ⟨fun x => v ("c0_" ++ x), k0, ?_, fun x => v ("c1_" ++ x), ⟨?_, k1, k3⟩, ?_⟩
    · apply List.map_congr_left
      intro x hx
      exact kt x ((hci x).2 hx)
    · -- the equation of the input `sx` is vacuous
      intro p hp t ht
      by_cases hps : p.1 = sx
      · have hty : (Tx.inducedSub c (n :: tfi)).ty? p.1 = some t := ty?_of_mem X.wcone.nodup hp ht
        rw [hps, (CG.mem_inputs X.wcone.nodup sx).1 hsxc] at hty
        injection hty with hty
        subst hty
        intro b hb
        rw [gateFn_input] at hb
        cases hb
      · exact k2 p hp hps t ht
    · obtain ⟨e, he, hd⟩ := ks.1 hsatv
      simp only [List.mem_singleton] at he
      subst he
      exact fun e' => hd e'.symm
  · rintro ⟨v0, hv0, rfl, w', ⟨hw0, hw1, hw3⟩, hwn⟩
    obtain ⟨v, hv, hval, htie⟩ := X.complete v0 w' hv0 hw1 (fun p hp _ t ht => hw0 p hp t ht) hw3
    refine ⟨v, ⟨hv, ?_⟩, ?_⟩
    · apply (X.sem v hv).2.2.2.2
      refine ⟨n, by simp, ?_⟩
      obtain ⟨a, b⟩ := hval n (by simp)
      rw [a, b]
      exact fun e' => hwn e'.symm
    · apply List.map_congr_left
      intro x hx
      exact htie x ((hci x).2 hx)

/-- a successful `mapM` whose results carry their argument -/
theorem mapM_inv {α β : Type} (f : α → Except Outcome β) (key : β → α) (hkey : ∀ x p, f x = .ok p → key p = x) :
    ∀ (l : List α) (r : List β), l.mapM f = .ok r → r.map key = l ∧ ∀ p ∈ r, f (key p) = .ok p := by
  intro l
  induction l with
  | nil =>
    intro r h
    rw [List.mapM_nil] at h
    injection h with h
    subst h
    exact ⟨rfl, fun p hp => by cases hp⟩
  | cons x l ih =>
    intro r h
    rw [List.mapM_cons] at h
    cases hx : f x with
    | error e => rw [hx] at h; cases h
    | ok b =>
      rw [hx] at h
      cases hl : l.mapM f with
      | error e => rw [hl] at h; cases h
      | ok bs =>
        rw [hl] at h
        injection h with h
        subst h
        obtain ⟨i1, i2⟩ := ih bs hl
        have hb := hkey x b hx
        refine ⟨by rw [List.map_cons, i1, hb], ?_⟩
        intro p hp
        rcases List.mem_cons.1 hp with rfl | hp
        · rw [hb]; exact hx
        · exact i2 p hp

end SensE
end CG
