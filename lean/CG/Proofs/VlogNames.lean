/- C02 helper: the names the Verilog transformer synthesises, and the expression vocabulary (mirrors of the
   definitions of `CG/Props/C02.lean`, identified there). -/
import CG.Verilog
import CG.Spec
import CG.Proofs.TernaryNames
namespace CG
namespace VT
open Verilog Circuit

def synPrefixes : List String := ["not_", "and_", "or_", "xor_", "xnor_", "mux_n_", "mux_a0_", "mux_a1_", "mux_o_"]

/-- a name the transformer may synthesise for a gate -/
def IsSyn (n : Name) : Prop := ∃ p ∈ synPrefixes, ∃ r, n = p ++ r

def isSynB (n : Name) : Bool := synPrefixes.any (fun p => p.toList.isPrefixOf n.toList)

theorem prefix_iff (p n : String) : (∃ r, n = p ++ r) ↔ p.toList.isPrefixOf n.toList = true := by
  rw [List.isPrefixOf_iff_prefix]
  constructor
  · rintro ⟨r, rfl⟩
    rw [String.toList_append]
    exact List.prefix_append _ _
  · rintro ⟨l, hl⟩
    refine ⟨String.ofList l, ?_⟩
    apply String.ext
    rw [String.toList_append, String.toList_ofList, hl]

theorem isSyn_iff (n : Name) : IsSyn n ↔ isSynB n = true := by
  unfold IsSyn isSynB
  rw [List.any_eq_true]
  constructor
  · rintro ⟨p, hp, h⟩; exact ⟨p, hp, (prefix_iff p n).1 h⟩
  · rintro ⟨p, hp, h⟩; exact ⟨p, hp, (prefix_iff p n).2 h⟩

theorem not_syn_of {n : Name} (h : isSynB n = false) : ¬ IsSyn n := by
  rw [isSyn_iff, h]; simp

theorem tie0_not_syn : ¬ IsSyn "tie_0" := not_syn_of (by decide)
theorem tie1_not_syn : ¬ IsSyn "tie_1" := not_syn_of (by decide)
theorem tiex_not_syn : ¬ IsSyn "tie_x" := not_syn_of (by decide)

theorem IsSyn.append {n : Name} (h : IsSyn n) (s : String) : IsSyn (n ++ s) := by
  obtain ⟨p, hp, r, rfl⟩ := h
  exact ⟨p, hp, r ++ s, String.append_assoc⟩

theorem isSyn_lit {p : String} (hp : p ∈ synPrefixes) (r : String) : IsSyn (p ++ r) := ⟨p, hp, r, rfl⟩

theorem IsSyn.uidOf {base x : Name} (h : IsSyn base) (hu : Ternary.UidOf base x) : IsSyn x := by
  rcases hu with rfl | ⟨j, rfl⟩
  · exact h
  · unfold uidName
    exact (h.append _).append _

theorem IsSyn.nameOK {n : Name} (h : IsSyn n) : Limit.NameOK n := by
  obtain ⟨p, hp, r, rfl⟩ := h
  apply Limit.NameOK.append
  simp only [synPrefixes, List.mem_cons, List.not_mem_nil, or_false] at hp
  rcases hp with rfl | rfl | rfl | rfl | rfl | rfl | rfl | rfl | rfl <;> exact ⟨by decide, by decide⟩

/-! ### expression vocabulary -/

def denote (v : Val) : Expr → Bool
  | .id s => v s
  | .const c => c == "1"
  | .not e => !denote v e
  | .and a b => denote v a && denote v b
  | .or a b => denote v a || denote v b
  | .xor a b => Bool.xor (denote v a) (denote v b)
  | .xnor a b => !Bool.xor (denote v a) (denote v b)
  | .mux c a b => if denote v c then denote v a else denote v b

def exprIds : Expr → List Name
  | .id s => [s]
  | .const _ => []
  | .not e => exprIds e
  | .and a b | .or a b | .xor a b | .xnor a b => exprIds a ++ exprIds b
  | .mux c a b => exprIds c ++ exprIds a ++ exprIds b

/-- every constant is `0` or `1` (what the lexer produces, minus `x`) -/
def BinConsts : Expr → Prop
  | .id _ => True
  | .const c => c = "0" ∨ c = "1"
  | .not e => BinConsts e
  | .and a b | .or a b | .xor a b | .xnor a b => BinConsts a ∧ BinConsts b
  | .mux c a b => BinConsts c ∧ BinConsts a ∧ BinConsts b

theorem denote_congr {v v' : Val} : ∀ (e : Expr), (∀ x ∈ exprIds e, v' x = v x) → denote v' e = denote v e
  | .id s, h => h s (by simp [exprIds])
  | .const _, _ => rfl
  | .not e, h => by simp only [denote, denote_congr e h]
  | .and a b, h => by
    simp only [denote, denote_congr a (fun x hx => h x (by simp [exprIds, hx])),
      denote_congr b (fun x hx => h x (by simp [exprIds, hx]))]
  | .or a b, h => by
    simp only [denote, denote_congr a (fun x hx => h x (by simp [exprIds, hx])),
      denote_congr b (fun x hx => h x (by simp [exprIds, hx]))]
  | .xor a b, h => by
    simp only [denote, denote_congr a (fun x hx => h x (by simp [exprIds, hx])),
      denote_congr b (fun x hx => h x (by simp [exprIds, hx]))]
  | .xnor a b, h => by
    simp only [denote, denote_congr a (fun x hx => h x (by simp [exprIds, hx])),
      denote_congr b (fun x hx => h x (by simp [exprIds, hx]))]
  | .mux c a b, h => by
    simp only [denote, denote_congr c (fun x hx => h x (by simp [exprIds, hx])),
      denote_congr a (fun x hx => h x (by simp [exprIds, hx])),
      denote_congr b (fun x hx => h x (by simp [exprIds, hx]))]

/-- the executable consistency check is sound (used for closed counterexamples) -/
theorem consistentB_sound (c : Circuit) (v : Val) (h : consistentB c v = true) : Consistent c v := by
  intro p hp t ht b hb
  unfold consistentB at h
  rw [List.all_eq_true] at h
  have := h p hp
  rw [ht] at this
  simp only [nodeOKB] at this
  rw [hb] at this
  simpa using this

end VT
end CG
