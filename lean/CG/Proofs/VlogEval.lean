/- C02 helper: `evalExpr` succeeds, keeps the invariant, and the net it returns carries the value of the expression
   in every consistent valuation. -/
import CG.Proofs.VlogInv
namespace CG
namespace VT
open Verilog Circuit Ternary

variable {D : Name → Prop} {ins : List Name}

/-! ### one gate -/

theorem addNode_uid_ok (hD : DeclOK D ins) (st : TState) (hSI : SI D ins st.c) (base ty : String) (fanin : List Name)
    (hbase : IsSyn base) (hty : ty ∈ gateTys) (hlen : ty = "not" → fanin.length ≤ 1)
    (hfi : ∀ u ∈ fanin, Usable D st.c u) :
    ∃ c' n, addNode st base ty fanin true = .ok ({ st with c := c' }, n) ∧ GateOut D ins st.c c' n ty fanin := by
  have hsome := Limit.uid_isSome st.c base []
  cases hu : st.c.uid base with
  | none => rw [hu] at hsome; cases hsome
  | some r =>
    obtain ⟨hfresh, huid⟩ := Limit.uid_spec st.c base r hu
    have hsyn : IsSyn r := hbase.uidOf huid
    have hgt := gateTys_ok hty
    obtain ⟨t', hadd, spec⟩ := add_ok' st.c
      { n := base, ty := ty, fanin := fanin, uid := true, addConnected := true, allowRedef := true } r
      (by simp only [if_true]; exact hu) (fun _ => rfl) hsyn.nameOK hgt.1
      (by
        rintro (h | h)
        · exact absurd h hgt.2.1
        · exact ⟨hlen h, fun _ e he => (hSI.not_has_of_edge hfresh e he).2⟩)
      (by
        rintro (h | h | h)
        · exact absurd h hgt.2.2.1
        · exact absurd h hgt.2.2.2.1
        · exact absurd h hgt.2.2.2.2)
      rfl
      (by
        intro u hu'
        rcases hfi u hu' with ⟨h, _⟩ | h
        · exact Or.inl h
        · exact Or.inr ⟨rfl, hD.nameOK u h⟩)
      (by
        intro u hu' _ hh
        have hux : u ≠ "tie_x" := by
          rcases hfi u hu' with ⟨_, h⟩ | h
          · exact h
          · exact (hD.notTie u h).2.2
        obtain ⟨a, ha⟩ := Limit.attr_of_has hh
        obtain ⟨_, ty', h1, h2⟩ := hSI.typed u a ha hux
        exact ⟨ty', by rw [ty_of_attr ha]; exact h1, h2⟩)
    refine ⟨t', r, ?_, gateOut_of_spec hD hSI spec hsyn hfresh hty rfl rfl rfl hfi⟩
    unfold addNode addE
    rw [hadd]
    rfl

theorem mem_insertNew {l : List Name} {x g : Name} (h : g ∈ insertNew l x) : g ∈ l ∨ g = x := by
  unfold insertNew at h
  split at h
  · exact Or.inl h
  · rw [List.mem_append, List.mem_singleton] at h; exact h

theorem mem_insertNew_self (l : List Name) (x : Name) : x ∈ insertNew l x := by
  unfold insertNew
  split
  · rename_i h; simpa using h
  · simp

theorem gate_ok (hD : DeclOK D ins) (st : TState) (hSI : SI D ins st.c) (base ty : String) (fanin : List Name)
    (hbase : IsSyn base) (hty : ty ∈ gateTys) (hlen : ty = "not" → fanin.length ≤ 1)
    (hfi : ∀ u ∈ fanin, Usable D st.c u) :
    ∃ c' n, gate st base ty fanin = .ok ({ c := c', gateExprs := insertNew st.gateExprs n }, n) ∧
      GateOut D ins st.c c' n ty fanin := by
  obtain ⟨c', n, h, o⟩ := addNode_uid_ok hD st hSI base ty fanin hbase hty hlen hfi
  refine ⟨c', n, ?_, o⟩
  unfold gate
  rw [h]
  rfl

/-! ### values -/

/-- in every consistent valuation of `c`, net `n` has value `f v` -/
def ValFact (c : Circuit) (n : Name) (f : Val → Bool) : Prop := ∀ v, Consistent c v → v n = f v

theorem ValFact.ext {c c' : Circuit} {n : Name} {f : Val → Bool} (h : ValFact c n f) (he : Ext c c') (hc : WF c)
    (hc' : WF c') : ValFact c' n f := fun v hv => h v (he.consistent hc hc' hv)

theorem val_of {c : Circuit} {v : Val} (hv : Consistent c v) (hnd : c.edges.Nodup) {n : Name} {a : Attr}
    (ha : c.attr? n = some a) {t : String} (ht : a.ty = some t) (L : List Name) (hL : L.Nodup) (hf : FaninIs c n L)
    {b : Bool} (hg : gateFn t (L.map v) = some b) : v n = b :=
  Arith.node_val hv hnd (attr?_mem ha) ht L hL hf hg

theorem val_not {c : Circuit} {n x : Name} {o : Option Bool} (hnd : c.edges.Nodup)
    (ha : c.attr? n = some { ty := some "not", out := o }) (hf : FaninIs c n [x]) :
    ValFact c n (fun v => !v x) := fun v hv =>
  val_of hv hnd ha rfl [x] (by simp) hf (by simp [gateFn])

/-- a two-input gate whose operands may coincide (the edge list is a set) -/
theorem val_bin {c : Circuit} {n x y : Name} {o : Option Bool} {t : String} (op : Bool → Bool → Bool) (hnd : c.edges.Nodup)
    (ha : c.attr? n = some { ty := some t, out := o }) (hf : FaninIs c n [x, y])
    (h1 : x = y → ∀ b, gateFn t [b] = some (op b b))
    (h2 : x ≠ y → ∀ b1 b2, gateFn t [b1, b2] = some (op b1 b2)) :
    ValFact c n (fun v => op (v x) (v y)) := by
  intro v hv
  by_cases hxy : x = y
  · subst hxy
    exact val_of hv hnd ha rfl [x] (by simp) (hf.congr (by intro u; simp)) (by simpa using h1 rfl (v x))
  · exact val_of hv hnd ha rfl [x, y] (by simp [hxy]) hf (by simpa using h2 hxy (v x) (v y))

theorem gate_and1 (b : Bool) : gateFn "and" [b] = some (b && b) := by simp [gateFn]
theorem gate_and2 (b1 b2 : Bool) : gateFn "and" [b1, b2] = some (b1 && b2) := by simp [gateFn]
theorem gate_or1 (b : Bool) : gateFn "or" [b] = some (b || b) := by simp [gateFn]
theorem gate_or2 (b1 b2 : Bool) : gateFn "or" [b1, b2] = some (b1 || b2) := by simp [gateFn]
theorem gate_xor2 (b1 b2 : Bool) : gateFn "xor" [b1, b2] = some (Bool.xor b1 b2) := by simp [gateFn, xorL]
theorem gate_xnor2 (b1 b2 : Bool) : gateFn "xnor" [b1, b2] = some (!Bool.xor b1 b2) := by simp [gateFn, xorL]

theorem val_tie0 {c : Circuit} (h : SI D ins c) : ValFact c "tie_0" (fun _ => false) := fun _ hv =>
  Arith.zero_val hv (attr?_mem h.tie0) rfl

theorem val_tie1 {c : Circuit} (h : SI D ins c) : ValFact c "tie_1" (fun _ => true) := fun v hv =>
  hv _ (attr?_mem h.tie1) "1" rfl true (by simp [gateFn])

/-! ### the result of evaluating an expression -/

structure EvalOut (D : Name → Prop) (ins : List Name) (st st' : TState) (n : Name) (e : Expr) : Prop where
  si : SI D ins st'.c
  ge : ∀ g ∈ st'.gateExprs, IsSyn g
  ext : Ext st.c st'.c
  val : ValFact st'.c n (fun v => denote v e)
  cls : (D n ∨ n = "tie_0" ∨ n = "tie_1") ∨
    (n ∈ st'.gateExprs ∧ IsSyn n ∧ st.c.has n = false ∧ st'.c.has n = true ∧ ∀ e ∈ st'.c.edges, e.1 ≠ n)

theorem EvalOut.usable {st st' : TState} {n : Name} {e : Expr} (o : EvalOut D ins st st' n e) : Usable D st'.c n := by
  rcases o.cls with (h | rfl | rfl) | ⟨_, hs, _, hh, _⟩
  · exact Or.inr h
  · exact Or.inl ⟨o.si.has_tie0, by decide⟩
  · exact Or.inl ⟨o.si.has_tie1, by decide⟩
  · refine Or.inl ⟨hh, ?_⟩
    rintro rfl
    exact tiex_not_syn hs

/-- a gate built on top of a state reached from `st0`: the new state continues the evaluation -/
theorem EvalOut.of_gate {st0 st : TState} {c' : Circuit} {n : Name} {ty : String} {fanin : List Name} {e : Expr}
    (hext0 : Ext st0.c st.c) (hge : ∀ g ∈ st.gateExprs, IsSyn g) (o : GateOut D ins st.c c' n ty fanin)
    (hval : ValFact c' n (fun v => denote v e)) :
    EvalOut D ins st0 { c := c', gateExprs := insertNew st.gateExprs n } n e where
  si := o.si
  ge := fun g hg => (mem_insertNew hg).elim (hge g) (fun h => h ▸ o.syn)
  ext := hext0.trans o.ext
  val := hval
  cls := by
    have hf : st0.c.has n = false := by
      cases h : st0.c.has n with
      | false => rfl
      | true => have := o.fresh; rw [hext0.mono n h] at this; cases this
    exact Or.inr ⟨mem_insertNew_self _ _, o.syn, hf, o.has, o.noOut⟩

end VT
end CG
