/- the loops of limit_fanout (C05 helper) -/
import CG.Proofs.LimitFanoutInv
import CG.Proofs.LimitFaninLoop
namespace CG
namespace Limit
open Circuit

/-- what one (or several) buffering steps guarantee about the new circuit relative to the old one -/
structure FoRel (c c' : Circuit) : Prop where
  lc : LintClean c'
  ref : Refines c c' id
  attr : ∀ m, c.has m = true → c'.attr? m = c.attr? m
  ins : c'.inputs = c.inputs
  outs : c'.outputs = c.outputs
  fanout : ∀ m, (c'.fanout m).length ≤ max 2 (c.fanout m).length

theorem FoRel.refl {c : Circuit} (hc : LintClean c) : FoRel c c :=
  ⟨hc, refines_refl c, fun _ _ => rfl, rfl, rfl, fun _ => Nat.le_max_right _ _⟩

theorem FoRel.has {c c' : Circuit} (h : FoRel c c') {m : Name} (hm : c.has m = true) : c'.has m = true := by
  obtain ⟨a, ha⟩ := attr_of_has hm
  exact has_of_attr ((h.attr m hm).trans ha)

theorem FoRel.trans {c1 c2 c3 : Circuit} (h12 : FoRel c1 c2) (h23 : FoRel c2 c3) : FoRel c1 c3 where
  lc := h23.lc
  ref := refines_trans h12.ref h23.ref (fun _ hn => h12.has hn)
  attr := fun m hm => (h23.attr m (h12.has hm)).trans (h12.attr m hm)
  ins := h23.ins.trans h12.ins
  outs := h23.outs.trans h12.outs
  fanout := fun m => by
    have h1 := h12.fanout m
    have h2 := h23.fanout m
    omega

theorem FanoutPre.step_rel {c : Circuit} {n f0 f1 r : Name} (h : FanoutPre c n f0 f1 r) :
    FoRel c (fanoutStep c n f0 f1 r) where
  lc := h.step_lintClean
  ref := h.step_refines
  attr := fun _ hm => ext_attr_old h.hn hm
  ins := ext_inputs h.hn (by simp [gateAttr])
  outs := ext_outputs h.hn rfl
  fanout := fun m => by
    by_cases hmn : m = n
    · subst hmn
      have := h.fanout_n_length
      omega
    · by_cases hmr : m = r
      · subst hmr
        rw [h.fanout_r]
        exact Nat.le_max_left 2 _
      · rw [fanoutStep_fanout_other c n f0 f1 r hmn hmr]
        exact Nat.le_max_right _ _

theorem fanout_length_le_edges (c : Circuit) (n : Name) : (c.fanout n).length ≤ c.edges.length := by
  unfold Circuit.fanout
  rw [List.length_map]
  exact List.length_filter_le _ _

theorem has_of_fanout_pos {c : Circuit} (hc : WF c) {n : Name} (h : 0 < (c.fanout n).length) : c.has n = true := by
  obtain ⟨x, hx⟩ := List.exists_mem_of_length_pos h
  exact (hc.closed _ ((RU.mem_fanout c n x).mp hx)).1

/-- the inner `while` loop of `limit_fanout` for node `n` -/
theorem limitFanoutNode_ok (k : Nat) (hk : 2 ≤ k) (ord : Ord) (hord : OrdOK ord) (n : Name) :
    ∀ (fuel i : Nat) (ck : Circuit), LintClean ck → (ck.fanout n).length + 1 ≤ fuel →
      (k < (ck.fanout n).length → isDigit0 n = false) →
      ∃ ck', Tx.limitFanoutNode k ord n fuel i ck = .ok ck' ∧ FoRel ck ck' ∧ (ck'.fanout n).length ≤ k
  | 0, _, _, _, hf, _ => by omega
  | fuel + 1, i, ck, hc, hf, hd => by
    by_cases hgt : (ck.fanout n).length > k
    · have hperm := hord (ck.fanout n)
      have hlen := hperm.length_eq
      match hl : ord (ck.fanout n), hlen with
      | [], hlen => simp at hlen; omega
      | [x], hlen => simp at hlen; omega
      | f0 :: f1 :: rest, _ =>
        rw [hl] at hperm
        have hnd : (f0 :: f1 :: rest).Nodup := (hperm.nodup_iff).mpr (RU.fanout_nodup ck hc.edgesNodup n)
        have hne : f0 ≠ f1 := by
          intro he
          rw [he] at hnd
          simp at hnd
        have e0 : (n, f0) ∈ ck.edges := (RU.mem_fanout ck n f0).mp (hperm.subset (by simp))
        have e1 : (n, f1) ∈ ck.edges := (RU.mem_fanout ck n f1).mp (hperm.subset (by simp))
        have hsome := uid_isSome ck (n ++ "_limit_fanout_" ++ toString i) []
        obtain ⟨r, hr⟩ := Option.isSome_iff_exists.mp hsome
        have hfresh := (uid_spec ck _ r hr).1
        have hok : NameOK r :=
          nameOK_uid ck n "_limit_fanout_" (toString i) r "limit_fanout_".toList (by decide) (hd hgt) hr
        have hpre : FanoutPre ck n f0 f1 r := ⟨hc, e0, e1, hne, hfresh⟩
        have hadd := hpre.addE_eq _ hr hok
        have hm := hpre.fanout_n_length
        obtain ⟨ck', hrun, hrel, hfin⟩ := limitFanoutNode_ok k hk ord hord n fuel (i + 1)
          (fanoutStep ck n f0 f1 r) hpre.step_lintClean (by omega) (fun _ => hd hgt)
        refine ⟨ck', ?_, hpre.step_rel.trans hrel, hfin⟩
        unfold Tx.limitFanoutNode
        simp only [hgt, if_true, hl, hadd]
        exact hrun
    · refine ⟨ck, ?_, FoRel.refl hc, by omega⟩
      unfold Tx.limitFanoutNode
      simp only [hgt, if_false]

/-- the outer loop of `limit_fanout` -/
theorem limitFanout_fold (c : Circuit) (k : Nat) (hk : 2 ≤ k) (ord : Ord) (hord : OrdOK ord)
    (hname : ∀ n, k < (c.fanout n).length → isDigit0 n = false) :
    ∀ (L : List Name) (D : Name → Prop) (ck : Circuit), FoRel c ck → (∀ m, D m → (ck.fanout m).length ≤ k) →
      ∃ c', L.foldlM (fun ck n => Tx.limitFanoutNode k ord n (ck.edges.length + 2) 0 ck) ck = .ok c' ∧
        FoRel c c' ∧ ∀ m, (D m ∨ m ∈ L) → (c'.fanout m).length ≤ k
  | [], D, ck, hrel, hD => ⟨ck, rfl, hrel, fun m hm => by
      rcases hm with hm | hm
      · exact hD m hm
      · simp at hm⟩
  | n :: L, D, ck, hrel, hD => by
    have hfuel : (ck.fanout n).length + 1 ≤ ck.edges.length + 2 := by
      have := fanout_length_le_edges ck n
      omega
    have hdig : k < (ck.fanout n).length → isDigit0 n = false := by
      intro hlt
      apply hname
      have := hrel.fanout n
      omega
    obtain ⟨ck1, hrun, hrel1, hfin⟩ := limitFanoutNode_ok k hk ord hord n _ 0 ck hrel.lc hfuel hdig
    obtain ⟨c', hrun', hrel', hall⟩ := limitFanout_fold c k hk ord hord hname L (fun m => D m ∨ m = n) ck1
      (hrel.trans hrel1) (by
        intro m hm
        rcases hm with hm | rfl
        · have h1 := hD m hm
          have h2 := hrel1.fanout m
          omega
        · exact hfin)
    refine ⟨c', ?_, hrel', ?_⟩
    · rw [List.foldlM_cons, hrun]
      exact hrun'
    · intro m hm
      apply hall
      rcases hm with hm | hm
      · exact Or.inl (Or.inl hm)
      · rcases List.mem_cons.mp hm with rfl | hm
        · exact Or.inl (Or.inr rfl)
        · exact Or.inr hm

theorem limit_fanout_main (c : Circuit) (k : Nat) (hk : 2 ≤ k) (ord : Ord) (hord : OrdOK ord) (hc : LintClean c)
    (hname : ∀ n, k < (c.fanout n).length → isDigit0 n = false) :
    ∃ c', Tx.limitFanout c k ord = .ok c' ∧
      (∀ n, (c'.fanout n).length ≤ k) ∧
      c'.inputs = c.inputs ∧ c'.outputs = c.outputs ∧
      (∀ n, c.has n = true → c'.attr? n = c.attr? n) ∧
      LintClean c' ∧ Refines c c' id := by
  obtain ⟨c', hrun, hrel, hall⟩ := limitFanout_fold c k hk ord hord hname (ord c.nodeNames) (fun _ => False) c
    (FoRel.refl hc) (fun _ hm => hm.elim)
  refine ⟨c', ?_, ?_, hrel.ins, hrel.outs, hrel.attr, hrel.lc, hrel.ref⟩
  · unfold Tx.limitFanout
    rw [if_neg (by omega)]
    exact hrun
  · intro m
    by_cases hm : c.has m = true
    · apply hall
      right
      exact (hord c.nodeNames).mem_iff.mpr ((RU.has_iff c m).mp hm)
    · have hnil : (c.fanout m).length = 0 := by
        cases hlen : (c.fanout m).length with
        | zero => rfl
        | succ j => exact absurd (has_of_fanout_pos hc.toWF (by omega)) hm
      have := hrel.fanout m
      omega

end Limit
end CG
