/- C10 helper: decidable checks for the non-vacuity examples -/
import CG.Spec
import CG.Proofs.Limit
namespace CG
namespace Ternary

/-- a topological order from a decidable check over the edge list -/
theorem topo_of_checks (c : Circuit) (order : List Name) (hnd : order.Nodup)
    (h : ∀ e ∈ c.edges, order.idxOf e.1 < order.idxOf e.2) :
    ∀ i j (hi : i < order.length) (hj : j < order.length), (order[i], order[j]) ∈ c.edges → i < j := by
  intro i j hi hj he
  have := h _ he
  simp only [hnd.idxOf_getElem] at this
  exact this

end Ternary
end CG
