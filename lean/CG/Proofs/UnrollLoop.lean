/- C09 (unroll): the whole loop and the unfolding of a successful call -/
import CG.Proofs.UnrollStep
set_option linter.unusedSimpArgs false
set_option linter.unusedVariables false
namespace CG
namespace Unroll
open Circuit

section
variable {c : Circuit} {stateIO : List (Name × Name)} {pfx : String} {io : List Name}

theorem inv_zero : Inv c stateIO pfx io 0 ({}, io.map (fun x => (x, []))) where
  wf := ⟨List.nodup_nil, List.nodup_nil, fun e he => by cases he⟩
  map := rfl
  nodes := rfl
  faninIn := fun t ht => by omega
  faninCopy := fun t ht => by omega
  faninOut := fun t ht => by omega
  faninVal := fun t ht => by omega
  faninFree := fun t ht => by omega

theorem loop (C : Ctx c stateIO io) : ∀ (n : Nat) (s : Tx.UState),
    (List.range n).foldlM (Tx.unrollStep c io stateIO pfx) ({}, io.map (fun x => (x, []))) = .ok s →
    Inv c stateIO pfx io n s
  | 0, s, h => by
    rw [List.range_zero] at h
    rw [foldlM_nil_ok _ _ _ h]
    exact inv_zero
  | n + 1, s, h => by
    rw [List.range_succ, List.foldlM_append] at h
    obtain ⟨s1, h1, h2⟩ := bind_ok h
    obtain ⟨s2, h3, h4⟩ := foldlM_cons_ok _ _ _ _ _ h2
    rw [foldlM_nil_ok _ _ _ h4]
    exact step C (loop C n s1 h1) h3

end

theorem unroll_unfold {c : Circuit} {n : Nat} {stateIO : List (Name × Name)} {pfx : String} {ord : Ord}
    {s : Tx.UState} (h : Tx.unroll c n stateIO pfx ord = .ok s) :
    0 < n ∧ (∀ p ∈ stateIO, p.1 ∈ ord c.io ∧ p.2 ∈ ord c.io) ∧
    (List.range n).foldlM (Tx.unrollStep c (ord c.io) stateIO pfx) ({}, (ord c.io).map (fun x => (x, []))) = .ok s := by
  unfold Tx.unroll at h
  split at h
  · cases h
  · split at h
    · cases h
    · rename_i hn
      split at h
      · cases h
      · simp only [] at h
        split at h
        · cases h
        · rename_i hs
          refine ⟨by omega, ?_, h⟩
          intro p hp
          simp only [List.any_eq_true, not_exists, not_and, Bool.or_eq_true, Bool.not_eq_true',
            ← Bool.not_eq_true, List.contains_iff_mem] at hs
          have := hs p hp
          constructor
          · exact Classical.byContradiction (fun hh => this (Or.inl hh))
          · exact Classical.byContradiction (fun hh => this (Or.inr hh))

theorem inputs_nodup {c : Circuit} (h : c.nodeNames.Nodup) : c.inputs.Nodup := by
  unfold inputs filterType
  exact List.Nodup.sublist (List.Sublist.map _ List.filter_sublist) h

theorem outputs_nodup {c : Circuit} (h : c.nodeNames.Nodup) : c.outputs.Nodup := by
  unfold outputs
  exact List.Nodup.sublist (List.Sublist.map _ List.filter_sublist) h

theorem io_nodup {c : Circuit} (h : c.nodeNames.Nodup) : c.io.Nodup := by
  unfold io union
  rw [List.nodup_append]
  refine ⟨inputs_nodup h, List.Nodup.sublist List.filter_sublist (outputs_nodup h), ?_⟩
  intro x hx y hy e
  subst e
  rw [List.mem_filter] at hy
  have := hy.2
  rw [List.contains_iff_mem.2 hx] at this
  cases this

/-- the static context of a successful call -/
theorem ctx_of {c : Circuit} {stateIO : List (Name × Name)} {ord : Ord} (hord : OrdOK ord) (hc : WF c)
    (hvals : ∀ p ∈ stateIO, p.2 ∈ c.inputs) (hkeys : ∀ p ∈ stateIO, p.1 ∈ ord c.io)
    (hnd : (stateIO.map (·.2)).Nodup) : Ctx c stateIO (ord c.io) where
  wf := hc
  ioNodup := (hord c.io).nodup_iff.2 (io_nodup hc.nodup)
  ioIn := fun x hx => (hord c.io).mem_iff.2 (mem_union.2 (Or.inl hx))
  valsIn := hvals
  keysIO := hkeys
  valsNodup := hnd

end Unroll
end CG
