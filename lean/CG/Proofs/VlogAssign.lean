/- C02 helper: one continuous assignment (`doAssign`) keeps the fold invariant: the assigned net carries the value of
   its right-hand side in every consistent valuation, whether the freshly built gate is renamed onto the net
   (merging with a forward-declared buffer) or the net becomes a buffer of an existing one. -/
import CG.Proofs.VlogEvalThm
import CG.Proofs.VlogRel
namespace CG
namespace VT
open Verilog Circuit Ternary

variable {D : Name → Prop} {ins : List Name}

/-- the net is not driven yet: absent or a plain buffer, and without fan-in -/
def Und (c : Circuit) (l : Name) : Prop := (c.has l = true → c.attr? l = some bufAttr) ∧ ∀ e ∈ c.edges, e.2 ≠ l

theorem Und.ext {c c' : Circuit} {l : Name} (h : Und c l) (he : Ext c c') (hl : ¬ IsSyn l) : Und c' l := by
  constructor
  · intro hh
    cases hc : c.has l with
    | true => rw [he.attr l hc]; exact h.1 hc
    | false =>
      rcases he.newNode l hc hh with h1 | h1
      · exact absurd h1 hl
      · exact h1
  · intro e he' hel
    rcases he.edgesNew e he' with h1 | ⟨h1, _⟩
    · exact h.2 e h1 hel
    · rw [hel] at h1; exact hl h1

theorem Und.fanin_nil {c : Circuit} {l : Name} (h : Und c l) : c.fanin l = [] := fanin_nil_of h.2

/-- consistent valuations pull back along a renaming `f` that is the identity on every fan-in: each typed node of
    `c` is either an undriven buffer or has a counterpart in `c'` of the same type and the same fan-in -/
theorem consistent_pull {c c' : Circuit} (hc : WF c) (hc' : c'.edges.Nodup) (f : Name → Name) (v : Val)
    (h : ∀ p ∈ c.nodes, ∀ t, p.2.ty = some t →
      (t = "buf" ∧ c.fanin p.1 = []) ∨
      ((∃ a', c'.attr? (f p.1) = some a' ∧ a'.ty = some t) ∧ (∀ u, (u, f p.1) ∈ c'.edges ↔ (u, p.1) ∈ c.edges) ∧
        ∀ u ∈ c.fanin p.1, f u = u))
    (hv : Consistent c' v) : Consistent c (fun x => v (f x)) := by
  intro p hp t ht b hb
  rcases h p hp t ht with ⟨rfl, h0⟩ | ⟨⟨a', ha', hta'⟩, hed, hid⟩
  · rw [h0] at hb
    simp [gateFn] at hb
  · have hmap : (c.fanin p.1).map (fun x => v (f x)) = (c.fanin p.1).map v := by
      apply List.map_congr_left
      intro u hu
      rw [hid u hu]
    rw [hmap] at hb
    exact val_of hv hc' ha' hta' (c.fanin p.1) (fanin_nodup hc.edgesNodup p.1)
      (fun u => (hed u).trans mem_fanin.symm) hb

/-- the invariant of the fold over the assignments -/
structure FI (D : Name → Prop) (ins : List Name) (todo done : List (Name × Expr)) (st : TState) : Prop where
  si : SI D ins st.c
  ge : ∀ g ∈ st.gateExprs, IsSyn g
  und : ∀ a ∈ todo, Und st.c a.1
  sem : ∀ v, Consistent st.c v → ∀ a ∈ done, v a.1 = denote v a.2
  hasDone : ∀ a ∈ done, st.c.has a.1 = true

theorem tie_test {l : Name} (h : l ≠ "tie_0" ∧ l ≠ "tie_1" ∧ l ≠ "tie_x") :
    (l == "tie_0" || l == "tie_1" || l == "tie_x") = false := by
  simp [h.1, h.2.1, h.2.2]

theorem has_iff_attr {c : Circuit} {x : Name} : c.has x = true ↔ ∃ a, c.attr? x = some a := by
  rw [has_eq_isSome, Option.isSome_iff_exists]

/-! ### the net becomes a buffer of an existing net -/

theorem assign_buf (hD : DeclOK D ins) {s1 : TState} {l m : Name} (hSI : SI D ins s1.c) (hl : D l) (hlins : l ∉ ins)
    (hund : Und s1.c l) (hm : Usable D s1.c m) :
    ∃ c', addNode s1 l "buf" [m] false = .ok ({ s1 with c := c' }, l) ∧ SI D ins c' ∧
      (∀ x, s1.c.has x = true → c'.has x = true) ∧ c'.has l = true ∧
      (∀ l', l' ≠ l → Und s1.c l' → Und c' l') ∧
      (∀ v, Consistent c' v → Consistent s1.c v ∧ v l = v m) := by
  have hmx : m ≠ "tie_x" := by
    rcases hm with ⟨_, h⟩ | h
    · exact h
    · exact (hD.notTie m h).2.2
  obtain ⟨c', hadd, s⟩ := add_ok' s1.c
    { n := l, ty := "buf", fanin := [m], uid := false, addConnected := true, allowRedef := true } l
    rfl (fun _ => rfl) (hD.nameOK l hl) (show "buf" ∈ okTypes by decide)
    (fun _ => ⟨by simp, fun _ e he => hund.2 e he⟩)
    (by
      intro h
      have h' : "buf" = "0" ∨ "buf" = "1" ∨ "buf" = "input" := h
      exact absurd h' (by decide))
    rfl
    (by
      intro u hu
      rw [List.mem_singleton] at hu; subst hu
      rcases hm with ⟨h, _⟩ | h
      · exact Or.inl h
      · exact Or.inr ⟨rfl, hD.nameOK u h⟩)
    (by
      intro u hu _ hh
      rw [List.mem_singleton] at hu; subst hu
      obtain ⟨a, ha⟩ := Limit.attr_of_has hh
      obtain ⟨_, ty', h1, h2⟩ := hSI.typed u a ha hmx
      exact ⟨ty', by rw [ty_of_attr ha]; exact h1, h2⟩)
  have hedge : ∀ e, e ∈ c'.edges ↔ (e ∈ s1.c.edges ∨ (e.1 = m ∧ e.2 = l)) := by
    intro e; rw [s.edges]; simp
  have hhas : ∀ x, c'.has x = true ↔ (s1.c.has x = true ∨ x = l ∨ x = m) := by
    intro x; rw [s.has]; simp
  have hself : c'.attr? l = some bufAttr := s.attr_self
  have hmono : ∀ x, s1.c.has x = true → c'.has x = true := fun x h => (hhas x).mpr (Or.inl h)
  have hhasl : c'.has l = true := (hhas l).mpr (Or.inr (Or.inl rfl))
  -- attributes of every node of c'
  have hattr : ∀ x, c'.has x = true → x ≠ l → (s1.c.has x = true ∧ c'.attr? x = s1.c.attr? x) ∨
      (s1.c.has x = false ∧ x = m ∧ c'.attr? x = some bufAttr) := by
    intro x hx hxl
    cases hcx : s1.c.has x with
    | true => exact Or.inl ⟨rfl, s.attr_old x hxl hcx⟩
    | false =>
      right
      refine ⟨rfl, ?_, s.attr_new x hxl hcx hx⟩
      rcases (hhas x).mp hx with h | h | h
      · rw [hcx] at h; cases h
      · exact absurd h hxl
      · exact h
  have hl0 := hD.notTie l hl
  refine ⟨c', ?_, ?_, hmono, hhasl, ?_, ?_⟩
  · unfold addNode addE
    rw [hadd]
    rfl
  · constructor
    · refine ⟨s.nodupN hSI.wf.nodup, s.nodupE hSI.wf.edgesNodup, ?_⟩
      intro e he
      rcases (hedge e).mp he with h | ⟨h1, h2⟩
      · obtain ⟨g1, g2⟩ := hSI.wf.closed e h
        exact ⟨hmono _ g1, hmono _ g2⟩
      · exact ⟨(hhas _).mpr (Or.inr (Or.inr h1)), (hhas _).mpr (Or.inr (Or.inl h2))⟩
    · intro x hx
      by_cases hxl : x = l
      · rw [hxl]; exact Or.inr (Or.inr (Or.inr (Or.inl hl)))
      · rcases hattr x hx hxl with ⟨h, _⟩ | ⟨_, h, _⟩
        · exact hSI.cls x h
        · rw [h]
          rcases hm with ⟨g, _⟩ | g
          · exact hSI.cls m g
          · exact Or.inr (Or.inr (Or.inr (Or.inl g)))
    · rw [s.attr_old _ (Ne.symm hl0.1) hSI.has_tie0]; exact hSI.tie0
    · rw [s.attr_old _ (Ne.symm hl0.2.1) hSI.has_tie1]; exact hSI.tie1
    · rw [s.attr_old _ (Ne.symm hl0.2.2) hSI.has_tiex]; exact hSI.tiex
    · intro x ax hx hxx
      by_cases hxl : x = l
      · rw [hxl, hself] at hx
        injection hx with hx
        rw [← hx]
        exact ⟨rfl, "buf", rfl, by decide⟩
      · rcases hattr x (has_of_attr' hx) hxl with ⟨_, h⟩ | ⟨_, _, h⟩
        · rw [h] at hx; exact hSI.typed x ax hx hxx
        · rw [h] at hx
          injection hx with hx
          rw [← hx]
          exact ⟨rfl, "buf", rfl, by decide⟩
    · intro x
      rw [← hSI.inp x]
      by_cases hxl : x = l
      · rw [hxl, ty_of_attr hself]
        constructor
        · intro h; simp [bufAttr] at h
        · intro h; exact absurd ((hSI.inp l).mp h) hlins
      · cases hx : c'.has x with
        | false =>
          rw [ty?_none_of_not_has hx]
          cases hcx : s1.c.has x with
          | false => rw [ty?_none_of_not_has hcx]
          | true => rw [hmono x hcx] at hx; cases hx
        | true =>
          rcases hattr x hx hxl with ⟨_, h⟩ | ⟨g, _, h⟩
          · unfold Circuit.ty?; rw [h]
          · rw [ty_of_attr h, ty?_none_of_not_has g]
            simp [bufAttr]
  · intro l' hl' hu
    constructor
    · intro hh
      rcases hattr l' hh hl' with ⟨g, h⟩ | ⟨_, _, h⟩
      · rw [h]; exact hu.1 g
      · exact h
    · intro e he hel
      rcases (hedge e).mp he with h | ⟨_, h⟩
      · exact hu.2 e h hel
      · exact hl' (hel ▸ h)
  · intro v hv
    have hc'nd := s.nodupE hSI.wf.edgesNodup
    constructor
    · have := consistent_pull hSI.wf hc'nd id v ?_ hv
      · exact this
      · intro p hp t ht
        have hpa : s1.c.attr? p.1 = some p.2 := attr?_of_mem hSI.wf.nodup hp
        have hph : s1.c.has p.1 = true := has_of_attr' hpa
        by_cases hpl : p.1 = l
        · left
          have := hund.1 (hpl ▸ hph)
          rw [← hpl, hpa] at this
          injection this with this
          rw [this] at ht
          exact ⟨by simpa [bufAttr] using ht.symm, by rw [hpl]; exact hund.fanin_nil⟩
        · right
          refine ⟨⟨p.2, by simp only [id]; rw [s.attr_old p.1 hpl hph]; exact hpa, ht⟩, ?_, fun _ _ => rfl⟩
          intro u
          simp only [id]
          rw [hedge]
          constructor
          · rintro (h | ⟨_, h⟩)
            · exact h
            · exact absurd h hpl
          · exact Or.inl
    · apply Arith.buf_val hv hc'nd (attr?_mem hself) rfl
      intro u
      rw [hedge]
      constructor
      · rintro (h | ⟨h, _⟩)
        · exact absurd rfl (hund.2 _ h)
        · exact h
      · intro h; exact Or.inr ⟨h, rfl⟩

/-! ### the freshly built gate is renamed onto the net -/

theorem assign_relabel (hD : DeclOK D ins) {c : Circuit} {l m : Name} (hSI : SI D ins c) (hl : D l) (hlins : l ∉ ins)
    (hund : Und c l) (hsyn : IsSyn m) (hhas : c.has m = true) (hnoOut : ∀ e ∈ c.edges, e.1 ≠ m) :
    SI D ins (c.relabel [(m, l)]) ∧ (∀ x, x ≠ m → c.has x = true → (c.relabel [(m, l)]).has x = true) ∧
      (c.relabel [(m, l)]).has l = true ∧
      (∀ l', l' ≠ l → ¬ IsSyn l' → Und c l' → Und (c.relabel [(m, l)]) l') ∧
      (∀ v, Consistent (c.relabel [(m, l)]) v → Consistent c (fun x => v (if x = m then l else x))) := by
  rw [Arith.relabel_single hSI.wf.nodup hhas]
  have hlm : l ≠ m := fun h => hD.notSyn l hl (h ▸ hsyn)
  have hmx : m ≠ "tie_x" := fun h => tiex_not_syn (h ▸ hsyn)
  obtain ⟨a, ha⟩ := Limit.attr_of_has hhas
  obtain ⟨haout, ty, haty, htyok⟩ := hSI.typed m a ha hmx
  have hmins : m ∉ ins := fun h => hD.notSyn m (hD.insD m h) hsyn
  have htyin : ty ≠ "input" := by
    rintro rfl
    exact hmins ((hSI.inp m).mp (by rw [ty_of_attr ha]; exact haty))
  obtain ⟨hnd, hed, _, hattr, hedges⟩ := relabelOne_merge hSI.wf.nodup hSI.wf.edgesNodup ha
    (by rw [haty]; rfl) (by rw [haout]; rfl) hlm
  generalize c.relabelOne m l = c' at *
  -- edges: sources are never renamed
  have hedge : ∀ e, e ∈ c'.edges ↔ ∃ e0 ∈ c.edges, e = (e0.1, if e0.2 = m then l else e0.2) := by
    intro e
    rw [hedges]
    constructor
    · rintro ⟨e0, h0, rfl⟩; exact ⟨e0, h0, by rw [if_neg (hnoOut e0 h0)]⟩
    · rintro ⟨e0, h0, rfl⟩; exact ⟨e0, h0, by rw [if_neg (hnoOut e0 h0)]⟩
  have hhas' : ∀ x, c'.has x = true ↔ (x ≠ m ∧ (x = l ∨ c.has x = true)) := by
    intro x
    rw [has_eq_isSome, hattr, has_eq_isSome]
    by_cases h1 : x = m
    · simp [h1]
    · by_cases h2 : x = l
      · simp [h2, hlm]
      · simp [h1, h2]
  have hattr_l : c'.attr? l = some a := by rw [hattr, if_neg hlm, if_pos rfl]
  have hattr_o : ∀ x, x ≠ m → x ≠ l → c'.attr? x = c.attr? x := by
    intro x h1 h2; rw [hattr, if_neg h1, if_neg h2]
  have hl0 := hD.notTie l hl
  have ht0 : "tie_0" ≠ m := by rintro rfl; exact tie0_not_syn hsyn
  have ht1 : "tie_1" ≠ m := by rintro rfl; exact tie1_not_syn hsyn
  have htx : "tie_x" ≠ m := by rintro rfl; exact tiex_not_syn hsyn
  have hin_l : ∀ u, (u, l) ∈ c'.edges ↔ (u, m) ∈ c.edges := by
    intro u
    rw [hedge]
    constructor
    · rintro ⟨e0, h0, he⟩
      injection he with h1 h2
      by_cases hm : e0.2 = m
      · rw [h1, ← hm]; exact h0
      · rw [if_neg hm] at h2
        exact absurd h2.symm (hund.2 e0 h0)
    · intro h; exact ⟨(u, m), h, by simp⟩
  have hin_o : ∀ y, y ≠ l → y ≠ m → ∀ u, (u, y) ∈ c'.edges ↔ (u, y) ∈ c.edges := by
    intro y hy hym u
    rw [hedge]
    constructor
    · rintro ⟨e0, h0, he⟩
      injection he with h1 h2
      by_cases hm : e0.2 = m
      · rw [if_pos hm] at h2; exact absurd h2 hy
      · rw [if_neg hm] at h2
        rw [h1, h2]; exact h0
    · intro h; exact ⟨(u, y), h, by simp [hym]⟩
  refine ⟨?_, fun x hx h => (hhas' x).mpr ⟨hx, Or.inr h⟩, (hhas' l).mpr ⟨hlm, Or.inl rfl⟩, ?_, ?_⟩
  · constructor
    · refine ⟨hnd, hed, ?_⟩
      intro e he
      obtain ⟨e0, h0, rfl⟩ := (hedge e).mp he
      obtain ⟨g1, g2⟩ := hSI.wf.closed e0 h0
      refine ⟨(hhas' _).mpr ⟨hnoOut e0 h0, Or.inr g1⟩, ?_⟩
      by_cases hm : e0.2 = m
      · simp only [if_pos hm]; exact (hhas' l).mpr ⟨hlm, Or.inl rfl⟩
      · simp only [if_neg hm]; exact (hhas' _).mpr ⟨hm, Or.inr g2⟩
    · intro x hx
      rcases (hhas' x).mp hx with ⟨_, rfl | h⟩
      · exact Or.inr (Or.inr (Or.inr (Or.inl hl)))
      · exact hSI.cls x h
    · rw [hattr_o _ ht0 (Ne.symm hl0.1)]; exact hSI.tie0
    · rw [hattr_o _ ht1 (Ne.symm hl0.2.1)]; exact hSI.tie1
    · rw [hattr_o _ htx (Ne.symm hl0.2.2)]; exact hSI.tiex
    · intro x ax hx hxx
      rw [hattr] at hx
      by_cases h1 : x = m
      · rw [if_pos h1] at hx; cases hx
      · rw [if_neg h1] at hx
        by_cases h2 : x = l
        · rw [if_pos h2] at hx
          injection hx with hx
          rw [← hx]
          exact ⟨haout, ty, haty, htyok⟩
        · rw [if_neg h2] at hx
          exact hSI.typed x ax hx hxx
    · intro x
      rw [← hSI.inp x]
      by_cases h1 : x = m
      · have : c'.ty? x = none := by unfold Circuit.ty?; rw [hattr, if_pos h1]; rfl
        rw [this, h1, ty_of_attr ha, haty]
        constructor
        · intro h; cases h
        · intro h; injection h with h; exact absurd h htyin
      · by_cases h2 : x = l
        · rw [h2, ty_of_attr hattr_l, haty]
          constructor
          · intro h; injection h with h; exact absurd h htyin
          · intro h; exact absurd ((hSI.inp l).mp h) hlins
        · unfold Circuit.ty?; rw [hattr_o x h1 h2]
  · intro l' hl' hns hu
    have hl'm : l' ≠ m := fun h => hns (h ▸ hsyn)
    constructor
    · intro hh
      rw [hattr_o l' hl'm hl']
      rcases (hhas' l').mp hh with ⟨_, h | h⟩
      · exact absurd h hl'
      · exact hu.1 h
    · intro e he hel
      have := (hin_o l' hl' hl'm e.1).mp (by rw [← hel]; exact he)
      exact hu.2 _ this rfl
  · intro v hv
    apply consistent_pull hSI.wf hed (fun x => if x = m then l else x) v ?_ hv
    intro p hp t ht
    have hpa : c.attr? p.1 = some p.2 := attr?_of_mem hSI.wf.nodup hp
    have hph : c.has p.1 = true := has_of_attr' hpa
    have hfan : ∀ u ∈ c.fanin p.1, (if u = m then l else u) = u := by
      intro u hu
      rw [if_neg (hnoOut _ (mem_fanin.mp hu))]
    by_cases hpm : p.1 = m
    · right
      simp only [if_pos hpm]
      have hpa' : p.2 = a := by rw [hpm, ha] at hpa; injection hpa with h; exact h.symm
      refine ⟨⟨a, hattr_l, hpa' ▸ ht⟩, ?_, hfan⟩
      intro u; rw [hin_l, hpm]
    · simp only [if_neg hpm]
      by_cases hpl : p.1 = l
      · left
        have := hund.1 (hpl ▸ hph)
        rw [← hpl, hpa] at this
        injection this with this
        rw [this] at ht
        exact ⟨by simpa [bufAttr] using ht.symm, by rw [hpl]; exact hund.fanin_nil⟩
      · right
        exact ⟨⟨p.2, by rw [hattr_o p.1 hpm hpl]; exact hpa, ht⟩, hin_o p.1 hpl hpm, hfan⟩

end VT
end CG
