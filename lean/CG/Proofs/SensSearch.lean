/- helper lemmas for C11: the descending search of `props.sensitivity` stops at the maximum achievable count -/
import CG.Proofs.SensBits
set_option linter.unusedSimpArgs false
set_option linter.unusedVariables false
namespace CG
namespace Sens
open Arith Logic

/-- the assumptions of candidate `kk` -/
def asm (w kk : Nat) : List (Name × Bool) :=
  (intToBin kk w true).zipIdx.map (fun p => ("sen_out_" ++ toString p.2, p.1))

theorem mem_asm (w kk : Nat) (p : Name × Bool) :
    p ∈ asm w kk ↔ ∃ i : Nat, (intToBin kk w true)[i]? = some p.2 ∧ p.1 = "sen_out_" ++ toString i := by
  unfold asm
  rw [List.mem_map]
  constructor
  · rintro ⟨q, hq, rfl⟩
    exact ⟨q.2, List.mem_zipIdx_iff_getElem?.1 hq, rfl⟩
  · rintro ⟨i, hi, hp⟩
    refine ⟨(p.2, i), List.mem_zipIdx_iff_getElem?.2 hi, ?_⟩
    rw [← hp]

theorem asm_agree (w kk : Nat) (v : Val) :
    (∀ p ∈ asm w kk, v p.1 = p.2) ↔
      ∀ i, i < (intToBin kk w true).length → v ("sen_out_" ++ toString i) = (intToBin kk w true).getD i false := by
  constructor
  · intro h i hi
    have := h ("sen_out_" ++ toString i, (intToBin kk w true)[i]) ((mem_asm w kk _).2
      ⟨i, by simp [List.getElem?_eq_getElem hi], rfl⟩)
    simp only [] at this
    rw [this, List.getD_eq_getElem?_getD, List.getElem?_eq_getElem hi]
    rfl
  · intro h p hp
    obtain ⟨i, hi, hp1⟩ := (mem_asm w kk p).1 hp
    obtain ⟨hlt, he⟩ := List.getElem?_eq_some_iff.1 hi
    rw [hp1, h i hlt, List.getD_eq_getElem?_getD, hi]
    rfl

theorem asm_len_le {w kk K : Nat} (hwK : w ≤ K) (hK1 : 1 ≤ K) (hkk : kk < 2 ^ K) :
    (intToBin kk w true).length ≤ K := by
  rw [intToBin_length]
  have := length_binDigits_le kk K hkk hK1
  omega

section search
variable {sen : Circuit} {K w : Nat} {Count : Val → Nat}

/-- a model of the assumptions of candidate `kk` with count at most `kk` has count exactly `kk` -/
theorem count_eq_of_agree (hcnt : ∀ v, Consistent sen v → sumBits (fun i => v ("sen_out_" ++ toString i)) K = Count v)
    {kk : Nat} (hL : (intToBin kk w true).length ≤ K) {v : Val} (hv : Consistent sen v)
    (hag : ∀ p ∈ asm w kk, v p.1 = p.2) (hle : Count v ≤ kk) : Count v = kk := by
  obtain ⟨r, hr⟩ := sumBits_split (fun i => v ("sen_out_" ++ toString i)) _ K hL
  have h1 : sumBits (fun i => v ("sen_out_" ++ toString i)) (intToBin kk w true).length = kk := by
    rw [sumBits_congr _ ((asm_agree w kk v).1 hag)]
    exact intToBin_val kk w
  rw [hcnt v hv, h1] at hr
  cases r with
  | zero => simpa using hr
  | succ r =>
    have : 2 ^ (intToBin kk w true).length ≤ 2 ^ (intToBin kk w true).length * (r + 1) :=
      Nat.le_mul_of_pos_right _ (Nat.succ_pos r)
    have hp : 0 < 2 ^ (intToBin kk w true).length := Nat.pow_pos (by decide)
    omega

/-- a valuation with count `kk` is a model of the assumptions of candidate `kk` -/
theorem agree_of_count_eq (hcnt : ∀ v, Consistent sen v → sumBits (fun i => v ("sen_out_" ++ toString i)) K = Count v)
    {kk : Nat} (hL : (intToBin kk w true).length ≤ K) {v : Val} (hv : Consistent sen v) (he : Count v = kk) :
    ∀ p ∈ asm w kk, v p.1 = p.2 := by
  rw [asm_agree]
  let b' : Nat → Bool := fun i => if i < (intToBin kk w true).length then (intToBin kk w true).getD i false else false
  have h1 : sumBits b' K = kk := by
    obtain ⟨d, hd⟩ : ∃ d, K = (intToBin kk w true).length + d := ⟨K - (intToBin kk w true).length, by omega⟩
    rw [hd, sumBits_pad _ d (fun j h1 _ => by simp only [b']; rw [if_neg (by omega)])]
    rw [sumBits_congr (g' := fun j => (intToBin kk w true).getD j false) _
      (fun j hj => by simp only [b']; rw [if_pos hj])]
    exact intToBin_val kk w
  have h2 : sumBits (fun i => v ("sen_out_" ++ toString i)) K = sumBits b' K := by rw [hcnt v hv, he, h1]
  intro i hi
  have := sumBits_inj _ _ K h2 i (by omega)
  simp only [b'] at this
  rw [this, if_pos hi]

theorem go_spec (s : Solver) (hs : SolverSpec s) (ord : Ord) (hord : OrdOK ord) (hclean : C01.Clean sen)
    (hhas : ∀ i, i < K → sen.has ("sen_out_" ++ toString i) = true)
    (hcnt : ∀ v, Consistent sen v → sumBits (fun i => v ("sen_out_" ++ toString i)) K = Count v)
    (hwK : w ≤ K) (hK1 : 1 ≤ K) (len : Nat) (hlenK : len < 2 ^ K) :
    ∀ fuel kk, kk < fuel → kk ≤ len → (∀ v, Consistent sen v → Count v ≤ kk) →
    ∀ r, Props.sensitivityGo s sen ord w fuel kk = .ok r →
      (∃ v, Consistent sen v ∧ Count v = r) ∧ ∀ v, Consistent sen v → Count v ≤ r := by
  intro fuel
  induction fuel with
  | zero => intro kk h; omega
  | succ fuel ih =>
    intro kk hf hkl hinv r h
    have hL : (intToBin kk w true).length ≤ K := asm_len_le hwK hK1 (by omega)
    have hin : ∀ p ∈ asm w kk, sen.has p.1 = true := by
      intro p hp
      obtain ⟨i, hi, hp1⟩ := (mem_asm w kk p).1 hp
      rw [hp1]
      exact hhas i (by have := (List.getElem?_eq_some_iff.1 hi).1; omega)
    obtain ⟨S1, S2, r0, S3⟩ := C01.solve_spec s hs sen ord hord hclean (asm w kk) hin
    have hunf : Props.sensitivityGo s sen ord w (fuel + 1) kk =
        (match solve s sen ord (asm w kk) with
         | .error e => .error e
         | .ok (some _) => .ok kk
         | .ok none => if kk = 0 then .error (.other "negative") else Props.sensitivityGo s sen ord w fuel (kk - 1)) :=
      rfl
    rw [hunf, S3] at h
    cases r0 with
    | none =>
      dsimp only at h
      by_cases hk0 : kk = 0
      · rw [if_pos hk0] at h; cases h
      · rw [if_neg hk0] at h
        apply ih (kk - 1) (by omega) (by omega) ?_ r h
        intro v hv
        have h1 := hinv v hv
        have h2 : Count v ≠ kk := by
          intro he
          exact (S1.1 S3) ⟨v, hv, agree_of_count_eq hcnt hL hv he⟩
        omega
    | some v' =>
      dsimp only at h
      injection h with h
      subst h
      obtain ⟨hv', hag⟩ := S2 v' S3
      exact ⟨⟨v', hv', count_eq_of_agree hcnt hL hv' hag (hinv v' hv')⟩, hinv⟩

end search

end Sens
end CG
