/- C02 helper: the port list check at the end of `transform`. -/
import CG.Proofs.VlogMain
set_option linter.unusedSimpArgs false
namespace CG
namespace VT
open Verilog Circuit

def declIn (items : List Item) : List Name := items.flatMap (fun it => match it with | .input ns => ns | _ => [])
def declOut (items : List Item) : List Name := items.flatMap (fun it => match it with | .output ns => ns | _ => [])

theorem bind_ok_inv {α β} {x : E α} {f : α → E β} {b : β} (h : (x >>= f) = .ok b) : ∃ a, x = .ok a ∧ f a = .ok b := by
  cases x with
  | error e => cases h
  | ok a => exact ⟨a, rfl, h⟩

theorem doItem_decls (bbs : List BBox) (ord : Ord) (s s' : TState × Decls) (it : Item)
    (h : doItem bbs ord s it = .ok s') :
    s'.2.io = s.2.io ∧ s'.2.inputs = s.2.inputs ++ declIn [it] ∧ s'.2.outputs = s.2.outputs ++ declOut [it] := by
  cases it with
  | input ns =>
    simp only [doItem] at h
    obtain ⟨st, _, h2⟩ := bind_ok_inv h
    cases h2
    simp [declIn, declOut]
  | output ns =>
    simp only [doItem] at h
    cases h
    simp [declIn, declOut]
  | wire ns =>
    simp only [doItem] at h
    cases h
    simp [declIn, declOut]
  | assign l =>
    simp only [doItem] at h
    obtain ⟨st, _, h2⟩ := bind_ok_inv h
    cases h2
    simp [declIn, declOut]
  | inst mn is =>
    simp only [doItem] at h
    obtain ⟨st, _, h2⟩ := bind_ok_inv h
    cases h2
    simp [declIn, declOut]

theorem decls_fold (bbs : List BBox) (ord : Ord) : ∀ (items : List Item) (s s' : TState × Decls),
    items.foldlM (doItem bbs ord) s = .ok s' →
    s'.2.io = s.2.io ∧ s'.2.inputs = s.2.inputs ++ declIn items ∧ s'.2.outputs = s.2.outputs ++ declOut items
  | [], s, s', h => by
    cases h
    simp [declIn, declOut]
  | it :: items, s, s', h => by
    rw [List.foldlM_cons] at h
    obtain ⟨s1, h1, h2⟩ := bind_ok_inv h
    obtain ⟨a1, a2, a3⟩ := doItem_decls bbs ord s s1 it h1
    obtain ⟨b1, b2, b3⟩ := decls_fold bbs ord items s1 s' h2
    refine ⟨b1.trans a1, ?_, ?_⟩
    · rw [b2, a2]; simp [declIn]
    · rw [b3, a3]; simp [declOut]

theorem ports_checked (m : Module) (bbs : List BBox) (ord : Ord)
    (hbad : (∃ p ∈ m.ports, p ∉ declIn m.items ∧ p ∉ declOut m.items) ∨
      (∃ d ∈ declIn m.items ++ declOut m.items, d ∉ m.ports)) :
    ∀ c, transform m bbs ord ≠ .ok c := by
  intro c hc
  unfold transform at hc
  rw [init0] at hc; simp only [Arith.bind_ok] at hc
  rw [init1] at hc; simp only [Arith.bind_ok] at hc
  rw [init2] at hc; simp only [Arith.bind_ok] at hc
  obtain ⟨s, hf, hc⟩ := bind_ok_inv hc
  obtain ⟨g1, g2, g3⟩ := decls_fold bbs ord m.items _ s hf
  simp only [List.nil_append] at g1 g2 g3
  by_cases a1 : (s.2.inputs.any fun i => !s.2.io.contains i) = true
  · rw [if_pos a1] at hc; cases hc
  rw [if_neg a1] at hc
  by_cases a2 : (s.2.outputs.any fun o => !s.2.io.contains o) = true
  · rw [if_pos a2] at hc; cases hc
  rw [if_neg a2] at hc
  by_cases a3 : (s.2.io.any fun v => !s.2.inputs.contains v && !s.2.outputs.contains v) = true
  · rw [if_pos a3] at hc; cases hc
  -- all three checks passed: contradiction with `hbad`
  rw [g1, g2] at a1
  rw [g1, g3] at a2
  rw [g1, g2, g3] at a3
  simp only [List.any_eq_true, not_exists, not_and, Bool.not_eq_true', Bool.and_eq_true, Bool.not_eq_eq_eq_not,
    Bool.not_true, Bool.not_eq_true, List.contains_iff_mem] at a1 a2 a3
  rcases hbad with ⟨p, hp, h1, h2⟩ | ⟨d, hd, hdp⟩
  · have := a3 p hp
    simp [h1, h2] at this
  · rcases List.mem_append.mp hd with hd | hd
    · have := a1 d hd
      simp [hdp] at this
    · have := a2 d hd
      simp [hdp] at this

end VT
end CG
