/-
  CG.Proofs.LintLink — helper lemmas linking `LintClean` (CG/Spec.lean) with the linter model (CG/Lint.lean); import hub.
-/
import CG.Lint
import CG.Spec
import CG.Proofs.LintLinkNames
import CG.Proofs.LintLinkOps
import CG.Proofs.LintLinkLimit
import CG.Proofs.LintLinkNoDot
import CG.Proofs.LintLinkLogic
import CG.Proofs.LintLinkSame
