/- C09 (sequential_unroll, semantics): the stripped circuit — well-formedness, and every exposed pin is removable -/
import CG.Proofs.UnrollSeqSemRemove
set_option linter.unusedSimpArgs false
set_option linter.unusedVariables false
namespace CG
namespace USS
open Circuit Strip

theorem strip_wf {c cs0 : Circuit} {ig : List Name} (hc : WF c) (S : StripView c ig cs0) : WF cs0 := by
  refine ⟨S.nodup, S.edgesNodup, ?_⟩
  intro e he
  obtain ⟨a, b, hab, da, db, rfl⟩ := (S.edges e).1 he
  exact ⟨(S.has _).2 ⟨a, (hc.closed _ hab).1, da, rfl⟩, (S.has _).2 ⟨b, (hc.closed _ hab).2, db, rfl⟩⟩

/-- a node of the stripped circuit that is not a node of `c` is an exposed pin -/
theorem pin_image {c cs0 : Circuit} {ig : List Name} (S : StripView c ig cs0) {m : Name} (hm : cs0.has m = true)
    (hnot : c.has m = false) : ∃ n, kept c ig n = true ∧ m = Tx.replaceDots n := by
  obtain ⟨n, h1, h2, e⟩ := (S.has m).1 hm
  cases hk : kept c ig n with
  | true => exact ⟨n, hk, by rw [e, sname_of_kept hk]⟩
  | false =>
    rw [sname_of_not_kept hk] at e
    rw [e, h1] at hnot
    cases hnot

theorem eq_singleton_of_nodup {α : Type} {l : List α} {a : α} (hnd : l.Nodup) (ha : a ∈ l) (hall : ∀ x ∈ l, x = a) :
    l = [a] := by
  match l, hnd, ha, hall with
  | [x], _, ha, _ => simp at ha; rw [ha]
  | x :: y :: r, hnd, _, hall =>
    have h1 := hall x (by simp)
    have h2 := hall y (by simp)
    rw [List.nodup_cons] at hnd
    exact absurd (by rw [h1, h2]; simp) hnd.1

theorem eq_nil_of_forall_not_mem {α : Type} {l : List α} (h : ∀ x, x ∉ l) : l = [] := by
  cases l with
  | nil => rfl
  | cons a r => exact absurd (by simp) (h a)

/-- every exposed pin is removable: an exposed input pin has no load, an exposed output pin is a free input whose only
    load (if any) is a buffer driven by nothing else -/
theorem removable_of_kept {c cs0 : Circuit} {ig : List Name} (hc : LintClean c) (S : StripView c ig cs0) {n : Name}
    (hk : kept c ig n = true) : Removable cs0 (Tx.replaceDots n) := by
  have hpin := kept_isPin hk
  have hd := kept_not_dropped hk
  have hhas := has_of_isPin hpin
  have hsn := sname_of_kept hk
  -- the loads of the exposed node come from the loads of the pin
  have hload : ∀ y, y ∈ cs0.fanout (Tx.replaceDots n) → ∃ b, (n, b) ∈ c.edges ∧ dropped c ig b = false ∧ y = sname c ig b := by
    intro y hy
    obtain ⟨a, b, hab, da, db, e⟩ := (S.edges _).1 (mem_fanout.1 hy)
    injection e with e1 e2
    have : n = a := S.inj n a hhas (hc.closed _ hab).1 hd da (by rw [hsn, e1])
    subst this
    exact ⟨b, hab, db, e2⟩
  by_cases hne : ∃ y, y ∈ cs0.fanout (Tx.replaceDots n)
  · obtain ⟨y, hy⟩ := hne
    obtain ⟨b, hnb, db, e⟩ := hload y hy
    obtain ⟨hO, hB, hfi, hfo⟩ := load_of_pin hc hnb hpin
    have hbpin : isPin c b = false := by
      cases hp : isPin c b with
      | false => rfl
      | true =>
        rcases (isPin_iff c b).1 hp with h | h <;> rw [hB] at h <;> simp at h
    have hbk := kept_false_of_not_pin (ig := ig) hbpin
    have hsb := sname_of_not_kept hbk
    have hbhas := (hc.closed _ hnb).2
    right
    refine ⟨?_, b, ?_, ?_, ?_⟩
    · have hh : (c.attr? n).isSome = true := by rw [← has_eq_isSome]; exact hhas
      cases hca : c.attr? n with
      | none => rw [hca] at hh; cases hh
      | some a =>
        have hta : a.ty = some "bb_output" := by simpa [Circuit.ty?, hca] using hO
        have ha := S.attrOut n a hca hta hk
        simp [Circuit.ty?, ha]
    · apply eq_singleton_of_nodup (fanout_nodup S.edgesNodup _)
      · rw [← hsb, ← e]; exact hy
      · intro y' hy'
        obtain ⟨b', hnb', _, e'⟩ := hload y' hy'
        have : b' ∈ c.fanout n := mem_fanout.2 hnb'
        rw [hfo] at this
        have : b' = b := by simpa using this
        rw [e', this, hsb]
    · unfold Circuit.ty?
      rw [S.attrKeep b hbhas hbpin]
      exact hB
    · have P := fanin_perm hc.toWF S hbhas db
      rw [hsb, hfi] at P
      simp only [List.filter_cons, hd, Bool.not_false, if_true, List.filter_nil, List.map_cons, List.map_nil] at P
      rw [hsn] at P
      exact List.perm_singleton.1 P
  · left
    exact eq_nil_of_forall_not_mem (fun y hy => hne ⟨y, hy⟩)

end USS
end CG
