/- helper lemmas for C11 (total correctness of `sensitivity_transform`): the wiring loop of one inverted copy and its
   comparator succeed (stated on an abstract current circuit) -/
import CG.Proofs.SensOkC
set_option linter.unusedSimpArgs false
set_option linter.unusedVariables false
namespace CG
namespace SensOk
open Circuit Miter Sens
open Tx (addC)

section
variable {cone pcC : Circuit} {sp : List Name} {n : Name} {k : Nat}

/-! ### the wiring loop -/

/-- one step of the wiring loop of the copy `inv_<s0>`: `A1` is the circuit just after the copy was spliced in -/
theorem inv_step_ok (H : OkH cone pcC sp n k) {s0 : Name} (hs0 : s0 ∈ sp) {A1 : Circuit} (w1 : WF A1)
    (hsp : ∀ s ∈ sp, A1.has s = true ∧ A1.ty? s = some "input")
    (hcp : ∀ s ∈ sp, A1.has (pref ("inv_" ++ s0) s) = true ∧ A1.ty? (pref ("inv_" ++ s0) s) = some "buf")
    (hed : ∀ e ∈ A1.edges, ∀ s ∈ sp, e.2 ≠ pref ("inv_" ++ s0) s)
    {F1 F2 : List Name} {s1 : Name} (hF : sp = F1 ++ s1 :: F2) {C : Circuit}
    (hC : F1.foldlM (invStep s0) A1 = .ok C) : ∃ C', invStep s0 C s1 = .ok C' := by
  obtain ⟨wC, nmC, edC, tyC, _, tyC0⟩ := invFold s0 F1 A1 C hC w1
  have hs1 : s1 ∈ sp := mem_mid hF
  have hs1F : s1 ∉ F1 := not_mem_prefix H.spnd hF
  have hasC : ∀ x, A1.has x = true → C.has x = true := by
    intro x hx
    rw [has_iff_mem, nmC, ← has_iff_mem]; exact hx
  have hne : s1 ≠ pref ("inv_" ++ s0) s0 :=
    H.clInv s1 hs1 s0 hs0 s0 (mem_inputs_has (H.spin s0 hs0))
  have htyU : C.ty? s1 = some "input" := by rw [tyC s1 hne]; exact (hsp s1 hs1).2
  have hfan : C.fanin (pref ("inv_" ++ s0) s1) = [] := by
    apply fanin_nil_of_edges
    intro e he e2
    rcases (edC e).1 he with he | ⟨s', hs', rfl⟩
    · exact hed e he s1 hs1 e2
    · have : s' = s1 := pref_inj _ e2
      exact hs1F (this ▸ hs')
  unfold invStep
  by_cases hs : s0 = s1
  · subst hs
    have hb : (s0 != s0) = false := by simp
    rw [hb]
    simp only [Bool.false_eq_true, if_false]
    have hhas : C.has ("inv_" ++ s0 ++ "_" ++ s0) = true := hasC _ (hcp s0 hs0).1
    rw [setType_not_ok hhas, liftO_of, Miter.ok_bind]
    have hc := connect1_ok (A := C.setTyRaw ("inv_" ++ s0 ++ "_" ++ s0) "not") (u := s0)
      (v := "inv_" ++ s0 ++ "_" ++ s0) (t := "not") (tu := "input")
      (by rw [setTyRaw_has]; exact hasC _ (hsp s0 hs0).1) (by rw [setTyRaw_has]; exact hhas)
      (by rw [setTyRaw_ty?, if_pos ⟨rfl, hhas⟩]) (Or.inr rfl)
      (by rw [fanin_congr (setTyRaw_edges _ _ _)]; exact hfan)
      (by rw [setTyRaw_ty?, if_neg (fun h => hne h.1)]; exact htyU) (by decide) (by decide)
    rw [hc, liftO_of]
    exact ⟨_, rfl⟩
  · have hb : (s0 != s1) = true := by simpa using hs
    rw [hb]
    simp only [if_true]
    have hne2 : pref ("inv_" ++ s0) s1 ≠ pref ("inv_" ++ s0) s0 := fun e => hs (pref_inj _ e).symm
    have hc := connect1_ok (A := C) (u := s1) (v := "inv_" ++ s0 ++ "_" ++ s1) (t := "buf") (tu := "input")
      (hasC _ (hsp s1 hs1).1) (hasC _ (hcp s1 hs1).1)
      (by
        have := tyC _ hne2
        rw [(hcp s1 hs1).2] at this
        exact this) (Or.inl rfl) hfan htyU (by decide) (by decide)
    rw [hc, liftO_of]
    exact ⟨_, rfl⟩

theorem inv_loop_ok (H : OkH cone pcC sp n k) {s0 : Name} (hs0 : s0 ∈ sp) {A1 : Circuit} (w1 : WF A1)
    (hsp : ∀ s ∈ sp, A1.has s = true ∧ A1.ty? s = some "input")
    (hcp : ∀ s ∈ sp, A1.has (pref ("inv_" ++ s0) s) = true ∧ A1.ty? (pref ("inv_" ++ s0) s) = some "buf")
    (hed : ∀ e ∈ A1.edges, ∀ s ∈ sp, e.2 ≠ pref ("inv_" ++ s0) s) :
    ∃ A2, sp.foldlM (invStep s0) A1 = .ok A2 :=
  foldlM_ok_prefix _ sp A1 (fun F1 s1 F2 C hF hC => inv_step_ok H hs0 w1 hsp hcp hed hF hC)

/-! ### the comparator -/

theorem dif_ok {A2 : Circuit} {s0 : Name} {i : Nat} (hfresh : A2.has ("dif_out_" ++ s0) = false)
    (hp1 : A2.has (pref "pc" ("in_" ++ toString i)) = true)
    (hp2 : A2.ty? (pref "pc" ("in_" ++ toString i)) = some "buf")
    (hp3 : A2.fanin (pref "pc" ("in_" ++ toString i)) = [])
    (ho1 : A2.has (pref "orig" n) = true)
    (ho2 : ∃ t, A2.ty? (pref "orig" n) = some t ∧ t ≠ "bb_input" ∧ t ≠ "bb_output")
    (hi1 : A2.has (pref ("inv_" ++ s0) n) = true)
    (hi2 : ∃ t, A2.ty? (pref ("inv_" ++ s0) n) = some t ∧ t ≠ "bb_input" ∧ t ≠ "bb_output") :
    ∃ B, addC A2 (difA n s0 i) = .ok B := by
  have hn : (A2.addNodeAttr ("dif_out_" ++ s0) (newAttr (difA n s0 i))).nodes =
      A2.nodes ++ [("dif_out_" ++ s0, newAttr (difA n s0 i))] := by
    rw [Limit.addNodeAttr_fresh A2 _ _ hfresh]
  have hed : (A2.addNodeAttr ("dif_out_" ++ s0) (newAttr (difA n s0 i))).edges = A2.edges := addNodeAttr_edges _ _ _
  have hfo : (difA n s0 i).fanout = [pref "pc" ("in_" ++ toString i)] := by rw [← pc_in]; rfl
  have hfi : (difA n s0 i).fanin = [pref "orig" n, pref ("inv_" ++ s0) n] := by rw [pref_orig]; rfl
  have hk1 : (difA n s0 i).fanout ≠ [] →
      (A2.addNodeAttr (difA n s0 i).n (newAttr (difA n s0 i))).connectCheck [(difA n s0 i).n] (difA n s0 i).fanout
        = none := by
    intro _
    rw [hfo]
    exact check1_none (A := A2.addNodeAttr ("dif_out_" ++ s0) (newAttr (difA n s0 i))) (t := "buf") (tu := "xor")
      ((Limit.ext_has hn _).2 (Or.inr rfl)) ((Limit.ext_has hn _).2 (Or.inl hp1))
      (by rw [Limit.ext_ty_old hn hp1, hp2]) (Or.inl rfl) (by rw [fanin_congr hed, hp3])
      (Limit.ext_ty_new hn hfresh) (by decide) (by decide)
  have hn2 : ((A2.addNodeAttr (difA n s0 i).n (newAttr (difA n s0 i))).addEdges [(difA n s0 i).n]
      (difA n s0 i).fanout).nodes = A2.nodes ++ [("dif_out_" ++ s0, newAttr (difA n s0 i))] := by
    rw [addEdges_nodes]; exact hn
  have hk2 : (difA n s0 i).fanin ≠ [] →
      ((A2.addNodeAttr (difA n s0 i).n (newAttr (difA n s0 i))).addEdges [(difA n s0 i).n]
        (difA n s0 i).fanout).connectCheck (difA n s0 i).fanin [(difA n s0 i).n] = none := by
    intro _
    rw [hfi]
    show Circuit.connectCheck _ [pref "orig" n, pref ("inv_" ++ s0) n] ["dif_out_" ++ s0] = none
    apply Limit.connectCheck_none
    · intro u hu
      simp only [List.mem_cons, List.not_mem_nil, or_false] at hu
      rcases hu with rfl | rfl
      · exact (Limit.ext_has hn2 _).2 (Or.inl ho1)
      · exact (Limit.ext_has hn2 _).2 (Or.inl hi1)
    · intro v hv
      simp only [List.mem_singleton] at hv
      subst hv
      exact (Limit.ext_has hn2 _).2 (Or.inr rfl)
    · intro v hv
      simp only [List.mem_singleton] at hv
      subst hv
      refine ⟨"xor", Limit.ext_ty_new hn2 hfresh, ?_, ?_⟩
      · rw [Limit.T_connectL0]; decide
      · rw [Limit.T_connectL1]; intro hc; exact absurd hc (by decide)
    · intro u hu
      simp only [List.mem_cons, List.not_mem_nil, or_false] at hu
      rcases hu with rfl | rfl
      · obtain ⟨t, k1, k2, k3⟩ := ho2
        refine ⟨t, by rw [Limit.ext_ty_old hn2 ho1, k1], ?_, ?_⟩
        · rw [Limit.T_connectL2]; simp [k2]
        · rw [Limit.T_connectL3]; simp [k3]
      · obtain ⟨t, k1, k2, k3⟩ := hi2
        refine ⟨t, by rw [Limit.ext_ty_old hn2 hi1, k1], ?_, ?_⟩
        · rw [Limit.T_connectL2]; simp [k2]
        · rw [Limit.T_connectL3]; simp [k3]
  exact addC_ok_of A2 (difA n s0 i) (plain_difA n s0 i) hfresh
    (show T.supported.contains "xor" = true by rw [Limit.T_supported]; decide)
    (fun h => absurd h.2 (show "xor" ∉ T.addL 0 by rw [Limit.T_addL0]; decide))
    (fun h => absurd h.2 (show "xor" ∉ T.addL 1 by rw [Limit.T_addL1]; decide))
    (nameOK_dif_out s0) hk1 hk2

/-! ### the output buffers -/

theorem out_ok {A : Circuit} (wA : WF A) {o : Nat} (hfresh : A.has ("sen_out_" ++ toString o) = false)
    (hp1 : A.has (pref "pc" ("out_" ++ toString o)) = true)
    (hp2 : ∃ t, A.ty? (pref "pc" ("out_" ++ toString o)) = some t ∧ t ≠ "bb_input" ∧ t ≠ "bb_output") :
    ∃ B, addC A (outA o) = .ok B := by
  have hn : (A.addNodeAttr ("sen_out_" ++ toString o) (newAttr (outA o))).nodes =
      A.nodes ++ [("sen_out_" ++ toString o, newAttr (outA o))] := by
    rw [Limit.addNodeAttr_fresh A _ _ hfresh]
  have hed : (A.addNodeAttr ("sen_out_" ++ toString o) (newAttr (outA o))).edges = A.edges := addNodeAttr_edges _ _ _
  have hfi : (outA o).fanin = [pref "pc" ("out_" ++ toString o)] := by rw [← pc_out]; rfl
  have hk2 : (outA o).fanin ≠ [] →
      ((A.addNodeAttr (outA o).n (newAttr (outA o))).addEdges [(outA o).n] (outA o).fanout).connectCheck
        (outA o).fanin [(outA o).n] = none := by
    intro _
    rw [hfi]
    have e0 : (outA o).fanout = [] := rfl
    rw [e0, addEdges_nil_right]
    obtain ⟨t, k1, k2, k3⟩ := hp2
    exact check1_none (A := A.addNodeAttr ("sen_out_" ++ toString o) (newAttr (outA o))) (t := "buf") (tu := t)
      ((Limit.ext_has hn _).2 (Or.inl hp1)) ((Limit.ext_has hn _).2 (Or.inr rfl))
      (Limit.ext_ty_new hn hfresh) (Or.inl rfl)
      (by rw [fanin_congr hed]; exact fanin_nil_of_fresh wA hfresh)
      (by rw [Limit.ext_ty_old hn hp1, k1]) k2 k3
  exact addC_ok_of A (outA o) (plain_outA o) hfresh
    (show T.supported.contains "buf" = true by rw [Limit.T_supported]; decide)
    (fun h => absurd h.1 (by simp [outA])) (fun h => absurd h.2 (show "buf" ∉ T.addL 1 by rw [Limit.T_addL1]; decide))
    (nameOK_sen_out o) (fun h => absurd rfl h) hk2

end

end SensOk
end CG
