/- C20 (second half, bench reader): the blackbox registry of the built circuit -/
import CG.Proofs.LintProdF1
import CG.Proofs.LintLinkNoDot
import CG.Proofs.LintLinkSame
import CG.Props.C20
set_option linter.unusedSimpArgs false
set_option linter.unusedVariables false
namespace CG
namespace LintProdF
open Circuit Ternary Bench BenchP

/-! ### every registry entry the reader makes is a `dff` -/

theorem setOutput_bbs (ns : List Name) (b : Bool) : ∀ c : Circuit, (c.setOutput ns b).1.bbs = c.bbs := by
  induction ns with
  | nil => intro c; rfl
  | cons n ns ih =>
    intro c
    rw [setOutput]
    split
    · rw [ih, setOutRaw_bbs]
    · rfl

theorem pins_bbs (inst : Name) (t : String) (ps : List Name) :
    ∀ c : Circuit, (addBlackbox.pins inst c t ps).1.bbs = c.bbs := by
  induction ps with
  | nil => intro c; rw [addBlackbox.pins]
  | cons p ps ih =>
    intro c
    rw [pins_cons]
    split
    · rw [ih, add_bbs]
    · exact add_bbs c _

theorem bbgo_bbs (bb : BBox) (inst : Name) (conns : List (Name × List Name)) :
    ∀ c : Circuit, (addBlackbox.go bb inst c conns).1.bbs = c.bbs := by
  induction conns with
  | nil => intro c; rw [addBlackbox.go]
  | cons x conns ih =>
    intro c
    obtain ⟨p, ns⟩ := x
    rw [addBlackbox.go]
    split
    · have hb := connect_bbs c ns [inst ++ "." ++ p]
      split
      · rename_i c' heq; rw [heq] at hb; rw [ih c']; exact hb
      · exact hb
    · split
      · have hb := connect_bbs c [inst ++ "." ++ p] ns
        split
        · rename_i c' heq; rw [heq] at hb; rw [ih c']; exact hb
        · exact hb
      · rfl

theorem addBlackbox_bbs_mem (c : Circuit) (bb : BBox) (inst : Name) (conns : List (Name × List Name)) (ord : Ord)
    {p : Name × BBox} (hp : p ∈ (c.addBlackbox bb inst conns ord).1.bbs) : p ∈ c.bbs ∨ p = (inst, bb) := by
  unfold addBlackbox at hp
  by_cases hl : (c.bbs.lookup inst).isSome = true
  · rw [if_pos hl] at hp
    exact Or.inl hp
  rw [if_neg hl] at hp
  have b1 := pins_bbs inst "bb_input" (ord bb.ins) c
  generalize addBlackbox.pins inst c "bb_input" (ord bb.ins) = r1 at hp b1
  obtain ⟨c1, o1⟩ := r1
  simp only [] at b1
  cases o1 <;> simp only [] at hp <;> try (rw [b1] at hp; exact Or.inl hp)
  have b2 := pins_bbs inst "bb_output" (ord bb.outs) c1
  generalize addBlackbox.pins inst c1 "bb_output" (ord bb.outs) = r2 at hp b2
  obtain ⟨c2, o2⟩ := r2
  simp only [] at b2
  cases o2 <;> simp only [] at hp <;> try (rw [b2, b1] at hp; exact Or.inl hp)
  rw [bbgo_bbs] at hp
  rcases setBB_mem c2 inst bb hp with h | h
  · rw [b2, b1] at h; exact Or.inl h
  · exact Or.inr h

/-- all registry entries are `dff`s -/
def AllDff (c : Circuit) : Prop := ∀ p ∈ c.bbs, p.2 = dffBB

theorem AllDff.step {c c' : Circuit} {s : Stmt} (h : AllDff c) (hs : build1 c s = .ok c') : AllDff c' := by
  cases s with
  | input n =>
    have := LintLink.addC_fst hs
    intro p hp; rw [this, add_bbs] at hp; exact h p hp
  | gate net ty ins =>
    have := LintLink.addC_fst hs
    intro p hp; rw [this, add_bbs] at hp; exact h p hp
  | dffNet net =>
    have := LintLink.addC_fst hs
    intro p hp; rw [this, add_bbs] at hp; exact h p hp
  | dff net d =>
    have e := LintLink.liftO_ok_inv hs
    intro p hp
    have : c' = (c.addBlackbox dffBB (net ++ "_dff")
        [("D", if d.isEmpty then [] else [d]), ("Q", if net.isEmpty then [] else [net])] id).1 := by rw [e]
    rw [this] at hp
    rcases addBlackbox_bbs_mem _ _ _ _ _ hp with h1 | h1
    · exact h p h1
    · rw [h1]
  | output n =>
    have e := LintLink.liftO_ok_inv hs
    have : c' = (c.setOutput [n] true).1 := by rw [e]
    intro p hp; rw [this, setOutput_bbs] at hp; exact h p hp

theorem build_allDff {name : String} {ss : List Stmt} {c : Circuit} (h : build name ss = .ok c) : AllDff c := by
  unfold build at h
  exact LintLink.foldlM_inv AllDff build1 (fun a b a' ha hb => ha.step hb) ss _ c (by intro p hp; cases hp) h

/-! ### the registry is consistent -/

theorem hasDot_false_of {x : Name} (h : ¬ hasDotB x) : hasDot x = false := by
  unfold hasDotB at h
  unfold hasDot
  cases hc : x.toList.contains '.' with
  | false => rfl
  | true => exact absurd hc h

theorem hasDot_inst {x : Name} (h : ¬ hasDotB x) : hasDot (x ++ "_dff") = false := by
  rw [LintLink.hasDot_append, hasDot_false_of h]
  decide

section
variable {D : List Def} {dffs : List (Name × Name)} {outs : List Name} {c : Circuit}

theorem built_registryOK (h : Built D dffs outs c) (g : DefsGood D dffs) (hb : AllDff c) : C20.RegistryOK c := by
  have pre : ∀ d ∈ dffs, dotPrefix (pinD d.1) = d.1 ++ "_dff" ∧ dotPrefix (pinQ d.1) = d.1 ++ "_dff" := by
    intro d hd
    have hi := hasDot_inst (g.nodot _ (g.dffName hd))
    constructor
    · rw [← pinD_eq]; exact LintLink.dotPrefix_pin _ "D" hi
    · rw [← pinQ_eq]; exact LintLink.dotPrefix_pin _ "Q" hi
  refine ⟨?_, ?_⟩
  · intro x hx hd
    rcases (h.has x).mp ((has_iff_mem c x).2 hx) with h1 | ⟨d, hdm, h1 | h1⟩
    · rw [hasDot_false_of (g.nodot x h1)] at hd; cases hd
    · rw [h1, (pre d hdm).1, h.bbsP d hdm]; simp
    · rw [h1, (pre d hdm).2, h.bbsP d hdm]; simp
  · intro p hp hv
    have e2 : p.2 = dffBB := hb p hp
    have hl : c.bbs.lookup p.1 ≠ none := (LintLink.lookup_ne_none_iff c.bbs p.1).mpr ⟨p, hp, rfl⟩
    have : ∃ d ∈ dffs, p.1 = d.1 ++ "_dff" := by
      apply Classical.byContradiction
      intro hn
      apply hl
      apply h.bbsN
      intro d hd e
      exact hn ⟨d, hd, e⟩
    obtain ⟨d, hd, e1⟩ := this
    have hp' := h.attrP d hd
    rcases hv with ⟨x, hx, hv⟩ | ⟨x, hx, hv⟩
    · rw [e2] at hx
      have : x = "D" := by simpa [dffBB] using hx
      rw [this, e1, pinD_eq, hp'.1] at hv
      exact hv rfl
    · rw [e2] at hx
      have : x = "Q" := by simpa [dffBB] using hx
      rw [this, e1, pinQ_eq, hp'.2] at hv
      exact hv rfl
end

end LintProdF
end CG
