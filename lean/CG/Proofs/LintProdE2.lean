/-
  CG.Proofs.LintProdE2 — C20 (second half, add_subcircuit): splicing a lint-clean child into a lint-clean parent with
  every child input connected gives a circuit that passes lint.

  The wiring discipline and the pin clause come from the C07 invariant (`addSubcircuit_spec`: `connect` refuses every
  illegal wire), "every gate is driven" from the exact structure of the result (`addSub_facts`), and the dotted names
  from the key set of the registry.
-/
import CG.Proofs.LintProdE1
set_option linter.unusedSimpArgs false
set_option linter.unusedVariables false
namespace CG
namespace LintProdE
open Circuit LintLink

/-! ### the registry of the result -/

theorem subPre_keys (P sc : Circuit) (name k : Name) :
    k ∈ keys (subPre P sc name).bbs ↔ k ∈ keys P.bbs ∨ ∃ p ∈ sc.bbs, pref name p.1 = k := by
  unfold subPre
  rw [foldl_setBB_keys (pref name)]
  have e1 : ∀ (L : List Name) (c0 : Circuit), L.foldl (fun acc n => acc.setTyRaw (pref name n) "buf") c0 =
      (L.map (pref name)).foldl (fun acc n => acc.setTyRaw n "buf") c0 := fun L c0 => by rw [List.foldl_map]
  have e2 : ∀ (L : List Name) (c0 : Circuit), L.foldl (fun acc n => acc.setOutRaw (pref name n) false) c0 =
      (L.map (pref name)).foldl (fun acc n => acc.setOutRaw n false) c0 := fun L c0 => by rw [List.foldl_map]
  rw [e1, e2, (foldl_setOutRaw_frame false _ _).2.1, (foldl_setTyRaw_frame "buf" _ _).2.1, graphUpdate_bbs]

theorem addSub_keys {P sc P' : Circuit} {name : Name} {conns : List (Name × List Name)}
    (h : P.addSubcircuit sc name conns true = (P', .ok)) (k : Name) :
    k ∈ keys P'.bbs ↔ k ∈ keys P.bbs ∨ ∃ p ∈ sc.bbs, pref name p.1 = k := by
  obtain ⟨_, _, _, _, hca⟩ := addSub_unfold h
  rw [(connectAll_ok _ _ _ hca).2.1, subPre_keys]

/-! ### dotted names -/

theorem addSub_dots {P sc P' : Circuit} {name : Name} {conns : List (Name × List Name)}
    (hP : WF P) (hsc : WF sc) (hdP : DotsRegistered P) (hdsc : DotsRegistered sc) (hname : hasDot name = false)
    (h : P.addSubcircuit sc name conns true = (P', .ok)) : DotsRegistered P' := by
  have F := addSub_facts hP hsc h
  intro g hg hd
  rw [lookup_ne_none_keys, addSub_keys h]
  unfold nodeNames at hg
  rw [F.nodes, List.map_append, List.mem_append] at hg
  rcases hg with hg | hg
  · left
    rw [← lookup_ne_none_keys]
    exact hdP g hg hd
  · right
    rw [List.map_map] at hg
    obtain ⟨p, hp, rfl⟩ := List.mem_map.1 hg
    simp only [Function.comp] at hd ⊢
    rw [hasDot_pref' name p.1 hname] at hd
    have hm : p.1 ∈ sc.nodeNames := List.mem_map.2 ⟨p, hp, rfl⟩
    have := hdsc p.1 hm hd
    rw [lookup_ne_none_iff] at this
    obtain ⟨q, hq, e⟩ := this
    exact ⟨q, hq, by rw [dotPrefix_pref name p.1 hname, e]⟩

/-! ### every gate of the result is driven -/

theorem addSub_driven {P sc P' : Circuit} {name : Name} {conns : List (Name × List Name)}
    (hP : WF P) (hsc : WF sc) (hdrP : Arith.Driven P) (hdrsc : Arith.Driven sc)
    (hin : ∀ i ∈ sc.inputs, ∃ us, (i, us) ∈ conns ∧ us ≠ [])
    (h : P.addSubcircuit sc name conns true = (P', .ok)) : Arith.Driven P' := by
  have F := addSub_facts hP hsc h
  intro n t ht hs
  obtain ⟨a', ha'⟩ := has_exists (has_of_ty? ht)
  have hta : a'.ty = some t := by rw [← ty?_of_mem F.nodup ha']; exact ht
  rw [F.nodes, List.mem_append] at ha'
  rcases ha' with ha' | ha'
  · -- a node of the parent
    have htP : P.ty? n = some t := by rw [ty?_of_mem hP.nodup ha']; exact hta
    obtain ⟨u, hu⟩ := hdrP n t htP hs
    exact ⟨u, (F.mem _).2 (Or.inl hu)⟩
  · -- a spliced node
    obtain ⟨p, hp, e⟩ := List.mem_map.1 ha'
    obtain ⟨m, a⟩ := p
    injection e with e1 e2
    simp only [] at e1 e2
    subst e1; subst e2
    by_cases hi : a.ty = some "input"
    · have hmi : m ∈ sc.inputs := (mem_inputs_of_mem hsc.nodup hp).2 hi
      obtain ⟨us, hus, hne⟩ := hin m hmi
      cases us with
      | nil => exact absurd rfl hne
      | cons u rest =>
        refine ⟨u, (F.mem _).2 (Or.inr (Or.inr ⟨(m, u :: rest), hus, Or.inl ⟨hmi, by simp, rfl⟩⟩))⟩
    · rw [stripA_ty_eq hi] at hta
      have htsc : sc.ty? m = some t := by rw [ty?_of_mem hsc.nodup hp]; exact hta
      obtain ⟨u, hu⟩ := hdrsc m t htsc hs
      exact ⟨pref name u, (F.mem _).2 (Or.inr (Or.inl (List.mem_map.2 ⟨(u, m), hu, rfl⟩)))⟩

/-! ### the theorem -/

/-- **add_subcircuit, general form.**  Only three things are needed beyond lint-clean arguments with consistent
    registries: the instance name is dot-free, every child input receives at least one driver, and the call succeeds
    (`connect` itself refuses every wire that would break a fan-in / fan-out rule). -/
theorem addSub_passes_lint (P sc P' : Circuit) (name : Name) (conns : List (Name × List Name)) (ord : Ord)
    (hord : C20.OrdOK ord) (hP : LintClean P) (hrP : C20.RegistryOK P) (hsc : LintClean sc) (hrsc : C20.RegistryOK sc)
    (hname : hasDot name = false)
    (hin : ∀ i ∈ sc.inputs, ∃ us, (i, us) ∈ conns ∧ us ≠ [])
    (h : P.addSubcircuit sc name conns true = (P', .ok)) :
    lint P' {} ord = Outcome.ok := by
  have hI : Inv' P' [] := by
    have := (addSubcircuit_spec (inv_of_clean hP hrP) (inv_of_clean hsc hrsc) name conns).1
    rw [h] at this
    exact this
  exact lint_of_parts ord hord hI
    (addSub_driven hP.toWF hsc.toWF (Arith.driven_of_lintClean hP) (Arith.driven_of_lintClean hsc) hin h)
    (addSub_dots hP.toWF hsc.toWF hrP.1 hrsc.1 hname h)

/-- the statement of `C20.add_subcircuit_passes_lint` (its hypotheses `hkeys`, `hout` and the side conditions on the
    driving nets in `hin` are not used) -/
theorem addSub_passes_lint' (P sc P' : Circuit) (name : Name) (conns : List (Name × List Name)) (ord : Ord)
    (hord : C20.OrdOK ord) (hP : LintClean P) (hrP : C20.RegistryOK P) (hsc : LintClean sc) (hrsc : C20.RegistryOK sc)
    (hname : hasDot name = false)
    (hin : ∀ i ∈ sc.inputs, ∃ u, (i, [u]) ∈ conns ∧ P.has u = true ∧ P.ty? u ≠ some "bb_input" ∧
      P.ty? u ≠ some "bb_output")
    (h : P.addSubcircuit sc name conns true = (P', .ok)) :
    lint P' {} ord = Outcome.ok :=
  addSub_passes_lint P sc P' name conns ord hord hP hrP hsc hrsc hname
    (fun i hi => by
      obtain ⟨u, hu, _⟩ := hin i hi
      exact ⟨[u], hu, by simp⟩) h

end LintProdE
end CG
