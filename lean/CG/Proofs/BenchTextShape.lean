/- C15 (character level) helper: the shape of the words matched by the two kinds of patterns -/
import CG.Proofs.BenchTextBlocks
set_option linter.unusedSimpArgs false
namespace CG
namespace BenchText
open Regex

def AllWs (w : List Char) : Prop := ∀ x ∈ w, wsS.mem x = true
def AllIdC (w : List Char) : Prop := ∀ x ∈ w, idC.mem x = true
def AllNrp (w : List Char) : Prop := ∀ x ∈ w, nrp.mem x = true

theorem den_seq (ctx : Ctx) (a b : Re) (s : List Char) (c : Caps) (s' : List Char) (c' : Caps) :
    Den ctx (.seq a b) s c s' c' ↔ ∃ s1 c1, Den ctx a s c s1 c1 ∧ Den ctx b s1 c1 s' c' := Iff.rfl
theorem den_alt (ctx : Ctx) (a b : Re) (s : List Char) (c : Caps) (s' : List Char) (c' : Caps) :
    Den ctx (.alt a b) s c s' c' ↔ (Den ctx a s c s' c' ∨ Den ctx b s c s' c') := Iff.rfl
theorem den_group (ctx : Ctx) (idx : Nat) (r : Re) (s : List Char) (c : Caps) (s' : List Char) (c' : Caps) :
    Den ctx (.group idx r) s c s' c' ↔
      ∃ c1, Den ctx r s c s' c1 ∧ c' = (idx, ctx.s.size - s.length, ctx.s.size - s'.length) :: c1 := Iff.rfl

/-- words matched by `(?:K|k)\s*\(\s*(ident)\s*\)` -/
theorem den_rxIO (ctx : Ctx) (K k s s' : List Char) (c' : Caps) :
    Den ctx (rxIO K k) s [] s' c' ↔
      ∃ kw w1 w2 x idr w3, (kw = K ∨ kw = k) ∧ AllWs w1 ∧ AllWs w2 ∧ AllWs w3 ∧ idS.mem x = true ∧ AllIdC idr ∧
        s = kw ++ (w1 ++ '(' :: (w2 ++ x :: (idr ++ (w3 ++ ')' :: s')))) ∧
        c' = [(1, ctx.s.size - (x :: (idr ++ (w3 ++ ')' :: s'))).length, ctx.s.size - (w3 ++ ')' :: s').length)] := by
  unfold rxIO
  simp only [den_seq, den_alt, den_group, den_lit, den_ws, den_ch, den_ident]
  constructor
  · rintro ⟨s1, c1, h1, s2, c2, ⟨w1, rfl, hw1, rfl⟩, s3, c3, ⟨rfl, rfl⟩, s4, c4, ⟨w2, rfl, hw2, rfl⟩, s5, c5,
      ⟨c6, ⟨x, idr, rfl, hx, hidr, rfl⟩, rfl⟩, s6, c7, ⟨w3, rfl, hw3, rfl⟩, rfl, rfl⟩
    rcases h1 with ⟨rfl, rfl⟩ | ⟨rfl, rfl⟩
    · exact ⟨K, w1, w2, x, idr, w3, Or.inl rfl, hw1, hw2, hw3, hx, hidr, rfl, rfl⟩
    · exact ⟨k, w1, w2, x, idr, w3, Or.inr rfl, hw1, hw2, hw3, hx, hidr, rfl, rfl⟩
  · rintro ⟨kw, w1, w2, x, idr, w3, hkw, hw1, hw2, hw3, hx, hidr, rfl, rfl⟩
    refine ⟨_, [], ?_, _, [], ⟨w1, rfl, hw1, rfl⟩, _, [], ⟨rfl, rfl⟩, _, [], ⟨w2, rfl, hw2, rfl⟩, _, _,
      ⟨[], ⟨x, idr, rfl, hx, hidr, rfl⟩, rfl⟩, _, _, ⟨w3, rfl, hw3, rfl⟩, rfl, rfl⟩
    rcases hkw with rfl | rfl
    · exact Or.inl ⟨rfl, rfl⟩
    · exact Or.inr ⟨rfl, rfl⟩

/-- words matched by `(ident)\s*=\s*(kw1|…)\s*\(([^\)]+)\)` -/
theorem den_rxGate (ctx : Ctx) (kws : List (List Char)) (hk : kws ≠ []) (s s' : List Char) (c' : Caps) :
    Den ctx (rxGate kws) s [] s' c' ↔
      ∃ x idr w1 w2 kw w3 y ops, kw ∈ kws ∧ AllWs w1 ∧ AllWs w2 ∧ AllWs w3 ∧ idS.mem x = true ∧ AllIdC idr ∧
        nrp.mem y = true ∧ AllNrp ops ∧
        s = x :: (idr ++ (w1 ++ '=' :: (w2 ++ (kw ++ (w3 ++ '(' :: y :: (ops ++ ')' :: s')))))) ∧
        c' = [(3, ctx.s.size - (y :: (ops ++ ')' :: s')).length, ctx.s.size - (')' :: s').length),
              (2, ctx.s.size - (kw ++ (w3 ++ '(' :: y :: (ops ++ ')' :: s'))).length,
                  ctx.s.size - (w3 ++ '(' :: y :: (ops ++ ')' :: s')).length),
              (1, ctx.s.size - s.length, ctx.s.size - (w1 ++ '=' :: (w2 ++ (kw ++ (w3 ++ '(' :: y :: (ops ++ ')' :: s'))))).length)] := by
  unfold rxGate
  simp only [den_seq, den_group, den_ws, den_ch, den_ident, den_plus_set, den_altL_lit ctx kws hk]
  constructor
  · rintro ⟨s1, c1, ⟨c0, ⟨x, idr, rfl, hx, hidr, rfl⟩, rfl⟩, s2, c2, ⟨w1, rfl, hw1, rfl⟩, s3, c3, ⟨rfl, rfl⟩, s4, c4,
      ⟨w2, rfl, hw2, rfl⟩, s5, c5, ⟨c6, ⟨kw, hkw, rfl, rfl⟩, rfl⟩, s6, c7, ⟨w3, rfl, hw3, rfl⟩, s7, c8, ⟨rfl, rfl⟩,
      s8, c9, ⟨c10, ⟨y, ops, rfl, hy, hops, rfl⟩, rfl⟩, rfl, rfl⟩
    exact ⟨x, idr, w1, w2, kw, w3, y, ops, hkw, hw1, hw2, hw3, hx, hidr, hy, hops, rfl, rfl⟩
  · rintro ⟨x, idr, w1, w2, kw, w3, y, ops, hkw, hw1, hw2, hw3, hx, hidr, hy, hops, rfl, rfl⟩
    exact ⟨_, _, ⟨[], ⟨x, idr, rfl, hx, hidr, rfl⟩, rfl⟩, _, _, ⟨w1, rfl, hw1, rfl⟩, _, _, ⟨rfl, rfl⟩, _, _,
      ⟨w2, rfl, hw2, rfl⟩, _, _, ⟨_, ⟨kw, hkw, rfl, rfl⟩, rfl⟩, _, _, ⟨w3, rfl, hw3, rfl⟩, _, _, ⟨rfl, rfl⟩,
      _, _, ⟨_, ⟨y, ops, rfl, hy, hops, rfl⟩, rfl⟩, rfl, rfl⟩

end BenchText
end CG
