/- C06, fill_blackbox: the property theorems in the mirrored vocabulary of `ComposeBase.lean` -/
import CG.Proofs.ComposeFill
set_option linter.unusedSimpArgs false
set_option linter.unusedVariables false
namespace CG
open Circuit

theorem FillFacts.subhas {P sub P' : Circuit} {inst : Name} {bb : BBox} (F : FillFacts P sub P' inst bb)
    {p : Name} (hp : p ∈ bb.outs ++ bb.ins) : sub.has p = true := by
  rcases List.mem_append.1 hp with hp | hp
  · exact mem_outputs_has ((F.outs p).2 hp)
  · exact mem_inputs_has ((F.ins p).2 hp)

theorem FillFacts.mem_edges {P sub P' : Circuit} {inst : Name} {bb : BBox} (F : FillFacts P sub P' inst bb)
    (e : Name × Name) :
    e ∈ P'.edges ↔ (∃ e0 ∈ P.edges, e = (renP inst bb e0.1, renP inst bb e0.2)) ∨
                    e ∈ sub.edges.map (fun e => (pref inst e.1, pref inst e.2)) := by
  obtain ⟨E1, n1, m1, eq⟩ := F.edges
  rw [eq, List.mem_append, List.mem_filter, m1]
  constructor
  · rintro (h | ⟨h, _⟩)
    · exact Or.inl h
    · exact Or.inr h
  · rintro (h | h)
    · exact Or.inl h
    · by_cases he : e ∈ E1
      · exact Or.inl ((m1 e).1 he)
      · exact Or.inr ⟨h, by simpa using he⟩

theorem FillFacts.has_ren {P sub P' : Circuit} {inst : Name} {bb : BBox} (F : FillFacts P sub P' inst bb)
    {x : Name} (hx : P.has x = true) : P'.has (renP inst bb x) = true := by
  by_cases hpin : ∃ p ∈ bb.outs ++ bb.ins, x = inst ++ "." ++ p
  · obtain ⟨p, hp, rfl⟩ := hpin
    rw [renP_pin inst bb hp]
    exact (F.has _).2 (Or.inr ⟨p, F.subhas hp, rfl⟩)
  · have hnp : ∀ p ∈ bb.outs ++ bb.ins, x ≠ inst ++ "." ++ p := fun p hp e => hpin ⟨p, hp, e⟩
    rw [renP_other inst bb hnp]
    exact (F.has _).2 (Or.inl ⟨hx, hnp⟩)

theorem FillFacts.ren_eq_pref {P sub P' : Circuit} {inst : Name} {bb : BBox} (F : FillFacts P sub P' inst bb)
    {x m : Name} (hx : P.has x = true) (hm : sub.has m = true) (e : renP inst bb x = pref inst m) :
    x = inst ++ "." ++ m ∧ m ∈ bb.outs ++ bb.ins := by
  by_cases hpin : ∃ p ∈ bb.outs ++ bb.ins, x = inst ++ "." ++ p
  · obtain ⟨p, hp, rfl⟩ := hpin
    rw [renP_pin inst bb hp] at e
    have := pref_inj inst e
    subst this
    exact ⟨rfl, hp⟩
  · have hnp : ∀ p ∈ bb.outs ++ bb.ins, x ≠ inst ++ "." ++ p := fun p hp e => hpin ⟨p, hp, e⟩
    rw [renP_other inst bb hnp] at e
    have := F.clash m hm
    rw [← e, hx] at this
    cases this

theorem FillFacts.wf {P sub P' : Circuit} {inst : Name} {bb : BBox}
    (hP : WF P) (hsub : WF sub) (F : FillFacts P sub P' inst bb) : WF P' := by
  refine ⟨F.nodup, F.edgesNodup, ?_⟩
  intro e he
  rcases (F.mem_edges e).1 he with ⟨e0, he0, rfl⟩ | h
  · exact ⟨F.has_ren (hP.closed e0 he0).1, F.has_ren (hP.closed e0 he0).2⟩
  · obtain ⟨e0, he0, rfl⟩ := List.mem_map.1 h
    exact ⟨(F.has _).2 (Or.inr ⟨e0.1, (hsub.closed e0 he0).1, rfl⟩),
           (F.has _).2 (Or.inr ⟨e0.2, (hsub.closed e0 he0).2, rfl⟩)⟩

/-! ### semantics -/

theorem FillFacts.fanin_child {P sub P' : Circuit} {inst : Name} {bb : BBox}
    (hP : WF P) (F : FillFacts P sub P' inst bb) {m : Name} (hm : sub.has m = true)
    (hni : m ∉ sub.inputs) (hout : ∀ q ∈ bb.outs, m ≠ q ∨ P.fanin (inst ++ "." ++ q) = []) :
    P'.fanin (pref inst m) = (sub.fanin m).map (pref inst) := by
  obtain ⟨E1, n1, m1, eq⟩ := F.edges
  have hno : ∀ e ∈ E1, e.2 ≠ pref inst m := by
    intro e he e2
    obtain ⟨e0, he0, rfl⟩ := (m1 e).1 he
    simp only [] at e2
    obtain ⟨k1, k2⟩ := F.ren_eq_pref (hP.closed e0 he0).2 hm e2
    rcases List.mem_append.1 k2 with k2 | k2
    · rcases hout m k2 with h | h
      · exact h rfl
      · have : e0.1 ∈ P.fanin (inst ++ "." ++ m) := mem_fanin.2 (by rw [← k1]; exact he0)
        rw [h] at this; cases this
    · exact hni ((F.ins m).2 k2)
  rw [fanin_eq_faninL, eq, faninL_append, faninL_nil_of hno, List.nil_append, faninL_filter,
    faninL_map_inj (pref inst) (fun a b e => pref_inj inst e)]
  · rfl
  · intro e _ e2
    have : e ∉ E1 := fun he => hno e he e2
    simpa using this

theorem FillFacts.fanin_input {P sub P' : Circuit} {inst : Name} {bb : BBox}
    (hP : WF P) (F : FillFacts P sub P' inst bb) (hin : ∀ p ∈ sub.inputs, sub.fanin p = [])
    {p u : Name} (hp : p ∈ bb.ins) (hu : P.fanin (inst ++ "." ++ p) = [u])
    (hun : ∀ q ∈ bb.outs ++ bb.ins, u ≠ inst ++ "." ++ q) :
    P'.fanin (pref inst p) = [u] := by
  obtain ⟨E1, n1, m1, eq⟩ := F.edges
  have hpL : p ∈ bb.outs ++ bb.ins := List.mem_append.2 (Or.inr hp)
  have hps : sub.has p = true := F.subhas hpL
  have hedge : (u, inst ++ "." ++ p) ∈ P.edges := mem_fanin.1 (by rw [hu]; simp)
  have h1 : faninL E1 (pref inst p) = [u] := by
    apply faninL_singleton n1
    intro x
    rw [m1]
    constructor
    · rintro ⟨e0, he0, e⟩
      injection e with ea eb
      obtain ⟨k1, _⟩ := F.ren_eq_pref (hP.closed e0 he0).2 hps eb.symm
      have : e0.1 ∈ P.fanin (inst ++ "." ++ p) := mem_fanin.2 (by rw [← k1]; exact he0)
      rw [hu] at this
      simp only [List.mem_singleton] at this
      rw [ea, this, renP_other inst bb hun]
    · rintro rfl
      exact ⟨(x, inst ++ "." ++ p), hedge, by simp only [renP_other inst bb hun, renP_pin inst bb hpL]⟩
  have h2 : faninL ((sub.edges.map (fun e => (pref inst e.1, pref inst e.2))).filter (fun e => !E1.contains e))
      (pref inst p) = [] := by
    apply faninL_nil_of
    intro e he e2
    obtain ⟨e0, he0, rfl⟩ := List.mem_map.1 (List.mem_filter.1 he).1
    simp only [] at e2
    have := pref_inj inst e2
    have hm : e0.1 ∈ sub.fanin p := mem_fanin.2 (by rw [← this]; exact he0)
    rw [hin p ((F.ins p).2 hp)] at hm
    cases hm
  rw [fanin_eq_faninL, eq, faninL_append, h1, h2]
  rfl

theorem FillFacts.sem {P sub P' : Circuit} {inst : Name} {bb : BBox}
    (hP : WF P) (hsub : WF sub) (F : FillFacts P sub P' inst bb) (hin : ∀ p ∈ sub.inputs, sub.fanin p = [])
    (v : Val) (hv : Consistent P' v) :
    (∀ p ∈ sub.nodes, ∀ t, p.2.ty = some t → t ≠ "input" →
        (∀ q ∈ bb.outs, p.1 ≠ q ∨ P.fanin (inst ++ "." ++ q) = []) →
        NodeOK sub (fun n => v (pref inst n)) p.1 t) ∧
    (∀ p ∈ bb.ins, ∀ u, P.fanin (inst ++ "." ++ p) = [u] → (∀ q ∈ bb.outs ++ bb.ins, u ≠ inst ++ "." ++ q) →
        v (pref inst p) = v u) := by
  constructor
  · intro p hp t ht hne hout
    have hmem : (pref inst p.1, stripA p.2) ∈ P'.nodes := attr?_mem (F.attrChild p.1 p.2 hp)
    have hok := hv _ hmem t (stripA_ty_of_ne ht hne)
    have hhas : sub.has p.1 = true := (has_iff_mem sub p.1).2 (List.mem_map.2 ⟨p, hp, rfl⟩)
    have hni : p.1 ∉ sub.inputs := by
      intro hi
      have := (mem_inputs_of_mem hsub.nodup (a := p.2) hp).1 hi
      rw [ht] at this; injection this with this; exact hne this
    intro b hb
    apply hok b
    simp only []
    rw [F.fanin_child hP hhas hni hout, gate_map_pref]
    exact hb
  · intro p hp u hu hun
    have hi : p ∈ sub.inputs := (F.ins p).2 hp
    obtain ⟨a, ha⟩ := has_exists (mem_inputs_has hi)
    have hty : a.ty = some "input" := (mem_inputs_of_mem hsub.nodup ha).1 hi
    have hmem : (pref inst p, stripA a) ∈ P'.nodes := attr?_mem (F.attrChild p a ha)
    have hty' : (stripA a).ty = some "buf" := by simp [stripA, hty]
    apply hv _ hmem "buf" hty'
    simp only []
    rw [F.fanin_input hP hin hp hu hun]
    rfl

end CG
