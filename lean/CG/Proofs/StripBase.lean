/- helper lemmas for C06 (strip_blackboxes): loop-free form of the model, the two pin folds, `dedup` facts -/
import CG.Proofs.ComposeRel
set_option linter.unusedSimpArgs false
set_option linter.unusedVariables false
namespace CG.Strip
open CG Circuit

/-! ### mirrored vocabulary of `CG/Props/C06.lean` -/

def isPin (c : Circuit) (n : Name) : Bool := c.ty? n == some "bb_input" || c.ty? n == some "bb_output"
def dropped (c : Circuit) (ignore : List Name) (n : Name) : Bool := isPin c n && ignore.contains (Tx.lastDot n)
def kept (c : Circuit) (ignore : List Name) (n : Name) : Bool := isPin c n && !ignore.contains (Tx.lastDot n)
def sname (c : Circuit) (ignore : List Name) (n : Name) : Name :=
  if kept c ignore n then Tx.replaceDots n else n

/-! ### the model without `do` -/

def stepF (ignore : List Name) (want : String) (acc : Circuit × List Name) (n : Name) : Circuit × List Name :=
  if ignore.contains (Tx.lastDot n) then (acc.1.removeNode n, acc.2)
  else if want == "bb_input" then ((acc.1.setTyRaw n "buf").setOutRaw n true, acc.2 ++ [n])
  else (acc.1.setTyRaw n "input", acc.2 ++ [n])

def phase (c : Circuit) (ignore : List Name) (ord : Ord) : Circuit × List Name :=
  (ord (c.filterType ["bb_output"])).foldl (stepF ignore "bb_output")
    ((ord (c.filterType ["bb_input"])).foldl (stepF ignore "bb_input") (c, []))

def pmap (pins : List Name) : List (Name × Name) := pins.map (fun n => (n, Tx.replaceDots n))

theorem strip_eq (c : Circuit) (ignore : List Name) (ord : Ord) :
    Tx.stripBlackboxes c ignore ord =
      if c.nodes.any (fun p => p.2.ty.isNone) then .error .keyError else
      if (pmap (phase c ignore ord).2).any (fun p => (phase c ignore ord).1.has p.2) ||
          (dedup ((pmap (phase c ignore ord).2).map (·.2))).length < (pmap (phase c ignore ord).2).length
        then .error .valueError
      else .ok { ((phase c ignore ord).1.relabel (pmap (phase c ignore ord).2)) with bbs := [] } := by
  unfold Tx.stripBlackboxes
  rfl

/-! ### `dedup` -/

theorem mem_dedup {α : Type} [BEq α] [LawfulBEq α] (x : α) : ∀ l : List α, x ∈ dedup l ↔ x ∈ l
  | [] => by simp [dedup]
  | y :: l => by
    have ih := mem_dedup x l
    simp only [dedup, List.mem_cons, List.mem_filter, ih]
    constructor
    · rintro (h | ⟨h, _⟩)
      · exact Or.inl h
      · exact Or.inr h
    · intro h
      by_cases e : x = y
      · exact Or.inl e
      · rcases h with h | h
        · exact Or.inl h
        · exact Or.inr ⟨h, by simpa using e⟩

theorem dedup_length_le {α : Type} [BEq α] : ∀ l : List α, (dedup l).length ≤ l.length
  | [] => by simp [dedup]
  | y :: l => by
    have ih := dedup_length_le l
    have := List.length_filter_le (fun z => !(z == y)) (dedup l)
    simp only [dedup, List.length_cons]
    omega

/-- the pairwise-distinctness test of the model is exact -/
theorem nodup_of_dedup_length {α : Type} [BEq α] [LawfulBEq α] :
    ∀ l : List α, ¬ (dedup l).length < l.length → l.Nodup
  | [], _ => List.nodup_nil
  | y :: l, h => by
    have h1 := dedup_length_le l
    have h2 := List.length_filter_le (fun z => !(z == y)) (dedup l)
    simp only [dedup, List.length_cons] at h
    have h3 : ((dedup l).filter (fun z => !(z == y))).length = (dedup l).length := by omega
    have h4 : (dedup l).length = l.length := by omega
    have ih := nodup_of_dedup_length l (by omega)
    refine List.nodup_cons.2 ⟨?_, ih⟩
    intro hy
    have hy' : y ∈ dedup l := (mem_dedup y l).2 hy
    have := (List.length_filter_eq_length_iff.1 h3) y hy'
    simp at this

theorem dedup_length_lt_of_not_nodup {α : Type} [BEq α] [LawfulBEq α] (l : List α) (h : ¬ l.Nodup) :
    (dedup l).length < l.length := by
  cases Nat.lt_or_ge (dedup l).length l.length with
  | inl h' => exact h'
  | inr h' => exact absurd (nodup_of_dedup_length l (by omega)) h

theorem eq_of_map_nodup {α β : Type} (f : α → β) : ∀ (l : List α), (l.map f).Nodup →
    ∀ x ∈ l, ∀ y ∈ l, f x = f y → x = y
  | [], _, _, hx, _, _, _ => by cases hx
  | a :: l, h, x, hx, y, hy, e => by
    simp only [List.map_cons, List.nodup_cons] at h
    rcases List.mem_cons.1 hx with rfl | hx' <;> rcases List.mem_cons.1 hy with rfl | hy'
    · rfl
    · exact absurd (List.mem_map.2 ⟨y, hy', e.symm⟩) h.1
    · exact absurd (List.mem_map.2 ⟨x, hx', e⟩) h.1
    · exact eq_of_map_nodup f l h.2 x hx' y hy' e

/-! ### one pin fold -/

def upd (want : String) (a : Attr) : Attr :=
  if want == "bb_input" then { ty := some "buf", out := some true } else { a with ty := some "input" }

theorem upd_idem (want : String) (a : Attr) : upd want (upd want a) = upd want a := by
  unfold upd; split <;> rfl

theorem stepF_attr (ig : List Name) (want : String) (g : Circuit) (ps : List Name) (n m : Name) :
    (stepF ig want (g, ps) n).1.attr? m =
      if m = n then (if ig.contains (Tx.lastDot n) then none else (g.attr? n).map (upd want)) else g.attr? m := by
  unfold stepF
  by_cases hi : ig.contains (Tx.lastDot n) = true
  · simp only [hi, if_true]
    exact removeNode_attr? g n m
  · simp only [hi, if_false, Bool.false_eq_true]
    by_cases hw : (want == "bb_input") = true
    · simp only [hw, if_true]
      rw [setOutRaw_attr?, setTyRaw_attr?]
      by_cases hm : m = n
      · subst hm
        cases g.attr? m with
        | none => simp
        | some a => simp [upd, hw]
      · have : (m == n) = false := by simpa using hm
        cases g.attr? m with
        | none => simp [hm]
        | some a => simp [hm, this]
    · simp only [hw, if_false, Bool.false_eq_true]
      rw [setTyRaw_attr?]
      by_cases hm : m = n
      · subst hm
        cases g.attr? m with
        | none => simp
        | some a => simp [upd, hw]
      · have : (m == n) = false := by simpa using hm
        cases g.attr? m with
        | none => simp [hm]
        | some a => simp [hm, this]

theorem stepF_edges (ig : List Name) (want : String) (g : Circuit) (ps : List Name) (n : Name) (e : Name × Name) :
    e ∈ (stepF ig want (g, ps) n).1.edges ↔
      e ∈ g.edges ∧ (ig.contains (Tx.lastDot n) = true → e.1 ≠ n ∧ e.2 ≠ n) := by
  unfold stepF
  by_cases hi : ig.contains (Tx.lastDot n) = true
  · simp only [hi, if_true, removeNode_mem, true_imp_iff]
  · simp only [hi, if_false, Bool.false_eq_true, false_imp_iff, and_true]
    split <;> rfl

theorem stepF_nodup (ig : List Name) (want : String) (g : Circuit) (ps : List Name) (n : Name)
    (h : g.nodeNames.Nodup) : (stepF ig want (g, ps) n).1.nodeNames.Nodup := by
  unfold stepF
  split
  · exact removeNode_nodup n h
  · split
    · simp only [setOutRaw_nodeNames, setTyRaw_nodeNames]; exact h
    · simp only [setTyRaw_nodeNames]; exact h

theorem stepF_edgesNodup (ig : List Name) (want : String) (g : Circuit) (ps : List Name) (n : Name)
    (h : g.edges.Nodup) : (stepF ig want (g, ps) n).1.edges.Nodup := by
  unfold stepF
  split
  · exact removeNode_edges_nodup n h
  · split <;> exact h

theorem stepF_name (ig : List Name) (want : String) (g : Circuit) (ps : List Name) (n : Name) :
    (stepF ig want (g, ps) n).1.name = g.name := by
  unfold stepF
  split
  · rfl
  · split <;> rfl

theorem stepF_pins (ig : List Name) (want : String) (g : Circuit) (ps : List Name) (n : Name) :
    (stepF ig want (g, ps) n).2 = ps ++ [n].filter (fun x => !ig.contains (Tx.lastDot x)) := by
  unfold stepF
  by_cases hi : ig.contains (Tx.lastDot n) = true
  · simp only [hi, if_true, List.filter_cons, Bool.not_true, Bool.false_eq_true, if_false, List.filter_nil,
      List.append_nil]
  · have hi' : ig.contains (Tx.lastDot n) = false := Bool.eq_false_iff.2 hi
    simp only [hi', Bool.false_eq_true, if_false, List.filter_cons, Bool.not_false, if_true, List.filter_nil]
    split <;> rfl

structure FoldView (ig : List Name) (want : String) (L : List Name) (g : Circuit) (ps : List Name)
    (r : Circuit × List Name) : Prop where
  nodup : g.nodeNames.Nodup → r.1.nodeNames.Nodup
  edgesNodup : g.edges.Nodup → r.1.edges.Nodup
  name : r.1.name = g.name
  attr : ∀ m, r.1.attr? m =
    if m ∈ L then (if ig.contains (Tx.lastDot m) then none else (g.attr? m).map (upd want)) else g.attr? m
  edges : ∀ e, e ∈ r.1.edges ↔ e ∈ g.edges ∧ ∀ x ∈ L, ig.contains (Tx.lastDot x) = true → e.1 ≠ x ∧ e.2 ≠ x
  pins : r.2 = ps ++ L.filter (fun x => !ig.contains (Tx.lastDot x))

theorem foldView (ig : List Name) (want : String) : ∀ (L : List Name) (g : Circuit) (ps : List Name),
    FoldView ig want L g ps (L.foldl (stepF ig want) (g, ps))
  | [], g, ps => ⟨id, id, rfl, fun m => by simp, fun e => by simp, by simp⟩
  | n :: L, g, ps => by
    have ih := foldView ig want L (stepF ig want (g, ps) n).1 (stepF ig want (g, ps) n).2
    simp only [List.foldl_cons]
    refine ⟨fun h => ih.nodup (stepF_nodup ig want g ps n h), fun h => ih.edgesNodup (stepF_edgesNodup ig want g ps n h),
      by rw [ih.name, stepF_name], ?_, ?_, ?_⟩
    · intro m
      rw [ih.attr m, stepF_attr]
      by_cases hmn : m = n
      · subst hmn
        simp only [List.mem_cons, true_or, if_true]
        by_cases hmL : m ∈ L
        · simp only [hmL, if_true]
          by_cases hi : ig.contains (Tx.lastDot m) = true
          · simp only [hi, if_true]
          · simp only [hi, if_false, Bool.false_eq_true]
            cases g.attr? m with
            | none => rfl
            | some a => simp [upd_idem]
        · simp only [hmL, if_false]
      · simp only [List.mem_cons, hmn, false_or, if_false]
    · intro e
      rw [ih.edges e, stepF_edges]
      simp only [List.mem_cons, forall_eq_or_imp]
      exact and_assoc
    · rw [ih.pins, stepF_pins]
      simp [List.filter_cons]
      split <;> simp

end CG.Strip
