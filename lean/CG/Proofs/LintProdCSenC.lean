/- helper lemmas for C20 (sensitivity_transform passes lint): the setup of `Sens.sen_setup` with the construction steps
   kept visible, and the final statement -/
import CG.Proofs.LintProdCSenB
set_option linter.unusedSimpArgs false
set_option linter.unusedVariables false
namespace CG
namespace LintProd
open Circuit Miter Sens Q Query Arith Logic
open Tx (addC)

/-- `Sens.sen_setup` together with the popcount call and the construction phases it was read off from
    (same proof, the witnesses are kept) -/
theorem sen_setup_ex {c sen : Circuit} {n : Name} {ord : Ord} (hord : OrdOK ord) (hc : LintClean c) (hb : c.bbs = [])
    (hn : c.has n = true) (h : Tx.sensitivityTransform c n ord = .ok sen)
    {sp0 tfi : List Name} (hsp : startpoints c [n] = .ok sp0) (htfi : transitiveFanin c [n] = .ok tfi) :
    ∃ pcC m k s0 s1 s2 s3, SenSetup c n ord sp0 tfi sen pcC m k ∧ popcount (ord sp0).length = .ok pcC ∧
      ({} : Circuit).addSubcircuit (Tx.inducedSub c (n :: tfi)) "orig" [] = (s0, .ok) ∧
      (ord sp0).foldlM (fun acc s => addC acc (tieA s)) s0 = .ok s1 ∧
      s1.addSubcircuit pcC "pc" [] = (s2, .ok) ∧
      (idxL (ord sp0)).foldlM (Tx.senCopy (Tx.inducedSub c (n :: tfi)) (ord sp0) n) s2 = .ok s3 ∧
      (List.range k).foldlM (fun acc o => addC acc (outA o)) s3 = .ok sen := by
  obtain ⟨sp0', tfi', pcC, k, s0, s1, s2, s3, hsp', hpos, htfi', h0, h1, hpc, h2, h3, hk, h4⟩ :=
    sensitivity_steps hb h
  rw [hsp] at hsp'
  injection hsp' with hsp'
  subst hsp'
  rw [htfi] at htfi'
  injection htfi' with htfi'
  subst htfi'
  have hwf := hc.toWF
  have hcl : ∀ u y, y ∈ n :: tfi → (u, y) ∈ c.edges → u ∈ n :: tfi :=
    fun u y hy he => keep_closed hwf hn htfi hy he
  have lcone : LintClean (Tx.inducedSub c (n :: tfi)) := sub_lint hc hcl
  obtain ⟨pcC', m, hpc', S, hac, hlt, hnx⟩ := popcount_good (ord sp0).length hpos
  rw [hpc] at hpc'
  injection hpc' with hpc'
  subst hpc'
  have hkm := clog2_le_of_lt hk hlt
  have spnd : (ord sp0).Nodup := ord_nodup hord (sp_nodup hc hn hsp)
  have hspmem : ∀ s ∈ ord sp0, s ∈ n :: tfi ∧ s ∈ c.startpointsAll := by
    intro s hs
    exact (mem_sp_iff hc hn htfi hsp s).1 ((ord_mem hord sp0 s).1 hs)
  have hsphas : ∀ s ∈ ord sp0, (Tx.inducedSub c (n :: tfi)).has s = true := by
    intro s hs
    obtain ⟨a, b⟩ := hspmem s hs
    rw [sub_has]
    refine ⟨?_, a⟩
    rcases (mem_startpointsAll c hwf.nodup s).1 b with h' | h' <;> exact has_of_ty? h'
  obtain ⟨n0, _, _, w0⟩ := sub_exact wf_empty lcone.toWF h0
  have spin : ∀ s ∈ ord sp0, s ∈ (Tx.inducedSub c (n :: tfi)).inputs := by
    intro s hs
    obtain ⟨a, b⟩ := hspmem s hs
    rw [CG.mem_inputs lcone.nodup, sub_ty a]
    rcases (mem_startpointsAll c hwf.nodup s).1 b with h' | h'
    · exact h'
    · exfalso
      obtain ⟨at', hat⟩ := has_exists (hsphas s hs)
      have hty : at'.ty = some "bb_output" := by
        have h2 : (Tx.inducedSub c (n :: tfi)).ty? s = some "bb_output" := by rw [sub_ty a]; exact h'
        rw [ty?, attr?_of_mem lcone.nodup hat] at h2
        exact h2
      obtain ⟨ci, ci', w, hsub, hadd⟩ := foldAdd_each tieA plain_tieA (ord sp0) s0 s1 w0 h1 s hs
      have hm : (pref "orig" s, stripA at') ∈ s0.nodes := by
        rw [n0]
        exact List.mem_append.2 (Or.inr (List.mem_map.2 ⟨(s, at'), hat, rfl⟩))
      exact tieA_target_ty w hadd (hsub _ hm) (stripA_ty_of_ne hty (by decide))
  have Su : SenSetup c n ord sp0 tfi sen pcC m k := by
    refine ⟨S, hac, hnx, hk, hkm, hlt, hpos, ⟨lcone, S.lint, spnd, spin, ?_, ?_, ?_, ?_, ?_⟩, ?_⟩
    · intro s hs
      have hty := (CG.mem_inputs lcone.nodup s).1 hs
      have hk' := ((sub_has s).1 (has_of_ty? hty)).2
      rw [sub_ty hk'] at hty
      rw [ord_mem hord, mem_sp_iff hc hn htfi hsp]
      exact ⟨hk', (mem_startpointsAll c hwf.nodup s).2 (Or.inl hty)⟩
    · intro y hty
      have hk' := ((sub_has y).1 (has_of_ty? hty)).2
      have hty' := hty
      rw [sub_ty hk'] at hty'
      have hy0 : y ∈ sp0 := (mem_sp_iff hc hn htfi hsp y).2
        ⟨hk', (mem_startpointsAll c hwf.nodup y).2 (Or.inr hty')⟩
      have := (CG.mem_inputs lcone.nodup y).1 (spin y ((ord_mem hord sp0 y).2 hy0))
      rw [hty] at this
      injection this with this
      exact absurd this (by decide)
    · rw [sub_has]; exact ⟨hn, by simp⟩
    · intro i hi
      exact (S.inputs _).2 ⟨i, hi, rfl⟩
    · intro o ho
      apply mem_outputs_has
      rw [S.outputs]
      exact List.mem_map.2 ⟨o, List.mem_range.2 (by omega), rfl⟩
    · exact phases_of lcone.toWF S.lint.toWF hsphas h0 h1 h2 h3 h4
  exact ⟨pcC, m, k, s0, s1, s2, s3, Su, hpc, h0, h1, h2, h3, h4⟩

/-- the result of `sensitivity_transform` is lint-clean and dot-free -/
theorem sensitivity_clean {c sen : Circuit} {n : Name} {ord : Ord} (hord : OrdOK ord) (hc : LintClean c)
    (hb : c.bbs = []) (hr : LintLink.DotsRegistered c) (hn : c.has n = true)
    (h : Tx.sensitivityTransform c n ord = .ok sen) : LintClean sen ∧ LintLink.NoDots sen := by
  obtain ⟨sp0, tfi, _, _, _, _, _, _, hsp, _, htfi, _⟩ := sensitivity_steps hb h
  obtain ⟨pcC, m, k, s0, s1, s2, s3, Su, hpc, h0, h1, h2, h3, h4⟩ := sen_setup_ex hord hc hb hn h hsp htfi
  have H := Su.hyp
  have V := senView H Su.phases
  have hpcT := popcount_types _ Su.pos hpc
  have hnbi := sen_n_not_bbi H.lcone.toWF H.lpc.toWF Su.pos H.hn h0 h1 h2 h3
  have dc := noDots_of_registered hb hr
  have dcone : LintLink.NoDots (Tx.inducedSub c (n :: tfi)) :=
    ⟨rfl, fun g hg => dc.names g ((sub_has g).1 hg).1⟩
  have dpc := LintLink.noDots_popcount _ pcC hpc
  have hspdot : ∀ s ∈ ord sp0, hasDot s = false := fun s hs => dcone.names s (mem_inputs_has (H.spin s hs))
  exact ⟨sen_lintClean H V Su.pop hpcT hnbi, sen_noDots dcone dpc hspdot h0 h1 h2 h3 h4⟩

end LintProd
end CG
