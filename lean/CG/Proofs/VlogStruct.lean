/-
  CG.Proofs.VlogStruct — helper lemmas for C02's structural-netlist theorem; import hub.
-/
import CG.Proofs.Fast
import CG.Proofs.VlogStructA
import CG.Proofs.VlogStructB
