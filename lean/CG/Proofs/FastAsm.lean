/- C14 helper: the fast reader's graph assembly builds the specification circuit (constant nodes `tie0`, `tie1`) -/
import CG.Proofs.FastFacts
import CG.Proofs.FastAsmD
set_option linter.unusedSimpArgs false
set_option linter.unusedVariables false
namespace CG
namespace FV
open Verilog FastVerilog Circuit

/-- everything after the bookkeeping, given an accumulator that describes all statements -/
theorem finish_spec {r : RMod} {bbs : List BBox} (h : Restricted r bbs) (ordIn : Ord) (hordIn : OrdOK ordIn)
    (a2 : Acc) (hinv : AInv bbs (fun s => s ∈ r.stmts) a2) :
    ∃ cf, finish r.name (ordIn (dedup r.inputs)) r.outputs a2 = .ok cf ∧ Spec r bbs "tie0" "tie1" cf := by
  have hrl := RL.of_restricted h
  have hded : dedup r.inputs = r.inputs := VR.dedup_eq_of_nodup _ (List.nodup_append.1 h.defsNodup).1
  have hins : ∀ n, n ∈ ordIn r.inputs ↔ n ∈ r.inputs := fun n => (hordIn r.inputs).mem_iff
  rw [hded, finish_eq]
  -- nodes
  have hL : ∀ n x, (n, x) ∈ nodeList (ordIn r.inputs) a2.nets ↔ NodeOf r bbs n x := by
    intro n x
    rw [mem_nodeList]
    unfold NodeOf
    simp only [hins, hinv.nets]
  have hfunL : ∀ p ∈ nodeList (ordIn r.inputs) a2.nets, ∀ q ∈ nodeList (ordIn r.inputs) a2.nets,
      p.1 = q.1 → p.2 = q.2 := by
    rintro ⟨n, x⟩ hp ⟨m, y⟩ hq e
    simp only at e
    subst e
    exact nodeOf_fun h ((hL _ _).1 hp) ((hL _ _).1 hq)
  obtain ⟨g2nd, g2e, g2n, g2a'⟩ := addAll_empty (nodeList (ordIn r.inputs) a2.nets) r.name hfunL
  generalize addAll (nodeList (ordIn r.inputs) a2.nets) { name := r.name } = g2 at g2nd g2e g2n g2a' ⊢
  have g2a : ∀ n x, g2.attr? n = some x ↔ NodeOf r bbs n x := fun n x => (g2a' n x).trans (hL n x)
  have g2has : ∀ n x, NodeOf r bbs n x → g2.has n = true := by
    intro n x hx
    rw [has_eq_isSome, (g2a n x).2 hx]; rfl
  have hdef_has : ∀ n t, DefTy bbs r.inputs r.stmts n t → g2.has n = true := by
    rintro n t (⟨hi, rfl⟩ | ⟨s, hs, hd⟩)
    · exact g2has n _ (Or.inl ⟨hi, rfl⟩)
    · exact g2has n _ (Or.inr (Or.inr (Or.inr ⟨t, ⟨s, hs, hd⟩, rfl⟩)))
  -- edges
  have hedge : ∀ e, e ∈ a2.edges ↔ EdgeOf bbs r.stmts "tie0" "tie1" e := hinv.edges
  have hends : ∀ e ∈ a2.edges, g2.has e.1 = true ∧ g2.has e.2 = true := by
    intro e he
    obtain ⟨s, hs, x, b, hxb, rfl⟩ := (hedge e).1 he
    constructor
    · rcases edge_src (h.stmts s hs) hxb with rfl | rfl | ⟨n, rfl, hu, _⟩ | ⟨n, rfl, hd⟩
      · exact g2has _ _ (Or.inr (Or.inl ⟨rfl, rfl⟩))
      · exact g2has _ _ (Or.inr (Or.inr (Or.inl ⟨rfl, rfl⟩)))
      · obtain ⟨t, ht⟩ := h.uses_def hs hu
        exact hdef_has n t ht
      · exact hdef_has n _ (Or.inr ⟨s, hs, hd⟩)
    · obtain ⟨t, hd⟩ := edge_tgt hxb
      exact hdef_has b t (Or.inr ⟨s, hs, hd⟩)
  rw [foldl_addEdgeAuto a2.edges g2 hends]
  have g3nodes := foldl_addEdge_nodes a2.edges g2
  have g3mem := foldl_addEdge_mem a2.edges g2
  have g3nd := foldl_addEdge_nodup a2.edges (c := g2) (by rw [g2e]; exact List.nodup_nil)
  have g3name := foldl_addEdge_name a2.edges g2
  generalize List.foldl (fun c e => c.addEdge e.1 e.2) g2 a2.edges = g3 at g3nodes g3mem g3nd g3name ⊢
  have g3edges : ∀ e, e ∈ g3.edges ↔ e ∈ a2.edges := by
    intro e; rw [g3mem, g2e]; simp
  -- outputs
  obtain ⟨g4, he4, e4, _, n4, nn4, a4⟩ := VR.setOut_fold r.outputs g3 (by
    intro o ho
    obtain ⟨t, ht⟩ := h.out_def ho
    rw [has_congr g3nodes]
    exact hdef_has o t ht)
  have g4edges : ∀ e, e ∈ g4.edges ↔ EdgeOf bbs r.stmts "tie0" "tie1" e := by
    intro e; rw [e4, g3edges, hedge]
  have wf4 : WF g4 := by
    refine ⟨?_, ?_, ?_⟩
    · rw [nn4, nodeNames_congr g3nodes]; exact g2nd
    · rw [e4]; exact g3nd
    · intro e he
      rw [e4] at he
      have := hends e ((g3edges e).1 he)
      rw [has_iff_mem, has_iff_mem, nn4, nodeNames_congr g3nodes, ← has_iff_mem, ← has_iff_mem]
      exact this
  have g4a : ∀ n, g4.attr? n =
      (g2.attr? n).map (fun a => if n ∈ r.outputs then { a with out := some true } else a) := by
    intro n; rw [a4, attr?_congr g3nodes]
  -- constant nodes
  have htgt : ∀ e ∈ g4.edges, e.2 ≠ "tie0" ∧ e.2 ≠ "tie1" := by
    intro e he
    obtain ⟨s, hs, x, b, hxb, rfl⟩ := (g4edges e).1 he
    obtain ⟨t, hd⟩ := edge_tgt hxb
    exact defTy_ne_ties h (Or.inr ⟨s, hs, hd⟩)
  obtain ⟨w5, e5, _, n5, o5, k5, d5⟩ := VR.dropTie_spec wf4 "tie0" (fun e he => (htgt e he).1) _ rfl
  obtain ⟨w6, e6, _, n6, o6, k6, d6⟩ := VR.dropTie_spec w5 "tie1" (fun e he => (htgt e ((e5 e).1 he)).2) _ rfl
  have h01 : ("tie0" : Name) ≠ "tie1" := by decide
  have hu0 : (∃ v, ("tie0", v) ∈ g4.edges) ↔ ConstUsed bbs r.stmts .c0 := by
    rw [← tie_edge_iff h .c0 (Or.inl rfl)]
    exact exists_congr (fun v => g4edges _)
  have hu1 : (∃ v, ("tie1", v) ∈ (VR.dropTie g4 "tie0").edges) ↔ ConstUsed bbs r.stmts .c1 := by
    rw [← tie_edge_iff h .c1 (Or.inr rfl)]
    exact exists_congr (fun v => (e5 _).trans (g4edges _))
  refine ⟨_, by rw [he4, Arith.bind_ok]; rfl, ?_, wf_bbs w6 _, ?_, ?_, ?_⟩
  · show (VR.dropTie (VR.dropTie g4 "tie0") "tie1").name = r.name
    rw [n6, n5, n4, g3name, g2n]
  · intro n a
    rw [nodeSpec_iff h, ← view4 h g2a g4a]
    show view (VR.dropTie (VR.dropTie g4 "tie0") "tie1") n = some a ↔ _
    by_cases hn0 : n = "tie0"
    · subst hn0
      have e1 : view (VR.dropTie (VR.dropTie g4 "tie0") "tie1") "tie0" = view (VR.dropTie g4 "tie0") "tie0" := by
        unfold view; rw [o6 _ h01]
      rw [e1]
      by_cases hu : ConstUsed bbs r.stmts .c0
      · have e2 : view (VR.dropTie g4 "tie0") "tie0" = view g4 "tie0" := by
          unfold view; rw [k5 (hu0.2 hu)]
        rw [e2]
        exact ⟨fun hh => ⟨hh, fun _ => hu, fun e => absurd e h01⟩, fun hh => hh.1⟩
      · have e2 : view (VR.dropTie g4 "tie0") "tie0" = none := by
          unfold view; rw [d5 (fun v hv => hu (hu0.1 ⟨v, hv⟩))]; rfl
        rw [e2]
        exact ⟨fun hh => (nomatch hh), fun hh => absurd (hh.2.1 rfl) hu⟩
    · by_cases hn1 : n = "tie1"
      · subst hn1
        by_cases hu : ConstUsed bbs r.stmts .c1
        · have e1 : view (VR.dropTie (VR.dropTie g4 "tie0") "tie1") "tie1" = view g4 "tie1" := by
            unfold view; rw [k6 (hu1.2 hu), o5 _ hn0]
          rw [e1]
          exact ⟨fun hh => ⟨hh, fun e => absurd e hn0, fun _ => hu⟩, fun hh => hh.1⟩
        · have e1 : view (VR.dropTie (VR.dropTie g4 "tie0") "tie1") "tie1" = none := by
            unfold view; rw [d6 (fun v hv => hu (hu1.1 ⟨v, hv⟩))]; rfl
          rw [e1]
          exact ⟨fun hh => (nomatch hh), fun hh => absurd (hh.2.2 rfl) hu⟩
      · have e1 : view (VR.dropTie (VR.dropTie g4 "tie0") "tie1") n = view g4 n := by
          unfold view; rw [o6 _ hn1, o5 _ hn0]
        rw [e1]
        exact ⟨fun hh => ⟨hh, fun e => absurd e hn0, fun e => absurd e hn1⟩, fun hh => hh.1⟩
  · intro e
    show e ∈ (VR.dropTie (VR.dropTie g4 "tie0") "tie1").edges ↔ _
    rw [e6, e5, g4edges]
  · intro q
    show q ∈ a2.bbs ↔ _
    exact hinv.bbs q

theorem fast_spec {r : RMod} {bbs : List BBox} (h : Restricted r bbs) (ord ordIn : Ord) (hord : OrdOK ord)
    (hordIn : OrdOK ordIn) :
    ∃ cf, FastVerilog.assemble r.toFParsed bbs ord ordIn = .ok cf ∧ Spec r bbs "tie0" "tie1" cf := by
  obtain ⟨a, he, hinv⟩ := acc_all h ord hord
  obtain ⟨cf, hf, hs⟩ := finish_spec h ordIn hordIn _ hinv
  refine ⟨cf, ?_, hs⟩
  rw [assemble_eq]
  show ((r.stmts.filterMap RStmt.finst).foldlM (doInst bbs ord "tie0" "tie1") ({} : Acc) >>= fun a =>
    finish r.name (ordIn (dedup r.inputs)) r.outputs ((r.stmts.filterMap RStmt.fassign).foldl assignStep a)) = _
  rw [he, Arith.bind_ok]
  exact hf

end FV
end CG
