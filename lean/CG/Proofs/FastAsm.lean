/- C14 helper: the fast reader's graph assembly builds the specification circuit (constant nodes `tie0`, `tie1`) -/
import CG.Proofs.FastFacts
import CG.Proofs.FastAsmD
set_option linter.unusedSimpArgs false
set_option linter.unusedVariables false
namespace CG
namespace FV
open Verilog FastVerilog Circuit

/-- everything after the bookkeeping, given an accumulator that describes all statements -/
theorem finish_spec {r : RMod} {bbs : List BBox} (h : Restricted r bbs) (ordIn : Ord) (hordIn : OrdOK ordIn)
    (a2 : Acc) (hinv : AInv bbs (fun s => s ∈ r.stmts) a2) :
    ∃ cf, finish r.name (ordIn (dedup r.inputs)) r.outputs a2 = .ok cf ∧ Spec r bbs "tie0" "tie1" cf := by
  have hrl := RL.of_restricted h
  have hded : dedup r.inputs = r.inputs := VR.dedup_eq_of_nodup _ (List.nodup_append.1 h.defsNodup).1
  have hins : ∀ n, n ∈ ordIn r.inputs ↔ n ∈ r.inputs := fun n => (hordIn r.inputs).mem_iff
  rw [hded, finish_eq]
  -- nodes
  have hL : ∀ n x, (n, x) ∈ nodeList (ordIn r.inputs) a2.nets ↔ NodeOf r bbs n x := by
    intro n x
    rw [mem_nodeList]
    unfold NodeOf
    simp only [hins, hinv.nets]
  have hfunL : ∀ p ∈ nodeList (ordIn r.inputs) a2.nets, ∀ q ∈ nodeList (ordIn r.inputs) a2.nets,
      p.1 = q.1 → p.2 = q.2 := by
    rintro ⟨n, x⟩ hp ⟨m, y⟩ hq e
    simp only at e
    subst e
    exact nodeOf_fun h ((hL _ _).1 hp) ((hL _ _).1 hq)
  obtain ⟨g2nd, g2e, g2n, g2a'⟩ := addAll_empty (nodeList (ordIn r.inputs) a2.nets) r.name hfunL
  generalize addAll (nodeList (ordIn r.inputs) a2.nets) { name := r.name } = g2 at g2nd g2e g2n g2a' ⊢
  have g2a : ∀ n x, g2.attr? n = some x ↔ NodeOf r bbs n x := fun n x => (g2a' n x).trans (hL n x)
  have g2has : ∀ n x, NodeOf r bbs n x → g2.has n = true := by
    intro n x hx
    rw [has_eq_isSome, (g2a n x).2 hx]; rfl
  have hdef_has : ∀ n t, DefTy bbs r.inputs r.stmts n t → g2.has n = true := by
    rintro n t (⟨hi, rfl⟩ | ⟨s, hs, hd⟩)
    · exact g2has n _ (Or.inl ⟨hi, rfl⟩)
    · exact g2has n _ (Or.inr (Or.inr (Or.inr ⟨t, ⟨s, hs, hd⟩, rfl⟩)))
  -- edges
  have hedge : ∀ e, e ∈ a2.edges ↔ EdgeOf bbs r.stmts "tie0" "tie1" e := hinv.edges
  have g2none : ∀ n, g2.has n = false → ∀ x, ¬ NodeOf r bbs n x := by
    intro n hn x hx
    rw [g2has n x hx] at hn; cases hn
  have htgt2 : ∀ e ∈ a2.edges, g2.has e.2 = true := by
    intro e he
    obtain ⟨s, hs, x, b, hxb, rfl⟩ := (hedge e).1 he
    obtain ⟨t, hd⟩ := edge_tgt hxb
    exact hdef_has b t (Or.inr ⟨s, hs, hd⟩)
  -- the edges; a source that is not a node yet is a floating net
  obtain ⟨g3nd, g3ed, g3name, g3mem, g3has, g3old, g3new⟩ := foldl_addEdgeAuto_spec a2.edges g2 g2nd
    (by rw [g2e]; exact List.nodup_nil)
  generalize List.foldl addEdgeAuto g2 a2.edges = g3e at g3nd g3ed g3name g3mem g3has g3old g3new ⊢
  have g3edges : ∀ e, e ∈ g3e.edges ↔ e ∈ a2.edges := by
    intro e; rw [g3mem, g2e]; simp
  have hfl_new : ∀ n, Floating bbs r.inputs r.stmts n → g2.has n = false ∧ g3e.has n = true := by
    intro n hfl
    constructor
    · cases hg : g2.has n with
      | false => rfl
      | true =>
        exfalso
        rw [has_eq_isSome] at hg
        cases hx : g2.attr? n with
        | none => rw [hx] at hg; cases hg
        | some x =>
          rcases (g2a n x).1 hx with ⟨hi, _⟩ | ⟨e, _⟩ | ⟨e, _⟩ | ⟨k, ⟨s, hs, hd⟩, _⟩
          · exact hfl.2 _ (Or.inl ⟨hi, rfl⟩)
          · exact (floating_ne_ties h hfl).1 e
          · exact (floating_ne_ties h hfl).2 e
          · exact hfl.2 _ (Or.inr ⟨s, hs, hd⟩)
    · obtain ⟨s, hs, b, hb⟩ := hfl.1
      exact (g3has n).2 (Or.inr ⟨(n, b), (hedge _).2 ⟨s, hs, .net n, b, hb, rfl⟩, Or.inl rfl⟩)
  have hnew_fl : ∀ n, g2.has n = false → g3e.has n = true → Floating bbs r.inputs r.stmts n := by
    intro n h2 h3
    rcases (g3has n).1 h3 with h' | ⟨e, he, hne⟩
    · rw [h2] at h'; cases h'
    · rcases hne with rfl | rfl
      · obtain ⟨s, hs, x, b, hxb, rfl⟩ := (hedge e).1 he
        rcases edge_src_cases (ins := r.inputs) h.stmts hs hxb with rfl | rfl | ⟨m, rfl, ⟨t, ht⟩ | ⟨hfl, _⟩⟩
        · exact absurd (Or.inr (Or.inl ⟨rfl, rfl⟩)) (g2none _ h2 _)
        · exact absurd (Or.inr (Or.inr (Or.inl ⟨rfl, rfl⟩))) (g2none _ h2 _)
        · have := hdef_has m t ht
          rw [show g2.has m = false from h2] at this; cases this
        · exact hfl
      · rw [htgt2 e he] at h2; cases h2
  have g3a : ∀ n x, (fillBuf g3e).attr? n = some x ↔
      NodeOf r bbs n x ∨ (Floating bbs r.inputs r.stmts n ∧ x = { ty := some "buf", out := some false }) := by
    intro n x
    rw [fillBuf_attr]
    cases hg : g2.has n with
    | true =>
      rw [g3old n hg]
      constructor
      · intro hx
        cases hy : g2.attr? n with
        | none => rw [hy] at hx; cases hx
        | some y =>
          rw [hy] at hx
          have hny := (g2a n y).1 hy
          have hty : ∃ t, y.ty = some t := by
            rcases hny with ⟨_, rfl⟩ | ⟨_, rfl⟩ | ⟨_, rfl⟩ | ⟨k, _, rfl⟩ <;> exact ⟨_, rfl⟩
          obtain ⟨t, ht⟩ := hty
          simp only [Option.map_some, fillAttr_of_ty ht] at hx
          injection hx with hx
          exact Or.inl (hx ▸ hny)
      · rintro (hx | ⟨hfl, _⟩)
        · have hty : ∃ t, x.ty = some t := by
            rcases hx with ⟨_, rfl⟩ | ⟨_, rfl⟩ | ⟨_, rfl⟩ | ⟨k, _, rfl⟩ <;> exact ⟨_, rfl⟩
          obtain ⟨t, ht⟩ := hty
          rw [(g2a n x).2 hx]
          simp only [Option.map_some, fillAttr_of_ty ht]
        · rw [(hfl_new n hfl).1] at hg; cases hg
    | false =>
      constructor
      · intro hx
        cases hy : g3e.attr? n with
        | none => rw [hy] at hx; cases hx
        | some y =>
          have h3 : g3e.has n = true := by rw [has_eq_isSome, hy]; rfl
          rw [g3new n hg h3] at hy
          injection hy with hy
          subst hy
          rw [g3new n hg h3] at hx
          injection hx with hx
          exact Or.inr ⟨hnew_fl n hg h3, hx.symm⟩
      · rintro (hx | ⟨hfl, rfl⟩)
        · exact absurd hx (g2none n hg x)
        · rw [g3new n hg (hfl_new n hfl).2]; rfl
  have g3nn : (fillBuf g3e).nodeNames = g3e.nodeNames := fillBuf_nodeNames g3e
  have hmono : ∀ n, g2.has n = true → (fillBuf g3e).has n = true := by
    intro n hn
    rw [fillBuf_has]; exact (g3has n).2 (Or.inl hn)
  have hends : ∀ e ∈ a2.edges, (fillBuf g3e).has e.1 = true ∧ (fillBuf g3e).has e.2 = true := by
    intro e he
    rw [fillBuf_has, fillBuf_has]
    exact ⟨(g3has _).2 (Or.inr ⟨e, he, Or.inl rfl⟩), (g3has _).2 (Or.inr ⟨e, he, Or.inr rfl⟩)⟩
  have g3fe : (fillBuf g3e).edges = g3e.edges := rfl
  have g3fn : (fillBuf g3e).name = g3e.name := rfl
  generalize fillBuf g3e = g3 at g3a g3nn hmono hends g3fe g3fn ⊢
  -- outputs
  obtain ⟨g4, he4, e4, _, n4, nn4, a4⟩ := VR.setOut_fold r.outputs g3 (by
    intro o ho
    obtain ⟨t, ht⟩ := h.out_def ho
    exact hmono o (hdef_has o t ht))
  have g4edges : ∀ e, e ∈ g4.edges ↔ EdgeOf bbs r.stmts "tie0" "tie1" e := by
    intro e; rw [e4, g3fe, g3edges, hedge]
  have wf4 : WF g4 := by
    refine ⟨?_, ?_, ?_⟩
    · rw [nn4, g3nn]; exact g3nd
    · rw [e4, g3fe]; exact g3ed
    · intro e he
      rw [e4, g3fe] at he
      have := hends e ((g3edges e).1 he)
      rw [has_iff_mem, has_iff_mem, nn4, ← has_iff_mem, ← has_iff_mem]
      exact this
  have g4a : ∀ n, g4.attr? n =
      (g3.attr? n).map (fun a => if n ∈ r.outputs then { a with out := some true } else a) := a4
  -- constant nodes
  have htgt : ∀ e ∈ g4.edges, e.2 ≠ "tie0" ∧ e.2 ≠ "tie1" := by
    intro e he
    obtain ⟨s, hs, x, b, hxb, rfl⟩ := (g4edges e).1 he
    obtain ⟨t, hd⟩ := edge_tgt hxb
    exact defTy_ne_ties h (Or.inr ⟨s, hs, hd⟩)
  obtain ⟨w5, e5, _, n5, o5, k5, d5⟩ := VR.dropTie_spec wf4 "tie0" (fun e he => (htgt e he).1) _ rfl
  obtain ⟨w6, e6, _, n6, o6, k6, d6⟩ := VR.dropTie_spec w5 "tie1" (fun e he => (htgt e ((e5 e).1 he)).2) _ rfl
  have h01 : ("tie0" : Name) ≠ "tie1" := by decide
  have hu0 : (∃ v, ("tie0", v) ∈ g4.edges) ↔ ConstUsed bbs r.stmts .c0 := by
    rw [← tie_edge_iff h .c0 (Or.inl rfl)]
    exact exists_congr (fun v => g4edges _)
  have hu1 : (∃ v, ("tie1", v) ∈ (VR.dropTie g4 "tie0").edges) ↔ ConstUsed bbs r.stmts .c1 := by
    rw [← tie_edge_iff h .c1 (Or.inr rfl)]
    exact exists_congr (fun v => (e5 _).trans (g4edges _))
  refine ⟨_, by rw [he4, Arith.bind_ok]; rfl, ?_, wf_bbs w6 _, ?_, ?_, ?_⟩
  · show (VR.dropTie (VR.dropTie g4 "tie0") "tie1").name = r.name
    rw [n6, n5, n4, g3fn, g3name, g2n]
  · intro n a
    rw [nodeSpec_iff h, ← view4 h g3a g4a]
    show view (VR.dropTie (VR.dropTie g4 "tie0") "tie1") n = some a ↔ _
    by_cases hn0 : n = "tie0"
    · subst hn0
      have e1 : view (VR.dropTie (VR.dropTie g4 "tie0") "tie1") "tie0" = view (VR.dropTie g4 "tie0") "tie0" := by
        unfold view; rw [o6 _ h01]
      rw [e1]
      by_cases hu : ConstUsed bbs r.stmts .c0
      · have e2 : view (VR.dropTie g4 "tie0") "tie0" = view g4 "tie0" := by
          unfold view; rw [k5 (hu0.2 hu)]
        rw [e2]
        exact ⟨fun hh => ⟨hh, fun _ => hu, fun e => absurd e h01⟩, fun hh => hh.1⟩
      · have e2 : view (VR.dropTie g4 "tie0") "tie0" = none := by
          unfold view; rw [d5 (fun v hv => hu (hu0.1 ⟨v, hv⟩))]; rfl
        rw [e2]
        exact ⟨fun hh => (nomatch hh), fun hh => absurd (hh.2.1 rfl) hu⟩
    · by_cases hn1 : n = "tie1"
      · subst hn1
        by_cases hu : ConstUsed bbs r.stmts .c1
        · have e1 : view (VR.dropTie (VR.dropTie g4 "tie0") "tie1") "tie1" = view g4 "tie1" := by
            unfold view; rw [k6 (hu1.2 hu), o5 _ hn0]
          rw [e1]
          exact ⟨fun hh => ⟨hh, fun e => absurd e hn0, fun _ => hu⟩, fun hh => hh.1⟩
        · have e1 : view (VR.dropTie (VR.dropTie g4 "tie0") "tie1") "tie1" = none := by
            unfold view; rw [d6 (fun v hv => hu (hu1.1 ⟨v, hv⟩))]; rfl
          rw [e1]
          exact ⟨fun hh => (nomatch hh), fun hh => absurd (hh.2.2 rfl) hu⟩
      · have e1 : view (VR.dropTie (VR.dropTie g4 "tie0") "tie1") n = view g4 n := by
          unfold view; rw [o6 _ hn1, o5 _ hn0]
        rw [e1]
        exact ⟨fun hh => ⟨hh, fun e => absurd e hn0, fun e => absurd e hn1⟩, fun hh => hh.1⟩
  · intro e
    show e ∈ (VR.dropTie (VR.dropTie g4 "tie0") "tie1").edges ↔ _
    rw [e6, e5, g4edges]
  · intro q
    show q ∈ a2.bbs ↔ _
    exact hinv.bbs q

theorem fast_spec {r : RMod} {bbs : List BBox} (h : Restricted r bbs) (ord ordIn : Ord) (hord : OrdOK ord)
    (hordIn : OrdOK ordIn) :
    ∃ cf, FastVerilog.assemble r.toFParsed bbs ord ordIn = .ok cf ∧ Spec r bbs "tie0" "tie1" cf := by
  obtain ⟨a, he, hinv⟩ := acc_all h ord hord
  obtain ⟨cf, hf, hs⟩ := finish_spec h ordIn hordIn _ hinv
  refine ⟨cf, ?_, hs⟩
  rw [assemble_eq]
  show ((r.stmts.filterMap RStmt.finst).foldlM (doInst bbs ord "tie0" "tie1") ({} : Acc) >>= fun a =>
    finish r.name (ordIn (dedup r.inputs)) r.outputs ((r.stmts.filterMap RStmt.fassign).foldl assignStep a)) = _
  rw [he, Arith.bind_ok]
  exact hf

end FV
end CG
