/- C17 (algorithm): machine-checked counterexample to `C17.algo_cover` / `C17.algo_spec` as stated.
   `LintClean c2`, `c2.bbs = []`, acyclicity and fan-in ≤ 2 do not exclude a node *typed* `bb_output` (lint itself
   accepts such a node when its name has no dot, see `cex_lint_ok`).  `subcircuit(…, modify_io=True)` retypes every
   non-constant node without a driver inside the supergate to `input`, so the stray `bb_output` node is an *input* of
   every supergate that contains it and internal to none: the cover clause fails for it (and so does the `ordered`
   clause, which wants a producer for every input that is not of type `input`). -/
import CG.Props.C20
import CG.Props.C17
import CG.SupergatesAlgo
set_option linter.unusedSectionVars false
set_option linter.unusedVariables false
set_option linter.unusedSimpArgs false
namespace CG
namespace SGAlgoCex
open Supergates CG.C12

/-- a buffer driven by a node typed `bb_output` (no blackbox registered) -/
def cex : Circuit :=
  { nodes := [("a", { ty := some "bb_output", out := some false }), ("b", { ty := some "buf", out := some true })],
    edges := [("a", "b")] }

theorem cex_lint_ok : lint cex {} id = Outcome.ok := by decide

theorem cex_clean : LintClean cex :=
  (C20.lintClean_of_lint_ok cex id (fun l => List.Perm.refl l) ⟨by decide, by decide, by decide⟩ (by decide)
    cex_lint_ok).1

theorem cex_nobb : cex.bbs = [] := rfl

theorem cex_acyclic : Acyclic cex := ⟨fun n => if n = "a" then 0 else 1, by decide⟩

theorem cex_fanin2 : ∀ n, (cex.fanin n).length ≤ 2 := by
  intro n
  unfold Circuit.fanin
  rw [List.length_map]
  exact Nat.le_trans (List.length_filter_le _ _) (by decide)

theorem cex_outputs : cex.outputs = ["b"] := by decide

theorem cex_reach : C17.ReachR cex "a" "b" := Or.inr ⟨1, by decide, .cons (by decide) (.nil "b")⟩

theorem cex_ty : cex.ty? "a" ≠ some "input" := by decide

/-- the hypotheses hold, the conclusion of `algo_cover` fails: `a` is internal to no supergate -/
theorem cex_not_covered : ∀ p ∈ (algo cex ["b"]).sgs, "a" ∉ internal p.2 := by decide +kernel

theorem cex_flags : (algo cex ["b"]).cyclic = false ∧ (algo cex ["b"]).headsDistinct = true := by decide +kernel

theorem cex_depEdges : depEdges cex (algo cex ["b"]).sgs = [] := by decide +kernel

/-- the conclusion of `algo_spec` fails for the (only) listing of the result -/
theorem cex_not_spec : ¬ C17.Spec cex ((algo cex ["b"]).sgs.map (·.2)) := by
  intro h
  obtain ⟨sg, hsg, hin⟩ := h.cover "b" (by decide) "a" cex_reach cex_ty
  obtain ⟨p, hp, rfl⟩ := List.mem_map.mp hsg
  exact cex_not_covered p hp hin

end SGAlgoCex
end CG
