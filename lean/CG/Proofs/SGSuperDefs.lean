/- C17 (super-circuit) helpers, part 2: vocabulary — the names the construction introduces, the corrected freshness
   hypothesis, and the structural description of the (partially filled) super-circuit that the structural half
   (SGSuperBuild*/SGSuperFill*) establishes and the semantic half (SGSuperSem*) consumes. Definitions only. -/
import CG.SuperCircuit
import CG.Props.C06
import CG.Proofs.SGAlgoFound
namespace CG
namespace SGSuper
open Supergates SGA

/-- instance name of the supergate with head `h` -/
def inst (h : Name) : Name := "sg_" ++ h
/-- the node `n` of the supergate with head `h` after `fill_blackbox` -/
def pre (h n : Name) : Name := "sg_" ++ h ++ "_" ++ n
/-- the pin `p` of the instance of the supergate with head `h` -/
def pin (h p : Name) : Name := "sg_" ++ h ++ "." ++ p

theorem pre_eq (h n : Name) : pre h n = Circuit.pref (inst h) n := rfl
theorem pin_eq (h p : Name) : pin h p = inst h ++ "." ++ p := rfl

/-- the corrected freshness hypothesis: every name of the circuit can be re-added through `add` (non-empty, no leading
    digit), pin names `sg_h.p` and spliced names `sg_h_n` are free in the circuit, pairwise distinct and distinct from
    each other (`h`, `n`, `p` ranging over the nodes of the fan-in-limited circuit) -/
structure NamesOK (c2 : Circuit) : Prop where
  nameOK : ∀ n, c2.has n = true → n.isEmpty = false ∧ Circuit.isDigit0 n = false
  preFree : ∀ h n, c2.has h = true → c2.has n = true → c2.has (pre h n) = false
  pinFree : ∀ h p, c2.has h = true → c2.has p = true → c2.has (pin h p) = false
  preInj : ∀ h n h' n', c2.has h = true → c2.has n = true → c2.has h' = true → c2.has n' = true →
    pre h n = pre h' n' → h = h' ∧ n = n'
  pinInj : ∀ h p h' p', c2.has h = true → c2.has p = true → c2.has h' = true → c2.has p' = true →
    pin h p = pin h' p' → h = h' ∧ p = p'
  prePin : ∀ h n h' p, c2.has h = true → c2.has n = true → c2.has h' = true → c2.has p = true → pre h n ≠ pin h' p

/-- supergates that get an instance: at least one internal node -/
def kept (ms : List (Found × Circuit)) : List (Found × Circuit) := ms.filter (fun p => !(internal p.2).isEmpty)

/-- the blackbox type created for a supergate -/
def bbOf (p : Found × Circuit) : BBox := { name := inst p.1.head, ins := p.2.inputs, outs := [p.1.head] }

/-- what the structural half needs to know about one supergate of the algorithm -/
structure SGOk (c2 : Circuit) (p : Found × Circuit) : Prop where
  eq : p.2 = sgCircuit c2 p.1.cone p.1.head p.1.nodes
  ctx : SGCtx c2 p.1.cone p.1.head p.1.nodes
  headInt : p.1.head ∉ p.2.inputs

/-- nets of the super-circuit named like nodes of `c2` -/
def IsNet (c2 : Circuit) (K : List (Found × Circuit)) (x : Name) : Prop :=
  x ∈ c2.inputs ∨ x ∈ c2.outputs ∨ ∃ p ∈ K, x ∈ p.2.inputs ∨ x = p.1.head

/-- the super-circuit in which the instances of `K1` have been filled and those of `K2` are still blackboxes -/
structure MixDesc (c2 : Circuit) (K1 K2 : List (Found × Circuit)) (t : Circuit) : Prop where
  wf : WF t
  bbs : t.bbs = K2.map (fun p => (inst p.1.head, bbOf p))
  has : ∀ x, t.has x = true ↔ (IsNet c2 (K1 ++ K2) x ∨ (∃ p ∈ K1, ∃ n, p.2.has n = true ∧ x = pre p.1.head n) ∨
      (∃ p ∈ K2, ∃ g ∈ p.2.inputs ++ [p.1.head], x = pin p.1.head g))
  netAttr : ∀ x, IsNet c2 (K1 ++ K2) x →
    t.attr? x = some { ty := some (if x ∈ c2.inputs then "input" else "buf"), out := some (decide (x ∈ c2.outputs)) }
  preAttr : ∀ p ∈ K1, ∀ n a, (n, a) ∈ p.2.nodes → t.attr? (pre p.1.head n) = some (C06.stripAttr a)
  edges : ∀ e, e ∈ t.edges ↔
    ((∃ p ∈ K1, (∃ i ∈ p.2.inputs, e = (i, pre p.1.head i)) ∨ e = (pre p.1.head p.1.head, p.1.head) ∨
        (∃ e0 ∈ p.2.edges, e = (pre p.1.head e0.1, pre p.1.head e0.2))) ∨
     (∃ p ∈ K2, (∃ i ∈ p.2.inputs, e = (i, pin p.1.head i)) ∨ e = (pin p.1.head p.1.head, p.1.head)))

/-- the facts about the kept supergates that the semantic half needs beyond `SGOk` -/
structure SGFacts (c2 : Circuit) (K : List (Found × Circuit)) : Prop where
  ok : ∀ p ∈ K, SGOk c2 p
  headsNodup : (K.map (·.1.head)).Nodup
  /-- an input of a kept supergate is a primary input or the head of a kept supergate -/
  inputsDriven : ∀ p ∈ K, ∀ i ∈ p.2.inputs, i ∈ c2.inputs ∨ ∃ q ∈ K, q.1.head = i
  /-- an output of the circuit is a primary input or the head of a kept supergate -/
  outputsDriven : ∀ o ∈ c2.outputs, o ∈ c2.inputs ∨ ∃ q ∈ K, q.1.head = o

end SGSuper
end CG
