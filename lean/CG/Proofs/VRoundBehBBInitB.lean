/- C03 helper (behavioural round trip WITH blackboxes): the fold invariants hold after the instance statements, with
   the pin connections as the equations processed so far. -/
import CG.Proofs.VRoundBehBBInitA
import CG.Proofs.VRoundBehBBFold
namespace CG
namespace VBB
open Verilog Circuit Ternary VT VB

/-- the wires at the pins -/
def PE (c : Circuit) (e : Name × Name) : Prop := e ∈ c.edges ∧ (VR.PinTy c e.2 ∨ c.ty? e.1 = some "bb_output")

def pinEdges (c : Circuit) : List (Name × Name) :=
  c.edges.filter (fun e => c.ty? e.2 == some "bb_input" || c.ty? e.2 == some "bb_output" ||
    c.ty? e.1 == some "bb_output")

/-- the pin connections as equations `load = driver` -/
def done0 (c : Circuit) : List (Name × Expr) := (pinEdges c).map (fun e => (e.2, Expr.id e.1))

theorem mem_pinEdges (c : Circuit) (e : Name × Name) : e ∈ pinEdges c ↔ PE c e := by
  unfold pinEdges PE VR.PinTy
  simp only [List.mem_filter, Bool.or_eq_true, beq_iff_eq]

variable {c : Circuit}

/-- the wires of the state after the instance statements -/
theorem st_edges (hc : VR.Wr c) {st : Circuit} (h : VR.RInv c st c.bbs (D2 c)) (e : Name × Name) :
    e ∈ st.edges ↔ PE c e := by
  rw [h.edges]
  have hnt : ∀ x t, c.ty? x = some t → ¬ VR.isTie x := fun x t ht => hc.not_tie (has_of_ty? ht)
  constructor
  · rintro ⟨hce, hd⟩
    rcases hd with (hd | hd) | ⟨_, hd⟩
    · exfalso
      rcases hce with hce | ⟨t, ht, h1, _⟩
      · exact hc.ws.noFanin e.1 e.2 hce "input" hd (by decide)
      · rw [hd] at h1; injection h1 with h1; rw [← h1] at ht; exact absurd ht (by decide)
    · rcases hce with hce | ⟨t, ht, h1, _⟩
      · exact ⟨hce, Or.inl hd⟩
      · exfalso
        rcases hd with hd | hd <;> (rw [hd] at h1; injection h1 with h1; rw [← h1] at ht; exact absurd ht (by decide))
    · rcases hce with hce | ⟨t, ht, _, h1⟩
      · exact ⟨hce, Or.inr hd⟩
      · exact absurd ((VR.isTie_iff _).2 ⟨t, ht, h1⟩) (hnt _ _ hd)
  · rintro ⟨he, hp⟩
    refine ⟨Or.inl he, ?_⟩
    rcases hp with hp | hp
    · exact Or.inl (Or.inr hp)
    · exact Or.inr ⟨Or.inr (Or.inr hp), hp⟩

/-- the load of a pin wire has a single driver -/
theorem pe_single (hc : VR.Wr c) {e : Name × Name} (he : PE c e) {u : Name} (hu : PE c (u, e.2)) : u = e.1 := by
  obtain ⟨h1, hp⟩ := he
  rcases hp with hp | hp
  · rcases hp with hp | hp
    · exact hc.ws.single e.2 "bb_input" hp (by decide) u e.1 hu.1 h1
    · exact absurd (hc.ws.noFanin e.1 e.2 h1 "bb_output" hp) (by simp)
  · exact hc.ws.single e.2 "buf" (hc.ws.bbOut e.1 e.2 h1 hp).1 (by decide) u e.1 hu.1 h1

/-- type of a node of the state after the instance statements -/
theorem st_ty (_hc : VR.Wr c) {st : Circuit} (h : VR.RInv c st c.bbs (D2 c)) (hs : Sup (D2 c) st) {x : Name} {a : Attr}
    (ha : st.attr? x = some a) (ht : ¬ VR.isTie x) :
    a.ty = some "input" ∨ a.ty = some "bb_input" ∨ a.ty = some "bb_output" ∨ a.ty = some "buf" := by
  by_cases hd : D2 c x
  · have := h.dty x hd
    rw [ty_of_attr ha] at this
    rcases hd with hd | hd | hd
    · rw [VR.fty_of hd (by decide)] at this; exact Or.inl this
    · rw [VR.fty_of hd (by decide)] at this; exact Or.inr (Or.inl this)
    · rw [VR.fty_of hd (by decide)] at this; exact Or.inr (Or.inr (Or.inl this))
  · have := hs x a ha hd ht
    rw [this]
    exact Or.inr (Or.inr (Or.inr rfl))

theorem gate_single {t : String} (ht : t = "buf" ∨ t = "bb_input") {l : List Name} {v : Val} {b : Bool}
    (h : gateFn t (l.map v) = some b) : ∃ u, l = [u] ∧ b = v u := by
  match l, h with
  | [], h => rcases ht with rfl | rfl <;> simp [gateFn] at h
  | [u], h =>
    refine ⟨u, rfl, ?_⟩
    rcases ht with rfl | rfl <;> (simp [gateFn] at h; exact h.symm)
  | _ :: _ :: _, h => rcases ht with rfl | rfl <;> simp [gateFn] at h

theorem gate_none {t : String} (ht : t = "input" ∨ t = "bb_output") (l : List Bool) : gateFn t l = none := by
  rcases ht with rfl | rfl <;> simp [gateFn]

/-- in every consistent valuation of the state after the instance statements the pin wires carry their value -/
theorem sem_init (hc : VR.Wr c) {st : Circuit} (h : VR.RInv c st c.bbs (D2 c)) (hs : Sup (D2 c) st)
    (v : Val) (hv : Consistent st v) (e : Name × Name) (he : PE c e) : v e.2 = v e.1 := by
  have hst := (st_edges hc h e).2 he
  obtain ⟨a, ha⟩ := Limit.attr_of_has (h.wf.closed e hst).2
  have hcx : c.has e.2 = true := (hc.ws.closed e.1 e.2 he.1).2
  have hfi : ∀ u, (u, e.2) ∈ st.edges ↔ u ∈ [e.1] := by
    intro u
    rw [List.mem_singleton, st_edges hc h]
    constructor
    · exact fun hu => pe_single hc he hu
    · rintro rfl; exact he
  have hty : a.ty = some "bb_input" ∨ a.ty = some "buf" := by
    rcases he.2 with hp | hp
    · have hbi : c.ty? e.2 = some "bb_input" := by
        rcases hp with hp | hp
        · exact hp
        · exact absurd (hc.ws.noFanin e.1 e.2 he.1 "bb_output" hp) (by simp)
      have := h.dty e.2 (Or.inr (Or.inl hbi))
      rw [ty_of_attr ha, VR.fty_of hbi (by decide)] at this
      exact Or.inl this
    · have hb := (hc.ws.bbOut e.1 e.2 he.1 hp).1
      have hd : ¬ D2 c e.2 := by
        rintro (h1 | h1 | h1) <;> (rw [hb] at h1; injection h1 with h1; exact absurd h1 (by decide))
      have := hs e.2 a ha hd (hc.not_tie hcx)
      rw [this]
      exact Or.inr rfl
  rcases hty with hty | hty
  · exact Arith.node_val hv h.wf.edgesNodup (attr?_mem ha) hty [e.1] (by simp) hfi (by simp [gateFn])
  · exact Arith.node_val hv h.wf.edgesNodup (attr?_mem ha) hty [e.1] (by simp) hfi (by simp [gateFn])

/-- every valuation in which the pin wires carry their value is consistent for the state after the instance
    statements -/
theorem bi_init (hc : VR.Wr c) {st : Circuit} (h : VR.RInv c st c.bbs (D2 c)) (hs : Sup (D2 c) st) :
    BI (done0 c) st := by
  intro v h0 h1 hd
  refine ⟨v, ?_, fun _ _ => rfl⟩
  have hpe : ∀ e, PE c e → v e.2 = v e.1 := by
    intro e he
    exact hd (e.2, Expr.id e.1) (List.mem_map.2 ⟨e, (mem_pinEdges c e).2 he, rfl⟩)
  intro p hp t ht b hb
  have ha : st.attr? p.1 = some p.2 := attr?_of_mem h.wf.nodup hp
  by_cases hti : VR.isTie p.1
  · obtain ⟨t', htc, hta⟩ := tie_attr_ty h hti
    rw [ha] at hta
    injection hta with hta
    rw [hta] at ht
    injection ht with ht
    subst ht
    rcases hti with e | e | e
    · have := h.tie "0" (by decide)
      have e' : ("tie_" ++ "0" : String) = "tie_0" := by decide
      rw [e', ← e, ha, hta] at this
      injection this with this
      injection this with this _
      injection this with this
      rw [this, Arith.gate_zero] at hb
      injection hb with hb
      rw [e, h0, hb]
    · have := h.tie "1" (by decide)
      have e' : ("tie_" ++ "1" : String) = "tie_1" := by decide
      rw [e', ← e, ha, hta] at this
      injection this with this
      injection this with this _
      injection this with this
      rw [this, VR.gate_one] at hb
      injection hb with hb
      rw [e, h1, hb]
    · have := h.tie "x" (by decide)
      have e' : ("tie_" ++ "x" : String) = "tie_x" := by decide
      rw [e', ← e, ha, hta] at this
      injection this with this
      injection this with this _
      injection this with this
      rw [this, VR.gate_x] at hb
      cases hb
  · rcases st_ty hc h hs ha hti with h2 | h2 | h2 | h2
    · rw [ht] at h2; injection h2 with h2
      rw [gate_none (Or.inl h2)] at hb; cases hb
    · rw [ht] at h2; injection h2 with h2
      obtain ⟨u, hl, hbu⟩ := gate_single (Or.inr h2) hb
      have hu : (u, p.1) ∈ st.edges := mem_fanin.1 (by rw [hl]; simp)
      rw [hbu]
      exact hpe (u, p.1) ((st_edges hc h _).1 hu)
    · rw [ht] at h2; injection h2 with h2
      rw [gate_none (Or.inr h2)] at hb; cases hb
    · rw [ht] at h2; injection h2 with h2
      obtain ⟨u, hl, hbu⟩ := gate_single (Or.inl h2) hb
      have hu : (u, p.1) ∈ st.edges := mem_fanin.1 (by rw [hl]; simp)
      rw [hbu]
      exact hpe (u, p.1) ((st_edges hc h _).1 hu)

/-- the forward invariant after the instance statements -/
theorem fi_init (hc : VR.Wr c) (hns : ∀ p ∈ c.nodes, ¬ IsSyn p.1) {ord : Ord} (hord : OrdOK ord) {st : TState}
    (h : VR.RInv c st.c c.bbs (D2 c)) (hg : st.gateExprs = []) (hs : Sup (D2 c) st.c)
    (todo : List (Name × Expr)) (htodo : ∀ a ∈ todo, Asg c a.1) :
    FI' (Dn c) (VR.PinTy c) (ord c.inputs) st.c todo (done0 c) st := by
  refine ⟨si_init hc hns hord h, (fun g hg' => by rw [hg] at hg'; cases hg'), ?_, ?_, ?_⟩
  · intro a ha
    obtain ⟨t, hty, hti, hbi, hbo, hnp⟩ := htodo a ha
    have hcx : c.has a.1 = true := has_of_ty? hty
    have hd : ¬ D2 c a.1 := by
      rintro (h1 | h1 | h1) <;> (rw [hty] at h1; injection h1 with h1)
      · exact hti h1
      · exact hbi h1
      · exact hbo h1
    constructor
    · intro hh
      obtain ⟨a', ha'⟩ := Limit.attr_of_has hh
      rw [ha', hs a.1 a' ha' hd (hc.not_tie hcx)]
    · intro e he he2
      obtain ⟨h1, hp⟩ := (st_edges hc h e).1 he
      rcases hp with hp | hp
      · rw [he2] at hp
        rcases hp with hp | hp <;> (rw [hty] at hp; injection hp with hp)
        · exact hbi hp
        · exact hbo hp
      · have : (e.1, a.1) ∈ c.edges := by rw [← he2]; exact h1
        exact hnp e.1 this hp
  · intro v hv a ha
    obtain ⟨e, he, rfl⟩ := List.mem_map.1 ha
    exact sem_init hc h hs v hv e ((mem_pinEdges c e).1 he)
  · intro a ha
    obtain ⟨e, he, rfl⟩ := List.mem_map.1 ha
    exact (h.wf.closed e ((st_edges hc h e).2 ((mem_pinEdges c e).1 he))).2

end VBB
end CG
