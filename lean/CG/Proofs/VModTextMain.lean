/- C14 (text level, module extraction): the full reader on the writer's text is `parseNetlist` of that text -/
import CG.Proofs.VModTextRead
import CG.Proofs.VModTextRunMod
namespace CG
namespace VMT
open Verilog VX

/-- on the text of a module of the writer's shape the module-extraction regular expression returns the whole module
    (without the final newline), which lexes to the same tokens -/
theorem read_render (wm : WModule) (h : WOK wm) (bbs : List BBox) (ord' : Ord) :
    Verilog.read (render wm) wm.name bbs ord' = parseNetlist (render wm) bbs ord' :=
  read_of_shape wm h bbs ord' (render_shape wm h) (render_unique wm h)

/-- the same for the text `write` returns -/
theorem read_write (c : Circuit) (beh : Bool) (ord ord' : Ord) (hord : OrdOK ord) (hc : VR.Wr c) (hn : NOK c)
    (hio : c.inputs ≠ [] ∨ c.outputs ≠ []) (hpin : ∀ q ∈ c.bbs, q.2.ins ++ q.2.outs ≠ [])
    (bbs : List BBox) (t : String) (h : write c beh ord = .ok t) :
    Verilog.read t c.name bbs ord' = parseNetlist t bbs ord' := by
  unfold write at h
  cases hw : toWModule c beh ord with
  | error e => rw [hw] at h; cases h
  | ok wm =>
    rw [hw] at h
    have ht : render wm = t := by injection h
    subst ht
    have hwok := wok_of_write c beh ord hord hc hn hio hpin wm hw
    rw [← (VR.write_decls' c beh ord hord hc wm hw).1]
    exact read_render wm hwok bbs ord'

end VMT
end CG
