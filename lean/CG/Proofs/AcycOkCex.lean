/- C18 total correctness: counterexamples.  `C18.acyclic_unroll_ok` as first stated (lint-clean, blackbox-free, no
   self-loop, addable names, no synthesised-name clash) is false: the call still raises ValueError when
   * a node has type `bb_output` (it is a start point, but not an input of the copy: `add_subcircuit` rejects the
     connection map)                                                                      — `cexBBO`
   * an output has type `bb_input` (`connect` refuses a blackbox input pin as a driver of the output buffer) — `cexBBI`
   * a node name contains a dot (the final `lint` looks for the blackbox instance before the dot)  — `cexDot`
   and, for `C18.acyclic_unroll_ok_needs_hclash`, when an input is named like a node of a copy — `cexClash`. -/
import CG.Props.C18
import CG.Proofs.ArithNames
set_option linter.unusedSimpArgs false
set_option linter.unusedVariables false
namespace CG
namespace AU
open Circuit Query

def cexBBO : Circuit := { nodes := [("q", { ty := some "bb_output", out := some false })] }

def cexBBI : Circuit :=
  { nodes := [("i", { ty := some "input", out := some false }), ("b", { ty := some "bb_input", out := some true })],
    edges := [("i", "b")] }

def cexDot : Circuit := { nodes := [("p.q", { ty := some "input", out := some false })] }

def cexClash : Circuit :=
  { nodes := [("a", { ty := some "input", out := some false }), ("c0_a", { ty := some "input", out := some false })] }

theorem ordOK_id : OrdOK id := fun l => List.Perm.refl l

/-! ### the four circuits are good -/

theorem cexBBO_has {x : Name} (h : cexBBO.has x = true) : x = "q" := by
  simp [Circuit.has, cexBBO] at h
  exact h.symm

theorem cexBBI_has {x : Name} (h : cexBBI.has x = true) : x = "i" ∨ x = "b" := by
  simp [Circuit.has, cexBBI] at h
  rcases h with h | h
  · exact Or.inl h.symm
  · exact Or.inr h.symm

theorem cexDot_has {x : Name} (h : cexDot.has x = true) : x = "p.q" := by
  simp [Circuit.has, cexDot] at h
  exact h.symm

theorem cexClash_has {x : Name} (h : cexClash.has x = true) : x = "a" ∨ x = "c0_a" := by
  simp [Circuit.has, cexClash] at h
  rcases h with h | h
  · exact Or.inl h.symm
  · exact Or.inr h.symm

theorem cexBBO_good : C18.Good cexBBO := by
  refine ⟨⟨⟨by decide, by decide, by decide⟩, by decide, ?_, ?_, ?_, by decide, by decide⟩, rfl, by decide⟩
  all_goals
    intro n t ht hm
    obtain rfl := cexBBO_has (has_of_ty? ht)
    have : t = "bb_output" := by
      have h : cexBBO.ty? "q" = some "bb_output" := by decide
      rw [h] at ht; injection ht with ht; exact ht.symm
    subst this
    first | exact absurd hm (by decide) | decide

theorem cexBBI_good : C18.Good cexBBI := by
  refine ⟨⟨⟨by decide, by decide, by decide⟩, by decide, ?_, ?_, ?_, by decide, by decide⟩, rfl, by decide⟩
  all_goals
    intro n t ht hm
    rcases cexBBI_has (has_of_ty? ht) with rfl | rfl
    · have : t = "input" := by
        have h : cexBBI.ty? "i" = some "input" := by decide
        rw [h] at ht; injection ht with ht; exact ht.symm
      subst this
      first | exact absurd hm (by decide) | decide
    · have : t = "bb_input" := by
        have h : cexBBI.ty? "b" = some "bb_input" := by decide
        rw [h] at ht; injection ht with ht; exact ht.symm
      subst this
      first | exact absurd hm (by decide) | decide

theorem cexDot_good : C18.Good cexDot := by
  refine ⟨⟨⟨by decide, by decide, by decide⟩, by decide, ?_, ?_, ?_, by decide, by decide⟩, rfl, by decide⟩
  all_goals
    intro n t ht hm
    obtain rfl := cexDot_has (has_of_ty? ht)
    have : t = "input" := by
      have h : cexDot.ty? "p.q" = some "input" := by decide
      rw [h] at ht; injection ht with ht; exact ht.symm
    subst this
    first | exact absurd hm (by decide) | decide

theorem cexClash_good : C18.Good cexClash := by
  refine ⟨⟨⟨by decide, by decide, by decide⟩, by decide, ?_, ?_, ?_, by decide, by decide⟩, rfl, by decide⟩
  all_goals
    intro n t ht hm
    rcases cexClash_has (has_of_ty? ht) with rfl | rfl
    · have : t = "input" := by
        have h : cexClash.ty? "a" = some "input" := by decide
        rw [h] at ht; injection ht with ht; exact ht.symm
      subst this
      first | exact absurd hm (by decide) | decide
    · have : t = "input" := by
        have h : cexClash.ty? "c0_a" = some "input" := by decide
        rw [h] at ht; injection ht with ht; exact ht.symm
      subst this
      first | exact absurd hm (by decide) | decide

/-! ### their names are addable and (for the first three) clash with no synthesised name -/

theorem cexBBO_names : ∀ p ∈ cexBBO.nodes, p.1 ≠ "" ∧ Circuit.isDigit0 p.1 = false := by decide
theorem cexBBI_names : ∀ p ∈ cexBBI.nodes, p.1 ≠ "" ∧ Circuit.isDigit0 p.1 = false := by decide
theorem cexDot_names : ∀ p ∈ cexDot.nodes, p.1 ≠ "" ∧ Circuit.isDigit0 p.1 = false := by decide
theorem cexClash_names : ∀ p ∈ cexClash.nodes, p.1 ≠ "" ∧ Circuit.isDigit0 p.1 = false := by decide

open Arith in
theorem cexBBO_clash :
    (∀ x f, cexBBO.has x = true → cexBBO.has f = true → x ≠ "aux_in_" ++ f) ∧
    (∀ x y, cexBBO.has x = true → (cexBBO.has y = true ∨ ∃ f, cexBBO.has f = true ∧ y = "aux_in_" ++ f) → ∀ i : Nat,
      x ≠ "c" ++ toString i ++ "_" ++ y) := by
  refine ⟨?_, ?_⟩
  · intro x f hx _
    obtain rfl := cexBBO_has hx
    name_ne
  · intro x y hx _ i
    obtain rfl := cexBBO_has hx
    name_ne

open Arith in
theorem cexBBI_clash :
    (∀ x f, cexBBI.has x = true → cexBBI.has f = true → x ≠ "aux_in_" ++ f) ∧
    (∀ x y, cexBBI.has x = true → (cexBBI.has y = true ∨ ∃ f, cexBBI.has f = true ∧ y = "aux_in_" ++ f) → ∀ i : Nat,
      x ≠ "c" ++ toString i ++ "_" ++ y) := by
  refine ⟨?_, ?_⟩
  · intro x f hx _
    rcases cexBBI_has hx with rfl | rfl <;> name_ne
  · intro x y hx _ i
    rcases cexBBI_has hx with rfl | rfl <;> name_ne

open Arith in
theorem cexDot_clash :
    (∀ x f, cexDot.has x = true → cexDot.has f = true → x ≠ "aux_in_" ++ f) ∧
    (∀ x y, cexDot.has x = true → (cexDot.has y = true ∨ ∃ f, cexDot.has f = true ∧ y = "aux_in_" ++ f) → ∀ i : Nat,
      x ≠ "c" ++ toString i ++ "_" ++ y) := by
  refine ⟨?_, ?_⟩
  · intro x f hx _
    obtain rfl := cexDot_has hx
    name_ne
  · intro x y hx _ i
    obtain rfl := cexDot_has hx
    name_ne

/-! ### which of the three added hypotheses each circuit satisfies -/

theorem cexBBO_others : (∀ p ∈ cexBBO.nodes, hasDot p.1 = false) ∧
    (∀ o ∈ cexBBO.outputs, cexBBO.ty? o ≠ some "bb_input") := by decide

theorem cexBBI_others : (∀ p ∈ cexBBI.nodes, hasDot p.1 = false) ∧
    (∀ p ∈ cexBBI.nodes, p.2.ty ≠ some "bb_output") := by decide

theorem cexDot_others : (∀ p ∈ cexDot.nodes, p.2.ty ≠ some "bb_output") ∧
    (∀ o ∈ cexDot.outputs, cexDot.ty? o ≠ some "bb_input") := by decide

theorem cexClash_others : (∀ p ∈ cexClash.nodes, hasDot p.1 = false) ∧
    (∀ p ∈ cexClash.nodes, p.2.ty ≠ some "bb_output") ∧
    (∀ o ∈ cexClash.outputs, cexClash.ty? o ≠ some "bb_input") := by decide

/-! ### non-vacuity: the latch of `CG/Props/C18.lean` satisfies every hypothesis of the corrected statement -/

theorem latch_has {x : Name} (h : C18.latch.has x = true) : x = "s" ∨ x = "r" ∨ x = "q" ∨ x = "qn" := by
  simp [Circuit.has, C18.latch] at h
  rcases h with h | h | h | h
  · exact Or.inl h.symm
  · exact Or.inr (Or.inl h.symm)
  · exact Or.inr (Or.inr (Or.inl h.symm))
  · exact Or.inr (Or.inr (Or.inr h.symm))

theorem latch_good : C18.Good C18.latch := by
  have ty_cases : ∀ n t, C18.latch.ty? n = some t →
      (n = "s" ∧ t = "input") ∨ (n = "r" ∧ t = "input") ∨ (n = "q" ∧ t = "nor") ∨ (n = "qn" ∧ t = "nor") := by
    intro n t ht
    obtain ⟨p, hp, rfl, hpt⟩ := Tseitin.mem_of_ty C18.latch n t ht
    simp only [C18.latch, List.mem_cons, List.not_mem_nil, or_false] at hp
    rcases hp with rfl | rfl | rfl | rfl <;> cases hpt <;> simp
  refine ⟨⟨⟨by decide, by decide, by decide⟩, by decide, ?_, ?_, ?_, by decide, by decide⟩, rfl, by decide⟩
  all_goals
    intro n t ht hm
    rcases ty_cases n t ht with ⟨rfl, rfl⟩ | ⟨rfl, rfl⟩ | ⟨rfl, rfl⟩ | ⟨rfl, rfl⟩ <;>
      first | exact absurd hm (by decide) | decide

open Arith in
theorem latch_clash :
    (∀ x f, C18.latch.has x = true → C18.latch.has f = true → x ≠ "aux_in_" ++ f) ∧
    (∀ x y, C18.latch.has x = true →
      (C18.latch.has y = true ∨ ∃ f, C18.latch.has f = true ∧ y = "aux_in_" ++ f) → ∀ i : Nat,
      x ≠ "c" ++ toString i ++ "_" ++ y) := by
  refine ⟨?_, ?_⟩
  · intro x f hx _
    rcases latch_has hx with rfl | rfl | rfl | rfl <;> name_ne
  · intro x y hx _ i
    rcases latch_has hx with rfl | rfl | rfl | rfl <;> name_ne

theorem latch_others : (∀ p ∈ C18.latch.nodes, p.1 ≠ "" ∧ Circuit.isDigit0 p.1 = false) ∧
    (∀ p ∈ C18.latch.nodes, hasDot p.1 = false) ∧ (∀ p ∈ C18.latch.nodes, p.2.ty ≠ some "bb_output") ∧
    (∀ o ∈ C18.latch.outputs, C18.latch.ty? o ≠ some "bb_input") := by decide

/-- the node-list form of "no node has type `bb_output`" -/
theorem noBBO_of_nodes (c : Circuit) (h : ∀ p ∈ c.nodes, p.2.ty ≠ some "bb_output") :
    ∀ n, c.ty? n ≠ some "bb_output" := by
  intro n hn
  obtain ⟨p, hp, _, hpt⟩ := Tseitin.mem_of_ty c n _ hn
  exact h p hp hpt

/-! ### the call raises ValueError -/

def isVE : E Circuit → Bool
  | .error .valueError => true
  | _ => false

theorem isVE_eq {r : E Circuit} (h : isVE r = true) : r = .error .valueError := by
  cases r with
  | ok a => cases h
  | error e => cases e <;> first | rfl | cases h

theorem cexBBO_fails : Tx.acyclicUnroll cexBBO id id = .error .valueError := isVE_eq (by decide +kernel)
theorem cexBBI_fails : Tx.acyclicUnroll cexBBI id id = .error .valueError := isVE_eq (by decide +kernel)
theorem cexDot_fails : Tx.acyclicUnroll cexDot id id = .error .valueError := isVE_eq (by decide +kernel)
theorem cexClash_fails : Tx.acyclicUnroll cexClash id id = .error .valueError := isVE_eq (by decide +kernel)

end AU
end CG
