/- C14 (text level, module extraction) helper: the pattern parser on a run of identifier characters -/
import CG.Proofs.VModTextParseMono
namespace CG
namespace VMT
open Regex

/-- identifier character -/
def IdC (c : Char) : Prop := Verilog.isLetter c = true ∨ Verilog.isDigit c = true ∨ c = '_'

instance (c : Char) : Decidable (IdC c) := by unfold IdC; infer_instance

theorem IdC.ne {c : Char} (hc : IdC c) :
    c ≠ '(' ∧ c ≠ '[' ∧ c ≠ '.' ∧ c ≠ '\\' ∧ c ≠ '*' ∧ c ≠ '+' ∧ c ≠ '?' ∧ c ≠ ')' ∧ c ≠ '|' := by
  refine ⟨?_, ?_, ?_, ?_, ?_, ?_, ?_, ?_, ?_⟩ <;> (rintro rfl; revert hc; decide)

/-- the rest does not start with a quantifier -/
def NoQ (rest : List Char) : Prop := ∀ r, rest ≠ '*' :: r ∧ rest ≠ '+' :: r ∧ rest ≠ '?' :: r

theorem parseAtom_lit (f : Nat) {c : Char} (hc : IdC c) (rest : List Char) (g : Nat) :
    parseAtom (f + 1) ⟨c :: rest, g⟩ = some (BenchText.ch c, ⟨rest, g⟩) := by
  obtain ⟨h1, h2, h3, h4, h5, h6, h7, h8, h9⟩ := hc.ne
  rw [parseAtom.eq_2]
  simp only []
  split
  all_goals (rename_i heq; simp at heq)
  all_goals first | (exfalso; simp_all; done) | skip
  simp_all [BenchText.ch]

theorem parseQuant_noq (f : Nat) {st st1 : PState} {a : Re} (h : parseAtom f st = some (a, st1)) (hq : NoQ st1.rest) :
    parseQuant (f + 1) st = some (a, st1) := by
  rw [parseQuant.eq_2, h]
  simp only [Option.bind_eq_bind, Option.bind_some]
  split
  all_goals first | (rename_i heq; exfalso; have := hq; simp_all [NoQ]; done) | rfl

theorem parseSeq_cons (f : Nat) {st st1 st2 : PState} {a b : Re} (h0 : ∀ r, st.rest ≠ [] ∧ st.rest ≠ '|' :: r ∧ st.rest ≠ ')' :: r)
    (h : parseQuant f st = some (a, st1)) (h2 : parseSeq f st1 = some (b, st2)) (hb : b ≠ Re.eps) :
    parseSeq (f + 1) st = some (Re.seq a b, st2) := by
  rw [parseSeq.eq_2]
  split
  all_goals first | (rename_i heq; exfalso; have := h0; simp_all; done) | skip
  rw [h]
  simp only [Option.bind_eq_bind, Option.bind_some, h2]
  cases b <;> simp_all

theorem parseSeq_lit_step (f : Nat) {c : Char} (hc : IdC c) {rest : List Char} (hq : NoQ rest) {g : Nat} {b : Re} {st2 : PState}
    (h2 : parseSeq (f + 2) ⟨rest, g⟩ = some (b, st2)) (hb : b ≠ Re.eps) :
    parseSeq (f + 3) ⟨c :: rest, g⟩ = some (Re.seq (BenchText.ch c) b, st2) := by
  obtain ⟨h1, _, _, _, _, _, _, h8, h9⟩ := hc.ne
  refine parseSeq_cons (f + 2) ?_ (parseQuant_noq (f + 1) (parseAtom_lit f hc rest g) hq) h2 hb
  intro r
  simp [h8, h9]

theorem IdC.noQ_cons {c : Char} (hc : IdC c) (rest : List Char) : NoQ (c :: rest) := by
  obtain ⟨_, _, _, _, h5, h6, h7, _, _⟩ := hc.ne
  intro r
  simp [h5, h6, h7]

theorem litThen_ne_eps (w : List Char) {R : Re} (hR : R ≠ Re.eps) : litThen w R ≠ Re.eps := by
  cases w with
  | nil => exact hR
  | cons c w => simp [litThen]

theorem parseSeq_litThen (f : Nat) {tail : List Char} (hq : NoQ tail) {g : Nat} {R : Re} {st2 : PState}
    (h2 : parseSeq (f + 2) ⟨tail, g⟩ = some (R, st2)) (hR : R ≠ Re.eps) :
    ∀ w : List Char, (∀ c ∈ w, IdC c) →
      parseSeq (f + 2 + w.length) ⟨w ++ tail, g⟩ = some (litThen w R, st2) := by
  intro w
  induction w with
  | nil => intro _; simpa [litThen] using h2
  | cons c w ih =>
    intro hw
    have hc : IdC c := hw c (by simp)
    have hw' : ∀ c ∈ w, IdC c := fun d hd => hw d (by simp [hd])
    have hq' : NoQ (w ++ tail) := by
      cases w with
      | nil => simpa using hq
      | cons d w => exact (hw' d (by simp)).noQ_cons _
    have ih' := ih hw'
    have e : f + 2 + w.length = (f + w.length) + 2 := by omega
    rw [e] at ih'
    have := parseSeq_lit_step (f + w.length) hc hq' ih' (litThen_ne_eps w hR)
    have e2 : f + 2 + (c :: w).length = f + w.length + 3 := by simp; omega
    rw [e2]
    exact this

end VMT
end CG
