/- C17 (super-circuit) helpers, part 7: the whole loop over the supergates; `superCircuit` succeeds and is described -/
import CG.Proofs.SGSuperBuildD
namespace CG
namespace SGSuper
namespace Build
open Supergates SGA Circuit

theorem kept_cons (p : Found × Circuit) (ms : List (Found × Circuit)) :
    kept (p :: ms) = if (internal p.2).isEmpty = false then p :: kept ms else kept ms := by
  unfold kept
  rw [List.filter_cons]
  cases (internal p.2).isEmpty <;> rfl

theorem steps_desc (c2 : Circuit) (hN : NamesOK c2) (ord : Ord) (hord : OrdOK ord) :
    ∀ (ms Kd : List (Found × Circuit)) (s : Circuit),
      (∀ q ∈ Kd ++ kept ms, SGOk c2 q) → ((Kd ++ kept ms).map (·.1.head)).Nodup → MixDesc c2 [] Kd s →
      ∃ s', ms.foldlM (superStep ord) s = .ok s' ∧ MixDesc c2 [] (Kd ++ kept ms) s' := by
  intro ms
  induction ms with
  | nil =>
    intro Kd s _ _ D
    refine ⟨s, rfl, ?_⟩
    have : kept [] = [] := rfl
    rw [this, List.append_nil]
    exact D
  | cons p ms ih =>
    intro Kd s hok hnd D
    rw [List.foldlM_cons, kept_cons] at *
    by_cases hk : (internal p.2).isEmpty = false
    · rw [if_pos hk] at hok hnd ⊢
      have e : Kd ++ p :: kept ms = (Kd ++ [p]) ++ kept ms := by rw [List.append_assoc]; rfl
      rw [e] at hok hnd ⊢
      obtain ⟨s1, e1, D1⟩ := step_kept c2 hN ord hord Kd p s
        (fun q hq => hok q (List.mem_append_left _ hq))
        (by
          rw [List.map_append] at hnd
          exact (List.nodup_append.mp hnd).1) hk D
      rw [e1]
      exact ih (Kd ++ [p]) s1 hok hnd D1
    · rw [if_neg hk] at hok hnd ⊢
      have hk' : (internal p.2).isEmpty = true := by simpa using hk
      have e1 : superStep ord s p = .ok s := by
        unfold superStep
        simp only [hk', if_true]
        rfl
      rw [e1]
      exact ih Kd s hok hnd D

theorem superCircuit_desc (c2 : Circuit) (hwf : WF c2) (hN : NamesOK c2) (ord : Ord) (hord : OrdOK ord) (o : Name)
    (hout : c2.outputs = [o]) (ms : List (Found × Circuit))
    (hok : ∀ q ∈ kept ms, SGOk c2 q) (hnd : ((kept ms).map (·.1.head)).Nodup) :
    ∃ s, superCircuit c2 ord ms = .ok s ∧ MixDesc c2 [] (kept ms) s := by
  obtain ⟨s0, e0, D0⟩ := base_desc c2 hwf hN ord hord o hout
  obtain ⟨s, e, D⟩ := steps_desc c2 hN ord hord ms [] s0 (by simpa using hok) (by simpa using hnd) D0
  refine ⟨s, ?_, by simpa using D⟩
  rw [superCircuit_eq, e0]
  exact e

end Build
end SGSuper
end CG
