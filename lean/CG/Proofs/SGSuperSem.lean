/- C17 (super-circuit), semantic half: from the structural description of the completely filled super-circuit to the
   input/output equivalence with the fan-in-limited circuit. -/
import CG.Proofs.SGSuperSemC
set_option linter.unusedSectionVars false
set_option linter.unusedVariables false
set_option linter.unusedSimpArgs false
namespace CG
namespace SGSuper
open Supergates SGA

/-! ### from the circuit to the super-circuit -/

open Classical in
/-- the valuation of the super-circuit induced by a valuation of `c2`: a spliced node takes the value of its original -/
noncomputable def liftVal (K : List (Found × Circuit)) (w : Val) : Val := fun x =>
  if h : ∃ n, ∃ p, p ∈ K ∧ p.2.has n = true ∧ x = pre p.1.head n then w (Classical.choose h) else w x

section
variable {c2 full : Circuit} {K : List (Found × Circuit)}

theorem liftVal_pre (hN : NamesOK c2) (F : SGFacts c2 K) (w : Val) {p : Found × Circuit} (hp : p ∈ K) {n : Name}
    (hn : p.2.has n = true) : liftVal K w (pre p.1.head n) = w n := by
  unfold liftVal
  have h : ∃ n', ∃ q, q ∈ K ∧ q.2.has n' = true ∧ pre p.1.head n = pre q.1.head n' := ⟨n, p, hp, hn, rfl⟩
  rw [dif_pos h]
  obtain ⟨q, hq, hn', e⟩ := Classical.choose_spec h
  have := hN.preInj _ _ _ _ (F.head_c2 hp) (F.has_c2 hp hn) (F.head_c2 hq) (F.has_c2 hq hn') e
  rw [← this.2]

theorem liftVal_c2 (hN : NamesOK c2) (F : SGFacts c2 K) (w : Val) {x : Name} (hx : c2.has x = true) :
    liftVal K w x = w x := by
  unfold liftVal
  rw [dif_neg]
  rintro ⟨n, q, hq, hn, e⟩
  have := hN.preFree _ _ (F.head_c2 hq) (F.has_c2 hq hn)
  rw [← e, hx] at this
  cases this

theorem to_full (hc : LintClean c2) (hN : NamesOK c2) (F : SGFacts c2 K) (D : MixDesc c2 K [] full)
    (w : Val) (hw : Consistent c2 w) :
    ∃ v, Consistent full v ∧ (∀ x ∈ c2.inputs, v x = w x) ∧ ∀ x ∈ c2.outputs, v x = w x := by
  refine ⟨liftVal K w, ?_, fun x hx => liftVal_c2 hN F w (mem_inputs_has hx),
    fun x hx => liftVal_c2 hN F w (mem_outputs_has hx)⟩
  apply full_consistent_of hc hN F D
  · intro p hp
    rw [liftVal_c2 hN F w (F.head_c2 hp), liftVal_pre hN F w hp (internal_has (F.head_internal hp))]
  · intro p hp i hi
    rw [liftVal_c2 hN F w (F.has_c2 hp (mem_inputs_has hi)), liftVal_pre hN F w hp (mem_inputs_has hi)]
  · intro p hp n hn t ht b hb
    rw [liftVal_pre hN F w hp (internal_has hn)]
    obtain ⟨_, _, hfan⟩ := F.induced hp hn
    have hmap : (c2.fanin n).map (fun a => liftVal K w (pre p.1.head a)) = (c2.fanin n).map w := by
      apply List.map_congr_left
      intro a ha
      have hea := Q.mem_fanin.mp ((hfan a).mpr ha)
      exact liftVal_pre hN F w hp (F.edge hp hea).2.1
    rw [hmap] at hb
    exact nodeOK_of_consistent hw ht b hb

end

/-! ### from the super-circuit to the circuit -/

open Classical in
/-- the free values used to rebuild a valuation of `c2`: an unconstrained node internal to a supergate takes the value of
    its spliced copy, every other one the value of the net of that name -/
noncomputable def freeVal (K : List (Found × Circuit)) (v : Val) : Val := fun n =>
  if h : ∃ p, p ∈ K ∧ n ∈ internal p.2 then v (pre (Classical.choose h).1.head n) else v n

section
variable {c2 full : Circuit} {K : List (Found × Circuit)}

theorem freeVal_int (v : Val) {p : Found × Circuit} (hp : p ∈ K) {n : Name} (hn : n ∈ internal p.2)
    (uniq : ∀ q ∈ K, n ∈ internal q.2 → q = p) : freeVal K v n = v (pre p.1.head n) := by
  unfold freeVal
  have h : ∃ q, q ∈ K ∧ n ∈ internal q.2 := ⟨p, hp, hn⟩
  rw [dif_pos h]
  have := Classical.choose_spec h
  rw [uniq _ this.1 this.2]

theorem freeVal_not (v : Val) {n : Name} (h : ∀ p ∈ K, n ∉ internal p.2) : freeVal K v n = v n := by
  unfold freeVal
  rw [dif_neg]
  rintro ⟨p, hp, hn⟩
  exact h p hp hn

/-- a gate function that leaves a node of a lint-clean circuit unconstrained: the node is typed "x", "input" or
    "bb_output" -/
theorem ty_of_gate_none (hc : LintClean c2) {n : Name} {t : String} (ht : c2.ty? n = some t) (u : Val)
    (hg : gateFn t ((c2.fanin n).map u) = none) : t = "x" ∨ t = "input" ∨ t = "bb_output" := by
  obtain ⟨t', ht', hsup⟩ := ty_some_of_has c2 hc (Circuit.has_of_ty? ht)
  rw [ht] at ht'
  injection ht' with ht'
  subst ht'
  by_cases hx : t = "x"
  · exact Or.inl hx
  · by_cases hf : t = "input" ∨ t = "bb_output"
    · exact Or.inr hf
    · obtain ⟨b, hb⟩ := Tseitin.gateFn_total t ((c2.fanin n).map u) hsup hx hf (fun h => by
        rw [List.length_map]
        exact hc.single n t ht h)
      rw [hg] at hb
      cases hb

theorem from_full (hc : LintClean c2) (hac : Acyclic c2) (hbo : ∀ n, c2.ty? n ≠ some "bb_output")
    (hN : NamesOK c2) (F : SGFacts c2 K) (D : MixDesc c2 K [] full)
    (hxdisj : ∀ p ∈ K, ∀ q ∈ K, ∀ n, c2.ty? n = some "x" → n ∈ internal p.2 → n ∈ internal q.2 → p = q)
    (v : Val) (hv : Consistent full v) :
    ∃ w, Consistent c2 w ∧ (∀ x ∈ c2.inputs, w x = v x) ∧ ∀ x ∈ c2.outputs, w x = v x := by
  obtain ⟨w, hw⟩ := exists_step hc.toWF hac (freeVal K v)
  have hcons : Consistent c2 w := consistent_of_step hc.toWF _ w hw
  -- primary inputs keep their value
  have hin : ∀ x ∈ c2.inputs, w x = v x := by
    intro x hx
    have hty := (mem_inputs hc.nodup x).mp hx
    rw [hw x (mem_inputs_has hx), stepVal_none hty (gateFn_input _)]
    apply freeVal_not
    intro p hp hint
    obtain ⟨t, ht, hne, _⟩ := F.internal_ty hp hint
    rw [hty] at ht
    injection ht with ht
    exact hne ht.symm
  obtain ⟨rank, hrank⟩ := hac
  -- the spliced copies take the values of the originals
  have key : ∀ n, (∀ p ∈ K, n ∈ internal p.2 → v (pre p.1.head n) = w n) ∧
      (∀ p ∈ K, n ∈ p.2.inputs → v (pre p.1.head n) = w n) := by
    intro n
    induction hk : rank n using Nat.strongRecOn generalizing n with
    | _ k ih =>
      have hA : ∀ p ∈ K, n ∈ internal p.2 → v (pre p.1.head n) = w n := by
        intro p hp hint
        obtain ⟨hnc, _, hfan⟩ := F.induced hp hint
        obtain ⟨t, ht, hne, hsup⟩ := F.internal_ty hp hint
        have hmap : (c2.fanin n).map (fun a => v (pre p.1.head a)) = (c2.fanin n).map w := by
          apply List.map_congr_left
          intro a ha
          have hea := Q.mem_fanin.mp ((hfan a).mpr ha)
          have hr := hrank _ (Q.mem_fanin.mp ha)
          have hi := ih (rank a) (by rw [← hk]; exact hr) a rfl
          rcases internal_or_input (F.edge hp hea).2.1 with h | h
          · exact hi.1 p hp h
          · exact hi.2 p hp h
        rw [hw n hnc]
        cases hg : gateFn t ((c2.fanin n).map w) with
        | some b =>
          rw [stepVal_some ht hg]
          exact full_consistent_int hc hN F D hv hp hint ht (by rw [hmap]; exact hg)
        | none =>
          rw [stepVal_none ht hg]
          have htx : t = "x" := by
            rcases ty_of_gate_none hc ht w hg with h | h | h
            · exact h
            · exact absurd h hne
            · subst h; exact absurd ht (hbo n)
          subst htx
          rw [freeVal_int v hp hint (fun q hq hq' => hxdisj q hq p hp n ht hq' hint)]
      refine ⟨hA, ?_⟩
      intro p hp hi
      rw [full_consistent_in hc hN F D hv hp hi]
      rcases F.inputsDriven p hp n hi with h | ⟨q, hq, e⟩
      · exact (hin n h).symm
      · subst e
        rw [full_consistent_head hc hN F D hv hq]
        exact hA q hq (F.head_internal hq)
  refine ⟨w, hcons, hin, ?_⟩
  intro o ho
  rcases F.outputsDriven o ho with h | ⟨q, hq, e⟩
  · exact hin o h
  · subst e
    rw [full_consistent_head hc hN F D hv hq]
    exact ((key _).1 q hq (F.head_internal hq)).symm

end

/-- **the semantic half**: the completely filled super-circuit, as described by `MixDesc`, has the inputs and the
    outputs of `c2`, and the same input/output behaviour.
    `hxdisj` (added): a node typed "x" is internal to at most one kept supergate.  Without it the statement is false: an
    "x" node feeding two output gates is internal to both their supergates and is spliced twice, the two copies are
    independent in the super-circuit.  It follows from either `∀ n, c2.ty? n ≠ some "x"` or the disjointness of the
    internal sets of the kept supergates. -/
theorem equiv_of_desc (c2 full : Circuit) (K : List (Found × Circuit))
    (hc : LintClean c2) (hac : Acyclic c2) (hbo : ∀ n, c2.ty? n ≠ some "bb_output")
    (hN : NamesOK c2) (F : SGFacts c2 K) (D : MixDesc c2 K [] full)
    (hxdisj : ∀ p ∈ K, ∀ q ∈ K, ∀ n, c2.ty? n = some "x" → n ∈ internal p.2 → n ∈ internal q.2 → p = q) :
    (∀ x, x ∈ c2.inputs ↔ x ∈ full.inputs) ∧ (∀ x, x ∈ c2.outputs ↔ x ∈ full.outputs) ∧
    (∀ w, Consistent c2 w → ∃ v, Consistent full v ∧ (∀ x ∈ c2.inputs, v x = w x) ∧ ∀ x ∈ c2.outputs, v x = w x) ∧
    (∀ v, Consistent full v → ∃ w, Consistent c2 w ∧ (∀ x ∈ c2.inputs, w x = v x) ∧ ∀ x ∈ c2.outputs, w x = v x) :=
  ⟨full_inputs hc hN F D, full_outputs hc hN F D, to_full hc hN F D, from_full hc hac hbo hN F D hxdisj⟩

/-- variant without "x" nodes -/
theorem equiv_of_desc_nox (c2 full : Circuit) (K : List (Found × Circuit))
    (hc : LintClean c2) (hac : Acyclic c2) (hbo : ∀ n, c2.ty? n ≠ some "bb_output")
    (hN : NamesOK c2) (F : SGFacts c2 K) (D : MixDesc c2 K [] full) (hx : ∀ n, c2.ty? n ≠ some "x") :
    (∀ x, x ∈ c2.inputs ↔ x ∈ full.inputs) ∧ (∀ x, x ∈ c2.outputs ↔ x ∈ full.outputs) ∧
    (∀ w, Consistent c2 w → ∃ v, Consistent full v ∧ (∀ x ∈ c2.inputs, v x = w x) ∧ ∀ x ∈ c2.outputs, v x = w x) ∧
    (∀ v, Consistent full v → ∃ w, Consistent c2 w ∧ (∀ x ∈ c2.inputs, w x = v x) ∧ ∀ x ∈ c2.outputs, w x = v x) :=
  equiv_of_desc c2 full K hc hac hbo hN F D (fun _ _ _ _ n h _ _ => absurd h (hx n))

/-- variant with pairwise disjoint internal sets -/
theorem equiv_of_desc_disj (c2 full : Circuit) (K : List (Found × Circuit))
    (hc : LintClean c2) (hac : Acyclic c2) (hbo : ∀ n, c2.ty? n ≠ some "bb_output")
    (hN : NamesOK c2) (F : SGFacts c2 K) (D : MixDesc c2 K [] full)
    (hdisj : ∀ p ∈ K, ∀ q ∈ K, ∀ n, n ∈ internal p.2 → n ∈ internal q.2 → p = q) :
    (∀ x, x ∈ c2.inputs ↔ x ∈ full.inputs) ∧ (∀ x, x ∈ c2.outputs ↔ x ∈ full.outputs) ∧
    (∀ w, Consistent c2 w → ∃ v, Consistent full v ∧ (∀ x ∈ c2.inputs, v x = w x) ∧ ∀ x ∈ c2.outputs, v x = w x) ∧
    (∀ v, Consistent full v → ∃ w, Consistent c2 w ∧ (∀ x ∈ c2.inputs, w x = v x) ∧ ∀ x ∈ c2.outputs, w x = v x) :=
  equiv_of_desc c2 full K hc hac hbo hN F D (fun p hp q hq n _ h1 h2 => hdisj p hp q hq n h1 h2)

end SGSuper
end CG
