/- C03 helper: generalised success lemma for `Circuit.add` (pins / "x" nodes may be present) -/
import CG.Proofs.VRoundDefs
namespace CG
namespace VR
open Verilog Circuit

/-! ### name / bbs frames -/

theorem addEdge_name (c : Circuit) (u v : Name) : (c.addEdge u v).name = c.name := by
  unfold addEdge; split <;> rfl

theorem addEdges_inner_name (u : Name) (vs : List Name) (c : Circuit) :
    (vs.foldl (fun c v => c.addEdge u v) c).name = c.name := by
  induction vs generalizing c with
  | nil => rfl
  | cons v vs ih => simp only [List.foldl_cons]; rw [ih, addEdge_name]

theorem addEdges_name (c : Circuit) (us vs : List Name) : (c.addEdges us vs).name = c.name := by
  unfold addEdges
  induction us generalizing c with
  | nil => rfl
  | cons u us ih => simp only [List.foldl_cons]; rw [ih, addEdges_inner_name]

theorem connect_name (c : Circuit) (us vs : List Name) : (c.connect us vs).1.name = c.name := by
  rcases connect_cases c us vs with h | ⟨_, h⟩
  · rw [h]
  · rw [h]; exact addEdges_name c us vs

theorem addPlainBuf_bbs (c : Circuit) (f : Name) : (c.addPlainBuf f).1.bbs = c.bbs := by
  rcases addPlainBuf_cases c f with h | ⟨_, h⟩
  · rw [h]
  · rw [h, addNodeAttr_bbs]

theorem addPlainBuf_name (c : Circuit) (f : Name) : (c.addPlainBuf f).1.name = c.name := by
  rcases addPlainBuf_cases c f with h | ⟨_, h⟩
  · rw [h]
  · rw [h, addNodeAttr_name]

theorem addConnectedNodes_bbs (c : Circuit) (fs : List Name) : (c.addConnectedNodes fs).1.bbs = c.bbs := by
  induction fs generalizing c with
  | nil => rfl
  | cons f fs ih =>
    rw [addConnectedNodes]
    split
    · exact ih c
    · have he := addPlainBuf_bbs c f
      split
      · rename_i c' heq; rw [heq] at he; rw [ih c']; exact he
      · exact he

theorem addConnectedNodes_name (c : Circuit) (fs : List Name) : (c.addConnectedNodes fs).1.name = c.name := by
  induction fs generalizing c with
  | nil => rfl
  | cons f fs ih =>
    rw [addConnectedNodes]
    split
    · exact ih c
    · have he := addPlainBuf_name c f
      split
      · rename_i c' heq; rw [heq] at he; rw [ih c']; exact he
      · exact he

theorem addR2_bbs (c : Circuit) (a : AddArgs) (n : Name) : (addR2 c a n).1.bbs = c.bbs := by
  unfold addR2
  split
  · rw [addConnectedNodes_bbs, addNodeAttr_bbs]
  · exact addNodeAttr_bbs _ _ _

theorem addR2_name (c : Circuit) (a : AddArgs) (n : Name) : (addR2 c a n).1.name = c.name := by
  unfold addR2
  split
  · rw [addConnectedNodes_name, addNodeAttr_name]
  · exact addNodeAttr_name _ _ _

/-! ### type tables -/

theorem sup_facts {ty : String} (h : ty ∈ Expected.supported_types) (hn : ty ≠ "bb_input" ∧ ty ≠ "bb_output") :
    T.supported.contains ty = true ∧ (T.connectL 2).contains ty = false ∧ (T.connectL 3).contains ty = false ∧
    ((T.addL 0).contains ty = true → ty = "buf" ∨ ty = "not") ∧
    ((T.addL 1).contains ty = true → ty = "0" ∨ ty = "1" ∨ ty = "x" ∨ ty = "input") ∧
    ((T.connectL 0).contains ty = true → ty = "0" ∨ ty = "1" ∨ ty = "x" ∨ ty = "input") ∧
    ((T.connectL 1).contains ty = true → ty = "buf" ∨ ty = "not") := by
  rw [Limit.T_supported, Limit.T_addL0, Limit.T_addL1, Limit.T_connectL0, Limit.T_connectL1, Limit.T_connectL2,
    Limit.T_connectL3]
  obtain ⟨hn1, hn2⟩ := hn
  simp only [Expected.supported_types, Expected.addable_types, Expected.primitive_gates, List.cons_append,
    List.nil_append, List.mem_cons, List.not_mem_nil, or_false] at h
  rcases h with rfl | rfl | rfl | rfl | rfl | rfl | rfl | rfl | rfl | rfl | rfl | rfl | rfl | rfl
  all_goals first | exact absurd rfl hn1 | exact absurd rfl hn2 | decide

theorem src_facts {tu : String} (h1 : tu ≠ "bb_input") (h2 : tu ≠ "bb_output") :
    (T.connectL 2).contains tu = false ∧ (T.connectL 3).contains tu = false := by
  rw [Limit.T_connectL2, Limit.T_connectL3]
  constructor
  · simpa using h1
  · simpa using h2

/-! ### add -/

theorem add_ok_gen (t : Circuit) (a : AddArgs) (n : Name)
    (hres : (if a.uid then t.uid a.n else some a.n) = some n)
    (hredef : a.uid = false → a.allowRedef = true)
    (hname : Limit.NameOK n)
    (hty : a.ty ∈ Expected.supported_types) (hnotpin : a.ty ≠ "bb_input" ∧ a.ty ≠ "bb_output")
    (h0 : a.ty = "buf" ∨ a.ty = "not" → a.fanin.length ≤ 1 ∧ (a.fanin ≠ [] → ∀ e ∈ t.edges, e.2 ≠ n))
    (h1 : a.ty = "0" ∨ a.ty = "1" ∨ a.ty = "x" ∨ a.ty = "input" → a.fanin = [])
    (hfo : a.fanout = []) (hac : a.addConnected = true)
    (hfi : ∀ u ∈ a.fanin, u = n ∨ (∃ tu, t.ty? u = some tu ∧ tu ≠ "bb_input" ∧ tu ≠ "bb_output") ∨
      (t.has u = false ∧ Limit.NameOK u)) :
    ∃ t', t.add a = (t', .ok, n) ∧ Ternary.AddSpec t a n t' ∧ t'.bbs = t.bbs ∧ t'.name = t.name := by
  obtain ⟨f1, f2, f3, f4, f5, f6, f7⟩ := sup_facts hty hnotpin
  have e := Ternary.add_eq_addTail t a n hres hredef hname f1
    (by rintro ⟨hl, hc⟩; have := (h0 (f4 hc)).1; omega)
    (by rintro ⟨he, hc⟩; rw [h1 (f5 hc)] at he; simp at he)
  rw [e]
  have hacn : Ternary.acnList a = a.fanin := by
    unfold Ternary.acnList; rw [hac, hfo]; simp
  -- after `add_node`
  have c1_has : ∀ x, (t.addNodeAttr n { ty := some a.ty, out := some a.output }).has x = (t.has x || x == n) :=
    addNodeAttr_has t n _
  have c1_self : (t.addNodeAttr n { ty := some a.ty, out := some a.output }).attr? n =
      some { ty := some a.ty, out := some a.output } := by
    rw [addNodeAttr_attr?, if_pos rfl]; cases t.attr? n <;> rfl
  have c1_old : ∀ x, x ≠ n → (t.addNodeAttr n { ty := some a.ty, out := some a.output }).attr? x = t.attr? x :=
    fun x hx => by rw [addNodeAttr_attr?, if_neg hx]
  have c1_edges : (t.addNodeAttr n { ty := some a.ty, out := some a.output }).edges = t.edges :=
    addNodeAttr_edges t n _
  have hb2 := addR2_bbs t a n
  have hn2 := addR2_name t a n
  -- after the auto-created neighbours
  obtain ⟨c2, hc2, s2⟩ := Ternary.addR2_ok t a n (by
    intro f hf
    rw [hacn] at hf
    rcases hfi f hf with h | ⟨tu, h, _⟩ | ⟨_, h⟩
    · left; rw [c1_has, h]; simp
    · left; rw [c1_has, has_of_ty? h]; rfl
    · exact Or.inr h)
  rw [hc2] at hb2 hn2
  simp only [] at hb2 hn2
  rw [hacn] at s2
  generalize hc1 : t.addNodeAttr n { ty := some a.ty, out := some a.output } = c1 at *
  have c2n : c2.has n = true := (s2.has n).mpr (Or.inl (by rw [c1_has]; simp))
  have c2_self : c2.attr? n = some { ty := some a.ty, out := some a.output } := by
    rw [s2.attr_old n (by rw [c1_has]; simp), c1_self]
  have c2_old : ∀ x, x ≠ n → t.has x = true → c2.attr? x = t.attr? x := by
    intro x hx hh
    rw [s2.attr_old x (by rw [c1_has, hh]; rfl), c1_old x hx]
  have c2_fi : ∀ u ∈ a.fanin, c2.has u = true := fun u hu => (s2.has u).mpr (Or.inr hu)
  have c2_fi_ty : ∀ u ∈ a.fanin, ∃ tu, c2.ty? u = some tu ∧ tu ≠ "bb_input" ∧ tu ≠ "bb_output" := by
    intro u hu
    by_cases hun : u = n
    · rw [hun]
      exact ⟨a.ty, by rw [Ternary.ty_of_attr c2_self], hnotpin.1, hnotpin.2⟩
    · rcases hfi u hu with h | ⟨tu, h, h2, h3⟩ | ⟨hh', _⟩
      · exact absurd h hun
      · refine ⟨tu, ?_, h2, h3⟩
        unfold Circuit.ty? at h ⊢
        rw [c2_old u hun (has_of_ty? (by unfold Circuit.ty?; exact h))]; exact h
      · have : c2.attr? u = some Ternary.bufAttr := by
          refine s2.attr_new u ?_ hu
          rw [c1_has, hh']; simpa using hun
        exact ⟨"buf", by rw [Ternary.ty_of_attr this]; rfl, by decide, by decide⟩
  rw [addTail_eq, hc2]
  simp only [bne_self_eq_false, Bool.false_eq_true, if_false]
  -- first connect
  have hc3 : c2.connect [n] a.fanout = (c2, .ok) := by rw [hfo]; exact connect_empty_right c2 [n]
  -- second connect
  obtain ⟨c4, hc4, s4⟩ := Ternary.connect_ok c2 a.fanin [n] (by
    by_cases hfi0 : a.fanin = []
    · exact Or.inl hfi0
    · right; right
      refine Limit.connectCheck_none c2 a.fanin [n] ?_ ?_ ?_ ?_
      · intro u hu; exact c2_fi u hu
      · intro v hv; rw [List.mem_singleton] at hv; rw [hv]; exact c2n
      · intro v hv
        rw [List.mem_singleton] at hv; rw [hv]
        refine ⟨a.ty, by rw [Ternary.ty_of_attr c2_self], ?_, fun hc => ?_⟩
        · cases hc0 : (T.connectL 0).contains a.ty with
          | false => rfl
          | true => exact absurd (h1 (f6 hc0)) hfi0
        · obtain ⟨hlen, hnoin⟩ := h0 (f7 hc)
          have : c2.fanin n = [] := by
            apply Ternary.fanin_nil_of
            intro e he
            rw [s2.edges, c1_edges] at he
            exact hnoin hfi0 e he
          rw [this]; simpa using hlen
      · intro u hu
        obtain ⟨tu, h1, h2, h3⟩ := c2_fi_ty u hu
        obtain ⟨g2, g3⟩ := src_facts h2 h3
        exact ⟨tu, h1, g2, g3⟩)
  have hn43 : c4.nodes = c2.nodes := s4.nodes
  have hb4 : c4.bbs = c2.bbs := by
    have := connect_bbs c2 a.fanin [n]; rw [hc4] at this; exact this
  have hm4 : c4.name = c2.name := by
    have := connect_name c2 a.fanin [n]; rw [hc4] at this; exact this
  refine ⟨c4, ?_, ?_, by rw [hb4, hb2], by rw [hm4, hn2]⟩
  · unfold addTail3
    rw [hc3]
    simp only [bne_self_eq_false, Bool.false_eq_true, if_false]
    rw [hc4]
  · constructor
    · intro x
      rw [has_congr hn43, s2.has, c1_has, Bool.or_eq_true, beq_iff_eq]
      constructor
      · rintro ((h | h) | h)
        · exact Or.inl h
        · exact Or.inr (Or.inl h)
        · exact Or.inr (Or.inr ⟨hac, h⟩)
      · rintro (h | h | ⟨_, h⟩)
        · exact Or.inl (Or.inl h)
        · exact Or.inl (Or.inr h)
        · exact Or.inr h
    · rw [attr?_congr hn43]; exact c2_self
    · intro x hx hh; rw [attr?_congr hn43]; exact c2_old x hx hh
    · intro x hx hh hh4
      rw [attr?_congr hn43]
      rw [has_congr hn43, s2.has] at hh4
      have hc1x : c1.has x = false := by rw [c1_has, hh]; simpa using hx
      rcases hh4 with h | h
      · rw [hc1x] at h; cases h
      · exact s2.attr_new x hc1x h
    · intro e
      rw [s4.edges, s2.edges, c1_edges, hfo]
      simp only [List.mem_singleton, List.not_mem_nil, and_false, false_or]
    · intro hnd
      rw [nodeNames_congr hn43]
      apply s2.nodupN
      rw [← hc1]
      exact addNodeAttr_nodup n _ hnd
    · intro hnd
      apply s4.nodupE
      rw [s2.edges, c1_edges]
      exact hnd

end VR
end CG
