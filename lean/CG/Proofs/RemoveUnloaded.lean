/- helper lemmas for C16 (remove_unloaded): specification of the call and its consequences -/
import CG.Proofs.RUBasic
import CG.Proofs.RUInv
namespace CG
namespace RU

/-! ### the specification, for an arbitrary liveness predicate -/

theorem spec {c : Circuit} (hg : Good c) (inputs : Bool) {L : Name → Prop} (hL : IsLive c L)
    {ord : Ord} (hord : OrdOK ord) :
    ∃ rem, c.removeUnloaded inputs ord = some (restrict c rem, rem.reverse) ∧ rem.Nodup ∧
      ∀ n, n ∈ rem ↔ (c.has n = true ∧ ¬ L n ∧ Removable c inputs n) := by
  have hinit := Inv.init hg inputs hL
  obtain ⟨rem, hrun, hinv⟩ := run hg hL hord (2 * c.nodes.length + c.edges.length + 2) [] _ hinit
    (by rw [restrict_nil]; omega)
  rw [restrict_nil] at hrun
  exact ⟨rem, by rw [removeUnloaded_eq]; exact hrun, hinv.remNodup, hinv.final hg hL⟩

/-- what is known about a successful call -/
structure Post (c : Circuit) (inputs : Bool) (L : Name → Prop) (c' : Circuit) (removed : List Name) : Prop where
  nodup : removed.Nodup
  mem : ∀ n, n ∈ removed ↔ (c.has n = true ∧ ¬ L n ∧ Removable c inputs n)
  eq : c' = restrict c removed

theorem spec_post {c : Circuit} (hg : Good c) (inputs : Bool) {L : Name → Prop} (hL : IsLive c L)
    {ord : Ord} (hord : OrdOK ord) :
    ∃ c' removed, c.removeUnloaded inputs ord = some (c', removed) ∧ Post c inputs L c' removed := by
  obtain ⟨rem, h1, h2, h3⟩ := spec hg inputs hL hord
  refine ⟨restrict c rem, rem.reverse, h1, ?_, ?_, ?_⟩
  · exact (List.reverse_perm rem).nodup_iff.2 h2
  · intro n; rw [List.mem_reverse]; exact h3 n
  · exact restrict_congr c _ _ (fun n => List.mem_reverse.symm)

theorem post_of_eq {c : Circuit} (hg : Good c) {inputs : Bool} {L : Name → Prop} (hL : IsLive c L)
    {ord : Ord} (hord : OrdOK ord) {c' : Circuit} {removed : List Name}
    (h : c.removeUnloaded inputs ord = some (c', removed)) : Post c inputs L c' removed := by
  obtain ⟨c'', r, h1, hp⟩ := spec_post hg inputs hL hord
  rw [h1] at h
  cases h
  exact hp

/-- the form of `remove_unloaded_exact` -/
theorem exact_abs {c : Circuit} (hg : Good c) (inputs : Bool) {L : Name → Prop} (hL : IsLive c L)
    {ord : Ord} (hord : OrdOK ord) :
    ∃ c' removed, c.removeUnloaded inputs ord = some (c', removed) ∧ removed.Nodup ∧
      (∀ n, n ∈ removed ↔ (c.has n = true ∧ ¬ L n ∧ Removable c inputs n)) ∧
      c'.nodes = c.nodes.filter (fun p => !removed.contains p.1) ∧
      c'.edges = c.edges.filter (fun e => !removed.contains e.1 && !removed.contains e.2) ∧
      c'.bbs = c.bbs ∧ c'.name = c.name := by
  obtain ⟨c', removed, h, hp⟩ := spec_post hg inputs hL hord
  refine ⟨c', removed, h, hp.nodup, hp.mem, ?_, ?_, ?_, ?_⟩ <;> rw [hp.eq] <;> rfl

/-! ### a concrete liveness predicate -/

inductive Reach (c : Circuit) : Name → Name → Prop where
  | refl (a : Name) : Reach c a a
  | step {a b d : Name} : (a, b) ∈ c.edges → Reach c b d → Reach c a d

def Live (c : Circuit) (n : Name) : Prop :=
  ∃ s, c.has s = true ∧ Sink c s ∧ Reach c n s

theorem live_isLive (c : Circuit) : IsLive c (Live c) := by
  intro n
  constructor
  · rintro ⟨s, hs, hsink, hr⟩
    cases hr with
    | refl => exact Or.inl ⟨hs, hsink⟩
    | step he hr' => exact Or.inr ⟨_, he, s, hs, hsink, hr'⟩
  · rintro (⟨hs, hsink⟩ | ⟨b, he, s, hs, hsink, hr⟩)
    · exact ⟨n, hs, hsink, Reach.refl n⟩
    · exact ⟨s, hs, hsink, Reach.step he hr⟩

/-! ### consequences -/

theorem removed_removable {c : Circuit} {inputs : Bool} {L : Name → Prop} {c' : Circuit} {removed : List Name}
    (hp : Post c inputs L c' removed) (n : Name) (hn : n ∈ removed) : Removable c inputs n :=
  ((hp.mem n).1 hn).2.2

theorem restrict_nodup {c : Circuit} (hg : Good c) (rem : List Name) : (restrict c rem).nodeNames.Nodup :=
  List.Nodup.sublist (List.Sublist.map _ List.filter_sublist) hg.nodup

section
variable {c : Circuit} (hg : Good c) {inputs : Bool} {L : Name → Prop} (hL : IsLive c L)
  {c' : Circuit} {removed : List Name} (hp : Post c inputs L c' removed)
include hg hL hp

/-- a node that stays and has a fan-in is live -/
theorem live_of_kept_succ {m n : Name} (he : (m, n) ∈ c.edges) (hn : n ∉ removed) : L n := by
  apply Classical.byContradiction
  intro hd
  have hh := (hg.closed _ he).2
  apply hn
  exact (hp.mem n).2 ⟨hh, hd, fun hty => hd ((hL n).2 (Or.inl ⟨hh, Or.inr hty⟩)),
    Or.inr (hg.noFaninOnSources _ he)⟩

theorem pred_not_removed {m n : Name} (he : (m, n) ∈ c.edges) (hn : n ∉ removed) : m ∉ removed := by
  intro hm
  have hl := live_of_kept_succ hg hL hp he hn
  exact ((hp.mem m).1 hm).2.1 ((hL m).2 (Or.inr ⟨n, he, hl⟩))

theorem survivors (n : Name) (hn : c'.has n = true) :
    c'.attr? n = c.attr? n ∧ c'.fanin n = c.fanin n := by
  rw [hp.eq] at hn ⊢
  have hnr := ((restrict_has c removed n).1 hn).2
  refine ⟨restrict_attr c removed n hnr, ?_⟩
  simp only [Circuit.fanin, restrict, List.filter_filter]
  congr 1
  apply List.filter_congr
  rintro ⟨a, b⟩ he
  cases hb : (b == n)
  · simp
  · have hbn : b = n := by simpa using hb
    subst hbn
    have ha := pred_not_removed hg hL hp he hnr
    simp [ha, hnr]

theorem consistent (v : Val) (hv : Consistent c v) : Consistent c' v := by
  intro p hpm t ht b hb
  have hmem : p ∈ c.nodes := by
    rw [hp.eq] at hpm
    exact ((mem_restrict_nodes c removed p).1 hpm).1
  have hhas : c'.has p.1 = true := (has_iff_exists c' p.1).2 ⟨p.2, hpm⟩
  rw [(survivors hg hL hp p.1 hhas).2] at hb
  exact hv p hmem t ht b hb

theorem initList_result : initList c' inputs = [] := by
  rw [List.eq_nil_iff_forall_not_mem]
  intro n hn
  have hnd : c'.nodeNames.Nodup := by rw [hp.eq]; exact restrict_nodup hg removed
  obtain ⟨hh, h0, ho, hf, h1⟩ := (mem_initList c' hnd inputs n).1 hn
  rw [hp.eq] at hh h0 ho hf h1
  obtain ⟨hhc, hnr⟩ := (restrict_has c removed n).1 hh
  rw [restrict_ty c removed n hnr] at h0 h1
  rw [restrict_isOut c removed n hnr] at ho
  have hl : L n := by
    apply Classical.byContradiction
    intro hd
    exact hnr ((hp.mem n).2 ⟨hhc, hd, h0, h1⟩)
  rcases (hL n).1 hl with ⟨_, hs | hs⟩ | ⟨b, hb, hlb⟩
  · rw [ho] at hs; exact Bool.noConfusion hs
  · exact h0 hs
  · have hbr : b ∉ removed := fun hbr => ((hp.mem b).1 hbr).2.1 hlb
    exact hf b ((mem_restrict_edges c removed n b).2 ⟨hb, hnr, hbr⟩)

theorem idem (ord : Ord) : c'.removeUnloaded inputs ord = some (c', []) := by
  rw [removeUnloaded_eq, initList_result hg hL hp]
  exact go_nil inputs ord (2 * c'.nodes.length + c'.edges.length + 1) c' []

end

theorem order_irr {c : Circuit} {inputs : Bool} {L : Name → Prop}
    {c1 c2 : Circuit} {r1 r2 : List Name} (p1 : Post c inputs L c1 r1) (p2 : Post c inputs L c2 r2) :
    r1.Perm r2 ∧ c1 = c2 := by
  have hmem : ∀ n, n ∈ r1 ↔ n ∈ r2 := fun n => (p1.mem n).trans (p2.mem n).symm
  refine ⟨(List.perm_ext_iff_of_nodup p1.nodup p2.nodup).2 hmem, ?_⟩
  rw [p1.eq, p2.eq]
  exact restrict_congr c r1 r2 hmem

end RU
end CG
