/- C05 (`insert_registers_ok`): machine-checked counterexample to the statement as given.  `LintClean` (and even
   `C20.RegistryOK`, and `lint` itself) accept a node of type `bb_input` whose name has no dot while the registry is
   empty.  When such a node sits on a register level, `insert_registers` calls
   `add_blackbox(ff, "ff_p", {"d": "p", …})`, whose `connect("p", "ff_p.d")` raises ValueError: a `bb_input` node may
   not drive anything. -/
import CG.Tx3
import CG.Spec
import CG.Lint
import CG.Proofs.Limit
namespace CG
namespace TxOkCex

/-- `a` drives the (dot-free) `bb_input` node `p` and the buffer chain `b → o`; depths 0, 1, 1, 2 -/
def cex : Circuit :=
  { nodes := [("a", { ty := some "input", out := some false }),
              ("p", { ty := some "bb_input", out := some false }),
              ("b", { ty := some "buf", out := some false }),
              ("o", { ty := some "buf", out := some true })],
    edges := [("a", "p"), ("a", "b"), ("b", "o")] }

def cexDepths : List (Name × Nat) := [("a", 0), ("p", 1), ("b", 1), ("o", 2)]

theorem ordOK_id : OrdOK id := fun l => List.Perm.refl l

theorem cex_clean : LintClean cex :=
  Limit.lintClean_of_checks cex ⟨by decide, by decide, by decide⟩ (by decide) (by decide) (by decide)

theorem cex_nobb : cex.bbs = [] := rfl

theorem cex_acyclic : Acyclic cex :=
  ⟨fun n => if n = "a" then 0 else if n = "o" then 2 else 1, by decide⟩

theorem cex_names : ∀ p ∈ cex.nodes, p.1 ≠ "" ∧ Circuit.isDigit0 p.1 = false ∧ hasDot p.1 = false := by decide

theorem cex_fuel : cex.nodes.length + 1 ≤ 10 := by decide

theorem eq_ok_of {α : Type} [BEq α] [LawfulBEq α] {x : Except Outcome α} {d : α}
    (h : (match x with | .ok y => y == d | .error _ => false) = true) : x = .ok d := by
  cases x with
  | error e => cases h
  | ok y => simp only [beq_iff_eq] at h; rw [h]

theorem eq_valueError_of {α : Type} {x : Except Outcome α}
    (h : (match x with | .ok _ => false | .error e => e == Outcome.valueError) = true) : x = .error .valueError := by
  cases x with
  | ok y => cases h
  | error e => simp only [beq_iff_eq] at h; rw [h]

theorem cex_depths : cex.nodeNames.mapM (fun n => match Query.depth cex false [n] true id 10 with
    | .ok d => Except.ok (n, d) | .error e => .error e) = .ok cexDepths := eq_ok_of (by decide +kernel)

theorem cex_inc : Tx.roundDiv (cexDepths.foldl (fun m p => max m p.2) 0) (1 + 1) ≠ 0 := by decide

theorem cex_has_len {n : Name} (h : cex.has n = true) : n.length = 1 := by
  have : n ∈ cex.nodeNames := by
    simpa [Circuit.has, Circuit.nodeNames] using h
  simp only [cex, Circuit.nodeNames, List.map_cons, List.map_nil, List.mem_cons, List.not_mem_nil, or_false] at this
  rcases this with rfl | rfl | rfl | rfl <;> rfl

theorem cex_not_has {x : Name} (h : 1 < x.length) : cex.has x = false := by
  cases hh : cex.has x with
  | false => rfl
  | true => have := cex_has_len hh; omega

theorem cex_clash : ∀ n, cex.has n = true →
    cex.has ("ff_" ++ n) = false ∧ ∀ g, cex.has ("ff_" ++ n ++ "." ++ g) = false := by
  intro n _
  have h3 : "ff_".length = 3 := by decide
  constructor
  · apply cex_not_has
    rw [String.length_append]; omega
  · intro g
    apply cex_not_has
    rw [String.length_append, String.length_append, String.length_append]; omega

theorem cex_clk : cex.has "clk" = true → cex.ty? "clk" = some "input" := by decide

/-- … yet the call raises ValueError -/
theorem cex_fails : Tx.insertRegisters cex 1 id 10 = .error .valueError := eq_valueError_of (by decide +kernel)

/-- **`C05.insert_registers_ok` is false as stated** -/
theorem insert_registers_ok_false :
    ¬ (∀ (c : Circuit) (k : Nat) (ord : Ord), OrdOK ord → ∀ (fuel : Nat),
      LintClean c → c.bbs = [] → Acyclic c →
      (∀ p ∈ c.nodes, p.1 ≠ "" ∧ Circuit.isDigit0 p.1 = false ∧ hasDot p.1 = false) →
      c.nodes.length + 1 ≤ fuel →
      ∀ (depths : List (Name × Nat)),
      c.nodeNames.mapM (fun n => match Query.depth c false [n] true ord fuel with
        | .ok d => Except.ok (n, d) | .error e => .error e) = .ok depths →
      Tx.roundDiv (depths.foldl (fun m p => max m p.2) 0) (k + 1) ≠ 0 →
      (∀ n, c.has n = true → c.has ("ff_" ++ n) = false ∧ ∀ g, c.has ("ff_" ++ n ++ "." ++ g) = false) →
      (c.has "clk" = true → c.ty? "clk" = some "input") →
      ∃ c', Tx.insertRegisters c k ord fuel = .ok c') := by
  intro hall
  obtain ⟨c', h⟩ := hall cex 1 id ordOK_id 10 cex_clean cex_nobb cex_acyclic cex_names cex_fuel cexDepths cex_depths
    cex_inc cex_clash cex_clk
  rw [cex_fails] at h
  cases h

end TxOkCex
end CG
