/- C17 (super-circuit), semantic half, part B: the filled super-circuit read off its structural description —
   nodes, types, output flags, fan-in lists (up to order) and the input/output sets. -/
import CG.Proofs.SGSuperSemA
import CG.Proofs.TernaryAdd
set_option linter.unusedSectionVars false
set_option linter.unusedVariables false
set_option linter.unusedSimpArgs false
namespace CG
namespace SGSuper
open Supergates SGA

theorem nodup_single (a : Name) : [a].Nodup := List.nodup_cons.mpr ⟨List.not_mem_nil, List.nodup_nil⟩

section
variable {c2 full : Circuit} {K : List (Found × Circuit)}

theorem full_has (D : MixDesc c2 K [] full) (x : Name) :
    full.has x = true ↔ (IsNet c2 K x ∨ ∃ p ∈ K, ∃ n, p.2.has n = true ∧ x = pre p.1.head n) := by
  have := D.has x
  simp only [List.append_nil, List.not_mem_nil, false_and, exists_false, or_false] at this
  exact this

theorem full_netAttr (D : MixDesc c2 K [] full) {x : Name} (hx : IsNet c2 K x) :
    full.attr? x = some { ty := some (if x ∈ c2.inputs then "input" else "buf"), out := some (decide (x ∈ c2.outputs)) } := by
  apply D.netAttr x
  rw [List.append_nil]
  exact hx

theorem full_edges (D : MixDesc c2 K [] full) (e : Name × Name) :
    e ∈ full.edges ↔ ∃ p ∈ K, (∃ i ∈ p.2.inputs, e = (i, pre p.1.head i)) ∨ e = (pre p.1.head p.1.head, p.1.head) ∨
        (∃ e0 ∈ p.2.edges, e = (pre p.1.head e0.1, pre p.1.head e0.2)) := by
  have := D.edges e
  simp only [List.not_mem_nil, false_and, exists_false, or_false] at this
  exact this

/-! ### types and output flags -/

theorem full_net_ty (D : MixDesc c2 K [] full) {x : Name} (hx : IsNet c2 K x) :
    full.ty? x = some (if x ∈ c2.inputs then "input" else "buf") := by
  rw [Ternary.ty_of_attr (full_netAttr D hx)]

theorem full_net_out (D : MixDesc c2 K [] full) {x : Name} (hx : IsNet c2 K x) :
    full.isOut x = decide (x ∈ c2.outputs) := by
  unfold Circuit.isOut
  rw [full_netAttr D hx]
  rfl

theorem full_spl_attr (F : SGFacts c2 K) (D : MixDesc c2 K [] full) {p : Found × Circuit} (hp : p ∈ K) {n : Name}
    (hn : p.2.has n = true) :
    ∃ a, full.attr? (pre p.1.head n) = some (C06.stripAttr a) ∧ a.ty = p.2.ty? n ∧ ∃ b, a.out = some b := by
  obtain ⟨a, ha, hty, hout⟩ := F.node_attr hp hn
  exact ⟨a, D.preAttr p hp n a ha, hty, hout⟩

theorem full_spl_out (F : SGFacts c2 K) (D : MixDesc c2 K [] full) {p : Found × Circuit} (hp : p ∈ K) {n : Name}
    (hn : p.2.has n = true) : full.isOut (pre p.1.head n) = false := by
  obtain ⟨a, ha, _, b, hb⟩ := full_spl_attr F D hp hn
  unfold Circuit.isOut
  rw [ha]
  unfold C06.stripAttr
  simp only [hb]
  cases b <;> simp

theorem full_in_ty (F : SGFacts c2 K) (D : MixDesc c2 K [] full) {p : Found × Circuit} (hp : p ∈ K) {i : Name}
    (hi : i ∈ p.2.inputs) : full.ty? (pre p.1.head i) = some "buf" := by
  obtain ⟨a, ha, hty, _⟩ := full_spl_attr F D hp (mem_inputs_has hi)
  rw [Ternary.ty_of_attr ha]
  unfold C06.stripAttr
  simp only
  rw [hty, (F.input_ty hp i).mp hi, if_pos rfl]

theorem full_int_ty (F : SGFacts c2 K) (D : MixDesc c2 K [] full) {p : Found × Circuit} (hp : p ∈ K) {n : Name}
    (hn : n ∈ internal p.2) : full.ty? (pre p.1.head n) = c2.ty? n := by
  obtain ⟨a, ha, hty, _⟩ := full_spl_attr F D hp (internal_has hn)
  obtain ⟨_, h2, _⟩ := F.induced hp hn
  obtain ⟨t, ht, hne, _⟩ := F.internal_ty hp hn
  rw [Ternary.ty_of_attr ha]
  unfold C06.stripAttr
  simp only
  rw [hty, h2, ht, if_neg]
  intro e
  injection e with e
  exact hne e

/-! ### input / output sets -/

theorem full_inputs (hc : LintClean c2) (hN : NamesOK c2) (F : SGFacts c2 K) (D : MixDesc c2 K [] full) (x : Name) :
    x ∈ c2.inputs ↔ x ∈ full.inputs := by
  rw [mem_inputs D.wf.nodup]
  constructor
  · intro hx
    have hnet : IsNet c2 K x := Or.inl hx
    rw [full_net_ty D hnet, if_pos hx]
  · intro hty
    have hh := Circuit.has_of_ty? hty
    rcases (full_has D x).mp hh with hnet | ⟨p, hp, n, hn, rfl⟩
    · rw [full_net_ty D hnet] at hty
      by_cases hx : x ∈ c2.inputs
      · exact hx
      · rw [if_neg hx] at hty
        simp at hty
    · exfalso
      rcases internal_or_input hn with h | h
      · rw [full_int_ty F D hp h] at hty
        obtain ⟨t, ht, hne, _⟩ := F.internal_ty hp h
        rw [ht] at hty
        injection hty with hty
        exact hne hty
      · rw [full_in_ty F D hp h] at hty
        simp at hty

theorem full_outputs (hc : LintClean c2) (hN : NamesOK c2) (F : SGFacts c2 K) (D : MixDesc c2 K [] full) (x : Name) :
    x ∈ c2.outputs ↔ x ∈ full.outputs := by
  rw [Q.mem_outputs full D.wf.nodup]
  constructor
  · intro hx
    have hnet : IsNet c2 K x := Or.inr (Or.inl hx)
    rw [full_net_out D hnet]
    exact decide_eq_true hx
  · intro ho
    have hh : full.has x = true := by
      rw [Circuit.has_eq_isSome]
      unfold Circuit.isOut at ho
      cases ha : full.attr? x with
      | none => rw [ha] at ho; cases ho
      | some a => rfl
    rcases (full_has D x).mp hh with hnet | ⟨p, hp, n, hn, rfl⟩
    · rw [full_net_out D hnet] at ho
      exact of_decide_eq_true ho
    · rw [full_spl_out F D hp hn] at ho
      cases ho

/-! ### fan-in lists -/

theorem full_fanin_net (hN : NamesOK c2) (F : SGFacts c2 K) (D : MixDesc c2 K [] full) {x : Name}
    (hx : c2.has x = true) (f : Name) :
    f ∈ full.fanin x ↔ ∃ p ∈ K, p.1.head = x ∧ f = pre x x := by
  rw [Q.mem_fanin, full_edges D]
  constructor
  · rintro ⟨p, hp, ⟨i, hi, e⟩ | e | ⟨e0, he0, e⟩⟩
    · injection e with e1 e2
      have := hN.preFree _ _ (F.head_c2 hp) (F.has_c2 hp (mem_inputs_has hi))
      rw [← e2, hx] at this
      cases this
    · injection e with e1 e2
      refine ⟨p, hp, e2.symm, ?_⟩
      rw [e1, ← e2]
    · injection e with e1 e2
      have := hN.preFree _ _ (F.head_c2 hp) (F.has_c2 hp (F.edge hp he0).2.2)
      rw [← e2, hx] at this
      cases this
  · rintro ⟨p, hp, rfl, rfl⟩
    exact ⟨p, hp, Or.inr (Or.inl rfl)⟩

theorem full_fanin_in (hN : NamesOK c2) (F : SGFacts c2 K) (D : MixDesc c2 K [] full) {p : Found × Circuit}
    (hp : p ∈ K) {i : Name} (hi : i ∈ p.2.inputs) (f : Name) :
    f ∈ full.fanin (pre p.1.head i) ↔ f = i := by
  rw [Q.mem_fanin, full_edges D]
  have hic := F.has_c2 hp (mem_inputs_has hi)
  constructor
  · rintro ⟨q, hq, ⟨j, hj, e⟩ | e | ⟨e0, he0, e⟩⟩
    · injection e with e1 e2
      have := hN.preInj _ _ _ _ (F.head_c2 hp) hic (F.head_c2 hq) (F.has_c2 hq (mem_inputs_has hj)) e2
      rw [e1, this.2]
    · injection e with e1 e2
      have := hN.preFree _ _ (F.head_c2 hp) hic
      rw [e2, F.head_c2 hq] at this
      cases this
    · injection e with e1 e2
      have := hN.preInj _ _ _ _ (F.head_c2 hp) hic (F.head_c2 hq) (F.has_c2 hq (F.edge hq he0).2.2) e2
      have hpq : p = q := F.head_inj hp hq this.1
      subst hpq
      exfalso
      apply F.input_no_edge hp hi (a := e0.1)
      rw [this.2]
      exact he0
  · rintro rfl
    exact ⟨p, hp, Or.inl ⟨f, hi, rfl⟩⟩

theorem full_fanin_int (hN : NamesOK c2) (F : SGFacts c2 K) (D : MixDesc c2 K [] full) {p : Found × Circuit}
    (hp : p ∈ K) {n : Name} (hn : n ∈ internal p.2) (f : Name) :
    f ∈ full.fanin (pre p.1.head n) ↔ ∃ a ∈ c2.fanin n, f = pre p.1.head a := by
  rw [Q.mem_fanin, full_edges D]
  have hnc := F.has_c2 hp (internal_has hn)
  obtain ⟨_, _, hfan⟩ := F.induced hp hn
  constructor
  · rintro ⟨q, hq, ⟨j, hj, e⟩ | e | ⟨e0, he0, e⟩⟩
    · injection e with e1 e2
      have := hN.preInj _ _ _ _ (F.head_c2 hp) hnc (F.head_c2 hq) (F.has_c2 hq (mem_inputs_has hj)) e2
      have hpq : p = q := F.head_inj hp hq this.1
      subst hpq
      rw [← this.2] at hj
      exact absurd hj (internal_not_input hn)
    · injection e with e1 e2
      have := hN.preFree _ _ (F.head_c2 hp) hnc
      rw [e2, F.head_c2 hq] at this
      cases this
    · injection e with e1 e2
      have := hN.preInj _ _ _ _ (F.head_c2 hp) hnc (F.head_c2 hq) (F.has_c2 hq (F.edge hq he0).2.2) e2
      have hpq : p = q := F.head_inj hp hq this.1
      subst hpq
      refine ⟨e0.1, ?_, e1⟩
      rw [← hfan, Q.mem_fanin, this.2]
      exact he0
  · rintro ⟨a, ha, rfl⟩
    refine ⟨p, hp, Or.inr (Or.inr ⟨(a, n), ?_, rfl⟩)⟩
    exact Q.mem_fanin.mp ((hfan a).mpr ha)

/-! ### the gate equations of the filled super-circuit -/

theorem full_gate_head (hN : NamesOK c2) (F : SGFacts c2 K) (D : MixDesc c2 K [] full) {p : Found × Circuit}
    (hp : p ∈ K) (t : String) (v : Val) :
    gateFn t ((full.fanin p.1.head).map v) = gateFn t [v (pre p.1.head p.1.head)] := by
  have := gateFn_congr_mem t v (Circuit.fanin_nodup D.wf.edgesNodup p.1.head)
    (nodup_single (pre p.1.head p.1.head)) (fun f => by
      rw [full_fanin_net hN F D (F.head_c2 hp), List.mem_singleton]
      constructor
      · rintro ⟨_, _, _, e⟩; exact e
      · intro e; exact ⟨p, hp, rfl, e⟩)
  rw [this]
  rfl

theorem full_fanin_nohead (hN : NamesOK c2) (F : SGFacts c2 K) (D : MixDesc c2 K [] full) {x : Name}
    (hx : c2.has x = true) (hnh : ∀ p ∈ K, p.1.head ≠ x) : full.fanin x = [] := by
  apply eq_nil_of_forall_not_mem
  intro f hf
  obtain ⟨p, hp, e, _⟩ := (full_fanin_net hN F D hx f).mp hf
  exact hnh p hp e

theorem full_gate_in (hN : NamesOK c2) (F : SGFacts c2 K) (D : MixDesc c2 K [] full) {p : Found × Circuit}
    (hp : p ∈ K) {i : Name} (hi : i ∈ p.2.inputs) (t : String) (v : Val) :
    gateFn t ((full.fanin (pre p.1.head i)).map v) = gateFn t [v i] := by
  have := gateFn_congr_mem t v (Circuit.fanin_nodup D.wf.edgesNodup (pre p.1.head i))
    (nodup_single i) (fun f => by rw [full_fanin_in hN F D hp hi, List.mem_singleton])
  rw [this]
  rfl

theorem full_gate_int (hc : LintClean c2) (hN : NamesOK c2) (F : SGFacts c2 K) (D : MixDesc c2 K [] full)
    {p : Found × Circuit} (hp : p ∈ K) {n : Name} (hn : n ∈ internal p.2) (t : String) (v : Val) :
    gateFn t ((full.fanin (pre p.1.head n)).map v) = gateFn t ((c2.fanin n).map (fun a => v (pre p.1.head a))) := by
  have hnd : ((c2.fanin n).map (pre p.1.head)).Nodup := by
    apply nodup_map_of_inj (Circuit.fanin_nodup hc.edgesNodup n)
    intro a ha b hb e
    have ha' := (hc.closed _ (Q.mem_fanin.mp ha)).1
    have hb' := (hc.closed _ (Q.mem_fanin.mp hb)).1
    exact (hN.preInj _ _ _ _ (F.head_c2 hp) ha' (F.head_c2 hp) hb' e).2
  have := gateFn_congr_mem t v (Circuit.fanin_nodup D.wf.edgesNodup (pre p.1.head n)) hnd (fun f => by
    rw [full_fanin_int hN F D hp hn, List.mem_map]
    constructor
    · rintro ⟨a, ha, rfl⟩; exact ⟨a, ha, rfl⟩
    · rintro ⟨a, ha, rfl⟩; exact ⟨a, ha, rfl⟩)
  rw [this, List.map_map]
  rfl

end

end SGSuper
end CG
