/- C14 (text level, module extraction) helper: the only whole-word `endmodule` in the text the writer emits is the
   final one -/
import CG.Proofs.VModTextRunStmt
import CG.Proofs.VTextMod
namespace CG
namespace VMT
open Verilog

/-- the port list as printed -/
def portsT (wm : WModule) : List Char := (", ".toList).intercalate ((wm.inputs ++ wm.outputs).map String.toList)

def inLines (wm : WModule) : List (List Char) := wm.inputs.map (fun i => ("  input " ++ i ++ ";\n").toList)
def outLines (wm : WModule) : List (List Char) := wm.outputs.map (fun i => ("  output " ++ i ++ ";\n").toList)
def wireLines (wm : WModule) : List (List Char) := wm.wires.map (fun i => ("  wire " ++ i ++ ";\n").toList)
def stmtLines (wm : WModule) : List (List Char) :=
  (wm.stmts.zip (wm.parens ++ List.replicate wm.stmts.length false)).map
    (fun i => ("  " ++ renderStmt i.2 i.1 ++ ";\n").toList)

/-- everything between `);` and the final `endmodule` -/
def bodyT (wm : WModule) : List Char :=
  '\n' :: ((inLines wm).flatten ++ '\n' :: ((outLines wm).flatten ++ '\n' :: ((wireLines wm).flatten ++ '\n' ::
    (stmtLines wm).flatten)))

theorem render_eq (wm : WModule) : (render wm).toList =
    ['m', 'o', 'd', 'u', 'l', 'e'] ++ [' '] ++ wm.name.toList ++ [' ', '('] ++ portsT wm ++ [')', ';'] ++ bodyT wm ++
      kwE ++ ['\n'] := by
  have e1 : "module ".toList = ['m', 'o', 'd', 'u', 'l', 'e', ' '] := by decide
  have e2 : " (".toList = [' ', '('] := by decide
  have e3 : ");\n".toList = [')', ';', '\n'] := by decide
  have e4 : "\n".toList = ['\n'] := by decide
  have e5 : "endmodule\n".toList = kwE ++ ['\n'] := by decide
  unfold render portsT bodyT inLines outLines wireLines stmtLines
  simp only [String.toList_append, String.toList_intercalate, VX.join_toList, e1, e2, e3, e4, e5, List.cons_append,
    List.nil_append, List.append_assoc]

/-! ### the body -/

theorem nl_last : ∀ (L : List (List Char)), (∀ l ∈ L, l.getLast? = some '\n') → ∀ (pre : List Char),
    pre.getLast? = some '\n' → (pre ++ L.flatten).getLast? = some '\n'
  | [], _, pre, hp => by simpa using hp
  | l :: L, h, pre, hp => by
    rw [List.flatten_cons, ← List.append_assoc]
    apply nl_last L (fun x hx => h x (by simp [hx]))
    rw [List.getLast?_append, h l (by simp)]
    rfl

theorem line_last (s : String) : (s ++ ";\n").toList.getLast? = some '\n' := by
  have e : ";\n".toList = [';', '\n'] := by decide
  rw [String.toList_append, e, List.getLast?_append]
  rfl

theorem body_last (wm : WModule) : (bodyT wm).getLast? = some '\n' := by
  have h1 : ∀ l ∈ inLines wm, l.getLast? = some '\n' := by
    intro l hl
    obtain ⟨i, _, rfl⟩ := List.mem_map.1 hl
    exact line_last _
  have h2 : ∀ l ∈ outLines wm, l.getLast? = some '\n' := by
    intro l hl
    obtain ⟨i, _, rfl⟩ := List.mem_map.1 hl
    exact line_last _
  have h3 : ∀ l ∈ wireLines wm, l.getLast? = some '\n' := by
    intro l hl
    obtain ⟨i, _, rfl⟩ := List.mem_map.1 hl
    exact line_last _
  have h4 : ∀ l ∈ stmtLines wm, l.getLast? = some '\n' := by
    intro l hl
    obtain ⟨i, _, rfl⟩ := List.mem_map.1 hl
    exact line_last _
  have a4 := nl_last _ h4 (['\n'] ++ (inLines wm).flatten ++ ['\n'] ++ (outLines wm).flatten ++ ['\n'] ++
    (wireLines wm).flatten ++ ['\n']) (by rw [List.getLast?_append]; rfl)
  unfold bodyT
  simpa using a4

theorem stmt_segs (X : List Bool) : ∀ {stmts : List Item} {parens : List Bool}, VX.All2 VX.StmtOK stmts parens →
    ∀ l ∈ (stmts.zip (parens ++ X)).map (fun i => ("  " ++ renderStmt i.2 i.1 ++ ";\n").toList), Seg l
  | _, _, VX.All2.nil => by simp
  | _, _, VX.All2.cons h hs => by
    simp only [List.cons_append, List.zip_cons_cons, List.map_cons, List.mem_cons]
    rintro l (rfl | hl)
    · exact seg_stmt h
    · exact stmt_segs X hs l hl

theorem body_seg (wm : WModule) (h : VX.WOK wm) : Seg (bodyT wm) := by
  have h1 : ∀ l ∈ inLines wm, Seg l := by
    intro l hl
    obtain ⟨i, hi, rfl⟩ := List.mem_map.1 hl
    exact seg_input (h.inputs i hi)
  have h2 : ∀ l ∈ outLines wm, Seg l := by
    intro l hl
    obtain ⟨i, hi, rfl⟩ := List.mem_map.1 hl
    exact seg_output (h.outputs i hi)
  have h3 : ∀ l ∈ wireLines wm, Seg l := by
    intro l hl
    obtain ⟨i, hi, rfl⟩ := List.mem_map.1 hl
    exact seg_wire (h.wires i hi)
  have h4 : ∀ l ∈ stmtLines wm, Seg l := stmt_segs _ h.stmts
  exact Seg.sym nw_nl ((Seg.flatten h1).append (Seg.sym nw_nl ((Seg.flatten h2).append (Seg.sym nw_nl
    ((Seg.flatten h3).append (Seg.sym nw_nl (Seg.flatten h4)))))))

/-- everything in front of the final `endmodule`: no occurrence, and it ends at a boundary -/
theorem head_segL (wm : WModule) (h : VX.WOK wm) :
    SegL (['m', 'o', 'd', 'u', 'l', 'e'] ++ [' '] ++ wm.name.toList ++ [' ', '('] ++ portsT wm ++ [')', ';'] ++ bodyT wm) := by
  have hports : ∀ w ∈ (wm.inputs ++ wm.outputs).map String.toList, W w := by
    intro w hw
    obtain ⟨n, hn, rfl⟩ := List.mem_map.1 hw
    rcases List.mem_append.1 hn with hn | hn
    · exact W.ident (h.inputs n hn)
    · exact W.ident (h.outputs n hn)
  have hb : Seg (')' :: ';' :: bodyT wm) := Seg.sym nw_rparen (Seg.sym nw_semi (body_seg wm h))
  have hp := seg_commas_words _ hports '(' _ nw_lparen hb (by simp)
  have hn := Seg.symWord nw_sp (W.ident h.name) (Seg.sym nw_sp hp) (by simp)
  have := SegL.word W.module hn (by simp)
  have e : "module".toList = ['m', 'o', 'd', 'u', 'l', 'e'] := by decide
  rw [e] at this
  unfold portsT
  simpa using this

/-! ### the two facts -/

/-- shape of the emitted text -/
theorem render_shape (wm : WModule) (_h : VX.WOK wm) :
    ∃ P Bd : List Char, (render wm).toList =
        ['m', 'o', 'd', 'u', 'l', 'e'] ++ [' '] ++ wm.name.toList ++ [' ', '('] ++ P ++ [')', ';'] ++ Bd ++ kwE ++ ['\n'] ∧
      Bd.getLast? = some '\n' :=
  ⟨portsT wm, bodyT wm, render_eq wm, body_last wm⟩

theorem kw_tail {pre' post : List Char} (e : kwE ++ ['\n'] = pre' ++ kwE ++ post) : post = ['\n'] := by
  have hl := congrArg List.length e
  simp only [List.length_append, kwE, List.length_cons, List.length_nil] at hl
  cases pre' with
  | nil =>
    rw [List.nil_append] at e
    exact (List.append_cancel_left e).symm
  | cons c t =>
    cases t with
    | cons _ _ => simp only [List.length_cons] at hl; omega
    | nil =>
      cases post with
      | cons _ _ => simp only [List.length_cons] at hl; omega
      | nil =>
        exfalso
        revert e
        simp [kwE]

/-- the only whole-word occurrence of `endmodule` in the emitted text is the final one -/
theorem render_unique (wm : WModule) (h : VX.WOK wm) (pre post : List Char)
    (e : (render wm).toList = pre ++ kwE ++ post) (hl : BrkL pre) (hr : BrkR post) : post = ['\n'] := by
  obtain ⟨hno, hbrk⟩ := head_segL wm h
  rw [render_eq, List.append_assoc _ kwE] at e
  rcases split e (Or.inl hbrk) with ⟨post', h1, h2⟩ | ⟨pre', h1, _⟩
  · exact absurd ⟨pre, post', h1, hl, brkR_left (h2 ▸ hr)⟩ hno
  · exact kw_tail h1

end VMT
end CG
