/- C12 helpers: Kahn's algorithm, topological orders, cyclicity -/
import CG.Proofs.QueryClosure
namespace CG
namespace Q
open Query

/-- every fan-in of a node of `l` that occurs in `l` occurs strictly before it -/
def TopoOK (c : Circuit) (l : List Name) : Prop :=
  ∀ pre n post, l = pre ++ n :: post → ∀ p ∈ c.fanin n, p ∉ n :: post

theorem kahn_cons (c : Circuit) (fuel : Nat) (r : Name) (rs acc : List Name) :
    kahn c (fuel + 1) (r :: rs) acc =
      match (r :: rs).find? (fun n => (c.fanin n).all (fun p => !(r :: rs).contains p)) with
      | none => none
      | some n => kahn c fuel ((r :: rs).filter (· != n)) (n :: acc) := by
  rfl

theorem kahn_spec (c : Circuit) : ∀ (fuel : Nat) (rem acc l : List Name), rem.Nodup →
    kahn c fuel rem acc = some l →
    ∃ s, l = acc.reverse ++ s ∧ s.Nodup ∧ (∀ x, x ∈ s ↔ x ∈ rem) ∧ TopoOK c s := by
  intro fuel
  induction fuel with
  | zero => intro rem acc l _ h; simp [kahn] at h
  | succ fuel ih =>
    intro rem acc l hnd h
    cases rem with
    | nil =>
      simp only [kahn, Option.some.injEq] at h
      refine ⟨[], by simp [h], List.nodup_nil, fun x => Iff.rfl, ?_⟩
      intro pre n post hs
      simp at hs
    | cons r rs =>
      rw [kahn_cons] at h
      cases hf : (r :: rs).find? (fun n => (c.fanin n).all (fun p => !(r :: rs).contains p)) with
      | none => simp only [hf, reduceCtorEq] at h
      | some n =>
        simp only [hf] at h
        have hn : n ∈ r :: rs := List.mem_of_find?_eq_some hf
        have hp := List.find?_some hf
        simp only [List.all_eq_true, Bool.not_eq_true', List.contains_eq_mem, decide_eq_false_iff_not] at hp
        obtain ⟨s, hl, hsnd, hsmem, htopo⟩ := ih _ _ l (List.Pairwise.filter _ hnd) h
        have hsmem' : ∀ x, x ∈ s ↔ x ∈ r :: rs ∧ x ≠ n := by
          intro x
          rw [hsmem, List.mem_filter]
          simp
        refine ⟨n :: s, by simp [hl], ?_, ?_, ?_⟩
        · rw [List.nodup_cons]
          exact ⟨fun hc => ((hsmem' n).mp hc).2 rfl, hsnd⟩
        · intro x
          rw [List.mem_cons, hsmem']
          constructor
          · rintro (rfl | h)
            · exact hn
            · exact h.1
          · intro hx
            by_cases hxn : x = n
            · exact Or.inl hxn
            · exact Or.inr ⟨hx, hxn⟩
        · intro pre m post hs p hpm
          cases pre with
          | nil =>
            simp only [List.nil_append, List.cons.injEq] at hs
            obtain ⟨rfl, rfl⟩ := hs
            intro hc
            apply hp p hpm
            rcases List.mem_cons.mp hc with h | h
            · rw [h]; exact hn
            · exact ((hsmem' p).mp h).1
          | cons q pre =>
            simp only [List.cons_append, List.cons.injEq] at hs
            exact htopo pre m post hs.2 p hpm

theorem topoSort_spec (c : Circuit) (hwf : WF c) (l : List Name) (h : topoSort c = some l) :
    l.Nodup ∧ (∀ x, x ∈ l ↔ x ∈ c.nodeNames) ∧ TopoOK c l := by
  obtain ⟨s, hl, h1, h2, h3⟩ := kahn_spec c _ _ _ l hwf.nodup h
  simp only [List.reverse_nil, List.nil_append] at hl
  subst hl
  exact ⟨h1, h2, h3⟩

theorem topoOK_index (c : Circuit) (l : List Name) (h : TopoOK c l) :
    ∀ i j (hi : i < l.length) (hj : j < l.length), (l[i], l[j]) ∈ c.edges → i < j := by
  intro i j hi hj he
  have hsplit : l = l.take j ++ l[j] :: l.drop (j + 1) := by
    rw [← List.drop_eq_getElem_cons hj, List.take_append_drop]
  have := h _ _ _ hsplit l[i] (mem_fanin.mpr he)
  rw [← List.drop_eq_getElem_cons hj] at this
  apply Classical.byContradiction
  intro hij
  apply this
  have hlt : i - j < (l.drop j).length := by rw [List.length_drop]; omega
  have : (l.drop j)[i - j] = l[i] := by
    rw [List.getElem_drop]
    congr 1
    omega
  rw [← this]
  exact List.getElem_mem hlt

/-- a rank function along which all wires increase, and one along which all decrease -/
theorem rank_of_topo (c : Circuit) (hwf : WF c) (l : List Name) (h : topoSort c = some l) :
    (∀ a b, EdgeRel c a b → l.idxOf a < l.idxOf b) ∧
    (∀ a b, EdgeRel c a b → l.length - l.idxOf b < l.length - l.idxOf a) := by
  obtain ⟨_, hmem, htopo⟩ := topoSort_spec c hwf l h
  have key : ∀ a b, EdgeRel c a b → l.idxOf a < l.idxOf b ∧ l.idxOf b < l.length := by
    intro a b he
    have ha : a ∈ l := (hmem a).mpr ((has_iff c a).mp (hwf.closed _ he).1)
    have hb : b ∈ l := (hmem b).mpr ((has_iff c b).mp (hwf.closed _ he).2)
    have hi := List.idxOf_lt_length_of_mem ha
    have hj := List.idxOf_lt_length_of_mem hb
    refine ⟨topoOK_index c l htopo _ _ hi hj ?_, hj⟩
    rw [List.getElem_idxOf hi, List.getElem_idxOf hj]
    exact he
  constructor
  · intro a b he; exact (key a b he).1
  · intro a b he
    have := key a b he
    omega

theorem acyclic_of_topo (c : Circuit) (hwf : WF c) (l : List Name) (h : topoSort c = some l) : Acyclic c :=
  ⟨l.idxOf, fun e he => (rank_of_topo c hwf l h).1 e.1 e.2 he⟩

theorem no_cycle_of_acyclic (c : Circuit) (h : Acyclic c) (n : Name) : ¬ Plus (EdgeRel c) n n := by
  obtain ⟨rank, hr⟩ := h
  intro hp
  have := hp.rank_lt rank (fun a b he => hr (a, b) he)
  omega

/-! ### a cycle exists when Kahn's algorithm gets stuck -/

theorem kahn_none (c : Circuit) : ∀ (fuel : Nat) (rem acc : List Name), rem.length < fuel →
    kahn c fuel rem acc = none →
    ∃ rem', rem' ≠ [] ∧ ∀ n ∈ rem', ∃ p ∈ rem', EdgeRel c p n := by
  intro fuel
  induction fuel with
  | zero => intro rem acc h; omega
  | succ fuel ih =>
    intro rem acc hlen h
    cases rem with
    | nil => simp [kahn] at h
    | cons r rs =>
      rw [kahn_cons] at h
      cases hf : (r :: rs).find? (fun n => (c.fanin n).all (fun p => !(r :: rs).contains p)) with
      | none =>
        refine ⟨r :: rs, by simp, ?_⟩
        intro n hn
        have := List.find?_eq_none.mp hf n hn
        simp only [List.all_eq_true, Bool.not_eq_true', List.contains_eq_mem, decide_eq_false_iff_not,
          Classical.not_forall, Classical.not_not] at this
        obtain ⟨p, hp, hpr⟩ := this
        exact ⟨p, hpr, mem_fanin.mp hp⟩
      | some n =>
        simp only [hf] at h
        have hn : n ∈ r :: rs := List.mem_of_find?_eq_some hf
        refine ih _ _ ?_ h
        have : ((r :: rs).filter (· != n)).length < (r :: rs).length :=
          List.length_filter_lt_length_iff_exists.mpr ⟨n, hn, by simp⟩
        omega

open Classical in
theorem cycle_of_preds (E : Name → Name → Prop) : ∀ (m : Nat) (rem : List Name), rem.length ≤ m → rem ≠ [] →
    (∀ n ∈ rem, ∃ p ∈ rem, E p n) → ∃ n, Plus E n n := by
  intro m
  induction m with
  | zero =>
    intro rem hlen hne
    cases rem with
    | nil => exact absurd rfl hne
    | cons _ _ => simp at hlen
  | succ m ih =>
    intro rem hlen hne hpred
    cases rem with
    | nil => exact absurd rfl hne
    | cons x rs =>
      by_cases hx : Plus E x x
      · exact ⟨x, hx⟩
      · have hlt : ((x :: rs).filter (fun y => decide (Plus E y x))).length < (x :: rs).length :=
          List.length_filter_lt_length_iff_exists.mpr ⟨x, by simp, by simpa using hx⟩
        apply ih ((x :: rs).filter (fun y => decide (Plus E y x)))
        · simp only [List.length_cons] at hlt hlen; omega
        · obtain ⟨p, hp, hpe⟩ := hpred x (by simp)
          intro hnil
          have : p ∈ (x :: rs).filter (fun y => decide (Plus E y x)) := by
            rw [List.mem_filter]; exact ⟨hp, by simpa using Plus.single hpe⟩
          rw [hnil] at this
          cases this
        · intro n hn
          rw [List.mem_filter] at hn
          obtain ⟨p, hp, hpe⟩ := hpred n hn.1
          have hnx : Plus E n x := by simpa using hn.2
          refine ⟨p, ?_, hpe⟩
          rw [List.mem_filter]
          exact ⟨hp, by simpa using Plus.of_step_star hpe hnx.star⟩

theorem isCyclic_iff (c : Circuit) (hwf : WF c) : isCyclic c = true ↔ ∃ n, Plus (EdgeRel c) n n := by
  unfold isCyclic
  constructor
  · intro h
    have hnone : topoSort c = none := by
      cases ht : topoSort c with
      | none => rfl
      | some l => simp [ht] at h
    obtain ⟨rem', hne, hpred⟩ := kahn_none c _ _ _ (by rw [nodeNames_length]; omega) hnone
    exact cycle_of_preds _ rem'.length rem' (Nat.le_refl _) hne hpred
  · rintro ⟨n, hn⟩
    cases ht : topoSort c with
    | none => rfl
    | some l => exact absurd hn (no_cycle_of_acyclic c (acyclic_of_topo c hwf l ht) n)

theorem topoSort_of_not_cyclic (c : Circuit) (h : isCyclic c = false) : ∃ l, topoSort c = some l := by
  unfold isCyclic at h
  cases ht : topoSort c with
  | none => simp [ht] at h
  | some l => exact ⟨l, rfl⟩

end Q
end CG
