/-
  CG.Proofs.LintLinkNames — dots in node names: `hasDot` / `dotPrefix` of concatenations, decimal indices never contain
  a dot, and the helper-level form of the first clause of `C20.RegistryOK`.
-/
import CG.Lint
import CG.Spec
import CG.Proofs.ArithNames
namespace CG
namespace LintLink
open Circuit

/-- every dotted node name starts with a recorded blackbox instance (first clause of `C20.RegistryOK`) -/
def DotsRegistered (c : Circuit) : Prop :=
  ∀ g ∈ c.nodeNames, hasDot g = true → c.bbs.lookup (dotPrefix g) ≠ none

theorem hasDot_append (a b : Name) : hasDot (a ++ b) = (hasDot a || hasDot b) := by
  unfold hasDot
  rw [String.toList_append, Bool.eq_iff_iff]
  simp only [List.contains_iff_mem, List.mem_append, Bool.or_eq_true]

theorem hasDot_toString (i : Nat) : hasDot (toString i) = false := by
  unfold hasDot
  rw [Bool.eq_false_iff]
  intro h
  have := Arith.toString_digits i '.' (List.contains_iff_mem.mp h)
  exact absurd this (by decide)

theorem takeWhile_append_of_stop (p : Char → Bool) : ∀ (l m : List Char), (∃ x ∈ l, p x = false) →
    (l ++ m).takeWhile p = l.takeWhile p
  | [], _, h => by obtain ⟨x, hx, _⟩ := h; cases hx
  | a :: l, m, h => by
    simp only [List.cons_append, List.takeWhile_cons]
    cases hp : p a with
    | false => rfl
    | true =>
      simp only [if_true]
      congr 1
      apply takeWhile_append_of_stop p l m
      obtain ⟨x, hx, hpx⟩ := h
      rcases List.mem_cons.mp hx with rfl | hx
      · rw [hp] at hpx; cases hpx
      · exact ⟨x, hx, hpx⟩

/-- the text before the FIRST dot is not changed by appending to a name that already has a dot -/
theorem dotPrefix_append (a b : Name) (h : hasDot a = true) : dotPrefix (a ++ b) = dotPrefix a := by
  unfold dotPrefix
  rw [String.toList_append, takeWhile_append_of_stop]
  exact ⟨'.', List.contains_iff_mem.mp h, by decide⟩

/-- appending a dot-free suffix: same dottedness, and the same prefix when dotted -/
theorem dots_append_nodot (a b : Name) (hb : hasDot b = false) :
    hasDot (a ++ b) = hasDot a ∧ (hasDot a = true → dotPrefix (a ++ b) = dotPrefix a) :=
  ⟨by rw [hasDot_append, hb, Bool.or_false], dotPrefix_append a b⟩

theorem hasDot_uidName (n : Name) (i : Nat) : hasDot (uidName n i) = hasDot n := by
  unfold uidName
  rw [hasDot_append, hasDot_append, hasDot_toString]
  have : hasDot "_" = false := by decide
  rw [this, Bool.or_false, Bool.or_false]

theorem dotPrefix_uidName (n : Name) (i : Nat) (h : hasDot n = true) : dotPrefix (uidName n i) = dotPrefix n := by
  unfold uidName
  rw [String.append_assoc]
  exact dotPrefix_append _ _ h

end LintLink
end CG
