/- C05 (insert_registers) helpers: a successful splice step (add buf, add_blackbox ff) has the effect `Splice` -/
import CG.Proofs.InsRegSem
import CG.Proofs.QueryBasic
set_option linter.unusedSimpArgs false
set_option linter.unusedVariables false
namespace CG
namespace InsReg
open Circuit

/-! ### small list facts -/

theorem perm_pair {l : List Name} {a b : Name} (h : l.Perm [a, b]) : l = [a, b] ∨ l = [b, a] := by
  have hl := h.length_eq
  match l, hl, h with
  | [x, y], _, h =>
    have hx : x ∈ [a, b] := h.subset (by simp)
    simp only [List.mem_cons, List.not_mem_nil, or_false] at hx
    rcases hx with rfl | rfl
    · have := List.perm_singleton.mp (List.Perm.cons_inv h)
      injection this with h1 _
      subst h1
      exact Or.inl rfl
    · have h' : [x, y].Perm [x, a] := h.trans (List.Perm.swap _ _ _)
      have := List.perm_singleton.mp (List.Perm.cons_inv h')
      injection this with h1 _
      subst h1
      exact Or.inr rfl

theorem pin_d (inst : Name) : inst ++ "." ++ "d" = inst ++ ".d" := by rw [String.append_assoc]; rfl
theorem pin_q (inst : Name) : inst ++ "." ++ "q" = inst ++ ".q" := by rw [String.append_assoc]; rfl
theorem pin_k (inst : Name) : inst ++ "." ++ "clk" = inst ++ ".clk" := by rw [String.append_assoc]; rfl

/-! ### add_blackbox of the default flop -/

/-- a successful plain `add` of a pin node -/
theorem pin_add_inv {c c1 : Circuit} {x m : Name} {t : String}
    (h : c.add { n := x, ty := t } = (c1, .ok, m)) :
    c.has x = false ∧ c1 = c.addNodeAttr x { ty := some t, out := some false } := by
  obtain ⟨hn, hf, c2, h2, h3⟩ := add_inv rfl rfl h
  simp only [Bool.false_eq_true, if_false] at hn
  injection hn with hn
  subst hn
  rw [connect_empty_right] at h2
  rw [connect_empty_left] at h3
  injection h2 with h2 _
  injection h3 with h3 _
  subst h2
  exact ⟨hf, h3.symm⟩

def pinA (t : String) : Attr := { ty := some t, out := some false }

theorem pins_inv (inst : Name) (t : String) : ∀ (ps : List Name) (c c' : Circuit),
    addBlackbox.pins inst c t ps = (c', .ok) →
    c'.nodes = c.nodes ++ ps.map (fun p => (inst ++ "." ++ p, pinA t)) ∧
    c'.edges = c.edges ∧ c'.bbs = c.bbs ∧ (∀ p ∈ ps, c.has (inst ++ "." ++ p) = false) ∧
    (c.nodeNames.Nodup → c'.nodeNames.Nodup)
  | [], c, c', h => by
    rw [addBlackbox.pins] at h
    injection h with h _
    subst h
    refine ⟨by simp, rfl, rfl, ?_, fun h => h⟩
    intro p hp
    cases hp
  | p :: ps, c, c', h => by
    rw [addBlackbox.pins] at h
    generalize hadd : c.add { n := inst ++ "." ++ p, ty := t } = res at h
    obtain ⟨c1, o, m⟩ := res
    cases o <;> simp only [] at h <;> try (exact Outcome.noConfusion (Prod.mk.inj h).2)
    obtain ⟨hf, e1⟩ := pin_add_inv hadd
    obtain ⟨i1, i2, i3, i4, i5⟩ := pins_inv inst t ps c1 c' h
    have hn1 : c1.nodes = c.nodes ++ [(inst ++ "." ++ p, pinA t)] := by
      rw [e1, addNodeAttr_fresh _ hf]; rfl
    refine ⟨?_, ?_, ?_, ?_, ?_⟩
    · rw [i1, hn1]; simp
    · rw [i2, e1, addNodeAttr_edges]
    · rw [i3, e1, addNodeAttr_bbs]
    · intro p' hp'
      rcases List.mem_cons.mp hp' with rfl | hp'
      · exact hf
      · have := i4 p' hp'
        rw [e1, addNodeAttr_has] at this
        simp only [Bool.or_eq_false_iff] at this
        exact this.1
    · intro hnd
      apply i5
      rw [e1]
      exact addNodeAttr_nodup _ _ hnd

theorem go_inv {inst n r : Name} {c c' : Circuit}
    (h : addBlackbox.go ffBox inst c [("d", [n]), ("q", [r]), ("clk", ["clk"])] = (c', .ok)) :
    ∃ c3 c4, c.connect [n] [inst ++ "." ++ "d"] = (c3, .ok) ∧ c3.connect [inst ++ "." ++ "q"] [r] = (c4, .ok) ∧
      c4.connect ["clk"] [inst ++ "." ++ "clk"] = (c', .ok) := by
  rw [addBlackbox.go] at h
  have e1 : ffBox.ins.contains "d" = true := by decide
  have e2 : ffBox.ins.contains "q" = false := by decide
  have e3 : ffBox.outs.contains "q" = true := by decide
  have e4 : ffBox.ins.contains "clk" = true := by decide
  rw [if_pos e1] at h
  generalize h3 : c.connect [n] [inst ++ "." ++ "d"] = r3 at h
  obtain ⟨c3, o3⟩ := r3
  cases o3 <;> simp only [] at h <;> try (exact Outcome.noConfusion (Prod.mk.inj h).2)
  rw [addBlackbox.go, e2, if_neg (by decide), if_pos e3] at h
  generalize h4 : c3.connect [inst ++ "." ++ "q"] [r] = r4 at h
  obtain ⟨c4, o4⟩ := r4
  cases o4 <;> simp only [] at h <;> try (exact Outcome.noConfusion (Prod.mk.inj h).2)
  rw [addBlackbox.go, if_pos e4] at h
  generalize h5 : c4.connect ["clk"] [inst ++ "." ++ "clk"] = r5 at h
  obtain ⟨c5, o5⟩ := r5
  cases o5 <;> simp only [] at h <;> try (exact Outcome.noConfusion (Prod.mk.inj h).2)
  rw [addBlackbox.go] at h
  exact ⟨c3, c4, rfl, h4, h5.trans h⟩

theorem setBB_fresh' (c : Circuit) (inst : Name) (bb : BBox) (h : c.bbs.lookup inst = none) :
    (c.setBB inst bb).bbs = c.bbs ++ [(inst, bb)] := by
  simp [setBB, h]

/-- what a successful `add_blackbox(ff, inst, {d: n, q: r, clk: clk})` does -/
structure BBSpec (c c' : Circuit) (inst n r : Name) : Prop where
  fd : c.has (inst ++ ".d") = false
  fq : c.has (inst ++ ".q") = false
  fk : c.has (inst ++ ".clk") = false
  nodes : ∀ p, p ∈ c'.nodes ↔ p ∈ c.nodes ∨ p = (inst ++ ".d", inA) ∨ p = (inst ++ ".q", outA) ∨
    p = (inst ++ ".clk", inA)
  nodup : c.nodeNames.Nodup → c'.nodeNames.Nodup
  edges : ∀ e, e ∈ c'.edges ↔ e ∈ c.edges ∨ e = (n, inst ++ ".d") ∨ e = (inst ++ ".q", r) ∨
    e = ("clk", inst ++ ".clk")
  enodup : c.edges.Nodup → c'.edges.Nodup
  bbs : c'.bbs = c.bbs ++ [(inst, ffBox)]
  hasn : c'.has n = true
  hasclk : c'.has "clk" = true

theorem addBlackbox_inv {c c' : Circuit} {inst n r : Name} {ord : Ord} (hord : OrdOK ord)
    (h : c.addBlackbox ffBox inst [("d", [n]), ("q", [r]), ("clk", ["clk"])] ord = (c', .ok)) :
    BBSpec c c' inst n r := by
  unfold addBlackbox at h
  by_cases hl : (c.bbs.lookup inst).isSome = true
  · rw [if_pos hl] at h
    exact Outcome.noConfusion (Prod.mk.inj h).2
  rw [if_neg hl] at h
  have hl' : c.bbs.lookup inst = none := by
    cases hh : c.bbs.lookup inst with
    | none => rfl
    | some _ => rw [hh] at hl; simp at hl
  generalize hp1 : addBlackbox.pins inst c "bb_input" (ord ffBox.ins) = r1 at h
  obtain ⟨c1, o1⟩ := r1
  cases o1 <;> simp only [] at h <;> try (exact Outcome.noConfusion (Prod.mk.inj h).2)
  generalize hp2 : addBlackbox.pins inst c1 "bb_output" (ord ffBox.outs) = r2 at h
  obtain ⟨c2, o2⟩ := r2
  cases o2 <;> simp only [] at h <;> try (exact Outcome.noConfusion (Prod.mk.inj h).2)
  obtain ⟨c3, c4, h3, h4, h5⟩ := go_inv h
  obtain ⟨a1, a2, a3, a4, a5⟩ := pins_inv inst "bb_input" _ c c1 hp1
  obtain ⟨b1, b2, b3, b4, b5⟩ := pins_inv inst "bb_output" _ c1 c2 hp2
  have ho : ord ffBox.outs = ["q"] := List.perm_singleton.mp (hord _)
  rw [ho] at b1 b4
  have hq1 := b4 "q" (by simp)
  obtain ⟨k3, _, _, _, e3, n3, ck3⟩ := connect_ok h3
  obtain ⟨k4, _, _, _, e4, n4, ck4⟩ := connect_ok h4
  obtain ⟨k5, _, _, _, e5, n5, ck5⟩ := connect_ok h5
  have hbb : c'.bbs = c.bbs ++ [(inst, ffBox)] := by
    rw [(connect_ok h5).2.1, (connect_ok h4).2.1, (connect_ok h3).2.1, setBB_fresh' _ _ _ (by rw [b3, a3]; exact hl'),
      b3, a3]
  have hnodes' : c'.nodes = c2.nodes := by rw [k5, k4, k3, setBB_nodes]
  have hedges : ∀ e, e ∈ c'.edges ↔ e ∈ c.edges ∨ e = (n, inst ++ ".d") ∨ e = (inst ++ ".q", r) ∨
      e = ("clk", inst ++ ".clk") := by
    intro e
    rw [e5, e4, e3, setBB_edges, b2, a2]
    obtain ⟨x, y⟩ := e
    simp only [List.mem_singleton, Prod.mk.injEq, pin_d, pin_q, pin_k]
    constructor
    · rintro (((h | h) | h) | h)
      · exact Or.inl h
      · exact Or.inr (Or.inl h)
      · exact Or.inr (Or.inr (Or.inl h))
      · exact Or.inr (Or.inr (Or.inr h))
    · rintro (h | h | h | h)
      · exact Or.inl (Or.inl (Or.inl h))
      · exact Or.inl (Or.inl (Or.inr h))
      · exact Or.inl (Or.inr h)
      · exact Or.inr h
  have hasn : c'.has n = true := by
    rw [has_congr (hnodes'.trans (setBB_nodes c2 inst ffBox).symm)]
    exact (connectCheck_has (ck3 (by simp) (by simp))).1 n (by simp)
  have hasclk : c'.has "clk" = true := by
    rw [has_congr k5]
    exact (connectCheck_has (ck5 (by simp) (by simp))).1 "clk" (by simp)
  have henodup : c.edges.Nodup → c'.edges.Nodup := by
    intro hnd
    apply n5; apply n4; apply n3
    rw [setBB_edges, b2, a2]
    exact hnd
  have hnodup : c.nodeNames.Nodup → c'.nodeNames.Nodup := by
    intro hnd
    rw [nodeNames_congr hnodes']
    exact b5 (a5 hnd)
  have hc1q : c1.has (inst ++ ".q") = false := by rw [← pin_q]; exact hq1
  rcases perm_pair (hord ffBox.ins) with hi | hi
  all_goals
    rw [hi] at a1 a4
    have hk := a4 "clk" (by simp)
    have hd := a4 "d" (by simp)
    rw [pin_k] at hk
    rw [pin_d] at hd
    have hcq : c.has (inst ++ ".q") = false := by
      cases hh : c.has (inst ++ ".q") with
      | false => rfl
      | true =>
        have : c1.has (inst ++ ".q") = true := by
          rw [has_iff_mem, nodeNames, a1, List.map_append]
          exact List.mem_append_left _ ((has_iff_mem _ _).mp hh)
        rw [hc1q] at this
        cases this
    refine ⟨hd, hcq, hk, ?_, hnodup, hedges, henodup, hbb, hasn, hasclk⟩
    intro p
    rw [hnodes', b1, a1]
    simp only [List.map_cons, List.map_nil, List.mem_append, List.mem_cons, List.not_mem_nil, or_false, pin_d, pin_q, pin_k]
    simp only [pinA, inA, outA]
    constructor
    · rintro ((h | h | h) | h)
      · exact Or.inl h
      · first | exact Or.inr (Or.inl h) | exact Or.inr (Or.inr (Or.inr h))
      · first | exact Or.inr (Or.inl h) | exact Or.inr (Or.inr (Or.inr h))
      · exact Or.inr (Or.inr (Or.inl h))
    · rintro (h | h | h | h)
      · exact Or.inl (Or.inl h)
      · first | exact Or.inl (Or.inr (Or.inl h)) | exact Or.inl (Or.inr (Or.inr h))
      · exact Or.inr h
      · first | exact Or.inl (Or.inr (Or.inl h)) | exact Or.inl (Or.inr (Or.inr h))

end InsReg
end CG
