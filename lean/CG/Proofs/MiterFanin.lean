/- helper lemmas for C04 (miter): fan-in of every kind of node of the miter -/
import CG.Proofs.MiterView
set_option linter.unusedSimpArgs false
set_option linter.unusedVariables false
namespace CG
namespace Miter
open Circuit

theorem faninL_cons_eq (u n : Name) (es : List (Name × Name)) : faninL ((u, n) :: es) n = u :: faninL es n := by
  simp [faninL]

theorem faninL_cons_ne {u v n : Name} (h : v ≠ n) (es : List (Name × Name)) :
    faninL ((u, v) :: es) n = faninL es n := by
  simp [faninL, h]

theorem faninL_edgesOf (c : Circuit) (name n : Name) :
    faninL (edgesOf c name) (pref name n) = (c.fanin n).map (pref name) :=
  faninL_map_inj (pref name) (fun a b e => pref_inj name e) c.edges n

theorem faninL_edgesOf_nil (c : Circuit) (name x : Name) (h : ∀ n, x ≠ pref name n) :
    faninL (edgesOf c name) x = [] := by
  apply faninL_nil_of
  intro e he e2
  obtain ⟨e0, _, rfl⟩ := List.mem_map.1 he
  exact h e0.2 e2.symm

/-! ### tie edges -/

theorem tieEdges_cons (s : Name) (sp : List Name) :
    tieEdges (s :: sp) = (s, pref "c0" s) :: (s, pref "c1" s) :: tieEdges sp := by
  simp [tieEdges, List.flatMap_cons]

theorem faninL_tie_c0_not : ∀ (sp : List Name) (n : Name), n ∉ sp → faninL (tieEdges sp) (pref "c0" n) = []
  | [], _, _ => rfl
  | s :: sp, n, h => by
    simp only [List.mem_cons, not_or] at h
    rw [tieEdges_cons, faninL_cons_ne (fun e => h.1 (pref_inj "c0" e).symm),
      faninL_cons_ne (fun e => c0_ne_c1 n s e.symm)]
    exact faninL_tie_c0_not sp n h.2

theorem faninL_tie_c0_mem : ∀ (sp : List Name) (n : Name), sp.Nodup → n ∈ sp →
    faninL (tieEdges sp) (pref "c0" n) = [n]
  | [], _, _, h => by cases h
  | s :: sp, n, hnd, h => by
    simp only [List.nodup_cons] at hnd
    rw [tieEdges_cons]
    by_cases e : n = s
    · subst e
      rw [faninL_cons_eq, faninL_cons_ne (fun e => c0_ne_c1 n n e.symm), faninL_tie_c0_not sp n hnd.1]
    · have hm : n ∈ sp := by
        rcases List.mem_cons.1 h with h | h
        · exact absurd h e
        · exact h
      rw [faninL_cons_ne (fun e' => e (pref_inj "c0" e').symm), faninL_cons_ne (fun e => c0_ne_c1 n s e.symm)]
      exact faninL_tie_c0_mem sp n hnd.2 hm

theorem faninL_tie_c1_not : ∀ (sp : List Name) (n : Name), n ∉ sp → faninL (tieEdges sp) (pref "c1" n) = []
  | [], _, _ => rfl
  | s :: sp, n, h => by
    simp only [List.mem_cons, not_or] at h
    rw [tieEdges_cons, faninL_cons_ne (fun e => c0_ne_c1 s n e),
      faninL_cons_ne (fun e => h.1 (pref_inj "c1" e).symm)]
    exact faninL_tie_c1_not sp n h.2

theorem faninL_tie_c1_mem : ∀ (sp : List Name) (n : Name), sp.Nodup → n ∈ sp →
    faninL (tieEdges sp) (pref "c1" n) = [n]
  | [], _, _, h => by cases h
  | s :: sp, n, hnd, h => by
    simp only [List.nodup_cons] at hnd
    rw [tieEdges_cons]
    by_cases e : n = s
    · subst e
      rw [faninL_cons_ne (fun e => c0_ne_c1 n n e), faninL_cons_eq, faninL_tie_c1_not sp n hnd.1]
    · have hm : n ∈ sp := by
        rcases List.mem_cons.1 h with h | h
        · exact absurd h e
        · exact h
      rw [faninL_cons_ne (fun e => c0_ne_c1 s n e), faninL_cons_ne (fun e' => e (pref_inj "c1" e').symm)]
      exact faninL_tie_c1_mem sp n hnd.2 hm

theorem faninL_tie_nil (sp : List Name) (x : Name) (h0 : ∀ n, x ≠ pref "c0" n) (h1 : ∀ n, x ≠ pref "c1" n) :
    faninL (tieEdges sp) x = [] := by
  apply faninL_nil_of
  intro e he e2
  simp only [tieEdges, List.mem_flatMap, List.mem_cons, List.not_mem_nil, or_false] at he
  obtain ⟨s, _, rfl | rfl⟩ := he
  · exact h0 s e2.symm
  · exact h1 s e2.symm

/-! ### comparator edges -/

theorem difEdges_cons (e : Name) (ep : List Name) :
    difEdges (e :: ep) = (dif e, "sat") :: (pref "c0" e, dif e) :: (pref "c1" e, dif e) :: difEdges ep := by
  simp [difEdges, List.flatMap_cons]

theorem faninL_dif_sat : ∀ ep : List Name, faninL (difEdges ep) "sat" = ep.map dif
  | [] => rfl
  | e :: ep => by
    rw [difEdges_cons, faninL_cons_eq, faninL_cons_ne (dif_ne_sat e), faninL_cons_ne (dif_ne_sat e),
      faninL_dif_sat ep]
    rfl

theorem faninL_dif_not : ∀ (ep : List Name) (e : Name), e ∉ ep → faninL (difEdges ep) (dif e) = []
  | [], _, _ => rfl
  | a :: ep, e, h => by
    simp only [List.mem_cons, not_or] at h
    have hne : dif a ≠ dif e := fun e' => h.1 (dif_inj e').symm
    rw [difEdges_cons, faninL_cons_ne (fun e' => dif_ne_sat e e'.symm), faninL_cons_ne hne, faninL_cons_ne hne]
    exact faninL_dif_not ep e h.2

theorem faninL_dif_mem : ∀ (ep : List Name) (e : Name), ep.Nodup → e ∈ ep →
    faninL (difEdges ep) (dif e) = [pref "c0" e, pref "c1" e]
  | [], _, _, h => by cases h
  | a :: ep, e, hnd, h => by
    simp only [List.nodup_cons] at hnd
    rw [difEdges_cons, faninL_cons_ne (fun e' => dif_ne_sat e e'.symm)]
    by_cases ea : e = a
    · subst ea
      rw [faninL_cons_eq, faninL_cons_eq, faninL_dif_not ep e hnd.1]
    · have hm : e ∈ ep := by
        rcases List.mem_cons.1 h with h | h
        · exact absurd h ea
        · exact h
      have hne : dif a ≠ dif e := fun e' => ea (dif_inj e').symm
      rw [faninL_cons_ne hne, faninL_cons_ne hne]
      exact faninL_dif_mem ep e hnd.2 hm

theorem faninL_dif_nil (ep : List Name) (x : Name) (hs : x ≠ "sat") (hd : ∀ e, x ≠ dif e) :
    faninL (difEdges ep) x = [] := by
  apply faninL_nil_of
  intro e he e2
  simp only [difEdges, List.mem_flatMap, List.mem_cons, List.not_mem_nil, or_false] at he
  obtain ⟨s, _, rfl | rfl | rfl⟩ := he
  · exact hs e2.symm
  · exact hd s e2.symm
  · exact hd s e2.symm

/-! ### fan-in in the miter -/

section view
variable {c0 c1 m : Circuit} {sp ep : List Name}

/-- the edge list of a (partially built) miter -/
def EdgesAre (c0 c1 : Circuit) (sp ep : List Name) (m : Circuit) : Prop :=
  m.edges = edgesOf c0 "c0" ++ edgesOf c1 "c1" ++ tieEdges sp ++ difEdges ep

theorem EdgesAre.fanin_eq (V : EdgesAre c0 c1 sp ep m) (x : Name) :
    m.fanin x = faninL (edgesOf c0 "c0") x ++ faninL (edgesOf c1 "c1") x ++ faninL (tieEdges sp) x ++
      faninL (difEdges ep) x := by
  rw [fanin_eq_faninL, V, faninL_append, faninL_append, faninL_append]

theorem EdgesAre.fanin_c0 (V : EdgesAre c0 c1 sp ep m) (hsp : sp.Nodup) (n : Name) :
    m.fanin (pref "c0" n) = (c0.fanin n).map (pref "c0") ++ (if n ∈ sp then [n] else []) := by
  rw [V.fanin_eq, faninL_edgesOf, faninL_edgesOf_nil c1 "c1" _ (fun k => c0_ne_c1 n k),
    faninL_dif_nil ep _ (c0_ne_sat n) (fun e => c0_ne_dif n e)]
  by_cases h : n ∈ sp
  · rw [faninL_tie_c0_mem sp n hsp h, if_pos h]; simp
  · rw [faninL_tie_c0_not sp n h, if_neg h]; simp

theorem EdgesAre.fanin_c1 (V : EdgesAre c0 c1 sp ep m) (hsp : sp.Nodup) (n : Name) :
    m.fanin (pref "c1" n) = (c1.fanin n).map (pref "c1") ++ (if n ∈ sp then [n] else []) := by
  rw [V.fanin_eq, faninL_edgesOf, faninL_edgesOf_nil c0 "c0" _ (fun k e => c0_ne_c1 k n e.symm),
    faninL_dif_nil ep _ (c1_ne_sat n) (fun e => c1_ne_dif n e)]
  by_cases h : n ∈ sp
  · rw [faninL_tie_c1_mem sp n hsp h, if_pos h]; simp
  · rw [faninL_tie_c1_not sp n h, if_neg h]; simp

theorem EdgesAre.fanin_sat (V : EdgesAre c0 c1 sp ep m) : m.fanin "sat" = ep.map dif := by
  rw [V.fanin_eq, faninL_edgesOf_nil c0 "c0" _ (fun k e => c0_ne_sat k e.symm),
    faninL_edgesOf_nil c1 "c1" _ (fun k e => c1_ne_sat k e.symm),
    faninL_tie_nil sp _ (fun k e => c0_ne_sat k e.symm) (fun k e => c1_ne_sat k e.symm), faninL_dif_sat]
  rfl

theorem EdgesAre.fanin_dif (V : EdgesAre c0 c1 sp ep m) (hep : ep.Nodup) {e : Name} (he : e ∈ ep) :
    m.fanin (dif e) = [pref "c0" e, pref "c1" e] := by
  rw [V.fanin_eq, faninL_edgesOf_nil c0 "c0" _ (fun k e' => c0_ne_dif k e e'.symm),
    faninL_edgesOf_nil c1 "c1" _ (fun k e' => c1_ne_dif k e e'.symm),
    faninL_tie_nil sp _ (fun k e' => c0_ne_dif k e e'.symm) (fun k e' => c1_ne_dif k e e'.symm),
    faninL_dif_mem ep e hep he]
  rfl

theorem MView.fanin_c0 (V : MView c0 c1 sp ep m) (hsp : sp.Nodup) (n : Name) :
    m.fanin (pref "c0" n) = (c0.fanin n).map (pref "c0") ++ (if n ∈ sp then [n] else []) :=
  EdgesAre.fanin_c0 V.edges hsp n

theorem MView.fanin_c1 (V : MView c0 c1 sp ep m) (hsp : sp.Nodup) (n : Name) :
    m.fanin (pref "c1" n) = (c1.fanin n).map (pref "c1") ++ (if n ∈ sp then [n] else []) :=
  EdgesAre.fanin_c1 V.edges hsp n

theorem MView.fanin_sat (V : MView c0 c1 sp ep m) : m.fanin "sat" = ep.map dif := EdgesAre.fanin_sat V.edges

theorem MView.fanin_dif (V : MView c0 c1 sp ep m) (hep : ep.Nodup) {e : Name} (he : e ∈ ep) :
    m.fanin (dif e) = [pref "c0" e, pref "c1" e] := EdgesAre.fanin_dif V.edges hep he

end view

end Miter
end CG
