/-
  CG.Proofs.InsReg — helper lemmas for insert_registers / acyclic_unroll-of-acyclic (C05); import hub.
-/
import CG.Tx3
import CG.Spec
import CG.Proofs.InsRegAcyc
import CG.Proofs.InsRegMain
