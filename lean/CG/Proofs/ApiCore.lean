/- C07 helper: connect / disconnect / remove / set_output / add preserve the invariant -/
import CG.Proofs.ApiWired
set_option linter.unusedSimpArgs false
set_option linter.unusedVariables false
namespace CG
open Circuit

/-! ### connectCheck -/

theorem goV_none {c : Circuit} {us : List Name} : ∀ vs, connectCheck.goV c us vs = none →
    ∀ v ∈ vs, ∃ t, c.ty? v = some t ∧ t ∉ ["input", "0", "1", "x", "bb_output"] ∧
      (t ∈ ["bb_input", "buf", "not"] → (c.fanin v).length + us.length ≤ 1) := by
  intro vs
  induction vs with
  | nil => intro _ v hv; cases hv
  | cons w vs ih =>
    intro h v hv
    rw [connectCheck.goV] at h
    cases hw : c.ty? w with
    | none => rw [hw] at h; cases h
    | some t =>
      rw [hw] at h
      simp only [] at h
      rw [tbl_connectL0, tbl_connectL1] at h
      by_cases h0 : (["input", "0", "1", "x", "bb_output"].contains t) = true
      · rw [if_pos h0] at h; cases h
      · rw [if_neg h0] at h
        by_cases h1 : (["bb_input", "buf", "not"].contains t && decide ((c.fanin w).length + us.length > 1)) = true
        · rw [if_pos h1] at h; cases h
        · rw [if_neg h1] at h
          rcases List.mem_cons.1 hv with e | hv'
          · subst e
            refine ⟨t, hw, fun hm => h0 (List.contains_iff_mem.2 hm), fun hm => ?_⟩
            have : ¬ ((c.fanin v).length + us.length > 1) := by
              intro hgt; apply h1
              rw [Bool.and_eq_true]; exact ⟨List.contains_iff_mem.2 hm, by simpa using hgt⟩
            omega
          · exact ih h v hv'

theorem goU_none {c : Circuit} {vs : List Name} : ∀ us, connectCheck.goU c vs us = none →
    ∀ u ∈ us, ∃ t, c.ty? u = some t ∧ t ≠ "bb_input" ∧
      (t = "bb_output" → (∀ v ∈ vs, c.ty? v = some "buf") ∧ (c.fanout u).length + vs.length ≤ 1) := by
  intro us
  induction us with
  | nil => intro _ u hu; cases hu
  | cons w us ih =>
    intro h u hu
    rw [connectCheck.goU] at h
    cases hw : c.ty? w with
    | none => rw [hw] at h; cases h
    | some t =>
      rw [hw] at h
      simp only [] at h
      rw [tbl_connectL2, tbl_connectL3] at h
      by_cases h0 : (["bb_input"].contains t) = true
      · rw [if_pos h0] at h; cases h
      · rw [if_neg h0] at h
        have hne : t ≠ "bb_input" := by
          intro e; apply h0; rw [e]; decide
        by_cases h1 : (["bb_output"].contains t) = true
        · rw [if_pos h1] at h
          by_cases h2 : (vs.any fun v => c.ty? v != some "buf") = true
          · rw [if_pos h2] at h; cases h
          · rw [if_neg h2] at h
            by_cases h3 : (c.fanout w).length + vs.length > 1
            · rw [if_pos h3] at h; cases h
            · rw [if_neg h3] at h
              rcases List.mem_cons.1 hu with e | hu'
              · subst e
                refine ⟨t, hw, hne, fun _ => ⟨?_, by omega⟩⟩
                intro v hv
                cases hb : (c.ty? v != some "buf") with
                | true => exact absurd (List.any_eq_true.2 ⟨v, hv, hb⟩) h2
                | false => simpa using hb
              · exact ih h u hu'
        · rw [if_neg h1] at h
          rcases List.mem_cons.1 hu with e | hu'
          · subst e
            refine ⟨t, hw, hne, fun e => ?_⟩
            exfalso; apply h1; rw [e]; decide
          · exact ih h u hu'

theorem goV_class {c : Circuit} {us : List Name} : ∀ vs, (∀ v ∈ vs, ∃ t, c.ty? v = some t) →
    connectCheck.goV c us vs = none ∨ connectCheck.goV c us vs = some .valueError := by
  intro vs
  induction vs with
  | nil => intro _; left; rw [connectCheck.goV]
  | cons w vs ih =>
    intro hall
    obtain ⟨t, hw⟩ := hall w (by simp)
    rw [connectCheck.goV, hw]
    simp only []
    split
    · right; rfl
    · split
      · right; rfl
      · exact ih (fun v hv => hall v (List.mem_cons_of_mem _ hv))

theorem goU_class {c : Circuit} {vs : List Name} : ∀ us, (∀ u ∈ us, ∃ t, c.ty? u = some t) →
    connectCheck.goU c vs us = none ∨ connectCheck.goU c vs us = some .valueError := by
  intro us
  induction us with
  | nil => intro _; left; rw [connectCheck.goU]
  | cons w us ih =>
    intro hall
    obtain ⟨t, hw⟩ := hall w (by simp)
    have ih' := ih (fun v hv => hall v (List.mem_cons_of_mem _ hv))
    rw [connectCheck.goU, hw]
    simp only []
    split
    · right; rfl
    · split
      · split
        · right; rfl
        · split
          · right; rfl
          · exact ih'
      · exact ih'

theorem any_not_has_false {c : Circuit} {l : List Name} (h : ¬ (l.any fun n => !c.has n) = true) :
    ∀ n ∈ l, c.has n = true := by
  intro n hn
  cases hh : c.has n with
  | true => rfl
  | false => exact absurd (List.any_eq_true.2 ⟨n, hn, by simp [hh]⟩) h

theorem connectCheck_none {c : Circuit} {us vs : List Name} (h : c.connectCheck us vs = none) :
    (∀ u ∈ us, c.has u = true) ∧ (∀ v ∈ vs, c.has v = true) ∧
    (∀ v ∈ vs, ∃ t, c.ty? v = some t ∧ t ∉ ["input", "0", "1", "x", "bb_output"] ∧
      (t ∈ ["bb_input", "buf", "not"] → (c.fanin v).length + us.length ≤ 1)) ∧
    (∀ u ∈ us, ∃ t, c.ty? u = some t ∧ t ≠ "bb_input" ∧
      (t = "bb_output" → (∀ v ∈ vs, c.ty? v = some "buf") ∧ (c.fanout u).length + vs.length ≤ 1)) := by
  unfold connectCheck at h
  by_cases h1 : (us.any fun n => !c.has n) = true
  · rw [if_pos h1] at h; cases h
  · rw [if_neg h1] at h
    by_cases h2 : (vs.any fun n => !c.has n) = true
    · rw [if_pos h2] at h; cases h
    · rw [if_neg h2] at h
      cases hv : connectCheck.goV c us vs with
      | some o => rw [hv] at h; cases h
      | none =>
        rw [hv] at h
        exact ⟨any_not_has_false h1, any_not_has_false h2, goV_none vs hv, goU_none us h⟩

/-- all nodes carry a type -/
def AllTyped (c : Circuit) : Prop := ∀ n, c.has n = true → ∃ t, c.ty? n = some t

theorem WS.allTyped {c : Circuit} (h : WS c) : AllTyped c := fun _ hn => h.ty?_some hn

theorem connectCheck_class {c : Circuit} (ht : AllTyped c) (us vs : List Name) :
    c.connectCheck us vs = none ∨ c.connectCheck us vs = some .valueError := by
  unfold connectCheck
  by_cases h1 : (us.any fun n => !c.has n) = true
  · rw [if_pos h1]; right; rfl
  · rw [if_neg h1]
    by_cases h2 : (vs.any fun n => !c.has n) = true
    · rw [if_pos h2]; right; rfl
    · rw [if_neg h2]
      rcases goV_class (us := us) vs (fun v hv => ht v (any_not_has_false h2 v hv)) with hv | hv
      · rw [hv]; exact goU_class us (fun u hu => ht u (any_not_has_false h1 u hu))
      · rw [hv]; right; rfl

/-! ### connect -/

theorem connect_cases (c : Circuit) (us vs : List Name) :
    ((c.connect us vs).1 = c) ∨
    (c.connectCheck us vs = none ∧ (c.connect us vs) = (c.addEdges us vs, .ok)) := by
  unfold connect
  split
  · left; rfl
  · cases h : c.connectCheck us vs with
    | some o => left; rfl
    | none => right; exact ⟨rfl, rfl⟩

theorem connect_reject_unchanged' (c : Circuit) (us vs : List Name) (h : (c.connect us vs).2 ≠ .ok) :
    (c.connect us vs).1 = c := by
  rcases connect_cases c us vs with h' | ⟨_, h'⟩
  · exact h'
  · rw [h'] at h; exact absurd rfl h

theorem connect_class {c : Circuit} (ht : AllTyped c) (us vs : List Name) :
    (c.connect us vs).2 = .ok ∨ (c.connect us vs).2 = .valueError := by
  unfold connect
  split
  · left; rfl
  · rcases connectCheck_class ht us vs with h | h
    · rw [h]; left; rfl
    · rw [h]; right; rfl

theorem connect_nodes (c : Circuit) (us vs : List Name) : (c.connect us vs).1.nodes = c.nodes := by
  rcases connect_cases c us vs with h | ⟨_, h⟩
  · rw [h]
  · rw [h]; exact addEdges_nodes c us vs

theorem connect_bbs (c : Circuit) (us vs : List Name) : (c.connect us vs).1.bbs = c.bbs := by
  rcases connect_cases c us vs with h | ⟨_, h⟩
  · rw [h]
  · rw [h]; exact addEdges_bbs c us vs

theorem addEdges_WS {c : Circuit} (h : WS c) {us vs : List Name} (hc : c.connectCheck us vs = none) :
    WS (c.addEdges us vs) := by
  obtain ⟨hus, hvs, hV, hU⟩ := connectCheck_none hc
  have hn := addEdges_nodes c us vs
  have hhas : ∀ n, (c.addEdges us vs).has n = c.has n := has_congr hn
  have hty : ∀ n, (c.addEdges us vs).ty? n = c.ty? n := ty?_congr hn
  have hmem := addEdges_mem c us vs
  refine ⟨by rw [nodeNames_congr hn]; exact h.nodup, addEdges_nodup us vs h.edgesNodup, ?_, ?_, ?_, ?_, ?_, ?_⟩
  · intro u v he
    rw [hhas, hhas]
    rcases (hmem _).1 he with he | ⟨hu, hv⟩
    · exact h.closed _ _ he
    · exact ⟨hus _ hu, hvs _ hv⟩
  · intro n hn'; rw [hhas] at hn'; rw [hty]; exact h.typed n hn'
  · intro u v he t ht
    rw [hty] at ht
    rcases (hmem _).1 he with he | ⟨hu, hv⟩
    · exact h.noFanin _ _ he t ht
    · obtain ⟨t', ht', hz, _⟩ := hV v hv
      rw [ht] at ht'; injection ht' with ht'; subst ht'; exact hz
  · intro n t ht hs u u' hu hu'
    rw [hty] at ht
    rcases (hmem _).1 hu with hu | ⟨hu1, hu2⟩ <;> rcases (hmem _).1 hu' with hu' | ⟨hu1', hu2'⟩
    · exact h.single n t ht hs u u' hu hu'
    · exfalso
      obtain ⟨t', ht', _, hl⟩ := hV n hu2'
      rw [ht] at ht'; injection ht' with ht'; subst ht'
      have h1 := hl hs
      have h2 : 0 < (c.fanin n).length := List.length_pos_of_mem (mem_fanin.2 hu)
      have h3 : 0 < us.length := List.length_pos_of_mem hu1'
      omega
    · exfalso
      obtain ⟨t', ht', _, hl⟩ := hV n hu2
      rw [ht] at ht'; injection ht' with ht'; subst ht'
      have h1 := hl hs
      have h2 : 0 < (c.fanin n).length := List.length_pos_of_mem (mem_fanin.2 hu')
      have h3 : 0 < us.length := List.length_pos_of_mem hu1
      omega
    · obtain ⟨t', ht', _, hl⟩ := hV n hu2
      rw [ht] at ht'; injection ht' with ht'; subst ht'
      have h1 := hl hs
      exact eq_of_length_le_one (by omega) hu1 hu1'
  · intro u v he
    rw [hty]
    rcases (hmem _).1 he with he | ⟨hu, hv⟩
    · exact h.noBBInFanout _ _ he
    · obtain ⟨t, ht, hne, _⟩ := hU u hu
      rw [ht]; intro e; injection e with e; exact hne e
  · intro u v he hu
    rw [hty] at hu; rw [hty]
    rcases (hmem _).1 he with he | ⟨hu1, hv1⟩
    · obtain ⟨hb, huniq⟩ := h.bbOut _ _ he hu
      refine ⟨hb, ?_⟩
      intro v' hv'
      rcases (hmem _).1 hv' with hv' | ⟨hu2, hv2⟩
      · exact huniq v' hv'
      · exfalso
        obtain ⟨t, ht, _, hl⟩ := hU u hu2
        rw [hu] at ht; injection ht with ht
        obtain ⟨_, hl⟩ := hl ht.symm
        have h2 : 0 < (c.fanout u).length := List.length_pos_of_mem (mem_fanout.2 he)
        have h3 : 0 < vs.length := List.length_pos_of_mem hv2
        omega
    · obtain ⟨t, ht, _, hl⟩ := hU u hu1
      rw [hu] at ht; injection ht with ht
      obtain ⟨hbuf, hl⟩ := hl ht.symm
      refine ⟨hbuf v hv1, ?_⟩
      intro v' hv'
      rcases (hmem _).1 hv' with hv' | ⟨hu2, hv2⟩
      · exfalso
        have h2 : 0 < (c.fanout u).length := List.length_pos_of_mem (mem_fanout.2 hv')
        have h3 : 0 < vs.length := List.length_pos_of_mem hv1
        omega
      · exact eq_of_length_le_one (by omega) hv2 hv1

theorem connect_WS {c : Circuit} (h : WS c) (us vs : List Name) : WS (c.connect us vs).1 := by
  rcases connect_cases c us vs with h' | ⟨hc, h'⟩
  · rw [h']; exact h
  · rw [h']; exact addEdges_WS h hc

theorem PinsOK'_of_same {c c' : Circuit} {gone : List Name} (hn : c'.nodes = c.nodes) (hb : c'.bbs = c.bbs)
    (h : PinsOK' c gone) : PinsOK' c' gone := by
  intro p hp
  rw [hb] at hp
  obtain ⟨h1, h2⟩ := h p hp
  exact ⟨fun g hg hgone => by rw [ty?_congr hn]; exact h1 g hg hgone,
         fun g hg hgone => by rw [ty?_congr hn]; exact h2 g hg hgone⟩

theorem connect_Inv {c : Circuit} {gone : List Name} (h : Inv' c gone) (us vs : List Name) :
    Inv' (c.connect us vs).1 gone :=
  ⟨connect_WS h.1 us vs, PinsOK'_of_same (connect_nodes c us vs) (connect_bbs c us vs) h.2⟩

/-! ### disconnect / remove / set_output -/

theorem disconnect_Inv {c : Circuit} {gone : List Name} (h : Inv' c gone) (us vs : List Name) :
    Inv' (c.disconnect us vs) gone := by
  have hn := disconnect_nodes c us vs
  refine ⟨?_, PinsOK'_of_same hn (disconnect_bbs c us vs) h.2⟩
  apply h.1.sub (by rw [nodeNames_congr hn]; exact h.1.nodup) (disconnect_edges_nodup us vs h.1.edgesNodup)
  · intro e he; exact disconnect_mem_of c us vs he
  · intro n hn'; rw [has_congr hn] at hn'; exact ⟨hn', ty?_congr hn n⟩
  · intro u v he; rw [has_congr hn, has_congr hn]; exact h.1.closed _ _ (disconnect_mem_of c us vs he)

theorem removeNode_Inv {c : Circuit} {gone : List Name} (h : Inv' c gone) (n : Name) :
    Inv' (c.removeNode n) (gone ++ [n]) := by
  constructor
  · apply h.1.sub (removeNode_nodup n h.1.nodup) (removeNode_edges_nodup n h.1.edgesNodup)
    · intro e he; exact ((removeNode_mem c n e).1 he).1
    · intro m hm
      rw [removeNode_has] at hm
      simp only [Bool.and_eq_true, Bool.not_eq_true', beq_eq_false_iff_ne] at hm
      refine ⟨hm.1, ?_⟩
      rw [removeNode_ty?, if_neg hm.2]
    · intro u v he
      obtain ⟨h1, h2, h3⟩ := (removeNode_mem c n (u, v)).1 he
      obtain ⟨a, b⟩ := h.1.closed _ _ h1
      rw [removeNode_has, removeNode_has, a, b]
      simp only [Bool.true_and, Bool.not_eq_true', beq_eq_false_iff_ne]
      exact ⟨h2, h3⟩
  · apply h.2.ext (removeNode_bbs c n)
    · intro m hm _
      have : m ≠ n := by intro e; apply hm; simp [e]
      rw [removeNode_ty?, if_neg this]
    · intro m hm; simp [hm]

theorem remove_Inv {c : Circuit} {gone : List Name} (h : Inv' c gone) (ns : List Name) :
    Inv' (c.remove ns) (gone ++ ns) := by
  unfold remove
  induction ns generalizing c gone with
  | nil => simpa using h
  | cons n ns ih =>
    simp only [List.foldl_cons]
    have := ih (removeNode_Inv h n)
    simpa [List.append_assoc] using this

theorem Inv'.congr {c c' : Circuit} {gone : List Name} (h : Inv' c gone) (hnames : c'.nodeNames = c.nodeNames)
    (hty : ∀ n, c'.ty? n = c.ty? n) (hedges : c'.edges = c.edges) (hb : c'.bbs = c.bbs) : Inv' c' gone :=
  ⟨h.1.congr hnames hty hedges, h.2.ext hb (fun n _ _ => hty n) (fun _ hx => hx)⟩

theorem setOutRaw_Inv {c : Circuit} {gone : List Name} (h : Inv' c gone) (n : Name) (b : Bool) :
    Inv' (c.setOutRaw n b) gone :=
  h.congr (setOutRaw_nodeNames c n b) (setOutRaw_ty? c n b) (setOutRaw_edges c n b) (setOutRaw_bbs c n b)

theorem setOutput_Inv {c : Circuit} {gone : List Name} (h : Inv' c gone) (ns : List Name) (b : Bool) :
    Inv' (c.setOutput ns b).1 gone := by
  induction ns generalizing c with
  | nil => exact h
  | cons n ns ih =>
    rw [setOutput]
    split
    · exact ih (setOutRaw_Inv h n b)
    · exact h

theorem setOutput_class (c : Circuit) (ns : List Name) (b : Bool) :
    (c.setOutput ns b).2 = .ok ∨ (c.setOutput ns b).2 = .keyError := by
  induction ns generalizing c with
  | nil => left; rfl
  | cons n ns ih =>
    rw [setOutput]
    split
    · exact ih _
    · right; rfl

theorem setOutput_edges (c : Circuit) (ns : List Name) (b : Bool) : (c.setOutput ns b).1.edges = c.edges := by
  induction ns generalizing c with
  | nil => rfl
  | cons n ns ih =>
    rw [setOutput]
    split
    · rw [ih]; rfl
    · rfl

/-! ### uid -/

theorem uidGo_fresh {taken : Name → Bool} {n : Name} : ∀ fuel i m, uidGo taken n fuel i = some m → taken m = false := by
  intro fuel
  induction fuel with
  | zero => intro i m h; rw [uidGo] at h; cases h
  | succ f ih =>
    intro i m h
    rw [uidGo] at h
    by_cases ht : taken (uidName n i) = true
    · rw [if_pos ht] at h; exact ih _ _ h
    · rw [if_neg ht] at h; injection h with h; subst h; simpa using ht

theorem uid_fresh {c : Circuit} {n m : Name} (h : c.uid n = some m) : c.has m = false := by
  unfold uid at h
  simp only [List.contains_nil, Bool.or_false] at h
  by_cases hn : c.has n = true
  · simp only [hn, Bool.not_true] at h
    have := uidGo_fresh _ _ _ h
    simpa using this
  · simp only [hn] at h
    simp at h; subst h; simpa using hn

/-! ### add -/

/-- the part of `add` after the argument checks (projection form) -/
def addTail (c : Circuit) (a : AddArgs) (n : Name) : Circuit × Outcome × Name :=
  let c1 := c.addNodeAttr n { ty := some a.ty, out := some a.output }
  let r2 := if a.addConnected then c1.addConnectedNodes (a.fanin ++ a.fanout) else (c1, .ok)
  if r2.2 != .ok then (r2.1, r2.2, n) else
  let r3 := r2.1.connect [n] a.fanout
  if r3.2 != .ok then (r3.1, r3.2, n) else
  let r4 := r3.1.connect a.fanin [n]
  (r4.1, r4.2, n)

theorem add_cases (c : Circuit) (a : AddArgs) :
    (∃ o m, c.add a = (c, o, m) ∧ (o = .valueError ∨ (o = .indexError ∧ (a.uid = false → a.n.isEmpty = true)) ∨
        (o = .fuel ∧ a.uid = true))) ∨
    (∃ n, (if a.uid then c.uid a.n else some a.n) = some n ∧
      (a.allowRedef = false → c.has n = false) ∧
      T.supported.contains a.ty = true ∧
      ¬ (a.fanin.length > 1 ∧ (T.addL 0).contains a.ty = true) ∧
      ¬ (a.fanin.isEmpty = false ∧ (T.addL 1).contains a.ty = true) ∧
      n.isEmpty = false ∧
      c.add a = addTail c a n) := by
  unfold add
  cases hn : (if a.uid then c.uid a.n else some a.n) with
  | none =>
    left
    refine ⟨.fuel, a.n, rfl, Or.inr (Or.inr ⟨rfl, ?_⟩)⟩
    cases hu : a.uid with
    | true => rfl
    | false => rw [hu] at hn; simp at hn
  | some n =>
    simp only []
    by_cases h1 : (!a.uid && c.has n && !a.allowRedef) = true
    · rw [if_pos h1]; left; exact ⟨_, _, rfl, Or.inl rfl⟩
    rw [if_neg h1]
    by_cases h2 : (!T.supported.contains a.ty) = true
    · rw [if_pos h2]; left; exact ⟨_, _, rfl, Or.inl rfl⟩
    rw [if_neg h2]
    by_cases h3 : (decide (a.fanin.length > 1) && (T.addL 0).contains a.ty) = true
    · rw [if_pos h3]; left; exact ⟨_, _, rfl, Or.inl rfl⟩
    rw [if_neg h3]
    by_cases h4 : (!a.fanin.isEmpty && (T.addL 1).contains a.ty) = true
    · rw [if_pos h4]; left; exact ⟨_, _, rfl, Or.inl rfl⟩
    rw [if_neg h4]
    by_cases h5 : n.isEmpty = true
    · rw [if_pos h5]; left
      refine ⟨_, _, rfl, Or.inr (Or.inl ⟨rfl, ?_⟩)⟩
      intro hu; rw [hu] at hn; simp at hn; rw [hn]; exact h5
    rw [if_neg h5]
    by_cases h6 : isDigit0 n = true
    · rw [if_pos h6]; left; exact ⟨_, _, rfl, Or.inl rfl⟩
    rw [if_neg h6]
    right
    refine ⟨n, rfl, ?_, by simpa using h2, ?_, ?_, by simpa using h5, rfl⟩
    · intro hr
      cases hu : a.uid with
      | true => rw [hu] at hn; simp only [if_true] at hn; exact uid_fresh hn
      | false =>
        rw [hu, hr] at h1
        simpa using h1
    · rintro ⟨ha, hb⟩; apply h3; rw [Bool.and_eq_true]; exact ⟨by simpa using ha, hb⟩
    · rintro ⟨ha, hb⟩; apply h4; rw [Bool.and_eq_true]; exact ⟨by simp [ha], hb⟩

theorem addNodeAttr_fresh_Inv {c : Circuit} {gone : List Name} (h : Inv' c gone) {n : Name} (hn : c.has n = false)
    {t : String} (ht : t ∈ Expected.supported_types) (o : Option Bool) :
    Inv' (c.addNodeAttr n { ty := some t, out := o }) gone := by
  have hty : ∀ m, c.has m = true → (c.addNodeAttr n { ty := some t, out := o }).ty? m = c.ty? m := by
    intro m hm
    have : m ≠ n := by intro e; subst e; rw [hn] at hm; cases hm
    rw [addNodeAttr_ty?, if_neg this]
  constructor
  · apply h.1.extend (addNodeAttr_nodup n _ h.1.nodup) (addNodeAttr_edges c n _)
    · intro m hm
      exact ⟨by rw [addNodeAttr_has, hm]; rfl, hty m hm⟩
    · intro m hm
      rw [addNodeAttr_has] at hm
      by_cases e : m = n
      · subst e; exact ⟨t, by rw [addNodeAttr_ty?, if_pos rfl]; rfl, ht⟩
      · have : (m == n) = false := by simpa using e
        rw [this, Bool.or_false] at hm
        rw [hty m hm]; exact h.1.typed m hm
  · exact h.2.ext (addNodeAttr_bbs c n _) (fun m _ hm => hty m hm) (fun _ hx => hx)

theorem addTail_Inv {c : Circuit} {gone : List Name} {a : AddArgs} {n : Name} (hf : a.addConnected = false)
    (h : Inv' (c.addNodeAttr n { ty := some a.ty, out := some a.output }) gone) :
    Inv' (addTail c a n).1 gone := by
  unfold addTail
  simp only [hf, Bool.false_eq_true, if_false]
  have e : ((Outcome.ok != Outcome.ok) = true) = False := by simp
  simp only [e, if_false]
  split
  · exact connect_Inv h _ _
  · exact connect_Inv (connect_Inv h _ _) _ _

theorem add_Inv {c : Circuit} {gone : List Name} (h : Inv' c gone) (a : AddArgs)
    (hf : a.allowRedef = false ∧ a.addConnected = false) : Inv' (c.add a).1 gone := by
  rcases add_cases c a with ⟨o, m, e, _⟩ | ⟨n, _, hn, hs, _, _, _, e⟩
  · rw [e]; exact h
  · rw [e]
    apply addTail_Inv hf.2
    apply addNodeAttr_fresh_Inv h (hn hf.1)
    rw [← tbl_supported]; exact List.contains_iff_mem.1 hs

theorem addNodeAttr_allTyped {c : Circuit} (h : AllTyped c) (n : Name) (t : String) (o : Option Bool) :
    AllTyped (c.addNodeAttr n { ty := some t, out := o }) := by
  intro m hm
  rw [addNodeAttr_has] at hm
  rw [addNodeAttr_ty?]
  by_cases e : m = n
  · rw [if_pos e]; exact ⟨t, rfl⟩
  · rw [if_neg e]
    have : (m == n) = false := by simpa using e
    rw [this, Bool.or_false] at hm
    exact h m hm

theorem allTyped_congr {c c' : Circuit} (h : AllTyped c) (hn : c'.nodes = c.nodes) : AllTyped c' := by
  intro m hm; rw [has_congr hn] at hm; rw [ty?_congr hn]; exact h m hm

theorem connect_allTyped {c : Circuit} (h : AllTyped c) (us vs : List Name) : AllTyped (c.connect us vs).1 :=
  allTyped_congr h (connect_nodes c us vs)

theorem addTail_class {c : Circuit} {a : AddArgs} {n : Name} (hf : a.addConnected = false) (h : AllTyped c) :
    (addTail c a n).2.1 = .ok ∨ (addTail c a n).2.1 = .valueError := by
  have h1 := addNodeAttr_allTyped h n a.ty (some a.output)
  unfold addTail
  simp only [hf, Bool.false_eq_true, if_false]
  have e : ((Outcome.ok != Outcome.ok) = true) = False := by simp
  simp only [e, if_false]
  split
  · rcases connect_class h1 [n] a.fanout with h' | h'
    · rename_i hne; rw [h'] at hne; simp at hne
    · right; exact h'
  · exact connect_class (connect_allTyped h1 _ _) _ _

theorem add_class {c : Circuit} (h : AllTyped c) (a : AddArgs) (hf : a.addConnected = false) :
    (c.add a).2.1 = .ok ∨ (c.add a).2.1 = .valueError ∨ (c.add a).2.1 = .indexError ∨ (c.add a).2.1 = .fuel := by
  rcases add_cases c a with ⟨o, m, e, ho⟩ | ⟨n, _, hn, hs, _, _, _, e⟩
  · rw [e]
    rcases ho with ho | ⟨ho, _⟩ | ⟨ho, _⟩
    · right; left; exact ho
    · right; right; left; exact ho
    · right; right; right; exact ho
  · rw [e]
    rcases addTail_class (n := n) hf h with h' | h'
    · left; exact h'
    · right; left; exact h'

/-! edges / nodes of `add` for the atomicity statements -/

theorem addPlainBuf_cases (c : Circuit) (f : Name) :
    (c.addPlainBuf f).1 = c ∨ (c.has f = false ∧ (c.addPlainBuf f).1 = c.addNodeAttr f { ty := some "buf", out := some false }) := by
  unfold addPlainBuf
  by_cases h : c.has f = true
  · rw [if_pos h]; left; rfl
  · rw [if_neg h]
    split
    · left; rfl
    · split
      · left; rfl
      · split
        · left; rfl
        · right; exact ⟨by simpa using h, rfl⟩

theorem addPlainBuf_edges (c : Circuit) (f : Name) : (c.addPlainBuf f).1.edges = c.edges := by
  rcases addPlainBuf_cases c f with h | ⟨_, h⟩
  · rw [h]
  · rw [h, addNodeAttr_edges]

theorem addPlainBuf_mono (c : Circuit) (f : Name) {p : Name × Attr} (hp : p ∈ c.nodes) :
    p ∈ (c.addPlainBuf f).1.nodes := by
  rcases addPlainBuf_cases c f with h | ⟨hf, h⟩
  · rw [h]; exact hp
  · rw [h]; exact addNodeAttr_mem_of_fresh _ hf hp

theorem addConnectedNodes_edges (c : Circuit) (fs : List Name) : (c.addConnectedNodes fs).1.edges = c.edges := by
  induction fs generalizing c with
  | nil => rfl
  | cons f fs ih =>
    rw [addConnectedNodes]
    split
    · exact ih c
    · have he := addPlainBuf_edges c f
      split
      · rename_i c' heq; rw [heq] at he; rw [ih c']; exact he
      · exact he

theorem addConnectedNodes_mono (c : Circuit) (fs : List Name) {p : Name × Attr} (hp : p ∈ c.nodes) :
    p ∈ (c.addConnectedNodes fs).1.nodes := by
  induction fs generalizing c with
  | nil => exact hp
  | cons f fs ih =>
    rw [addConnectedNodes]
    split
    · exact ih c hp
    · have he := addPlainBuf_mono c f hp
      split
      · rename_i c' heq; rw [heq] at he; exact ih c' he
      · exact he

theorem connect_empty_right (c : Circuit) (us : List Name) : c.connect us [] = (c, .ok) := by
  unfold connect; simp
theorem connect_empty_left (c : Circuit) (vs : List Name) : c.connect [] vs = (c, .ok) := by
  unfold connect; simp

/-- the two `connect` calls at the end of `add` -/
def addTail3 (c2 : Circuit) (a : AddArgs) (n : Name) : Circuit × Outcome × Name :=
  if (c2.connect [n] a.fanout).2 != .ok then ((c2.connect [n] a.fanout).1, (c2.connect [n] a.fanout).2, n) else
  (((c2.connect [n] a.fanout).1.connect a.fanin [n]).1, ((c2.connect [n] a.fanout).1.connect a.fanin [n]).2, n)

def addR2 (c : Circuit) (a : AddArgs) (n : Name) : Circuit × Outcome :=
  if a.addConnected then
    (c.addNodeAttr n { ty := some a.ty, out := some a.output }).addConnectedNodes (a.fanin ++ a.fanout)
  else (c.addNodeAttr n { ty := some a.ty, out := some a.output }, .ok)

theorem addTail_eq (c : Circuit) (a : AddArgs) (n : Name) :
    addTail c a n = if (addR2 c a n).2 != .ok then ((addR2 c a n).1, (addR2 c a n).2, n)
      else addTail3 (addR2 c a n).1 a n := rfl

theorem addTail3_nodes (c2 : Circuit) (a : AddArgs) (n : Name) : (addTail3 c2 a n).1.nodes = c2.nodes := by
  unfold addTail3
  split
  · exact connect_nodes _ _ _
  · simp only []; rw [connect_nodes, connect_nodes]

theorem addTail3_name (c2 : Circuit) (a : AddArgs) (n : Name) : (addTail3 c2 a n).2.2 = n := by
  unfold addTail3
  split <;> rfl

theorem addTail3_reject_edges (c2 : Circuit) (a : AddArgs) (n : Name) (h : (addTail3 c2 a n).2.1 ≠ .ok)
    (hio : a.fanout = [] ∨ a.fanin = []) : (addTail3 c2 a n).1.edges = c2.edges := by
  unfold addTail3 at h ⊢
  by_cases h3 : (c2.connect [n] a.fanout).2 = .ok
  · have : ¬ ((c2.connect [n] a.fanout).2 != .ok) = true := by simp [h3]
    rw [if_neg this] at h ⊢
    simp only [] at h ⊢
    rcases hio with ho | hi
    · rw [connect_reject_unchanged' _ _ _ h]
      rw [ho, connect_empty_right]
    · rw [hi, connect_empty_left] at h; exact absurd rfl h
  · have : ((c2.connect [n] a.fanout).2 != .ok) = true := by simpa using h3
    rw [if_pos this]
    simp only []
    rw [connect_reject_unchanged' _ _ _ h3]

theorem addR2_edges (c : Circuit) (a : AddArgs) (n : Name) : (addR2 c a n).1.edges = c.edges := by
  unfold addR2
  split
  · rw [addConnectedNodes_edges, addNodeAttr_edges]
  · exact addNodeAttr_edges c n _

theorem addR2_mono (c : Circuit) (a : AddArgs) {n : Name} (hn : c.has n = false) {p : Name × Attr}
    (hp : p ∈ c.nodes) : p ∈ (addR2 c a n).1.nodes := by
  unfold addR2
  split
  · exact addConnectedNodes_mono _ _ (addNodeAttr_mem_of_fresh _ hn hp)
  · exact addNodeAttr_mem_of_fresh _ hn hp

theorem addTail_reject_edges (c : Circuit) (a : AddArgs) (n : Name) (h : (addTail c a n).2.1 ≠ .ok)
    (hio : a.fanout = [] ∨ a.fanin = []) : (addTail c a n).1.edges = c.edges := by
  rw [addTail_eq] at h ⊢
  split
  · exact addR2_edges c a n
  · rename_i hne
    rw [if_neg hne] at h
    rw [addTail3_reject_edges _ _ _ h hio]; exact addR2_edges c a n

theorem addTail_mono (c : Circuit) (a : AddArgs) {n : Name} (hn : c.has n = false) {p : Name × Attr}
    (hp : p ∈ c.nodes) : p ∈ (addTail c a n).1.nodes := by
  rw [addTail_eq]
  split
  · exact addR2_mono c a hn hp
  · rw [addTail3_nodes]; exact addR2_mono c a hn hp

theorem addTail_name (c : Circuit) (a : AddArgs) (n : Name) : (addTail c a n).2.2 = n := by
  rw [addTail_eq]
  split
  · rfl
  · exact addTail3_name _ _ _

theorem add_reject_edges (c : Circuit) (a : AddArgs) (h : (c.add a).2.1 ≠ .ok)
    (hio : a.fanout = [] ∨ a.fanin = []) : (c.add a).1.edges = c.edges := by
  rcases add_cases c a with ⟨o, m, e, _⟩ | ⟨n, _, _, _, _, _, _, e⟩
  · rw [e]
  · rw [e] at h ⊢; exact addTail_reject_edges c a n h hio

theorem add_uid_fresh' (c : Circuit) (a : AddArgs) (hu : a.uid = true) :
    (∀ p ∈ c.nodes, p ∈ (c.add a).1.nodes) ∧ ((c.add a).2.1 = .ok → c.has (c.add a).2.2 = false) := by
  rcases add_cases c a with ⟨o, m, e, ho⟩ | ⟨n, hn, _, _, _, _, _, e⟩
  · rw [e]
    refine ⟨fun p hp => hp, ?_⟩
    intro hok; simp only [] at hok
    rcases ho with ho | ⟨ho, _⟩ | ⟨ho, _⟩ <;> (rw [ho] at hok; cases hok)
  · rw [hu] at hn; simp only [if_true] at hn
    have hfresh := uid_fresh hn
    rw [e]
    refine ⟨fun p hp => addTail_mono c a hfresh hp, fun _ => ?_⟩
    rw [addTail_name]; exact hfresh

end CG
