/- C14 (character level, fast parser) helper: the declaration pattern `\b(KW)\s(.+?);` (DOTALL) on the lines of a
   module text: it hits exactly the `KW NAME;` declarations -/
import CG.Proofs.FastTextDefs
import CG.Proofs.BenchTextSpecGate
import CG.Proofs.VModTextMatch
set_option linter.unusedSimpArgs false
set_option linter.unusedVariables false
namespace CG
namespace FT
open Regex BenchText

variable (ctx : Ctx) {kw : List Char}

/-! ### characters -/

theorem decl_idQ_mem (x : Char) : idQ.mem x = true ↔
    ((97 ≤ x.toNat ∧ x.toNat ≤ 122) ∨ (65 ≤ x.toNat ∧ x.toNat ≤ 90) ∨ (48 ≤ x.toNat ∧ x.toNat ≤ 57) ∨ x.toNat = 95 ∨
      x.toNat = 39) := by
  simp only [CSet.mem, idQ, List.any_cons, List.any_nil, Bool.or_false, Bool.false_eq_true, if_false,
    Bool.or_eq_true, Bool.and_eq_true, decide_eq_true_eq, le_iff, Char.reduceToNat]
  omega

theorem decl_idQ_cases {x : Char} (h : idQ.mem x = true) : idC.mem x = true ∨ x = '\'' := by
  rw [decl_idQ_mem] at h
  by_cases hq : x.toNat = 39
  · right
    exact (eq_iff _ _).mpr (by rw [hq]; rfl)
  · left
    rw [idC_mem]; omega

theorem decl_idQ_of_idC {x : Char} (h : idC.mem x = true) : idQ.mem x = true := by
  rw [idC_mem] at h; rw [decl_idQ_mem]; omega

theorem RhsL.decl_allQ {w : List Char} (h : RhsL w) : ∀ y ∈ w, idQ.mem y = true := by
  obtain ⟨x, r, rfl, hx, hr⟩ := h
  intro y hy
  rcases List.mem_cons.mp hy with rfl | hy
  · exact decl_idQ_of_idC hx
  · exact hr y hy

theorem decl_kw_facts (hk : kw = kInput ∨ kw = kOutput) :
    AllIdC kw ∧ (∃ a r, kw = a :: r ∧ idC.mem a = true) ∧ kAssign ≠ kw ∧ VMT.kwE ≠ kw := by
  rcases hk with rfl | rfl
  · exact ⟨by unfold AllIdC; decide, ⟨_, _, rfl, by decide⟩, by decide, by decide⟩
  · exact ⟨by unfold AllIdC; decide, ⟨_, _, rfl, by decide⟩, by decide, by decide⟩

theorem decl_lastW_snoc (a : List Char) (z : Char) : VMT.lastW (a ++ [z]) = idC.mem z := by
  unfold VMT.lastW
  rw [List.getLast?_append]
  rfl

/-! ### fuel -/

theorem need_rxDecl (hk : kw = kInput ∨ kw = kOutput) (s : Array Char) : need s.size (rxDecl kw) ≤ fuelFor s := by
  rcases hk with rfl | rfl
  · simp only [rxDecl, need, lit, kInput, ch, fuelFor]
    omega
  · simp only [rxDecl, need, lit, kOutput, ch, fuelFor]
    omega

/-! ### the shape of a declarative match -/

theorem decl_den_pre {s s' : List Char} {c' : Caps} (h : Den ctx (rxDecl kw) s [] s' c') :
    wbAt ctx (ctx.s.size - s.length) = true ∧ ∃ x s1, s = kw ++ x :: s1 ∧ wsS.mem x = true := by
  obtain ⟨s1, c1, ⟨hw, rfl, rfl⟩, s2, c2, ⟨c3, hl, rfl⟩, s3, c4, ⟨x, rfl, hx, rfl⟩, _⟩ := h
  obtain ⟨e, _⟩ := (den_lit ctx kw _ _ _ _).1 hl
  exact ⟨hw, x, s3, e, hx⟩

/-- a declarative match starts with `KW` followed by a whitespace character, and the character before is not a word
    character -/
theorem decl_den_shape (hk : kw = kInput ∨ kw = kOutput) {pre s s' : List Char} {c' : Caps} (ht : txt ctx = pre ++ s)
    (h : Den ctx (rxDecl kw) s [] s' c') :
    VMT.lastW pre = false ∧ ∃ x s1, s = kw ++ x :: s1 ∧ wsS.mem x = true := by
  obtain ⟨hw, x, s1, e, hx⟩ := decl_den_pre ctx h
  refine ⟨?_, x, s1, e, hx⟩
  obtain ⟨_, ⟨a, r, rfl, ha⟩, _⟩ := decl_kw_facts hk
  rw [VMT.wbAt_split ctx pre s ht] at hw
  have hh : VMT.headW s = true := by rw [e]; exact ha
  rw [hh] at hw
  cases hl : VMT.lastW pre with
  | false => rfl
  | true => rw [hl] at hw; cases hw

/-! ### lines in which the pattern finds nothing -/

/-- a text made of words (runs of word characters, possibly empty) each followed by a non-word character, in which
    no word equal to `kw` is followed by a whitespace character -/
inductive DeclGood (kw : List Char) : List Char → Prop
  | nil : DeclGood kw []
  | tok (w : List Char) (d : Char) (l : List Char) : AllIdC w → idC.mem d = false →
      (w ≠ kw ∨ wsS.mem d = false) → DeclGood kw l → DeclGood kw (w ++ d :: l)

theorem DeclGood.d (hk : kw = kInput ∨ kw = kOutput) (d : Char) {l : List Char} (hd : idC.mem d = false)
    (hl : DeclGood kw l) : DeclGood kw (d :: l) := by
  obtain ⟨_, ⟨a, r, e, _⟩, _⟩ := decl_kw_facts hk
  exact DeclGood.tok [] d l (by intro x hx; cases hx) hd (Or.inl (by rw [e]; simp)) hl

theorem decl_good_miss (hk : kw = kInput ∨ kw = kOutput) {l : List Char} (hg : DeclGood kw l) :
    ∀ pre u t rest s' c', txt ctx = pre ++ (u ++ (t ++ rest)) → u ++ t = l → t ≠ [] →
      ¬ Den ctx (rxDecl kw) (t ++ rest) [] s' c' := by
  obtain ⟨hkall, ⟨a, r, hkc, ha⟩, _⟩ := decl_kw_facts hk
  induction hg with
  | nil =>
    intro pre u t rest s' c' _ hu ht
    simp only [List.append_eq_nil_iff] at hu
    exact absurd hu.2 ht
  | tok w d l hw hd hcond hl ih =>
    intro pre u t rest s' c' htxt hu ht hden
    obtain ⟨hlast, x, s1, hs, hx⟩ := decl_den_shape ctx hk (pre := pre ++ u) (by rw [htxt, List.append_assoc]) hden
    rcases List.append_eq_append_iff.mp hu with ⟨a', h1, h2⟩ | ⟨c'', h1, h2⟩
    · have hsp : a' ++ d :: (l ++ rest) = kw ++ x :: s1 := by rw [← hs, h2]; simp
      have ha' : AllIdC a' := fun y hy => hw y (by rw [h1]; exact List.mem_append_right _ hy)
      obtain ⟨e1, e2, _⟩ := split_first hsp (hkall.not_mem hd)
        (fun hm => not_ws_of_idC (ha' x hm) hx)
      rcases List.eq_nil_or_concat u with rfl | ⟨u0, z, rfl⟩
      · simp only [List.nil_append] at h1
        rcases hcond with hc | hc
        · exact hc (by rw [h1, e1])
        · rw [e2, hx] at hc; cases hc
      · rw [List.concat_eq_append, ← List.append_assoc, decl_lastW_snoc] at hlast
        have : idC.mem z = true := hw z (by rw [h1, List.concat_eq_append]; simp)
        rw [this] at hlast; cases hlast
    · cases c'' with
      | nil =>
        simp only [List.nil_append] at h2
        rw [← h2, hkc] at hs
        simp only [List.cons_append, List.cons.injEq] at hs
        rw [hs.1, ha] at hd; cases hd
      | cons y c'' =>
        simp only [List.cons_append, List.cons.injEq] at h2
        obtain ⟨rfl, rfl⟩ := h2
        refine ih (pre ++ (w ++ [d])) c'' t rest s' c' ?_ rfl ht hden
        rw [htxt, h1]
        simp

theorem decl_miss_of_good (hk : kw = kInput ∨ kw = kOutput) {l : List Char} (hg : DeclGood kw l) :
    PieceOK ctx (rxDecl kw) 2 ⟨[], l, none⟩ :=
  pieceOK_miss_ctx ctx _ 2 l (decl_good_miss ctx hk hg)

/-- a right-hand side (identifier characters and `'`) followed by a non-blank delimiter -/
theorem decl_good_idq (hk : kw = kInput ∨ kw = kOutput) : ∀ (r w : List Char), AllIdC w → (∀ y ∈ r, idQ.mem y = true) →
    ∀ (d : Char) (l : List Char), idC.mem d = false → wsS.mem d = false → DeclGood kw l → DeclGood kw (w ++ (r ++ d :: l))
  | [], w, hw, _, d, l, hd, hws, hl => DeclGood.tok w d l hw hd (Or.inr hws) hl
  | y :: r, w, hw, hr, d, l, hd, hws, hl => by
    have hr' : ∀ z ∈ r, idQ.mem z = true := fun z hz => hr z (List.mem_cons_of_mem _ hz)
    rcases decl_idQ_cases (hr y (by simp)) with hy | rfl
    · have := decl_good_idq hk r (w ++ [y]) (by
        intro z hz
        rcases List.mem_append.mp hz with hz | hz
        · exact hw z hz
        · rw [List.mem_singleton.mp hz]; exact hy) hr' d l hd hws hl
      simpa using this
    · exact DeclGood.tok w '\'' _ hw (by decide) (Or.inr (by decide)) (decl_good_idq hk r [] (by intro x hx; cases hx) hr' d l hd hws hl)

/-- an item of a comma-separated list: followed by a non-blank delimiter it is harmless -/
def DeclItem (kw it : List Char) : Prop :=
  ∀ (d : Char) (l : List Char), idC.mem d = false → wsS.mem d = false → DeclGood kw l → DeclGood kw (it ++ d :: l)

theorem decl_item_rhs (hk : kw = kInput ∨ kw = kOutput) {r : List Char} (hr : ∀ y ∈ r, idQ.mem y = true) : DeclItem kw r :=
  fun d l hd hws hl => decl_good_idq hk r [] (by intro x hx; cases hx) hr d l hd hws hl

theorem decl_item_pin (hk : kw = kInput ∨ kw = kOutput) {n o : List Char} (hn : IdentL n) (ho : o = [] ∨ RhsL o) :
    DeclItem kw (pinT n o) := by
  intro d l hd hws hl
  have ho' : ∀ y ∈ o, idQ.mem y = true := by
    rcases ho with rfl | ho
    · intro y hy; cases hy
    · exact ho.decl_allQ
  have h1 : DeclGood kw (o ++ ')' :: d :: l) :=
    decl_good_idq hk o [] (by intro x hx; cases hx) ho' ')' _ (by decide) (by decide) (DeclGood.d hk d hd hl)
  have h2 : DeclGood kw ('.' :: (n ++ '(' :: (o ++ ')' :: d :: l))) :=
    DeclGood.d hk '.' (by decide) (DeclGood.tok n '(' _ hn.all (by decide) (Or.inr (by decide)) h1)
  have e : pinT n o ++ d :: l = '.' :: (n ++ '(' :: (o ++ ')' :: d :: l)) := by simp [pinT]
  rw [e]; exact h2

theorem decl_commaSep_cons2 (w w' : List Char) (ws : List (List Char)) :
    commaSep (w :: w' :: ws) = w ++ ',' :: ' ' :: commaSep (w' :: ws) := by
  simp [commaSep, List.intercalate]

theorem decl_good_commaSep (hk : kw = kInput ∨ kw = kOutput) : ∀ (its : List (List Char)), (∀ it ∈ its, DeclItem kw it) →
    DeclItem kw (commaSep its)
  | [], _ => by
    intro d l hd hws hl
    have : commaSep [] = ([] : List Char) := by simp [commaSep, List.intercalate]
    rw [this]
    exact DeclGood.d hk d hd hl
  | [w], h => by
    have : commaSep [w] = w := by simp [commaSep, List.intercalate]
    rw [this]
    exact h w (by simp)
  | w :: w' :: ws, h => by
    intro d l hd hws hl
    have ih := decl_good_commaSep hk (w' :: ws) (fun it hit => h it (List.mem_cons_of_mem _ hit)) d l hd hws hl
    have := h w (by simp) ',' _ (by decide) (by decide) (DeclGood.d hk ' ' (by decide) ih)
    rw [decl_commaSep_cons2]
    simpa using this

theorem decl_nl (hk : kw = kInput ∨ kw = kOutput) : PieceOK ctx (rxDecl kw) 2 ⟨[], ['\n'], none⟩ :=
  decl_miss_of_good ctx hk (DeclGood.d hk '\n' (by decide) DeclGood.nil)

/-! ### the hit -/

theorem decl_m_seq (F : Nat) (a b : Re) (pos : Nat) (caps : Caps) (k : Nat → Caps → Option (Nat × Caps)) :
    m ctx (F + 1) (.seq a b) pos caps k = m ctx F a pos caps (fun p c => m ctx F b p c k) := rfl
theorem decl_m_group (F i : Nat) (r : Re) (pos : Nat) (caps : Caps) (k : Nat → Caps → Option (Nat × Caps)) :
    m ctx (F + 1) (.group i r) pos caps k = m ctx F r pos caps (fun p c => k p ((i, pos, p) :: c)) := rfl

theorem decl_m_ch_hit (F i : Nat) (c : Char) (caps : Caps) (tl : List Char) (h : (txt ctx).drop i = c :: tl) :
    m ctx (F + 1) (ch c) i caps k0 = some (i + 1, caps) := by
  have hlt : i < ctx.s.size := by
    have := congrArg List.length h
    rw [drop_length, List.length_cons] at this
    omega
  rw [drop_cons ctx hlt] at h
  injection h with e1 e2
  have hm : CSet.mem { ranges := [(c, c)] } ctx.s[i] = true := (ch_mem c _).2 e1
  simp only [m, ch, hlt, dite_true, hm, if_true, k0]

theorem decl_m_ch_miss (F i : Nat) (c d : Char) (caps : Caps) (tl : List Char) (h : (txt ctx).drop i = d :: tl) (hne : d ≠ c) :
    m ctx (F + 1) (ch c) i caps k0 = none := by
  have hlt : i < ctx.s.size := by
    have := congrArg List.length h
    rw [drop_length, List.length_cons] at this
    omega
  rw [drop_cons ctx hlt] at h
  injection h with e1 e2
  have hm : CSet.mem { ranges := [(c, c)] } ctx.s[i] = false := by
    cases hh : CSet.mem { ranges := [(c, c)] } ctx.s[i] with
    | false => rfl
    | true => exact absurd (e1 ▸ (ch_mem c _).1 hh) hne
  simp only [m, ch, hlt, dite_true, hm, Bool.false_eq_true, if_false]

theorem decl_grp2 (a1 b1 a2 b2 : Nat) :
    grp ctx 2 [(2, a2, b2), (1, a1, b1)] = [slice ctx.s a1 b1, slice ctx.s a2 b2] := by
  simp [grp, capOf, List.range, List.range.loop, List.find?]

theorem decl_slice_at {a : Nat} {g post : List Char} (h : (txt ctx).drop a = g ++ post) :
    slice ctx.s a (a + g.length) = String.ofList g := by
  unfold slice
  have : ctx.s.toList = txt ctx := rfl
  rw [this, h, Nat.add_sub_cancel_left, List.take_left']
  rfl

/-- `  KW NAME;` : skipped two blanks, then a match `KW NAME;` with groups KW and NAME (the lazy `.+?` stops at the first `;`) -/
theorem decl_hit (hk : kw = kInput ∨ kw = kOutput) (hd : ctx.dotall = true) {n : List Char} (hn : IdentL n) :
    PieceOK ctx (rxDecl kw) 2 ⟨[' ', ' '], kw ++ ' ' :: (n ++ [';']), some [String.ofList kw, String.ofList n]⟩ := by
  obtain ⟨hkall, ⟨a, r, hkc, ha⟩, _, _⟩ := decl_kw_facts hk
  intro p rest hp hdrop
  have hdrop : (txt ctx).drop p = [' ', ' '] ++ ((kw ++ ' ' :: (n ++ [';'])) ++ rest) := hdrop
  constructor
  · -- the two blanks
    refine noneIn_of_den ctx _ [' ', ' '] ?_ p _ hp hdrop
    intro u t rest' s' c' hu ht hden
    obtain ⟨_, x, s1, e, _⟩ := decl_den_pre ctx hden
    have hb : ∀ y ∈ t, y = ' ' := by
      intro y hy
      have := mem_of_suf hu hy
      simpa using this
    cases t with
    | nil => exact ht rfl
    | cons y t =>
      rw [hkc] at e
      simp only [List.cons_append, List.cons.injEq] at e
      have := hb y (by simp)
      rw [← e.1, this] at ha
      exact absurd ha (by decide)
  · show (kw ++ ' ' :: (n ++ [';'])) ≠ [] ∧ ∃ caps, m ctx (fuelFor ctx.s) (rxDecl kw) (p + 2) [] k0 =
        some (p + 2 + (kw ++ ' ' :: (n ++ [';'])).length, caps) ∧ grp ctx 2 caps = [String.ofList kw, String.ofList n]
    refine ⟨by simp, ?_⟩
    have hqle : p + 2 ≤ ctx.s.size := le_of_drop ctx hp hdrop
    have hq : (txt ctx).drop (p + 2) = kw ++ ' ' :: (n ++ ';' :: rest) := by
      have := drop_add ctx hdrop
      simpa using this
    have hsemi : ';' ∉ n := hn.all.not_mem (by decide)
    -- existence of a result
    have hex : ∃ c0, Den ctx (rxDecl kw) ((txt ctx).drop (p + 2)) [] rest c0 := by
      have htxt : txt ctx = ((txt ctx).take p ++ [' ', ' ']) ++ (kw ++ ' ' :: (n ++ ';' :: rest)) := by
        have : txt ctx = (txt ctx).take p ++ (txt ctx).drop p := (List.take_append_drop _ _).symm
        rw [hdrop] at this
        rw [List.append_assoc]
        simpa using this
      have hwb : wbAt ctx (ctx.s.size - (kw ++ ' ' :: (n ++ ';' :: rest)).length) = true := by
        rw [VMT.wbAt_split ctx _ _ htxt]
        have h1 : VMT.lastW ((txt ctx).take p ++ [' ', ' ']) = false := by
          have : (txt ctx).take p ++ [' ', ' '] = ((txt ctx).take p ++ [' ']) ++ [' '] := by simp
          rw [this, decl_lastW_snoc]
          decide
        have h2 : VMT.headW (kw ++ ' ' :: (n ++ ';' :: rest)) = true := by rw [hkc]; exact ha
        rw [h1, h2]; rfl
      obtain ⟨x, nr, rfl, _, _⟩ := hn
      rw [hq]
      refine Exists.intro [(2, ctx.s.size - (x :: nr ++ ';' :: rest).length, ctx.s.size - (';' :: rest).length),
        (1, ctx.s.size - (kw ++ ' ' :: (x :: nr ++ ';' :: rest)).length,
          ctx.s.size - (' ' :: (x :: nr ++ ';' :: rest)).length)] ?h
      case h =>
        unfold rxDecl
        refine ⟨_, _, ⟨hwb, rfl, rfl⟩, _, _, ⟨_, (den_lit ctx kw _ _ _ _).2 ⟨rfl, rfl⟩, rfl⟩, _, _,
          ⟨' ', rfl, ws_space, rfl⟩, _, _, ⟨_, ?_, rfl⟩, (den_ch ctx ';' _ _ _ _).2 ⟨rfl, rfl⟩⟩
        exact ⟨nr ++ ';' :: rest, _, ⟨x, rfl, by simp [hd], rfl⟩, VMT.den_star_any ctx hd false _ nr _⟩
    obtain ⟨c0, hden0⟩ := hex
    have hsome := m_complete ctx (rxDecl kw) (fuelFor ctx.s) (p + 2) [] k0 rest c0 hqle (need_rxDecl hk ctx.s) hden0 rfl
    cases hm : m ctx (fuelFor ctx.s) (rxDecl kw) (p + 2) [] k0 with
    | none => rw [hm] at hsome; cases hsome
    | some x =>
      obtain ⟨f, hf⟩ : ∃ f, fuelFor ctx.s = f + 1 + 1 + 1 + 1 + 1 := ⟨fuelFor ctx.s - 5, by unfold fuelFor; omega⟩
      have hm0 := hm
      rw [hf] at hm
      unfold rxDecl at hm
      -- `\b`
      rw [decl_m_seq] at hm
      obtain ⟨sA, cA, ⟨-, rfl, rfl⟩, hm⟩ := m_sound ctx _ _ (p + 2) [] _ x hqle hm
      try dsimp only at hm
      rw [pos_drop ctx hqle] at hm
      -- `(KW)`
      rw [decl_m_seq] at hm
      obtain ⟨sB, cB, ⟨c1, hB1, rfl⟩, hm⟩ := m_sound ctx _ _ (p + 2) [] _ x hqle hm
      obtain ⟨eB, rfl⟩ := (den_lit ctx kw _ _ _ _).1 hB1
      have hsB : sB = ' ' :: (n ++ ';' :: rest) := by
        rw [hq] at eB
        exact (List.append_cancel_left eB).symm
      subst hsB
      try dsimp only at hm
      have hP1 : ctx.s.size - (' ' :: (n ++ ';' :: rest)).length = p + 2 + kw.length := end_pos ctx hqle hq
      have hdP1 : (txt ctx).drop (p + 2 + kw.length) = ' ' :: (n ++ ';' :: rest) := drop_add ctx hq
      have hP1le : p + 2 + kw.length ≤ ctx.s.size := le_of_drop ctx hqle hq
      rw [pos_drop ctx hqle, hP1] at hm
      -- `\s`
      rw [decl_m_seq] at hm
      obtain ⟨sC, cC, ⟨y, eC, -, rfl⟩, hm⟩ := m_sound ctx _ _ _ _ _ x hP1le hm
      rw [hdP1] at eC
      injection eC with _ eC
      subst eC
      try dsimp only at hm
      have hdP1' : (txt ctx).drop (p + 2 + kw.length) = [' '] ++ (n ++ ';' :: rest) := hdP1
      have hP2 : ctx.s.size - (n ++ ';' :: rest).length = p + 2 + kw.length + 1 := end_pos ctx hP1le hdP1'
      have hdP2 : (txt ctx).drop (p + 2 + kw.length + 1) = n ++ ';' :: rest := drop_add ctx hdP1'
      have hP2le : p + 2 + kw.length + 1 ≤ ctx.s.size := le_of_drop ctx hP1le hdP1'
      rw [hP2] at hm
      -- `(.+?);`
      rw [decl_m_seq, decl_m_group] at hm
      obtain ⟨n0, h1, h2, h3⟩ := lazy_plus_sound ctx hd _ _ x _ _ hm
      try dsimp only at h1 h2
      have hnpos : 0 < n.length := List.length_pos_iff.mpr hn.ne_nil
      have hdropj : ∀ j, (txt ctx).drop (p + 2 + kw.length + 1 + j) = (n ++ ';' :: rest).drop j := by
        intro j
        rw [← List.drop_drop, hdP2]
      have hin : ∀ j, j < n.length → ∃ y tl, y ∈ n ∧ (txt ctx).drop (p + 2 + kw.length + 1 + j) = y :: tl := by
        intro j hj
        rw [hdropj, List.drop_append_of_le_length (by omega), List.drop_eq_getElem_cons hj]
        exact ⟨n[j], _, List.getElem_mem hj, rfl⟩
      have hat : (txt ctx).drop (p + 2 + kw.length + 1 + n.length) = ';' :: rest := by
        rw [hdropj, List.drop_left]
      have hn0 : 1 + n0 = n.length := by
        rcases Nat.lt_trichotomy (1 + n0) n.length with hlt | heq | hgt
        · obtain ⟨y, tl, hy, hdy⟩ := hin (1 + n0) hlt
          rw [← Nat.add_assoc] at hdy
          rw [decl_m_ch_miss ctx _ _ ';' y _ tl hdy (fun e => hsemi (e ▸ hy))] at h1
          cases h1
        · exact heq
        · have h2' := h2 (n.length - 1) (by omega)
          have e : p + 2 + kw.length + 1 + 1 + (n.length - 1) = p + 2 + kw.length + 1 + n.length := by omega
          rw [e, decl_m_ch_hit ctx _ _ ';' _ rest hat] at h2'
          cases h2'
      have e : p + 2 + kw.length + 1 + 1 + n0 = p + 2 + kw.length + 1 + n.length := by omega
      rw [e, decl_m_ch_hit ctx _ _ ';' _ rest hat] at h1
      have hx := Option.some.inj h1
      subst hx
      refine ⟨[(2, p + 2 + kw.length + 1, p + 2 + kw.length + 1 + n.length), (1, p + 2, p + 2 + kw.length)], ?_, ?_⟩
      · have e2 : p + 2 + (kw ++ ' ' :: (n ++ [';'])).length = p + 2 + kw.length + 1 + n.length + 1 := by
          simp only [List.length_append, List.length_cons, List.length_nil]
          omega
        rw [e2]
      · rw [decl_grp2]
        have e1 : (txt ctx).drop (p + 2) = kw ++ (' ' :: (n ++ ';' :: rest)) := hq
        rw [decl_slice_at ctx e1, decl_slice_at ctx hdP2]

theorem decl_miss_decl (hk : kw = kInput ∨ kw = kOutput) {kw' n : List Char} (hkw' : AllLetter kw') (hne : kw' ≠ kw)
    (hn : IdentL n) : PieceOK ctx (rxDecl kw) 2 ⟨[], declLine kw' n, none⟩ := by
  apply decl_miss_of_good ctx hk
  show DeclGood kw (' ' :: ' ' :: (kw' ++ ' ' :: (n ++ ';' :: '\n' :: [])))
  exact DeclGood.d hk ' ' (by decide) (DeclGood.d hk ' ' (by decide) (DeclGood.tok kw' ' ' _ (fun x hx => idC_of_letter (hkw' x hx))
    (by decide) (Or.inl hne) (DeclGood.tok n ';' _ hn.all (by decide) (Or.inr (by decide))
      (DeclGood.d hk '\n' (by decide) DeclGood.nil))))

theorem decl_miss_asg (hk : kw = kInput ∨ kw = kOutput) {l r : List Char} (hl : IdentL l) (hlk : l ≠ kw) (hr : RhsL r) :
    PieceOK ctx (rxDecl kw) 2 ⟨[], asgLine l r, none⟩ := by
  apply decl_miss_of_good ctx hk
  obtain ⟨_, _, hka, _⟩ := decl_kw_facts hk
  show DeclGood kw (' ' :: ' ' :: (kAssign ++ ' ' :: (l ++ ' ' :: '=' :: ' ' :: (r ++ ';' :: '\n' :: []))))
  exact DeclGood.d hk ' ' (by decide) (DeclGood.d hk ' ' (by decide) (DeclGood.tok kAssign ' ' _ (by unfold AllIdC; decide)
    (by decide) (Or.inl hka) (DeclGood.tok l ' ' _ hl.all (by decide) (Or.inl hlk) (DeclGood.d hk '=' (by decide)
      (DeclGood.d hk ' ' (by decide) (decl_item_rhs hk hr.decl_allQ ';' _ (by decide) (by decide)
        (DeclGood.d hk '\n' (by decide) DeclGood.nil)))))))

theorem decl_miss_gate (hk : kw = kInput ∨ kw = kOutput) {ty inst : List Char} {ws : List (List Char)} (hty : IdentL ty)
    (htk : ty ≠ kw) (hinst : IdentL inst) (hws : ∀ w ∈ ws, RhsL w) :
    PieceOK ctx (rxDecl kw) 2 ⟨[], gateLine ty inst (commaSep ws), none⟩ := by
  apply decl_miss_of_good ctx hk
  show DeclGood kw (' ' :: ' ' :: (ty ++ ' ' :: (inst ++ '(' :: (commaSep ws ++ ')' :: ';' :: '\n' :: []))))
  exact DeclGood.d hk ' ' (by decide) (DeclGood.d hk ' ' (by decide) (DeclGood.tok ty ' ' _ hty.all (by decide) (Or.inl htk)
    (DeclGood.tok inst '(' _ hinst.all (by decide) (Or.inr (by decide))
      (decl_good_commaSep hk ws (fun w hw => decl_item_rhs hk (hws w hw).decl_allQ) ')' _ (by decide) (by decide)
        (DeclGood.d hk ';' (by decide) (DeclGood.d hk '\n' (by decide) DeclGood.nil))))))

theorem decl_miss_bb (hk : kw = kInput ∨ kw = kOutput) {ty inst : List Char} {ps : List (List Char × List Char)}
    (hty : IdentL ty) (htk : ty ≠ kw) (hinst : IdentL inst) (hik : inst ≠ kw)
    (hps : ∀ q ∈ ps, IdentL q.1 ∧ (q.2 = [] ∨ RhsL q.2)) :
    PieceOK ctx (rxDecl kw) 2 ⟨[], bbLine ty inst (pinsT ps), none⟩ := by
  apply decl_miss_of_good ctx hk
  show DeclGood kw (' ' :: ' ' :: (ty ++ ' ' :: (inst ++ ' ' :: '(' :: (pinsT ps ++ ')' :: ';' :: '\n' :: []))))
  have hit : ∀ it ∈ ps.map (fun q => pinT q.1 q.2), DeclItem kw it := by
    intro it hit
    obtain ⟨q, hq, rfl⟩ := List.mem_map.mp hit
    exact decl_item_pin hk (hps q hq).1 (hps q hq).2
  exact DeclGood.d hk ' ' (by decide) (DeclGood.d hk ' ' (by decide) (DeclGood.tok ty ' ' _ hty.all (by decide) (Or.inl htk)
    (DeclGood.tok inst ' ' _ hinst.all (by decide) (Or.inl hik) (DeclGood.d hk '(' (by decide)
      (decl_good_commaSep hk _ hit ')' _ (by decide) (by decide)
        (DeclGood.d hk ';' (by decide) (DeclGood.d hk '\n' (by decide) DeclGood.nil)))))))

/-- the closing `endmodule\n` at the very end of the text -/
theorem decl_tail (hk : kw = kInput ∨ kw = kOutput) {p : Nat} (hp : p ≤ ctx.s.size) (h : (txt ctx).drop p = VMT.kwE ++ ['\n']) :
    ∀ i, p ≤ i → i ≤ ctx.s.size → m ctx (fuelFor ctx.s) (rxDecl kw) i [] k0 = none := by
  obtain ⟨_, ⟨a, r, hkc, _⟩, _, hke⟩ := decl_kw_facts hk
  have hg : DeclGood kw (VMT.kwE ++ '\n' :: []) :=
    DeclGood.tok VMT.kwE '\n' [] (by unfold AllIdC; decide) (by decide) (Or.inl hke) DeclGood.nil
  have hok := decl_miss_of_good ctx hk hg p [] hp (by simpa using h)
  have hnone : NoneIn ctx (rxDecl kw) (p + 0) (p + 0 + (VMT.kwE ++ '\n' :: []).length) := hok.2
  have hsz : ctx.s.size = p + (VMT.kwE ++ ['\n']).length := by
    have := congrArg List.length h
    rw [drop_length] at this
    omega
  intro i h1 h2
  by_cases hlt : i < ctx.s.size
  · exact hnone i (by omega) (by rw [hsz] at hlt; simpa using hlt)
  · have : i = ctx.s.size := by omega
    subst this
    apply m_none ctx _ _ _ (Nat.le_refl _)
    intro s' c' hden
    obtain ⟨_, x, s1, e, _⟩ := decl_den_pre ctx hden
    have hl := congrArg List.length e
    rw [drop_length, hkc] at hl
    simp at hl

end FT
end CG
