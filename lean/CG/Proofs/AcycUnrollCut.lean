/- C18 helpers: the cut circuit `c_cut` of `acyclic_unroll` -/
import CG.Proofs.AcycUnrollOps
import CG.Proofs.QueryKahn
set_option linter.unusedSimpArgs false
set_option linter.unusedVariables false
namespace CG
namespace AU
open Circuit
open Tx (addC)

def aux (f : Name) : Name := "aux_in_" ++ f
def auxAttr : Attr := { ty := some "buf", out := some false }

theorem aux_inj {a b : Name} (h : aux a = aux b) : a = b := (String.append_right_inj _).1 h

/-- one round of the cutting loop -/
def cutStep (c : Circuit) (ord : Ord) (cc : Circuit) (f : Name) : E Circuit :=
  addC (cc.disconnect [f] (ord (dedup (c.fanout f))))
    { n := "aux_in_" ++ f, ty := "buf", fanout := ord (dedup (c.fanout f)) }

structure CutInv (c : Circuit) (L : List Name) (cc : Circuit) : Prop where
  nodes : cc.nodes = c.nodes ++ L.map (fun f => (aux f, auxAttr))
  mem : ∀ e, e ∈ cc.edges ↔ (e ∈ c.edges ∧ e.1 ∉ L) ∨ (∃ f ∈ L, e.1 = aux f ∧ (f, e.2) ∈ c.edges)
  nodupE : cc.edges.Nodup
  bbs : cc.bbs = c.bbs
  fresh : ∀ g ∈ L, c.has (aux g) = false

theorem cutInv_nil (c : Circuit) (hc : WF c) : CutInv c [] c := by
  refine ⟨by simp, ?_, hc.edgesNodup, rfl, fun g hg => by cases hg⟩
  intro e
  constructor
  · intro h; exact Or.inl ⟨h, by simp⟩
  · rintro (h | ⟨f, hf, _⟩)
    · exact h.1
    · cases hf

theorem has_append_left {c cc : Circuit} {l : List (Name × Attr)} (h : cc.nodes = c.nodes ++ l) {x : Name}
    (hx : cc.has x = false) : c.has x = false := by
  rw [has_false_iff] at hx ⊢
  intro hm
  apply hx
  unfold nodeNames at hm ⊢
  rw [h, List.map_append]
  exact List.mem_append.2 (Or.inl hm)

theorem mem_fo {c : Circuit} {ord : Ord} (hord : OrdOK ord) {f x : Name} :
    x ∈ ord (dedup (c.fanout f)) ↔ (f, x) ∈ c.edges := by
  rw [(hord _).mem_iff, Q.mem_dedup, mem_fanout]

theorem cutStep_inv {c : Circuit} {ord : Ord} (hord : OrdOK ord) {L : List Name} {cc cc' : Circuit} {f : Name}
    (hI : CutInv c L cc) (hf : c.has f = true) (hfL : f ∉ L) (h : cutStep c ord cc f = .ok cc') :
    CutInv c (L ++ [f]) cc' := by
  unfold cutStep at h
  obtain ⟨hfresh, c3, h3, h4⟩ := addC_ok rfl rfl rfl h
  simp only [] at hfresh h3 h4
  rw [connect_empty_left] at h4
  injection h4 with h4 _
  subst h4
  have hfr : cc.has (aux f) = false := hfresh
  have hcfr : c.has (aux f) = false := has_append_left hI.nodes hfr
  obtain ⟨a1, a2, _, _, a5, a6, _⟩ := connect_ok h3
  have hne : ∀ g ∈ L ++ [f], aux g ≠ f := by
    intro g hg e
    have : c.has (aux g) = false := by
      rcases List.mem_append.1 hg with h1 | h1
      · exact hI.fresh g h1
      · simp only [List.mem_singleton] at h1; rw [h1]; exact hcfr
    rw [e, hf] at this
    cases this
  refine ⟨?_, ?_, ?_, ?_, ?_⟩
  · rw [a1, addNodeAttr_fresh _ hfresh]
    show cc.nodes ++ [(aux f, auxAttr)] = _
    rw [hI.nodes, List.map_append, List.append_assoc]
    rfl
  · intro e
    rw [a5, addNodeAttr_edges]
    have hdisc : e ∈ (cc.disconnect [f] (ord (dedup (c.fanout f)))).edges ↔
        (e ∈ cc.edges ∧ ¬ (e.1 = f ∧ (f, e.2) ∈ c.edges)) := by
      unfold disconnect
      simp only [List.mem_filter, Bool.not_eq_true', Bool.and_eq_false_iff, List.contains_iff_mem,
        List.mem_singleton]
      rw [← mem_fo hord (c := c) (f := f) (x := e.2)]
      constructor
      · rintro ⟨h1, h2⟩
        refine ⟨h1, ?_⟩
        rintro ⟨k1, k2⟩
        rcases h2 with h2 | h2
        · simp [k1] at h2
        · simp [k2] at h2
      · rintro ⟨h1, h2⟩
        refine ⟨h1, ?_⟩
        by_cases k1 : e.1 = f
        · right
          have : e.2 ∉ ord (dedup (c.fanout f)) := fun k2 => h2 ⟨k1, k2⟩
          simpa using this
        · left; simpa using k1
    rw [hdisc, hI.mem]
    simp only [List.mem_singleton, List.mem_append]
    constructor
    · rintro (⟨h1 | ⟨g, hg, h1, h2⟩, hn⟩ | ⟨h1, h2⟩)
      · left
        refine ⟨h1.1, ?_⟩
        rintro (k | k)
        · exact h1.2 k
        · apply hn
          refine ⟨k, ?_⟩
          rw [← k]
          exact h1.1
      · right; exact ⟨g, Or.inl hg, h1, h2⟩
      · right; exact ⟨f, Or.inr rfl, h1, (mem_fo hord).1 h2⟩
    · rintro (⟨h1, h2⟩ | ⟨g, hg | hg, h1, h2⟩)
      · left
        refine ⟨Or.inl ⟨h1, fun k => h2 (Or.inl k)⟩, ?_⟩
        rintro ⟨k, _⟩
        exact h2 (Or.inr k)
      · left
        refine ⟨Or.inr ⟨g, hg, h1, h2⟩, ?_⟩
        rintro ⟨k, _⟩
        exact hne g (List.mem_append.2 (Or.inl hg)) (h1 ▸ k)
      · right
        subst hg
        exact ⟨h1, (mem_fo hord).2 h2⟩
  · apply a6
    rw [addNodeAttr_edges]
    exact disconnect_edges_nodup _ _ hI.nodupE
  · rw [a2, addNodeAttr_bbs]
    exact hI.bbs
  · intro g hg
    rcases List.mem_append.1 hg with h1 | h1
    · exact hI.fresh g h1
    · simp only [List.mem_singleton] at h1; rw [h1]; exact hcfr

theorem cutFold_inv {c : Circuit} {ord : Ord} (hord : OrdOK ord) : ∀ (R L : List Name) (cc r : Circuit),
    CutInv c L cc → (∀ f ∈ R, c.has f = true) → (L ++ R).Nodup → R.foldlM (cutStep c ord) cc = .ok r →
    CutInv c (L ++ R) r := by
  intro R
  induction R with
  | nil =>
    intro L cc r hI _ _ h
    simp only [List.foldlM_nil] at h
    injection h with h
    subst h
    rw [List.append_nil]
    exact hI
  | cons f R ih =>
    intro L cc r hI hR hnd h
    rw [List.foldlM_cons] at h
    obtain ⟨cc', h1, h2⟩ := bind_ok h
    have hfL : f ∉ L := by
      intro hc
      rw [List.nodup_append] at hnd
      exact hnd.2.2 f hc f (by simp) rfl
    have := cutStep_inv hord hI (hR f (by simp)) hfL h1
    have e : L ++ f :: R = (L ++ [f]) ++ R := by simp
    rw [e]
    apply ih _ _ _ this (fun g hg => hR g (by simp [hg])) (by rw [← e]; exact hnd) h2

/-! ### facts about `c_cut` -/

/-- the node that now drives the readers of `u` -/
def ren (F : List Name) (u : Name) : Name := if F.contains u then aux u else u

structure CutFacts (c : Circuit) (F : List Name) (cCut : Circuit) : Prop where
  wf : WF cCut
  has : ∀ x, cCut.has x = true ↔ c.has x = true ∨ ∃ f ∈ F, x = aux f
  fresh : ∀ f ∈ F, c.has (aux f) = false
  nodesTy : ∀ p ∈ cCut.nodes, (∃ p0 ∈ c.nodes, p.1 = p0.1 ∧ p.2.ty = p0.2.ty) ∨
    (∃ f ∈ F, p.1 = aux f ∧ p.2.ty = some "buf")
  tyOld : ∀ x, c.has x = true → cCut.ty? x = c.ty? x
  tyAux : ∀ f ∈ F, cCut.ty? (aux f) = some "buf"
  outs : cCut.outputs = []
  mem : ∀ e, e ∈ cCut.edges ↔ (e ∈ c.edges ∧ e.1 ∉ F) ∨ (∃ f ∈ F, e.1 = aux f ∧ (f, e.2) ∈ c.edges)
  bbs : cCut.bbs = c.bbs

theorem cutFacts {c cCut0 : Circuit} {F : List Name} (hc : WF c) (hI : CutInv c F cCut0) (hF : F.Nodup)
    (hFc : ∀ f ∈ F, c.has f = true) :
    CutFacts c F (c.outputs.foldl (fun a o => a.setOutRaw o false) cCut0) := by
  have hn := foldl_setOutRaw_nodes false c.outputs cCut0
  obtain ⟨he, hb, _⟩ := foldl_setOutRaw_frame false c.outputs cCut0
  generalize c.outputs.foldl (fun a o => a.setOutRaw o false) cCut0 = cCut at hn he hb
  have hnames : cCut.nodeNames = c.nodeNames ++ F.map aux := by
    unfold nodeNames
    rw [hn, hI.nodes, List.map_map, List.map_append, List.map_map]
    congr 1
    · apply List.map_congr_left
      intro p _
      simp only [Function.comp]
      split <;> rfl
    · apply List.map_congr_left
      intro p _
      simp only [Function.comp]
      split <;> rfl
  have hhas : ∀ x, cCut.has x = true ↔ c.has x = true ∨ ∃ f ∈ F, x = aux f := by
    intro x
    rw [has_iff_mem, has_iff_mem, hnames, List.mem_append, List.mem_map]
    constructor
    · rintro (h | ⟨f, hf, e⟩)
      · exact Or.inl h
      · exact Or.inr ⟨f, hf, e.symm⟩
    · rintro (h | ⟨f, hf, e⟩)
      · exact Or.inl h
      · exact Or.inr ⟨f, hf, e.symm⟩
  have hnd : cCut.nodeNames.Nodup := by
    rw [hnames, List.nodup_append]
    refine ⟨hc.nodup, nodup_map_of_inj hF (fun x _ y _ e => aux_inj e), ?_⟩
    intro x hx y hy e
    subst e
    obtain ⟨f, hf, rfl⟩ := List.mem_map.1 hy
    have := hI.fresh f hf
    rw [(has_iff_mem c _).2 hx] at this
    cases this
  have hmemE : ∀ e, e ∈ cCut.edges ↔ (e ∈ c.edges ∧ e.1 ∉ F) ∨ (∃ f ∈ F, e.1 = aux f ∧ (f, e.2) ∈ c.edges) := by
    intro e; rw [he]; exact hI.mem e
  have hnodesTy : ∀ p ∈ cCut.nodes, (∃ p0 ∈ c.nodes, p.1 = p0.1 ∧ p.2.ty = p0.2.ty) ∨
      (∃ f ∈ F, p.1 = aux f ∧ p.2.ty = some "buf") := by
    intro p hp
    rw [hn, hI.nodes] at hp
    obtain ⟨q, hq, rfl⟩ := List.mem_map.1 hp
    rcases List.mem_append.1 hq with hq | hq
    · left
      refine ⟨q, hq, ?_⟩
      split <;> exact ⟨rfl, rfl⟩
    · right
      obtain ⟨f, hf, rfl⟩ := List.mem_map.1 hq
      refine ⟨f, hf, ?_⟩
      split <;> exact ⟨rfl, rfl⟩
  have hmemN : ∀ q ∈ c.nodes ++ F.map (fun f => (aux f, auxAttr)), ∃ a, (q.1, a) ∈ cCut.nodes ∧ a.ty = q.2.ty := by
    intro q hq
    refine ⟨(if c.outputs.contains q.1 then ({ q.2 with out := some false } : Attr) else q.2), ?_, ?_⟩
    · rw [hn, hI.nodes]
      refine List.mem_map.2 ⟨q, hq, ?_⟩
      split <;> rfl
    · split <;> rfl
  refine ⟨⟨hnd, by rw [he]; exact hI.nodupE, ?_⟩, hhas, hI.fresh, hnodesTy, ?_, ?_, ?_, hmemE, by rw [hb]; exact hI.bbs⟩
  · intro e hee
    rcases (hmemE e).1 hee with ⟨h1, _⟩ | ⟨f, hf, h1, h2⟩
    · exact ⟨(hhas _).2 (Or.inl (hc.closed e h1).1), (hhas _).2 (Or.inl (hc.closed e h1).2)⟩
    · exact ⟨(hhas _).2 (Or.inr ⟨f, hf, h1⟩), (hhas _).2 (Or.inl (hc.closed _ h2).2)⟩
  · intro x hx
    obtain ⟨a, ha⟩ := has_exists hx
    obtain ⟨a', ha', hty⟩ := hmemN (x, a) (List.mem_append.2 (Or.inl ha))
    rw [ty?, ty?, attr?_of_mem hnd ha', attr?_of_mem hc.nodup ha]
    simp only [Option.bind_some]
    exact hty
  · intro f hf
    obtain ⟨a', ha', hty⟩ := hmemN (aux f, auxAttr)
      (List.mem_append.2 (Or.inr (List.mem_map.2 ⟨f, hf, rfl⟩)))
    rw [ty?, attr?_of_mem hnd ha']
    simp only [Option.bind_some]
    exact hty
  · unfold outputs
    rw [List.map_eq_nil_iff, List.filter_eq_nil_iff]
    intro p hp
    rw [hn, hI.nodes] at hp
    obtain ⟨q, hq, rfl⟩ := List.mem_map.1 hp
    by_cases hco : c.outputs.contains q.1 = true
    · rw [if_pos hco]; simp
    · rw [if_neg hco]
      rcases List.mem_append.1 hq with hq | hq
      · have hno : q.1 ∉ c.outputs := fun hm => hco (List.contains_iff_mem.2 hm)
        have : ¬ q.2.out = some true :=
          fun h => hno ((mem_outputs_of_mem hc.nodup (n := q.1) (a := q.2) hq).2 h)
        cases ho : q.2.out with
        | none => simp
        | some b =>
          cases b with
          | false => simp
          | true => exact absurd ho this
      · obtain ⟨f, hf, rfl⟩ := List.mem_map.1 hq
        simp [auxAttr]

end AU
end CG
