/- C14 (character level, fast parser) helper: the graph assembly of the fast parser reads the raw operand list of an
   instance only when the instance type is a primitive gate -/
import CG.FastVerilog
namespace CG
namespace FT
open FastVerilog

/-- copy of `C14.FInstEq` -/
def FInstEq : FInst → FInst → Prop
  | .inst g i nets pins, .inst g' i' nets' pins' =>
    g = g' ∧ i = i' ∧ pins = pins' ∧ (g ∈ CG.Expected.primitive_gates → nets = nets')

/-- copy of `C14.InstsEq` -/
def InstsEq : List FInst → List FInst → Prop
  | [], [] => True
  | a :: as, b :: bs => FInstEq a b ∧ InstsEq as bs
  | _, _ => False

theorem primitive_eq (hT : Generated.primitive_gates = some CG.Expected.primitive_gates) :
    T.primitive = CG.Expected.primitive_gates := by
  unfold T.primitive
  rw [hT]
  rfl

theorem doInst_congr (hT : Generated.primitive_gates = some CG.Expected.primitive_gates) (bbs : List BBox) (ord : Ord)
    (t0 t1 : Name) (a : Acc) (x y : FInst) (h : FInstEq x y) : doInst bbs ord t0 t1 a x = doInst bbs ord t0 t1 a y := by
  obtain ⟨g, i, nets, pins⟩ := x
  obtain ⟨g', i', nets', pins'⟩ := y
  obtain ⟨rfl, rfl, rfl, hn⟩ := h
  unfold doInst
  by_cases hp : T.primitive.contains g = true
  · have : g ∈ CG.Expected.primitive_gates := by
      rw [primitive_eq hT] at hp
      simpa using hp
    rw [hn this]
  · simp only [hp, Bool.false_eq_true, if_false]

theorem foldlM_congr (hT : Generated.primitive_gates = some CG.Expected.primitive_gates) (bbs : List BBox) (ord : Ord)
    (t0 t1 : Name) : ∀ (xs ys : List FInst) (a : Acc), InstsEq xs ys →
    xs.foldlM (doInst bbs ord t0 t1) a = ys.foldlM (doInst bbs ord t0 t1) a
  | [], [], _, _ => rfl
  | [], _ :: _, _, h => absurd h (by simp [InstsEq])
  | _ :: _, [], _, h => absurd h (by simp [InstsEq])
  | x :: xs, y :: ys, a, h => by
    obtain ⟨h1, h2⟩ := h
    simp only [List.foldlM_cons]
    rw [doInst_congr hT bbs ord t0 t1 a x y h1]
    cases doInst bbs ord t0 t1 a y with
    | error e => rfl
    | ok a' => exact foldlM_congr hT bbs ord t0 t1 xs ys a' h2

/-- the assembly does not distinguish `FInstEq` records -/
theorem assemble_congr (p q : FParsed) (bbs : List BBox) (ord ordIn : Ord)
    (hn : p.name = q.name) (hi : p.inputs = q.inputs) (ha : p.assigns = q.assigns) (ho : p.outputs = q.outputs)
    (hs : InstsEq p.insts q.insts) (hT : Generated.primitive_gates = some CG.Expected.primitive_gates) :
    FastVerilog.assemble p bbs ord ordIn = FastVerilog.assemble q bbs ord ordIn := by
  unfold FastVerilog.assemble
  simp only [hn, hi, ha, ho, foldlM_congr hT bbs ord "tie0" "tie1" p.insts q.insts {} hs]

end FT
end CG
