/- C05 (insert_registers): the loops compose the splice steps; main theorem -/
import CG.Proofs.InsRegStep
import CG.Proofs.AcycUnrollOps
set_option linter.unusedSimpArgs false
set_option linter.unusedVariables false
namespace CG
namespace InsReg
open Circuit

/-- mirror of `C05.NewWired` -/
def NewWired' (c c' : Circuit) (v : Val) : Prop :=
  ∀ q ∈ c'.bbs, q ∉ c.bbs → v (q.1 ++ ".q") = v (q.1 ++ ".d")

theorem step_ok {ord : Ord} (hord : OrdOK ord) (i : Nat) (c : Circuit) (x : Name) (c' : Circuit) (hs : St c)
    (h : spliceStep ord i c x = .ok c') : St c' ∧ Ext c c' := by
  obtain ⟨r, S⟩ := splice_of_step hord hs.wf h
  exact ⟨S.step_st hs, S.step_ext hs.pins⟩

/-- `insert_registers` with the loop body named -/
theorem insertRegisters_eq (c : Circuit) (numStages : Nat) (ord : Ord) (fuel : Nat) :
    Tx.insertRegisters c numStages ord fuel =
    (c.nodeNames.mapM (fun n => match Query.depth c false [n] true ord fuel with
      | .ok d => .ok (n, d) | .error e => .error e) >>= fun depths =>
    (if c.has "clk" then pure c else Tx.addC c { n := "clk", ty := "input" }) >>= fun c1 =>
    if Tx.roundDiv (depths.foldl (fun m p => max m p.2) 0) (numStages + 1) == 0 then .error .valueError else
    (((List.range (depths.foldl (fun m p => max m p.2) 0)).filter (fun i =>
        i ≥ Tx.roundDiv (depths.foldl (fun m p => max m p.2) 0) (numStages + 1) &&
        (i - Tx.roundDiv (depths.foldl (fun m p => max m p.2) 0) (numStages + 1)) %
          Tx.roundDiv (depths.foldl (fun m p => max m p.2) 0) (numStages + 1) == 0)).foldlM (fun cr i =>
      ((depths.filter (fun p => p.2 == i)).map (·.1)).foldlM (fun cr n => spliceStep ord i cr n) cr) c1)) := rfl

/-- everything after the clock has been ensured -/
theorem loops_ok {ord : Ord} (hord : OrdOK ord) (depths : List (Name × Nat)) (levels : List Nat) (c1 c' : Circuit)
    (hs : St c1)
    (h : levels.foldlM (fun cr i =>
      ((depths.filter (fun p => p.2 == i)).map (·.1)).foldlM (fun cr n => spliceStep ord i cr n) cr) c1 = .ok c') :
    St c' ∧ Ext c1 c' := by
  refine fold_ext _ ?_ levels c1 c' hs h
  intro c i c2 hc h2
  exact fold_ext _ (step_ok hord i) _ c c2 hc h2

theorem gateFn_input (l : List Bool) : gateFn "input" l = none := by
  simp [gateFn]

/-- adding the clock input -/
theorem clk_ok {c c1 : Circuit} (hwf : WF c) (hbb : c.bbs = [])
    (h : (if c.has "clk" then pure c else Tx.addC c { n := "clk", ty := "input" }) = Except.ok c1) :
    St c1 ∧ c1.bbs = [] ∧ (∀ n, c.has n = true → c1.attr? n = c.attr? n) ∧
    (∀ x, x ∈ c1.outputs ↔ x ∈ c.outputs) ∧
    (∀ x, x ∈ c1.inputs ↔ (x ∈ c.inputs ∨ (x = "clk" ∧ c.has "clk" = false))) ∧
    (∀ v, Consistent c1 v ↔ Consistent c v) := by
  by_cases hk : c.has "clk" = true
  · rw [if_pos hk] at h
    injection h with h
    subst h
    refine ⟨⟨hwf, fun q hq => by rw [hbb] at hq; cases hq⟩, hbb, fun _ _ => rfl, fun _ => Iff.rfl, ?_, fun _ => Iff.rfl⟩
    intro x
    rw [hk]
    simp
  · rw [if_neg hk] at h
    have hk' : c.has "clk" = false := by simpa using hk
    obtain ⟨_, c3, h3, h4⟩ := AU.addC_ok rfl rfl rfl h
    rw [connect_empty_right] at h3
    injection h3 with h3 _
    subst h3
    rw [connect_empty_left] at h4
    injection h4 with h4 _
    subst h4
    have hn := addNodeAttr_fresh ({ ty := some "input", out := some false } : Attr) hk'
    have hnodes : (c.addNodeAttr "clk" { ty := some "input", out := some false }).nodes =
        c.nodes ++ [("clk", { ty := some "input", out := some false })] := by rw [hn]
    have hedges := addNodeAttr_edges c "clk" { ty := some "input", out := some false }
    have hbbs := addNodeAttr_bbs c "clk" { ty := some "input", out := some false }
    refine ⟨⟨AU.wf_addNodeAttr _ hwf, fun q hq => by rw [hbbs, hbb] at hq; cases hq⟩, by rw [hbbs, hbb], ?_, ?_, ?_, ?_⟩
    · intro n hn'
      exact Limit.ext_attr_old hnodes hn'
    · intro x
      rw [mem_outputs_iff', mem_outputs_iff', hnodes]
      constructor
      · rintro ⟨at', hp, ho⟩
        rcases List.mem_append.mp hp with hp | hp
        · exact ⟨at', hp, ho⟩
        · rw [List.mem_singleton] at hp
          have := (Prod.mk.inj hp).2
          subst this
          cases ho
      · rintro ⟨at', hp, ho⟩
        exact ⟨at', List.mem_append_left _ hp, ho⟩
    · intro x
      rw [mem_inputs_iff', mem_inputs_iff', hnodes]
      constructor
      · rintro ⟨at', hp, ho⟩
        rcases List.mem_append.mp hp with hp | hp
        · exact Or.inl ⟨at', hp, ho⟩
        · rw [List.mem_singleton] at hp
          exact Or.inr ⟨(Prod.mk.inj hp).1, hk'⟩
      · rintro (⟨at', hp, ho⟩ | ⟨rfl, _⟩)
        · exact ⟨at', List.mem_append_left _ hp, ho⟩
        · exact ⟨_, List.mem_append_right _ (List.mem_singleton.mpr rfl), rfl⟩
    · intro v
      have hfanin : ∀ m, (c.addNodeAttr "clk" { ty := some "input", out := some false }).fanin m = c.fanin m := by
        intro m
        unfold fanin
        rw [hedges]
      constructor
      · intro hv p hp t ht bb hb
        apply hv p (by rw [hnodes]; exact List.mem_append_left _ hp) t ht bb
        unfold NodeOK at *
        rw [hfanin]
        exact hb
      · intro hv p hp t ht bb hb
        rw [hfanin] at hb
        rw [hnodes] at hp
        rcases List.mem_append.mp hp with hp | hp
        · exact hv p hp t ht bb hb
        · rw [List.mem_singleton] at hp
          subst hp
          simp only [] at ht
          injection ht with ht
          subst ht
          rw [gateFn_input] at hb
          cases hb

/-- **C05 (insert_registers)**, with `NewWired'` -/
theorem insert_registers_main (c c' : Circuit) (k : Nat) (ord : Ord) (hord : OrdOK ord) (fuel : Nat)
    (hc : LintClean c) (hnobb : c.bbs = []) (h : Tx.insertRegisters c k ord fuel = .ok c') :
    (∀ n, c.has n = true → c'.attr? n = c.attr? n) ∧
    (∀ x, x ∈ c'.outputs ↔ x ∈ c.outputs) ∧
    (∀ x, x ∈ c'.inputs ↔ (x ∈ c.inputs ∨ (x = "clk" ∧ c.has "clk" = false))) ∧
    (∀ q ∈ c'.bbs, q.2 = { name := "ff", ins := ["clk", "d"], outs := ["q"] }) ∧
    (∀ v', Consistent c' v' → NewWired' c c' v' → Consistent c v') ∧
    (∀ v, Consistent c v → ∃ v', Consistent c' v' ∧ NewWired' c c' v' ∧ ∀ n, c.has n = true → v' n = v n) := by
  rw [insertRegisters_eq] at h
  obtain ⟨depths, _, h⟩ := AU.bind_ok h
  obtain ⟨c1, hclk, h⟩ := AU.bind_ok h
  split at h
  · cases h
  obtain ⟨s1, b1, a1, o1, i1, v1⟩ := clk_ok hc.toWF hnobb hclk
  obtain ⟨s', E⟩ := loops_ok hord depths _ c1 c' s1 h
  have hasc1 : ∀ n, c.has n = true → c1.has n = true := by
    intro n hn
    obtain ⟨at', ha⟩ := Limit.attr_of_has hn
    exact Limit.has_of_attr ((a1 n hn).trans ha)
  have hw : ∀ v, NewWired' c c' v → Wired c' v := by
    intro v hv q hq
    exact hv q hq (by rw [hnobb]; simp)
  refine ⟨?_, ?_, ?_, ?_, ?_, ?_⟩
  · intro n hn
    exact (E.attr n (hasc1 n hn)).trans (a1 n hn)
  · intro x
    exact (E.outs x).trans (o1 x)
  · intro x
    exact (E.ins x).trans (i1 x)
  · intro q hq
    rcases E.bbsNew q hq with hq | hq
    · rw [b1] at hq; cases hq
    · exact hq
  · intro v hv hwv
    exact (v1 v).mp (E.down v hv (hw v hwv))
  · intro v hv
    obtain ⟨v', hv', hw', e'⟩ := E.up v ((v1 v).mpr hv) (fun q hq => by rw [b1] at hq; cases hq)
    exact ⟨v', hv', fun q hq _ => hw' q hq, fun n hn => e' n (hasc1 n hn)⟩

end InsReg
end CG
