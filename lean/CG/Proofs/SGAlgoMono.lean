/- C17 (algorithm) helpers, part 15: children in a cone vs. children in a sub-cone; the node set of a supergate
   depends only on its head -/
import CG.Proofs.SGAlgoRestrict
import CG.Proofs.SGAlgoClosure
set_option linter.unusedSectionVars false
set_option linter.unusedVariables false
set_option linter.unusedSimpArgs false
namespace CG
namespace SGA
open Query Supergates Q

/-- chains transfer between two child tables that agree on a set of nodes containing the chain -/
theorem chain_transfer {tbl tbl' : List (Name × List Name)} (P : Name → Prop) {h : Name}
    (hch : ∀ v, P v → ∀ x, x ∈ childrenOf tbl v ↔ x ∈ childrenOf tbl' v)
    (hnd' : ∀ v, (childrenOf tbl' v).Nodup) (hP : P h) (hcl : ∀ y, Chain tbl h y → P y) {x : Name}
    (hc : Chain tbl h x) : Chain tbl' h x := by
  induction hc with
  | child hx => exact .child ((hch h hP _).mp hx)
  | @step y x hy hs ih =>
    have hPy := hcl y hy
    have hx' : x ∈ childrenOf tbl' y := (hch y hPy x).mp (mem_children_of_single hs)
    refine .step (ih) (eq_singleton_of_all_eq (hnd' y) hx' ?_)
    intro z hz
    have := (hch y hPy z).mpr hz
    rw [hs, List.mem_singleton] at this
    exact this

section
variable (c2 : Circuit) (hwf : WF c2) (hac : Acyclic c2)
include hwf hac

/-- a child in a cone is a child in every sub-cone that contains the parent -/
theorem children_mono {h' h y x : Name} (hh : h ∈ coneOf c2 h') (hy : y ∈ coneOf c2 h)
    (hx : x ∈ childrenOf (domChildren c2 h') y) : x ∈ childrenOf (domChildren c2 h) y := by
  obtain ⟨hxc, hp⟩ := (mem_childrenOf c2 hwf hac h' y x).mp hx
  have hyx : SD c2 h' y x := par_SD c2 hwf hac hxc hp
  have hxy : x ∈ coneOf c2 y := (mem_cone c2 hwf y x).mpr (hyx.anc hwf hxc).star
  have hxh : x ∈ coneOf c2 h := cone_sub c2 hwf hy hxy
  have h1 : par c2 y x = some y := (par_restrict c2 hwf hac hxc hyx).symm.trans hp
  have hyx' : SD c2 h y x := by
    by_cases hyh : y = h
    · subst hyh; exact SD_root c2 (fun h2 => hyx.2.1 h2.symm)
    · exact SD_restrict c2 hwf hac hh hy hyh hyx
  exact (mem_childrenOf c2 hwf hac h y x).mpr ⟨hxh, (par_restrict c2 hwf hac hxh hyx').trans h1⟩

theorem children_length_mono {h' h y : Name} (hh : h ∈ coneOf c2 h') (hy : y ∈ coneOf c2 h) :
    (childrenOf (domChildren c2 h') y).length ≤ (childrenOf (domChildren c2 h) y).length :=
  Q.nodup_length_le _ _ ((treeOK c2 hwf hac h').ch_nd y) (fun _ hx => children_mono c2 hwf hac hh hy hx)

/-- below a node that dominates its whole sub-cone the two child tables agree -/
theorem children_eq_of_dominates {o h : Name} (hh : h ∈ coneOf c2 o) (hD : ∀ x, Anc c2 x h → SD c2 o h x)
    {v : Name} (hv : v ∈ coneOf c2 h) (x : Name) :
    x ∈ childrenOf (domChildren c2 o) v ↔ x ∈ childrenOf (domChildren c2 h) v := by
  rw [mem_childrenOf c2 hwf hac, mem_childrenOf c2 hwf hac]
  constructor
  · rintro ⟨hxc, hp⟩
    have hxv : Anc c2 x v := (par_SD c2 hwf hac hxc hp).anc hwf hxc
    have hxh : Anc c2 x h := Plus.trans_star hxv ((mem_cone c2 hwf h v).mp hv)
    exact ⟨(mem_cone c2 hwf h x).mpr hxh.star, (par_restrict c2 hwf hac hxc (hD x hxh)).symm.trans hp⟩
  · rintro ⟨hxc, hp⟩
    have hxne : x ≠ h := by
      intro h1
      subst h1
      rw [par_root] at hp
      cases hp
    have hxh : Anc c2 x h := anc_of_mem_cone_ne c2 hwf hac hxc hxne
    have hxo := cone_sub c2 hwf hh hxc
    exact ⟨hxo, (par_restrict c2 hwf hac hxo (hD x hxh)).trans hp⟩

/-- the node set of a supergate depends only on its head -/
theorem InS_intrinsic (hfi : ∀ n, (c2.fanin n).length ≤ 2) {o h : Name} (hh : HeadOf c2 o h) (x : Name) :
    InS c2 o h x ↔ InS c2 h h x := by
  by_cases hho : h = o
  · subst hho; exact Iff.rfl
  · have hD : ∀ x, Anc c2 x h → SD c2 o h x := by
      intro x hx
      refine dominates_subcone c2 hwf hac o hh.1 hho ?_ hx
      intro z hz
      exact par_SD c2 hwf hac (cone_fanin c2 hwf hh.1 hz) (head_fanins c2 hwf hac o hfi hh hz)
    have hch := fun v (hv : v ∈ coneOf c2 h) x => children_eq_of_dominates c2 hwf hac hh.1 hD hv x
    unfold InS
    constructor
    · rintro (h1 | h1)
      · exact Or.inl h1
      · refine Or.inr (chain_transfer (fun v => v ∈ coneOf c2 h) hch (treeOK c2 hwf hac h).ch_nd
          (root_mem_cone c2 h) ?_ h1)
        intro y hy
        exact (mem_cone c2 hwf h y).mpr ((chain_SD c2 hwf hac o hy).anc hwf (hy.mem (treeOK c2 hwf hac o))).star
    · rintro (h1 | h1)
      · exact Or.inl h1
      · refine Or.inr (chain_transfer (fun v => v ∈ coneOf c2 h) (fun v hv x => (hch v hv x).symm)
          (treeOK c2 hwf hac o).ch_nd (root_mem_cone c2 h) ?_ h1)
        intro y hy
        exact hy.mem (treeOK c2 hwf hac h)

end

end SGA
end CG
