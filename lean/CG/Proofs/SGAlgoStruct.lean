/- C17 (algorithm) helpers, part 8: how wires sit in the dominator tree of a cone -/
import CG.Proofs.SGAlgoTbl
set_option linter.unusedSectionVars false
set_option linter.unusedVariables false
set_option linter.unusedSimpArgs false
namespace CG
namespace SGA
open Query Supergates Q

theorem two_of_le_two {l : List Name} (hl : l.length ≤ 2) {y0 : Name} (hy0 : y0 ∈ l) :
    ∃ a, ∀ y ∈ l, y = y0 ∨ y = a := by
  match l, hl with
  | [], _ => exact absurd hy0 List.not_mem_nil
  | [x], _ =>
    rw [List.mem_singleton] at hy0
    exact ⟨y0, fun y hy => Or.inl (by rw [List.mem_singleton] at hy; rw [hy, hy0])⟩
  | [x, z], _ =>
    rcases List.mem_cons.mp hy0 with h | h
    · subst h
      refine ⟨z, fun y hy => ?_⟩
      rcases List.mem_cons.mp hy with h | h
      · exact Or.inl h
      · exact Or.inr (List.mem_singleton.mp h)
    · rw [List.mem_singleton] at h
      subst h
      refine ⟨x, fun y hy => ?_⟩
      rcases List.mem_cons.mp hy with h | h
      · exact Or.inr h
      · exact Or.inl (List.mem_singleton.mp h)
  | _ :: _ :: _ :: _, hl => simp at hl

section
variable (c2 : Circuit) (hwf : WF c2) (hac : Acyclic c2) (o : Name)
include hwf hac

theorem edge_ne {a b : Name} (he : (a, b) ∈ c2.edges) : a ≠ b := by
  intro h
  subst h
  exact anc_irrefl hac (anc_edge he)

theorem fanin_ne_root {a b : Name} (he : (a, b) ∈ c2.edges) (hb : b ∈ coneOf c2 o) : a ≠ o := by
  intro h
  subst h
  exact anc_irrefl hac (Plus.trans_star (anc_edge he) ((mem_cone c2 hwf a b).mp hb))

theorem not_Rd_elim {d x : Name} (hd : d ∈ coneOf c2 o) (hne : d ≠ x) (h : ¬ SD c2 o d x) : Rd c2 o d x :=
  Classical.byContradiction (fun hn => h ⟨hd, hne, hn⟩)

/-- a fan-in of the root is a child of the root -/
theorem par_fanin_root {a : Name} (he : (a, o) ∈ c2.edges) : par c2 o a = some o := by
  have hao : a ≠ o := edge_ne c2 hwf hac he
  have ha : a ∈ coneOf c2 o := cone_fanin c2 hwf (root_mem_cone c2 o) he
  rw [par_eq_iff c2 hwf hac ha]
  refine ⟨SD_root c2 hao, ?_⟩
  intro d hd
  by_cases hdo : d = o
  · exact Or.inl hdo
  · exact absurd (Rd_back c2 hwf (Rd_root c2 (fun h => hdo h.symm)) he (fun h => hd.2.1 h.symm)) hd.2.2

/-- a node never dominates one of its fan-outs -/
theorem not_SD_fanout {v w : Name} (he : (v, w) ∈ c2.edges) (hw : w ∈ coneOf c2 o) : ¬ SD c2 o v w :=
  fun h => anc_asymm hac (anc_edge he) (h.anc hwf hw)

/-- a wire joins a node to its parent or to a sibling -/
theorem adj {a b : Name} (he : (a, b) ∈ c2.edges) (hb : b ∈ coneOf c2 o) (hbo : b ≠ o) :
    par c2 o a = some b ∨ par c2 o a = par c2 o b := by
  have ha : a ∈ coneOf c2 o := cone_fanin c2 hwf hb he
  have hao : a ≠ o := fanin_ne_root c2 hwf hac o he hb
  obtain ⟨m, hm, hid⟩ := par_spec c2 hwf hac ha hao
  by_cases hmb : m = b
  · exact Or.inl (hmb ▸ hm)
  · refine Or.inr ?_
    rw [hm]
    symm
    rw [par_eq_iff c2 hwf hac hb]
    refine ⟨⟨hid.1.1, hmb, ?_⟩, ?_⟩
    · intro hr
      exact hid.1.2.2 (Rd_back c2 hwf hr he (fun h => hid.1.2.1 h.symm))
    · intro d hd
      have hda : d ≠ a := by
        intro h
        subst h
        exact not_SD_fanout c2 hwf hac o he hb hd
      apply hid.2 d
      refine ⟨hd.1, hda, ?_⟩
      intro hr
      exact hd.2.2 (Rd_fwd c2 hr he hb hbo (fun h => hd.2.1 h.symm))

/-- a fan-in dominated by its fan-out is a child of it -/
theorem dominated_fanin_child {y v : Name} (he : (y, v) ∈ c2.edges) (hd : SD c2 o v y) : par c2 o y = some v := by
  have hv := hd.1
  by_cases hvo : v = o
  · subst hvo; exact par_fanin_root c2 hwf hac _ he
  · rcases adj c2 hwf hac o he hv hvo with h | h
    · exact h
    · have hy : y ∈ coneOf c2 o := cone_fanin c2 hwf hv he
      have hyo : y ≠ o := fanin_ne_root c2 hwf hac o he hv
      obtain ⟨m, hm, hid⟩ := par_spec c2 hwf hac hy hyo
      rw [hm] at h
      have hmv : SD c2 o m v := par_SD c2 hwf hac hv h.symm
      rcases hid.2 v hd with h1 | h1
      · exact absurd h1.symm hmv.2.1
      · exact (SD_asymm c2 hwf hac hmv h1).elim

/-- a path from the root that avoids the dominated fan-ins of `v` either avoids `v` or ends in `v` -/
theorem avoid_dominated_fanins {v : Name} (hv : v ∈ coneOf c2 o) (hvo : v ≠ o) {z : Name}
    (h : RA (gE c2 o) (fun y => (y, v) ∈ c2.edges ∧ SD c2 o v y) o z) : Rd c2 o v z ∨ z = v := by
  induction h with
  | refl _ => exact Or.inl (Rd_root c2 (fun h => hvo h.symm))
  | @step b c _ hedge hc ih =>
    by_cases hcv : c = v
    · exact Or.inr hcv
    · refine Or.inl ?_
      rcases ih with h1 | h1
      · exact .step h1 hedge hcv
      · subst h1
        rcases (gE_iff c2 o b c).mp hedge with ⟨he, _⟩ | ⟨he, hcc, _⟩
        · exact not_Rd_elim c2 hwf hac o hv (fun h => hcv h.symm) (fun hs => hc ⟨he, hs⟩)
        · exact not_Rd_elim c2 hwf hac o hv (fun h => hcv h.symm) (not_SD_fanout c2 hwf hac o he hcc)

/-- below a node other than the root there is a dominated fan-in -/
theorem exists_dominated_fanin {v x : Name} (hvo : v ≠ o) (hx : x ∈ coneOf c2 o) (hd : SD c2 o v x) :
    ∃ y, (y, v) ∈ c2.edges ∧ SD c2 o v y := by
  refine Classical.byContradiction (fun hn => ?_)
  have hr : RA (gE c2 o) (fun y => (y, v) ∈ c2.edges ∧ SD c2 o v y) o x :=
    RA.mono (B := fun _ => False) (fun z hz => hn ⟨z, hz⟩) (cone_rch c2 hwf hx)
  rcases avoid_dominated_fanins c2 hwf hac o hd.1 hvo hr with h | h
  · exact hd.2.2 h
  · exact hd.2.1 h.symm

/-- if `a` is the only dominated fan-in of `v`, it dominates everything below `v` -/
theorem only_dominated_fanin {v a x : Name} (hvo : v ≠ o) (hx : x ∈ coneOf c2 o) (hd : SD c2 o v x)
    (honly : ∀ y, (y, v) ∈ c2.edges → SD c2 o v y → y = a) : x = a ∨ SD c2 o a x := by
  obtain ⟨y, hy1, hy2⟩ := exists_dominated_fanin c2 hwf hac o hvo hx hd
  have hya := honly y hy1 hy2
  subst hya
  have hyc : y ∈ coneOf c2 o := cone_fanin c2 hwf hd.1 hy1
  by_cases hxy : x = y
  · exact Or.inl hxy
  · refine Or.inr ⟨hyc, fun h => hxy h.symm, ?_⟩
    intro hr
    have hr' : RA (gE c2 o) (fun z => (z, v) ∈ c2.edges ∧ SD c2 o v z) o x :=
      RA.mono (fun z hz => honly z hz.1 hz.2) hr
    rcases avoid_dominated_fanins c2 hwf hac o hd.1 hvo hr' with h | h
    · exact hd.2.2 h
    · exact hd.2.1 h.symm

/-- … so it is the only child -/
theorem only_child {v a x : Name} (hvo : v ≠ o) (hx : x ∈ coneOf c2 o) (hp : par c2 o x = some v)
    (honly : ∀ y, (y, v) ∈ c2.edges → SD c2 o v y → y = a) : x = a := by
  have hid := (par_eq_iff c2 hwf hac hx).mp hp
  obtain ⟨y, hy1, hy2⟩ := exists_dominated_fanin c2 hwf hac o hvo hx hid.1
  have hya := honly y hy1 hy2
  subst hya
  rcases only_dominated_fanin c2 hwf hac o hvo hx hid.1 honly with h | h
  · exact h
  · rcases hid.2 y h with h1 | h1
    · exact absurd h1.symm hy2.2.1
    · exact (SD_asymm c2 hwf hac h1 hy2).elim

/-- with at most two fan-ins: a node (not the root) with two children has all its fan-ins as children -/
theorem fanins_children_of_two (hfi : ∀ n, (c2.fanin n).length ≤ 2) {v x1 x2 : Name} (hvo : v ≠ o)
    (h1 : x1 ∈ coneOf c2 o) (hp1 : par c2 o x1 = some v) (h2 : x2 ∈ coneOf c2 o) (hp2 : par c2 o x2 = some v)
    (hne : x1 ≠ x2) {y : Name} (he : (y, v) ∈ c2.edges) : par c2 o y = some v := by
  refine Classical.byContradiction (fun hn => ?_)
  have hnd : ¬ SD c2 o v y := fun hd => hn (dominated_fanin_child c2 hwf hac o he hd)
  obtain ⟨a, ha⟩ := two_of_le_two (hfi v) (Q.mem_fanin.mpr he)
  have honly : ∀ z, (z, v) ∈ c2.edges → SD c2 o v z → z = a := by
    intro z hz hzd
    rcases ha z (Q.mem_fanin.mpr hz) with h | h
    · exact absurd (h ▸ hzd) hnd
    · exact h
  exact hne ((only_child c2 hwf hac o hvo h1 hp1 honly).trans (only_child c2 hwf hac o hvo h2 hp2 honly).symm)

/-- if every fan-in of `v` is dominated by `v`, so is the whole sub-cone of `v` -/
theorem dominates_subcone {v : Name} (hv : v ∈ coneOf c2 o) (hvo : v ≠ o)
    (hall : ∀ y, (y, v) ∈ c2.edges → SD c2 o v y) {x : Name} (hx : Anc c2 x v) : SD c2 o v x := by
  have hxv : v ≠ x := fun h => anc_irrefl hac (h ▸ hx)
  refine ⟨hv, hxv, ?_⟩
  intro hr
  obtain ⟨y, hxy, he⟩ := Plus.tail hx
  have hyc : y ∈ coneOf c2 o := cone_fanin c2 hwf hv he
  have hvo' : AncR c2 v o := (mem_cone c2 hwf o v).mp hv
  refine (hall y he).2.2 (Rd_fwd_star c2 hwf hxy hr hyc ?_)
  intro z _ hzy
  have hzv : Anc c2 z v := Star.trans_plus hzy (anc_edge he)
  refine ⟨fun h => anc_irrefl hac (h ▸ hzv), fun h => ?_⟩
  subst h
  exact anc_irrefl hac (Plus.trans_star hzv hvo')

end

end SGA
end CG
