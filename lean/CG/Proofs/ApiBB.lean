/- C07 helper: add_blackbox -/
import CG.Proofs.ApiCore
set_option linter.unusedSimpArgs false
set_option linter.unusedVariables false
namespace CG
open Circuit

theorem pinName_nonempty (inst p : Name) : (inst ++ "." ++ p).isEmpty = false := by
  cases h : (inst ++ "." ++ p).isEmpty with
  | false => rfl
  | true =>
    rw [String.isEmpty_iff] at h
    have := congrArg String.toList h
    simp [String.toList_append] at this

/-- `add(n, t)` with all defaults -/
theorem add_plain (c : Circuit) (m : Name) (t : String) :
    ((c.add { n := m, ty := t }).1 = c ∧
      ((c.add { n := m, ty := t }).2.1 = .valueError ∨
       ((c.add { n := m, ty := t }).2.1 = .indexError ∧ m.isEmpty = true))) ∨
    (c.has m = false ∧ t ∈ Expected.supported_types ∧
      (c.add { n := m, ty := t }).1 = c.addNodeAttr m { ty := some t, out := some false } ∧
      (c.add { n := m, ty := t }).2.1 = .ok) := by
  rcases add_cases c { n := m, ty := t } with ⟨o, m', e, ho⟩ | ⟨n, hn, hfresh, hs, _, _, _, e⟩
  · left
    rw [e]
    refine ⟨rfl, ?_⟩
    rcases ho with ho | ⟨ho, hi⟩ | ⟨_, hu⟩
    · left; exact ho
    · right; exact ⟨ho, hi rfl⟩
    · cases hu
  · right
    simp only [Bool.false_eq_true, if_false] at hn
    injection hn with hn; subst hn
    refine ⟨hfresh rfl, by rw [← tbl_supported]; exact List.contains_iff_mem.1 hs, ?_, ?_⟩
    · rw [e]; simp [addTail, connect]
    · rw [e]; simp [addTail, connect]

theorem pins_cons (inst : Name) (c : Circuit) (t : String) (p : Name) (ps : List Name) :
    addBlackbox.pins inst c t (p :: ps) =
      if (c.add { n := inst ++ "." ++ p, ty := t }).2.1 = .ok then
        addBlackbox.pins inst (c.add { n := inst ++ "." ++ p, ty := t }).1 t ps
      else ((c.add { n := inst ++ "." ++ p, ty := t }).1, (c.add { n := inst ++ "." ++ p, ty := t }).2.1) := by
  rw [addBlackbox.pins]
  rcases hadd : c.add { n := inst ++ "." ++ p, ty := t } with ⟨c', o, x⟩
  cases o <;> simp

/-- everything we need to know about the pin-creation loop -/
theorem pins_spec {inst : Name} {t : String} (ht : t ∈ Expected.supported_types) :
    ∀ (ps : List Name) (c : Circuit) (gone : List Name), Inv' c gone →
      Inv' (addBlackbox.pins inst c t ps).1 gone ∧
      (addBlackbox.pins inst c t ps).1.bbs = c.bbs ∧
      (addBlackbox.pins inst c t ps).1.edges = c.edges ∧
      (∀ m, c.has m = true → (addBlackbox.pins inst c t ps).1.ty? m = c.ty? m) ∧
      ((addBlackbox.pins inst c t ps).2 = .ok ∨ (addBlackbox.pins inst c t ps).2 = .valueError) ∧
      ((addBlackbox.pins inst c t ps).2 = .ok →
        ∀ p ∈ ps, (addBlackbox.pins inst c t ps).1.ty? (inst ++ "." ++ p) = some t) := by
  intro ps
  induction ps with
  | nil =>
    intro c gone h
    rw [addBlackbox.pins]
    exact ⟨h, rfl, rfl, fun _ _ => rfl, Or.inl rfl, fun _ p hp => by cases hp⟩
  | cons p ps ih =>
    intro c gone h
    rw [pins_cons]
    rcases add_plain c (inst ++ "." ++ p) t with ⟨e1, e2⟩ | ⟨hfresh, _, e1, e2⟩
    · have hne : ¬ (c.add { n := inst ++ "." ++ p, ty := t }).2.1 = .ok := by
        rcases e2 with e2 | ⟨e2, _⟩ <;> (rw [e2]; simp)
      rw [if_neg hne]
      rw [e1]
      refine ⟨h, rfl, rfl, fun _ _ => rfl, ?_, fun hok => absurd hok hne⟩
      rcases e2 with e2 | ⟨_, e2⟩
      · right; exact e2
      · rw [pinName_nonempty] at e2; cases e2
    · rw [if_pos e2, e1]
      have h1 := addNodeAttr_fresh_Inv h hfresh ht (some false)
      obtain ⟨i1, i2, i3, i4, i5, i6⟩ := ih _ gone h1
      have hframe : ∀ m, c.has m = true →
          (c.addNodeAttr (inst ++ "." ++ p) { ty := some t, out := some false }).ty? m = c.ty? m := by
        intro m hm
        have : m ≠ inst ++ "." ++ p := by intro e; subst e; rw [hfresh] at hm; cases hm
        rw [addNodeAttr_ty?, if_neg this]
      refine ⟨i1, by rw [i2, addNodeAttr_bbs], by rw [i3, addNodeAttr_edges], ?_, i5, ?_⟩
      · intro m hm
        rw [i4 m (by rw [addNodeAttr_has, hm]; rfl), hframe m hm]
      · intro hok q hq
        rcases List.mem_cons.1 hq with e | hq
        · subst e
          rw [i4 _ (by rw [addNodeAttr_has]; simp), addNodeAttr_ty?, if_pos rfl]; rfl
        · exact i6 hok q hq

theorem setBB_PinsOK {c : Circuit} {gone : List Name} (h : PinsOK' c gone) (i : Name) (bb : BBox)
    (h1 : ∀ g ∈ bb.ins, (i ++ "." ++ g) ∉ gone → c.ty? (i ++ "." ++ g) = some "bb_input")
    (h2 : ∀ g ∈ bb.outs, (i ++ "." ++ g) ∉ gone → c.ty? (i ++ "." ++ g) = some "bb_output") :
    PinsOK' (c.setBB i bb) gone := by
  intro p hp
  have hty : ∀ n, (c.setBB i bb).ty? n = c.ty? n := ty?_congr (setBB_nodes c i bb)
  rcases setBB_mem c i bb hp with hp | hp
  · obtain ⟨a, b⟩ := h p hp
    exact ⟨fun g hg hgone => by rw [hty]; exact a g hg hgone, fun g hg hgone => by rw [hty]; exact b g hg hgone⟩
  · subst hp
    exact ⟨fun g hg hgone => by rw [hty]; exact h1 g hg hgone, fun g hg hgone => by rw [hty]; exact h2 g hg hgone⟩

theorem setBB_Inv {c : Circuit} {gone : List Name} (h : Inv' c gone) (i : Name) (bb : BBox)
    (h1 : ∀ g ∈ bb.ins, (i ++ "." ++ g) ∉ gone → c.ty? (i ++ "." ++ g) = some "bb_input")
    (h2 : ∀ g ∈ bb.outs, (i ++ "." ++ g) ∉ gone → c.ty? (i ++ "." ++ g) = some "bb_output") :
    Inv' (c.setBB i bb) gone :=
  ⟨h.1.congr (nodeNames_congr (setBB_nodes c i bb)) (ty?_congr (setBB_nodes c i bb)) (setBB_edges c i bb),
   setBB_PinsOK h.2 i bb h1 h2⟩

theorem bbgo_spec (bb : BBox) (inst : Name) : ∀ (conns : List (Name × List Name)) (c : Circuit) (gone : List Name),
    Inv' c gone → Inv' (addBlackbox.go bb inst c conns).1 gone ∧
      ((addBlackbox.go bb inst c conns).2 = .ok ∨ (addBlackbox.go bb inst c conns).2 = .valueError) := by
  intro conns
  induction conns with
  | nil => intro c gone h; rw [addBlackbox.go]; exact ⟨h, Or.inl rfl⟩
  | cons x conns ih =>
    intro c gone h
    obtain ⟨p, ns⟩ := x
    rw [addBlackbox.go]
    split
    · have hI := connect_Inv h ns [inst ++ "." ++ p]
      have hC := connect_class h.1.allTyped ns [inst ++ "." ++ p]
      split
      · rename_i c' heq; rw [heq] at hI; exact ih c' gone hI
      · exact ⟨hI, hC⟩
    · split
      · have hI := connect_Inv h [inst ++ "." ++ p] ns
        have hC := connect_class h.1.allTyped [inst ++ "." ++ p] ns
        split
        · rename_i c' heq; rw [heq] at hI; exact ih c' gone hI
        · exact ⟨hI, hC⟩
      · exact ⟨h, Or.inr rfl⟩

theorem addBlackbox_spec {ord : Ord} (hord : ∀ l, (ord l).Perm l) {c : Circuit} {gone : List Name}
    (h : Inv' c gone) (bb : BBox) (inst : Name) (conns : List (Name × List Name)) :
    Inv' (c.addBlackbox bb inst conns ord).1 gone ∧
    ((c.addBlackbox bb inst conns ord).2 = .ok ∨ (c.addBlackbox bb inst conns ord).2 = .valueError) ∧
    (conns = [] → (c.addBlackbox bb inst conns ord).2 ≠ .ok → (c.addBlackbox bb inst conns ord).1.edges = c.edges) := by
  unfold addBlackbox
  split
  · exact ⟨h, Or.inr rfl, fun _ _ => rfl⟩
  · obtain ⟨a1, a2, a3, a4, a5, a6⟩ := pins_spec (inst := inst) (t := "bb_input") (by decide) (ord bb.ins) c gone h
    split
    · rename_i x1 c1 heq1
      rw [heq1] at a1 a2 a3 a4 a5 a6
      obtain ⟨b1, b2, b3, b4, b5, b6⟩ := pins_spec (inst := inst) (t := "bb_output") (by decide) (ord bb.outs) c1 gone a1
      split
      · rename_i x2 c2 heq2
        rw [heq2] at b1 b2 b3 b4 b5 b6
        have hI : Inv' (c2.setBB inst bb) gone := by
          apply setBB_Inv b1
          · intro g hg _
            have hg' : g ∈ ord bb.ins := (hord _).mem_iff.2 hg
            have := a6 rfl g hg'
            rw [b4 _ (has_of_ty? this)]; exact this
          · intro g hg _
            exact b6 rfl g ((hord _).mem_iff.2 hg)
        obtain ⟨g1, g2⟩ := bbgo_spec bb inst conns _ gone hI
        refine ⟨g1, g2, ?_⟩
        intro hc hne
        subst hc
        rw [addBlackbox.go] at hne
        exact absurd rfl hne
      · exact ⟨b1, b5, fun _ _ => by rw [b3, a3]⟩
    · exact ⟨a1, a5, fun _ _ => a3⟩

end CG
