/- C03 helper (text level): a big-step view of the lexer with the fuel bound built in, and one rule per kind of token
   the writer prints -/
import CG.Proofs.VlogLex
namespace CG
namespace VX
open Verilog

/-- identifier character -/
def idc (ch : Char) : Bool := isLetter ch || isDigit ch || ch == '_'

/-- an identifier ends here -/
def Brk : List Char → Prop
  | [] => True
  | c :: _ => idc c = false

/-- letter or underscore, then identifier characters (copy of the first half of `C03.IdentOK`) -/
def Word (s : String) : Prop :=
  ∃ ch rest, s.toList = ch :: rest ∧ (isLetter ch = true ∨ ch = '_') ∧
    ∀ x ∈ rest, isLetter x = true ∨ isDigit x = true ∨ x = '_'

/-- copy of `C03.IdentOK` -/
def Ident (s : String) : Prop := Word s ∧ s ∉ keywords

def wordTok (s : String) : Tok := if keywords.contains s then Tok.kw s else Tok.id s

theorem wordTok_ident {s : String} (h : Ident s) : wordTok s = Tok.id s := by
  unfold wordTok
  rw [if_neg]
  simpa using h.2

/-- `cs` lexes to `ts` within the fuel `lex` provides -/
def Lexes (cs : List Char) (ts : List Tok) : Prop :=
  ∃ f, f ≤ cs.length + 1 ∧ ∀ acc, lexGo f cs acc = some (acc.reverse ++ ts)

theorem Lexes.nil : Lexes [] [] := ⟨1, by simp, fun acc => by rw [lexGo.eq_2]; simp⟩

theorem Lexes.step1 {c : Char} {rest r : List Char} {t : Tok} {ts : List Tok}
    (hs : VL.step c rest = some (r, [t])) (hl : r.length ≤ rest.length) (h : Lexes r ts) :
    Lexes (c :: rest) (t :: ts) := by
  obtain ⟨f, hf, h⟩ := h
  refine ⟨f + 1, by simp only [List.length_cons]; omega, fun acc => ?_⟩
  rw [VL.lexGo_step, hs]
  simp only []
  rw [h]
  simp

theorem Lexes.step0 {c : Char} {rest r : List Char} {ts : List Tok}
    (hs : VL.step c rest = some (r, [])) (hl : r.length ≤ rest.length) (h : Lexes r ts) :
    Lexes (c :: rest) ts := by
  obtain ⟨f, hf, h⟩ := h
  refine ⟨f + 1, by simp only [List.length_cons]; omega, fun acc => ?_⟩
  rw [VL.lexGo_step, hs]
  simp only []
  rw [h]
  simp

theorem lex_of_lexes {s : String} {ts : List Tok} (h : Lexes s.toList ts) : lex s = some ts := by
  obtain ⟨f, hf, h⟩ := h
  unfold lex
  have := VL.lexGo_mono' (h []) (s.length + 1 - f)
  rw [String.length_toList] at hf
  rw [show f + (s.length + 1 - f) = s.length + 1 by omega] at this
  simpa using this

/-! ### white space -/

theorem Lexes.ws {c : Char} (hc : isWs c = true) {rest : List Char} {ts : List Tok} (h : Lexes rest ts) :
    Lexes (c :: rest) ts :=
  Lexes.step0 (by unfold VL.step; rw [if_pos hc]) (Nat.le_refl _) h

theorem Lexes.sp {rest : List Char} {ts : List Tok} (h : Lexes rest ts) : Lexes (' ' :: rest) ts :=
  Lexes.ws (by decide) h

theorem Lexes.nl {rest : List Char} {ts : List Tok} (h : Lexes rest ts) : Lexes ('\n' :: rest) ts :=
  Lexes.ws (by decide) h

/-! ### symbols and constants -/

theorem Lexes.lparen {rest : List Char} {ts : List Tok} (h : Lexes rest ts) : Lexes ('(' :: rest) (Tok.sym "(" :: ts) :=
  Lexes.step1 (r := rest) rfl (Nat.le_refl _) h

theorem Lexes.rparen {rest : List Char} {ts : List Tok} (h : Lexes rest ts) : Lexes (')' :: rest) (Tok.sym ")" :: ts) :=
  Lexes.step1 (r := rest) rfl (Nat.le_refl _) h

theorem Lexes.comma {rest : List Char} {ts : List Tok} (h : Lexes rest ts) : Lexes (',' :: rest) (Tok.sym "," :: ts) :=
  Lexes.step1 (r := rest) rfl (Nat.le_refl _) h

theorem Lexes.semi {rest : List Char} {ts : List Tok} (h : Lexes rest ts) : Lexes (';' :: rest) (Tok.sym ";" :: ts) :=
  Lexes.step1 (r := rest) rfl (Nat.le_refl _) h

theorem Lexes.dot {rest : List Char} {ts : List Tok} (h : Lexes rest ts) : Lexes ('.' :: rest) (Tok.sym "." :: ts) :=
  Lexes.step1 (r := rest) rfl (Nat.le_refl _) h

theorem Lexes.eq {rest : List Char} {ts : List Tok} (h : Lexes rest ts) : Lexes ('=' :: rest) (Tok.sym "=" :: ts) :=
  Lexes.step1 (r := rest) rfl (Nat.le_refl _) h

theorem Lexes.amp {rest : List Char} {ts : List Tok} (h : Lexes rest ts) : Lexes ('&' :: rest) (Tok.sym "&" :: ts) :=
  Lexes.step1 (r := rest) rfl (Nat.le_refl _) h

theorem Lexes.bar {rest : List Char} {ts : List Tok} (h : Lexes rest ts) : Lexes ('|' :: rest) (Tok.sym "|" :: ts) :=
  Lexes.step1 (r := rest) rfl (Nat.le_refl _) h

/-- `^` followed by a blank (never `^~`) -/
theorem Lexes.caret {rest : List Char} {ts : List Tok} (h : Lexes (' ' :: rest) ts) :
    Lexes ('^' :: ' ' :: rest) (Tok.sym "^" :: ts) :=
  Lexes.step1 (r := ' ' :: rest) rfl (Nat.le_refl _) h

theorem step_tilde (d : Char) (rest : List Char) (hd : ('^' == d) = false) :
    VL.step '~' (d :: rest) = some (d :: rest, [Tok.sym "~"]) := by
  have e1 : "~^".toList = ['~', '^'] := by decide
  have e : VL.step '~' (d :: rest) =
      if ('^' == d) = true then some (rest, [Tok.sym "~^"]) else some (d :: rest, [Tok.sym "~"]) := by
    cases hb : ('^' == d)
    · simp [VL.step, VL.punct, isWs, isLetter, constToks, symToks, List.findSome?, dropPrefix?, e1, hb]
    · simp [VL.step, VL.punct, isWs, isLetter, constToks, symToks, List.findSome?, dropPrefix?, e1, hb]
  rw [e, hd]
  rfl

/-- `~` followed by anything but `^` -/
theorem Lexes.tilde {d : Char} (hd : ('^' == d) = false) {rest : List Char} {ts : List Tok} (h : Lexes (d :: rest) ts) :
    Lexes ('~' :: d :: rest) (Tok.sym "~" :: ts) :=
  Lexes.step1 (step_tilde d rest hd) (Nat.le_refl _) h

theorem Lexes.const {t : String} (ht : t = "0" ∨ t = "1" ∨ t = "x") {rest : List Char} {ts : List Tok}
    (h : Lexes rest ts) : Lexes (("1'b" ++ t).toList ++ rest) (Tok.const t :: ts) := by
  rcases ht with rfl | rfl | rfl
  · exact Lexes.step1 (c := '1') (rest := '\'' :: 'b' :: '0' :: rest) (r := rest) rfl
      (by simp only [List.length_cons]; omega) h
  · exact Lexes.step1 (c := '1') (rest := '\'' :: 'b' :: '1' :: rest) (r := rest) rfl
      (by simp only [List.length_cons]; omega) h
  · exact Lexes.step1 (c := '1') (rest := '\'' :: 'b' :: 'x' :: rest) (r := rest) rfl
      (by simp only [List.length_cons]; omega) h

/-! ### identifiers and keywords -/

theorem takeWhile_all (p : Char → Bool) : ∀ (l rest : List Char), (∀ x ∈ l, p x = true) →
    (∀ c r, rest = c :: r → p c = false) →
    (l ++ rest).takeWhile p = l ∧ (l ++ rest).drop l.length = rest
  | [], [], _, _ => ⟨rfl, rfl⟩
  | [], c :: r, _, h => by
    have := h c r rfl
    simp [this]
  | x :: l, rest, hl, h => by
    obtain ⟨h1, h2⟩ := takeWhile_all p l rest (fun y hy => hl y (List.mem_cons_of_mem _ hy)) h
    have hx := hl x (by simp)
    constructor
    · rw [List.cons_append, List.takeWhile_cons, hx, if_pos rfl, h1]
    · rw [List.cons_append, List.length_cons, List.drop_succ_cons, h2]

theorem head_facts {ch : Char} (h : isLetter ch = true ∨ ch = '_') :
    isWs ch = false ∧ (ch == '/') = false ∧ (ch == '\\') = false ∧ (isLetter ch || ch == '_') = true := by
  refine ⟨?_, ?_, ?_, ?_⟩
  · cases hw : isWs ch with
    | false => rfl
    | true =>
      exfalso
      simp only [isWs, Bool.or_eq_true, beq_iff_eq] at hw
      rcases hw with (((rfl | rfl) | rfl) | rfl) | rfl <;> rcases h with h | h <;> revert h <;> decide
  · cases hw : (ch == '/') with
    | false => rfl
    | true =>
      exfalso
      rw [beq_iff_eq] at hw
      subst hw
      rcases h with h | h <;> revert h <;> decide
  · cases hw : (ch == '\\') with
    | false => rfl
    | true =>
      exfalso
      rw [beq_iff_eq] at hw
      subst hw
      rcases h with h | h <;> revert h <;> decide
  · rcases h with h | h
    · rw [h]; rfl
    · subst h; rfl

theorem step_word {s : String} (hs : Word s) {rest : List Char} (hb : Brk rest) :
    ∃ ch tl, s.toList = ch :: tl ∧ VL.step ch (tl ++ rest) = some (rest, [wordTok s]) := by
  obtain ⟨ch, tl, hst, hch, htl⟩ := hs
  refine ⟨ch, tl, hst, ?_⟩
  obtain ⟨h1, h2, h3, h4⟩ := head_facts hch
  unfold VL.step
  rw [h1, h2, h3, h4]
  simp only [Bool.false_eq_true, if_false, if_true]
  have hall : ∀ x ∈ ch :: tl, (fun c => isLetter c || isDigit c || c == '_') x = true := by
    intro x hx
    rcases List.mem_cons.1 hx with rfl | hx
    · rcases hch with h | h
      · simp [h]
      · simp [h]
    · rcases htl x hx with h | h | h <;> simp [h]
  have hbrk : ∀ c r, rest = c :: r → (fun c => isLetter c || isDigit c || c == '_') c = false := by
    intro c r e
    subst e
    exact hb
  obtain ⟨t1, t2⟩ := takeWhile_all _ (ch :: tl) rest hall hbrk
  unfold VL.ident
  simp only []
  rw [← List.cons_append, t1, t2, ← hst, String.ofList_toList]
  rfl

theorem Lexes.word {s : String} (hs : Word s) {rest : List Char} (hb : Brk rest) {ts : List Tok} (h : Lexes rest ts) :
    Lexes (s.toList ++ rest) (wordTok s :: ts) := by
  obtain ⟨ch, tl, hst, hstep⟩ := step_word hs hb
  rw [hst, List.cons_append]
  exact Lexes.step1 hstep (by simp) h

theorem Lexes.ident {s : String} (hs : Ident s) {rest : List Char} (hb : Brk rest) {ts : List Tok} (h : Lexes rest ts) :
    Lexes (s.toList ++ rest) (Tok.id s :: ts) := by
  rw [← wordTok_ident hs]
  exact Lexes.word hs.1 hb h

theorem word_kw {s : String} (h : s ∈ keywords) : Word s := by
  simp only [keywords, List.mem_cons, List.not_mem_nil, or_false] at h
  rcases h with rfl | rfl | rfl | rfl | rfl | rfl
  · exact ⟨'m', "odule".toList, by decide, by decide, by decide⟩
  · exact ⟨'e', "ndmodule".toList, by decide, by decide, by decide⟩
  · exact ⟨'i', "nput".toList, by decide, by decide, by decide⟩
  · exact ⟨'o', "utput".toList, by decide, by decide, by decide⟩
  · exact ⟨'w', "ire".toList, by decide, by decide, by decide⟩
  · exact ⟨'a', "ssign".toList, by decide, by decide, by decide⟩

theorem Lexes.kw {s : String} (hs : s ∈ keywords) {rest : List Char} (hb : Brk rest) {ts : List Tok} (h : Lexes rest ts) :
    Lexes (s.toList ++ rest) (Tok.kw s :: ts) := by
  have : wordTok s = Tok.kw s := by
    unfold wordTok
    rw [if_pos (by simpa using hs)]
  rw [← this]
  exact Lexes.word (word_kw hs) hb h

/-- the first character of a word is not `^` (so `~name` is `~` then `name`) -/
theorem word_head {s : String} (hs : Word s) : ∃ ch tl, s.toList = ch :: tl ∧ ('^' == ch) = false ∧ idc ch = true := by
  obtain ⟨ch, tl, hst, hch, _⟩ := hs
  refine ⟨ch, tl, hst, ?_, ?_⟩
  · cases hw : ('^' == ch) with
    | false => rfl
    | true =>
      exfalso
      rw [beq_iff_eq] at hw
      subst hw
      rcases hch with h | h <;> revert h <;> decide
  · unfold idc
    rcases hch with h | h
    · simp [h]
    · simp [h]

end VX
end CG
