/- C18 helpers: stable states of the unrolled circuit -/
import CG.Proofs.AcycUnrollSpec
set_option linter.unusedSimpArgs false
set_option linter.unusedVariables false
namespace CG
namespace AU
open Circuit Query

theorem gate_ok {a : Circuit} {w : Val} (hw : Consistent a w) {n : Name} {t : String} {fi : List Name}
    (g : Gate a n t fi) : ∀ b, gateFn t (fi.map w) = some b → w n = b := by
  obtain ⟨p, hp, rfl, hpt⟩ := Tseitin.mem_of_ty a n t g.1
  intro b hb
  apply hw p hp t hpt b
  rw [g.2]
  exact hb

theorem buf_ok {a : Circuit} {w : Val} (hw : Consistent a w) {n u : Name} (g : Gate a n "buf" [u]) : w n = w u :=
  gate_ok hw g (w u) (by simp [gateFn])

section
variable {c cCut a : Circuit} {ord : Ord} {F : List Name}

/-- the i-th copy, read through its prefix, is a consistent valuation of the cut circuit -/
theorem copy_consistent (hc : WF c) (U : USpec c ord F cCut a) {w : Val} (hw : Consistent a w) {i : Nat}
    (hi : i ≤ F.length) : Consistent cCut (fun n => w (pref (cn i) n)) := by
  intro p hp t ht b hb
  have hty : cCut.ty? p.1 = some t := by
    rw [ty?, attr?_of_mem U.cut.wf.nodup (a := p.2) hp]
    exact ht
  by_cases hin : t = "input"
  · subst hin
    simp [gateFn] at hb
  by_cases haux : p.1 ∈ F.map aux
  · obtain ⟨f, hf, e⟩ := List.mem_map.1 haux
    rw [← e, U.cut.tyAux f hf] at hty
    injection hty with hty
    subst hty
    rw [← e, U.cut.fanin_aux hc hf] at hb
    cases hb
  · have g := (U.copy i hi).1 p.1 t hty hin haux
    apply gate_ok hw g b
    rw [List.map_map]
    exact hb

theorem cut_typed (hc : LintClean c) (hx : ∀ p ∈ c.nodes, p.2.ty ≠ some "x") (K : CutFacts c F cCut) :
    ∀ p ∈ cCut.nodes, ∃ t, p.2.ty = some t ∧ t ∈ Expected.supported_types ∧ t ≠ "x" := by
  intro p hp
  rcases K.nodesTy p hp with ⟨p0, hp0, _, e2⟩ | ⟨f, _, _, e2⟩
  · obtain ⟨t, ht, hs⟩ := hc.typed p0 hp0
    refine ⟨t, by rw [e2]; exact ht, hs, ?_⟩
    intro e
    exact hx p0 hp0 (by rw [ht, e])
  · exact ⟨"buf", e2, by decide, by decide⟩

theorem cut_single (hc : LintClean c) (K : CutFacts c F cCut) :
    ∀ n t, cCut.ty? n = some t → t ∈ ["buf", "not", "bb_input"] → (cCut.fanin n).length ≤ 1 := by
  intro n t ht hm
  rcases K.ty_cases ht with ⟨_, h2⟩ | ⟨f, hf, e, _⟩
  · rw [K.fanin_length hc.toWF, hc.single n t h2 hm]
    exact Nat.le_refl 1
  · rw [e, K.fanin_aux hc.toWF hf]
    exact Nat.zero_le _

/-- every copy carries the stable state -/
theorem copies_stable (hc : LintClean c) (hx : ∀ p ∈ c.nodes, p.2.ty ≠ some "x") (U : USpec c ord F cCut a)
    {v w : Val} (hv : Consistent c v) (hw : Consistent a w) (hin : ∀ i ∈ c.inputs, w i = v i)
    (haux : ∀ f ∈ F, w (pref (cn 0) (aux f)) = v f) :
    ∀ i, i ≤ F.length → ∀ n, cCut.has n = true → w (pref (cn i) n) = extV F v n := by
  have hwf := hc.toWF
  have K := U.cut
  obtain ⟨rank, hrank⟩ := U.rank
  have hFc : ∀ f ∈ F, c.has f = true := by
    intro f hf
    obtain ⟨e, he, rfl⟩ := List.mem_map.1 ((U.Fmem f).1 hf)
    exact (hwf.closed e (fas_sub c e he).1).1
  intro i
  induction i with
  | zero =>
    intro hi
    apply Tseitin.acyclic_unique' cCut K.wf.nodup (cut_typed hc hx K) (cut_single hc K) K.wf.closed rank hrank
      (fun n => w (pref (cn 0) n)) (extV F v) (copy_consistent hwf U hw hi) (K.consistent_ext hwf v hv)
    rintro n (h1 | h1 | ⟨t, h1, h2, h3⟩)
    · have hn : n ∈ cCut.inputs := (CG.mem_inputs K.wf.nodup n).2 h1
      have hn' : n ∈ c.inputs := (K.mem_inputs hwf n).1 hn
      show w (pref (cn 0) n) = _
      rw [buf_ok hw ((U.copy 0 hi).2.1 n hn), hin n hn', extV_old K v (mem_inputs_has hn')]
    · rcases K.ty_cases h1 with ⟨_, k2⟩ | ⟨_, _, _, k2⟩
      · exact absurd k2 (U.noBBO n)
      · exact absurd k2 (by decide)
    · rcases K.ty_cases h1 with ⟨_, k2⟩ | ⟨f, hf, e, _⟩
      · have := K.fanin_length hwf n
        rw [h3, hc.single n t k2 h2] at this
        cases this
      · subst e
        show w (pref (cn 0) (aux f)) = _
        rw [haux f hf, extV_aux v hf]
  | succ i ih =>
    intro hi
    have ih' := ih (by omega)
    apply Tseitin.acyclic_unique' cCut K.wf.nodup (cut_typed hc hx K) (cut_single hc K) K.wf.closed rank hrank
      (fun n => w (pref (cn (i + 1)) n)) (extV F v) (copy_consistent hwf U hw hi) (K.consistent_ext hwf v hv)
    rintro n (h1 | h1 | ⟨t, h1, h2, h3⟩)
    · have hn : n ∈ cCut.inputs := (CG.mem_inputs K.wf.nodup n).2 h1
      have hn' : n ∈ c.inputs := (K.mem_inputs hwf n).1 hn
      show w (pref (cn (i + 1)) n) = _
      rw [buf_ok hw ((U.copy (i + 1) hi).2.1 n hn), hin n hn', extV_old K v (mem_inputs_has hn')]
    · rcases K.ty_cases h1 with ⟨_, k2⟩ | ⟨_, _, _, k2⟩
      · exact absurd k2 (U.noBBO n)
      · exact absurd k2 (by decide)
    · rcases K.ty_cases h1 with ⟨_, k2⟩ | ⟨f, hf, e, _⟩
      · have := K.fanin_length hwf n
        rw [h3, hc.single n t k2 h2] at this
        cases this
      · subst e
        show w (pref (cn (i + 1)) (aux f)) = _
        have g := (U.copy (i + 1) hi).2.2 (Nat.succ_pos _) f hf
        rw [buf_ok hw g, Nat.add_sub_cancel, ih' f ((K.has f).2 (Or.inl (hFc f hf))), extV_aux v hf,
          extV_old K v (hFc f hf)]

/-- outputs carry the stable state -/
theorem outputs_stable (hc : LintClean c) (hx : ∀ p ∈ c.nodes, p.2.ty ≠ some "x") (U : USpec c ord F cCut a)
    {v w : Val} (hv : Consistent c v) (hw : Consistent a w) (hin : ∀ i ∈ c.inputs, w i = v i)
    (haux : ∀ f ∈ F, w (pref (cn 0) (aux f)) = v f) :
    ∀ o ∈ c.outputs, w o = v o := by
  intro o ho
  by_cases hoi : o ∈ c.inputs
  · exact hin o hoi
  · have g := U.outGate o ho hoi
    have hhas : c.has o = true := by
      unfold outputs at ho
      obtain ⟨p, hp, e⟩ := List.mem_map.1 ho
      rw [has_iff_mem, ← e]
      exact List.mem_map.2 ⟨p, (List.mem_filter.1 hp).1, rfl⟩
    rw [buf_ok hw g, copies_stable hc hx U hv hw hin haux F.length (Nat.le_refl _) o ((U.cut.has o).2 (Or.inl hhas)),
      extV_old U.cut v hhas]

/-! ### existence -/

def freeV (c : Circuit) (F : List Name) (v : Val) : Val := fun x =>
  if x ∈ c.inputs then v x else
  match F.find? (fun f => x == pref (cn 0) (aux f)) with
  | some f => v f
  | none => false

theorem realised (hc : WF c) (U : USpec c ord F cCut a) (v : Val) :
    ∃ w, Consistent a w ∧ (∀ i ∈ c.inputs, w i = v i) ∧ (∀ f ∈ F, w (pref (cn 0) (aux f)) = v f) := by
  obtain ⟨l, hl⟩ := Q.topoSort_of_not_cyclic a U.acyc
  obtain ⟨hnd, hmem, htopo⟩ := Q.topoSort_spec a U.wf l hl
  obtain ⟨h1, h2⟩ := Tseitin.acyclic_exists' a U.wf.nodup l (freeV c F v)
    (Q.perm_of_nodup_mem hnd U.wf.nodup hmem) (Q.topoOK_index a l htopo)
  refine ⟨_, h1, ?_, ?_⟩
  · intro i hi
    rw [h2 i (Or.inl ((U.inp i).2 (Or.inl hi)))]
    unfold freeV
    rw [if_pos hi]
  · intro f hf
    rw [h2 _ (Or.inl ((U.inp _).2 (Or.inr ⟨f, hf, rfl⟩)))]
    unfold freeV
    have hni : pref (cn 0) (aux f) ∉ c.inputs :=
      U.auxNotIn 0 (Nat.zero_le _) (aux f) (has_of_ty? (U.cut.tyAux f hf))
    rw [if_neg hni]
    cases hh : F.find? (fun g => pref (cn 0) (aux f) == pref (cn 0) (aux g)) with
    | none =>
      have := List.find?_eq_none.1 hh f hf
      simp at this
    | some g =>
      have := List.find?_some hh
      simp only [beq_iff_eq] at this
      rw [aux_inj (pref_inj _ this)]

end
end AU
end CG
