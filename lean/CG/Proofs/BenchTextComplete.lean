/- C15 (character level) helper: completeness of the backtracking matcher: with enough fuel, if a declarative match
   exists whose continuation succeeds, the matcher succeeds (with some result) -/
import CG.Proofs.BenchTextDen
namespace CG
namespace BenchText
open Regex

/-- fuel that suffices for a text of `N` characters -/
def need (N : Nat) : Re → Nat
  | .eps => 1
  | .set _ => 1
  | .any => 1
  | .wordb => 1
  | .seq a b => need N a + need N b + 1
  | .alt a b => need N a + need N b + 1
  | .group _ r => need N r + 1
  | .opt r _ => need N r + 1
  | .star r _ => need N r + N + 2
  | .plus r _ => need N r + N + 3

theorem Iter.length_le {R : List Char → Caps → List Char → Caps → Prop}
    (hR : ∀ s c s' c', R s c s' c' → ∃ w, s = w ++ s') :
    ∀ n s c s' c', Iter R n s c s' c' → n + s'.length ≤ s.length
  | 0, s, c, s', c', h => by rw [h.1]; omega
  | n + 1, s, c, s', c', ⟨s1, c1, h1, hne, h2⟩ => by
    obtain ⟨w1, e1⟩ := hR _ _ _ _ h1
    have := Iter.length_le hR n _ _ _ _ h2
    have hl : s.length = w1.length + s1.length := by rw [e1, List.length_append]
    omega

/-- goal `(match a with | some res => some res | none => b).isSome = true` from `h : a.isSome ∨ b.isSome` -/
syntax "match_some " term : tactic
macro_rules
  | `(tactic| match_some $h) => `(tactic|
      (split
       · rfl
       · rename_i hnone
         have hh' := $h
         rcases hh' with h' | h'
         · rw [hnone] at h'; cases h'
         · exact h'))

theorem star_isSome (ctx : Ctx) (r' : Re) (g : Bool) (f pos : Nat) (caps : Caps) (k : Nat → Caps → Option (Nat × Caps))
    (h : (m ctx f r' pos caps (fun p c => if p == pos then none else m ctx f (.star r' g) p c k)).isSome = true ∨
      (k pos caps).isSome = true) : (m ctx (f + 1) (.star r' g) pos caps k).isSome = true := by
  simp only [m]
  cases g
  · simp only [Bool.false_eq_true, if_false]
    match_some h.symm
  · simp only [if_true]
    match_some h

theorem star_complete (ctx : Ctx) (r' : Re) (g : Bool) (k : Nat → Caps → Option (Nat × Caps)) (s' : List Char) (c' : Caps)
    (ih : ∀ (fuel pos : Nat) (caps : Caps) (k : Nat → Caps → Option (Nat × Caps)) (s' : List Char) (c' : Caps),
      pos ≤ ctx.s.size → need ctx.s.size r' ≤ fuel → Den ctx r' ((txt ctx).drop pos) caps s' c' →
      (k (ctx.s.size - s'.length) c').isSome = true → (m ctx fuel r' pos caps k).isSome = true)
    (hk : (k (ctx.s.size - s'.length) c').isSome = true) :
    ∀ (n f pos : Nat) (caps : Caps), pos ≤ ctx.s.size → need ctx.s.size r' + n + 1 ≤ f →
      Iter (Den ctx r') n ((txt ctx).drop pos) caps s' c' → (m ctx f (.star r' g) pos caps k).isSome = true
  | 0, f, pos, caps, hp, hf, h => by
    obtain ⟨f', rfl⟩ : ∃ f', f = f' + 1 := ⟨f - 1, by omega⟩
    apply star_isSome
    right
    rw [h.1, h.2, pos_drop ctx hp] at hk
    exact hk
  | n + 1, f, pos, caps, hp, hf, ⟨s1, c1, h1, hne, h2⟩ => by
    obtain ⟨f', rfl⟩ : ∃ f', f = f' + 1 := ⟨f - 1, by omega⟩
    apply star_isSome
    left
    obtain ⟨w, e⟩ := Den.suffix ctx _ _ _ _ _ h1
    obtain ⟨hle, hd, he⟩ := drop_of_append ctx hp e
    apply ih f' pos caps _ s1 c1 hp (by omega) h1
    have hne' : ((ctx.s.size - s1.length) == pos) = false := by
      rw [beq_eq_false_iff_ne]
      intro hh
      apply hne
      have hl := congrArg List.length e
      rw [drop_length, List.length_append] at hl
      rw [drop_length]
      omega
    simp only [hne']
    rw [← hd] at h2
    exact star_complete ctx r' g k s' c' ih hk n f' _ c1 hle (by omega) h2

/-- **completeness of the matcher** (existence of a result) -/
theorem m_complete (ctx : Ctx) : ∀ (r : Re) (fuel pos : Nat) (caps : Caps) (k : Nat → Caps → Option (Nat × Caps))
    (s' : List Char) (c' : Caps), pos ≤ ctx.s.size → need ctx.s.size r ≤ fuel →
    Den ctx r ((txt ctx).drop pos) caps s' c' → (k (ctx.s.size - s'.length) c').isSome = true →
    (m ctx fuel r pos caps k).isSome = true := by
  intro r
  induction r with
  | eps =>
    intro fuel pos caps k s' c' hp hf h hk
    obtain ⟨f, rfl⟩ : ∃ f', fuel = f' + 1 := ⟨fuel - 1, by simp only [need] at hf; omega⟩
    simp only [m]
    rw [h.1, h.2, pos_drop ctx hp] at hk
    exact hk
  | set S =>
    intro fuel pos caps k s' c' hp hf h hk
    obtain ⟨f, rfl⟩ : ∃ f', fuel = f' + 1 := ⟨fuel - 1, by simp only [need] at hf; omega⟩
    obtain ⟨x, e, hm, rfl⟩ := h
    have hlt : pos < ctx.s.size := by
      have := congrArg List.length e
      rw [drop_length, List.length_cons] at this
      omega
    rw [drop_cons ctx hlt] at e
    injection e with e1 e2
    simp only [m, hlt, dite_true, e1, hm, if_true]
    rw [← e2, pos_drop ctx (by omega)] at hk
    exact hk
  | any =>
    intro fuel pos caps k s' c' hp hf h hk
    obtain ⟨f, rfl⟩ : ∃ f', fuel = f' + 1 := ⟨fuel - 1, by simp only [need] at hf; omega⟩
    obtain ⟨x, e, hm, rfl⟩ := h
    have hlt : pos < ctx.s.size := by
      have := congrArg List.length e
      rw [drop_length, List.length_cons] at this
      omega
    rw [drop_cons ctx hlt] at e
    injection e with e1 e2
    simp only [m, hlt, dite_true, e1, hm, if_true]
    rw [← e2, pos_drop ctx (by omega)] at hk
    exact hk
  | wordb =>
    intro fuel pos caps k s' c' hp hf h hk
    obtain ⟨f, rfl⟩ : ∃ f', fuel = f' + 1 := ⟨fuel - 1, by simp only [need] at hf; omega⟩
    have e : m ctx (f + 1) .wordb pos caps k = if wbAt ctx pos = true then k pos caps else none := rfl
    obtain ⟨hw, rfl, rfl⟩ := h
    rw [pos_drop ctx hp] at hw hk
    rw [e, if_pos hw]
    exact hk
  | seq a b iha ihb =>
    intro fuel pos caps k s' c' hp hf h hk
    simp only [need] at hf
    obtain ⟨f, rfl⟩ : ∃ f', fuel = f' + 1 := ⟨fuel - 1, by omega⟩
    obtain ⟨s1, c1, h1, h2⟩ := h
    simp only [m]
    obtain ⟨w, e⟩ := Den.suffix ctx _ _ _ _ _ h1
    obtain ⟨hle, hd, _⟩ := drop_of_append ctx hp e
    apply iha f pos caps _ s1 c1 hp (by omega) h1
    rw [← hd] at h2
    exact ihb f _ c1 k s' c' hle (by omega) h2 hk
  | alt a b iha ihb =>
    intro fuel pos caps k s' c' hp hf h hk
    simp only [need] at hf
    obtain ⟨f, rfl⟩ : ∃ f', fuel = f' + 1 := ⟨fuel - 1, by omega⟩
    simp only [m]
    have key : (m ctx f a pos caps k).isSome = true ∨ (m ctx f b pos caps k).isSome = true := by
      rcases h with h | h
      · exact Or.inl (iha f pos caps k s' c' hp (by omega) h hk)
      · exact Or.inr (ihb f pos caps k s' c' hp (by omega) h hk)
    match_some key
  | group idx r ih =>
    intro fuel pos caps k s' c' hp hf h hk
    simp only [need] at hf
    obtain ⟨f, rfl⟩ : ∃ f', fuel = f' + 1 := ⟨fuel - 1, by omega⟩
    obtain ⟨c1, h1, rfl⟩ := h
    simp only [m]
    apply ih f pos caps _ s' c1 hp (by omega) h1
    rw [pos_drop ctx hp] at hk
    exact hk
  | opt r g ih =>
    intro fuel pos caps k s' c' hp hf h hk
    simp only [need] at hf
    obtain ⟨f, rfl⟩ : ∃ f', fuel = f' + 1 := ⟨fuel - 1, by omega⟩
    have key : (m ctx f r pos caps k).isSome = true ∨ (k pos caps).isSome = true := by
      rcases h with h | ⟨rfl, rfl⟩
      · exact Or.inl (ih f pos caps k s' c' hp (by omega) h hk)
      · rw [pos_drop ctx hp] at hk; exact Or.inr hk
    simp only [m]
    cases g
    · simp only [Bool.false_eq_true, if_false]
      match_some key.symm
    · simp only [if_true]
      match_some key
  | star r g ih =>
    intro fuel pos caps k s' c' hp hf h hk
    simp only [need] at hf
    obtain ⟨n, hn⟩ := h
    have hlen := Iter.length_le (Den.suffix ctx r) n _ _ _ _ hn
    rw [drop_length] at hlen
    exact star_complete ctx r g k s' c' ih hk n fuel pos caps hp (by omega) hn
  | plus r g ih =>
    intro fuel pos caps k s' c' hp hf h hk
    simp only [need] at hf
    obtain ⟨f, rfl⟩ : ∃ f', fuel = f' + 1 := ⟨fuel - 1, by omega⟩
    obtain ⟨s1, c1, h1, n, hn⟩ := h
    simp only [m]
    obtain ⟨w, e⟩ := Den.suffix ctx _ _ _ _ _ h1
    obtain ⟨hle, hd, _⟩ := drop_of_append ctx hp e
    apply ih f pos caps _ s1 c1 hp (by omega) h1
    have hlen := Iter.length_le (Den.suffix ctx r) n _ _ _ _ hn
    rw [← hd] at hn
    rw [← hd, drop_length] at hlen
    exact star_complete ctx r g k s' c' ih hk n f _ c1 hle (by omega) hn

/-- the continuation used by `searchFrom` -/
def k0 : Nat → Caps → Option (Nat × Caps) := fun p c => some (p, c)

/-- no declarative match: the matcher fails -/
theorem m_none (ctx : Ctx) (fuel : Nat) (r : Re) (pos : Nat) (hp : pos ≤ ctx.s.size)
    (h : ∀ s' c', ¬ Den ctx r ((txt ctx).drop pos) [] s' c') : m ctx fuel r pos [] k0 = none := by
  cases hm : m ctx fuel r pos [] k0 with
  | none => rfl
  | some x =>
    obtain ⟨s', c', h1, _⟩ := m_sound ctx fuel r pos [] k0 x hp hm
    exact absurd h1 (h s' c')

/-- a unique declarative match: the matcher finds it -/
theorem m_some (ctx : Ctx) (fuel : Nat) (r : Re) (pos : Nat) (hp : pos ≤ ctx.s.size) (hf : need ctx.s.size r ≤ fuel)
    (s0 : List Char) (c0 : Caps) (h0 : Den ctx r ((txt ctx).drop pos) [] s0 c0)
    (hu : ∀ s' c', Den ctx r ((txt ctx).drop pos) [] s' c' → s' = s0 ∧ c' = c0) :
    m ctx fuel r pos [] k0 = some (ctx.s.size - s0.length, c0) := by
  have := m_complete ctx r fuel pos [] k0 s0 c0 hp hf h0 rfl
  cases hm : m ctx fuel r pos [] k0 with
  | none => rw [hm] at this; cases this
  | some x =>
    obtain ⟨s', c', h1, h2⟩ := m_sound ctx fuel r pos [] k0 x hp hm
    obtain ⟨rfl, rfl⟩ := hu s' c' h1
    simp only [k0] at h2
    rw [← Option.some.inj h2]

end BenchText
end CG
