/- C20 (second half, bench reader): the structural description `Built` of what the reader builds implies `LintClean` -/
import CG.Proofs.BenchSem
set_option linter.unusedSimpArgs false
set_option linter.unusedVariables false
namespace CG
namespace LintProdF
open Circuit Ternary Bench BenchP

/-- what the definitions of a well-formed netlist satisfy (operands already parity-normalised) -/
structure DefsGood (D : List Def) (dffs : List (Name × Name)) : Prop where
  nodup : (names D).Nodup
  nodot : ∀ x ∈ names D, ¬ hasDotB x
  ty : ∀ d ∈ D, d.2.1 ∈ okTypes
  closed : ∀ d ∈ D, ∀ u ∈ d.2.2, u ∈ names D
  single : ∀ d ∈ D, (d.2.1 = "buf" ∨ d.2.1 = "not") → d.1 ∉ dffs.map (·.1) → d.2.2.length = 1
  source : ∀ d ∈ D, (d.2.1 = "0" ∨ d.2.1 = "1" ∨ d.2.1 = "input") → d.2.2 = []
  multi : ∀ d ∈ D, d.2.1 ∈ multiTypes → d.2.2 ≠ []
  dffDef : ∀ d ∈ dffs, (d.1, "buf", []) ∈ D
  dffD : ∀ d ∈ dffs, d.2 ∈ names D
  dffNodup : (dffs.map (·.1)).Nodup

section
variable {D : List Def} {dffs : List (Name × Name)} {outs : List Name} {c : Circuit}

theorem DefsGood.dffName (g : DefsGood D dffs) {d : Name × Name} (hd : d ∈ dffs) : d.1 ∈ names D :=
  List.mem_map.mpr ⟨_, g.dffDef d hd, rfl⟩

/-- the type of a node of the built circuit: a definition or a flop pin -/
theorem ty_cases (h : Built D dffs outs c) {x : Name} {t : String} (hx : c.ty? x = some t) :
    (∃ d ∈ D, d.1 = x ∧ d.2.1 = t) ∨ (∃ d ∈ dffs, x = pinD d.1 ∧ t = "bb_input") ∨
    (∃ d ∈ dffs, x = pinQ d.1 ∧ t = "bb_output") := by
  rcases (h.has x).mp (has_of_ty? hx) with h1 | ⟨d, hd, h1 | h1⟩
  · obtain ⟨d, hd, rfl⟩ := List.mem_map.mp h1
    rw [h.ty hd] at hx
    exact Or.inl ⟨d, hd, rfl, Option.some.inj hx⟩
  · rw [h1, ty_of_attr (h.attrP d hd).1] at hx
    exact Or.inr (Or.inl ⟨d, hd, h1, (Option.some.inj hx).symm⟩)
  · rw [h1, ty_of_attr (h.attrP d hd).2] at hx
    exact Or.inr (Or.inr ⟨d, hd, h1, (Option.some.inj hx).symm⟩)

theorem ok_not_pin {t : String} (h : t ∈ okTypes) : t ≠ "bb_input" ∧ t ≠ "bb_output" ∧ t ≠ "x" := by
  simp only [okTypes, List.mem_cons, List.not_mem_nil, or_false] at h
  rcases h with rfl | rfl | rfl | rfl | rfl | rfl | rfl | rfl | rfl | rfl | rfl <;> decide

theorem ok_supported {t : String} (h : t ∈ okTypes) : t ∈ Expected.supported_types := by
  simp only [okTypes, List.mem_cons, List.not_mem_nil, or_false] at h
  rcases h with rfl | rfl | rfl | rfl | rfl | rfl | rfl | rfl | rfl | rfl | rfl <;> decide

/-- a definition's type is the type of its node -/
theorem ty_def (h : Built D dffs outs c) (g : DefsGood D dffs) {d : Def} (hd : d ∈ D) {t : String}
    (hx : c.ty? d.1 = some t) : d.2.1 = t := by
  rw [h.ty hd] at hx
  exact Option.some.inj hx

theorem fanin_pinQ (h : Built D dffs outs c) (g : DefsGood D dffs) (q : Name) : c.fanin (pinQ q) = [] := by
  apply fanin_nil_of
  intro e he h1
  rcases (h.edges e).mp he with ⟨d', hd', h2, _⟩ | ⟨d', hd', h2 | h2⟩
  · exact g.nodot d'.1 (List.mem_map.mpr ⟨d', hd', rfl⟩) (by rw [← h2, h1]; exact pinQ_dot _)
  · rw [h2] at h1
    exact pinD_ne_pinQ' _ _ h1
  · rw [h2] at h1
    have h1' : d'.1 = pinQ q := h1
    exact g.nodot d'.1 (g.dffName hd') (by rw [h1']; exact pinQ_dot _)

/-- the fan-in of a defined net that is no flop output is non-empty iff it has operands; its length is 1 when there is
    one operand -/
theorem fanin_def_nil (h : Built D dffs outs c) (g : DefsGood D dffs) {d : Def} (hd : d ∈ D)
    (hq : d.1 ∉ dffs.map (·.1)) (h0 : d.2.2 = []) : c.fanin d.1 = [] := by
  cases hf : c.fanin d.1 with
  | nil => rfl
  | cons u us =>
    have : u ∈ d.2.2 := (h.fanin_mem g.nodup g.nodot hd hq u).mp (by rw [hf]; exact List.mem_cons_self)
    rw [h0] at this; cases this

theorem fanin_def_one (h : Built D dffs outs c) (g : DefsGood D dffs) {d : Def} (hd : d ∈ D)
    (hq : d.1 ∉ dffs.map (·.1)) (h1 : d.2.2.length = 1) : (c.fanin d.1).length = 1 := by
  match hops : d.2.2, h1 with
  | [a], _ =>
    have : c.fanin d.1 = [a] := by
      apply eq_singleton_of (fanin_nodup h.nodupE _)
      intro u
      rw [h.fanin_mem g.nodup g.nodot hd hq u, hops, List.mem_singleton]
    rw [this]; rfl

theorem fanin_def_pos (h : Built D dffs outs c) (g : DefsGood D dffs) {d : Def} (hd : d ∈ D)
    (hq : d.1 ∉ dffs.map (·.1)) (h1 : d.2.2 ≠ []) : 1 ≤ (c.fanin d.1).length := by
  cases hops : d.2.2 with
  | nil => exact absurd hops h1
  | cons a as =>
    have : a ∈ c.fanin d.1 := (h.fanin_mem g.nodup g.nodot hd hq a).mpr (by rw [hops]; exact List.mem_cons_self)
    cases hf : c.fanin d.1 with
    | nil => rw [hf] at this; cases this
    | cons u us => simp

/-- a flop output net is its `buf` definition -/
theorem dff_def (g : DefsGood D dffs) {d : Def} (hd : d ∈ D) (hq : d.1 ∈ dffs.map (·.1)) :
    ∃ p ∈ dffs, d = (p.1, "buf", []) := by
  obtain ⟨p, hp, e⟩ := List.mem_map.mp hq
  exact ⟨p, hp, def_eq_of_name g.nodup hd (g.dffDef p hp) e.symm⟩

/-- **the built circuit is lint-clean** -/
theorem built_lintClean (h : Built D dffs outs c) (g : DefsGood D dffs) : LintClean c := by
  refine ⟨h.wf, ?_, ?_, ?_, ?_, ?_, ?_⟩
  · -- typed
    intro p hp
    have ha : c.attr? p.1 = some p.2 := attr?_of_mem h.nodupN (by exact hp)
    have hh : c.has p.1 = true := has_of_attr' ha
    rcases (h.has p.1).mp hh with h1 | ⟨d, hd, h1 | h1⟩
    · obtain ⟨d, hd, e⟩ := List.mem_map.mp h1
      have := h.attrD d hd
      rw [e, ha] at this
      rw [Option.some.inj this]
      exact ⟨d.2.1, rfl, ok_supported (g.ty d hd)⟩
    · have := (h.attrP d hd).1
      rw [← h1, ha] at this
      rw [Option.some.inj this]
      exact ⟨"bb_input", rfl, by decide⟩
    · have := (h.attrP d hd).2
      rw [← h1, ha] at this
      rw [Option.some.inj this]
      exact ⟨"bb_output", rfl, by decide⟩
  · -- noFanin
    intro n t hty hs
    rcases ty_cases h hty with ⟨d, hd, rfl, rfl⟩ | ⟨d, hd, rfl, rfl⟩ | ⟨d, hd, rfl, rfl⟩
    · have hsrc : d.2.1 = "0" ∨ d.2.1 = "1" ∨ d.2.1 = "input" := by
        have hnp := ok_not_pin (g.ty d hd)
        simp only [sourceTypes, List.mem_cons, List.not_mem_nil, or_false] at hs
        rcases hs with e | e | e | e | e
        · exact Or.inr (Or.inr e)
        · exact Or.inl e
        · exact Or.inr (Or.inl e)
        · exact absurd e hnp.2.2
        · exact absurd e hnp.2.1
      have hq : d.1 ∉ dffs.map (·.1) := by
        intro hq
        obtain ⟨p, hp, e⟩ := dff_def g hd hq
        rw [e] at hsrc
        have hsrc' : "buf" = "0" ∨ "buf" = "1" ∨ "buf" = "input" := hsrc
        exact absurd hsrc' (by decide)
      exact fanin_def_nil h g hd hq (g.source d hd hsrc)
    · exact absurd hs (by decide)
    · exact fanin_pinQ h g _
  · -- single
    intro n t hty hs
    rcases ty_cases h hty with ⟨d, hd, rfl, rfl⟩ | ⟨d, hd, rfl, rfl⟩ | ⟨d, hd, rfl, rfl⟩
    · have hbn : d.2.1 = "buf" ∨ d.2.1 = "not" := by
        simp only [singleTypes, List.mem_cons, List.not_mem_nil, or_false] at hs
        rcases hs with e | e | e
        · exact Or.inl e
        · exact Or.inr e
        · exact absurd e (ok_not_pin (g.ty d hd)).1
      by_cases hq : d.1 ∈ dffs.map (·.1)
      · obtain ⟨p, hp, e⟩ := dff_def g hd hq
        rw [e]
        simp only []
        rw [h.fanin_q g.nodot g.nodup g.dffDef g.dffNodup hp]
        rfl
      · exact fanin_def_one h g hd hq (g.single d hd hbn hq)
    · rw [h.fanin_pinD g.nodot (fun d' hd' => g.dffName hd') g.dffNodup hd]
      rfl
    · exact absurd hs (by decide)
  · -- multi
    intro n t hty hs
    rcases ty_cases h hty with ⟨d, hd, rfl, rfl⟩ | ⟨d, hd, rfl, rfl⟩ | ⟨d, hd, rfl, rfl⟩
    · have hq : d.1 ∉ dffs.map (·.1) := by
        intro hq
        obtain ⟨p, hp, e⟩ := dff_def g hd hq
        rw [e] at hs
        have hs' : "buf" ∈ multiTypes := hs
        exact absurd hs' (by decide)
      exact fanin_def_pos h g hd hq (g.multi d hd hs)
    · exact absurd hs (by decide)
    · exact absurd hs (by decide)
  · -- bbOut
    intro e he hty
    rcases ty_cases h hty with ⟨d, hd, h1, h2⟩ | ⟨d, hd, h1, h2⟩ | ⟨d, hd, h1, _⟩
    · exact absurd h2 (ok_not_pin (g.ty d hd)).2.1
    · exact absurd h2 (by decide)
    · -- the edges leaving `pinQ d.1`
      have key : ∀ v, (pinQ d.1, v) ∈ c.edges → v = d.1 := by
        intro v hv
        rcases (h.edges _).mp hv with ⟨d', hd', h2, h3⟩ | ⟨d', hd', h2 | h2⟩
        · exact absurd (pinQ_dot d.1) (g.nodot _ (g.closed d' hd' _ h3))
        · have : pinQ d.1 = d'.2 := (Prod.ext_iff.mp h2).1
          exact absurd (by rw [← this]; exact pinQ_dot d.1) (g.nodot _ (g.dffD d' hd'))
        · obtain ⟨e1, e2⟩ := Prod.ext_iff.mp h2
          simp only at e1 e2
          rw [e2, pinQ_inj e1]
      have he' : (pinQ d.1, e.2) ∈ c.edges := by rw [← h1]; exact he
      refine ⟨?_, ?_⟩
      · rw [key _ he', h.ty (g.dffDef d hd)]
      · rw [h1]
        have hnd := fanout_nodup h.nodupE (pinQ d.1)
        have hall : ∀ v ∈ c.fanout (pinQ d.1), v = d.1 := fun v hv => key v (mem_fanout.mp hv)
        match hf : c.fanout (pinQ d.1), hnd, hall with
        | [], _, _ => simp
        | [a], _, _ => simp
        | a :: b :: l, hnd, hall =>
          exfalso
          have ea := hall a (by simp)
          have eb := hall b (by simp)
          rw [List.nodup_cons] at hnd
          exact hnd.1 (by rw [ea, eb]; simp)
  · -- noBBInFanout
    intro e he hty
    rcases ty_cases h hty with ⟨d, hd, h1, h2⟩ | ⟨d, hd, h1, _⟩ | ⟨d, hd, h1, h2⟩
    · exact absurd h2 (ok_not_pin (g.ty d hd)).1
    · rcases (h.edges e).mp he with ⟨d', hd', h2, h3⟩ | ⟨d', hd', h2 | h2⟩
      · exact absurd (by rw [← h1]; exact h3) (fun hm => g.nodot _ (g.closed d' hd' _ hm) (pinD_dot d.1))
      · have : e.1 = d'.2 := (Prod.ext_iff.mp h2).1
        exact g.nodot _ (g.dffD d' hd') (by rw [← this, h1]; exact pinD_dot _)
      · have : e.1 = pinQ d'.1 := (Prod.ext_iff.mp h2).1
        rw [h1] at this
        exact pinD_ne_pinQ' _ _ this
    · exact absurd h2 (by decide)

end

end LintProdF
end CG
