/- C10 helper: every valuation consistent with the encoded circuit denotes a fixpoint of the Kleene step -/
import CG.Proofs.TernaryMain
import CG.Proofs.TernaryAlg
import CG.Proofs.LimitGate
namespace CG
namespace Ternary
open Circuit

variable {c : Circuit} {mp : Name → Name} {t : Circuit} {v : Val}

theorem nodeOK_of_ty (hv : Consistent t v) {m : Name} {τ : String} (h : t.ty? m = some τ) :
    NodeOK t v m τ := by
  unfold Circuit.ty? at h
  cases ha : t.attr? m with
  | none => rw [ha] at h; cases h
  | some a =>
    rw [ha] at h
    exact hv (m, a) (attr?_mem ha) τ h

/-! ### gate semantics with the fan-in as a set -/

theorem and_sem (hv : Consistent t v) {m : Name} (h : t.ty? m = some "and") :
    v m = true ↔ ∀ u, (u, m) ∈ t.edges → v u = true := by
  have : v m = ((t.fanin m).map v).all id := nodeOK_of_ty hv h _ (by simp [gateFn])
  rw [this]
  simp only [List.all_map, List.all_eq_true, Function.comp, id, mem_fanin]

theorem or_sem (hv : Consistent t v) {m : Name} (h : t.ty? m = some "or") :
    v m = true ↔ ∃ u, (u, m) ∈ t.edges ∧ v u = true := by
  have : v m = ((t.fanin m).map v).any id := nodeOK_of_ty hv h _ (by simp [gateFn])
  rw [this]
  simp only [List.any_map, List.any_eq_true, Function.comp, id, mem_fanin]

theorem nor_sem (hv : Consistent t v) {m : Name} (h : t.ty? m = some "nor") :
    v m = false ↔ ∃ u, (u, m) ∈ t.edges ∧ v u = true := by
  have : v m = !((t.fanin m).map v).any id := nodeOK_of_ty hv h _ (by simp [gateFn])
  rw [this]
  simp only [List.any_map, Bool.not_eq_false', List.any_eq_true, Function.comp, id, mem_fanin]

theorem zero_sem (hv : Consistent t v) {m : Name} (h : t.ty? m = some "0") : v m = false :=
  nodeOK_of_ty hv h _ (by simp [gateFn])

theorem fanin_eq_singleton (hnd : t.edges.Nodup) {m q : Name} (h : FaninIs t m [q]) : t.fanin m = [q] := by
  apply List.perm_singleton.mp
  rw [List.perm_ext_iff_of_nodup (fanin_nodup hnd m) (by simp)]
  intro u
  rw [mem_fanin]; exact h u

theorem buf_sem (hv : Consistent t v) (hnd : t.edges.Nodup) {m q : Name} (h : t.ty? m = some "buf")
    (hf : FaninIs t m [q]) : v m = v q :=
  nodeOK_of_ty hv h _ (by rw [fanin_eq_singleton hnd hf]; simp [gateFn])

theorem not_sem (hv : Consistent t v) (hnd : t.edges.Nodup) {m q : Name} (h : t.ty? m = some "not")
    (hf : FaninIs t m [q]) : v m = !v q :=
  nodeOK_of_ty hv h _ (by rw [fanin_eq_singleton hnd hf]; simp [gateFn])

/-! ### values of the gadgets -/

theorem isZero_val (hv : Consistent t v) {z h p : Name} (g : IsZero mp t z h p) :
    v h = true ↔ (v p = false ∧ v (mp p) = false) := by
  obtain ⟨_, _, h3, h4⟩ := g
  have := nor_sem hv h3
  constructor
  · intro hh
    have hno : ¬ ∃ u, (u, h) ∈ t.edges ∧ v u = true := by
      intro he; have := this.mpr he; rw [hh] at this; cases this
    constructor
    · cases hp : v p with
      | false => rfl
      | true => exact absurd ⟨p, (h4 p).mpr (by simp), hp⟩ hno
    · cases hp : v (mp p) with
      | false => rfl
      | true => exact absurd ⟨mp p, (h4 _).mpr (by simp), hp⟩ hno
  · rintro ⟨h1, h2⟩
    cases hh : v h with
    | true => rfl
    | false =>
      obtain ⟨u, hu, hvu⟩ := this.mp hh
      have := (h4 u).mp hu
      simp only [List.mem_cons, List.not_mem_nil, or_false] at this
      rcases this with rfl | rfl
      · rw [h1] at hvu; cases hvu
      · rw [h2] at hvu; cases hvu

theorem isOne_val (hv : Consistent t v) (hnd : t.edges.Nodup) {z h p : Name} (g : IsOne mp t z h p) :
    v h = true ↔ (v p = true ∧ v (mp p) = false) := by
  obtain ⟨q, _, _, _, _, h5, h6, h7, h8⟩ := g
  have hq : v q = !v (mp p) := not_sem hv hnd h7 h8
  rw [and_sem hv h5]
  constructor
  · intro hall
    refine ⟨hall p ((h6 p).mpr (by simp)), ?_⟩
    have := hall q ((h6 q).mpr (by simp))
    rw [hq] at this
    simpa using this
  · rintro ⟨h1, h2⟩ u hu
    have := (h6 u).mp hu
    simp only [List.mem_cons, List.not_mem_nil, or_false] at this
    rcases this with rfl | rfl
    · exact h1
    · rw [hq, h2]; rfl

theorem collect_val {G : Gadget} {Q : Name → Prop} (hv : Consistent t v) {z : Name} {L : List Name}
    (hval : ∀ h p, G t z h p → (v h = true ↔ Q p)) (hc : Collect G t z L) :
    v z = false ↔ ∃ p ∈ L, Q p := by
  obtain ⟨_, h2, h3, h4⟩ := hc
  rw [nor_sem hv h2]
  constructor
  · rintro ⟨h, he, hvh⟩
    obtain ⟨p, hp, hg⟩ := h3 h he
    exact ⟨p, hp, (hval h p hg).mp hvh⟩
  · rintro ⟨p, hp, hq⟩
    obtain ⟨h, he, hg⟩ := h4 p hp
    exact ⟨h, he, (hval h p hg).mpr hq⟩

theorem andOr_val {G : Gadget} {Q : Name → Prop} (hv : Consistent t v) {n : Name}
    (hval : ∀ z h p, G t z h p → (v h = true ↔ Q p)) (h : AndOr G c mp t n) :
    v (mp n) = true ↔ ((∃ p ∈ c.fanin n, v (mp p) = true) ∧ ¬ ∃ p ∈ c.fanin n, Q p) := by
  obtain ⟨x, z, h1, h2, _, h4, h5, h6⟩ := h
  have hz := collect_val hv (hval z) h6
  have hx : v x = true ↔ ∃ p ∈ c.fanin n, v (mp p) = true := by
    rw [or_sem hv h4]
    constructor
    · rintro ⟨u, hu, hvu⟩
      obtain ⟨p, hp, rfl⟩ := List.mem_map.mp ((h5 u).mp hu)
      exact ⟨p, hp, hvu⟩
    · rintro ⟨p, hp, hvp⟩
      exact ⟨mp p, (h5 _).mpr (List.mem_map.mpr ⟨p, hp, rfl⟩), hvp⟩
  rw [and_sem hv h1, ← hx, ← hz]
  constructor
  · intro hall
    refine ⟨hall x ((h2 x).mpr (by simp)), ?_⟩
    rw [hall z ((h2 z).mpr (by simp))]; simp
  · rintro ⟨h7, h8⟩ u hu
    have := (h2 u).mp hu
    simp only [List.mem_cons, List.not_mem_nil, or_false] at this
    rcases this with rfl | rfl
    · exact h7
    · simpa using h8

theorem disj {ty : String} {l1 l2 : List String} (hd : ∀ x ∈ l1, x ∉ l2) (h1 : ty ∈ l1) (h2 : ty ∈ l2) : False :=
  hd ty h1 h2

/-! ### the fixpoint -/

/-- the ternary pattern a valuation of the encoded circuit denotes -/
def patOf (v : Val) (mp : Name → Name) : Name → T3 := fun m => toT3 (v m) (v (mp m))

theorem sem_fix (g : GoodC c) (inv : TInv c mp c.nodeNames [] t) (hv : Consistent t v) (n : Name) :
    step3 c (patOf v mp) n = patOf v mp n := by
  unfold step3
  cases hty : c.ty? n with
  | none => rfl
  | some ty =>
  have hn : c.has n = true := has_of_ty? hty
  obtain ⟨ty', hty', hdone⟩ := inv.done n ((has_iff_mem c n).mp hn)
  rw [hty] at hty'; cases hty'
  obtain ⟨hattr, hperm⟩ := final_contains g inv hn
  have htn : t.ty? n = some ty := by
    unfold Circuit.ty? at hty ⊢; rw [hattr]; exact hty
  have hvn : ∀ b', gateFn ty ((c.fanin n).map v) = some b' → v n = b' := by
    intro b' hb
    apply nodeOK_of_ty hv htn
    rw [Limit.gateFn_perm_any ty (hperm.map v)]; exact hb
  have hnd := inv.w.nodupE
  simp only []
  by_cases hin : ty = "input"
  · subst hin; simp [gateFn3]
  have hty10 : ty ∈ ["and", "nand", "or", "nor", "xor", "xnor", "buf", "not", "0", "1"] := by
    have := g.ty_ok hty
    simp only [okTypes, List.mem_cons, List.not_mem_nil, or_false] at this ⊢
    rcases this with h | h | h | h | h | h | h | h | h | h | h
    all_goals first | exact absurd h hin | simp [h]
  obtain ⟨b', hb1, hb2⟩ := enc_gate v (fun p => v (mp p)) ty (c.fanin n) (v (mp n))
    (by
      intro h
      have hmem : ty ∈ ["and", "nand"] := by rcases h with rfl | rfl <;> decide
      rcases hdone with ⟨_, h2⟩ | ⟨h1, _⟩ | ⟨h1, _⟩ | ⟨h1, _⟩ | ⟨h1, _⟩ | ⟨h1, _⟩
      · exact andOr_val hv (fun z h p hg => isZero_val hv hg) h2
      · exact (disj (by decide) hmem h1).elim
      · exact (disj (by decide) hmem h1).elim
      · exact (disj (by decide) hmem h1).elim
      · exact (disj (by decide) hmem h1).elim
      · exact absurd h1 hin)
    (by
      intro h
      have hmem : ty ∈ ["or", "nor"] := by rcases h with rfl | rfl <;> decide
      rcases hdone with ⟨h1, _⟩ | ⟨_, h2⟩ | ⟨h1, _⟩ | ⟨h1, _⟩ | ⟨h1, _⟩ | ⟨h1, _⟩
      · exact (disj (by decide) hmem h1).elim
      · exact andOr_val hv (fun z h p hg => isOne_val hv hnd hg) h2
      · exact (disj (by decide) hmem h1).elim
      · exact (disj (by decide) hmem h1).elim
      · exact (disj (by decide) hmem h1).elim
      · exact absurd h1 hin)
    (by
      intro h
      have hmem : ty ∈ ["xor", "xnor"] := by rcases h with rfl | rfl <;> decide
      rcases hdone with ⟨h1, _⟩ | ⟨h1, _⟩ | ⟨h1, _⟩ | ⟨_, h2, h3⟩ | ⟨h1, _⟩ | ⟨h1, _⟩
      · exact (disj (by decide) hmem h1).elim
      · exact (disj (by decide) hmem h1).elim
      · exact (disj (by decide) hmem h1).elim
      · rw [or_sem hv h2]
        constructor
        · rintro ⟨u, hu, hvu⟩
          obtain ⟨p, hp, rfl⟩ := List.mem_map.mp ((h3 u).mp hu)
          exact ⟨p, hp, hvu⟩
        · rintro ⟨p, hp, hvp⟩
          exact ⟨mp p, (h3 _).mpr (List.mem_map.mpr ⟨p, hp, rfl⟩), hvp⟩
      · exact (disj (by decide) hmem h1).elim
      · exact absurd h1 hin)
    (by
      intro h
      have hmem : ty ∈ ["buf", "not"] := by rcases h with rfl | rfl <;> decide
      rcases hdone with ⟨h1, _⟩ | ⟨h1, _⟩ | ⟨_, h2, h3⟩ | ⟨h1, _⟩ | ⟨h1, _⟩ | ⟨h1, _⟩
      · exact (disj (by decide) hmem h1).elim
      · exact (disj (by decide) hmem h1).elim
      · have hlen : (c.fanin n).length = 1 := g.clean.single n ty hty (by
          rcases h with rfl | rfl <;> decide)
        obtain ⟨p, hp⟩ := List.length_eq_one_iff.mp hlen
        refine ⟨p, hp, ?_⟩
        rw [hp] at h3
        exact buf_sem hv hnd h2 h3
      · exact (disj (by decide) hmem h1).elim
      · exact (disj (by decide) hmem h1).elim
      · exact absurd h1 hin)
    (by
      intro h
      have hmem : ty ∈ ["0", "1"] := by rcases h with rfl | rfl <;> decide
      rcases hdone with ⟨h1, _⟩ | ⟨h1, _⟩ | ⟨h1, _⟩ | ⟨h1, _⟩ | ⟨_, h2⟩ | ⟨h1, _⟩
      · exact (disj (by decide) hmem h1).elim
      · exact (disj (by decide) hmem h1).elim
      · exact (disj (by decide) hmem h1).elim
      · exact (disj (by decide) hmem h1).elim
      · exact zero_sem hv h2
      · exact absurd h1 hin)
    hty10
  have hb2' : gateFn3 ty ((c.fanin n).map (patOf v mp)) = some (toT3 b' (v (mp n))) := hb2
  rw [hb2']
  show toT3 b' (v (mp n)) = toT3 (v n) (v (mp n))
  rw [hvn b' hb1]

end Ternary
end CG
