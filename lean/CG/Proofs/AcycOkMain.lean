/- C18 total correctness: `acyclic_unroll` returns normally on a lint-clean circuit whose names do not collide with the
   synthesised ones -/
import CG.Proofs.AcycOkCut
import CG.Proofs.AcycOkLoop
import CG.Proofs.AcycOkOut
import CG.Proofs.AcycOkClean
set_option linter.unusedSimpArgs false
set_option linter.unusedVariables false
namespace CG
namespace AU
open Circuit Query

theorem bind_ok_of {α β : Type} {x : E α} {f : α → E β} {a : α} {b : β} (hx : x = .ok a) (hf : f a = .ok b) :
    (x >>= f) = .ok b := by
  rw [hx]; exact hf

/-- converse of `unroll_unfold` -/
theorem unroll_fold {c a : Circuit} {ord ordF : Ord} (h1 : c.bbs = [])
    (h2 : c.nodes.any (fun p => p.2.ty.isNone) = false)
    (h3 : isCyclic { c with edges := c.edges.filter (fun e => !(Tx.approxMinFas c).contains e) } = false)
    {acyc0 cCut0 acyc1 : Circuit}
    (e0 : (ord c.startpointsAll).foldlM (fun a n => Tx.addC a { n := n, ty := "input" })
        ({ name := "acyc_" ++ c.name } : Circuit) = .ok acyc0)
    (e1 : (fbNodes c ordF).foldlM (cutStep c ord) c = .ok cCut0)
    (e2 : (List.range ((fbNodes c ordF).length + 1)).foldlM
        (loopBody (c.outputs.foldl (fun a o => a.setOutRaw o false) cCut0) (ord c.startpointsAll)
          (fbNodes c ordF)) acyc0 = .ok acyc1)
    (e3 : (ord c.outputs).foldlM (outBody (ord c.startpointsAll) (cn (fbNodes c ordF).length)) acyc1 = .ok a)
    (hl : lint a {} ord = .ok) (hcy : isCyclic a = false) :
    Tx.acyclicUnroll c ord ordF = .ok a := by
  unfold Tx.acyclicUnroll
  rw [if_neg (by rw [h1]; simp), if_neg (by rw [h2]; simp)]
  simp only []
  rw [if_neg (by rw [h3]; simp)]
  refine bind_ok_of e0 ?_
  refine bind_ok_of e1 ?_
  refine bind_ok_of e2 ?_
  refine bind_ok_of e3 ?_
  rw [if_neg (by rw [hl]; simp), if_neg (by rw [hcy]; simp)]
  rfl

theorem unroll_ok {c : Circuit} {ord ordF : Ord} (hord : OrdOK ord) (hordF : OrdOK ordF) (hc : LintClean c)
    (hbb : c.bbs = []) (hns : ∀ e ∈ c.edges, e.1 ≠ e.2)
    (hnames : ∀ p ∈ c.nodes, p.1 ≠ "" ∧ isDigit0 p.1 = false)
    (hcl1 : ∀ x f, c.has x = true → c.has f = true → x ≠ aux f)
    (hcl2 : ∀ x y, (c.ty? x = some "input" ∨ x ∈ c.outputs) →
      (c.has y = true ∨ ∃ f, c.has f = true ∧ y = aux f) → ∀ i : Nat, x ≠ pref (cn i) y)
    (hdots : ∀ p ∈ c.nodes, hasDot p.1 = false)
    (hbbo : ∀ n, c.ty? n ≠ some "bb_output") (hbbi : ∀ o ∈ c.outputs, c.ty? o ≠ some "bb_input") :
    ∃ a, Tx.acyclicUnroll c ord ordF = .ok a := by
  have hwf : WF c := hc.toWF
  have hcyc := fas_cuts c hwf hns
  have huntyped : c.nodes.any (fun p => p.2.ty.isNone) = false := by
    rw [List.any_eq_false]
    intro p hp
    obtain ⟨t, ht, _⟩ := hc.typed p hp
    rw [ht]; simp
  have htyped : ∀ x, c.has x = true → ∃ t, c.ty? x = some t := by
    intro x hx
    obtain ⟨a0, ha0⟩ := has_exists hx
    obtain ⟨t, ht, _⟩ := hc.typed _ ha0
    exact ⟨t, by rw [Arith.ty?_of_mem hwf.nodup ha0]; exact ht⟩
  have hnm : ∀ x, c.has x = true → Limit.NameOK x ∧ hasDot x = false := by
    intro x hx
    obtain ⟨a0, ha0⟩ := has_exists hx
    exact ⟨nameOK_of x (hnames _ ha0).1 (hnames _ ha0).2, hdots _ ha0⟩
  -- the feedback nodes
  have hFmem : ∀ x, x ∈ fbNodes c ordF ↔ x ∈ (Tx.approxMinFas c).map (·.1) := by
    intro x
    unfold fbNodes
    rw [(hordF _).mem_iff, Q.mem_dedup]
  have hFnd : (fbNodes c ordF).Nodup := by
    unfold fbNodes
    exact (hordF _).nodup_iff.2 (Q.nodup_dedup _)
  have hFe : ∀ f ∈ fbNodes c ordF, ∃ v, (f, v) ∈ c.edges := by
    intro f hf
    obtain ⟨e, he, rfl⟩ := List.mem_map.1 ((hFmem f).1 hf)
    exact ⟨e.2, (fas_sub c e he).1⟩
  have hFc : ∀ f ∈ fbNodes c ordF, c.has f = true := by
    intro f hf
    obtain ⟨v, hv⟩ := hFe f hf
    exact (hwf.closed _ hv).1
  -- the shared inputs
  have hsp : ∀ x, x ∈ ord c.startpointsAll ↔ c.ty? x = some "input" := by
    intro x
    rw [mem_sp hord hwf]
    constructor
    · rintro (h | h)
      · exact h
      · exact absurd h (hbbo x)
    · exact Or.inl
  have hspnd : (ord c.startpointsAll).Nodup := by
    apply (hord _).nodup_iff.2
    unfold startpointsAll filterType
    exact (hwf.nodup.sublist (List.filter_sublist.map _))
  have hspc : ∀ x ∈ ord c.startpointsAll, c.has x = true := fun x hx => has_of_ty? ((hsp x).1 hx)
  obtain ⟨acyc0, e0, hd0⟩ := ok_inputs (ord c.startpointsAll) ({ name := "acyc_" ++ c.name } : Circuit)
    (LintLink.noDots_empty _) (fun n _ => by simp [Circuit.has]) hspnd (fun n hn => hnm n (hspc n hn))
  have A0 := acyc0_facts e0
  have hE0 : acyc0.edges = [] := (inputsFold _ _ _ e0).2.1
  -- the cut circuit
  have hfreshF : ∀ f ∈ fbNodes c ordF, c.has f = true ∧ c.has (aux f) = false := by
    intro f hf
    refine ⟨hFc f hf, ?_⟩
    cases h : c.has (aux f) with
    | false => rfl
    | true => exact absurd rfl (hcl1 _ f h (hFc f hf))
  obtain ⟨cCut0, e1⟩ := ok_cutFold hord hc (fbNodes c ordF) [] c (cutInv_nil c hwf) hfreshF (by simpa using hFnd)
  generalize hF : fbNodes c ordF = F at *
  have hI := cutFold_inv hord F [] c cCut0 (cutInv_nil c hwf) hFc (by simpa using hFnd) e1
  rw [List.nil_append] at hI
  have K := cutFacts hwf hI hFnd hFc
  obtain ⟨acyc1, a, e2, e3, hl, hcy⟩ : ∃ acyc1 a,
      (List.range (F.length + 1)).foldlM
        (loopBody (c.outputs.foldl (fun a o => a.setOutRaw o false) cCut0) (ord c.startpointsAll) F) acyc0
        = .ok acyc1 ∧
      (ord c.outputs).foldlM (outBody (ord c.startpointsAll) (cn F.length)) acyc1 = .ok a ∧
      lint a {} ord = .ok ∧ isCyclic a = false := by
    generalize hcut : c.outputs.foldl (fun a o => a.setOutRaw o false) cCut0 = cCut at K
    generalize hspdef : ord c.startpointsAll = sp at *
    have hrank : Acyclic cCut := by
      obtain ⟨l, hl⟩ := Q.topoSort_of_not_cyclic _ hcyc
      have hr := (Q.rank_of_topo _ (cut_wf c hwf) l hl).1
      apply K.acyclic hwf (Tx.approxMinFas c)
        (fun e he => hF ▸ (hFmem e.1).2 (List.mem_map.2 ⟨e, he, rfl⟩)) l.idxOf
      intro e he
      exact hr e.1 e.2 he
    have hinp : ∀ n, n ∈ cCut.inputs ↔ c.ty? n = some "input" := by
      intro n
      rw [K.mem_inputs hwf n, CG.mem_inputs hwf.nodup n]
    have R : SubReq cCut sp F := by
      refine ⟨K.wf, K.outs, hFnd, K.tyAux, fun f hf => K.fanin_aux hwf hf, ?_⟩
      intro n hn
      exact (hsp n).2 ((hinp n).1 hn)
    have hauxsrc : ∀ y, cCut.has y = true → (c.has y = true ∨ ∃ f, c.has f = true ∧ y = aux f) := by
      intro y hy
      rcases (K.has y).1 hy with h | ⟨f, hf, e⟩
      · exact Or.inl h
      · exact Or.inr ⟨f, hFc f hf, e⟩
    have Qr : LoopReq acyc0 cCut sp F := by
      refine ⟨K.bbs.trans hbb, ⟨K.bbs.trans hbb, ?_⟩, ?_, ?_, hspnd, ?_, fun n hn => (A0.ty n).2 hn, ?_, ?_, ?_, hrank⟩
      · intro g hg
        rcases (K.has g).1 hg with h | ⟨f, hf, rfl⟩
        · exact (hnm g h).2
        · rw [hasDot_aux]; exact (hnm f (hFc f hf)).2
      · intro p hp
        rcases K.nodesTy p hp with ⟨p0, hp0, _, e2⟩ | ⟨f, _, _, e2⟩
        · obtain ⟨t, ht, _⟩ := hc.typed p0 hp0
          exact ⟨t, e2.trans ht⟩
        · exact ⟨"buf", e2⟩
      · intro n hn
        exact (hinp n).2 ((hsp n).1 hn)
      · intro n hn
        have h1 := hc.noFanin n "input" ((hinp n).1 hn) (by decide)
        have h2 := K.fanin_length hwf n
        rw [h1] at h2
        exact List.eq_nil_of_length_eq_zero h2
      · intro i n hn
        cases h : acyc0.has (pref (cn i) n) with
        | false => rfl
        | true =>
          have h1 : c.ty? (pref (cn i) n) = some "input" := (hsp _).1 ((A0.has _).1 h)
          exact absurd rfl (hcl2 _ n (Or.inl h1) (hauxsrc n hn) i)
      · intro f hf
        obtain ⟨t, ht⟩ := htyped f (hFc f hf)
        obtain ⟨v, hv⟩ := hFe f hf
        refine ⟨t, by rw [K.tyOld f (hFc f hf)]; exact ht, ?_, ?_⟩
        · intro e
          subst e
          exact hc.noBBInFanout _ hv ht
        · intro e
          subst e
          exact hbbo f ht
      · intro f hf hm
        obtain ⟨g, hg, e⟩ := List.mem_map.1 hm
        have := K.fresh g hg
        rw [e, hFc f hf] at this
        cases this
    have L0 : LoopInv acyc0 cCut sp F 0 acyc0 := by
      refine ⟨A0.wf, KeepsX.refl _ _, ?_, A0.out, fun i hi => absurd hi (Nat.not_lt_zero _), ?_,
        fun h0 => absurd h0 (Nat.lt_irrefl 0), fun i hi => absurd hi (Nat.not_lt_zero _)⟩
      · intro x
        constructor
        · exact Or.inl
        · rintro (h1 | ⟨h1, _⟩)
          · exact h1
          · exact absurd h1 (Nat.lt_irrefl 0)
      · intro x
        constructor
        · exact Or.inl
        · rintro (h1 | ⟨i, hi, _⟩)
          · exact h1
          · exact absurd hi (Nat.not_lt_zero _)
    have x0 : LoopX cCut F 0 acyc0 :=
      ⟨hd0, ⟨fun _ => 0, fun e he => by rw [hE0] at he; cases he⟩, fun h => absurd h (Nat.lt_irrefl 0)⟩
    obtain ⟨acyc1, e2, L, XL⟩ := ok_loop_all R Qr L0 x0 (F.length + 1)
    -- the output stage
    have hOnd : ([] ++ ord c.outputs).Nodup := by
      rw [List.nil_append]
      apply (hord _).nodup_iff.2
      unfold outputs
      exact (hwf.nodup.sublist (List.filter_sublist.map _))
    have hOc : ∀ o ∈ ord c.outputs, o ∈ c.outputs := fun o ho => (hord _).mem_iff.1 ho
    have hfreshO : ∀ o ∈ c.outputs, o ∉ sp → acyc1.has o = false := by
      intro o ho hns
      cases h : acyc1.has o with
      | false => rfl
      | true =>
        rcases (L.has o).1 h with h1 | ⟨i, _, n, hn, e⟩
        · exact absurd ((A0.has o).1 h1) hns
        · exact absurd e (hcl2 o n (Or.inr ho) (hauxsrc n hn) i)
    have Qo : OutReq acyc1 sp (cn F.length) (ord c.outputs) := by
      refine ⟨?_, fun o ho hns => hfreshO o (hOc o ho) hns, fun o ho => hnm o (mem_outputs_has (hOc o ho)), ?_⟩
      · intro o _ hs
        exact (L.keeps0 o ((A0.has o).2 hs) (by simp)).1
      · intro o ho hns
        have hco := mem_outputs_has (hOc o ho)
        obtain ⟨t, ht⟩ := htyped o hco
        have hti : t ≠ "input" := by
          intro e
          subst e
          exact hns ((hsp o).2 ht)
        have hna : o ∉ F.map aux := by
          intro hm
          obtain ⟨g, hg, e⟩ := List.mem_map.1 hm
          have := K.fresh g hg
          rw [e, hco] at this
          cases this
        have g := (L.copy F.length (Nat.lt_succ_self _)).1 o t (by rw [K.tyOld o hco]; exact ht) hti hna
        refine ⟨t, g.1, ?_, ?_⟩
        · intro e
          subst e
          exact hbbi o (hOc o ho) ht
        · intro e
          subst e
          exact hbbo o ht
    obtain ⟨a, e3, O, XO⟩ := ok_out_all Qo (ord c.outputs) [] acyc1 (out_init acyc1 _ _ L.wf L.out)
      ⟨XL.nodots, XL.acyc⟩ (fun o ho => ho) hOnd
    rw [List.nil_append] at O
    -- the final checks
    have U : Fin c cCut a F sp := by
      refine ⟨O.wf, ?_, ?_, ?_, ?_, ?_⟩
      · intro x hx
        rcases (O.has x).1 hx with h | h
        · rcases (L.has x).1 h with h1 | ⟨i, hi, n, hn, e⟩
          · exact Or.inl ((A0.has x).1 h1)
          · exact Or.inr (Or.inl ⟨i, by omega, n, hn, e⟩)
        · by_cases hs : x ∈ sp
          · exact Or.inl hs
          · exact Or.inr (Or.inr ⟨hOc x h, hs⟩)
      · intro n hn
        exact (A0.gate n hn).keep (L.keeps0.trans O.keeps) (by simp)
      · intro i hi
        exact (L.copy i (by omega)).keep O.keeps
      · intro f hf
        have hhas : acyc1.has (pref (cn 0) (aux f)) = true :=
          (L.has _).2 (Or.inr ⟨0, Nat.succ_pos _, aux f, has_of_ty? (R.auxTy f hf), rfl⟩)
        refine ⟨(O.inp _).2 ((L.inp _).2 (Or.inr ⟨Nat.succ_pos _, f, hf, rfl⟩)), ?_⟩
        rw [(O.keeps _ hhas (by simp)).2.2]
        exact XL.aux0 (Nat.succ_pos _) f hf
      · intro o ho hns
        exact O.gate o ((hord _).mem_iff.2 ho) hns
    have FQ : FinReq c cCut F sp := ⟨hc, K, fun n hn => typed_ty Qr R hn, hbbo, hbbi, hFe, R.inSp⟩
    obtain ⟨hl, hcy⟩ := fin_checks hord FQ U XO.nodots XO.acyc
    exact ⟨acyc1, a, e2, e3, hl, hcy⟩
  subst hF
  exact ⟨a, unroll_fold hbb huntyped hcyc e0 e1 e2 e3 hl hcy⟩

end AU
end CG
