/- C17 (algorithm) helpers, part 12: the inputs of a supergate have pairwise disjoint transitive fan-in -/
import CG.Proofs.SGAlgoPerSG
set_option linter.unusedSectionVars false
set_option linter.unusedVariables false
set_option linter.unusedSimpArgs false
namespace CG
namespace SGA
open Query Supergates Q

/-- a node strictly between the head and a chain member has exactly one child -/
theorem single_of_between (c2 : Circuit) (hwf : WF c2) (hac : Acyclic c2) (o : Name) {h a b : Name}
    (hc : Chain (domChildren c2 o) h a) (hba : SD c2 o b a) (hhb : SD c2 o h b) :
    (childrenOf (domChildren c2 o) b).length = 1 := by
  have T := treeOK c2 hwf hac o
  induction hc with
  | @child a hx =>
    have hp := T.ch_par _ _ hx
    have hid := (par_eq_iff c2 hwf hac hp.1).mp hp.2
    rcases hid.2 b hba with h1 | h1
    · exact absurd h1.symm hhb.2.1
    · exact (SD_asymm c2 hwf hac h1 hhb).elim
  | @step y a _ hs ih =>
    have hp := T.ch_par _ _ (mem_children_of_single hs)
    have hid := (par_eq_iff c2 hwf hac hp.1).mp hp.2
    rcases hid.2 b hba with h1 | h1
    · rw [h1, hs]; rfl
    · exact ih h1

namespace SGCtx
variable {c2 : Circuit} {o h : Name} {S : List Name}

/-- an input with a proper ancestor is a frontier node and dominates that ancestor -/
theorem input_dom (X : SGCtx c2 o h S) {a x : Name} (ha : a ∈ (sgCircuit c2 o h S).inputs) (hx : Anc c2 x a) :
    (a ≠ h ∧ 1 < (childrenOf (domChildren c2 o) a).length) ∧ SD c2 o a x := by
  obtain ⟨haS, hcases⟩ := X.input_cases ha
  obtain ⟨y, _, hey⟩ := Plus.tail hx
  rcases hcases with h1 | h1
  · have := Q.mem_fanin.mpr hey
    rw [h1] at this
    exact absurd this List.not_mem_nil
  · refine ⟨h1, ?_⟩
    have hac := X.mem_cone haS
    have hao := X.ne_root_of_ne haS h1.1
    have hhead : HeadOf c2 o a := ⟨hac, Or.inr h1.2⟩
    refine dominates_subcone c2 X.wf X.acyc o hac hao ?_ hx
    intro z hz
    exact par_SD c2 X.wf X.acyc (cone_fanin c2 X.wf hac hz) (head_fanins c2 X.wf X.acyc o X.fanin2 hhead hz)

/-- a frontier input cannot dominate another member of the set -/
theorem frontier_not_dom (X : SGCtx c2 o h S) {a b : Name} (ha : a ∈ S)
    (hb : b ∈ S) (hbf : b ≠ h ∧ 1 < (childrenOf (domChildren c2 o) b).length) (hd : SD c2 o b a) : False := by
  have hhb := chain_SD c2 X.wf X.acyc o (X.chain_of_ne hb hbf.1)
  by_cases hah : a = h
  · subst hah
    exact SD_asymm c2 X.wf X.acyc hd hhb
  · have := single_of_between c2 X.wf X.acyc o (X.chain_of_ne ha hah) hd hhb
    omega

theorem independent (X : SGCtx c2 o h S) {a b : Name} (ha : a ∈ (sgCircuit c2 o h S).inputs)
    (hb : b ∈ (sgCircuit c2 o h S).inputs) (hne : a ≠ b) (x : Name) : ¬ (AncR c2 x a ∧ AncR c2 x b) := by
  rintro ⟨hxa, hxb⟩
  have haS := ((mem_sg_inputs c2 o h S a).mp ha).1
  have hbS := ((mem_sg_inputs c2 o h S b).mp hb).1
  rcases hxa.cases with h1 | h1
  · rcases hxb.cases with h2 | h2
    · exact hne (h1.symm.trans h2)
    · subst h1
      obtain ⟨hf, hd⟩ := X.input_dom hb h2
      exact X.frontier_not_dom haS hbS hf hd
  · rcases hxb.cases with h2 | h2
    · subst h2
      obtain ⟨hf, hd⟩ := X.input_dom ha h1
      exact X.frontier_not_dom hbS haS hf hd
    · obtain ⟨hfa, hda⟩ := X.input_dom ha h1
      obtain ⟨hfb, hdb⟩ := X.input_dom hb h2
      have hxc : x ∈ coneOf c2 o := cone_anc c2 X.wf (X.mem_cone haS) hxa
      rcases SD_chain c2 X.wf hxc hda hdb hne with h3 | h3
      · exact X.frontier_not_dom hbS haS hfa h3
      · exact X.frontier_not_dom haS hbS hfb h3

end SGCtx

end SGA
end CG
