/- C14 (character level, fast parser) helper: the two `re.search` calls of `extract` on the text of a restricted netlist -/
import CG.Proofs.FastTextFind
import CG.Proofs.FastTextHdr
import CG.Proofs.FastTextUniq
set_option linter.unusedSimpArgs false
set_option linter.unusedVariables false
namespace CG
namespace FT
open Regex BenchText Verilog C14

theorem ports_args (r : RMod) (wires : List Name) (h : TOK r wires) : AllArgQ (portsT r) := by
  refine commaSep_all (fun x => idQ.mem x = true ∨ x = ',' ∨ x = ' ') (Or.inr (Or.inl rfl)) (Or.inr (Or.inr rfl)) _ ?_
  intro w hw x hx
  obtain ⟨n, hn, rfl⟩ := List.mem_map.1 hw
  have hW : Word n := by
    rcases List.mem_append.1 hn with hn | hn
    · exact h.inputs n hn
    · exact h.outputs n hn
  exact Or.inl ((rhsL_of_ident hW.1).all.2 x hx)

/-- the header length -/
def hdrLen (r : RMod) : Nat := kModule.length + 1 + r.name.toList.length + 2 + (portsT r).length + 2

/-- `re.search` of the header pattern: the match ends after the header's `);` and group 1 is the module name -/
theorem search_hdr (r : RMod) (wires : List Name) (h : TOK r wires) :
    ∃ m0, Regex.search (FastVerilog.rx 0).1 (render (toW r wires)) (FastVerilog.rx 0).2 = some (some m0) ∧
      m0.stop = hdrLen r ∧ (m0.groups.headD none).getD "" = r.name := by
  let ctx : Ctx := { s := (render (toW r wires)).toList.toArray, dotall := true }
  have htxt : txt ctx = (render (toW r wires)).toList := by simp [txt, ctx]
  obtain ⟨caps, hm, hg⟩ := hdr_match ctx rfl h.name.1 (ports_args r wires h) (by rw [htxt, text_eq])
  have hs := sf_hit ctx rxHdr (fuelFor ctx.s) (Nat.zero_le _) hm
  refine ⟨mkMatch ctx 1 0 (hdrLen r) caps, ?_, rfl, ?_⟩
  · unfold Regex.search
    rw [parse_rx0.1, parse_rx0.2]
    show some (Option.map _ (searchFrom ctx rxHdr (fuelFor ctx.s) (ctx.s.size + 1) 0)) = _
    rw [hs]
    rfl
  · have e1 : List.range 1 = [0] := by decide
    have : grp ctx 1 caps = [((capOf caps 1).map (fun p => slice ctx.s p.1 p.2)).getD ""] := by
      simp [grp, e1]
    rw [this] at hg
    simp only [mkMatch, e1, List.map_cons, List.map_nil, List.headD_cons]
    have := List.cons.inj hg
    rw [this.1, String.ofList_toList]

/-- `re.search` of `\bendmodule\b`: the closing keyword -/
theorem search_end (r : RMod) (wires : List Name) (h : TOK r wires) :
    ∃ m1, Regex.search (FastVerilog.rx 1).1 (render (toW r wires)) (FastVerilog.rx 1).2 = some (some m1) ∧
      m1.start = hdrLen r + (bodyT r wires).length := by
  let ctx : Ctx := { s := (render (toW r wires)).toList.toArray, dotall := true }
  have htxt : txt ctx = (render (toW r wires)).toList := by simp [txt, ctx]
  let pre := kModule ++ ' ' :: (r.name.toList ++ ' ' :: '(' :: (portsT r ++ ')' :: ';' :: bodyT r wires))
  have hT : txt ctx = pre ++ VMT.kwE ++ ['\n'] := by rw [htxt, text_eq]; simp [pre]
  obtain ⟨caps, hs⟩ := end_search ctx hT (by
      intro a b e hl hr
      exact text_unique r wires h a b (by rw [← e, htxt, text_eq]) hl hr) (pre_brkL r wires h)
  refine ⟨mkMatch ctx 0 pre.length (pre.length + 9) caps, ?_, ?_⟩
  · unfold Regex.search
    rw [parse_rx1.1, parse_rx1.2]
    show some (Option.map _ (searchFrom ctx rxEnd (fuelFor ctx.s) (ctx.s.size + 1) 0)) = _
    rw [hs]
    rfl
  · simp [mkMatch, pre, hdrLen, kModule]
    omega

end FT
end CG
