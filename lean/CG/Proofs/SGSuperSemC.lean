/- C17 (super-circuit), semantic half, part C: a valuation is consistent with the filled super-circuit iff the head nets
   and the spliced inputs are buffers and the spliced internal nodes satisfy the gate equations of `c2`. -/
import CG.Proofs.SGSuperSemB
set_option linter.unusedSectionVars false
set_option linter.unusedVariables false
set_option linter.unusedSimpArgs false
namespace CG
namespace SGSuper
open Supergates SGA

theorem gateFn_buf1 (a : Bool) : gateFn "buf" [a] = some a := by simp [gateFn]
theorem gateFn_buf0 : gateFn "buf" [] = none := by simp [gateFn]
theorem gateFn_input (l : List Bool) : gateFn "input" l = none := by simp [gateFn]

theorem nodeOK_of_consistent {c : Circuit} {v : Val} (hv : Consistent c v) {x : Name} {t : String}
    (hty : c.ty? x = some t) : NodeOK c v x t := by
  obtain ⟨p, hp, rfl, ht⟩ := Tseitin.mem_of_ty c x t hty
  exact hv p hp t ht

theorem stepVal_some {c : Circuit} {free u : Val} {n : Name} {t : String} {b : Bool} (h1 : c.ty? n = some t)
    (h2 : gateFn t ((c.fanin n).map u) = some b) : Tseitin.stepVal c free u n = b := by
  unfold Tseitin.stepVal
  rw [h1]
  simp only [h2]

theorem stepVal_none {c : Circuit} {free u : Val} {n : Name} {t : String} (h1 : c.ty? n = some t)
    (h2 : gateFn t ((c.fanin n).map u) = none) : Tseitin.stepVal c free u n = free n := by
  unfold Tseitin.stepVal
  rw [h1]
  simp only [h2]

section
variable {c2 full : Circuit} {K : List (Found × Circuit)}

/-- the head of a kept supergate is not a primary input -/
theorem head_not_input (hc : LintClean c2) (F : SGFacts c2 K) {p : Found × Circuit} (hp : p ∈ K) :
    p.1.head ∉ c2.inputs := by
  intro h
  obtain ⟨t, ht, hne, _⟩ := F.internal_ty hp (F.head_internal hp)
  rw [mem_inputs hc.nodup, ht] at h
  injection h with h
  exact hne h

theorem head_isNet (F : SGFacts c2 K) {p : Found × Circuit} (hp : p ∈ K) : IsNet c2 K p.1.head :=
  Or.inr (Or.inr ⟨p, hp, Or.inr rfl⟩)

/-- the equations are sufficient -/
theorem full_consistent_of (hc : LintClean c2) (hN : NamesOK c2) (F : SGFacts c2 K) (D : MixDesc c2 K [] full) (v : Val)
    (h1 : ∀ p ∈ K, v p.1.head = v (pre p.1.head p.1.head))
    (h2 : ∀ p ∈ K, ∀ i ∈ p.2.inputs, v (pre p.1.head i) = v i)
    (h3 : ∀ p ∈ K, ∀ n ∈ internal p.2, ∀ t, c2.ty? n = some t → ∀ b,
      gateFn t ((c2.fanin n).map (fun a => v (pre p.1.head a))) = some b → v (pre p.1.head n) = b) :
    Consistent full v := by
  intro q hq t ht
  obtain ⟨x, a⟩ := q
  have hty : full.ty? x = some t := by
    rw [Tseitin.ty_of_mem full D.wf.nodup (x, a) hq]; exact ht
  show NodeOK full v x t
  intro b hb
  have hh := Circuit.has_of_ty? hty
  rcases (full_has D x).mp hh with hnet | ⟨p, hp, n, hn, e⟩
  · have hx := isNet_has hc.toWF F hnet
    rw [full_net_ty D hnet] at hty
    by_cases hin : x ∈ c2.inputs
    · rw [if_pos hin] at hty
      injection hty with hty
      subst hty
      rw [gateFn_input] at hb
      cases hb
    · rw [if_neg hin] at hty
      injection hty with hty
      subst hty
      by_cases hhd : ∃ p ∈ K, p.1.head = x
      · obtain ⟨p, hp, e⟩ := hhd
        subst e
        rw [full_gate_head hN F D hp, gateFn_buf1] at hb
        injection hb with hb
        rw [← hb]
        exact h1 p hp
      · rw [full_fanin_nohead hN F D hx (fun p hp e => hhd ⟨p, hp, e⟩)] at hb
        rw [List.map_nil, gateFn_buf0] at hb
        cases hb
  · subst e
    rcases internal_or_input hn with hint | hi
    · rw [full_int_ty F D hp hint] at hty
      rw [full_gate_int hc hN F D hp hint] at hb
      exact h3 p hp n hint t hty b hb
    · rw [full_in_ty F D hp hi] at hty
      injection hty with hty
      subst hty
      rw [full_gate_in hN F D hp hi, gateFn_buf1] at hb
      injection hb with hb
      rw [← hb]
      exact h2 p hp n hi

/-- … and necessary -/
theorem full_consistent_head (hc : LintClean c2) (hN : NamesOK c2) (F : SGFacts c2 K) (D : MixDesc c2 K [] full)
    {v : Val} (hv : Consistent full v) {p : Found × Circuit} (hp : p ∈ K) :
    v p.1.head = v (pre p.1.head p.1.head) := by
  have hty := full_net_ty D (head_isNet F hp)
  rw [if_neg (head_not_input hc F hp)] at hty
  apply nodeOK_of_consistent hv hty
  rw [full_gate_head hN F D hp, gateFn_buf1]

theorem full_consistent_in (hc : LintClean c2) (hN : NamesOK c2) (F : SGFacts c2 K) (D : MixDesc c2 K [] full)
    {v : Val} (hv : Consistent full v) {p : Found × Circuit} (hp : p ∈ K) {i : Name} (hi : i ∈ p.2.inputs) :
    v (pre p.1.head i) = v i := by
  apply nodeOK_of_consistent hv (full_in_ty F D hp hi)
  rw [full_gate_in hN F D hp hi, gateFn_buf1]

theorem full_consistent_int (hc : LintClean c2) (hN : NamesOK c2) (F : SGFacts c2 K) (D : MixDesc c2 K [] full)
    {v : Val} (hv : Consistent full v) {p : Found × Circuit} (hp : p ∈ K) {n : Name} (hn : n ∈ internal p.2)
    {t : String} (ht : c2.ty? n = some t) {b : Bool}
    (hb : gateFn t ((c2.fanin n).map (fun a => v (pre p.1.head a))) = some b) : v (pre p.1.head n) = b := by
  have hty := full_int_ty F D hp hn
  rw [ht] at hty
  apply nodeOK_of_consistent hv hty
  rw [full_gate_int hc hN F D hp hn]
  exact hb

end

end SGSuper
end CG
