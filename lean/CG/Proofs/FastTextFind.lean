/- C14 (character level, fast parser) helper: the four `findall` passes over the module text -/
import CG.Proofs.FastTextPlan
import CG.Proofs.FastTextStr
import CG.Proofs.FastTextDecl
import CG.Proofs.FastTextInst
import CG.Proofs.FastTextAsg
set_option linter.unusedSimpArgs false
set_option linter.unusedVariables false
namespace CG
namespace FT
open Regex BenchText Verilog C14

theorem idQ_of_idC_f {x : Char} (h : idC.mem x = true) : idQ.mem x = true := by
  rw [idQ_mem_s]; have := (idC_mem x).mp h; omega

theorem Word.ident {n : Name} (h : Word n) : IdentL n.toList := h.1

theorem rhsL_of_ident {w : List Char} (h : IdentL w) : RhsL w := by
  obtain ⟨x, r, e, hx, hr⟩ := h
  exact ⟨x, r, e, idC_of_idS hx, fun y hy => idQ_of_idC_f (hr y hy)⟩

theorem rhsL_op {o : ROp} (h : OpOK o) : RhsL (opT o) := by
  cases o with
  | net n => exact rhsL_of_ident h.1
  | c0 => exact ⟨'1', ['\'', 'b', '0'], by decide, by decide, by decide⟩
  | c1 => exact ⟨'1', ['\'', 'b', '1'], by decide, by decide, by decide⟩

theorem RhsL.all {w : List Char} (h : RhsL w) : w ≠ [] ∧ ∀ x ∈ w, idQ.mem x = true := by
  obtain ⟨x, r, rfl, hx, hr⟩ := h
  refine ⟨by simp, ?_⟩
  intro y hy
  rcases List.mem_cons.1 hy with rfl | hy
  · exact idQ_of_idC_f hx
  · exact hr y hy

theorem commaSep_cons2_f (w w' : List Char) (ws : List (List Char)) :
    commaSep (w :: w' :: ws) = w ++ ',' :: ' ' :: commaSep (w' :: ws) := by
  simp [commaSep, List.intercalate]

theorem commaSep_all (P : Char → Prop) (hc : P ',') (hs : P ' ') : ∀ (ws : List (List Char)), (∀ w ∈ ws, ∀ x ∈ w, P x) →
    ∀ x ∈ commaSep ws, P x
  | [], _, x, hx => by simp [commaSep, List.intercalate] at hx
  | [w], h, x, hx => by
    have : commaSep [w] = w := by simp [commaSep, List.intercalate]
    rw [this] at hx
    exact h w (by simp) x hx
  | w :: w' :: ws, h, x, hx => by
    rw [commaSep_cons2_f] at hx
    simp only [List.mem_append, List.mem_cons] at hx
    rcases hx with hx | rfl | rfl | hx
    · exact h w (by simp) x hx
    · exact hc
    · exact hs
    · exact commaSep_all P hc hs (w' :: ws) (fun v hv => h v (by simp [hv])) x hx

theorem commaSep_ne_nil {w : List Char} {ws : List (List Char)} (h : w ≠ []) : commaSep (w :: ws) ≠ [] := by
  cases ws with
  | nil => simpa [commaSep, List.intercalate] using h
  | cons w' ws => rw [commaSep_cons2_f]; simp [h]

/-- the operand words of a gate statement -/
def gateWords (out : Name) (ops : List ROp) : List (List Char) := out.toList :: ops.map opT

theorem gateWords_rhs {out : Name} {ops : List ROp} (ho : Word out) (hops : ∀ o ∈ ops, OpOK o) :
    ∀ w ∈ gateWords out ops, RhsL w := by
  intro w hw
  simp only [gateWords, List.mem_cons, List.mem_map] at hw
  rcases hw with rfl | ⟨o, ho', rfl⟩
  · exact rhsL_of_ident ho.1
  · exact rhsL_op (hops o ho')

theorem gate_args {out : Name} {ops : List ROp} (ho : Word out) (hops : ∀ o ∈ ops, OpOK o) :
    AllArgQ (commaSep (gateWords out ops)) ∧ commaSep (gateWords out ops) ≠ [] := by
  refine ⟨?_, commaSep_ne_nil (rhsL_of_ident ho.1).all.1⟩
  exact commaSep_all (fun x => idQ.mem x = true ∨ x = ',' ∨ x = ' ') (Or.inr (Or.inl rfl)) (Or.inr (Or.inr rfl)) _
    (fun w hw x hx => Or.inl ((gateWords_rhs ho hops w hw).all.2 x hx))

theorem pins_ok {pins : List (Name × Option ROp)} (h : ∀ p ∈ pins, Word p.1 ∧ ∀ o, p.2 = some o → OpOK o) :
    ∀ q ∈ pins.map pinOf, IdentL q.1 ∧ (q.2 = [] ∨ RhsL q.2) := by
  intro q hq
  obtain ⟨p, hp, rfl⟩ := List.mem_map.1 hq
  obtain ⟨h1, h2⟩ := h p hp
  refine ⟨h1.1, ?_⟩
  obtain ⟨n, o⟩ := p
  cases o with
  | none => left; rfl
  | some o => right; exact rhsL_op (h2 o rfl)

theorem pins_chars {pins : List (Name × Option ROp)} (h : ∀ p ∈ pins, Word p.1 ∧ ∀ o, p.2 = some o → OpOK o)
    (hne : pins ≠ []) : AllPinQ (pinsT (pins.map pinOf)) ∧ pinsT (pins.map pinOf) ≠ [] := by
  constructor
  · refine commaSep_all (fun x => idQ.mem x = true ∨ x = ',' ∨ x = ' ' ∨ x = '.' ∨ x = '(' ∨ x = ')') (Or.inr (Or.inl rfl))
      (Or.inr (Or.inr (Or.inl rfl))) _ ?_
    intro w hw x hx
    simp only [List.map_map, List.mem_map] at hw
    obtain ⟨p, hp, rfl⟩ := hw
    obtain ⟨h1, h2⟩ := pins_ok h (pinOf p) (List.mem_map.2 ⟨p, hp, rfl⟩)
    simp only [Function.comp, pinT, List.mem_cons, List.mem_append, List.not_mem_nil, or_false] at hx
    rcases hx with rfl | hx | rfl | hx | rfl
    · simp
    · exact Or.inl ((rhsL_of_ident h1).all.2 x hx)
    · simp
    · rcases h2 with h2 | h2
      · rw [h2] at hx; simp at hx
      · exact Or.inl (h2.all.2 x hx)
    · simp
  · cases pins with
    | nil => exact absurd rfl hne
    | cons p ps =>
      simp only [List.map_cons, pinsT]
      exact commaSep_ne_nil (by simp [pinT])

theorem flatMap_nil_fn {α β : Type} (l : List α) : l.flatMap (fun _ => ([] : List β)) = [] := by
  induction l with
  | nil => rfl
  | cons x l ih => simp [List.flatMap_cons, ih]
theorem flatMap_single {α β : Type} (f : α → β) (l : List α) : l.flatMap (fun x => [f x]) = l.map f := by
  induction l with
  | nil => rfl
  | cons x l ih => simp [List.flatMap_cons, ih]

def missP (l : List Char) : List Piece := [⟨[], l, none⟩]
def hitP (chars : List Char) (gs : List String) : List Piece := [⟨[' ', ' '], chars, some gs⟩, nlP]

theorem flat_missP (l : List Char) : flat (missP l) = l := by simp [flat, missP, Piece.text]
theorem hits_missP (l : List Char) : hits (missP l) = [] := rfl
theorem hits_hitP (c : List Char) (gs : List String) : hits (hitP c gs) = [gs] := rfl

def missStmt (s : RStmt) : List Piece := missP (stmtLine s)

/-! ### `input` / `output` -/

def planDecl (b : Bool) : Plan :=
  { fin := fun i => if b then hitP (kInput ++ ' ' :: (i.toList ++ [';'])) ["input", i] else missP (declLine kInput i.toList),
    fout := fun i => if b then missP (declLine kOutput i.toList) else hitP (kOutput ++ ' ' :: (i.toList ++ [';'])) ["output", i],
    fw := fun i => missP (declLine kWire i.toList),
    fs := missStmt }

def kwOf (b : Bool) : List Char := if b then kInput else kOutput

theorem kwOf_or (b : Bool) : kwOf b = kInput ∨ kwOf b = kOutput := by cases b <;> simp [kwOf]

theorem decl_stmt_miss (ctx : Ctx) (b : Bool) {s : RStmt} (hs : StmtOK s) :
    PieceOK ctx (rxDecl (kwOf b)) 2 ⟨[], stmtLine s, none⟩ := by
  have hne : ∀ {n : Name}, Word n → n.toList ≠ kwOf b := by
    intro n hn
    cases b
    · exact hn.2.2.2.2.1
    · exact hn.2.2.2.1
  cases s with
  | gate ty inst out ops =>
    obtain ⟨h1, h2, h3, h4⟩ := hs
    exact decl_miss_gate ctx (kwOf_or b) h1.1 (hne h1) h2.1 (gateWords_rhs h3 h4)
  | assign l r =>
    obtain ⟨h1, h2⟩ := hs
    exact decl_miss_asg ctx (kwOf_or b) h1.1 (hne h1) (rhsL_op h2)
  | bb ty inst pins =>
    obtain ⟨h1, h2, h3, h4⟩ := hs
    exact decl_miss_bb ctx (kwOf_or b) h1.1 (hne h1) h2.1 (hne h2) (pins_ok h4)

theorem findall_decl (b : Bool) (r : RMod) (wires : List Name) (h : TOK r wires) :
    Regex.findall (FastVerilog.rx (if b then 2 else 6)).1 (String.ofList (bodyT r wires ++ VMT.kwE ++ ['\n'])) true =
      some ((if b then r.inputs else r.outputs).map (fun i => [if b then "input" else "output", i])) := by
  have hparse : Regex.parse (FastVerilog.rx (if b then 2 else 6)).1 = some (rxDecl (kwOf b), 2) := by
    cases b
    · exact parse_rx6.1
    · exact parse_rx2.1
  have e1 : String.ofList kInput = "input" := by decide
  have e2 : String.ofList kOutput = "output" := by decide
  have hkI : AllLetter kInput := by decide
  have hkO : AllLetter kOutput := by decide
  have hkW : AllLetter kWire := by decide
  rw [findall_plan hparse (by decide) (planDecl b) r wires]
  · rw [Plan.hits]
    cases b <;> simp [planDecl, hits_missP, hits_hitP, missStmt, flatMap_nil_fn, flatMap_single]
  · apply Plan.text
    · intro i _; cases b <;> simp [planDecl, missP, hitP, flat, Piece.text, nlP, declLine]
    · intro i _; cases b <;> simp [planDecl, missP, hitP, flat, Piece.text, nlP, declLine]
    · intro i _; simp [planDecl, flat_missP]
    · intro s _; simp [planDecl, missStmt, flat_missP]
  · intro ctx hd htxt
    refine ⟨?_, fun p hp hdrop => decl_tail ctx (kwOf_or b) hp hdrop⟩
    apply Plan.ok
    · exact decl_nl ctx (kwOf_or b)
    · intro i hi c hc
      cases b
      · simp only [planDecl, Bool.false_eq_true, if_false, missP, List.mem_singleton] at hc
        subst hc
        exact decl_miss_decl ctx (kwOf_or false) hkI (by decide) (h.inputs i hi).1
      · simp only [planDecl, if_true, hitP, List.mem_cons, List.not_mem_nil, or_false] at hc
        rcases hc with rfl | rfl
        · have := decl_hit ctx (kwOf_or true) hd (h.inputs i hi).1
          simpa [kwOf, e1] using this
        · exact decl_nl ctx (kwOf_or true)
    · intro i hi c hc
      cases b
      · simp only [planDecl, Bool.false_eq_true, if_false, hitP, List.mem_cons, List.not_mem_nil, or_false] at hc
        rcases hc with rfl | rfl
        · have := decl_hit ctx (kwOf_or false) hd (h.outputs i hi).1
          simpa [kwOf, e2] using this
        · exact decl_nl ctx (kwOf_or false)
      · simp only [planDecl, if_true, missP, List.mem_singleton] at hc
        subst hc
        exact decl_miss_decl ctx (kwOf_or true) hkO (by decide) (h.outputs i hi).1
    · intro i hi c hc
      simp only [planDecl, missP, List.mem_singleton] at hc
      subst hc
      exact decl_miss_decl ctx (kwOf_or b) hkW (by cases b <;> decide) (h.wires i hi).1
    · intro s hs c hc
      simp only [planDecl, missStmt, missP, List.mem_singleton] at hc
      subst hc
      exact decl_stmt_miss ctx b (h.stmts s hs)

/-! ### instances -/

def instP : RStmt → List Piece
  | .gate ty inst out ops =>
    hitP (ty.toList ++ ' ' :: (inst.toList ++ '(' :: (commaSep (gateWords out ops) ++ [')', ';'])))
      [ty, inst, String.ofList (commaSep (gateWords out ops))]
  | .bb ty inst pins =>
    hitP (ty.toList ++ ' ' :: (inst.toList ++ ' ' :: '(' :: (pinsT (pins.map pinOf) ++ [')', ';'])))
      [ty, inst, String.ofList (pinsT (pins.map pinOf))]
  | s => missStmt s

def instHit : RStmt → Option (List String)
  | .gate ty inst out ops => some [ty, inst, String.ofList (commaSep (gateWords out ops))]
  | .bb ty inst pins => some [ty, inst, String.ofList (pinsT (pins.map pinOf))]
  | _ => none

def planInst : Plan :=
  { fin := fun i => missP (declLine kInput i.toList), fout := fun i => missP (declLine kOutput i.toList),
    fw := fun i => missP (declLine kWire i.toList), fs := instP }

theorem flatMap_opt {α β : Type} (f : α → Option β) (g : α → List β) (hg : ∀ x, g x = (f x).toList) (l : List α) :
    l.flatMap g = l.filterMap f := by
  induction l with
  | nil => rfl
  | cons x l ih =>
    rw [List.flatMap_cons, ih, hg]
    cases h : f x <;> simp [List.filterMap_cons, h]

theorem findall_inst (r : RMod) (wires : List Name) (h : TOK r wires) :
    Regex.findall (FastVerilog.rx 3).1 (String.ofList (bodyT r wires ++ VMT.kwE ++ ['\n'])) true =
      some (r.stmts.filterMap instHit) := by
  have hkI : AllLetter kInput := by decide
  have hkO : AllLetter kOutput := by decide
  have hkW : AllLetter kWire := by decide
  rw [findall_plan parse_rx3.1 (by decide) planInst r wires]
  · rw [Plan.hits]
    simp only [planInst, hits_missP, flatMap_nil_fn, List.nil_append]
    congr 1
    apply flatMap_opt
    intro s
    cases s <;> rfl
  · apply Plan.text
    · intro i _; simp [planInst, flat_missP]
    · intro i _; simp [planInst, flat_missP]
    · intro i _; simp [planInst, flat_missP]
    · intro s _
      cases s <;> simp [planInst, instP, missStmt, missP, hitP, flat, Piece.text, nlP, stmtLine, gateLine, bbLine, gateWords]
  · intro ctx hd htxt
    refine ⟨?_, fun p hp hdrop => inst_tail ctx hp hdrop⟩
    apply Plan.ok
    · exact inst_nl ctx
    · intro i hi c hc
      simp only [planInst, missP, List.mem_singleton] at hc
      subst hc
      exact inst_miss_decl ctx hkI (h.inputs i hi).1
    · intro i hi c hc
      simp only [planInst, missP, List.mem_singleton] at hc
      subst hc
      exact inst_miss_decl ctx hkO (h.outputs i hi).1
    · intro i hi c hc
      simp only [planInst, missP, List.mem_singleton] at hc
      subst hc
      exact inst_miss_decl ctx hkW (h.wires i hi).1
    · intro s hs c hc
      have hs' := h.stmts s hs
      cases s with
      | gate ty inst out ops =>
        obtain ⟨h1, h2, h3, h4⟩ := hs'
        simp only [planInst, instP, hitP, List.mem_cons, List.not_mem_nil, or_false] at hc
        rcases hc with rfl | rfl
        · have := inst_hit_gate ctx h1.1 h2.1 (gate_args h3 h4).1 (gate_args h3 h4).2
          simpa using this
        · exact inst_nl ctx
      | assign l r =>
        obtain ⟨h1, h2⟩ := hs'
        simp only [planInst, instP, missStmt, missP, List.mem_singleton] at hc
        subst hc
        exact inst_miss_asg ctx h1.1 (rhsL_op h2)
      | bb ty inst pins =>
        obtain ⟨h1, h2, h3, h4⟩ := hs'
        simp only [planInst, instP, hitP, List.mem_cons, List.not_mem_nil, or_false] at hc
        rcases hc with rfl | rfl
        · have := inst_hit_bb ctx h1.1 h2.1 (pins_chars h4 h3).1 (pins_chars h4 h3).2
          simpa using this
        · exact inst_nl ctx

/-! ### assigns -/

def asgP : RStmt → List Piece
  | .assign l r => hitP (kAssign ++ ' ' :: (l.toList ++ ' ' :: '=' :: ' ' :: (opT r ++ [';']))) [l, r.text]
  | s => missStmt s

def asgHit : RStmt → Option (List String)
  | .assign l r => some [l, r.text]
  | _ => none

def planAsg : Plan :=
  { fin := fun i => missP (declLine kInput i.toList), fout := fun i => missP (declLine kOutput i.toList),
    fw := fun i => missP (declLine kWire i.toList), fs := asgP }

theorem findall_asg (r : RMod) (wires : List Name) (h : TOK r wires) :
    Regex.findall (FastVerilog.rx 5).1 (String.ofList (bodyT r wires ++ VMT.kwE ++ ['\n'])) false =
      some (r.stmts.filterMap asgHit) := by
  have hkI : AllLetter kInput := by decide
  have hkO : AllLetter kOutput := by decide
  have hkW : AllLetter kWire := by decide
  rw [findall_plan parse_rx5.1 (by decide) planAsg r wires]
  · rw [Plan.hits]
    simp only [planAsg, hits_missP, flatMap_nil_fn, List.nil_append]
    congr 1
    apply flatMap_opt
    intro s
    cases s <;> rfl
  · apply Plan.text
    · intro i _; simp [planAsg, flat_missP]
    · intro i _; simp [planAsg, flat_missP]
    · intro i _; simp [planAsg, flat_missP]
    · intro s _
      cases s <;> simp [planAsg, asgP, missStmt, missP, hitP, flat, Piece.text, nlP, stmtLine, asgLine]
  · intro ctx hd htxt
    refine ⟨?_, fun p hp hdrop => asg_tail ctx hp hdrop⟩
    apply Plan.ok
    · exact asg_nl ctx
    · intro i hi c hc
      simp only [planAsg, missP, List.mem_singleton] at hc
      subst hc
      exact asg_miss_decl ctx hkI (h.inputs i hi).1
    · intro i hi c hc
      simp only [planAsg, missP, List.mem_singleton] at hc
      subst hc
      exact asg_miss_decl ctx hkO (h.outputs i hi).1
    · intro i hi c hc
      simp only [planAsg, missP, List.mem_singleton] at hc
      subst hc
      exact asg_miss_decl ctx hkW (h.wires i hi).1
    · intro s hs c hc
      have hs' := h.stmts s hs
      cases s with
      | gate ty inst out ops =>
        obtain ⟨h1, h2, h3, h4⟩ := hs'
        simp only [planAsg, asgP, missStmt, missP, List.mem_singleton] at hc
        subst hc
        exact asg_miss_gate ctx h1.1 h2.1 (gate_args h3 h4).1
      | assign l r =>
        obtain ⟨h1, h2⟩ := hs'
        simp only [planAsg, asgP, hitP, List.mem_cons, List.not_mem_nil, or_false] at hc
        rcases hc with rfl | rfl
        · have := asg_hit ctx h1.1 (rhsL_op h2)
          simpa [opT] using this
        · exact asg_nl ctx
      | bb ty inst pins =>
        obtain ⟨h1, h2, h3, h4⟩ := hs'
        simp only [planAsg, asgP, missStmt, missP, List.mem_singleton] at hc
        subst hc
        exact asg_miss_bb ctx h1.1 h2.1 (pins_chars h4 h3).1

end FT
end CG
