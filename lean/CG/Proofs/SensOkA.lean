/- helper lemmas for C11 (total correctness): `sensitization_transform(c, n)` with default endpoints succeeds -/
import CG.Proofs.SensEOk
set_option linter.unusedSimpArgs false
set_option linter.unusedVariables false
namespace CG
namespace SensOk
open Circuit Miter Q Query

theorem nameOK_of {x : Name} (h : x ≠ "" ∧ Circuit.isDigit0 x = false) : Limit.NameOK x := by
  refine ⟨h.2, ?_⟩
  cases he : x.isEmpty with
  | false => rfl
  | true => exact absurd (String.isEmpty_iff.1 he) h.1

/-- default endpoints: the self-miter of the whole circuit followed by the three edits -/
theorem sensitization_default_ok {c : Circuit} {n : Name} {ord : Ord} {ordE : List (Name × Name) → List (Name × Name)}
    (hord : OrdOK ord) (hcl : LintClean c) (hb : c.bbs = []) (hn : c.has n = true)
    (hout : c.outputs ≠ []) (hin : c.inputs ≠ [])
    (hnames : ∀ p ∈ c.nodes, p.1 ≠ "" ∧ Circuit.isDigit0 p.1 = false)
    (hnbb : ∀ p ∈ c.nodes, p.2.ty ≠ some "bb_input" ∧ p.2.ty ≠ some "bb_output")
    (hclash : ∀ s ∈ c.inputs, s ≠ "sat" ∧ (∀ x, s ≠ "c0_" ++ x) ∧ (∀ x, s ≠ "c1_" ++ x) ∧ (∀ x, s ≠ "dif_" ++ x)) :
    ∃ m, Tx.sensitizationTransform c n [] ord ordE = .ok m := by
  have hnobb : ∀ x t, c.ty? x = some t → t ≠ "bb_input" ∧ t ≠ "bb_output" := by
    intro x t ht
    obtain ⟨p, hp, rfl, hpt⟩ := Tseitin.mem_of_ty c x t ht
    obtain ⟨k1, k2⟩ := hnbb p hp
    rw [hpt] at k1 k2
    exact ⟨fun e => k1 (by rw [e]), fun e => k2 (by rw [e])⟩
  have hnm : ∀ s ∈ c.inputs, Limit.NameOK s := by
    intro s hs
    obtain ⟨a, ha⟩ := has_exists (mem_inputs_has hs)
    exact nameOK_of (hnames (s, a) ha)
  obtain ⟨m0, sp, ep, h0, V⟩ := SensE.self_miter_ok hord hcl hb hin hout hnobb hnm hclash
  obtain ⟨hh, m, hm⟩ := SensE.edits_ok V hcl hnobb hn (c.name ++ "_sensitize_" ++ n)
  refine ⟨m, ?_⟩
  unfold Tx.sensitizationTransform
  simp only [hb, List.isEmpty_nil, Bool.not_true, Bool.false_eq_true, if_false, if_true, pure_bind, h0,
    Miter.ok_bind]
  have e : ({ m0 with name := c.name ++ "_sensitize_" ++ n } : Circuit).has ("c1_" ++ n) = true := hh
  simp only [e, Bool.not_true, Bool.false_eq_true, if_false]
  exact hm

end SensOk
end CG
