/- C17 (algorithm) helpers, part 6: the outer queue `coneSGs` visits exactly the heads (the root and the nodes with
   several children) and records for each the chain set computed by `growSG` -/
import CG.Proofs.SGAlgoGrow
set_option linter.unusedSectionVars false
set_option linter.unusedVariables false
set_option linter.unusedSimpArgs false
namespace CG
namespace SGA
open Query Supergates Q

section
variable {tbl : List (Name × List Name)} {cone : List Name} {root : Name} {par : Name → Option Name}
  {depth : Name → Nat}

/-- the heads of supergates in a cone -/
def IsHead (tbl : List (Name × List Name)) (cone : List Name) (root : Name) (h : Name) : Prop :=
  h ∈ cone ∧ (h = root ∨ 1 < (childrenOf tbl h).length)

/-- the result of the inner loop for the head `h` -/
abbrev grow (tbl : List (Name × List Name)) (h : Name) : List Name × List Name :=
  growSG tbl (tbl.length + 1) (childrenOf tbl h) [h] []

/-- a recorded entry is a head with its chain set -/
def GoodEntry (tbl : List (Name × List Name)) (cone : List Name) (root : Name) (p : Name × List Name) : Prop :=
  IsHead tbl cone root p.1 ∧ p.2 = (grow tbl p.1).1

structure HInv (tbl : List (Name × List Name)) (cone : List Name) (root : Name) (f : Nat) (q : List Name)
    (acc : List (Name × List Name)) : Prop where
  nd : (acc.map (·.1) ++ q).Nodup
  heads : ∀ y ∈ acc.map (·.1) ++ q, IsHead tbl cone root y
  fuel : cone.length + 1 ≤ f + acc.length
  src : ∀ y ∈ acc.map (·.1) ++ q, y = root ∨ ∃ h' ∈ acc.map (·.1), Chain tbl h' y

theorem coneSGs_loop (T : TreeOK tbl cone root par depth) : ∀ (f : Nat) (q : List Name) (acc : List (Name × List Name)),
    HInv tbl cone root f q acc →
    (∀ p ∈ acc, p ∈ coneSGs tbl f q acc) ∧
    (∀ p ∈ coneSGs tbl f q acc, p ∈ acc ∨ GoodEntry tbl cone root p) ∧
    (∀ y ∈ q, ∃ p ∈ coneSGs tbl f q acc, p.1 = y) ∧
    (∀ p ∈ coneSGs tbl f q acc, p ∈ acc ∨ ∀ y ∈ (grow tbl p.1).2, ∃ p' ∈ coneSGs tbl f q acc, p'.1 = y) := by
  intro f
  induction f with
  | zero =>
    intro q acc I
    have hnd : (acc.map (·.1)).Nodup := (List.nodup_append.mp I.nd).1
    have := Q.nodup_length_le _ cone hnd (fun x hx => (I.heads x (List.mem_append_left _ hx)).1)
    have := I.fuel
    rw [List.length_map] at *
    omega
  | succ f ih =>
    intro q acc I
    cases q with
    | nil =>
      refine ⟨fun p hp => by simpa [coneSGs] using hp, fun p hp => Or.inl (by simpa [coneSGs] using hp),
        fun y hy => absurd hy List.not_mem_nil, fun p hp => Or.inl (by simpa [coneSGs] using hp)⟩
    | cons node rest =>
      have heq : coneSGs tbl (f + 1) (node :: rest) acc =
          coneSGs tbl f (rest ++ (grow tbl node).2) (acc ++ [(node, (grow tbl node).1)]) := by
        rw [coneSGs]
      rw [heq]
      obtain ⟨haccnd, hqnd, hdisj⟩ := List.nodup_append.mp I.nd
      have hnodehead : IsHead tbl cone root node := I.heads node (List.mem_append_right _ List.mem_cons_self)
      obtain ⟨g1, g2, g3, g4⟩ := growSG_spec T hnodehead.1
      have hnode_acc : node ∉ acc.map (·.1) := fun hm => hdisj node hm node List.mem_cons_self rfl
      have hnode_rest : node ∉ rest := (List.nodup_cons.mp hqnd).1
      have hmap : (acc ++ [(node, (grow tbl node).1)]).map (·.1) = acc.map (·.1) ++ [node] := by simp
      -- new frontier nodes are fresh
      have hfresh : ∀ y ∈ (grow tbl node).2, y ∉ acc.map (·.1) ++ node :: rest := by
        intro y hy hm
        obtain ⟨hch, hgt⟩ := (g4 y).mp hy
        rcases I.src y hm with h1 | ⟨h', hh', hc'⟩
        · subst h1
          rcases hch.par_cases T with h2 | ⟨z, h2, _⟩
          · rw [T.par_root] at h2; cases h2
          · rw [T.par_root] at h2; cases h2
        · have hne : node ≠ h' := fun h => hnode_acc (h ▸ hh')
          have hh'head := I.heads h' (List.mem_append_left _ hh')
          rcases hch.two_heads T hc' hne with ⟨h3, h4⟩ | ⟨h3, h4⟩
          · rcases hh'head.2 with h5 | h5
            · subst h5
              rcases h3.par_cases T with h2 | ⟨z, h2, _⟩
              · rw [T.par_root] at h2; cases h2
              · rw [T.par_root] at h2; cases h2
            · omega
          · rcases hnodehead.2 with h5 | h5
            · subst h5
              rcases h3.par_cases T with h2 | ⟨z, h2, _⟩
              · rw [T.par_root] at h2; cases h2
              · rw [T.par_root] at h2; cases h2
            · omega
      have I' : HInv tbl cone root f (rest ++ (grow tbl node).2) (acc ++ [(node, (grow tbl node).1)]) := by
        refine ⟨?_, ?_, ?_, ?_⟩
        · rw [hmap]
          refine List.nodup_append.mpr ⟨?_, ?_, ?_⟩
          · refine List.nodup_append.mpr ⟨haccnd, List.nodup_cons.mpr ⟨List.not_mem_nil, List.nodup_nil⟩, ?_⟩
            intro a ha b hb hab
            rw [List.mem_singleton] at hb
            subst hb; subst hab
            exact hnode_acc ha
          · refine List.nodup_append.mpr ⟨(List.nodup_cons.mp hqnd).2, g3, ?_⟩
            intro a ha b hb hab
            subst hab
            exact hfresh a hb (List.mem_append_right _ (List.mem_cons_of_mem _ ha))
          · intro a ha b hb hab
            subst hab
            rcases List.mem_append.mp ha with ha | ha
            · rcases List.mem_append.mp hb with hb | hb
              · exact hdisj a ha a (List.mem_cons_of_mem _ hb) rfl
              · exact hfresh a hb (List.mem_append_left _ ha)
            · rw [List.mem_singleton] at ha
              subst ha
              rcases List.mem_append.mp hb with hb | hb
              · exact hnode_rest hb
              · exact hfresh a hb (List.mem_append_right _ List.mem_cons_self)
        · intro y hy
          rw [hmap] at hy
          rcases List.mem_append.mp hy with hy | hy
          · rcases List.mem_append.mp hy with hy | hy
            · exact I.heads y (List.mem_append_left _ hy)
            · rw [List.mem_singleton] at hy
              exact hy ▸ hnodehead
          · rcases List.mem_append.mp hy with hy | hy
            · exact I.heads y (List.mem_append_right _ (List.mem_cons_of_mem _ hy))
            · obtain ⟨hch, hgt⟩ := (g4 y).mp hy
              exact ⟨hch.mem T, Or.inr hgt⟩
        · have := I.fuel
          simp only [List.length_append, List.length_cons, List.length_nil]
          omega
        · intro y hy
          rw [hmap] at hy ⊢
          rcases List.mem_append.mp hy with hy | hy
          · rcases List.mem_append.mp hy with hy | hy
            · rcases I.src y (List.mem_append_left _ hy) with h1 | ⟨h', hh', hc'⟩
              · exact Or.inl h1
              · exact Or.inr ⟨h', List.mem_append_left _ hh', hc'⟩
            · rw [List.mem_singleton] at hy
              subst hy
              rcases I.src y (List.mem_append_right _ List.mem_cons_self) with h1 | ⟨h', hh', hc'⟩
              · exact Or.inl h1
              · exact Or.inr ⟨h', List.mem_append_left _ hh', hc'⟩
          · rcases List.mem_append.mp hy with hy | hy
            · rcases I.src y (List.mem_append_right _ (List.mem_cons_of_mem _ hy)) with h1 | ⟨h', hh', hc'⟩
              · exact Or.inl h1
              · exact Or.inr ⟨h', List.mem_append_left _ hh', hc'⟩
            · exact Or.inr ⟨node, List.mem_append_right _ (List.mem_singleton.mpr rfl), ((g4 y).mp hy).1⟩
      obtain ⟨r1, r2, r3, r4⟩ := ih _ _ I'
      have hnode_in := r1 (node, (grow tbl node).1) (List.mem_append_right _ (List.mem_singleton.mpr rfl))
      refine ⟨fun p hp => r1 p (List.mem_append_left _ hp), ?_, ?_, ?_⟩
      · intro p hp
        rcases r2 p hp with h1 | h1
        · rcases List.mem_append.mp h1 with h1 | h1
          · exact Or.inl h1
          · rw [List.mem_singleton] at h1
            subst h1
            exact Or.inr ⟨hnodehead, rfl⟩
        · exact Or.inr h1
      · intro y hy
        rcases List.mem_cons.mp hy with hy | hy
        · subst hy
          exact ⟨_, hnode_in, rfl⟩
        · exact r3 y (List.mem_append_left _ hy)
      · intro p hp
        rcases r4 p hp with h1 | h1
        · rcases List.mem_append.mp h1 with h1 | h1
          · exact Or.inl h1
          · rw [List.mem_singleton] at h1
            subst h1
            exact Or.inr (fun y hy => r3 y (List.mem_append_right _ hy))
        · exact Or.inr h1

/-- every non-root node lies on the chain of a head -/
theorem exists_head_above (T : TreeOK tbl cone root par depth) : ∀ (n : Nat) (x : Name), depth x ≤ n → x ∈ cone →
    x ≠ root → ∃ z, IsHead tbl cone root z ∧ Chain tbl z x := by
  intro n
  induction n with
  | zero =>
    intro x hd hx hxr
    obtain ⟨v, _, hv⟩ := T.par_some x hx hxr
    have := T.dep v x hx hv
    omega
  | succ n ih =>
    intro x hd hx hxr
    obtain ⟨v, hvc, hv⟩ := T.par_some x hx hxr
    have hdep := T.dep v x hx hv
    have hxch : x ∈ childrenOf tbl v := T.par_ch v x hx hv
    by_cases hvh : IsHead tbl cone root v
    · exact ⟨v, hvh, .child hxch⟩
    · have hvr : v ≠ root := fun h => hvh ⟨hvc, Or.inl h⟩
      have hle : ¬ 1 < (childrenOf tbl v).length := fun h => hvh ⟨hvc, Or.inr h⟩
      have hsingle : childrenOf tbl v = [x] := by
        match hch : childrenOf tbl v with
        | [] => rw [hch] at hxch; exact absurd hxch List.not_mem_nil
        | [c] =>
          rw [hch] at hxch
          rw [List.mem_singleton] at hxch
          rw [hxch]
        | _ :: _ :: _ => rw [hch] at hle; simp at hle
      obtain ⟨z, hz, hzc⟩ := ih v (by omega) hvc hvr
      exact ⟨z, hz, .step hzc hsingle⟩

/-- the entries of `coneSGs` are exactly the heads with their chain sets -/
theorem coneSGs_spec (T : TreeOK tbl cone root par depth) :
    (∀ p ∈ coneSGs tbl (tbl.length + 1) [root] [], GoodEntry tbl cone root p) ∧
    (∀ h, IsHead tbl cone root h → ∃ p ∈ coneSGs tbl (tbl.length + 1) [root] [], p.1 = h) := by
  have I : HInv tbl cone root (tbl.length + 1) [root] [] := by
    refine ⟨by simp, ?_, by rw [T.len]; simp, ?_⟩
    · intro y hy
      simp only [List.map_nil, List.nil_append, List.mem_singleton] at hy
      subst hy
      exact ⟨T.root_mem, Or.inl rfl⟩
    · intro y hy
      simp only [List.map_nil, List.nil_append, List.mem_singleton] at hy
      exact Or.inl hy
  obtain ⟨_, r2, r3, r4⟩ := coneSGs_loop T _ _ _ I
  refine ⟨?_, ?_⟩
  · intro p hp
    rcases r2 p hp with h | h
    · exact absurd h List.not_mem_nil
    · exact h
  · have key : ∀ (n : Nat) (h : Name), depth h ≤ n → IsHead tbl cone root h →
        ∃ p ∈ coneSGs tbl (tbl.length + 1) [root] [], p.1 = h := by
      intro n
      induction n using Nat.strongRecOn with
      | _ n ih =>
        intro h hd hh
        by_cases hr : h = root
        · exact r3 h (hr ▸ List.mem_singleton.mpr rfl)
        · have hgt : 1 < (childrenOf tbl h).length := hh.2.resolve_left hr
          obtain ⟨z, hz, hzc⟩ := exists_head_above T (depth h) h (Nat.le_refl _) hh.1 hr
          have hlt := hzc.depth_lt T
          obtain ⟨p, hp, hpz⟩ := ih (depth z) (by omega) z (Nat.le_refl _) hz
          rcases r4 p hp with h1 | h1
          · exact absurd h1 List.not_mem_nil
          · apply h1 h
            rw [hpz]
            exact ((growSG_spec T hz.1).2.2.2 h).mpr ⟨hzc, hgt⟩
    exact fun h hh => key (depth h) h (Nat.le_refl _) hh

end

end SGA
end CG
