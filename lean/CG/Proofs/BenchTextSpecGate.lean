/- C15 (character level) helper: the gate and DFF patterns on a text made of canonical lines -/
import CG.Proofs.BenchTextSpecIO
set_option linter.unusedSimpArgs false
set_option linter.unusedVariables false
namespace CG
namespace BenchText
open Regex

/-- the captures of a gate/DFF line -/
def gateCaps (ctx : Ctx) (n K A rest : List Char) : Caps :=
  [(3, ctx.s.size - (A ++ ')' :: rest).length, ctx.s.size - (')' :: rest).length),
   (2, ctx.s.size - (K ++ '(' :: (A ++ ')' :: rest)).length, ctx.s.size - ('(' :: (A ++ ')' :: rest)).length),
   (1, ctx.s.size - (n ++ ' ' :: '=' :: ' ' :: (K ++ '(' :: (A ++ ')' :: rest))).length,
       ctx.s.size - (' ' :: '=' :: ' ' :: (K ++ '(' :: (A ++ ')' :: rest))).length)]

theorem gate_success (ctx : Ctx) {kws : List (List Char)} (hk : KwsOK kws) {n K A rest : List Char} (hn : IdentL n)
    (hK : K ∈ kws) (hA : AllArg A) (hA0 : A ≠ []) :
    Den ctx (rxGate kws) (n ++ ' ' :: '=' :: ' ' :: (K ++ '(' :: (A ++ ')' :: rest))) [] rest (gateCaps ctx n K A rest) := by
  obtain ⟨x, r, rfl, hx, hr⟩ := hn
  obtain ⟨y, ops, rfl⟩ := List.exists_cons_of_ne_nil hA0
  rw [den_rxGate ctx kws hk.1]
  have hnrp : ∀ z ∈ y :: ops, nrp.mem z = true := fun z hz => nrp_of_ne (arg_ne (hA z hz)).2.1
  refine ⟨x, r, [' '], [' '], K, [], y, ops, hK, ?_, ?_, by simp [AllWs], hx, hr, hnrp y (by simp),
    fun z hz => hnrp z (by simp [hz]), by simp, by simp [gateCaps]⟩
  · intro z hz; rw [List.mem_singleton.mp hz]; exact ws_space
  · intro z hz; rw [List.mem_singleton.mp hz]; exact ws_space

def kwsOf (b : Bool) : List (List Char) := if b then gateKws else dffKws

/-- what `findall` returns per line for the gate (`true`) / DFF (`false`) pattern -/
def hitG (b : Bool) : Ln → Option (List String)
  | .gate n K A => if b then some [String.ofList n, String.ofList K, String.ofList A] else none
  | .dff n A => if b then none else some [String.ofList n, String.ofList kDFF, String.ofList A]
  | _ => none

theorem kwsOf_facts (b : Bool) : KwsOK (kwsOf b) ∧ (∀ K ∈ upKws, (K ∈ kwsOf b ↔ b = true)) ∧ (kDFF ∈ kwsOf b ↔ b = false) := by
  cases b
  · exact ⟨kwsOK_dff, by decide, by decide⟩
  · exact ⟨kwsOK_gate, by decide, by decide⟩

theorem specG (ctx : Ctx) (b : Bool) (hneed : need ctx.s.size (rxGate (kwsOf b)) ≤ fuelFor ctx.s) :
    LineSpec Ln.chars ctx (rxGate (kwsOf b)) 3 Ln.ok (hitG b) := by
  obtain ⟨hk, hup, hdff⟩ := kwsOf_facts b
  have hideq : ∀ {n : List Char}, AllIdC n → '=' ∉ n := fun hn => hn.not_mem (by decide)
  have hIO : ∀ (K n : List Char), AllLetter K → AllIdC n → '=' ∉ K ++ '(' :: n := by
    intro K n hK hn hm
    simp only [List.mem_append, List.mem_cons] at hm
    rcases hm with hm | hm | hm
    · exact absurd (hK _ hm) (by decide)
    · exact absurd hm (by decide)
    · exact hideq hn hm
  refine ⟨?_, ?_, ?_, ?_⟩
  · intro p hp hd
    apply m_none ctx _ _ p hp
    intro s' c'
    rw [hd]
    exact gate_nil ctx hk
  · intro p rest hp hd
    apply m_none ctx _ _ p hp
    intro s' c'
    rw [hd]
    exact gate_first ctx hk (by decide)
  · intro l hl hh u t rest p hu ht hp hd
    apply m_none ctx _ _ p hp
    intro s' c'
    rw [hd]
    cases l with
    | inp n =>
      exact gate_miss_noeq ctx hk (hIO kINPUT n (by decide) hl.all) (by simpa [Ln.chars] using hu) ht
    | out n =>
      exact gate_miss_noeq ctx hk (hIO kOUTPUT n (by decide) hl.all) (by simpa [Ln.chars] using hu) ht
    | gate n K A =>
      obtain ⟨hn, hKm, hA, _⟩ := hl
      have hKl := upKws_letters hKm
      have hb : b = false := by cases b <;> simp_all [hitG]
      refine gate_miss_line ctx hk hn.all hKl.1 hKl.2 hA ?_ hu ht
      intro hm
      rw [hup K hKm, hb] at hm
      cases hm
    | dff n A =>
      obtain ⟨hn, hA, _⟩ := hl
      have hb : b = true := by cases b <;> simp_all [hitG]
      refine gate_miss_line ctx hk hn.all (K' := kDFF) (by decide) (by decide) hA ?_ hu ht
      intro hm
      rw [hdff, hb] at hm
      cases hm
    | blank =>
      simp only [Ln.chars, List.append_eq_nil_iff] at hu
      exact absurd hu.2 ht
  · intro l gs hl hh rest p hp hd
    have key : ∀ n K A, IdentL n → AllLetter K → K ≠ [] → K ∈ kwsOf b → AllArg A → A ≠ [] →
        Ln.chars l = n ++ ' ' :: '=' :: ' ' :: (K ++ '(' :: (A ++ [')'])) →
        gs = [String.ofList n, String.ofList K, String.ofList A] →
        Ln.chars l ≠ [] ∧ ∃ caps, m ctx (fuelFor ctx.s) (rxGate (kwsOf b)) p [] k0 =
          some (p + (Ln.chars l).length, caps) ∧ grp ctx 3 caps = gs := by
      intro n K A hn hKl hK0 hKm hA hA0 hc hgs
      rw [hc] at hd ⊢
      refine ⟨by simp, ?_⟩
      have hd' : (txt ctx).drop p = n ++ ' ' :: '=' :: ' ' :: (K ++ '(' :: (A ++ ')' :: rest)) := by rw [hd]; simp
      have hm := m_some ctx (fuelFor ctx.s) (rxGate (kwsOf b)) p hp hneed rest (gateCaps ctx n K A rest)
        (by rw [hd']; exact gate_success ctx hk hn hKm hA hA0)
        (by
          intro s' c' h
          rw [hd'] at h
          obtain ⟨_, h2, _, h4⟩ := gate_align ctx hk hn.all hKl hK0 hA h
          exact ⟨h2, h4⟩)
      refine ⟨gateCaps ctx n K A rest, ?_, ?_⟩
      · rw [hm, end_pos ctx hp hd]
      · rw [gateCaps, grp3, hgs]
        have e1 : (txt ctx).drop p = [] ++ (n ++ ' ' :: '=' :: ' ' :: (K ++ '(' :: (A ++ ')' :: rest))) := by
          rw [hd']; rfl
        have e2 : (txt ctx).drop p = (n ++ [' ', '=', ' ']) ++ (K ++ '(' :: (A ++ ')' :: rest)) := by
          rw [hd']; simp
        have e3 : (txt ctx).drop p = (n ++ ' ' :: '=' :: ' ' :: (K ++ ['('])) ++ (A ++ ')' :: rest) := by
          rw [hd']; simp
        rw [slice_eq ctx hp e1, slice_eq ctx hp e2, slice_eq ctx hp e3]
    cases l with
    | inp n => simp [hitG] at hh
    | out n => simp [hitG] at hh
    | gate n K A =>
      obtain ⟨hn, hKm, hA, hA0⟩ := hl
      have hKl := upKws_letters hKm
      cases b with
      | false => simp [hitG] at hh
      | true =>
        simp only [hitG, if_true, Option.some.injEq] at hh
        exact key n K A hn hKl.1 hKl.2 ((hup K hKm).mpr rfl) hA hA0 rfl hh.symm
    | dff n A =>
      obtain ⟨hn, hA, hA0⟩ := hl
      cases b with
      | true => simp [hitG] at hh
      | false =>
        simp only [hitG, Bool.false_eq_true, if_false, Option.some.injEq] at hh
        exact key n kDFF A hn (by decide) (by decide) (hdff.mpr rfl) hA hA0 rfl hh.symm
    | blank => simp [hitG] at hh

end BenchText
end CG
