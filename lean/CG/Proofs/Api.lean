/- helper lemmas for C07 (construction API invariants): the per-call statements over `step` -/
import CG.Api
import CG.Proofs.ApiFill
set_option linter.unusedSimpArgs false
set_option linter.unusedVariables false
namespace CG
open Circuit

/-! ### hypothesis-free atomicity facts -/

theorem pins_edges (inst : Name) (t : String) : ∀ (ps : List Name) (c : Circuit),
    (addBlackbox.pins inst c t ps).1.edges = c.edges := by
  intro ps
  induction ps with
  | nil => intro c; rw [addBlackbox.pins]
  | cons p ps ih =>
    intro c
    rw [pins_cons]
    have hadd : (c.add { n := inst ++ "." ++ p, ty := t }).1.edges = c.edges := by
      rcases add_plain c (inst ++ "." ++ p) t with ⟨e1, _⟩ | ⟨_, _, e1, _⟩
      · rw [e1]
      · rw [e1, addNodeAttr_edges]
    split
    · rw [ih, hadd]
    · exact hadd

theorem addBlackbox_reject_edges (c : Circuit) (bb : BBox) (inst : Name) (ord : Ord)
    (h : (c.addBlackbox bb inst [] ord).2 ≠ .ok) : (c.addBlackbox bb inst [] ord).1.edges = c.edges := by
  revert h
  unfold addBlackbox
  split
  · intro _; rfl
  · have a3 := pins_edges inst "bb_input" (ord bb.ins) c
    split
    · rename_i x1 c1 heq1
      rw [heq1] at a3
      have b3 := pins_edges inst "bb_output" (ord bb.outs) c1
      split
      · intro hne
        rw [addBlackbox.go] at hne
        exact absurd rfl hne
      · intro _; rw [b3]; exact a3
    · intro _; exact a3

theorem addSubcircuit_reject (c sc : Circuit) (name : Name)
    (h : (c.addSubcircuit sc name [] true).2 ≠ .ok) : (c.addSubcircuit sc name [] true).1 = c := by
  revert h
  unfold addSubcircuit
  split
  · intro _; rfl
  · split
    · intro _; rfl
    · split
      · intro _; rfl
      · simp only [List.any_nil, Bool.false_eq_true, if_false, List.map_nil]
        intro hne
        rw [connectAll] at hne
        exact absurd rfl hne

theorem fillBlackbox_reject (c : Circuit) (inst : Name) (sub : Circuit) (ord : Ord)
    (h : (c.fillBlackbox inst sub ord).2 ≠ .ok) : (c.fillBlackbox inst sub ord).1 = c := by
  revert h
  unfold fillBlackbox
  split
  · intro _; rfl
  · split
    · intro _; rfl
    · split
      · intro _; rfl
      · split
        · intro _; rfl
        · split
          · intro _; rfl
          · split
            · intro _; rfl
            · intro hne; exact absurd rfl hne

theorem fillBlackbox_class (c : Circuit) (inst : Name) {sub : Circuit} (hsub : WS sub) (ord : Ord) :
    (c.fillBlackbox inst sub ord).2 = .ok ∨ (c.fillBlackbox inst sub ord).2 = .valueError := by
  unfold fillBlackbox
  split
  · right; rfl
  · split
    · right; rfl
    · rw [not_any_untyped hsub]
      simp only [Bool.false_eq_true, if_false]
      split
      · right; rfl
      · split
        · right; rfl
        · split
          · right; rfl
          · left; rfl

theorem bbgo_class (bb : BBox) (inst : Name) : ∀ (conns : List (Name × List Name)) (c : Circuit),
    AllTyped c → ((addBlackbox.go bb inst c conns).2 = .ok ∨ (addBlackbox.go bb inst c conns).2 = .valueError) := by
  intro conns
  induction conns with
  | nil => intro c _; rw [addBlackbox.go]; exact Or.inl rfl
  | cons x conns ih =>
    intro c h
    obtain ⟨p, ns⟩ := x
    rw [addBlackbox.go]
    split
    · have hI := connect_allTyped h ns [inst ++ "." ++ p]
      have hC := connect_class h ns [inst ++ "." ++ p]
      split
      · rename_i c' heq; rw [heq] at hI; exact ih c' hI
      · exact hC
    · split
      · have hI := connect_allTyped h [inst ++ "." ++ p] ns
        have hC := connect_class h [inst ++ "." ++ p] ns
        split
        · rename_i c' heq; rw [heq] at hI; exact ih c' hI
        · exact hC
      · exact Or.inr rfl

/-- outcome class of `add_blackbox`, for every enumeration order of the pin sets -/
theorem addBlackbox_class {c : Circuit} {gone : List Name} (h : Inv' c gone) (bb : BBox) (inst : Name)
    (conns : List (Name × List Name)) (ord : Ord) :
    (c.addBlackbox bb inst conns ord).2 = .ok ∨ (c.addBlackbox bb inst conns ord).2 = .valueError := by
  unfold addBlackbox
  split
  · exact Or.inr rfl
  · obtain ⟨a1, _, _, _, a5, _⟩ := pins_spec (inst := inst) (t := "bb_input") (by decide) (ord bb.ins) c gone h
    split
    · rename_i x1 c1 heq1
      rw [heq1] at a1
      obtain ⟨b1, _, _, _, b5, _⟩ := pins_spec (inst := inst) (t := "bb_output") (by decide) (ord bb.outs) c1 gone a1
      split
      · rename_i x2 c2 heq2
        rw [heq2] at b1
        exact bbgo_class bb inst conns _ (allTyped_congr b1.1.allTyped (setBB_nodes c2 inst bb))
      · exact b5
    · exact a5

/-! ### mirror of the side conditions of `C07` -/

def OpOK' : Op → Prop
  | .add a => a.allowRedef = false ∧ a.addConnected = false
  | .addSubcircuit sc _ _ => Inv' sc []
  | .fillBlackbox _ sc => Inv' sc [] ∧
      ∀ n ∈ sc.outputs, sc.ty? n ≠ some "bb_input" ∧ sc.ty? n ≠ some "bb_output"
  | _ => True

def StepOK' (c : Circuit) (gone : List Name) : Op → Prop
  | .fillBlackbox inst _ => FillOK' c gone inst
  | _ => True

theorem step_Inv (ord : Ord) (hord : ∀ l, (ord l).Perm l) (c : Circuit) (gone : List Name) (op : Op)
    (h : Inv' c gone) (hop : OpOK' op) (hst : StepOK' c gone op) :
    Inv' (step ord c op).1 (goneAfter gone op) := by
  cases op with
  | add a => exact add_Inv h a hop
  | connect us vs => exact connect_Inv h us vs
  | disconnect us vs => exact disconnect_Inv h us vs
  | remove ns => exact remove_Inv h ns
  | setOutput ns b => exact setOutput_Inv h ns b
  | addBlackbox bb inst conns => exact (addBlackbox_spec hord h bb inst conns).1
  | addSubcircuit sc name conns => exact (addSubcircuit_spec h hop name conns).1
  | fillBlackbox inst sc => exact (fillBlackbox_spec hord h hop.1 hop.2 inst hst).1

theorem step_class (ord : Ord) (c : Circuit) (gone : List Name) (op : Op)
    (h : Inv' c gone) (hop : OpOK' op) :
    (step ord c op).2 = .ok ∨ (step ord c op).2 = .valueError
    ∨ (∃ ns b, op = .setOutput ns b ∧ (step ord c op).2 = .keyError)
    ∨ ((step ord c op).2 = .indexError ∧ ∃ a, op = .add a) ∨ (step ord c op).2 = .fuel := by
  cases op with
  | add a =>
    rcases add_class h.1.allTyped a hop.2 with h' | h' | h' | h'
    · left; exact h'
    · right; left; exact h'
    · right; right; right; left; exact ⟨h', a, rfl⟩
    · right; right; right; right; exact h'
  | connect us vs =>
    rcases connect_class h.1.allTyped us vs with h' | h'
    · left; exact h'
    · right; left; exact h'
  | disconnect us vs => left; rfl
  | remove ns => left; rfl
  | setOutput ns b =>
    rcases setOutput_class c ns b with h' | h'
    · left; exact h'
    · right; right; left; exact ⟨ns, b, rfl, h'⟩
  | addBlackbox bb inst conns =>
    rcases addBlackbox_class h bb inst conns ord with h' | h'
    · left; exact h'
    · right; left; exact h'
  | addSubcircuit sc name conns =>
    rcases (addSubcircuit_spec h hop name conns).2.1 with h' | h'
    · left; exact h'
    · right; left; exact h'
  | fillBlackbox inst sc =>
    rcases fillBlackbox_class c inst hop.1.1 ord with h' | h'
    · left; exact h'
    · right; left; exact h'

theorem step_reject_edges (ord : Ord) (c : Circuit) (op : Op) (h : (step ord c op).2 ≠ .ok)
    (hop : match op with
      | .add a => a.fanout = [] ∨ a.fanin = []
      | .addBlackbox _ _ conns => conns = []
      | .addSubcircuit _ _ conns => conns = []
      | _ => True) :
    ∀ e ∈ (step ord c op).1.edges, e ∈ c.edges := by
  cases op with
  | add a =>
    intro e he
    have := add_reject_edges c a h hop
    simp only [step] at he
    rw [this] at he; exact he
  | connect us vs =>
    intro e he
    simp only [step] at he h
    rw [connect_reject_unchanged' c us vs h] at he; exact he
  | disconnect us vs => exact absurd rfl h
  | remove ns => exact absurd rfl h
  | setOutput ns b =>
    intro e he
    simp only [step] at he
    rw [setOutput_edges] at he; exact he
  | addBlackbox bb inst conns =>
    intro e he
    simp only [] at hop
    subst hop
    simp only [step] at he h
    rw [addBlackbox_reject_edges c bb inst ord h] at he; exact he
  | addSubcircuit sc name conns =>
    intro e he
    simp only [] at hop
    subst hop
    simp only [step] at he h
    rw [addSubcircuit_reject c sc name h] at he; exact he
  | fillBlackbox inst sc =>
    intro e he
    simp only [step] at he h
    rw [fillBlackbox_reject c inst sc ord h] at he; exact he

/-- state-dependent side condition along a history -/
def RunOK' (ord : Ord) : Circuit → List Name → List Op → Prop
  | _, _, [] => True
  | c, gone, op :: ops => StepOK' c gone op ∧ RunOK' ord (step ord c op).1 (goneAfter gone op) ops

theorem run_Inv (ord : Ord) (hord : ∀ l, (ord l).Perm l) : ∀ (ops : List Op) (c : Circuit) (gone : List Name),
    Inv' c gone → (∀ op ∈ ops, OpOK' op) → RunOK' ord c gone ops →
    Inv' (run ord c gone ops).1 (run ord c gone ops).2 := by
  intro ops
  induction ops with
  | nil => intro c gone h _ _; exact h
  | cons op ops ih =>
    intro c gone h hops hrun
    rw [run]
    exact ih _ _ (step_Inv ord hord c gone op h (hops op (by simp)) hrun.1)
      (fun o ho => hops o (by simp [ho])) hrun.2

theorem empty_Inv (name : String) : Inv' (Circuit.empty name) [] := by
  refine ⟨⟨?_, ?_, ?_, ?_, ?_, ?_, ?_, ?_⟩, ?_⟩
  · simp [Circuit.empty, nodeNames]
  · simp [Circuit.empty]
  · intro u v he; simp [Circuit.empty] at he
  · intro n hn; simp [Circuit.empty, has] at hn
  · intro u v he; simp [Circuit.empty] at he
  · intro n t _ _ u u' hu; simp [Circuit.empty] at hu
  · intro u v he; simp [Circuit.empty] at he
  · intro u v he; simp [Circuit.empty] at he
  · intro p hp; simp [Circuit.empty] at hp

end CG
