/- C15 helper: the reader's parity normalisation of repeated XOR/XNOR operands (`Bench.parityGate`, fix K35) -/
import CG.Bench
import CG.Proofs.VlogStructA
import CG.Proofs.LimitGate
namespace CG
namespace BenchP
open Bench

theorem dedup_eq_self_of_nodup : ∀ l : List Name, l.Nodup → dedup l = l
  | [], _ => rfl
  | x :: xs, h => by
    rw [List.nodup_cons] at h
    rw [dedup, dedup_eq_self_of_nodup xs h.2]
    congr 1
    rw [List.filter_eq_self]
    intro y hy
    have : y ≠ x := fun e => h.1 (e ▸ hy)
    simp [this]

/-- the operands of odd multiplicity, in first-occurrence order -/
def oddOps (ins : List Name) : List Name := (dedup ins).filter (fun p => ins.count p % 2 == 1)

theorem oddOps_nodup (ins : List Name) : (oddOps ins).Nodup :=
  List.Nodup.sublist List.filter_sublist (VS.dedup_nodup ins)

theorem oddOps_mem {ins : List Name} {u : Name} (h : u ∈ oddOps ins) : u ∈ ins :=
  (FV.dedup_mem ins u).1 (List.mem_filter.1 h).1

theorem oddOps_xorL (v : Name → Bool) (ins : List Name) : xorL ((oddOps ins).map v) = xorL (ins.map v) :=
  VS.xorL_odd v ins

/-- duplicate-free operand lists (all the writer emits) are left alone -/
theorem parityGate_nodup (ty : String) {ins : List Name} (h : ins.Nodup) : parityGate ty ins = (ty, ins) := by
  unfold parityGate
  rw [dedup_eq_self_of_nodup ins h]
  simp

/-- only parity gates are touched -/
theorem parityGate_other {ty : String} (ins : List Name) (h1 : ty ≠ "xor") (h2 : ty ≠ "xnor") :
    parityGate ty ins = (ty, ins) := by
  unfold parityGate
  have : (ty == "xor" || ty == "xnor") = false := by simp [h1, h2]
  rw [this]
  simp

/-- the three outcomes of the normalisation -/
theorem parityGate_cases (ty : String) (ins : List Name) :
    parityGate ty ins = (ty, ins) ∨
    ((ty = "xor" ∨ ty = "xnor") ∧
      ((oddOps ins = [] ∧ parityGate ty ins = (if ty == "xor" then "0" else "1", [])) ∨
       (oddOps ins ≠ [] ∧ parityGate ty ins = (ty, oddOps ins)))) := by
  unfold parityGate
  split
  · rename_i hc
    right
    rw [Bool.and_eq_true, Bool.or_eq_true, beq_iff_eq, beq_iff_eq] at hc
    refine ⟨hc.1, ?_⟩
    show (oddOps ins = [] ∧ (if (oddOps ins).isEmpty = true then _ else _) = _) ∨
      (oddOps ins ≠ [] ∧ (if (oddOps ins).isEmpty = true then _ else _) = _)
    by_cases ho : oddOps ins = []
    · left
      refine ⟨ho, ?_⟩
      rw [ho]; rfl
    · right
      refine ⟨ho, ?_⟩
      have hne : (oddOps ins).isEmpty = false := by
        cases h : oddOps ins with
        | nil => exact absurd h ho
        | cons a l => rfl
      rw [hne]; rfl
  · exact Or.inl rfl

theorem parityGate_mem {ty : String} {ins : List Name} {u : Name} (h : u ∈ (parityGate ty ins).2) : u ∈ ins := by
  rcases parityGate_cases ty ins with e | ⟨_, ⟨_, e⟩ | ⟨_, e⟩⟩
  · rw [e] at h; exact h
  · rw [e] at h; cases h
  · rw [e] at h; exact oddOps_mem h

/-- the normalised type: the declared one, or a constant with no operands -/
theorem parityGate_ty (ty : String) (ins : List Name) :
    (parityGate ty ins).1 = ty ∨
      ((ty = "xor" ∨ ty = "xnor") ∧ ((parityGate ty ins).1 = "0" ∨ (parityGate ty ins).1 = "1") ∧
        (parityGate ty ins).2 = []) := by
  rcases parityGate_cases ty ins with e | ⟨ht, ⟨_, e⟩ | ⟨_, e⟩⟩
  · rw [e]; exact Or.inl rfl
  · right
    rw [e]
    refine ⟨ht, ?_, rfl⟩
    by_cases hx : ty = "xor"
    · left; simp [hx]
    · right; simp [hx]
  · rw [e]; exact Or.inl rfl

theorem gateFn_xor' (l : List Bool) : gateFn "xor" l = some (xorL l) := by simp [gateFn]
theorem gateFn_xnor' (l : List Bool) : gateFn "xnor" l = some (!xorL l) := by simp [gateFn]
theorem gateFn_and' (l : List Bool) : gateFn "and" l = some (l.all id) := by simp [gateFn]
theorem gateFn_nand' (l : List Bool) : gateFn "nand" l = some (!l.all id) := by simp [gateFn]
theorem gateFn_or' (l : List Bool) : gateFn "or" l = some (l.any id) := by simp [gateFn]
theorem gateFn_nor' (l : List Bool) : gateFn "nor" l = some (!l.any id) := by simp [gateFn]
theorem gateFn_zero' (l : List Bool) : gateFn "0" l = some false := by simp [gateFn]
theorem gateFn_one' (l : List Bool) : gateFn "1" l = some true := by simp [gateFn]

/-- a duplicate-free list with the members of `m` evaluates like `m` under the idempotent gate types -/
theorem gateFn_set_eq {ty : String} (hty : ty = "and" ∨ ty = "nand" ∨ ty = "or" ∨ ty = "nor") (v : Name → Bool)
    {l m : List Name} (h : ∀ u, u ∈ l ↔ u ∈ m) : gateFn ty (l.map v) = gateFn ty (m.map v) := by
  have ha := VS.all_map_eq v v l m (fun x hx => ⟨x, (h x).1 hx, rfl⟩) (fun y hy => ⟨y, (h y).2 hy, rfl⟩)
  have ho := VS.any_map_eq v v l m (fun x hx => ⟨x, (h x).1 hx, rfl⟩) (fun y hy => ⟨y, (h y).2 hy, rfl⟩)
  rcases hty with rfl | rfl | rfl | rfl
  · rw [gateFn_and', gateFn_and', ha]
  · rw [gateFn_nand', gateFn_nand', ha]
  · rw [gateFn_or', gateFn_or', ho]
  · rw [gateFn_nor', gateFn_nor', ho]

/-- **the fan-in set the reader creates computes the declared gate function of the declared operand list**,
    repetitions included -/
theorem parityGate_sem {ty : String} {ins : List Name}
    (hty : ty ∈ ["buf", "not", "or", "nor", "and", "nand", "xor", "xnor"])
    (h1 : (ty = "buf" ∨ ty = "not") → ins.length = 1) (v : Name → Bool)
    {l : List Name} (hnd : l.Nodup) (hl : ∀ u, u ∈ l ↔ u ∈ (parityGate ty ins).2) :
    gateFn (parityGate ty ins).1 (l.map v) = gateFn ty (ins.map v) := by
  have perm_case : ∀ m : List Name, m.Nodup → (∀ u, u ∈ l ↔ u ∈ m) → gateFn ty (l.map v) = gateFn ty (m.map v) :=
    fun m hm hlm => Limit.gateFn_perm_any ty (((List.perm_ext_iff_of_nodup hnd hm).mpr hlm).map v)
  have single : ins.length = 1 → gateFn (parityGate ty ins).1 (l.map v) = gateFn ty (ins.map v) := by
    intro hlen
    have hins : ins.Nodup := by
      match ins, hlen with
      | [a], _ => simp
    rw [parityGate_nodup ty hins] at hl ⊢
    exact perm_case ins hins hl
  have idem : (ty = "and" ∨ ty = "nand" ∨ ty = "or" ∨ ty = "nor") →
      gateFn (parityGate ty ins).1 (l.map v) = gateFn ty (ins.map v) := by
    intro ht
    have hne : ty ≠ "xor" ∧ ty ≠ "xnor" := by
      rcases ht with rfl | rfl | rfl | rfl <;> decide
    rw [parityGate_other ins hne.1 hne.2] at hl ⊢
    exact gateFn_set_eq ht v hl
  have parity : (ty = "xor" ∨ ty = "xnor") →
      gateFn (parityGate ty ins).1 (l.map v) = gateFn ty (ins.map v) := by
    intro ht
    rcases parityGate_cases ty ins with e | ⟨_, ⟨ho, e⟩ | ⟨ho, e⟩⟩
    · -- no repetition
      by_cases hins : ins.Nodup
      · rw [e] at hl ⊢
        exact perm_case ins hins hl
      · -- repeated operands, yet unchanged: impossible
        exfalso
        apply hins
        apply VS.nodup_of_dedup_length
        intro hlt
        have hc : ((ty == "xor" || ty == "xnor") && decide ((dedup ins).length < ins.length)) = true := by
          rcases ht with rfl | rfl <;> simp [hlt]
        have e' := e
        unfold parityGate at e'
        rw [if_pos hc] at e'
        have hlen : ins.length ≤ (dedup ins).length := by
          by_cases hr : ((dedup ins).filter (fun p => ins.count p % 2 == 1)).isEmpty = true
          · simp only [hr, if_true] at e'
            have := (Prod.ext_iff.mp e').2
            simp only at this
            rw [← this] at hlt
            simp at hlt
          · simp only [hr] at e'
            have := (Prod.ext_iff.mp e').2
            simp only [Bool.false_eq_true, if_false] at this
            have h2 : ((dedup ins).filter (fun p => ins.count p % 2 == 1)).length ≤ (dedup ins).length :=
              List.length_filter_le _ _
            rw [this] at h2
            exact h2
        omega
    · -- every operand cancels: a constant
      rw [e] at hl ⊢
      have hl0 : l = [] := VS.eq_nil_of_no_mem (fun x hx => by have := (hl x).1 hx; cases this)
      have hx : xorL (ins.map v) = false := by rw [← oddOps_xorL, ho]; rfl
      rcases ht with rfl | rfl
      · simp only [beq_self_eq_true, if_true]
        rw [gateFn_zero', gateFn_xor', hx]
      · have : (("xnor" : String) == "xor") = false := by decide
        simp only [this, Bool.false_eq_true, if_false]
        rw [gateFn_one', gateFn_xnor', hx]; rfl
    · -- the operands of odd multiplicity
      rw [e] at hl ⊢
      rw [perm_case (oddOps ins) (oddOps_nodup ins) hl]
      rcases ht with rfl | rfl
      · rw [gateFn_xor', gateFn_xor', oddOps_xorL]
      · rw [gateFn_xnor', gateFn_xnor', oddOps_xorL]
  simp only [List.mem_cons, List.not_mem_nil, or_false] at hty
  rcases hty with h | h | h | h | h | h | h | h
  · exact single (h1 (Or.inl h))
  · exact single (h1 (Or.inr h))
  · exact idem (Or.inr (Or.inr (Or.inl h)))
  · exact idem (Or.inr (Or.inr (Or.inr h)))
  · exact idem (Or.inl h)
  · exact idem (Or.inr (Or.inl h))
  · exact parity (Or.inl h)
  · exact parity (Or.inr h)

end BenchP
end CG
