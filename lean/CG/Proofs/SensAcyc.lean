/- helper lemmas for C11: acyclicity by gluing ranks (used to show that the generated popcount circuit is acyclic) -/
import CG.Spec
import CG.Proofs.Arith
set_option linter.unusedSimpArgs false
set_option linter.unusedVariables false
namespace CG
namespace Sens
open Circuit

/-- the edges of `es` between nodes satisfying `P` admit a rank function -/
def AcycOn (es : List (Name × Name)) (P : Name → Prop) : Prop :=
  ∃ r : Name → Nat, ∀ e ∈ es, P e.1 → P e.2 → r e.1 < r e.2

theorem acyclic_iff_acycOn (c : Circuit) : Acyclic c ↔ AcycOn c.edges (fun _ => True) := by
  constructor
  · rintro ⟨r, hr⟩; exact ⟨r, fun e he _ _ => hr e he⟩
  · rintro ⟨r, hr⟩; exact ⟨r, fun e he => hr e he trivial trivial⟩

theorem AcycOn.of_empty {es : List (Name × Name)} {P : Name → Prop} (h : ∀ e ∈ es, P e.1 → P e.2 → False) :
    AcycOn es P := ⟨fun _ => 0, fun e he h1 h2 => (h e he h1 h2).elim⟩

theorem AcycOn.mono {es : List (Name × Name)} {P Q : Name → Prop} (h : AcycOn es Q) (hPQ : ∀ z, P z → Q z) :
    AcycOn es P := by
  obtain ⟨r, hr⟩ := h
  exact ⟨r, fun e he h1 h2 => hr e he (hPQ _ h1) (hPQ _ h2)⟩

theorem le_sum_map {α : Type} (f : α → Nat) : ∀ (l : List α) (x : α), x ∈ l → f x ≤ (l.map f).sum
  | [], _, h => by cases h
  | a :: l, x, h => by
    simp only [List.map_cons, List.sum_cons]
    rcases List.mem_cons.1 h with rfl | h
    · omega
    · have := le_sum_map f l x h
      omega

open Classical in
/-- two parts, each acyclic, with no edge from the second part back into the first -/
theorem AcycOn.glue {es : List (Name × Name)} {P : Name → Prop} (X : Name → Prop)
    (hX : AcycOn es (fun z => P z ∧ X z)) (hY : AcycOn es (fun z => P z ∧ ¬ X z))
    (hno : ∀ e ∈ es, P e.1 → P e.2 → ¬ X e.1 → X e.2 → False) : AcycOn es P := by
  obtain ⟨rX, hrX⟩ := hX
  obtain ⟨rY, hrY⟩ := hY
  refine ⟨fun z => if X z then rX z else 1 + (es.map (fun e => rX e.1)).sum + rY z, ?_⟩
  intro e he h1 h2
  simp only []
  by_cases a1 : X e.1
  · by_cases a2 : X e.2
    · rw [if_pos a1, if_pos a2]
      exact hrX e he ⟨h1, a1⟩ ⟨h2, a2⟩
    · rw [if_pos a1, if_neg a2]
      have := le_sum_map (fun e => rX e.1) es e he
      omega
  · by_cases a2 : X e.2
    · exact (hno e he h1 h2 a1 a2).elim
    · rw [if_neg a1, if_neg a2]
      have := hrY e he ⟨h1, a1⟩ ⟨h2, a2⟩
      omega

open Classical in
/-- a renamed copy of an acyclic edge list -/
theorem AcycOn.image {es : List (Name × Name)} {Q : Name → Prop} (f : Name → Name) (S : Name → Prop)
    (es0 : List (Name × Name)) (h0 : ∃ r : Name → Nat, ∀ e ∈ es0, r e.1 < r e.2)
    (hinj : ∀ a b, S a → S b → f a = f b → a = b)
    (hE : ∀ e ∈ es, Q e.1 → Q e.2 → ∃ e0 ∈ es0, S e0.1 ∧ S e0.2 ∧ e = (f e0.1, f e0.2)) : AcycOn es Q := by
  obtain ⟨r0, hr0⟩ := h0
  let dec : Name → Name := fun z => if h : ∃ y, S y ∧ f y = z then choose h else ""
  have hdec : ∀ y, S y → dec (f y) = y := by
    intro y hy
    have hex : ∃ y', S y' ∧ f y' = f y := ⟨y, hy, rfl⟩
    have : dec (f y) = choose hex := by
      simp only [dec]
      rw [dif_pos hex]
    rw [this]
    obtain ⟨h1, h2⟩ := choose_spec hex
    exact hinj _ _ h1 hy h2
  refine ⟨fun z => r0 (dec z), ?_⟩
  intro e he h1 h2
  obtain ⟨e0, he0, s1, s2, rfl⟩ := hE e he h1 h2
  simp only []
  rw [hdec _ s1, hdec _ s2]
  exact hr0 e0 he0

/-- restriction of an acyclic circuit -/
theorem AcycOn.of_rank {es es0 : List (Name × Name)} {P : Name → Prop} (h0 : ∃ r : Name → Nat, ∀ e ∈ es0, r e.1 < r e.2)
    (hE : ∀ e ∈ es, P e.1 → P e.2 → e ∈ es0) : AcycOn es P := by
  obtain ⟨r0, hr0⟩ := h0
  exact ⟨r0, fun e he h1 h2 => hr0 e (hE e he h1 h2)⟩

theorem acyclic_of_subset {c c' : Circuit} (h : Acyclic c) (hs : ∀ e ∈ c'.edges, e ∈ c.edges) : Acyclic c' := by
  obtain ⟨r, hr⟩ := h
  exact ⟨r, fun e he => hr e (hs e he)⟩

/-- new edges only into sinks: nodes that are the source of no edge -/
theorem acyclic_sinks {c c' : Circuit} (Z : Name → Prop) (h : Acyclic c)
    (hE : ∀ e ∈ c'.edges, e ∈ c.edges ∨ Z e.2) (hZ : ∀ e ∈ c'.edges, ¬ Z e.1) : Acyclic c' := by
  rw [acyclic_iff_acycOn]
  apply AcycOn.glue (fun z => ¬ Z z)
  · apply AcycOn.of_rank h
    intro e he _ h2
    rcases hE e he with h0 | h0
    · exact h0
    · exact absurd h0 h2.2
  · apply AcycOn.of_empty
    intro e he h1 _
    exact h1.2 (hZ e he)
  · intro e he _ _ h1 _
    exact h1 (hZ e he)

end Sens
end CG
