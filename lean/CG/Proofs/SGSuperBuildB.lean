/- C17 (super-circuit) helpers, part 4: names of instances, and what `SGOk` says about the io of a supergate -/
import CG.Proofs.SGSuperBuildA
import CG.Proofs.SGAlgoMain
namespace CG
namespace SGSuper
namespace Build
open Supergates SGA Circuit

theorem inst_inj {h h' : Name} (e : inst h = inst h') : h = h' :=
  (String.append_right_inj _).1 e

theorem nameOK_inst (h : Name) : Limit.NameOK (inst h) := by
  rw [Limit.nameOK_iff]
  refine ⟨'s', 'g' :: '_' :: h.toList, ?_, by decide⟩
  unfold inst
  rw [String.toList_append]
  rfl

theorem nameOK_of (c2 : Circuit) (hN : NamesOK c2) {n : Name} (h : c2.has n = true) : Limit.NameOK n :=
  ⟨(hN.nameOK n h).2, (hN.nameOK n h).1⟩

section
variable {c2 : Circuit} {p : Found × Circuit}

theorem sg_inputs_has (X : SGOk c2 p) {i : Name} (hi : i ∈ p.2.inputs) : c2.has i = true := by
  rw [X.eq] at hi
  exact X.ctx.inputs_has hi

theorem sg_head_has (X : SGOk c2 p) : c2.has p.1.head = true :=
  has_of_cone c2 X.ctx.wf X.ctx.root (X.ctx.mem_cone X.ctx.head_mem)

theorem sg_inputs_nodup (X : SGOk c2 p) : p.2.inputs.Nodup := by
  rw [X.eq]
  exact X.ctx.inputs_nodup

theorem sg_outputs (X : SGOk c2 p) : p.2.outputs = [p.1.head] := by
  rw [X.eq]
  exact X.ctx.outputs_eq

/-- the head of a supergate that is not one of its inputs is not a primary input of the circuit -/
theorem sg_head_not_input (X : SGOk c2 p) : p.1.head ∉ c2.inputs := by
  intro hin
  have hty : c2.ty? p.1.head = some "input" := (mem_inputs X.ctx.wf.nodup _).mp hin
  apply X.headInt
  rw [X.eq, mem_sg_inputs]
  refine ⟨X.ctx.head_mem, ?_⟩
  rw [sgTy_input_iff c2 X.ctx.clean]
  have hno : c2.fanin p.1.head = [] := X.ctx.clean.noFanin _ _ hty (by decide)
  refine ⟨by rw [hty]; decide, ?_⟩
  cases hd : drivenIn c2 p.1.nodes p.1.head with
  | false => rfl
  | true =>
    obtain ⟨a, he, _⟩ := (drivenIn_iff c2 _ _).mp hd
    have := Q.mem_fanin.mpr he
    rw [hno] at this
    exact absurd this List.not_mem_nil

theorem isNet_has {K : List (Found × Circuit)} (hok : ∀ q ∈ K, SGOk c2 q) {x : Name} (h : IsNet c2 K x) :
    c2.has x = true := by
  rcases h with h | h | ⟨q, hq, h | h⟩
  · exact mem_inputs_has h
  · exact mem_outputs_has h
  · exact sg_inputs_has (hok q hq) h
  · rw [h]; exact sg_head_has (hok q hq)

theorem isNet_mono {K K' : List (Found × Circuit)} (hsub : ∀ q ∈ K, q ∈ K') {x : Name} (h : IsNet c2 K x) : IsNet c2 K' x := by
  rcases h with h | h | ⟨q, hq, h⟩
  · exact Or.inl h
  · exact Or.inr (Or.inl h)
  · exact Or.inr (Or.inr ⟨q, hsub q hq, h⟩)

end

theorem dedup_io {c2 : Circuit} {p : Found × Circuit} (X : SGOk c2 p) :
    dedup (p.2.inputs ++ p.2.outputs) = p.2.inputs ++ [p.1.head] := by
  rw [sg_outputs X]
  apply SGRun.dedup_eq_of_nodup
  rw [List.nodup_append]
  refine ⟨sg_inputs_nodup X, by simp, ?_⟩
  intro a ha b hb
  rw [List.mem_singleton] at hb
  subst hb
  intro e
  exact X.headInt (e ▸ ha)

end Build
end SGSuper
end CG
