/- C09 (sequential_unroll): unfolding of a successful call and the attribute folds that follow `unroll` -/
import CG.Proofs.UnrollBase
set_option linter.unusedSimpArgs false
set_option linter.unusedVariables false
namespace CG
namespace Unroll
open Circuit

/-- body of the `set_output(io_map[d], add_flop_outputs)` loop -/
def outStep (m : List (Name × List Name)) (dPort : Name) (afo : Bool) (uc : Circuit) (b : Name) : E Circuit :=
  match m.lookup (b ++ "_" ++ dPort) with
  | none => .error .keyError
  | some l => liftO (uc.setOutput l afo)

/-- body of the `set_type(io_map[q][0], initial_values)` loop -/
def tyStep (m : List (Name × List Name)) (qPort : Name) (v : String) (uc : Circuit) (b : Name) : E Circuit :=
  match m.lookup (b ++ "_" ++ qPort) with
  | some (x :: _) => liftO (uc.setType [x] v)
  | _ => .error .keyError

theorem seq_unfold {c : Circuit} {n : Nat} {dPort qPort : Name} {ignore : List Name} {afo : Bool}
    {initStr : Option String} {ru : Bool} {pfx : String} {ord : Ord} {res : Tx.UState}
    (h : Tx.sequentialUnroll c n dPort qPort ignore afo initStr [] ru pfx ord = .ok res) :
    ∃ cs r uc1,
      Tx.unroll cs n ((c.bbs.map (fun p : Name × BBox => p.1)).map (fun (b : Name) => (b ++ "_" ++ dPort, b ++ "_" ++ qPort))) pfx ord = .ok r ∧
      (c.bbs.map (fun p : Name × BBox => p.1)).foldlM (outStep r.2 dPort afo) r.1 = .ok uc1 ∧
      (match initStr with
       | some v => (c.bbs.map (fun p : Name × BBox => p.1)).foldlM (tyStep r.2 qPort v) uc1
       | none => .ok uc1) = .ok res.1 ∧
      res.2 = r.2 := by
  unfold Tx.sequentialUnroll at h
  obtain ⟨cs0, _, h⟩ := bind_ok h
  split at h
  · cases h
  · rename_i nm bb rest hbbs
    split at h
    · cases h
    · simp only [] at h
      split at h
      · cases h
      · obtain ⟨_, _, h⟩ := bind_ok h
        obtain ⟨r, hr, h⟩ := bind_ok h
        obtain ⟨uc1, h1, h⟩ := bind_ok h
        obtain ⟨uc2, h2, h⟩ := bind_ok h
        injection h with h
        subst h
        refine ⟨_, r, uc1, hr, h1, ?_, rfl⟩
        cases initStr with
        | some v => exact h2
        | none => exact h2

/-! ### attribute updates -/

theorem setOutRaw_isOut (c : Circuit) (n : Name) (b : Bool) (m : Name) :
    (c.setOutRaw n b).isOut m = if m = n ∧ c.has n = true then b else c.isOut m := by
  unfold isOut
  rw [setOutRaw_attr?]
  by_cases hm : m = n
  · subst hm
    rw [has_eq_isSome]
    cases c.attr? m with
    | none => simp
    | some a => simp
  · have : (m == n) = false := by simpa using hm
    cases c.attr? m with
    | none => simp [hm]
    | some a => simp [hm, this]

theorem setTyRaw_isOut (c : Circuit) (n : Name) (t : String) (m : Name) : (c.setTyRaw n t).isOut m = c.isOut m := by
  unfold isOut
  rw [setTyRaw_attr?]
  cases c.attr? m with
  | none => rfl
  | some a => simp only [Option.map_some]; split <;> rfl

/-- a successful `set_output(l, b)` -/
theorem setOutput_ok : ∀ (l : List Name) (c c' : Circuit) (b : Bool), c.setOutput l b = (c', .ok) →
    c'.edges = c.edges ∧ c'.nodeNames = c.nodeNames ∧ (∀ x, c'.ty? x = c.ty? x) ∧
    (∀ x ∈ l, c'.isOut x = b) ∧ (∀ x, c.isOut x = b → c'.isOut x = b)
  | [], c, c', b, h => by
    rw [Circuit.setOutput] at h
    injection h with h _
    subst h
    exact ⟨rfl, rfl, fun _ => rfl, fun x hx => (by cases hx), fun _ h => h⟩
  | n :: l, c, c', b, h => by
    rw [Circuit.setOutput] at h
    by_cases hn : c.has n = true
    · rw [if_pos hn] at h
      obtain ⟨a1, a2, a3, a4, a5⟩ := setOutput_ok l _ c' b h
      have hkeep : ∀ x, c.isOut x = b → (c.setOutRaw n b).isOut x = b := by
        intro x hx
        rw [setOutRaw_isOut]
        split
        · rfl
        · exact hx
      refine ⟨a1, by rw [a2, setOutRaw_nodeNames], fun x => by rw [a3, setOutRaw_ty?], ?_, fun x hx => a5 x (hkeep x hx)⟩
      intro x hx
      rcases List.mem_cons.1 hx with rfl | hx'
      · apply a5
        rw [setOutRaw_isOut, if_pos ⟨rfl, hn⟩]
      · exact a4 x hx'
    · rw [if_neg hn] at h
      injection h with _ h
      cases h

/-- the `set_output` loop of `sequential_unroll` -/
theorem outPhase (m : List (Name × List Name)) (dPort : Name) (afo : Bool) : ∀ (insts : List Name) (P uc1 : Circuit),
    insts.foldlM (outStep m dPort afo) P = .ok uc1 →
    uc1.edges = P.edges ∧ uc1.nodeNames = P.nodeNames ∧ (∀ x, uc1.ty? x = P.ty? x) ∧
    (∀ b ∈ insts, ∀ x ∈ (m.lookup (b ++ "_" ++ dPort)).getD [], uc1.isOut x = afo) ∧
    (∀ x, P.isOut x = afo → uc1.isOut x = afo)
  | [], P, uc1, h => by
    rw [foldlM_nil_ok _ _ _ h]
    exact ⟨rfl, rfl, fun _ => rfl, fun b hb => (by cases hb), fun _ h => h⟩
  | b :: insts, P, uc1, h => by
    obtain ⟨c1, h1, h2⟩ := foldlM_cons_ok _ _ _ _ _ h
    unfold outStep at h1
    cases hl : m.lookup (b ++ "_" ++ dPort) with
    | none => rw [hl] at h1; cases h1
    | some l =>
      rw [hl] at h1
      simp only [] at h1
      obtain ⟨a1, a2, a3, a4, a5⟩ := setOutput_ok l P c1 afo (liftO_ok h1)
      obtain ⟨b1, b2, b3, b4, b5⟩ := outPhase m dPort afo insts c1 uc1 h2
      refine ⟨by rw [b1, a1], by rw [b2, a2], fun x => by rw [b3, a3], ?_, fun x hx => b5 x (a5 x hx)⟩
      intro b' hb' x hx
      rcases List.mem_cons.1 hb' with rfl | hb''
      · rw [hl] at hx
        exact b5 x (a4 x hx)
      · exact b4 b' hb'' x hx

/-- the `set_type` loop of `sequential_unroll` (string initial value) -/
theorem tyPhase (m : List (Name × List Name)) (qPort : Name) (v : String) : ∀ (insts : List Name) (P uc : Circuit),
    insts.foldlM (tyStep m qPort v) P = .ok uc →
    uc.edges = P.edges ∧ uc.nodeNames = P.nodeNames ∧ (∀ x, uc.isOut x = P.isOut x) ∧
    (∀ b ∈ insts, uc.ty? (Tx.ioName m (b ++ "_" ++ qPort) 0) = some v) ∧
    (∀ x, P.ty? x = some v → uc.ty? x = some v)
  | [], P, uc, h => by
    rw [foldlM_nil_ok _ _ _ h]
    exact ⟨rfl, rfl, fun _ => rfl, fun b hb => (by cases hb), fun _ h => h⟩
  | b :: insts, P, uc, h => by
    obtain ⟨c1, h1, h2⟩ := foldlM_cons_ok _ _ _ _ _ h
    unfold tyStep at h1
    split at h1
    · rename_i x rest hl
      obtain ⟨hx, e⟩ := setType1_ok (liftO_ok h1)
      subst e
      obtain ⟨b1, b2, b3, b4, b5⟩ := tyPhase m qPort v insts _ uc h2
      have hkeep : ∀ y, P.ty? y = some v → (P.setTyRaw x v).ty? y = some v := by
        intro y hy
        rw [setTyRaw_ty?]
        split
        · rfl
        · exact hy
      refine ⟨b1, by rw [b2, setTyRaw_nodeNames], fun y => by rw [b3, setTyRaw_isOut], ?_, fun y hy => b5 y (hkeep y hy)⟩
      intro b' hb'
      rcases List.mem_cons.1 hb' with rfl | hb''
      · apply b5
        have : Tx.ioName m (b' ++ "_" ++ qPort) 0 = x := by
          unfold Tx.ioName
          rw [hl]
          rfl
        rw [this, setTyRaw_ty?, if_pos ⟨rfl, hx⟩]
      · exact b4 b' hb''
    · cases h1

end Unroll
end CG
