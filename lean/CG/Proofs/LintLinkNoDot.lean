/-
  CG.Proofs.LintLinkNoDot — `NoDots c`: no blackbox registered and no node name contains a dot.  Preservation by the
  construction API (`add`, `connect`, `add_subcircuit`, `relabel`, `remove`) whenever the names handed in are dot-free —
  partial-correctness statements about the model functions, no well-formedness hypothesis.
-/
import CG.Proofs.LintLinkOps
import CG.Proofs.ComposeSub
import CG.Proofs.ComposeView
namespace CG
namespace LintLink
open Circuit

/-- no blackbox instance and no dotted node name -/
structure NoDots (c : Circuit) : Prop where
  bbs : c.bbs = []
  names : ∀ g, c.has g = true → hasDot g = false

theorem NoDots.registered {c : Circuit} (h : NoDots c) : DotsRegistered c := by
  intro g hg hd
  rw [h.names g ((has_iff_mem c g).2 hg)] at hd
  cases hd

/-- a circuit with the same registry and no new names -/
theorem NoDots.of_sub {c c' : Circuit} (h : NoDots c) (hb : c'.bbs = c.bbs) (hs : ∀ g, c'.has g = true → c.has g = true) :
    NoDots c' :=
  ⟨hb.trans h.bbs, fun g hg => h.names g (hs g hg)⟩

theorem noDots_empty (name : String) : NoDots ({ name := name } : Circuit) :=
  ⟨rfl, fun g hg => by simp [Circuit.has] at hg⟩

/-! ### Except plumbing -/

theorem bind_ok_inv {α β} {x : E α} {f : α → E β} {b : β} (h : (x >>= f) = .ok b) : ∃ a, x = .ok a ∧ f a = .ok b := by
  cases x with
  | error e => cases h
  | ok a => exact ⟨a, rfl, h⟩

theorem liftO_ok_inv {r : Circuit × Outcome} {c' : Circuit} (h : liftO r = .ok c') : r = (c', .ok) := by
  obtain ⟨c1, o⟩ := r
  unfold liftO at h
  cases o <;> simp only [] at h <;> first | (cases h; rfl) | cases h

theorem foldlM_inv {α β} (P : α → Prop) (f : α → β → E α) (hf : ∀ a b a', P a → f a b = .ok a' → P a') :
    ∀ (l : List β) (a a' : α), P a → l.foldlM f a = .ok a' → P a'
  | [], a, a', hp, h => by
    injection h with h
    subst h
    exact hp
  | b :: l, a, a', hp, h => by
    rw [List.foldlM_cons] at h
    obtain ⟨a1, h1, h2⟩ := bind_ok_inv h
    exact foldlM_inv P f hf l a1 a' (hf a b a1 hp h1) h2

/-! ### add / connect -/

theorem NoDots.add {c : Circuit} (h : NoDots c) (a : AddArgs) (hn : hasDot a.n = false)
    (hac : a.addConnected = false) (hu : a.uid = false) : NoDots (c.add a).1 := by
  obtain ⟨f1, _, f3⟩ := add_frame c a hac
  refine ⟨f1.trans h.bbs, fun g hg => ?_⟩
  rcases f3 g hg with h1 | h1 | ⟨h1, _⟩
  · exact h.names g h1
  · rw [h1]; exact hn
  · rw [hu] at h1; cases h1

theorem NoDots.addC {c c' : Circuit} (h : NoDots c) {a : AddArgs} (hn : hasDot a.n = false)
    (hac : a.addConnected = false) (hu : a.uid = false) (hr : Tx.addC c a = .ok c') : NoDots c' := by
  rw [addC_fst hr]
  exact h.add a hn hac hu

theorem NoDots.addE {c c' : Circuit} (h : NoDots c) {a : AddArgs} {r : Name} (hn : hasDot a.n = false)
    (hac : a.addConnected = false) (hu : a.uid = false) (hr : addE c a = .ok (c', r)) : NoDots c' := by
  rw [addE_fst hr]
  exact h.add a hn hac hu

theorem NoDots.connect {c c' : Circuit} (h : NoDots c) {us vs : List Name}
    (hr : liftO (c.connect us vs) = .ok c') : NoDots c' := by
  have e : c' = (c.connect us vs).1 := by rw [liftO_ok_inv hr]
  rw [e]
  exact h.of_sub (connect_bbs c us vs) (fun g hg => by rw [has_congr (connect_nodes c us vs)] at hg; exact hg)

/-! ### add_subcircuit -/

theorem hasDot_pref (name n : Name) : hasDot (pref name n) = (hasDot name || hasDot n) := by
  unfold pref
  rw [hasDot_append, hasDot_append]
  have : hasDot "_" = false := by decide
  rw [this, Bool.or_false]

theorem foldl_setTyRaw_has (t : String) (f : Name → Name) (L : List Name) (c : Circuit) (m : Name) :
    (L.foldl (fun acc n => acc.setTyRaw (f n) t) c).has m = c.has m := by
  induction L generalizing c with
  | nil => rfl
  | cons x L ih => simp only [List.foldl_cons]; rw [ih, setTyRaw_has]

theorem foldl_setOutRaw_has (b : Bool) (f : Name → Name) (L : List Name) (c : Circuit) (m : Name) :
    (L.foldl (fun acc n => acc.setOutRaw (f n) b) c).has m = c.has m := by
  induction L generalizing c with
  | nil => rfl
  | cons x L ih => simp only [List.foldl_cons]; rw [ih, setOutRaw_has]

theorem foldl_setTyRaw_bbs (t : String) (f : Name → Name) (L : List Name) (c : Circuit) :
    (L.foldl (fun acc n => acc.setTyRaw (f n) t) c).bbs = c.bbs := by
  induction L generalizing c with
  | nil => rfl
  | cons x L ih => simp only [List.foldl_cons]; rw [ih, setTyRaw_bbs]

theorem foldl_setOutRaw_bbs (b : Bool) (f : Name → Name) (L : List Name) (c : Circuit) :
    (L.foldl (fun acc n => acc.setOutRaw (f n) b) c).bbs = c.bbs := by
  induction L generalizing c with
  | nil => rfl
  | cons x L ih => simp only [List.foldl_cons]; rw [ih, setOutRaw_bbs]

theorem foldl_addEdge_map_nodes (f : Name → Name) (l : List (Name × Name)) (c : Circuit) :
    (l.foldl (fun acc e => acc.addEdge (f e.1) (f e.2)) c).nodes = c.nodes := by
  induction l generalizing c with
  | nil => rfl
  | cons x l ih => simp only [List.foldl_cons]; rw [ih, addEdge_nodes]

theorem relabelCopy_has (sc : Circuit) (f : Name → Name) (m : Name) (h : (sc.relabelCopy f).has m = true) :
    ∃ n, sc.has n = true ∧ m = f n := by
  unfold relabelCopy at h
  simp only [] at h
  rw [has_congr (foldl_addEdge_map_nodes f _ _)] at h
  have e : sc.nodes.foldl (fun acc p => acc.addNodeAttr (f p.1) p.2) ({ name := sc.name, bbs := sc.bbs } : Circuit) =
      (sc.nodes.map (fun p => (f p.1, p.2))).foldl (fun acc p => acc.addNodeAttr p.1 p.2)
        ({ name := sc.name, bbs := sc.bbs } : Circuit) := by
    rw [List.foldl_map]
  rw [e, foldl_addNodeAttr_has'] at h
  have h0 : ({ name := sc.name, bbs := sc.bbs } : Circuit).has m = false := by simp [Circuit.has]
  rw [h0, Bool.false_or, List.contains_iff_mem, List.map_map] at h
  obtain ⟨p, hp, e⟩ := List.mem_map.1 h
  exact ⟨p.1, (has_iff_mem sc p.1).2 (List.mem_map.2 ⟨p, hp, rfl⟩), e.symm⟩

theorem NoDots.addSub {P sc P' : Circuit} (hP : NoDots P) (hsc : NoDots sc) {name : Name} (hname : hasDot name = false)
    {conns : List (Name × List Name)} (hr : liftO (P.addSubcircuit sc name conns) = .ok P') : NoDots P' := by
  obtain ⟨_, _, _, _, hca⟩ := addSub_unfold (liftO_ok_inv hr)
  obtain ⟨hnodes, hbbs, _⟩ := connectAll_ok _ _ _ hca
  have hpre_bbs : (subPre P sc name).bbs = P.bbs := by
    unfold subPre
    rw [hsc.bbs, List.foldl_nil, foldl_setOutRaw_bbs, foldl_setTyRaw_bbs, graphUpdate_bbs]
  have hpre_has : ∀ m, (subPre P sc name).has m = true → P.has m = true ∨ ∃ n, sc.has n = true ∧ m = pref name n := by
    intro m hm
    unfold subPre at hm
    rw [hsc.bbs, List.foldl_nil, foldl_setOutRaw_has, foldl_setTyRaw_has, graphUpdate_has, Bool.or_eq_true] at hm
    rcases hm with hm | hm
    · exact Or.inl hm
    · exact Or.inr (relabelCopy_has sc _ m hm)
  refine ⟨by rw [hbbs, hpre_bbs]; exact hP.bbs, fun g hg => ?_⟩
  rw [has_congr hnodes] at hg
  rcases hpre_has g hg with h1 | ⟨n, hn, rfl⟩
  · exact hP.names g h1
  · rw [hasDot_pref, hname, hsc.names n hn]
    rfl

/-! ### relabel / remove -/

theorem relabelOne_frame (c : Circuit) (old new : Name) :
    (c.relabelOne old new).bbs = c.bbs ∧ ∀ m, (c.relabelOne old new).has m = true → c.has m = true ∨ m = new := by
  unfold relabelOne
  cases c.attr? old with
  | none => exact ⟨rfl, fun _ h => Or.inl h⟩
  | some a =>
    simp only []
    have hadd : ∀ m, (c.addNodeAttr new a).has m = true → c.has m = true ∨ m = new := by
      intro m hm
      rw [addNodeAttr_has, Bool.or_eq_true] at hm
      rcases hm with hm | hm
      · exact Or.inl hm
      · exact Or.inr (by simpa using hm)
    split
    · exact ⟨addNodeAttr_bbs c new a, hadd⟩
    · refine ⟨by rw [foldl_addEdge_bbs, removeNode_bbs, addNodeAttr_bbs], fun m hm => ?_⟩
      rw [has_congr (foldl_addEdge_nodes _ _), removeNode_has, Bool.and_eq_true] at hm
      exact hadd m hm.1

theorem NoDots.relabel {c : Circuit} (h : NoDots c) (m : List (Name × Name)) (hm : ∀ p ∈ m, hasDot p.2 = false) :
    NoDots (c.relabel m) := by
  unfold Circuit.relabel
  simp only []
  generalize c.nodeNames.filter (fun n => (m.lookup n).isSome) = olds
  induction olds generalizing c with
  | nil => exact h
  | cons o olds ih =>
    simp only [List.foldl_cons]
    apply ih
    cases hl : m.lookup o with
    | none => exact h
    | some n =>
      simp only []
      obtain ⟨f1, f2⟩ := relabelOne_frame c o n
      refine ⟨f1.trans h.bbs, fun g hg => ?_⟩
      rcases f2 g hg with h1 | rfl
      · exact h.names g h1
      · exact hm (o, g) (lookup_mem hl)

theorem NoDots.remove {c : Circuit} (h : NoDots c) (ns : List Name) : NoDots (c.remove ns) := by
  unfold Circuit.remove
  induction ns generalizing c with
  | nil => exact h
  | cons n ns ih =>
    simp only [List.foldl_cons]
    apply ih
    exact h.of_sub (removeNode_bbs c n) (fun g hg => by
      rw [removeNode_has, Bool.and_eq_true] at hg
      exact hg.1)

/-- closes goals `hasDot (lit ++ toString i ++ …) = false` -/
syntax "nodot" : tactic
macro_rules
  | `(tactic| nodot) => `(tactic|
      first
        | decide
        | (simp only [hasDot_append, hasDot_toString, hasDot_pref, Bool.or_false, Bool.false_or] <;> decide))

end LintLink
end CG
