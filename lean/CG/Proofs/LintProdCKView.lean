/- helper lemmas for C20 (sensitivity_transform passes lint): `LintClean` read off a kind view (`Sens.KView`);
   the node types of the generated popcount circuit -/
import CG.Proofs.LintProdCBase
set_option linter.unusedSimpArgs false
set_option linter.unusedVariables false
namespace CG
namespace LintProd
open Circuit Miter

section kview
variable {κ : Type} {c : Circuit} {KL : List κ} {name : κ → Name} {ty : κ → String} {fi : κ → List κ}

/-- a circuit described kind by kind is lint-clean when every kind is legally wired, no kind is a `bb_output` and no
    driver is a `bb_input` -/
theorem kview_lintClean (V : Sens.KView c KL name ty fi)
    (htyped : ∀ k ∈ KL, ty k ∈ Expected.supported_types)
    (hsrc : ∀ k ∈ KL, ty k ∈ sourceTypes → fi k = [])
    (hsingle : ∀ k ∈ KL, ty k ∈ singleTypes → (fi k).length = 1)
    (hmulti : ∀ k ∈ KL, ty k ∈ multiTypes → 1 ≤ (fi k).length)
    (hbbo : ∀ k ∈ KL, ty k ≠ "bb_output")
    (hbbi : ∀ k ∈ KL, ∀ k' ∈ fi k, ty k' ≠ "bb_input") : LintClean c := by
  have kind : ∀ x t, c.ty? x = some t → ∃ k ∈ KL, name k = x ∧ ty k = t := by
    intro x t hty
    obtain ⟨k, hk, e⟩ := (V.has_iff _).1 (has_of_ty? hty)
    subst e
    rw [V.tys k hk] at hty
    injection hty with hty
    exact ⟨k, hk, rfl, hty⟩
  refine { toWF := V.wf, typed := ?_, noFanin := ?_, single := ?_, multi := ?_, bbOut := ?_, noBBInFanout := ?_ }
  · intro p hp
    have hx : c.has p.1 = true := (has_iff_mem c p.1).2 (List.mem_map.2 ⟨p, hp, rfl⟩)
    obtain ⟨k, hk, e⟩ := (V.has_iff _).1 hx
    have hty := V.tys k hk
    rw [e, ty?, attr?_of_mem V.wf.nodup (a := p.2) hp] at hty
    exact ⟨ty k, hty, htyped k hk⟩
  · intro x t hty hs
    obtain ⟨k, hk, rfl, rfl⟩ := kind x t hty
    apply List.eq_nil_of_length_eq_zero
    rw [(V.fanin_perm hk).length_eq, List.length_map, hsrc k hk hs]
    rfl
  · intro x t hty hs
    obtain ⟨k, hk, rfl, rfl⟩ := kind x t hty
    rw [(V.fanin_perm hk).length_eq, List.length_map]
    exact hsingle k hk hs
  · intro x t hty hs
    obtain ⟨k, hk, rfl, rfl⟩ := kind x t hty
    rw [(V.fanin_perm hk).length_eq, List.length_map]
    exact hmulti k hk hs
  · intro e he hty
    obtain ⟨k, hk, k', hk', rfl⟩ := (V.edges e).1 he
    have hk'' := V.fiKL k hk k' hk'
    simp only [] at hty
    rw [V.tys k' hk''] at hty
    injection hty with hty
    exact absurd hty (hbbo k' hk'')
  · intro e he hty
    obtain ⟨k, hk, k', hk', rfl⟩ := (V.edges e).1 he
    have hk'' := V.fiKL k hk k' hk'
    simp only [] at hty
    rw [V.tys k' hk''] at hty
    injection hty with hty
    exact hbbi k hk k' hk' hty

end kview

/-! ### the popcount generator only uses plain gate types -/

open Logic Arith Limit in
theorem popcount_types (w : Nat) (hw : 1 ≤ w) {c : Circuit} (h : popcount w = .ok c) :
    ∀ p ∈ c.nodes, ∀ t, p.2.ty = some t → t ∈ genTypes := by
  obtain ⟨ci, c0, ei, e0, h0⟩ := popcount_init w
  obtain ⟨c1, p0, i1, e1, h1⟩ := popcountLoop_ok (w + 1) c0 _ 0 h0 (by simpa using hw) (by simp)
  obtain ⟨c2, e2, I⟩ := outLoop_ok h1 p0.length (Nat.le_refl _)
  have hwf1 := wf_of_inv h1.inv
  have t2 : ∀ p ∈ c2.nodes, ∀ t, p.2.ty = some t → t ∈ genTypes := by
    intro p hp t hty
    rw [I.nodes] at hp
    rcases List.mem_append.1 hp with hp | hp
    · apply h1.plain p.1 t
      rw [ty?, attr?_of_mem hwf1.nodup (a := p.2) hp]
      exact hty
    · obtain ⟨j, _, rfl⟩ := List.mem_map.1 hp
      simp only [outNode] at hty
      injection hty with hty
      subst hty
      decide
  by_cases hno : (c2.fanout "tie0").isEmpty = true
  · have hrun : popcount w = .ok (c2.remove ["tie0"]) := by
      unfold popcount
      rw [ei, Arith.bind_ok, e0, Arith.bind_ok, e1, Arith.bind_ok]
      simp only []
      rw [e2, Arith.bind_ok, if_pos hno]
      rfl
    rw [hrun] at h
    injection h with h
    subst h
    intro p hp
    have hrm : c2.remove ["tie0"] = c2.removeNode "tie0" := rfl
    rw [hrm] at hp
    unfold removeNode at hp
    exact t2 p (List.mem_filter.1 hp).1
  · have hrun : popcount w = .ok c2 := by
      unfold popcount
      rw [ei, Arith.bind_ok, e0, Arith.bind_ok, e1, Arith.bind_ok]
      simp only []
      rw [e2, Arith.bind_ok, if_neg hno]
      rfl
    rw [hrun] at h
    injection h with h
    subst h
    exact t2

theorem genTypes_nobb {t : String} (h : t ∈ Arith.genTypes) : t ≠ "bb_input" ∧ t ≠ "bb_output" := by
  constructor <;> (rintro rfl; revert h; decide)

end LintProd
end CG
