/- C10 helper: the companion table, the main loop of `ternary`, and what the final state looks like -/
import CG.Proofs.TernaryNode
namespace CG
namespace Ternary
open Circuit

/-! ### the companion table -/

/-- the companion of `n` as computed by `uid` -/
def gOf (c : Circuit) (n : Name) : Name := (c.uid (n ++ "_X")).getD ""

def mappingOf (c : Circuit) : List (Name × Name) := c.nodeNames.map (fun n => (n, gOf c n))

/-- the lookup function the statements of C10 use -/
def mpOf (c : Circuit) : Name → Name := fun n => ((mappingOf c).lookup n).getD ""

theorem uid_gOf (c : Circuit) (n : Name) : c.uid (n ++ "_X") = some (gOf c n) := by
  have := Limit.uid_isSome c (n ++ "_X") []
  unfold gOf
  cases h : c.uid (n ++ "_X") with
  | none => rw [h] at this; cases this
  | some r => rfl

theorem mapM_mapping (c : Circuit) : ∀ (l : List Name),
    l.mapM (fun n => (uidE c (n ++ "_X")).map (fun x => (n, x))) = .ok (l.map (fun n => (n, gOf c n)))
  | [] => rfl
  | n :: l => by
    rw [List.mapM_cons, mapM_mapping c l]
    unfold uidE
    rw [uid_gOf]
    rfl

theorem ternaryMapping_eq (c : Circuit) : Tx.ternaryMapping c = .ok (mappingOf c) := mapM_mapping c _

theorem lookup_map_self {β : Type} (g : Name → β) : ∀ (l : List Name) (n : Name), n ∈ l →
    (l.map (fun n => (n, g n))).lookup n = some (g n)
  | [], _, h => nomatch h
  | m :: l, n, h => by
    rw [List.map_cons, List.lookup_cons]
    by_cases e : n = m
    · subst e; simp
    · have : (n == m) = false := by simpa using e
      rw [this]
      rcases List.mem_cons.mp h with h | h
      · exact absurd h e
      · exact lookup_map_self g l n h

theorem mpOf_eq {c : Circuit} {n : Name} (h : c.has n = true) : mpOf c n = gOf c n := by
  unfold mpOf mappingOf
  rw [lookup_map_self (gOf c) _ n ((has_iff_mem c n).mp h)]
  rfl

theorem mapOK_mpOf (c : Circuit) : MapOK c (mpOf c) := by
  intro n hn
  rw [mpOf_eq hn]; exact uid_gOf c n

/-! ### the main loop -/

structure TInv (c : Circuit) (mp : Name → Name) (done todo : List Name) (t : Circuit) : Prop where
  w : W c mp t
  keep : Frame c t (fun _ => False) (fun y => c.has y = false)
  clean : ∀ m ∈ todo, ∀ e ∈ t.edges, e.2 ≠ mp m
  done : ∀ m ∈ done, NodeDone c mp t m

variable {c : Circuit} {mp : Name → Name}

theorem tinv_init (g : GoodC c) (hm : MapOK c mp) : TInv c mp [] c.nodeNames c where
  w := ⟨g.clean.nodup, g.clean.edgesNodup, g.clean.closed,
    fun x hx => by obtain ⟨ty, h, _⟩ := g.ty hx; exact ⟨ty, h, g.ty_ok h⟩, fun _ h => Or.inl h⟩
  keep := Frame.refl _ _ _
  clean := by
    intro m hm' e he h
    have := (g.clean.closed e he).2
    rw [h, hm.fresh ((has_iff_mem c m).mpr hm')] at this
    cases this
  done := fun _ h => nomatch h

theorem main_loop (g : GoodC c) (hm : MapOK c mp) {ord : Ord} (hord : OrdOK ord) :
    ∀ (todo done : List Name) (t : Circuit), (∀ m ∈ done ++ todo, c.has m = true) → (done ++ todo).Nodup →
      TInv c mp done todo t →
      ∃ t', todo.foldlM (Tx.ternaryNode c ord mp) t = .ok t' ∧ TInv c mp (done ++ todo) [] t'
  | [], done, t, _, _, inv => ⟨t, rfl, by rw [List.append_nil]; exact inv⟩
  | n :: todo, done, t, hall, hnd, inv => by
    have hn : c.has n = true := hall n (by simp)
    have hsub : ∀ x, c.has x = true → t.has x = true := inv.keep.has
    obtain ⟨t1, e1, hW1, hf, hd⟩ := node_step g hm hord inv.w hsub hn (inv.clean n (by simp))
    have hnd' : (done ++ [n] ++ todo).Nodup := by rw [List.append_assoc]; exact hnd
    have hne : ∀ m, m ∈ done ∨ m ∈ todo → m ≠ n := by
      intro m hm' e
      subst e
      rw [List.nodup_append] at hnd
      rcases hm' with h | h
      · exact hnd.2.2 m h m (by simp) rfl
      · exact (List.nodup_cons.mp hnd.2.1).1 h
    have hS : ∀ m, c.has m = true → m ≠ n → t.has (mp m) = true → ¬ S mp t n (mp m) := by
      intro m hmc hmn hmt hs
      rcases hs with hs | hs
      · exact hmn (hm.inj hmc hn hs)
      · exact not_newH hmt hs
    have inv1 : TInv c mp (done ++ [n]) todo t1 := by
      refine ⟨hW1, ?_, ?_, ?_⟩
      · refine inv.keep.trans' hf ?_ ?_
        · intro x hx hs
          rcases hs with hs | hs
          · have := hm.fresh hn; rw [← hs, hx] at this; cases this
          · exact not_newH (hsub x hx) hs
        · intro x hs
          rcases hs with hs | hs
          · rw [hs]; exact hm.fresh hn
          · cases hcx : c.has x with
            | false => rfl
            | true => exact absurd hs (not_newH (hsub x hcx))
      · intro m hm' e he
        have hmc : c.has m = true := hall m (by simp [hm'])
        rcases hf.new e he with h | h
        · exact inv.clean m (by simp [hm']) e h
        · intro heq
          rw [heq] at h
          rcases h with h | h
          · exact hne m (Or.inr hm') (hm.inj hmc hn h)
          · exact comp_not_helper (hm.comp hmc) h.2
      · intro m hm'
        rcases List.mem_append.mp hm' with h | h
        · have hmc : c.has m = true := hall m (by simp [h])
          have hd0 := inv.done m h
          have hns := hS m hmc (hne m (Or.inl h)) (nodeDone_has hd0)
          refine nodeDone_stable hf ?_ hns hns hd0
          intro y hy hyh
          have : ¬ S mp t n y := by
            rintro (hs | hs)
            · exact hm.ne_helper hn hyh hs
            · exact not_newH hy hs
          exact ⟨this, this⟩
        · rw [List.mem_singleton] at h; subst h; exact hd
    obtain ⟨t', e2, inv'⟩ := main_loop g hm hord todo (done ++ [n]) t1
      (by intro m hm'; apply hall; simpa using hm') hnd' inv1
    refine ⟨t', ?_, ?_⟩
    · rw [List.foldlM_cons, e1]; exact e2
    · rw [List.append_assoc] at inv'; exact inv'

/-- `ternary` succeeds on a good circuit; the final state satisfies the invariant with every node done -/
theorem ternary_run (g : GoodC c) (hbb : c.bbs = []) {ord : Ord} (hord : OrdOK ord) :
    ∃ t, Tx.ternary c ord = .ok (t, mappingOf c) ∧ TInv c (mpOf c) c.nodeNames [] t := by
  obtain ⟨t, e, inv⟩ := main_loop g (mapOK_mpOf c) hord c.nodeNames [] c
    (fun m hm' => (has_iff_mem c m).mpr (by simpa using hm')) (by simpa using g.clean.nodup)
    (tinv_init g (mapOK_mpOf c))
  refine ⟨t, ?_, by simpa using inv⟩
  unfold Tx.ternary
  rw [hbb, ternaryMapping_eq, ok_bind]
  simp only [List.isEmpty_nil, Bool.not_true, Bool.false_eq_true, if_false]
  show (c.nodeNames.foldlM (Tx.ternaryNode c ord (mpOf c)) c >>= fun t => pure (t, mappingOf c)) = _
  rw [e]
  rfl

/-! ### consequences for the final state -/

theorem final_contains {t : Circuit} (g : GoodC c) (inv : TInv c mp c.nodeNames [] t) {n : Name}
    (hn : c.has n = true) : t.attr? n = c.attr? n ∧ (t.fanin n).Perm (c.fanin n) := by
  refine ⟨inv.keep.attr n hn (fun h => h), ?_⟩
  rw [List.perm_ext_iff_of_nodup (fanin_nodup inv.w.nodupE n) (fanin_nodup g.clean.edgesNodup n)]
  intro u
  rw [mem_fanin, mem_fanin]
  exact inv.keep.edge (by simp [hn]) u

theorem final_has_comp {t : Circuit} (inv : TInv c mp c.nodeNames [] t) {n : Name} (hn : c.has n = true) :
    t.has (mp n) = true := nodeDone_has (inv.done n ((has_iff_mem c n).mp hn))

end Ternary
end CG
