/- C09 (sequential_unroll with a per-flop initial-value dict): the call is the call without initial values followed by
   the `set_type` loop over the dict -/
import CG.Proofs.UnrollSeqSem
set_option linter.unusedSimpArgs false
set_option linter.unusedVariables false
namespace CG
namespace USD
open Circuit Unroll USS

/-- body of the `set_type(io_map[inst_q][0], value)` loop over the dict -/
def dictStep (m : List (Name × List Name)) (qPort : Name) (uc : Circuit) (kv : Name × String) : E Circuit :=
  match m.lookup (kv.1 ++ "_" ++ qPort) with
  | some (x :: _) => liftO (uc.setType [x] kv.2)
  | some [] => .error .indexError
  | none => .error .keyError

theorem seq_dict_eq (c : Circuit) (n : Nat) (d q : Name) (ig : List Name) (afo : Bool) (dict : List (Name × String))
    (ru : Bool) (pfx : String) (ord : Ord) :
    Tx.sequentialUnroll c n d q ig afo none dict ru pfx ord =
      Tx.sequentialUnroll c n d q ig afo none [] ru pfx ord >>= fun r0 =>
        dict.foldlM (dictStep r0.2 q) r0.1 >>= fun uc => pure (uc, r0.2) := by
  unfold Tx.sequentialUnroll
  cases Tx.stripBlackboxes c ig ord with
  | error e => rfl
  | ok cs0 =>
    simp only [Except.bind, bind, pure, Except.pure]
    repeat' (first | rfl | split)

/-- the call with a dict, read off: the call without initial values succeeded, then the `set_type` loop did -/
theorem seq_dict_unfold {c : Circuit} {n : Nat} {d q : Name} {ig : List Name} {afo : Bool} {dict : List (Name × String)}
    {ru : Bool} {pfx : String} {ord : Ord} {uc : Circuit} {ioMap : List (Name × List Name)}
    (h : Tx.sequentialUnroll c n d q ig afo none dict ru pfx ord = .ok (uc, ioMap)) :
    ∃ r0, Tx.sequentialUnroll c n d q ig afo none [] ru pfx ord = .ok r0 ∧
      dict.foldlM (dictStep r0.2 q) r0.1 = .ok uc ∧ ioMap = r0.2 := by
  rw [seq_dict_eq] at h
  obtain ⟨r0, h0, h⟩ := bind_ok h
  obtain ⟨uc', h1, h⟩ := bind_ok h
  injection h with h
  injection h with ha hb
  subst ha
  exact ⟨r0, h0, h1, hb.symm⟩

theorem ioName_of_lookup {m : List (Name × List Name)} {k x : Name} {rest : List Name}
    (hl : m.lookup k = some (x :: rest)) : Tx.ioName m k 0 = x := by
  unfold Tx.ioName
  rw [hl]
  rfl

/-- the `set_type` loop over the dict, with its frame: every node keeps its type or is the step-0 state input of a listed
    flop, retyped to that flop's value -/
theorem dictPhase (m : List (Name × List Name)) (q : Name) : ∀ (dict : List (Name × String)) (P uc : Circuit),
    dict.foldlM (dictStep m q) P = .ok uc →
    uc.edges = P.edges ∧ uc.nodeNames = P.nodeNames ∧
    (∀ x, uc.ty? x = P.ty? x ∨ ∃ kv ∈ dict, uc.ty? x = some kv.2 ∧ x = Tx.ioName m (kv.1 ++ "_" ++ q) 0)
  | [], P, uc, h => by
    rw [foldlM_nil_ok _ _ _ h]
    exact ⟨rfl, rfl, fun _ => Or.inl rfl⟩
  | kv :: dict, P, uc, h => by
    obtain ⟨c1, h1, h2⟩ := foldlM_cons_ok _ _ _ _ _ h
    unfold dictStep at h1
    split at h1
    · rename_i x rest hl
      obtain ⟨hx, e⟩ := setType1_ok (liftO_ok h1)
      subst e
      obtain ⟨b1, b2, b3⟩ := dictPhase m q dict _ uc h2
      refine ⟨b1, by rw [b2, setTyRaw_nodeNames], ?_⟩
      intro y
      rcases b3 y with h3 | ⟨kv', hkv', h3, e⟩
      · rw [setTyRaw_ty?] at h3
        by_cases hy : y = x ∧ P.has x = true
        · rw [if_pos hy] at h3
          exact Or.inr ⟨kv, List.mem_cons_self, h3, by rw [ioName_of_lookup hl]; exact hy.1⟩
        · rw [if_neg hy] at h3
          exact Or.inl h3
      · exact Or.inr ⟨kv', List.mem_cons_of_mem _ hkv', h3, e⟩
    · cases h1
    · cases h1

/-- with distinct target nodes for distinct keys, every listed flop's step-0 state input ends up with its value -/
theorem dictPhase_set (m : List (Name × List Name)) (q : Name) : ∀ (dict : List (Name × String)) (P uc : Circuit),
    dict.foldlM (dictStep m q) P = .ok uc → (dict.map (·.1)).Nodup →
    (∀ kv ∈ dict, ∀ kv' ∈ dict, Tx.ioName m (kv.1 ++ "_" ++ q) 0 = Tx.ioName m (kv'.1 ++ "_" ++ q) 0 → kv.1 = kv'.1) →
    ∀ kv ∈ dict, uc.ty? (Tx.ioName m (kv.1 ++ "_" ++ q) 0) = some kv.2
  | [], P, uc, h, _, _ => fun kv hkv => by cases hkv
  | kv0 :: dict, P, uc, h, hnd, hinj => by
    obtain ⟨c1, h1, h2⟩ := foldlM_cons_ok _ _ _ _ _ h
    rw [List.map_cons, List.nodup_cons] at hnd
    have ih := dictPhase_set m q dict c1 uc h2 hnd.2
      (fun a ha b hb => hinj a (List.mem_cons_of_mem _ ha) b (List.mem_cons_of_mem _ hb))
    intro kv hkv
    rcases List.mem_cons.1 hkv with rfl | hkv'
    · unfold dictStep at h1
      split at h1
      · rename_i x rest hl
        obtain ⟨hx, e⟩ := setType1_ok (liftO_ok h1)
        subst e
        obtain ⟨_, _, b3⟩ := dictPhase m q dict _ uc h2
        rcases b3 (Tx.ioName m (kv.1 ++ "_" ++ q) 0) with h3 | ⟨kv', hkv', _, e⟩
        · rw [h3, setTyRaw_ty?, if_pos ⟨ioName_of_lookup hl, hx⟩]
        · exfalso
          apply hnd.1
          rw [hinj kv List.mem_cons_self kv' (List.mem_cons_of_mem _ hkv') e]
          exact List.mem_map.2 ⟨kv', hkv', rfl⟩
      · cases h1
      · cases h1
    · exact ih kv hkv'

theorem setType1_mk {c : Circuit} {y t : String} (ht : t = "0" ∨ t = "1") (hy : c.has y = true) :
    c.setType [y] t = (c.setTyRaw y t, .ok) := by
  have ha : (!T.addable.contains t) = false := by
    rcases ht with rfl | rfl <;> decide
  unfold Circuit.setType
  rw [ha]
  simp only [Bool.false_eq_true, if_false, Circuit.setType.go, hy, if_true]

/-- the loop succeeds when every key names a non-empty io-map entry whose first node exists -/
theorem dict_ok (m : List (Name × List Name)) (q : Name) : ∀ (dict : List (Name × String)) (P : Circuit),
    (∀ kv ∈ dict, ∃ x rest, m.lookup (kv.1 ++ "_" ++ q) = some (x :: rest) ∧ P.has x = true) →
    (∀ kv ∈ dict, kv.2 = "0" ∨ kv.2 = "1") →
    ∃ uc, dict.foldlM (dictStep m q) P = .ok uc
  | [], P, _, _ => ⟨P, rfl⟩
  | kv :: dict, P, hk, hv => by
    obtain ⟨x, rest, hl, hx⟩ := hk kv List.mem_cons_self
    have h1 : dictStep m q P kv = .ok (P.setTyRaw x kv.2) := by
      unfold dictStep
      rw [hl]
      simp only []
      rw [setType1_mk (hv kv List.mem_cons_self) hx]
      rfl
    obtain ⟨uc, h2⟩ := dict_ok m q dict (P.setTyRaw x kv.2)
      (fun kv' hkv' => by
        obtain ⟨x', rest', hl', hx'⟩ := hk kv' (List.mem_cons_of_mem _ hkv')
        exact ⟨x', rest', hl', by rw [setTyRaw_has]; exact hx'⟩)
      (fun kv' hkv' => hv kv' (List.mem_cons_of_mem _ hkv'))
    exact ⟨uc, by rw [List.foldlM_cons, h1]; exact h2⟩

end USD
end CG
