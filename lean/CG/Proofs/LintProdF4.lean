/- C20 (second half, Verilog readers): netlists of the restricted subset without floating wires — basic facts about the
   specification circuit `FV.Spec` both readers build -/
import CG.Proofs.Fast
import CG.Proofs.LintLinkSame
set_option linter.unusedSimpArgs false
set_option linter.unusedVariables false
namespace CG
namespace LintProdFV
open Circuit FV

/-- the names a constant node may have -/
def tieNames : List Name := ["tie0", "tie1", "tie_0", "tie_1", "tie_x"]

/-- no floating wires: every net a statement reads is an input or driven, and every input pin of every blackbox instance
    is connected (helper-level form of `C20.NoFloating`) -/
structure Driven (r : RMod) (bbs : List BBox) : Prop where
  uses : ∀ s ∈ r.stmts, ∀ n ∈ s.uses bbs, n ∈ r.inputs ∨ n ∈ r.stmts.flatMap (RStmt.defs bbs)
  pins : ∀ ty inst pins, RStmt.bb ty inst pins ∈ r.stmts → ∀ d, bbs.find? (fun b => b.name == ty) = some d →
    ∀ g ∈ d.ins, ∃ o, (g, some o) ∈ pins

theorem nodup_of_mem_flatMap {α β : Type} {f : α → List β} : ∀ {l : List α}, (l.flatMap f).Nodup → ∀ {a : α}, a ∈ l →
    (f a).Nodup
  | [], _, _, ha => nomatch ha
  | c :: l, h, a, ha => by
    rw [List.flatMap_cons, List.nodup_append] at h
    rcases List.mem_cons.1 ha with rfl | ha'
    · exact h.1
    · exact nodup_of_mem_flatMap h.2.1 ha'

theorem eq_of_keys_nodup {α β : Type} : ∀ {l : List (α × β)}, (l.map (·.1)).Nodup → ∀ {k : α} {x y : β},
    (k, x) ∈ l → (k, y) ∈ l → x = y
  | [], _, _, _, _, hx, _ => nomatch hx
  | p :: l, h, k, x, y, hx, hy => by
    rw [List.map_cons, List.nodup_cons] at h
    rcases List.mem_cons.1 hx with rfl | hx' <;> rcases List.mem_cons.1 hy with e | hy'
    · exact ((Prod.mk.inj e).2).symm
    · exact absurd (List.mem_map.2 ⟨(k, y), hy', rfl⟩) h.1
    · rw [← e] at h; exact absurd (List.mem_map.2 ⟨(k, x), hx', rfl⟩) h.1
    · exact eq_of_keys_nodup h.2 hx' hy'

theorem singleton_of {l : List Name} {a : Name} (hnd : l.Nodup) (h : ∀ u, u ∈ l ↔ u = a) : l = [a] := by
  have hp : l.Perm [a] := (List.perm_ext_iff_of_nodup hnd (by simp)).mpr (by simpa using h)
  exact List.perm_singleton.mp hp

theorem length_le_one_of {l : List Name} {a : Name} (hnd : l.Nodup) (h : ∀ u ∈ l, u = a) : l.length ≤ 1 := by
  match l, hnd, h with
  | [], _, _ => simp
  | [x], _, _ => simp
  | x :: y :: l, hnd, h =>
    exfalso
    rw [List.nodup_cons] at hnd
    exact hnd.1 (by rw [h x (by simp), h y (by simp)]; simp)

section
variable {r : RMod} {bbs : List BBox} {t0 t1 : Name} {c : Circuit}

/-! ### types of the nodes -/

theorem view_of_ty {n : Name} {t : String} (h : c.ty? n = some t) : ∃ b, view c n = some (some t, b) := by
  unfold Circuit.ty? at h
  cases ha : c.attr? n with
  | none => rw [ha] at h; cases h
  | some a =>
    rw [ha] at h
    refine ⟨a.out.getD false, ?_⟩
    unfold view; rw [ha]; simp only [Option.map_some]; rw [show a.ty = some t from h]

theorem ty_of_view {n : Name} {t : String} {b : Bool} (h : view c n = some (some t, b)) : c.ty? n = some t := by
  unfold view at h
  unfold Circuit.ty?
  cases ha : c.attr? n with
  | none => rw [ha] at h; cases h
  | some a =>
    rw [ha] at h
    simp only [Option.map_some, Option.some.injEq, Prod.mk.injEq] at h
    simp only [Option.bind_some]
    exact h.1

theorem no_floating (h : Restricted r bbs) (hd : Driven r bbs) (n : Name) : ¬ Floating bbs r.inputs r.stmts n := by
  rintro ⟨⟨s, hs, b, hb⟩, hnd⟩
  rcases edge_src (h.stmts s hs) hb with e | e | ⟨m, e, hu, _⟩ | ⟨m, e, hdt⟩
  · cases e
  · cases e
  · injection e with e; subst e
    obtain ⟨t, ht⟩ := h.def_of_mem_defs (hd.uses s hs _ hu)
    exact hnd t ht
  · injection e with e; subst e
    exact hnd _ (Or.inr ⟨s, hs, hdt⟩)

theorem ty_cases (h : Restricted r bbs) (hd : Driven r bbs) (hs : Spec r bbs t0 t1 c) {n : Name} {t : String}
    (ht : c.ty? n = some t) :
    DefTy bbs r.inputs r.stmts n t ∨ (n = t0 ∧ t = "0") ∨ (n = t1 ∧ t = "1") := by
  obtain ⟨b, hv⟩ := view_of_ty ht
  rcases (hs.node _ _).1 hv with ⟨t', ht', e⟩ | ⟨hn, e, _⟩ | ⟨hn, e, _⟩ | ⟨hf, _⟩
  · injection e with e1 _; injection e1 with e1; subst e1
    exact Or.inl ht'
  · injection e with e1 _; injection e1 with e1
    exact Or.inr (Or.inl ⟨hn, e1⟩)
  · injection e with e1 _; injection e1 with e1
    exact Or.inr (Or.inr ⟨hn, e1⟩)
  · exact absurd hf (no_floating h hd n)

theorem ty_of_defTy (hs : Spec r bbs t0 t1 c) {n : Name} {t : String} (hd : DefTy bbs r.inputs r.stmts n t) :
    c.ty? n = some t :=
  ty_of_view ((hs.node n (some t, decide (n ∈ r.outputs))).2 (Or.inl ⟨t, hd, rfl⟩))

/-! ### edges -/

/-- the target of an edge carries a gate type or is an input pin -/
theorem edge_tgt_ty {s : RStmt} (hok : s.OK bbs) {a : ROp} {b : Name} (h : s.edge bbs a b) :
    ∃ t, s.dty bbs b t ∧ (t ∈ Verilog.gateTypes ∨ t = "bb_input") := by
  cases s with
  | gate ty inst out ops => exact ⟨ty, ⟨h.2, rfl⟩, Or.inl hok.1⟩
  | assign l r => exact ⟨"buf", ⟨h.2, rfl⟩, Or.inl buf_gate⟩
  | bb ty inst pins =>
    obtain ⟨d, hd, p, o, hp, hc⟩ := h
    rcases hc with ⟨hpi, _, rfl⟩ | ⟨hpo, _, rfl⟩
    · exact ⟨"bb_input", ⟨d, hd, Or.inr (Or.inl ⟨p, hpi, rfl, rfl⟩)⟩, Or.inr rfl⟩
    · exact ⟨"buf", ⟨d, hd, Or.inl ⟨p, hp, hpo, rfl⟩⟩, Or.inl buf_gate⟩

theorem mem_fanin_spec (hs : Spec r bbs t0 t1 c) {u n : Name} :
    u ∈ c.fanin n ↔ ∃ s ∈ r.stmts, ∃ a, s.edge bbs a n ∧ u = a.nm t0 t1 := by
  rw [mem_fanin, hs.edges]
  constructor
  · rintro ⟨s, hm, a, b, he, e⟩
    injection e with e1 e2
    subst e2
    exact ⟨s, hm, a, he, e1⟩
  · rintro ⟨s, hm, a, he, e⟩
    exact ⟨s, hm, a, n, he, by rw [e]⟩

/-- the edges into a defined node come from the statement that defines it -/
theorem mem_fanin_stmt (h : Restricted r bbs) (hs : Spec r bbs t0 t1 c) {s : RStmt} (hm : s ∈ r.stmts) {n : Name}
    {t : String} (hdt : s.dty bbs n t) {u : Name} : u ∈ c.fanin n ↔ ∃ a, s.edge bbs a n ∧ u = a.nm t0 t1 := by
  rw [mem_fanin_spec hs]
  constructor
  · rintro ⟨s', hm', a, he, e⟩
    obtain ⟨t', ht'⟩ := edge_tgt he
    have := (RL.of_restricted h).same_stmt hm' hm ht' hdt
    subst this
    exact ⟨a, he, e⟩
  · rintro ⟨a, he, e⟩
    exact ⟨s, hm, a, he, e⟩

/-- a node that is the target of no statement's edge has no fan-in -/
theorem fanin_nil_spec (hs : Spec r bbs t0 t1 c) {n : Name} (hn : ∀ s ∈ r.stmts, ∀ a, ¬ s.edge bbs a n) :
    c.fanin n = [] := by
  cases hf : c.fanin n with
  | nil => rfl
  | cons u us =>
    obtain ⟨s, hm, a, he, _⟩ := (mem_fanin_spec hs (u := u) (n := n)).1 (by rw [hf]; exact List.mem_cons_self)
    exact absurd he (hn s hm a)

theorem tie_not_defTy (h : Restricted r bbs) {n : Name} (hn : n ∈ tieNames) {t : String} :
    ¬ DefTy bbs r.inputs r.stmts n t := fun hd => defTy_not_tie (RL.of_restricted h) hd hn

/-- the source of an edge whose name is the pin `inst.g` is the output pin of its instance -/
theorem src_pin (h : Restricted r bbs) (ht0 : t0 ∈ tieNames) (ht1 : t1 ∈ tieNames) {s : RStmt} (hm : s ∈ r.stmts)
    {a : ROp} {b : Name} (he : s.edge bbs a b) {inst g : Name} (hi : Plain inst) (e : a.nm t0 t1 = inst ++ "." ++ g) :
    a = .net (inst ++ "." ++ g) ∧ s.dty bbs (inst ++ "." ++ g) "bb_output" := by
  have hpt := pin_ne_ties hi g
  have hnt : ∀ x ∈ tieNames, x ≠ inst ++ "." ++ g := by
    intro x hx e
    simp only [tieNames, List.mem_cons, List.not_mem_nil, or_false] at hx
    rcases hx with rfl | rfl | rfl | rfl | rfl
    · exact hpt.1 e.symm
    · exact hpt.2.1 e.symm
    · exact hpt.2.2.1 e.symm
    · exact hpt.2.2.2.1 e.symm
    · exact hpt.2.2.2.2 e.symm
  rcases edge_src (h.stmts s hm) he with rfl | rfl | ⟨m, rfl, _, hp⟩ | ⟨m, rfl, hdt⟩
  · exact absurd e (hnt _ ht0)
  · exact absurd e (hnt _ ht1)
  · simp only [ROp.nm] at e
    exact absurd (e ▸ hp) (pin_not_plain inst g)
  · simp only [ROp.nm] at e
    subst e
    exact ⟨rfl, hdt⟩

end

end LintProdFV
end CG
