/- C09 (unroll): every linked sequence of consistent valuations is realised by the unrolled circuit -/
import CG.Proofs.UnrollMap
set_option linter.unusedSimpArgs false
set_option linter.unusedVariables false
namespace CG
namespace Unroll
open Circuit

section
variable {c : Circuit} {stateIO : List (Name × Name)} {pfx : String} {io : List Name}

/-- the valuation of the unrolled circuit built from the per-step valuations, as a table -/
def tbl (c : Circuit) (pfx : String) (io : List Name) (n : Nat) (w : Nat → Val) : List (Name × Bool) :=
  (List.range n).flatMap (fun t => io.map (fun x => (N c pfx x t, w t x)) ++ c.nodes.map (fun p => (U t p.1, w t p.1)))

def valOf (c : Circuit) (pfx : String) (io : List Name) (n : Nat) (w : Nat → Val) : Val :=
  fun y => ((tbl c pfx io n w).lookup y).getD false

theorem tbl_keys {n : Nat} {s : Tx.UState} (I : Inv c stateIO pfx io n s) (w : Nat → Val) :
    (tbl c pfx io n w).map (·.1) = s.1.nodeNames := by
  unfold nodeNames tbl
  rw [I.nodes, List.map_flatMap, List.map_flatMap]
  congr 1
  funext t
  unfold stepNodes
  simp only [List.map_append, List.map_map, Function.comp_def]

theorem valOf_N {n : Nat} {s : Tx.UState} (I : Inv c stateIO pfx io n s) (w : Nat → Val) {t : Nat} (ht : t < n)
    {x : Name} (hx : x ∈ io) : valOf c pfx io n w (N c pfx x t) = w t x := by
  unfold valOf
  have hnd : ((tbl c pfx io n w).map (·.1)).Nodup := by rw [tbl_keys I w]; exact I.wf.nodup
  have hm : (N c pfx x t, w t x) ∈ tbl c pfx io n w :=
    List.mem_flatMap.2 ⟨t, List.mem_range.2 ht, List.mem_append.2 (Or.inl (List.mem_map.2 ⟨x, hx, rfl⟩))⟩
  rw [lookup_of_mem_nodup hnd hm]
  rfl

theorem valOf_U {n : Nat} {s : Tx.UState} (I : Inv c stateIO pfx io n s) (w : Nat → Val) {t : Nat} (ht : t < n)
    {x : Name} (hx : c.has x = true) : valOf c pfx io n w (U t x) = w t x := by
  unfold valOf
  have hnd : ((tbl c pfx io n w).map (·.1)).Nodup := by rw [tbl_keys I w]; exact I.wf.nodup
  obtain ⟨a, ha⟩ := has_exists hx
  have hm : (U t x, w t x) ∈ tbl c pfx io n w :=
    List.mem_flatMap.2 ⟨t, List.mem_range.2 ht, List.mem_append.2 (Or.inr (List.mem_map.2 ⟨(x, a), ha, rfl⟩))⟩
  rw [lookup_of_mem_nodup hnd hm]
  rfl

theorem map_eq_singleton {α β} {f : α → β} {l : List α} {b : β} (h : l.map f = [b]) : ∃ a, l = [a] ∧ f a = b := by
  cases l with
  | nil => cases h
  | cons a r =>
    cases r with
    | nil =>
      simp only [List.map_cons, List.map_nil] at h
      injection h with h _
      exact ⟨a, rfl, h⟩
    | cons a' r' => simp at h

theorem Inv.complete (C : Ctx c stateIO io) (hio : ∀ x ∈ io, x ∉ c.inputs → c.has x = true) {n : Nat}
    {s : Tx.UState} (I : Inv c stateIO pfx io n s)
    (w : Nat → Val) (hw : ∀ t, t < n → Consistent c (w t))
    (hlink : ∀ t, t + 1 < n → ∀ p ∈ stateIO, w (t + 1) p.2 = w t p.1) :
    Consistent s.1 (valOf c pfx io n w) ∧ ∀ t, t < n → ∀ x, c.has x = true → valOf c pfx io n w (U t x) = w t x := by
  refine ⟨?_, fun t ht x hx => valOf_U I w ht hx⟩
  intro q hq t' hty
  obtain ⟨t, ht, h | h⟩ := (I.mem_nodes q.1 q.2).1 hq
  · -- an io node
    obtain ⟨x, hx, e1, e2⟩ := h
    rw [e2] at hty
    injection hty with hty
    rw [e1]
    rcases ioTy_cases c stateIO x t with hcase | hcase
    · rw [← hty, hcase]
      intro b hb
      rw [gateFn_input] at hb
      cases hb
    · rw [← hty, hcase]
      intro b hb
      obtain ⟨u, hu, hvu⟩ := map_eq_singleton (gateFn_buf hb)
      rw [valOf_N I w ht hx, ← hvu]
      by_cases hi : x ∈ c.inputs
      · by_cases hfree : t = 0 ∨ isVal stateIO x = false
        · rw [I.faninFree t ht x hi hfree] at hu
          cases hu
        · have ht0 : t ≠ 0 := fun e => hfree (Or.inl e)
          have hv : isVal stateIO x = true := by
            cases hh : isVal stateIO x with
            | true => rfl
            | false => exact absurd (Or.inr hh) hfree
          obtain ⟨p, hp, e⟩ := (isVal_iff stateIO x).1 hv
          obtain ⟨t0, rfl⟩ : ∃ t0, t = t0 + 1 := ⟨t - 1, by omega⟩
          subst e
          rw [I.faninVal t0 ht p hp] at hu
          injection hu with hu _
          rw [← hu, valOf_N I w (by omega) (C.keysIO p hp)]
          exact hlink t0 ht p hp
      · rw [I.faninOut t ht x hx hi] at hu
        injection hu with hu _
        rw [← hu, valOf_U I w ht (hio x hx hi)]
  · -- a node of the copy
    obtain ⟨p, hp, e1, e2⟩ := h
    rw [e2] at hty
    rw [e1]
    have hhas : c.has p.1 = true := has_of_mem_nodes (a := p.2) hp
    by_cases hin : p.2.ty = some "input"
    · rw [stripA_ty_input hin] at hty
      injection hty with hty
      rw [← hty]
      have hi : p.1 ∈ c.inputs := (mem_inputs_of_mem C.wf.nodup (n := p.1) (a := p.2) hp).2 hin
      intro b hb
      obtain ⟨u, hu, hvu⟩ := map_eq_singleton (gateFn_buf hb)
      rw [I.faninIn t ht p.1 hi] at hu
      injection hu with hu _
      rw [valOf_U I w ht hhas, ← hvu, ← hu, valOf_N I w ht (C.ioIn _ hi)]
    · have hty' : p.2.ty = some t' := by
        unfold stripA at hty
        simp only [if_neg hin] at hty
        exact hty
      have hni : p.1 ∉ c.inputs := fun hm => hin ((mem_inputs_of_mem C.wf.nodup (n := p.1) (a := p.2) hp).1 hm)
      intro b hb
      rw [I.faninCopy t ht p.1 hhas hni, gate_map_pref] at hb
      have hmap : (c.fanin p.1).map (fun m => valOf c pfx io n w (U t m)) = (c.fanin p.1).map (w t) := by
        apply List.map_congr_left
        intro u hu
        exact valOf_U I w ht (C.wf.closed _ (mem_fanin.1 hu)).1
      rw [hmap] at hb
      rw [valOf_U I w ht hhas]
      exact hw t ht p hp t' hty' b hb

end
end Unroll
end CG
