/-
  CG.Proofs.DpllP — the concrete solver `Dpll.dpll` satisfies the solver contract `SolverSpec` assumed by the
  solver-based theorems (C01, C04, C08, C11): the hypothesis is satisfiable, by a program the driver actually runs.
-/
import CG.Dpll
namespace CG
namespace Dpll

/-! ### occurrences, `dedupVars`, `vars` -/

/-- `v` occurs in `f` -/
def Occ (v : Var) (f : CNF) : Prop := ∃ cl ∈ f, ∃ l ∈ cl, l.v = v

theorem mem_dedupVars {x : Var} : ∀ {l : List Var}, x ∈ dedupVars l ↔ x ∈ l
  | [] => by simp [dedupVars]
  | a :: t => by
    simp only [dedupVars, List.mem_cons, List.mem_filter, mem_dedupVars (l := t)]
    by_cases h : x = a <;> simp [h]

theorem nodup_dedupVars : ∀ (l : List Var), (dedupVars l).Nodup
  | [] => by simp [dedupVars]
  | a :: t => by
    simp only [dedupVars, List.nodup_cons, List.mem_filter]
    exact ⟨by simp, (nodup_dedupVars t).sublist List.filter_sublist⟩

theorem mem_vars {v : Var} {f : CNF} : v ∈ vars f ↔ Occ v f := by
  simp only [vars, mem_dedupVars, Occ, List.mem_flatMap, List.mem_map]

theorem nodup_vars (f : CNF) : (vars f).Nodup := nodup_dedupVars _

/-- a duplicate-free list included in another one is not longer -/
theorem length_le_of_nodup_subset : ∀ (l₁ l₂ : List Var), l₁.Nodup → (∀ x ∈ l₁, x ∈ l₂) →
    l₁.length ≤ l₂.length
  | [], _, _, _ => by simp
  | a :: t, l₂, hnd, hsub => by
    have ha : a ∈ l₂ := hsub a (by simp)
    rw [List.nodup_cons] at hnd
    have ih := length_le_of_nodup_subset t (l₂.erase a) hnd.2 (fun x hx => by
      have hne : x ≠ a := fun h => hnd.1 (h ▸ hx)
      exact (List.mem_erase_of_ne hne).2 (hsub x (by simp [hx])))
    rw [List.length_erase_of_mem ha] at ih
    have : 0 < l₂.length := List.length_pos_of_mem ha
    simp only [List.length_cons]
    omega

/-! ### `assign` -/

theorem occ_assign {w v : Var} {b : Bool} {f : CNF} (h : Occ w (assign f v b)) : Occ w f ∧ w ≠ v := by
  obtain ⟨cl, hcl, l, hl, rfl⟩ := h
  simp only [assign, List.mem_map, List.mem_filter] at hcl
  obtain ⟨cl0, ⟨hcl0, _⟩, rfl⟩ := hcl
  simp only [List.mem_filter] at hl
  refine ⟨⟨cl0, hcl0, l, hl.1, rfl⟩, ?_⟩
  simpa using hl.2

/-- assigning an occurring variable strictly decreases the number of distinct variables -/
theorem vars_assign_lt {v : Var} {b : Bool} {f : CNF} (hv : Occ v f) :
    (vars (assign f v b)).length < (vars f).length := by
  have hnd : (v :: vars (assign f v b)).Nodup := by
    rw [List.nodup_cons]
    exact ⟨fun h => (occ_assign (mem_vars.1 h)).2 rfl, nodup_vars _⟩
  have := length_le_of_nodup_subset _ (vars f) hnd (fun x hx => by
    rcases List.mem_cons.1 hx with rfl | hx
    · exact mem_vars.2 hv
    · exact mem_vars.2 (occ_assign (mem_vars.1 hx)).1)
  simpa [Nat.lt_iff_add_one_le] using this

theorem lit_sat_eq (σ : Var → Bool) (l : Lit) : Lit.sat σ l = (l.pos == σ l.v) := by
  unfold Lit.sat; cases l.pos <;> cases σ l.v <;> rfl

theorem clause_sat_of_any {σ : Var → Bool} {v : Var} {cl : Clause}
    (h : cl.any (fun l => l.v == v && l.pos == σ v) = true) : Clause.sat σ cl = true := by
  simp only [List.any_eq_true, Clause.sat] at *
  obtain ⟨l, hl, h⟩ := h
  refine ⟨l, hl, ?_⟩
  simp only [Bool.and_eq_true, beq_iff_eq] at h
  rw [lit_sat_eq, h.2, h.1]; simp

theorem clause_sat_filter {σ : Var → Bool} {v : Var} {cl : Clause}
    (h : cl.any (fun l => l.v == v && l.pos == σ v) = false) :
    Clause.sat σ (cl.filter (fun l => !(l.v == v))) = Clause.sat σ cl := by
  induction cl with
  | nil => rfl
  | cons a t ih =>
    simp only [List.any_cons, Bool.or_eq_false_iff] at h
    have ih := ih h.2
    simp only [Clause.sat] at ih ⊢
    by_cases hv : a.v = v
    · have ha : Lit.sat σ a = false := by
        have h1 := h.1
        rw [lit_sat_eq]
        simp only [hv, beq_self_eq_true, Bool.true_and] at h1
        rw [hv]; exact h1
      simp [hv, ha, ih]
    · simp [hv, ih]

theorem assign_cons (cl : Clause) (f : CNF) (v : Var) (b : Bool) :
    assign (cl :: f) v b =
      if cl.any (fun l => l.v == v && l.pos == b) then assign f v b
      else cl.filter (fun l => !(l.v == v)) :: assign f v b := by
  unfold assign
  rw [List.filter_cons]
  cases cl.any (fun l => l.v == v && l.pos == b) <;> simp

theorem sat_assign (σ : Var → Bool) (v : Var) (f : CNF) :
    CNF.sat σ (assign f v (σ v)) = CNF.sat σ f := by
  induction f with
  | nil => rfl
  | cons cl f ih =>
    rw [assign_cons]
    cases h : cl.any (fun l => l.v == v && l.pos == σ v)
    · simp only [CNF.sat, List.all_cons, Bool.false_eq_true, if_false] at ih ⊢
      rw [ih, clause_sat_filter h]
    · simp only [CNF.sat, List.all_cons, if_true] at ih ⊢
      rw [ih, clause_sat_of_any h, Bool.true_and]

/-! ### `pick` -/

theorem pick_occ {f : CNF} {l : Lit} (h : pick f = some l) : Occ l.v f := by
  unfold pick at h
  split at h
  · next l' t heq =>
    cases h
    exact ⟨_, List.mem_of_find?_eq_some heq, l, by simp, rfl⟩
  · split at h
    · next l' t f' =>
      cases h
      exact ⟨l :: l', by simp, l, by simp, rfl⟩
    · cases h

theorem pick_none {f : CNF} (h : pick f = none) : f = [] ∨ ∃ t, f = [] :: t := by
  unfold pick at h
  split at h
  · cases h
  · split at h
    · cases h
    · next hno =>
      match f, hno with
      | [], _ => exact Or.inl rfl
      | [] :: t, _ => exact Or.inr ⟨t, rfl⟩
      | (l :: c) :: t, hno => exact (hno l c t rfl).elim

/-! ### soundness -/

/-- the assignment read off a decision list (undecided variables read False) -/
def σof (r : List (Var × Bool)) : Var → Bool := fun v => (r.lookup v).getD false

theorem mem_of_lookup {v : Var} {b : Bool} : ∀ {acc : List (Var × Bool)}, acc.lookup v = some b → (v, b) ∈ acc
  | [], h => by simp at h
  | (w, c) :: t, h => by
    by_cases hw : v = w
    · subst hw
      simp only [List.lookup_cons_self] at h
      cases h; simp
    · have : (v == w) = false := by simpa using hw
      rw [List.lookup_cons, this] at h
      exact List.mem_cons_of_mem _ (mem_of_lookup h)

theorem go_sound : ∀ (fuel : Nat) (f : CNF) (acc r : List (Var × Bool)), go fuel f acc = some r →
    (∀ p ∈ acc, ¬ Occ p.1 f) →
    CNF.sat (σof r) f = true ∧ ∀ v b, acc.lookup v = some b → r.lookup v = some b := by
  intro fuel
  induction fuel with
  | zero =>
    intro f acc r h _
    simp only [go] at h
    split at h
    · next hf =>
      cases h
      have : f = [] := by simpa using hf
      subst this
      exact ⟨rfl, fun _ _ h => h⟩
    · cases h
  | succ fuel ih =>
    intro f acc r h hgood
    -- one branch of the search
    have step : ∀ (v : Var) (b : Bool), Occ v f → go fuel (assign f v b) ((v, b) :: acc) = some r →
        CNF.sat (σof r) f = true ∧ ∀ w c, acc.lookup w = some c → r.lookup w = some c := by
      intro v b hv hgo
      have hgood' : ∀ p ∈ (v, b) :: acc, ¬ Occ p.1 (assign f v b) := by
        intro p hp hocc
        rcases List.mem_cons.1 hp with rfl | hp
        · exact (occ_assign hocc).2 rfl
        · exact hgood p hp (occ_assign hocc).1
      obtain ⟨hsat, hext⟩ := ih _ _ _ hgo hgood'
      have hσ : σof r v = b := by
        have := hext v b (by simp)
        simp [σof, this]
      refine ⟨?_, ?_⟩
      · rw [← sat_assign (σof r) v f, hσ]; exact hsat
      · intro w c hw
        apply hext
        have hne : w ≠ v := fun e => hgood _ (mem_of_lookup hw) (e ▸ hv)
        have : (w == v) = false := by simpa using hne
        rw [List.lookup_cons, this]; exact hw
    simp only [go] at h
    split at h
    · next hf =>
      cases h
      have : f = [] := by simpa using hf
      subst this
      exact ⟨rfl, fun _ _ h => h⟩
    · split at h
      · cases h
      · split at h
        · cases h
        · next l hp =>
          have hocc := pick_occ hp
          split at h
          · next r' hgo =>
            cases h
            exact step _ _ hocc hgo
          · exact step _ _ hocc h

/-! ### completeness -/

theorem unsat_of_nil_mem {f : CNF} (h : [] ∈ f) (σ : Var → Bool) : CNF.sat σ f = false := by
  cases hs : CNF.sat σ f
  · rfl
  · simp only [CNF.sat, List.all_eq_true] at hs
    have := hs _ h
    simp [Clause.sat] at this

theorem go_complete : ∀ (fuel : Nat) (f : CNF) (acc : List (Var × Bool)), go fuel f acc = none →
    (vars f).length ≤ fuel → ∀ σ, CNF.sat σ f = false := by
  intro fuel
  induction fuel with
  | zero =>
    intro f acc h hlen σ
    simp only [go] at h
    split at h
    · cases h
    · next hf =>
      match f, hf, hlen with
      | [], hf, _ => simp at hf
      | [] :: t, _, _ => exact unsat_of_nil_mem (by simp) σ
      | (l :: c) :: t, _, hlen =>
        have : l.v ∈ vars ((l :: c) :: t) := mem_vars.2 ⟨l :: c, by simp, l, by simp, rfl⟩
        have := List.length_pos_of_mem this
        omega
  | succ fuel ih =>
    intro f acc h hlen σ
    simp only [go] at h
    split at h
    · cases h
    · next hf =>
      split at h
      · next hany =>
        simp only [List.any_eq_true, List.isEmpty_iff] at hany
        obtain ⟨cl, hcl, rfl⟩ := hany
        exact unsat_of_nil_mem hcl σ
      · split at h
        · next hp =>
          rcases pick_none hp with rfl | ⟨t, rfl⟩
          · simp at hf
          · exact unsat_of_nil_mem (by simp) σ
        · next l hp =>
          have hocc := pick_occ hp
          have hlt : ∀ b, (vars (assign f l.v b)).length ≤ fuel := fun b => by
            have := vars_assign_lt (b := b) hocc
            omega
          rw [← sat_assign σ l.v f]
          split at h
          · cases h
          · next hgo1 =>
            by_cases hσ : σ l.v = l.pos
            · rw [hσ]; exact ih _ _ hgo1 (hlt _) σ
            · have : σ l.v = !l.pos := by
                cases hb : σ l.v <;> cases hc : l.pos <;> simp_all
              rw [this]; exact ih _ _ h (hlt _) σ

/-! ### the contract -/

/-- the DPLL solver is sound (a returned assignment satisfies the formula) and complete (`none` only for
    unsatisfiable formulas), for every CNF over the object-level variables -/
theorem dpll_spec : SolverSpec dpll := by
  constructor
  · intro f σ h
    simp only [dpll, Option.map_eq_some_iff] at h
    obtain ⟨r, hgo, rfl⟩ := h
    exact (go_sound _ _ _ _ hgo (by simp)).1
  · intro f h σ
    simp only [dpll, Option.map_eq_none_iff] at h
    exact go_complete _ _ _ h (Nat.le_refl _) σ

example : (dpll [[{pos := true, v := .node "a"}, {pos := false, v := .node "b"}],
    [{pos := true, v := .node "b"}]]).isSome = true := by decide

example : (dpll [[{pos := true, v := .node "a"}], [{pos := false, v := .node "a"}]]).isNone = true := by
  decide

end Dpll
end CG

