/- C15 (character level) helper: lifting facts about single match attempts through `searchFrom` and `allMatches`
   over a text made of lines -/
import CG.Proofs.BenchTextComplete
set_option linter.unusedSimpArgs false
set_option linter.unusedVariables false
namespace CG
namespace BenchText
open Regex

/-- the lines after a first one, each preceded by its line break -/
def tailOf : List (List Char) → List Char
  | [] => []
  | l :: ls => '\n' :: (l ++ tailOf ls)

theorem intercalate_eq_tailOf (l : List Char) (ls : List (List Char)) :
    ['\n'].intercalate (l :: ls) = l ++ tailOf ls := by
  induction ls generalizing l with
  | nil => simp [List.intercalate, tailOf]
  | cons l' ls ih =>
    have := ih l'
    simp only [List.intercalate] at this ⊢
    simp only [List.intersperse_cons_cons, List.flatten_cons, tailOf] at this ⊢
    rw [this]
    simp

section
variable (ctx : Ctx) (r : Re) (fuel : Nat)

theorem sf_irrel : ∀ (tries tries' start : Nat), ctx.s.size + 1 ≤ tries + start → ctx.s.size + 1 ≤ tries' + start →
    searchFrom ctx r fuel tries start = searchFrom ctx r fuel tries' start
  | 0, 0, _, _, _ => rfl
  | 0, t' + 1, start, h, _ => by
    simp only [searchFrom]
    rw [if_pos (by omega)]
  | t + 1, 0, start, _, h => by
    simp only [searchFrom]
    rw [if_pos (by omega)]
  | t + 1, t' + 1, start, h, h' => by
    simp only [searchFrom]
    by_cases hs : start > ctx.s.size
    · rw [if_pos hs, if_pos hs]
    · rw [if_neg hs, if_neg hs]
      cases hm : m ctx fuel r start [] (fun p c => some (p, c)) with
      | some x => rfl
      | none => exact sf_irrel t t' (start + 1) (by omega) (by omega)

theorem sf_step {p : Nat} (hp : p ≤ ctx.s.size) (h : m ctx fuel r p [] k0 = none) :
    searchFrom ctx r fuel (ctx.s.size + 1) p = searchFrom ctx r fuel (ctx.s.size + 1) (p + 1) := by
  have : searchFrom ctx r fuel (ctx.s.size + 1) p = searchFrom ctx r fuel ctx.s.size (p + 1) := by
    rw [searchFrom]
    rw [if_neg (by omega)]
    unfold k0 at h
    rw [h]
  rw [this]
  exact sf_irrel ctx r fuel _ _ _ (by omega) (by omega)

theorem sf_skip : ∀ (d p : Nat), p + d ≤ ctx.s.size + 1 →
    (∀ i, p ≤ i → i < p + d → m ctx fuel r i [] k0 = none) →
    searchFrom ctx r fuel (ctx.s.size + 1) p = searchFrom ctx r fuel (ctx.s.size + 1) (p + d)
  | 0, p, _, _ => rfl
  | d + 1, p, hp, h => by
    rw [sf_step ctx r fuel (by omega) (h p (Nat.le_refl _) (by omega))]
    rw [sf_skip d (p + 1) (by omega) (fun i h1 h2 => h i (by omega) (by omega))]
    congr 1
    omega

theorem sf_hit {p e : Nat} {caps : Caps} (hp : p ≤ ctx.s.size) (h : m ctx fuel r p [] k0 = some (e, caps)) :
    searchFrom ctx r fuel (ctx.s.size + 1) p = some (p, e, caps) := by
  rw [searchFrom]
  rw [if_neg (by omega)]
  unfold k0 at h
  rw [h]

theorem sf_end {p : Nat} (hp : ctx.s.size ≤ p) (h : m ctx fuel r ctx.s.size [] k0 = none) :
    searchFrom ctx r fuel (ctx.s.size + 1) p = none := by
  by_cases hgt : p > ctx.s.size
  · rw [searchFrom]
    rw [if_pos hgt]
  · have : p = ctx.s.size := by omega
    subst this
    rw [sf_step ctx r fuel (Nat.le_refl _) h]
    rw [searchFrom]
    rw [if_pos (by omega)]
end

/-- the group strings `findall` returns for a match -/
def grp (ctx : Ctx) (ng : Nat) (caps : Caps) : List String :=
  (List.range ng).map (fun i => ((capOf caps (i + 1)).map (fun p => slice ctx.s p.1 p.2)).getD "")

theorem grp_mkMatch (ctx : Ctx) (ng a b : Nat) (caps : Caps) :
    (mkMatch ctx ng a b caps).groups.map (·.getD "") = grp ctx ng caps := by
  simp [mkMatch, grp, List.map_map]

theorem am_congr (ctx : Ctx) (r : Re) (ng fa p q : Nat)
    (h : searchFrom ctx r (fuelFor ctx.s) (ctx.s.size + 1) p = searchFrom ctx r (fuelFor ctx.s) (ctx.s.size + 1) q) :
    allMatches ctx r ng fa p = allMatches ctx r ng fa q := by
  cases fa with
  | zero => rfl
  | succ fa => simp only [allMatches]; rw [h]

/-- what is known about single match attempts of the pattern `r` in a text made of lines (`L` = abstract lines) -/
structure LineSpec {L : Type} (chars : L → List Char) (ctx : Ctx) (r : Re) (ng : Nat) (ok : L → Prop)
    (hit : L → Option (List String)) : Prop where
  atEnd : ∀ p, p ≤ ctx.s.size → (txt ctx).drop p = [] → m ctx (fuelFor ctx.s) r p [] k0 = none
  atNl : ∀ p rest, p ≤ ctx.s.size → (txt ctx).drop p = '\n' :: rest → m ctx (fuelFor ctx.s) r p [] k0 = none
  miss : ∀ l, ok l → hit l = none → ∀ u t rest p, u ++ t = chars l → t ≠ [] → p ≤ ctx.s.size →
    (txt ctx).drop p = t ++ rest → m ctx (fuelFor ctx.s) r p [] k0 = none
  found : ∀ l gs, ok l → hit l = some gs → ∀ rest p, p ≤ ctx.s.size → (txt ctx).drop p = chars l ++ rest →
    chars l ≠ [] ∧ ∃ caps, m ctx (fuelFor ctx.s) r p [] k0 = some (p + (chars l).length, caps) ∧ grp ctx ng caps = gs

section
variable {L : Type} {chars : L → List Char} {ctx : Ctx} {r : Re} {ng : Nat} {ok : L → Prop}
  {hit : L → Option (List String)}

theorem drop_add (ctx : Ctx) {p : Nat} {a b : List Char} (h : (txt ctx).drop p = a ++ b) :
    (txt ctx).drop (p + a.length) = b := by
  rw [← List.drop_drop, h, List.drop_left]

theorem le_of_drop (ctx : Ctx) {p : Nat} {a b : List Char} (hp : p ≤ ctx.s.size) (h : (txt ctx).drop p = a ++ b) :
    p + a.length ≤ ctx.s.size := by
  have := congrArg List.length h
  rw [drop_length, List.length_append] at this
  omega

/-- no match attempt succeeds inside a line that the pattern does not hit -/
theorem LineSpec.skip_line (S : LineSpec chars ctx r ng ok hit) {l0 : L} (hl : ok l0) (hh : hit l0 = none)
    {rest : List Char} {p : Nat} (hp : p ≤ ctx.s.size) (hd : (txt ctx).drop p = chars l0 ++ rest) :
    searchFrom ctx r (fuelFor ctx.s) (ctx.s.size + 1) p =
      searchFrom ctx r (fuelFor ctx.s) (ctx.s.size + 1) (p + (chars l0).length) := by
  generalize hl' : chars l0 = l at hd
  have hle := le_of_drop ctx hp hd
  apply sf_skip ctx r _ l.length p (by omega)
  intro i h1 h2
  have hsplit : l.take (i - p) ++ l.drop (i - p) = l := List.take_append_drop _ _
  have hne : l.drop (i - p) ≠ [] := by
    intro e
    have := congrArg List.length e
    rw [List.length_drop, List.length_nil] at this
    omega
  have hd' : (txt ctx).drop i = l.drop (i - p) ++ rest := by
    have : (txt ctx).drop p = l.take (i - p) ++ (l.drop (i - p) ++ rest) := by
      rw [← List.append_assoc, hsplit, hd]
    have h3 := drop_add ctx this
    rw [List.length_take, Nat.min_eq_left (by omega)] at h3
    rw [← h3]
    congr 1
    omega
  exact S.miss l0 hl hh _ _ rest i (by rw [hl']; exact hsplit) hne (by omega) hd'

mutual
/-- scanning from the end of a line -/
theorem LineSpec.scanA (S : LineSpec chars ctx r ng ok hit) : ∀ (ls : List L) (p fa : Nat), (∀ l ∈ ls, ok l) →
    p ≤ ctx.s.size → (txt ctx).drop p = tailOf (ls.map chars) → ctx.s.size + 2 ≤ fa + p →
    (allMatches ctx r ng fa p).map (fun mt => mt.groups.map (·.getD "")) = ls.filterMap hit
  | [], p, fa, _, hp, hd, hfa => by
    obtain ⟨fa', rfl⟩ : ∃ fa', fa = fa' + 1 := ⟨fa - 1, by omega⟩
    have hN : p = ctx.s.size := by
      have := congrArg List.length hd
      rw [drop_length] at this
      simp only [List.map_nil, tailOf, List.length_nil] at this
      omega
    subst hN
    simp only [allMatches]
    rw [sf_end ctx r _ (Nat.le_refl _) (S.atEnd _ (Nat.le_refl _) hd)]
    rfl
  | l :: ls, p, fa, hok, hp, hd, hfa => by
    simp only [List.map_cons, tailOf] at hd
    have h1 := S.atNl p _ hp hd
    have hlt : p + 1 ≤ ctx.s.size := le_of_drop ctx (a := ['\n']) hp hd
    have hd' : (txt ctx).drop (p + 1) = chars l ++ tailOf (ls.map chars) := drop_add ctx (a := ['\n']) hd
    rw [am_congr ctx r ng fa p (p + 1) (sf_step ctx r _ hp h1)]
    exact LineSpec.scanB S ls l (p + 1) fa (hok l (by simp)) (fun x hx => hok x (by simp [hx])) hlt hd' (by omega)

/-- scanning from the start of a line -/
theorem LineSpec.scanB (S : LineSpec chars ctx r ng ok hit) : ∀ (ls : List L) (l : L) (p fa : Nat), ok l →
    (∀ x ∈ ls, ok x) → p ≤ ctx.s.size → (txt ctx).drop p = chars l ++ tailOf (ls.map chars) → ctx.s.size + 2 ≤ fa + p →
    (allMatches ctx r ng fa p).map (fun mt => mt.groups.map (·.getD "")) = (l :: ls).filterMap hit
  | ls, l, p, fa, hl, hok, hp, hd, hfa => by
    have hle := le_of_drop ctx hp hd
    have hd' := drop_add ctx hd
    cases hh : hit l with
    | none =>
      rw [List.filterMap_cons_none hh]
      rw [am_congr ctx r ng fa p (p + (chars l).length) (S.skip_line hl hh hp hd)]
      exact LineSpec.scanA S ls (p + (chars l).length) fa hok hle hd' (by omega)
    | some gs =>
      rw [List.filterMap_cons_some hh]
      obtain ⟨hne, caps, hm, hg⟩ := S.found l gs hl hh _ p hp hd
      obtain ⟨fa', rfl⟩ : ∃ fa', fa = fa' + 1 := ⟨fa - 1, by omega⟩
      have hpos : 0 < (chars l).length := List.length_pos_iff.mpr hne
      simp only [allMatches]
      rw [sf_hit ctx r _ hp hm]
      simp only [List.map_cons, grp_mkMatch, hg]
      have hb : ((p + (chars l).length) == p) = false := by rw [beq_eq_false_iff_ne]; omega
      simp only [hb, Bool.false_eq_true, if_false]
      congr 1
      exact LineSpec.scanA S ls (p + (chars l).length) fa' hok hle hd' (by omega)
end

/-- **all matches of a pattern in a text made of lines** -/
theorem LineSpec.scan (S : LineSpec chars ctx r ng ok hit) (l : L) (ls : List L) (hok : ∀ x ∈ l :: ls, ok x)
    (ht : txt ctx = ['\n'].intercalate ((l :: ls).map chars)) :
    (allMatches ctx r ng (ctx.s.size + 2) 0).map (fun mt => mt.groups.map (·.getD "")) = (l :: ls).filterMap hit :=
  S.scanB ls l 0 _ (hok l (by simp)) (fun x hx => hok x (by simp [hx])) (Nat.zero_le _)
    (by rw [List.drop_zero, ht, List.map_cons, intercalate_eq_tailOf]) (by omega)
end

end BenchText
end CG
