/- C09 (unroll): one iteration preserves the invariant; the whole loop -/
import CG.Proofs.UnrollInv
set_option linter.unusedSimpArgs false
set_option linter.unusedVariables false
namespace CG
namespace Unroll
open Circuit

theorem foldlM_congr {α β} {f g : β → α → E β} : ∀ (l : List α) (b : β), (∀ b, ∀ a ∈ l, f b a = g b a) →
    l.foldlM f b = l.foldlM g b
  | [], _, _ => rfl
  | a :: l, b, h => by
    rw [List.foldlM_cons, List.foldlM_cons, h b a (by simp)]
    congr 1
    funext b1
    exact foldlM_congr l b1 (fun b a ha => h b a (List.mem_cons_of_mem _ ha))

theorem copy_fresh {c P P' : Circuit} {k : Nat} (hwf : WF P')
    (hn : P'.nodes = P.nodes ++ c.nodes.map (fun p => (U k p.1, stripA p.2))) {x : Name} (hx : c.has x = true) :
    P.has (U k x) = false := by
  have hnm : P'.nodeNames = P.nodeNames ++ c.nodeNames.map (U k) := by
    unfold nodeNames; rw [hn, List.map_append, List.map_map, List.map_map]; rfl
  have hnd := hwf.nodup
  rw [hnm, List.nodup_append] at hnd
  rw [has_false_iff]
  intro hm
  exact hnd.2.2 _ hm _ (List.mem_map.2 ⟨x, (has_iff_mem c x).1 hx, rfl⟩) rfl

section
variable {c : Circuit} {stateIO : List (Name × Name)} {pfx : String} {io : List Name}

/-- phase C, both shapes, summarised against the circuit `P'` left by phase B -/
theorem linkPhase (C : Ctx c stateIO io) {k : Nat} {Q P' uc' : Circuit} {m : List (Name × List Name)}
    (hm : m = mapAt c pfx io (k + 1)) (hQ0 : k = 0 → Q.nodes = [])
    (wfP' : WF P')
    (nodesP' : P'.nodes = (Q.nodes ++ io.map (fun x => (N c pfx x k, ioAttr0 c stateIO x))) ++
      c.nodes.map (fun p => (U k p.1, stripA p.2)))
    (inj : ∀ x ∈ io, ∀ y ∈ io, N c pfx x k = N c pfx y k → x = y)
    (hC : (if k == 0 then
        stateIO.foldlM (fun uc p => liftO (uc.setType [Tx.ioName m p.2 0] "input")) P'
      else
        stateIO.foldlM (fun uc p => liftO (uc.connect [Tx.ioName m p.1 (k - 1)] [Tx.ioName m p.2 k])) P') = .ok uc') :
    WF uc' ∧ uc'.nodes = Q.nodes ++ stepNodes c stateIO pfx io k ∧
      (∀ y, (k = 0 ∨ ∀ p ∈ stateIO, y ≠ N c pfx p.2 k) → uc'.fanin y = P'.fanin y) ∧
      (∀ t, t + 1 = k → ∀ p ∈ stateIO, uc'.fanin (N c pfx p.2 k) = [N c pfx p.1 t]) := by
  have hvals : ∀ p ∈ stateIO, p.2 ∈ io := fun p hp => C.ioIn _ (C.valsIn p hp)
  cases k with
  | zero =>
    rw [if_pos (show ((0 : Nat) == 0) = true from rfl)] at hC
    have e := setTypePhase (fun p => Tx.ioName m p.2 0) stateIO P' uc' hC
    have e2 : stateIO.map (fun p => Tx.ioName m p.2 0) = stateIO.map (fun p => N c pfx p.2 0) := by
      apply List.map_congr_left
      intro p hp
      rw [hm, ioName_mapAt c pfx io 1 (hvals p hp) (by omega)]
    rw [e2] at e
    rw [hQ0 rfl, List.nil_append] at nodesP'
    obtain ⟨a, b, d⟩ := linkPhase0 wfP' nodesP' inj hvals
    rw [← e] at a b d
    refine ⟨a, by rw [b, hQ0 rfl]; rfl, fun y _ => fanin_congr_edges d y, ?_⟩
    intro t ht
    omega
  | succ k =>
    rw [if_neg (by simp)] at hC
    have hk1 : k + 1 - 1 = k := by omega
    rw [hk1] at hC
    have e : stateIO.foldlM (fun uc p => liftO (uc.connect [Tx.ioName m p.1 k] [Tx.ioName m p.2 (k + 1)])) P' =
        stateIO.foldlM (fun uc p => liftO (uc.connect [N c pfx p.1 k] [N c pfx p.2 (k + 1)])) P' := by
      apply foldlM_congr
      intro b p hp
      rw [hm, ioName_mapAt c pfx io (k + 2) (hvals p hp) (by omega),
        ioName_mapAt c pfx io (k + 2) (C.keysIO p hp) (by omega)]
    rw [e] at hC
    have hnd : (stateIO.map (fun p => N c pfx p.2 (k + 1))).Nodup := by
      have := nodup_map_of_inj C.valsNodup (f := fun x => N c pfx x (k + 1)) (fun x hx y hy e => by
        obtain ⟨p, hp, rfl⟩ := List.mem_map.1 hx
        obtain ⟨q, hq, rfl⟩ := List.mem_map.1 hy
        exact inj _ (hvals p hp) _ (hvals q hq) e)
      rw [List.map_map] at this
      exact this
    have hty : ∀ p ∈ stateIO, P'.ty? (N c pfx p.2 (k + 1)) = some "buf" := by
      intro p hp
      have hmem : (N c pfx p.2 (k + 1), ioAttr0 c stateIO p.2) ∈ P'.nodes := by
        rw [nodesP']
        exact List.mem_append.2 (Or.inl (List.mem_append.2 (Or.inr (List.mem_map.2 ⟨p.2, hvals p hp, rfl⟩))))
      rw [ty?, attr?_of_mem wfP'.nodup hmem]
      show some (ioTy0 c stateIO p.2) = some "buf"
      rw [(ioTy0_state hp).1]
    obtain ⟨w, n, keep, val⟩ := connectPhase (fun p => N c pfx p.1 k) (fun p => N c pfx p.2 (k + 1)) stateIO P' uc'
      wfP' hnd hty hC
    refine ⟨w, ?_, ?_, ?_⟩
    · rw [n, nodesP', List.append_assoc]
      unfold stepNodes
      simp only [ioAttr_succ]
    · intro y hy
      rcases hy with hy | hy
      · omega
      · exact keep y hy
    · intro t ht p hp
      have : t = k := by omega
      subst this
      exact val p hp

theorem step (C : Ctx c stateIO io) {k : Nat} {s s' : Tx.UState} (I : Inv c stateIO pfx io k s)
    (h : Tx.unrollStep c io stateIO pfx s k = .ok s') : Inv c stateIO pfx io (k + 1) s' := by
  unfold Tx.unrollStep at h
  obtain ⟨s1, hA, h⟩ := bind_ok h
  obtain ⟨P', hB, h⟩ := bind_ok h
  obtain ⟨uc', hC, h⟩ := bind_ok h
  injection h with h
  subst h
  obtain ⟨wfP, nodesP, edgesP, mapP⟩ := ioPhase io s s1 I.wf hA
  rw [I.map, ioPhase_map c pfx io C.ioNodup k] at mapP
  have hconns : io.map (fun x => (x, [Tx.ioName s1.2 x k])) = io.map (fun x => (x, [N c pfx x k])) := by
    apply List.map_congr_left
    intro x hx
    rw [mapP, ioName_mapAt c pfx io (k + 1) hx (Nat.lt_succ_self k)]
  rw [hconns] at hB
  obtain ⟨wfP', nodesP', oldB, inB, copyB, outB, freeB⟩ :=
    subPhase C.wf I.wf wfP nodesP edgesP C.ioIn (liftO_ok hB)
  obtain ⟨inj, fresh, hasN, hasQ⟩ := ioNames_facts (stateIO := stateIO) wfP nodesP
  have hvals : ∀ p ∈ stateIO, p.2 ∈ io := fun p hp => C.ioIn _ (C.valsIn p hp)
  have hQ0 : k = 0 → s.1.nodes = [] := by
    intro hk
    rw [I.nodes, hk]
    rfl
  rw [nodesP] at nodesP'
  obtain ⟨wf', nodes', keepC, valC⟩ := linkPhase C mapP hQ0 wfP' nodesP' inj hC
  have clash : ∀ x, c.has x = true → s1.1.has (U k x) = false := fun x hx => by
    rw [← nodesP] at nodesP'
    exact copy_fresh wfP' nodesP' hx
  -- nodes created before this iteration are not touched
  have old : ∀ y, s.1.has y = true → uc'.fanin y = s.1.fanin y := by
    intro y hy
    rw [keepC y (Or.inr ?_), oldB y hy]
    intro p hp e
    rw [e, fresh _ (hvals p hp)] at hy
    cases hy
  have keepU : ∀ x, c.has x = true → uc'.fanin (U k x) = P'.fanin (U k x) := by
    intro x hx
    apply keepC
    right
    intro p hp e
    have := clash x hx
    rw [e, hasN _ (hvals p hp)] at this
    cases this
  refine ⟨wf', mapP, ?_, ?_, ?_, ?_, ?_, ?_⟩
  · show uc'.nodes = _
    rw [nodes', I.nodes, List.range_succ, List.flatMap_append]
    simp
  · intro t ht x hx
    by_cases htk : t < k
    · show uc'.fanin _ = _
      rw [old _ (I.hasU htk (mem_inputs_has hx))]
      exact I.faninIn t htk x hx
    · have : t = k := by omega
      subst this
      show uc'.fanin _ = _
      rw [keepU x (mem_inputs_has hx)]
      exact inB x hx
  · intro t ht x hx hni
    by_cases htk : t < k
    · show uc'.fanin _ = _
      rw [old _ (I.hasU htk hx)]
      exact I.faninCopy t htk x hx hni
    · have : t = k := by omega
      subst this
      show uc'.fanin _ = _
      rw [keepU x hx]
      exact copyB x hx hni
  · intro t ht x hx hni
    by_cases htk : t < k
    · show uc'.fanin _ = _
      rw [old _ (I.hasN htk hx)]
      exact I.faninOut t htk x hx hni
    · have : t = k := by omega
      subst this
      show uc'.fanin _ = _
      rw [keepC _ (Or.inr ?_)]
      · exact outB x hx hni
      · intro p hp e
        exact hni (inj x hx _ (hvals p hp) e ▸ C.valsIn p hp)
  · intro t ht p hp
    by_cases htk : t + 1 < k
    · show uc'.fanin _ = _
      rw [old _ (I.hasN htk (hvals p hp))]
      exact I.faninVal t htk p hp
    · have : t + 1 = k := by omega
      subst this
      exact valC t rfl p hp
  · intro t ht x hx hfree
    by_cases htk : t < k
    · show uc'.fanin _ = _
      rw [old _ (I.hasN htk (C.ioIn x hx))]
      exact I.faninFree t htk x hx hfree
    · have : t = k := by omega
      subst this
      show uc'.fanin _ = _
      rw [keepC _ ?_]
      · exact freeB x (C.ioIn x hx) hx
      · rcases hfree with h0 | hv
        · exact Or.inl h0
        · right
          intro p hp e
          have : isVal stateIO x = true :=
            (isVal_iff stateIO x).2 ⟨p, hp, (inj x (C.ioIn x hx) _ (hvals p hp) e).symm⟩
          rw [hv] at this
          cases this

end
end Unroll
end CG
