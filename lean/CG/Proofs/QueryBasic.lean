/- C12 helpers: list facts, `dedup`, paths over an arbitrary edge relation, data-model facts -/
import CG.Query
import CG.Spec
namespace CG
namespace Q

/-! ### `dedup` -/

theorem mem_dedup (x : Name) : ∀ l : List Name, x ∈ dedup l ↔ x ∈ l
  | [] => by simp [dedup]
  | y :: l => by
    have ih := mem_dedup x l
    simp only [dedup, List.mem_cons, List.mem_filter, ih, Bool.not_eq_true', beq_eq_false_iff_ne, ne_eq]
    constructor
    · rintro (h | ⟨h, _⟩)
      · exact Or.inl h
      · exact Or.inr h
    · intro h
      by_cases hxy : x = y
      · exact Or.inl hxy
      · rcases h with h | h
        · exact Or.inl h
        · exact Or.inr ⟨h, hxy⟩

theorem nodup_dedup : ∀ l : List Name, (dedup l).Nodup
  | [] => by simp [dedup]
  | y :: l => by
    simp only [dedup, List.nodup_cons, List.mem_filter, Bool.not_eq_true', beq_eq_false_iff_ne, ne_eq,
      not_true_eq_false, and_false, not_false_eq_true, true_and]
    exact List.Pairwise.filter _ (nodup_dedup l)

theorem dedup_nil_iff (l : List Name) : dedup l = [] ↔ l = [] := by
  cases l <;> simp [dedup]

/-! ### lists -/

theorem nodup_length_le : ∀ (l U : List Name), l.Nodup → (∀ x ∈ l, x ∈ U) → l.length ≤ U.length
  | [], _, _, _ => Nat.zero_le _
  | x :: l, U, hnd, hsub => by
    have hx : x ∈ U := hsub x (by simp)
    have hnd' := List.nodup_cons.mp hnd
    have h1 : ∀ y ∈ l, y ∈ U.erase x := by
      intro y hy
      have hne : y ≠ x := fun h => hnd'.1 (h ▸ hy)
      exact (List.mem_erase_of_ne hne).mpr (hsub y (by simp [hy]))
    have h2 := nodup_length_le l (U.erase x) hnd'.2 h1
    have h3 := List.length_erase_of_mem hx
    have h4 : 0 < U.length := List.length_pos_of_mem hx
    simp only [List.length_cons]
    omega

theorem perm_of_nodup_mem {l1 l2 : List Name} (h1 : l1.Nodup) (h2 : l2.Nodup) (h : ∀ x, x ∈ l1 ↔ x ∈ l2) :
    l1.Perm l2 := (List.perm_ext_iff_of_nodup h1 h2).mpr h

theorem foldl_max_ge (x : Nat) : ∀ (xs : List Nat) (a : Nat), a ≤ xs.foldl max a ∧ ∀ y ∈ xs, y ≤ xs.foldl max a
  | [], a => ⟨Nat.le_refl _, by simp⟩
  | z :: xs, a => by
    have ih := foldl_max_ge x xs (max a z)
    simp only [List.foldl_cons, List.mem_cons]
    refine ⟨Nat.le_trans (Nat.le_max_left a z) ih.1, ?_⟩
    rintro y (rfl | hy)
    · exact Nat.le_trans (Nat.le_max_right a y) ih.1
    · exact ih.2 y hy

theorem foldl_max_mem : ∀ (xs : List Nat) (a : Nat), xs.foldl max a = a ∨ xs.foldl max a ∈ xs
  | [], a => Or.inl rfl
  | z :: xs, a => by
    simp only [List.foldl_cons, List.mem_cons]
    rcases foldl_max_mem xs (max a z) with h | h
    · rw [h]
      rcases Nat.le_total a z with h1 | h1
      · rw [Nat.max_eq_right h1]; exact Or.inr (Or.inl rfl)
      · rw [Nat.max_eq_left h1]; exact Or.inl rfl
    · exact Or.inr (Or.inr h)

/-! ### data model -/

theorem has_iff (c : Circuit) (n : Name) : c.has n = true ↔ n ∈ c.nodeNames := by
  simp [Circuit.has, Circuit.nodeNames]

theorem has_false_iff (c : Circuit) (n : Name) : c.has n = false ↔ n ∉ c.nodeNames := by
  rw [← has_iff]; simp

theorem mem_fanout {c : Circuit} {a b : Name} : b ∈ c.fanout a ↔ (a, b) ∈ c.edges := by
  simp [Circuit.fanout]

theorem mem_fanin {c : Circuit} {a b : Name} : a ∈ c.fanin b ↔ (a, b) ∈ c.edges := by
  simp [Circuit.fanin]

theorem any_not_has_false (c : Circuit) (ns : List Name) (h : ∀ n ∈ ns, c.has n = true) :
    ns.any (fun n => !c.has n) = false := by
  rw [List.any_eq_false]
  intro n hn
  simp [h n hn]

theorem any_not_has_true (c : Circuit) (ns : List Name) (h : ∃ n ∈ ns, c.has n = false) :
    ns.any (fun n => !c.has n) = true := by
  rw [List.any_eq_true]
  obtain ⟨n, hn, h⟩ := h
  exact ⟨n, hn, by simp [h]⟩

theorem lookup_of_mem {α} : ∀ (l : List (Name × α)) (n : Name) (a : α),
    (l.map (·.1)).Nodup → (n, a) ∈ l → l.lookup n = some a
  | [], _, _, _, h => by simp at h
  | (k, x) :: l, n, a, hnd, h => by
    simp only [List.map_cons, List.nodup_cons] at hnd
    simp only [List.mem_cons, Prod.mk.injEq] at h
    by_cases hk : n = k
    · subst hk
      rcases h with h | h
      · simp [List.lookup, h.2]
      · exact absurd (List.mem_map_of_mem (f := (·.1)) h) hnd.1
    · have h' : (n, a) ∈ l := by
        rcases h with h | h
        · exact absurd h.1 hk
        · exact h
      have : (n == k) = false := by simpa using hk
      simp [List.lookup, this, lookup_of_mem l n a hnd.2 h']

theorem mem_of_lookup {α} : ∀ (l : List (Name × α)) (n : Name) (a : α), l.lookup n = some a → (n, a) ∈ l
  | [], _, _, h => by simp at h
  | (k, x) :: l, n, a, h => by
    by_cases hk : n = k
    · subst hk
      simp only [List.lookup, beq_self_eq_true, Option.some.injEq] at h
      simp [h]
    · have : (n == k) = false := by simpa using hk
      simp only [List.lookup, this] at h
      exact List.mem_cons_of_mem _ (mem_of_lookup l n a h)

theorem lookup_isSome_iff {α} : ∀ (l : List (Name × α)) (n : Name), (l.lookup n).isSome = true ↔ n ∈ l.map (·.1)
  | [], _ => by simp
  | (k, x) :: l, n => by
    by_cases hk : n = k
    · subst hk; simp [List.lookup]
    · have : (n == k) = false := by simpa using hk
      simp only [List.lookup, this, List.map_cons, List.mem_cons, hk, false_or]
      exact lookup_isSome_iff l n

theorem attr_of_mem (c : Circuit) (hnd : c.nodeNames.Nodup) (n : Name) (a : Attr)
    (h : (n, a) ∈ c.nodes) : c.attr? n = some a :=
  lookup_of_mem c.nodes n a hnd h

theorem mem_filterType (c : Circuit) (hnd : c.nodeNames.Nodup) (ts : List String) (x : Name) :
    x ∈ c.filterType ts ↔ ∃ t, c.ty? x = some t ∧ t ∈ ts := by
  simp only [Circuit.filterType, List.mem_map, List.mem_filter]
  constructor
  · rintro ⟨p, ⟨hp, hq⟩, rfl⟩
    have ha := attr_of_mem c hnd p.1 p.2 hp
    cases hty : p.2.ty with
    | none => simp [hty] at hq
    | some t =>
      simp only [hty, List.contains_iff_mem] at hq
      exact ⟨t, by simp [Circuit.ty?, ha, hty], hq⟩
  · rintro ⟨t, hty, ht⟩
    simp only [Circuit.ty?] at hty
    cases ha : c.attr? x with
    | none => simp [ha] at hty
    | some a =>
      simp only [ha, Option.bind_some] at hty
      have hm := mem_of_lookup c.nodes x a ha
      exact ⟨(x, a), ⟨hm, by simp [hty, ht]⟩, rfl⟩

theorem mem_outputs (c : Circuit) (hnd : c.nodeNames.Nodup) (x : Name) :
    x ∈ c.outputs ↔ c.isOut x = true := by
  simp only [Circuit.outputs, List.mem_map, List.mem_filter, Circuit.isOut]
  constructor
  · rintro ⟨p, ⟨hp, hq⟩, rfl⟩
    rw [attr_of_mem c hnd p.1 p.2 hp]
    exact hq
  · intro h
    cases ha : c.attr? x with
    | none => simp [ha] at h
    | some a =>
      simp only [ha] at h
      exact ⟨(x, a), ⟨mem_of_lookup c.nodes x a ha, h⟩, rfl⟩

theorem mem_union (a b : List Name) (x : Name) : x ∈ Circuit.union a b ↔ x ∈ a ∨ x ∈ b := by
  simp only [Circuit.union, List.mem_append, List.mem_filter, Bool.not_eq_true', List.contains_eq_mem,
    decide_eq_false_iff_not]
  constructor
  · rintro (h | ⟨h, _⟩)
    · exact Or.inl h
    · exact Or.inr h
  · intro h
    by_cases ha : x ∈ a
    · exact Or.inl ha
    · rcases h with h | h
      · exact Or.inl h
      · exact Or.inr ⟨h, ha⟩

theorem any_ty_none_false (c : Circuit) (htyped : ∀ p ∈ c.nodes, p.2.ty.isSome = true) :
    c.nodes.any (fun p => p.2.ty.isNone) = false := by
  rw [List.any_eq_false]
  intro p hp
  have := htyped p hp
  cases h : p.2.ty <;> simp [h] at this ⊢

/-! ### paths over an arbitrary edge relation -/

inductive RPath (E : Name → Name → Prop) : Name → Name → Nat → Prop where
  | nil (a : Name) : RPath E a a 0
  | cons {a b d : Name} {k : Nat} : E a b → RPath E b d k → RPath E a d (k + 1)

theorem RPath.single {E : Name → Name → Prop} {a b : Name} (h : E a b) : RPath E a b 1 :=
  .cons h (.nil b)

theorem RPath.trans {E : Name → Name → Prop} {a b d : Name} {j k : Nat} (h1 : RPath E a b j) (h2 : RPath E b d k) :
    RPath E a d (j + k) := by
  induction h1 with
  | nil a => simpa using h2
  | cons he _ ih =>
    have := RPath.cons he (ih h2)
    rw [Nat.add_right_comm]
    exact this

theorem RPath.snoc {E : Name → Name → Prop} {a b d : Name} {k : Nat} (h1 : RPath E a b k) (h2 : E b d) :
    RPath E a d (k + 1) := h1.trans (.single h2)

theorem RPath.zero_eq {E : Name → Name → Prop} {a b : Name} (h : RPath E a b 0) : a = b := by
  cases h; rfl

theorem RPath.succ_inv {E : Name → Name → Prop} {a d : Name} {k : Nat} (h : RPath E a d (k + 1)) :
    ∃ b, E a b ∧ RPath E b d k := by
  cases h with
  | cons he hp => exact ⟨_, he, hp⟩

/-- last-edge decomposition -/
theorem RPath.snoc_inv {E : Name → Name → Prop} {a d : Name} {k : Nat} (h : RPath E a d (k + 1)) :
    ∃ b, RPath E a b k ∧ E b d := by
  induction k generalizing a with
  | zero =>
    obtain ⟨b, he, hp⟩ := h.succ_inv
    have := hp.zero_eq
    subst this
    exact ⟨a, .nil a, he⟩
  | succ k ih =>
    obtain ⟨b, he, hp⟩ := h.succ_inv
    obtain ⟨b', hp', he'⟩ := ih hp
    exact ⟨b', .cons he hp', he'⟩

theorem RPath.flip {E : Name → Name → Prop} {a b : Name} {k : Nat} (h : RPath E a b k) :
    RPath (fun x y => E y x) b a k := by
  induction h with
  | nil a => exact .nil a
  | cons he _ ih => exact ih.snoc he

theorem RPath.mono {E E' : Name → Name → Prop} (hE : ∀ a b, E a b → E' a b) {a b : Name} {k : Nat}
    (h : RPath E a b k) : RPath E' a b k := by
  induction h with
  | nil a => exact .nil a
  | cons he _ ih => exact .cons (hE _ _ he) ih

theorem RPath.rank_le {E : Name → Name → Prop} (rank : Name → Nat) (hr : ∀ a b, E a b → rank a < rank b)
    {a b : Name} {k : Nat} (h : RPath E a b k) : rank a + k ≤ rank b := by
  induction h with
  | nil a => simp
  | cons he _ ih => have := hr _ _ he; omega

/-- reachable in at least one step -/
def Plus (E : Name → Name → Prop) (a b : Name) : Prop := ∃ k, RPath E a b (k + 1)
/-- reachable in zero or more steps -/
def Star (E : Name → Name → Prop) (a b : Name) : Prop := ∃ k, RPath E a b k

theorem Star.refl {E : Name → Name → Prop} (a : Name) : Star E a a := ⟨0, .nil a⟩
theorem Plus.single {E : Name → Name → Prop} {a b : Name} (h : E a b) : Plus E a b := ⟨0, .single h⟩
theorem Plus.star {E : Name → Name → Prop} {a b : Name} (h : Plus E a b) : Star E a b := by
  obtain ⟨k, h⟩ := h; exact ⟨k + 1, h⟩
theorem Star.cases {E : Name → Name → Prop} {a b : Name} (h : Star E a b) : a = b ∨ Plus E a b := by
  obtain ⟨k, h⟩ := h
  cases k with
  | zero => exact Or.inl h.zero_eq
  | succ k => exact Or.inr ⟨k, h⟩
theorem Star.trans {E : Name → Name → Prop} {a b d : Name} (h1 : Star E a b) (h2 : Star E b d) : Star E a d := by
  obtain ⟨j, h1⟩ := h1; obtain ⟨k, h2⟩ := h2; exact ⟨j + k, h1.trans h2⟩
theorem Plus.trans_star {E : Name → Name → Prop} {a b d : Name} (h1 : Plus E a b) (h2 : Star E b d) :
    Plus E a d := by
  obtain ⟨j, h1⟩ := h1; obtain ⟨k, h2⟩ := h2
  refine ⟨j + k, ?_⟩
  have := h1.trans h2
  rwa [Nat.add_right_comm] at this
theorem Star.trans_plus {E : Name → Name → Prop} {a b d : Name} (h1 : Star E a b) (h2 : Plus E b d) :
    Plus E a d := by
  obtain ⟨j, h1⟩ := h1; obtain ⟨k, h2⟩ := h2
  exact ⟨j + k, h1.trans h2⟩
theorem Plus.trans {E : Name → Name → Prop} {a b d : Name} (h1 : Plus E a b) (h2 : Plus E b d) : Plus E a d :=
  h1.trans_star h2.star
theorem Plus.head {E : Name → Name → Prop} {a d : Name} (h : Plus E a d) : ∃ b, E a b ∧ Star E b d := by
  obtain ⟨k, h⟩ := h
  obtain ⟨b, he, hp⟩ := h.succ_inv
  exact ⟨b, he, k, hp⟩
theorem Plus.tail {E : Name → Name → Prop} {a d : Name} (h : Plus E a d) : ∃ b, Star E a b ∧ E b d := by
  obtain ⟨k, h⟩ := h
  obtain ⟨b, hp, he⟩ := h.snoc_inv
  exact ⟨b, ⟨k, hp⟩, he⟩
theorem Star.step {E : Name → Name → Prop} {a b d : Name} (h1 : Star E a b) (h2 : E b d) : Plus E a d :=
  h1.trans_plus (.single h2)
theorem Plus.of_step_star {E : Name → Name → Prop} {a b d : Name} (h1 : E a b) (h2 : Star E b d) : Plus E a d :=
  (Plus.single h1).trans_star h2

theorem Plus.rank_lt {E : Name → Name → Prop} (rank : Name → Nat) (hr : ∀ a b, E a b → rank a < rank b)
    {a b : Name} (h : Plus E a b) : rank a < rank b := by
  obtain ⟨k, h⟩ := h
  have := h.rank_le rank hr
  omega
theorem Star.rank_le {E : Name → Name → Prop} (rank : Name → Nat) (hr : ∀ a b, E a b → rank a < rank b)
    {a b : Name} (h : Star E a b) : rank a ≤ rank b := by
  obtain ⟨k, h⟩ := h
  have := h.rank_le rank hr
  omega

/-- the wire relation of a circuit -/
def EdgeRel (c : Circuit) : Name → Name → Prop := fun a b => (a, b) ∈ c.edges

end Q
end CG
