/- helper lemmas for C11: the node kinds of the result of `sensitivity_transform` and its `KView` -/
import CG.Proofs.SensCopy
set_option linter.unusedSimpArgs false
set_option linter.unusedVariables false
namespace CG
namespace Sens
open Circuit Miter
open Tx (addC)

/-- the kinds of nodes of the sensitivity circuit -/
inductive K where
  | inp (s : Name)
  | orig (y : Name)
  | inv (s0 y : Name)
  | dif (s0 : Name)
  | pc (y : Name)
  | out (o : Nat)
deriving DecidableEq

def K.name : K → Name
  | .inp s => s
  | .orig y => pref "orig" y
  | .inv s0 y => pref ("inv_" ++ s0) y
  | .dif s0 => "dif_out_" ++ s0
  | .pc y => pref "pc" y
  | .out o => "sen_out_" ++ toString o

/-- index / startpoint pairs, as enumerated by the transform -/
def idxL (sp : List Name) : List (Nat × Name) := sp.zipIdx.map (fun p => (p.2, p.1))

theorem mem_idxL {sp : List Name} {q : Nat × Name} : q ∈ idxL sp ↔ sp[q.1]? = some q.2 := by
  unfold idxL
  rw [List.mem_map]
  constructor
  · rintro ⟨p, hp, rfl⟩
    exact List.mem_zipIdx_iff_getElem?.1 hp
  · intro h
    exact ⟨(q.2, q.1), List.mem_zipIdx_iff_getElem?.2 h, rfl⟩

theorem idxL_snd (sp : List Name) : (idxL sp).map (·.2) = sp := by
  unfold idxL
  rw [List.map_map]
  exact List.zipIdx_map_fst 0 sp

theorem mem_idxL_snd {sp : List Name} {q : Nat × Name} (h : q ∈ idxL sp) : q.2 ∈ sp := by
  rw [← idxL_snd sp]
  exact List.mem_map.2 ⟨q, h, rfl⟩

theorem mem_idxL_lt {sp : List Name} {q : Nat × Name} (h : q ∈ idxL sp) : q.1 < sp.length := by
  have := mem_idxL.1 h
  exact (List.getElem?_eq_some_iff.1 this).1

theorem idxL_of_mem {sp : List Name} {s : Name} (h : s ∈ sp) : ∃ i, (i, s) ∈ idxL sp := by
  obtain ⟨i, hi, e⟩ := List.getElem_of_mem h
  exact ⟨i, mem_idxL.2 (by simp [List.getElem?_eq_getElem hi, e])⟩

theorem idxL_fst_inj {sp : List Name} {q q' : Nat × Name} (h : q ∈ idxL sp) (h' : q' ∈ idxL sp) (e : q.1 = q'.1) :
    q = q' := by
  have a := mem_idxL.1 h
  have b := mem_idxL.1 h'
  rw [e, b] at a
  injection a with a
  exact Prod.ext e a.symm

theorem idxL_snd_inj {sp : List Name} (hnd : sp.Nodup) {q q' : Nat × Name} (h : q ∈ idxL sp) (h' : q' ∈ idxL sp)
    (e : q.2 = q'.2) : q = q' := by
  have hnd' : ((idxL sp).map (·.2)).Nodup := by rw [idxL_snd]; exact hnd
  exact inj_of_nodup_map (·.2) (idxL sp) hnd' q h q' h' e

theorem nodup_of_map {α β : Type} (f : α → β) : ∀ (l : List α), (l.map f).Nodup → l.Nodup
  | [], _ => List.nodup_nil
  | a :: l, h => by
    simp only [List.map_cons, List.nodup_cons] at h ⊢
    exact ⟨fun hm => h.1 (List.mem_map.2 ⟨a, hm, rfl⟩), nodup_of_map f l h.2⟩

theorem idxL_nodup {sp : List Name} (hnd : sp.Nodup) : (idxL sp).Nodup := by
  have hnd' : ((idxL sp).map (·.2)).Nodup := by rw [idxL_snd]; exact hnd
  exact nodup_of_map _ _ hnd'

/-- type of a spliced node: inputs become buffers -/
def sty (t : String) : String := if t = "input" then "buf" else t

def styOf (c : Circuit) (y : Name) : String := ((c.ty? y).map sty).getD ""

theorem stripA_sty {a : Attr} {t : String} (h : a.ty = some t) : (stripA a).ty = some (sty t) := by
  unfold stripA sty
  by_cases ht : t = "input"
  · subst ht; simp [h]
  · have : a.ty ≠ some "input" := by rw [h]; intro e; injection e with e; exact ht e
    simp [this, h, ht]

section defs
variable (cone pcC : Circuit) (sp : List Name) (n : Name) (k : Nat)

def kty : K → String
  | .inp _ => "input"
  | .orig y => styOf cone y
  | .inv s0 y => if y = s0 then "not" else styOf cone y
  | .dif _ => "xor"
  | .pc y => styOf pcC y
  | .out _ => "buf"

def kfi : K → List K
  | .inp _ => []
  | .orig y => (cone.fanin y).map .orig ++ (if y ∈ sp then [.inp y] else [])
  | .inv s0 y => (cone.fanin y).map (.inv s0) ++ (if y ∈ sp then [.inp y] else [])
  | .dif s0 => [.orig n, .inv s0 n]
  | .pc y => (pcC.fanin y).map .pc ++
      ((idxL sp).filter (fun q => y == "in_" ++ toString q.1)).map (fun q => .dif q.2)
  | .out o => [.pc ("out_" ++ toString o)]

def copyK (q : Nat × Name) : List K := cone.nodeNames.map (.inv q.2) ++ [.dif q.2]

def KL : List K :=
  cone.nodeNames.map .orig ++ sp.map .inp ++ pcC.nodeNames.map .pc ++ (idxL sp).flatMap (copyK cone) ++
    (List.range k).map .out

end defs

/-! ### the raw structure of the result, phase by phase -/

structure Phases (cone pcC : Circuit) (sp : List Name) (n : Name) (k : Nat) (sen : Circuit) : Prop where
  wf : WF sen
  names : sen.nodeNames = cone.nodeNames.map (pref "orig") ++ sp ++ pcC.nodeNames.map (pref "pc") ++
    (idxL sp).flatMap (copyNames cone) ++ (List.range k).map (fun o => "sen_out_" ++ toString o)
  edges : ∀ e, e ∈ sen.edges ↔ (∃ e0 ∈ cone.edges, e = (pref "orig" e0.1, pref "orig" e0.2)) ∨
    (∃ s ∈ sp, e = (s, pref "orig" s)) ∨ (∃ e0 ∈ pcC.edges, e = (pref "pc" e0.1, pref "pc" e0.2)) ∨
    (∃ q ∈ idxL sp, CopyEdge cone sp n q e) ∨
    (∃ o, o < k ∧ e = (pref "pc" ("out_" ++ toString o), "sen_out_" ++ toString o))
  tyOrig : ∀ p ∈ cone.nodes, sen.ty? (pref "orig" p.1) = (stripA p.2).ty
  tyInp : ∀ s ∈ sp, sen.ty? s = some "input"
  tyPc : ∀ p ∈ pcC.nodes, sen.ty? (pref "pc" p.1) = (stripA p.2).ty
  tyCopy : ∀ q ∈ idxL sp, (∀ p ∈ cone.nodes, sen.ty? (pref ("inv_" ++ q.2) p.1) =
      if p.1 = q.2 ∧ q.2 ∈ sp then some "not" else (stripA p.2).ty) ∧
    sen.ty? ("dif_out_" ++ q.2) = some "xor"
  tyOut : ∀ o, o < k → sen.ty? ("sen_out_" ++ toString o) = some "buf"

theorem mem_edgesOf (c : Circuit) (name : Name) (e : Name × Name) :
    e ∈ edgesOf c name ↔ ∃ e0 ∈ c.edges, e = (pref name e0.1, pref name e0.2) := by
  unfold edgesOf
  rw [List.mem_map]
  constructor
  · rintro ⟨e0, h0, rfl⟩; exact ⟨e0, h0, rfl⟩
  · rintro ⟨e0, h0, rfl⟩; exact ⟨e0, h0, rfl⟩

theorem names_nodesOf (c : Circuit) (name : Name) : (nodesOf c name).map (·.1) = c.nodeNames.map (pref name) := by
  simp [nodesOf, Circuit.nodeNames, List.map_map, Function.comp_def]

theorem has_mono_of_names {A B : Circuit} {L : List Name} (h : B.nodeNames = A.nodeNames ++ L) {x : Name}
    (hx : A.has x = true) : B.has x = true := by
  rw [has_iff_mem, h]
  exact List.mem_append.2 (Or.inl ((has_iff_mem _ _).1 hx))

theorem has_new_of_names {A B : Circuit} {L : List Name} (h : B.nodeNames = A.nodeNames ++ L) {x : Name}
    (hx : x ∈ L) : B.has x = true := by
  rw [has_iff_mem, h]
  exact List.mem_append.2 (Or.inr hx)

theorem phases_of {cone pcC : Circuit} {sp : List Name} {n : Name} {k : Nat} {s0 s1 s2 s3 sen : Circuit}
    (wfcone : WF cone) (wfpc : WF pcC) (hsp : ∀ s ∈ sp, cone.has s = true)
    (h0 : ({} : Circuit).addSubcircuit cone "orig" [] = (s0, .ok))
    (h1 : sp.foldlM (fun acc s => addC acc (tieA s)) s0 = .ok s1)
    (h2 : s1.addSubcircuit pcC "pc" [] = (s2, .ok))
    (h3 : (idxL sp).foldlM (Tx.senCopy cone sp n) s2 = .ok s3)
    (h4 : (List.range k).foldlM (fun acc o => addC acc (outA o)) s3 = .ok sen) :
    Phases cone pcC sp n k sen := by
  obtain ⟨n0, e0, _, w0⟩ := sub_exact wf_empty wfcone h0
  obtain ⟨n1, e1, _, w1⟩ := foldAdd_ok tieA plain_tieA sp s0 s1 w0 h1
  obtain ⟨n2, e2, _, w2⟩ := sub_exact w1 wfpc h2
  obtain ⟨w3, nm3, e3, t3, c3⟩ := copiesFold wfcone (idxL sp) s2 s3 h3 w2
    (fun q hq => hsp _ (mem_idxL_snd hq))
  obtain ⟨n4, e4, _, w4⟩ := foldAdd_ok outA plain_outA (List.range k) s3 sen w3 h4
  have nm0 : s0.nodeNames = cone.nodeNames.map (pref "orig") := by
    rw [names_append n0, names_nodesOf]; rfl
  have nm1 : s1.nodeNames = s0.nodeNames ++ sp := by
    rw [names_append n1, List.map_map]
    congr 1
    exact List.map_id' _
  have nm2 : s2.nodeNames = s1.nodeNames ++ pcC.nodeNames.map (pref "pc") := by
    rw [names_append n2, names_nodesOf]
  have nm4 : sen.nodeNames = s3.nodeNames ++ (List.range k).map (fun o => "sen_out_" ++ toString o) := by
    rw [names_append n4, List.map_map]
    rfl
  -- monotonicity of `has` and of types
  have t01 : ∀ x, s0.has x = true → s1.ty? x = s0.ty? x := fun x hx => Arith.ty?_append_left n1 hx
  have t12 : ∀ x, s1.has x = true → s2.ty? x = s1.ty? x := fun x hx => Arith.ty?_append_left n2 hx
  have t34 : ∀ x, s3.has x = true → sen.ty? x = s3.ty? x := fun x hx => Arith.ty?_append_left n4 hx
  have m01 : ∀ x, s0.has x = true → s1.has x = true := fun x hx => has_mono_of_names nm1 hx
  have m12 : ∀ x, s1.has x = true → s2.has x = true := fun x hx => has_mono_of_names nm2 hx
  have m23 : ∀ x, s2.has x = true → s3.has x = true := fun x hx => has_mono_of_names nm3 hx
  have t24 : ∀ x, s2.has x = true → sen.ty? x = s2.ty? x := by
    intro x hx
    rw [t34 x (m23 x hx), t3 x hx]
  refine ⟨w4, ?_, ?_, ?_, ?_, ?_, ?_, ?_⟩
  · rw [nm4, nm3, nm2, nm1, nm0]
  · intro e
    rw [e4, List.mem_append, e3, e2, List.mem_append, e1, List.mem_append, e0, List.nil_append, mem_edgesOf,
      mem_edgesOf]
    have hties : e ∈ sp.flatMap (fun s => newEdges (tieA s)) ↔ ∃ s ∈ sp, e = (s, pref "orig" s) := by
      simp only [List.mem_flatMap, newEdges_tieA, List.mem_singleton]
    have houts : e ∈ (List.range k).flatMap (fun o => newEdges (outA o)) ↔
        ∃ o, o < k ∧ e = (pref "pc" ("out_" ++ toString o), "sen_out_" ++ toString o) := by
      simp only [List.mem_flatMap, newEdges_outA, List.mem_singleton, List.mem_range]
    rw [hties, houts]
    constructor
    · rintro ((((h | h) | h) | h) | h)
      · exact Or.inl h
      · exact Or.inr (Or.inl h)
      · exact Or.inr (Or.inr (Or.inl h))
      · exact Or.inr (Or.inr (Or.inr (Or.inl h)))
      · exact Or.inr (Or.inr (Or.inr (Or.inr h)))
    · rintro (h | h | h | h | h)
      · exact Or.inl (Or.inl (Or.inl (Or.inl h)))
      · exact Or.inl (Or.inl (Or.inl (Or.inr h)))
      · exact Or.inl (Or.inl (Or.inr h))
      · exact Or.inl (Or.inr h)
      · exact Or.inr h
  · intro p hp
    have hm : (pref "orig" p.1, stripA p.2) ∈ s0.nodes := by
      rw [n0]; exact List.mem_append.2 (Or.inr (List.mem_map.2 ⟨p, hp, rfl⟩))
    have h0' := has_of_mem hm
    rw [t24 _ (m12 _ (m01 _ h0')), t12 _ (m01 _ h0'), t01 _ h0', ty?, attr?_of_mem w0.nodup hm]
    rfl
  · intro s hs
    have hm : (s, newAttr (tieA s)) ∈ s1.nodes := by
      rw [n1]; exact List.mem_append.2 (Or.inr (List.mem_map.2 ⟨s, hs, rfl⟩))
    have h1' := has_of_mem hm
    rw [t24 _ (m12 _ h1'), t12 _ h1', ty?, attr?_of_mem w1.nodup hm]
    rfl
  · intro p hp
    have hm : (pref "pc" p.1, stripA p.2) ∈ s2.nodes := by
      rw [n2]; exact List.mem_append.2 (Or.inr (List.mem_map.2 ⟨p, hp, rfl⟩))
    rw [t24 _ (has_of_mem hm), ty?, attr?_of_mem w2.nodup hm]
    rfl
  · intro q hq
    obtain ⟨a, b⟩ := c3 q hq
    have hin : ∀ x, x ∈ copyNames cone q → s3.has x = true := by
      intro x hx
      apply has_new_of_names nm3
      exact List.mem_flatMap.2 ⟨q, hq, hx⟩
    refine ⟨?_, ?_⟩
    · intro p hp
      rw [t34 _ (hin _ ?_)]
      · exact a p hp
      · unfold copyNames
        exact List.mem_append.2 (Or.inl (List.mem_map.2 ⟨p.1, List.mem_map.2 ⟨p, hp, rfl⟩, rfl⟩))
    · rw [t34 _ (hin _ ?_)]
      · exact b
      · unfold copyNames
        exact List.mem_append.2 (Or.inr (by simp))
  · intro o ho
    have hm : ((outA o).n, newAttr (outA o)) ∈ sen.nodes := by
      rw [n4]; exact List.mem_append.2 (Or.inr (List.mem_map.2 ⟨o, List.mem_range.2 ho, rfl⟩))
    have : sen.ty? (outA o).n = some "buf" := by
      rw [ty?, attr?_of_mem w4.nodup hm]
      rfl
    exact this

/-! ### from the raw structure to the kind view -/

structure SenHyp (cone pcC : Circuit) (sp : List Name) (n : Name) (k : Nat) : Prop where
  lcone : LintClean cone
  lpc : LintClean pcC
  spnd : sp.Nodup
  spin : ∀ s ∈ sp, s ∈ cone.inputs
  inpsp : ∀ s ∈ cone.inputs, s ∈ sp
  nobbo : ∀ y, cone.ty? y ≠ some "bb_output"
  hn : cone.has n = true
  pcin : ∀ i, i < sp.length → "in_" ++ toString i ∈ pcC.inputs
  pcout : ∀ o, o < k → pcC.has ("out_" ++ toString o) = true

theorem mem_KL (cone pcC : Circuit) (sp : List Name) (k : Nat) (x : K) :
    x ∈ KL cone pcC sp k ↔ (∃ y ∈ cone.nodeNames, x = .orig y) ∨ (∃ s ∈ sp, x = .inp s) ∨
      (∃ y ∈ pcC.nodeNames, x = .pc y) ∨
      (∃ q ∈ idxL sp, (∃ y ∈ cone.nodeNames, x = .inv q.2 y) ∨ x = .dif q.2) ∨ (∃ o, o < k ∧ x = .out o) := by
  unfold KL copyK
  simp only [List.mem_append, List.mem_map, List.mem_flatMap, List.mem_singleton, List.mem_range]
  constructor
  · rintro ((((⟨y, hy, rfl⟩ | ⟨s, hs, rfl⟩) | ⟨y, hy, rfl⟩) | ⟨q, hq, ⟨y, hy, rfl⟩ | rfl⟩) | ⟨o, ho, rfl⟩)
    · exact Or.inl ⟨y, hy, rfl⟩
    · exact Or.inr (Or.inl ⟨s, hs, rfl⟩)
    · exact Or.inr (Or.inr (Or.inl ⟨y, hy, rfl⟩))
    · exact Or.inr (Or.inr (Or.inr (Or.inl ⟨q, hq, Or.inl ⟨y, hy, rfl⟩⟩)))
    · exact Or.inr (Or.inr (Or.inr (Or.inl ⟨q, hq, Or.inr rfl⟩)))
    · exact Or.inr (Or.inr (Or.inr (Or.inr ⟨o, ho, rfl⟩)))
  · rintro (⟨y, hy, rfl⟩ | ⟨s, hs, rfl⟩ | ⟨y, hy, rfl⟩ | ⟨q, hq, ⟨y, hy, rfl⟩ | rfl⟩ | ⟨o, ho, rfl⟩)
    · exact Or.inl (Or.inl (Or.inl (Or.inl ⟨y, hy, rfl⟩)))
    · exact Or.inl (Or.inl (Or.inl (Or.inr ⟨s, hs, rfl⟩)))
    · exact Or.inl (Or.inl (Or.inr ⟨y, hy, rfl⟩))
    · exact Or.inl (Or.inr ⟨q, hq, Or.inl ⟨y, hy, rfl⟩⟩)
    · exact Or.inl (Or.inr ⟨q, hq, Or.inr rfl⟩)
    · exact Or.inr ⟨o, ho, rfl⟩

theorem KL_names (cone pcC : Circuit) (sp : List Name) (k : Nat) :
    (KL cone pcC sp k).map K.name = cone.nodeNames.map (pref "orig") ++ sp ++ pcC.nodeNames.map (pref "pc") ++
      (idxL sp).flatMap (copyNames cone) ++ (List.range k).map (fun o => "sen_out_" ++ toString o) := by
  unfold KL copyK copyNames
  simp only [List.map_append, List.map_map, List.map_flatMap, Function.comp_def, K.name, List.map_cons, List.map_nil,
    List.map_id']

theorem styOf_of_mem {c : Circuit} (hnd : c.nodeNames.Nodup) {p : Name × Attr} (hp : p ∈ c.nodes) {t : String}
    (ht : p.2.ty = some t) : styOf c p.1 = sty t := by
  unfold styOf
  rw [ty?_of_mem hnd hp ht]
  rfl

theorem mem_names_exists {c : Circuit} {y : Name} (h : y ∈ c.nodeNames) : ∃ a, (y, a) ∈ c.nodes :=
  has_exists ((has_iff_mem c y).2 h)

end Sens
end CG
