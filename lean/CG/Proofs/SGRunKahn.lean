/- C17 (whole function) helpers, part 1: `depCyclicGo` is Kahn's algorithm — it answers `false` exactly when the node
   list has a listing in which every edge goes forward.  Pure list lemmas, no circuit involved. -/
import CG.SupergatesAlgo
namespace CG
namespace SGRun
open Supergates

/-- `l` lists its members so that no edge goes backwards and no member has a self-edge -/
def TopoL (es : List (Name × Name)) (l : List Name) : Prop :=
  l.Pairwise (fun a b => (b, a) ∉ es) ∧ ∀ a ∈ l, (a, a) ∉ es

/-- the members of `ns` without an incoming edge from `ns` -/
def freeOf (es : List (Name × Name)) (ns : List Name) : List Name :=
  ns.filter (fun n => !es.any (fun e => e.2 == n && ns.contains e.1))

theorem depCyclicGo_succ (es : List (Name × Name)) (f : Nat) (ns : List Name) :
    depCyclicGo es (f + 1) ns =
      if ns.isEmpty then false else if (freeOf es ns).isEmpty then true
      else depCyclicGo es f (ns.filter (fun n => !(freeOf es ns).contains n)) := rfl

theorem mem_freeOf {es : List (Name × Name)} {ns : List Name} {n : Name} :
    n ∈ freeOf es ns ↔ n ∈ ns ∧ ∀ a ∈ ns, (a, n) ∉ es := by
  unfold freeOf
  rw [List.mem_filter]
  apply and_congr_right
  intro _
  rw [Bool.not_eq_true', ← Bool.not_eq_true, List.any_eq_true]
  constructor
  · intro h a ha he
    exact h ⟨(a, n), he, by simp [ha]⟩
  · rintro h ⟨e, he, h2⟩
    simp only [Bool.and_eq_true, beq_iff_eq, List.contains_eq_mem, decide_eq_true_eq] at h2
    exact h e.1 h2.2 (by rw [← h2.1]; exact he)

theorem rest_eq (es : List (Name × Name)) (ns : List Name) :
    ns.filter (fun n => !(freeOf es ns).contains n) =
      ns.filter (fun n => !(fun n => !es.any (fun e => e.2 == n && ns.contains e.1)) n) := by
  apply List.filter_congr
  intro n hn
  congr 1
  rw [Bool.eq_iff_iff, List.contains_eq_mem, decide_eq_true_eq]
  unfold freeOf
  rw [List.mem_filter]
  exact ⟨fun h => h.2, fun h => ⟨hn, h⟩⟩

theorem free_rest_perm (es : List (Name × Name)) (ns : List Name) :
    (freeOf es ns ++ ns.filter (fun n => !(freeOf es ns).contains n)).Perm ns := by
  rw [rest_eq]
  exact List.filter_append_perm _ ns

/-- answer `false`: a forward listing exists -/
theorem kahn_sound (es : List (Name × Name)) :
    ∀ (f : Nat) (ns : List Name), depCyclicGo es f ns = false → ∃ l, l.Perm ns ∧ TopoL es l
  | 0, ns, h => by
    have : ns = [] := by
      cases ns with
      | nil => rfl
      | cons a t => simp [depCyclicGo] at h
    subst this
    exact ⟨[], List.Perm.refl _, List.Pairwise.nil, fun _ ha => absurd ha List.not_mem_nil⟩
  | f + 1, ns, h => by
    rw [depCyclicGo_succ] at h
    split at h
    · rename_i hemp
      have : ns = [] := List.isEmpty_iff.mp hemp
      subst this
      exact ⟨[], List.Perm.refl _, List.Pairwise.nil, fun _ ha => absurd ha List.not_mem_nil⟩
    · split at h
      · cases h
      · obtain ⟨l', hp, ht⟩ := kahn_sound es f _ h
        have hsub : ∀ b ∈ l', b ∈ ns := fun b hb => (List.mem_filter.mp (hp.subset hb)).1
        refine ⟨freeOf es ns ++ l', ?_, ?_, ?_⟩
        · exact (List.Perm.append_left _ hp).trans (free_rest_perm es ns)
        · rw [List.pairwise_append]
          refine ⟨?_, ht.1, ?_⟩
          · apply List.pairwise_of_forall_mem_list
            intro a ha b hb
            exact (mem_freeOf.mp ha).2 b (mem_freeOf.mp hb).1
          · intro a ha b hb
            exact (mem_freeOf.mp ha).2 b (hsub b hb)
        · intro a ha
          rcases List.mem_append.mp ha with ha | ha
          · exact (mem_freeOf.mp ha).2 a (mem_freeOf.mp ha).1
          · exact ht.2 a ha

/-- a forward listing exists: the answer is `false` (given enough fuel) -/
theorem kahn_complete (es : List (Name × Name)) :
    ∀ (f : Nat) (ns l : List Name), ns.length < f → l.Perm ns → TopoL es l → depCyclicGo es f ns = false
  | 0, _, _, hlen, _, _ => by omega
  | f + 1, ns, l, hlen, hp, ht => by
    rw [depCyclicGo_succ]
    cases l with
    | nil =>
      have : ns = [] := hp.symm.eq_nil
      subst this
      rfl
    | cons a l2 =>
      have ha : a ∈ ns := hp.subset (List.mem_cons_self ..)
      have hfree : a ∈ freeOf es ns := by
        refine mem_freeOf.mpr ⟨ha, fun b hb => ?_⟩
        rcases List.mem_cons.mp (hp.symm.subset hb) with rfl | hb
        · exact ht.2 b (List.mem_cons_self ..)
        · exact List.rel_of_pairwise_cons ht.1 hb
      have hne : ns.isEmpty = false := by
        cases ns with
        | nil => cases ha
        | cons _ _ => rfl
      have hfne : (freeOf es ns).isEmpty = false := by
        cases hq : freeOf es ns with
        | nil => rw [hq] at hfree; cases hfree
        | cons _ _ => rfl
      rw [hne, hfne]
      simp only [Bool.false_eq_true, if_false]
      apply kahn_complete es f _ ((a :: l2).filter (fun n => !(freeOf es ns).contains n)) ?_ (hp.filter _)
        ⟨ht.1.filter _, fun x hx => ht.2 x (List.mem_filter.mp hx).1⟩
      have : (ns.filter (fun n => !(freeOf es ns).contains n)).length < ns.length := by
        rw [List.length_filter_lt_length_iff_exists]
        exact ⟨a, ha, by simp [hfree]⟩
      omega

/-- the listing condition by positions -/
theorem topoL_iff_index (es : List (Name × Name)) (l : List Name) :
    TopoL es l ↔ ∀ i j (hi : i < l.length) (hj : j < l.length), (l[i], l[j]) ∈ es → i < j := by
  constructor
  · rintro ⟨hpw, hself⟩ i j hi hj he
    rcases Nat.lt_trichotomy i j with h | h | h
    · exact h
    · subst h
      exact absurd he (hself _ (List.getElem_mem hi))
    · exact absurd he (List.pairwise_iff_getElem.mp hpw j i hj hi h)
  · intro H
    refine ⟨List.pairwise_iff_getElem.mpr ?_, ?_⟩
    · intro i j hi hj hij he
      have := H j i hj hi he
      omega
    · intro a ha he
      obtain ⟨i, hi, rfl⟩ := List.mem_iff_getElem.mp ha
      exact Nat.lt_irrefl _ (H i i hi hi he)

/-- a permutation of the keys lifts to a permutation of the keyed list -/
theorem exists_perm_map {α : Type} (f : α → Name) :
    ∀ (l : List Name) (ms : List α), l.Perm (ms.map f) → ∃ p : List α, p.Perm ms ∧ p.map f = l
  | [], ms, h => by
    have : ms.map f = [] := h.symm.eq_nil
    have : ms = [] := List.map_eq_nil_iff.mp this
    subst this
    exact ⟨[], List.Perm.refl _, rfl⟩
  | a :: l, ms, h => by
    have hmem : a ∈ ms.map f := h.subset (List.mem_cons_self ..)
    obtain ⟨x, hx, rfl⟩ := List.mem_map.mp hmem
    obtain ⟨s, t, rfl⟩ := List.append_of_mem hx
    have h2 : l.Perm ((s ++ t).map f) := by
      have h3 : ((s ++ x :: t).map f).Perm (f x :: (s ++ t).map f) := by
        rw [List.map_append, List.map_append, List.map_cons]
        exact List.perm_middle
      exact (h.trans h3).cons_inv
    obtain ⟨p, hp, hm⟩ := exists_perm_map f l (s ++ t) h2
    exact ⟨x :: p, (hp.cons x).trans List.perm_middle.symm, by rw [List.map_cons, hm]⟩

/-- **Kahn's test is exact**, for keyed lists: with enough fuel the answer is `false` iff the keyed list has a
    permutation in which every edge between keys goes forward -/
theorem kahn_iff {α : Type} (key : α → Name) (es : List (Name × Name)) (ms : List α) (fuel : Nat)
    (hf : (ms.map key).length < fuel) :
    depCyclicGo es fuel (ms.map key) = false ↔
      ∃ perm : List α, perm.Perm ms ∧
        ∀ i j (hi : i < perm.length) (hj : j < perm.length), (key perm[i], key perm[j]) ∈ es → i < j := by
  constructor
  · intro h
    obtain ⟨l, hp, ht⟩ := kahn_sound es fuel _ h
    obtain ⟨perm, hpp, rfl⟩ := exists_perm_map key l ms hp
    refine ⟨perm, hpp, ?_⟩
    intro i j hi hj he
    have H := (topoL_iff_index es _).mp ht i j (by rw [List.length_map]; exact hi) (by rw [List.length_map]; exact hj)
    rw [List.getElem_map, List.getElem_map] at H
    exact H he
  · rintro ⟨perm, hpp, H⟩
    apply kahn_complete es fuel _ (perm.map key) hf (hpp.map key)
    rw [topoL_iff_index]
    intro i j hi hj he
    rw [List.getElem_map, List.getElem_map] at he
    exact H i j (by rw [List.length_map] at hi; exact hi) (by rw [List.length_map] at hj; exact hj) he

end SGRun
end CG
