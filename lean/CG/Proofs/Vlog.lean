/- helper lemmas for C02 (Verilog reader): entry point.
   * `VlogParse`  — the precedence-climbing parser reads back the canonical rendering (`VP.parse_print`, `VP.parse_parens`)
   * `VlogNames`  — synthesised names, expression vocabulary
   * `VlogAdd` / `VlogInv` / `VlogEval` / `VlogEvalThm` — `Circuit.add` as the transformer calls it, the invariant, `evalExpr`
   * `VlogRel` / `VlogAssign` / `VlogFold` — relabel with merge semantics, one assignment, the fold
   * `VlogTop` / `VlogMain` — constants, declarations, final steps, `VT.transform_ok`
   * `VlogPorts` — the port-list check (`VT.ports_checked`)
   * `VlogLex`    — the lexer and white space -/
import CG.Verilog
import CG.VerilogTables
import CG.Spec
import CG.Proofs.VlogParse
import CG.Proofs.VlogPorts
import CG.Proofs.VlogLex
namespace CG
end CG
