/- C03 helper (behavioural round trip WITH blackboxes): the structural invariant of the circuit under construction when
   blackbox pin nodes (`P`) are present: pins are frozen (attributes, incident wires), never used as gate operands.
   Generalises `VT.SI` / `VT.gateOut_of_spec` (CG/Proofs/VlogInv.lean). -/
import CG.Proofs.VlogMain
import CG.Proofs.VRoundBehBackC
import CG.Proofs.VRound
namespace CG
namespace VBB
open Verilog Circuit Ternary VT

/-- assumptions on the declared nets `D` (inputs `ins` among them) and the pin names `P` -/
structure DeclOK' (D P : Name → Prop) (ins : List Name) : Prop extends VT.DeclOK D ins where
  dp : ∀ n, D n → ¬ P n
  pNotSyn : ∀ n, P n → ¬ IsSyn n
  pNotTie : ∀ n, P n → n ≠ "tie_0" ∧ n ≠ "tie_1" ∧ n ≠ "tie_x"

/-- structural invariant of the circuit being built; `c0` is the state after the instance statements -/
structure SI' (D P : Name → Prop) (ins : List Name) (c0 c : Circuit) : Prop where
  wf : WF c
  cls : ∀ x, c.has x = true → x = "tie_0" ∨ x = "tie_1" ∨ x = "tie_x" ∨ D x ∨ IsSyn x ∨ P x
  tie0 : c.attr? "tie_0" = some { ty := some "0", out := some false }
  tie1 : c.attr? "tie_1" = some { ty := some "1", out := some false }
  tiex : c.attr? "tie_x" = some { ty := some "x", out := some false }
  typed : ∀ x a, c.attr? x = some a → x ≠ "tie_x" → ¬ P x → a.out = some false ∧ ∃ ty, a.ty = some ty ∧ ty ∈ okTypes
  inp : ∀ x, c.ty? x = some "input" ↔ x ∈ ins
  pinAttr : ∀ x, P x → c.attr? x = c0.attr? x
  pinEdge : ∀ e : Name × Name, (P e.1 ∨ P e.2) → (e ∈ c.edges ↔ e ∈ c0.edges)
  bbs : c.bbs = c0.bbs
  c0ns : ∀ x, c0.has x = true → ¬ IsSyn x
  c0wf : WF c0

/-- a net that may be used as a gate input: an existing node other than `tie_x`, or a declared net; never a pin -/
def Usable' (D P : Name → Prop) (c : Circuit) (u : Name) : Prop := ((c.has u = true ∧ u ≠ "tie_x") ∨ D u) ∧ ¬ P u

theorem Usable'.mono {D P : Name → Prop} {c c' : Circuit} {u : Name} (h : Usable' D P c u)
    (hm : ∀ x, c.has x = true → c'.has x = true) : Usable' D P c' u :=
  ⟨h.1.imp (fun h => ⟨hm u h.1, h.2⟩) id, h.2⟩

theorem SI'.has_tie0 {D P ins c0 c} (h : SI' D P ins c0 c) : c.has "tie_0" = true := has_of_attr' h.tie0
theorem SI'.has_tie1 {D P ins c0 c} (h : SI' D P ins c0 c) : c.has "tie_1" = true := has_of_attr' h.tie1
theorem SI'.has_tiex {D P ins c0 c} (h : SI' D P ins c0 c) : c.has "tie_x" = true := has_of_attr' h.tiex

theorem SI'.not_has_of_edge {D P ins c0 c} (h : SI' D P ins c0 c) {n : Name} (hn : c.has n = false) (e : Name × Name)
    (he : e ∈ c.edges) : e.1 ≠ n ∧ e.2 ≠ n := by
  obtain ⟨h1, h2⟩ := h.wf.closed e he
  constructor
  · rintro rfl; rw [hn] at h1; cases h1
  · rintro rfl; rw [hn] at h2; cases h2

/-- the type of a usable net that already exists is not a pin type -/
theorem SI'.usable_ty {D P ins c0 c} (hD : DeclOK' D P ins) (h : SI' D P ins c0 c) {u : Name} (hu : Usable' D P c u)
    (hh : c.has u = true) : ∃ tu, c.ty? u = some tu ∧ tu ≠ "bb_input" ∧ tu ≠ "bb_output" := by
  have hux : u ≠ "tie_x" := by
    rcases hu.1 with ⟨_, h⟩ | h
    · exact h
    · exact (hD.notTie u h).2.2
  obtain ⟨a, ha⟩ := Limit.attr_of_has hh
  obtain ⟨_, ty', h1, h2⟩ := h.typed u a ha hux hu.2
  refine ⟨ty', by rw [ty_of_attr ha]; exact h1, ?_, ?_⟩
  · rintro rfl; revert h2; decide
  · rintro rfl; revert h2; decide

/-- the `hfi` argument of `VR.add_ok_gen` -/
theorem SI'.usable_fi {D P ins c0 c} (hD : DeclOK' D P ins) (h : SI' D P ins c0 c) {u n : Name} (hu : Usable' D P c u) :
    u = n ∨ (∃ tu, c.ty? u = some tu ∧ tu ≠ "bb_input" ∧ tu ≠ "bb_output") ∨ (c.has u = false ∧ Limit.NameOK u) := by
  right
  cases hh : c.has u with
  | true => exact Or.inl (h.usable_ty hD hu hh)
  | false =>
    right
    refine ⟨rfl, ?_⟩
    rcases hu.1 with ⟨h1, _⟩ | h1
    · rw [hh] at h1; cases h1
    · exact hD.nameOK u h1

theorem okTypes_sup {ty : String} (h : ty ∈ okTypes) :
    ty ∈ Expected.supported_types ∧ ty ≠ "bb_input" ∧ ty ≠ "bb_output" := by
  simp only [okTypes, List.mem_cons, List.not_mem_nil, or_false] at h
  rcases h with rfl | rfl | rfl | rfl | rfl | rfl | rfl | rfl | rfl | rfl | rfl <;> decide

/-- what adding a fresh synthetic gate gives -/
structure GateOut' (D P : Name → Prop) (ins : List Name) (c0 c c' : Circuit) (n : Name) (ty : String)
    (fanin : List Name) : Prop where
  si : SI' D P ins c0 c'
  ext : Ext c c'
  syn : IsSyn n
  fresh : c.has n = false
  has : c'.has n = true
  noOut : ∀ e ∈ c'.edges, e.1 ≠ n
  ty : c'.attr? n = some { ty := some ty, out := some false }
  fanin : FaninIs c' n fanin

theorem gateOut_of_spec' {D P : Name → Prop} {ins : List Name} (hD : DeclOK' D P ins) {c0 c c' : Circuit}
    (hSI : SI' D P ins c0 c)
    {a : AddArgs} {n : Name} (s : AddSpec c a n c') (hbbs : c'.bbs = c.bbs) (hn : IsSyn n) (hfresh : c.has n = false)
    (hty : a.ty ∈ gateTys) (hout : a.output = false) (hfo : a.fanout = []) (hac : a.addConnected = true)
    (hfi : ∀ u ∈ a.fanin, Usable' D P c u) :
    GateOut' D P ins c0 c c' n a.ty a.fanin := by
  have hnotD : ¬ D n := fun h => hD.notSyn n h hn
  have hnotP : ¬ P n := fun h => hD.pNotSyn n h hn
  have hn_fi : n ∉ a.fanin := by
    intro hm
    rcases (hfi n hm).1 with ⟨h, _⟩ | h
    · rw [hfresh] at h; cases h
    · exact hnotD h
  have hedge : ∀ e, e ∈ c'.edges ↔ (e ∈ c.edges ∨ (e.1 ∈ a.fanin ∧ e.2 = n)) := by
    intro e; rw [s.edges, hfo]; simp
  have hold : ∀ x, c.has x = true → x ≠ n := by
    rintro x hx rfl; rw [hfresh] at hx; cases hx
  have hext : Ext c c' := by
    refine ⟨fun x h => (s.has x).mpr (Or.inl h), fun x h => s.attr_old x (hold x h) h,
      fun e h => (hedge e).mpr (Or.inl h), ?_, ?_⟩
    · intro e he
      rcases (hedge e).mp he with h | ⟨_, h⟩
      · exact Or.inl h
      · right; rw [h]; exact ⟨hn, hfresh⟩
    · intro x hx hx'
      by_cases hxn : x = n
      · left; rw [hxn]; exact hn
      · right; exact s.attr_new x hxn hx hx'
  have hself : c'.attr? n = some { ty := some a.ty, out := some false } := by
    rw [← hout]; exact s.attr_self
  have hgt := gateTys_ok hty
  have hhasn : c'.has n = true := (s.has n).mpr (Or.inr (Or.inl rfl))
  have hnoedge := hSI.not_has_of_edge hfresh
  -- attributes of every node of c'
  have hattr : ∀ x, c'.has x = true → x = n ∨ (c.has x = true ∧ c'.attr? x = c.attr? x) ∨
      (c.has x = false ∧ x ∈ a.fanin ∧ c'.attr? x = some bufAttr) := by
    intro x hx
    by_cases hxn : x = n
    · exact Or.inl hxn
    · right
      cases hcx : c.has x with
      | true => exact Or.inl ⟨rfl, s.attr_old x hxn hcx⟩
      | false =>
        right
        refine ⟨rfl, ?_, s.attr_new x hxn hcx hx⟩
        rcases (s.has x).mp hx with h | h | ⟨_, h⟩
        · rw [hcx] at h; cases h
        · exact absurd h hxn
        · exact h
  refine ⟨?_, hext, hn, hfresh, hhasn, ?_, hself, ?_⟩
  · constructor
    · refine ⟨s.nodupN hSI.wf.nodup, s.nodupE hSI.wf.edgesNodup, ?_⟩
      intro e he
      rcases (hedge e).mp he with h | ⟨h1, h2⟩
      · obtain ⟨g1, g2⟩ := hSI.wf.closed e h
        exact ⟨hext.mono _ g1, hext.mono _ g2⟩
      · exact ⟨(s.has e.1).mpr (Or.inr (Or.inr ⟨hac, h1⟩)), by rw [h2]; exact hhasn⟩
    · intro x hx
      rcases hattr x hx with rfl | ⟨h, _⟩ | ⟨_, h, _⟩
      · exact Or.inr (Or.inr (Or.inr (Or.inr (Or.inl hn))))
      · exact hSI.cls x h
      · rcases (hfi x h).1 with ⟨g, _⟩ | g
        · exact hSI.cls x g
        · exact Or.inr (Or.inr (Or.inr (Or.inl g)))
    · rw [hext.attr _ hSI.has_tie0]; exact hSI.tie0
    · rw [hext.attr _ hSI.has_tie1]; exact hSI.tie1
    · rw [hext.attr _ hSI.has_tiex]; exact hSI.tiex
    · intro x ax hx hxx hxp
      rcases hattr x (has_of_attr' hx) with rfl | ⟨_, h⟩ | ⟨_, _, h⟩
      · rw [hself] at hx
        injection hx with hx
        rw [← hx]
        exact ⟨rfl, a.ty, rfl, hgt.1⟩
      · rw [h] at hx; exact hSI.typed x ax hx hxx hxp
      · rw [h] at hx
        injection hx with hx
        rw [← hx]
        exact ⟨rfl, "buf", rfl, by decide⟩
    · intro x
      rw [← hSI.inp x]
      cases hx : c'.has x with
      | false =>
        rw [ty?_none_of_not_has hx]
        cases hcx : c.has x with
        | false => rw [ty?_none_of_not_has hcx]
        | true => rw [hext.mono x hcx] at hx; cases hx
      | true =>
        rcases hattr x hx with rfl | ⟨_, h⟩ | ⟨g, _, h⟩
        · rw [ty_of_attr hself, ty?_none_of_not_has hfresh]
          constructor
          · intro h; injection h with h; exact absurd h hgt.2.2.2.2
          · intro h; cases h
        · unfold Circuit.ty?; rw [h]
        · rw [ty_of_attr h, ty?_none_of_not_has g]
          simp [bufAttr]
    · -- pins keep their attributes
      intro x hp
      rw [← hSI.pinAttr x hp]
      cases hx : c'.has x with
      | false =>
        rw [attr?_none_of_not_has hx]
        cases hcx : c.has x with
        | false => rw [attr?_none_of_not_has hcx]
        | true => rw [hext.mono x hcx] at hx; cases hx
      | true =>
        rcases hattr x hx with rfl | ⟨_, h⟩ | ⟨_, h, _⟩
        · exact absurd hp hnotP
        · exact h
        · exact absurd hp (hfi x h).2
    · -- wires at pins are unchanged
      intro e hp
      rw [← hSI.pinEdge e hp, hedge]
      constructor
      · rintro (h | ⟨h1, h2⟩)
        · exact h
        · rcases hp with hp | hp
          · exact absurd hp (hfi _ h1).2
          · rw [h2] at hp; exact absurd hp hnotP
      · exact Or.inl
    · rw [hbbs, hSI.bbs]
    · exact hSI.c0ns
    · exact hSI.c0wf
  · intro e he hen
    rcases (hedge e).mp he with h | ⟨_, h⟩
    · exact (hnoedge e h).1 hen
    · apply hn_fi
      rw [← hen]
      rcases (hedge e).mp he with h' | ⟨h', _⟩
      · exact absurd hen (hnoedge e h').1
      · exact h'
  · intro u
    rw [hedge]
    constructor
    · rintro (h | ⟨h, _⟩)
      · exact absurd rfl (hnoedge _ h).2
      · exact h
    · intro h; exact Or.inr ⟨h, rfl⟩

end VBB
end CG
