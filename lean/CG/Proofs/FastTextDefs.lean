/- C14 (character level, fast parser) helper: the seven regular expressions of `fast_verilog.py` as `Re` trees, the
   character-level layout of the lines the writer emits, and the notion of a piece of text as one pattern sees it -/
import CG.FastVerilog
import CG.Proofs.BenchTextSearch
import CG.Proofs.BenchTextList
import CG.Proofs.VModTextDen
set_option linter.unusedSimpArgs false
namespace CG
namespace FT
open Regex BenchText

/-- `[^;]` -/
def nsemi : CSet := { neg := true, ranges := [(';', ';')] }
/-- `[^\s(]` -/
def nwsl : CSet := { neg := true, ranges := wsRanges ++ [('(', '(')] }
/-- `[^\s)]` -/
def nwsr : CSet := { neg := true, ranges := wsRanges ++ [(')', ')')] }
/-- `[a-zA-Z\d_']` -/
def idQ : CSet := { ranges := [('a', 'z'), ('A', 'Z'), ('0', '9'), ('_', '_'), ('\'', '\'')] }
/-- `\s+` -/
def ws1 : Re := .plus (.set wsS) true

def kModule : List Char := ['m', 'o', 'd', 'u', 'l', 'e']
def kInput : List Char := ['i', 'n', 'p', 'u', 't']
def kOutput : List Char := ['o', 'u', 't', 'p', 'u', 't']
def kWire : List Char := ['w', 'i', 'r', 'e']
def kAssign : List Char := ['a', 's', 's', 'i', 'g', 'n']

/-- `module\s+(.+?)\s*\(.*?\);` -/
def rxHdr : Re :=
  VMT.litThen kModule (.seq ws1 (.seq (.group 1 (.plus .any false)) (.seq ws (.seq (ch '(') (.seq (.star .any false)
    (.seq (ch ')') (ch ';')))))))
/-- `\bendmodule\b` -/
def rxEnd : Re := .seq .wordb (VMT.litThen VMT.kwE .wordb)
/-- `\b(KW)\s(.+?);` -/
def rxDecl (kw : List Char) : Re :=
  .seq .wordb (.seq (.group 1 (lit kw)) (.seq (.set wsS) (.seq (.group 2 (.plus .any false)) (ch ';'))))
/-- `([a-zA-Z_][a-zA-Z\d_]*)\s+([a-zA-Z_][a-zA-Z\d_]*)\s*\(([^;]+)\);` -/
def rxInst : Re :=
  .seq (.group 1 ident) (.seq ws1 (.seq (.group 2 ident) (.seq ws (.seq (ch '(') (.seq (.group 3 (.plus (.set nsemi) true))
    (.seq (ch ')') (ch ';')))))))
/-- `\.\s*([^\s(]+)\s*\(\s*([^\s)]+)\s*\)` -/
def rxPin : Re :=
  .seq (ch '.') (.seq ws (.seq (.group 1 (.plus (.set nwsl) true)) (.seq ws (.seq (ch '(') (.seq ws
    (.seq (.group 2 (.plus (.set nwsr) true)) (.seq ws (ch ')'))))))))
/-- `assign\s+([a-zA-Z_][a-zA-Z\d_]*)\s*=\s*([a-zA-Z\d_][a-zA-Z\d_']*)\s*;` -/
def rxAsg : Re :=
  VMT.litThen kAssign (.seq ws1 (.seq (.group 1 ident) (.seq ws (.seq (ch '=') (.seq ws
    (.seq (.group 2 (.seq (.set idC) (.star (.set idQ) true))) (.seq ws (ch ';'))))))))

theorem parse_rx0 : Regex.parse (FastVerilog.rx 0).1 = some (rxHdr, 1) ∧ (FastVerilog.rx 0).2 = true := by decide +kernel
theorem parse_rx1 : Regex.parse (FastVerilog.rx 1).1 = some (rxEnd, 0) ∧ (FastVerilog.rx 1).2 = true := by decide +kernel
theorem parse_rx2 : Regex.parse (FastVerilog.rx 2).1 = some (rxDecl kInput, 2) ∧ (FastVerilog.rx 2).2 = true := by
  decide +kernel
theorem parse_rx3 : Regex.parse (FastVerilog.rx 3).1 = some (rxInst, 3) ∧ (FastVerilog.rx 3).2 = true := by decide +kernel
theorem parse_rx4 : Regex.parse (FastVerilog.rx 4).1 = some (rxPin, 2) ∧ (FastVerilog.rx 4).2 = false := by decide +kernel
theorem parse_rx5 : Regex.parse (FastVerilog.rx 5).1 = some (rxAsg, 2) ∧ (FastVerilog.rx 5).2 = false := by decide +kernel
theorem parse_rx6 : Regex.parse (FastVerilog.rx 6).1 = some (rxDecl kOutput, 2) ∧ (FastVerilog.rx 6).2 = true := by
  decide +kernel

/-! ### lines of the module text, as characters -/

/-- `  KW NAME;\n` -/
def declLine (kw n : List Char) : List Char := ' ' :: ' ' :: (kw ++ ' ' :: (n ++ [';', '\n']))
/-- `  TY INST(ARGS);\n` -/
def gateLine (ty inst args : List Char) : List Char := ' ' :: ' ' :: (ty ++ ' ' :: (inst ++ '(' :: (args ++ [')', ';', '\n'])))
/-- `  TY INST (PINS);\n` -/
def bbLine (ty inst pins : List Char) : List Char :=
  ' ' :: ' ' :: (ty ++ ' ' :: (inst ++ ' ' :: '(' :: (pins ++ [')', ';', '\n'])))
/-- `  assign L = R;\n` -/
def asgLine (l r : List Char) : List Char := ' ' :: ' ' :: (kAssign ++ ' ' :: (l ++ ' ' :: '=' :: ' ' :: (r ++ [';', '\n'])))

/-- characters of a positional connection list: identifier characters, `'`, `,` and blank -/
def AllArgQ (w : List Char) : Prop := ∀ x ∈ w, idQ.mem x = true ∨ x = ',' ∨ x = ' '
/-- characters of a named connection list: additionally `.`, `(` and `)` -/
def AllPinQ (w : List Char) : Prop := ∀ x ∈ w, idQ.mem x = true ∨ x = ',' ∨ x = ' ' ∨ x = '.' ∨ x = '(' ∨ x = ')'
/-- a right-hand side: an identifier or a sized constant -/
def RhsL (w : List Char) : Prop := ∃ x r, w = x :: r ∧ idC.mem x = true ∧ ∀ y ∈ r, idQ.mem y = true

/-- a list printed with `, ` between the elements -/
def commaSep (ws : List (List Char)) : List Char := [',', ' '].intercalate ws
/-- `.PIN(NET)` (`NET` empty for an unconnected pin) -/
def pinT (n o : List Char) : List Char := '.' :: (n ++ '(' :: (o ++ [')']))
/-- the named connection list of a blackbox instance -/
def pinsT (ps : List (List Char × List Char)) : List Char := commaSep (ps.map (fun q => pinT q.1 q.2))

/-! ### pieces -/

/-- a piece of text as one pattern sees it: no match attempt starting inside `lead` succeeds; then
    `hit = none` — no match attempt starting inside `chars` succeeds;
    `hit = some gs` — the match attempt at the first character of `chars` succeeds, ends at its end and captures `gs` -/
structure Piece where
  lead : List Char
  chars : List Char
  hit : Option (List String)

def Piece.text (c : Piece) : List Char := c.lead ++ c.chars

def NoneIn (ctx : Ctx) (r : Re) (a b : Nat) : Prop := ∀ i, a ≤ i → i < b → m ctx (fuelFor ctx.s) r i [] k0 = none

def PieceOK (ctx : Ctx) (r : Re) (ng : Nat) (c : Piece) : Prop :=
  ∀ p rest, p ≤ ctx.s.size → (txt ctx).drop p = c.lead ++ (c.chars ++ rest) →
    NoneIn ctx r p (p + c.lead.length) ∧
    match c.hit with
    | none => NoneIn ctx r (p + c.lead.length) (p + c.lead.length + c.chars.length)
    | some gs => c.chars ≠ [] ∧ ∃ caps, m ctx (fuelFor ctx.s) r (p + c.lead.length) [] k0 =
        some (p + c.lead.length + c.chars.length, caps) ∧ grp ctx ng caps = gs

/-- no declarative match starts at a non-empty suffix of `l` (whatever follows): no match attempt inside `l` succeeds -/
theorem noneIn_of_den (ctx : Ctx) (r : Re) (l : List Char)
    (h : ∀ u t rest s' c', u ++ t = l → t ≠ [] → ¬ Den ctx r (t ++ rest) [] s' c')
    (p : Nat) (rest : List Char) (hp : p ≤ ctx.s.size) (hd : (txt ctx).drop p = l ++ rest) :
    NoneIn ctx r p (p + l.length) := by
  intro i h1 h2
  have hle := le_of_drop ctx hp hd
  have hsplit : l.take (i - p) ++ l.drop (i - p) = l := List.take_append_drop _ _
  have hne : l.drop (i - p) ≠ [] := by
    intro e
    have := congrArg List.length e
    rw [List.length_drop, List.length_nil] at this
    omega
  have hd' : (txt ctx).drop i = l.drop (i - p) ++ rest := by
    have : (txt ctx).drop p = l.take (i - p) ++ (l.drop (i - p) ++ rest) := by
      rw [← List.append_assoc, hsplit, hd]
    have h3 := drop_add ctx this
    rw [List.length_take, Nat.min_eq_left (by omega)] at h3
    rw [← h3]
    congr 1
    omega
  apply m_none ctx _ _ i (by omega)
  intro s' c'
  rw [hd']
  exact h _ _ rest s' c' hsplit hne

/-- a missed piece, from the declarative semantics -/
theorem pieceOK_miss (ctx : Ctx) (r : Re) (ng : Nat) (l : List Char)
    (h : ∀ u t rest s' c', u ++ t = l → t ≠ [] → ¬ Den ctx r (t ++ rest) [] s' c') : PieceOK ctx r ng ⟨[], l, none⟩ := by
  intro p rest hp hd
  refine ⟨fun i h1 h2 => by simp at h2; omega, ?_⟩
  show NoneIn ctx r (p + 0) (p + 0 + l.length)
  exact noneIn_of_den ctx r l h p rest hp hd

/-- the same with the position in the text known (needed for `\b`): `txt ctx = pre ++ (t ++ rest)` -/
theorem pieceOK_miss_ctx (ctx : Ctx) (r : Re) (ng : Nat) (l : List Char)
    (h : ∀ pre u t rest s' c', txt ctx = pre ++ (u ++ (t ++ rest)) → u ++ t = l → t ≠ [] →
      ¬ Den ctx r (t ++ rest) [] s' c') : PieceOK ctx r ng ⟨[], l, none⟩ := by
  intro p rest hp hd
  refine ⟨fun i h1 h2 => by simp at h2; omega, ?_⟩
  show NoneIn ctx r (p + 0) (p + 0 + l.length)
  have hd : (txt ctx).drop p = l ++ rest := hd
  intro i h1 h2
  have hle := le_of_drop ctx hp hd
  have hsplit : l.take (i - p) ++ l.drop (i - p) = l := List.take_append_drop _ _
  have hne : l.drop (i - p) ≠ [] := by
    intro e
    have := congrArg List.length e
    rw [List.length_drop, List.length_nil] at this
    omega
  have hd' : (txt ctx).drop i = l.drop (i - p) ++ rest := by
    have : (txt ctx).drop p = l.take (i - p) ++ (l.drop (i - p) ++ rest) := by
      rw [← List.append_assoc, hsplit, hd]
    have h3 := drop_add ctx this
    rw [List.length_take, Nat.min_eq_left (by omega)] at h3
    rw [← h3]
    congr 1
    omega
  apply m_none ctx _ _ i (by omega)
  intro s' c'
  rw [hd']
  refine h ((txt ctx).take p) _ _ rest s' c' ?_ hsplit hne
  rw [← List.append_assoc (l.take (i - p)), hsplit, ← hd, List.take_append_drop]

/-- scanning a text made of pieces followed by a tail in which nothing matches -/
theorem scan_aux (ctx : Ctx) (r : Re) (ng : Nat) (tail : List Char)
    (htail : ∀ i, ctx.s.size - tail.length ≤ i → i ≤ ctx.s.size → m ctx (fuelFor ctx.s) r i [] k0 = none) :
    ∀ (cs : List Piece) (p fa : Nat), (∀ c ∈ cs, PieceOK ctx r ng c) → p ≤ ctx.s.size →
      (txt ctx).drop p = (cs.map Piece.text).flatten ++ tail → ctx.s.size + 2 ≤ fa + p →
      (allMatches ctx r ng fa p).map (fun mt => mt.groups.map (·.getD "")) = cs.filterMap (·.hit)
  | [], p, fa, _, hp, hd, hfa => by
    obtain ⟨fa', rfl⟩ : ∃ fa', fa = fa' + 1 := ⟨fa - 1, by omega⟩
    simp only [List.map_nil, List.flatten_nil, List.nil_append] at hd
    have hl := congrArg List.length hd
    rw [drop_length] at hl
    simp only [allMatches]
    have h1 := sf_skip ctx r (fuelFor ctx.s) (ctx.s.size - p) p (by omega)
      (fun i h1 h2 => htail i (by omega) (by omega))
    rw [h1, sf_end ctx r _ (by omega) (htail _ (by omega) (Nat.le_refl _))]
    rfl
  | c :: cs, p, fa, hok, hp, hd, hfa => by
    simp only [List.map_cons, List.flatten_cons, List.append_assoc, Piece.text] at hd
    have hle0 := le_of_drop ctx hp hd
    have hd0 := drop_add ctx hd
    have hle := le_of_drop ctx hle0 hd0
    have hd' := drop_add ctx hd0
    obtain ⟨hlead, hc⟩ := hok c (by simp) p _ hp hd
    have ih := fun fa' (hfa' : ctx.s.size + 2 ≤ fa' + (p + c.lead.length + c.chars.length)) =>
      scan_aux ctx r ng tail htail cs (p + c.lead.length + c.chars.length) fa' (fun x hx => hok x (by simp [hx])) hle
        (by simpa [Piece.text] using hd') hfa'
    rw [am_congr ctx r ng fa p (p + c.lead.length) (sf_skip ctx r _ c.lead.length p (by omega) hlead)]
    cases hh : c.hit with
    | none =>
      rw [hh] at hc
      simp only [] at hc
      rw [List.filterMap_cons_none hh]
      rw [am_congr ctx r ng fa (p + c.lead.length) (p + c.lead.length + c.chars.length)
        (sf_skip ctx r _ c.chars.length (p + c.lead.length) (by omega) hc)]
      exact ih fa (by omega)
    | some gs =>
      rw [hh] at hc
      obtain ⟨hne, caps, hm, hg⟩ := hc
      rw [List.filterMap_cons_some hh]
      obtain ⟨fa', rfl⟩ : ∃ fa', fa = fa' + 1 := ⟨fa - 1, by omega⟩
      have hpos : 0 < c.chars.length := List.length_pos_iff.mpr hne
      simp only [allMatches]
      rw [sf_hit ctx r _ hle0 hm]
      simp only [List.map_cons, grp_mkMatch, hg]
      have hb : ((p + c.lead.length + c.chars.length) == (p + c.lead.length)) = false := by
        rw [beq_eq_false_iff_ne]; omega
      simp only [hb, Bool.false_eq_true, if_false]
      congr 1
      exact ih fa' (by omega)

/-- **all matches of a pattern in a text made of pieces** -/
theorem scan_pieces (ctx : Ctx) (r : Re) (ng : Nat) (cs : List Piece) (tail : List Char)
    (hok : ∀ c ∈ cs, PieceOK ctx r ng c)
    (htail : ∀ i, ctx.s.size - tail.length ≤ i → i ≤ ctx.s.size → m ctx (fuelFor ctx.s) r i [] k0 = none)
    (ht : txt ctx = (cs.map Piece.text).flatten ++ tail) :
    (allMatches ctx r ng (ctx.s.size + 2) 0).map (fun mt => mt.groups.map (·.getD "")) = cs.filterMap (·.hit) :=
  scan_aux ctx r ng tail htail cs 0 _ hok (Nat.zero_le _) (by rw [List.drop_zero, ht]) (by omega)

/-! ### lazy quantifiers -/

/-- `.*?` under DOTALL: the continuation is tried at every position in turn; the first success wins -/
theorem lazy_star_sound (ctx : Ctx) (hd : ctx.dotall = true) (k : Nat → Caps → Option (Nat × Caps)) (caps : Caps)
    (x : Nat × Caps) : ∀ (fuel pos : Nat), m ctx fuel (.star .any false) pos caps k = some x →
    ∃ n, k (pos + n) caps = some x ∧ (∀ j, j < n → k (pos + j) caps = none) ∧ (n = 0 ∨ pos + n ≤ ctx.s.size) := by
  intro fuel
  induction fuel with
  | zero => intro pos h; simp [m] at h
  | succ f ih =>
    intro pos h
    simp only [m, Bool.false_eq_true, if_false] at h
    split at h
    · rename_i res hres
      exact ⟨0, by rw [Nat.add_zero, hres, h], fun j hj => by omega, Or.inl rfl⟩
    · rename_i hnone
      cases f with
      | zero => simp [m] at h
      | succ f' =>
        rw [m] at h
        split at h
        · rename_i hlt
          simp only [hd, Bool.true_or, if_true] at h
          have hne : ((pos + 1) == pos) = false := by rw [beq_eq_false_iff_ne]; omega
          simp only [hne, Bool.false_eq_true, if_false] at h
          obtain ⟨n, h1, h2, h3⟩ := ih (pos + 1) h
          refine ⟨n + 1, by rw [← h1]; congr 1; omega, ?_, Or.inr (by omega)⟩
          intro j hj
          cases j with
          | zero => exact hnone
          | succ j =>
            have := h2 j (by omega)
            rw [← this]; congr 1; omega
        · cases h

/-- `.+?` under DOTALL -/
theorem lazy_plus_sound (ctx : Ctx) (hd : ctx.dotall = true) (k : Nat → Caps → Option (Nat × Caps)) (caps : Caps)
    (x : Nat × Caps) (fuel pos : Nat) (h : m ctx fuel (.plus .any false) pos caps k = some x) :
    ∃ n, k (pos + 1 + n) caps = some x ∧ (∀ j, j < n → k (pos + 1 + j) caps = none) ∧ pos + 1 + n ≤ ctx.s.size := by
  cases fuel with
  | zero => simp [m] at h
  | succ f =>
    rw [m] at h
    cases f with
    | zero => simp [m] at h
    | succ f' =>
      rw [m] at h
      split at h
      · rename_i hlt
        simp only [hd, Bool.true_or, if_true] at h
        obtain ⟨n, h1, h2, h3⟩ := lazy_star_sound ctx hd k caps x _ _ h
        exact ⟨n, h1, h2, by omega⟩
      · cases h

end FT
end CG
