/- circuit-level lemmas for C01: node lookups, `cnfGo`/`cnf` membership, and the four global statements
   in a form that does not mention `Clean`/`ext` (those live in CG/Props/C01.lean) -/
import CG.Proofs.Tseitin
set_option linter.unusedSimpArgs false
namespace CG
namespace Tseitin

/-! ## node lookups -/

theorem lookup_of_mem_nodup {β : Type} : ∀ (l : List (Name × β)), (l.map (·.1)).Nodup → ∀ p ∈ l,
    l.lookup p.1 = some p.2 := by
  intro l
  induction l with
  | nil => intro _ p hp; cases hp
  | cons q l ih =>
    intro hnd p hp
    obtain ⟨qk, qv⟩ := q
    rw [List.map_cons, List.nodup_cons] at hnd
    rw [List.lookup_cons]
    rcases List.mem_cons.mp hp with rfl | hp
    · simp
    · have hne : ¬ (p.1 = qk) := by
        intro h
        exact hnd.1 (h ▸ List.mem_map.mpr ⟨p, hp, rfl⟩)
      have : (p.1 == qk) = false := by simpa using hne
      rw [this]
      exact ih hnd.2 p hp

theorem mem_of_lookup {β : Type} : ∀ (l : List (Name × β)) (k : Name) (v : β),
    l.lookup k = some v → (k, v) ∈ l := by
  intro l
  induction l with
  | nil => intro k v h; simp at h
  | cons q l ih =>
    intro k v h
    obtain ⟨qk, qv⟩ := q
    rw [List.lookup_cons] at h
    by_cases hk : k = qk
    · subst hk; simp at h; subst h; simp
    · have : (k == qk) = false := by simpa using hk
      rw [this] at h
      exact List.mem_cons_of_mem _ (ih k v h)

theorem ty_of_mem (c : Circuit) (hnd : c.nodeNames.Nodup) (p : Name × Attr) (hp : p ∈ c.nodes) :
    c.ty? p.1 = p.2.ty := by
  unfold Circuit.ty? Circuit.attr?
  rw [lookup_of_mem_nodup c.nodes hnd p hp]
  rfl

theorem mem_of_ty (c : Circuit) (n : Name) (t : String) (h : c.ty? n = some t) :
    ∃ p ∈ c.nodes, p.1 = n ∧ p.2.ty = some t := by
  unfold Circuit.ty? Circuit.attr? at h
  cases ha : c.nodes.lookup n with
  | none => rw [ha] at h; simp at h
  | some a =>
    rw [ha] at h
    exact ⟨(n, a), mem_of_lookup _ _ _ ha, rfl, h⟩

theorem mem_nodeNames (c : Circuit) (n : Name) : n ∈ c.nodeNames ↔ ∃ p ∈ c.nodes, p.1 = n := by
  simp [Circuit.nodeNames]

theorem has_iff (c : Circuit) (n : Name) : c.has n = true ↔ n ∈ c.nodeNames := by
  simp [Circuit.has, Circuit.nodeNames]

/-! ## `NodeOK` on the reordered fan-in -/

theorem gateEq_iff_nodeOK (c : Circuit) (ord : Ord) (hord : ∀ l, (ord l).Perm l) (σ : Var → Bool)
    (n : Name) (t : String) :
    GateEq σ t n (ord (c.fanin n)) ↔ NodeOK c (fun m => σ (.node m)) n t := by
  unfold GateEq NodeOK
  rw [gateFn_perm t ((hord (c.fanin n)).map fun m => σ (.node m))]

/-! ## `cnfGo` and `cnf` -/

theorem cnfGo_ok (c : Circuit) (ord : Ord) : ∀ ns : List Name,
    (∀ n ∈ ns, ∃ cls, cnfNode c ord n = .ok cls) → ∃ l, cnfGo c ord ns = .ok l := by
  intro ns
  induction ns with
  | nil => intro _; exact ⟨[], rfl⟩
  | cons n ns ih =>
    intro h
    obtain ⟨cls, hc⟩ := h n (by simp)
    obtain ⟨l, hl⟩ := ih (fun m hm => h m (List.mem_cons_of_mem _ hm))
    exact ⟨(n, cls) :: l, by simp [cnfGo, hc, hl, bind, Except.bind, pure, Except.pure]⟩

theorem cnfGo_mem (c : Circuit) (ord : Ord) : ∀ (ns : List Name) (l : List (Name × List Clause)),
    cnfGo c ord ns = .ok l → ∀ p, p ∈ l ↔ (p.1 ∈ ns ∧ cnfNode c ord p.1 = .ok p.2) := by
  intro ns
  induction ns with
  | nil =>
    intro l h p
    simp [cnfGo] at h
    subst h
    simp
  | cons n ns ih =>
    intro l h p
    unfold cnfGo at h
    cases hc : cnfNode c ord n with
    | error e => rw [hc] at h; simp [bind, Except.bind] at h
    | ok cls =>
      cases hr : cnfGo c ord ns with
      | error e => rw [hc, hr] at h; simp [bind, Except.bind] at h
      | ok rest =>
        rw [hc, hr] at h
        simp only [bind, Except.bind, pure, Except.pure, Except.ok.injEq] at h
        subst h
        rw [List.mem_cons, ih rest hr p, List.mem_cons]
        constructor
        · rintro (rfl | ⟨h1, h2⟩)
          · exact ⟨Or.inl rfl, hc⟩
          · exact ⟨Or.inr h1, h2⟩
        · rintro ⟨rfl | h1, h2⟩
          · left
            rw [hc] at h2
            cases h2
            rfl
          · exact Or.inr ⟨h1, h2⟩

theorem cnf_ok_of (c : Circuit) (ord : Ord)
    (h : ∀ n ∈ ord c.nodeNames, ∃ cls, cnfNode c ord n = .ok cls) : ∃ f, cnf c ord = .ok f := by
  obtain ⟨l, hl⟩ := cnfGo_ok c ord _ h
  exact ⟨_, by rw [cnf, hl]; rfl⟩

theorem cnf_mem (c : Circuit) (ord : Ord) (f : CNF) (hf : cnf c ord = .ok f) (cl : Clause) :
    cl ∈ f ↔ ∃ n ∈ ord c.nodeNames, ∃ cls, cnfNode c ord n = .ok cls ∧ cl ∈ cls := by
  unfold cnf at hf
  cases hl : cnfGo c ord (ord c.nodeNames) with
  | error e => rw [hl] at hf; cases hf
  | ok l =>
    rw [hl] at hf
    simp only [Except.map, Except.ok.injEq] at hf
    subst hf
    rw [List.mem_flatMap]
    constructor
    · rintro ⟨p, hp, hcl⟩
      obtain ⟨h1, h2⟩ := (cnfGo_mem c ord _ l hl p).mp hp
      exact ⟨p.1, h1, p.2, h2, hcl⟩
    · rintro ⟨n, hn, cls, hc, hcl⟩
      exact ⟨(n, cls), (cnfGo_mem c ord _ l hl (n, cls)).mpr ⟨hn, hc⟩, hcl⟩

/-! ## the global statements -/

section global
variable (c : Circuit) (ord : Ord) (hord : ∀ l, (ord l).Perm l)
  (hnd : c.nodeNames.Nodup)
  (htyped : ∀ p ∈ c.nodes, ∃ t, p.2.ty = some t ∧ t ∈ Expected.supported_types ∧ t ≠ "x")
  (hsingle : ∀ n t, c.ty? n = some t → t ∈ ["buf", "not", "bb_input"] → (c.fanin n).length ≤ 1)
  (hmulti : ∀ n t, c.ty? n = some t → t ∈ ["and", "nand", "or", "nor", "xor", "xnor"] →
    1 ≤ (c.fanin n).length)
include hord hnd htyped hsingle hmulti

/-- the clauses of a node of a clean circuit, with their specification -/
theorem node_circ (p : Name × Attr) (hp : p ∈ c.nodes) :
    ∃ t cls, p.2.ty = some t ∧ cnfNode c ord p.1 = .ok cls ∧ NodeSpec t p.1 (ord (c.fanin p.1)) cls := by
  obtain ⟨t, ht, hsup, hx⟩ := htyped p hp
  have hty : c.ty? p.1 = some t := by rw [ty_of_mem c hnd p hp, ht]
  have hlen : (ord (c.fanin p.1)).length = (c.fanin p.1).length := (hord _).length_eq
  obtain ⟨cls, hb, hs⟩ := node_spec t p.1 (ord (c.fanin p.1)) hsup hx
    (fun h => by rw [hlen]; exact hsingle p.1 t hty h)
    (fun h => by rw [hlen]; exact hmulti p.1 t hty h)
  refine ⟨t, cls, ht, ?_, hs⟩
  rw [cnfNode_eq, hty]
  exact hb

theorem cnf_ok' : ∃ f, cnf c ord = .ok f := by
  apply cnf_ok_of
  intro n hn
  have hn' : n ∈ c.nodeNames := (hord _).mem_iff.mp hn
  obtain ⟨p, hp, rfl⟩ := (mem_nodeNames c n).mp hn'
  obtain ⟨t, cls, _, hc, _⟩ := node_circ c ord hord hnd htyped hsingle hmulti p hp
  exact ⟨cls, hc⟩

theorem cnf_sound' (f : CNF) (hf : cnf c ord = .ok f) (σ : Var → Bool) (hσ : CNF.sat σ f = true) :
    Consistent c (fun n => σ (.node n)) := by
  intro p hp t ht
  obtain ⟨t', cls, ht', hc, hs⟩ := node_circ c ord hord hnd htyped hsingle hmulti p hp
  rw [ht] at ht'
  cases ht'
  rw [← gateEq_iff_nodeOK c ord hord]
  apply hs.sound
  rw [cnf_sat_iff] at hσ ⊢
  intro cl hcl
  apply hσ
  rw [cnf_mem c ord f hf]
  have hn : p.1 ∈ ord c.nodeNames := (hord _).mem_iff.mpr ((mem_nodeNames c p.1).mpr ⟨p, hp, rfl⟩)
  exact ⟨p.1, hn, cls, hc, hcl⟩

theorem cnf_complete' (f : CNF) (hf : cnf c ord = .ok f) (v : Val) (hv : Consistent c v)
    (τ : Var → Bool) (hnode : ∀ s, τ (.node s) = v s)
    (haux : ∀ a b, τ (.xorAux a b) = Bool.xor (τ a) (τ b))
    (hinv : ∀ s, τ (.xorInv s) = xorL ((c.fanin s).map v)) : CNF.sat τ f = true := by
  have hv' : v = fun m => τ (.node m) := by funext m; rw [hnode]
  rw [cnf_sat_iff]
  intro cl hcl
  obtain ⟨n, hn, cls, hc, hcl⟩ := (cnf_mem c ord f hf cl).mp hcl
  have hn' : n ∈ c.nodeNames := (hord _).mem_iff.mp hn
  obtain ⟨p, hp, rfl⟩ := (mem_nodeNames c n).mp hn'
  obtain ⟨t, cls', ht, hc', hs⟩ := node_circ c ord hord hnd htyped hsingle hmulti p hp
  rw [hc] at hc'
  cases hc'
  have hok : NodeOK c v p.1 t := hv p hp t ht
  have hsat : CNF.sat τ cls = true := by
    apply hs.complete τ haux
    · rw [hinv, hv']
      exact (xorL_perm ((hord (c.fanin p.1)).map fun m => τ (.node m))).symm
    · rw [gateEq_iff_nodeOK c ord hord, ← hv']
      exact hok
  exact (cnf_sat_iff τ cls).mp hsat cl hcl

theorem cnf_det' (f : CNF) (hf : cnf c ord = .ok f) (σ : Var → Bool) (hσ : CNF.sat σ f = true)
    (τ : Var → Bool) (hnode : ∀ s, τ (.node s) = σ (.node s))
    (haux : ∀ a b, τ (.xorAux a b) = Bool.xor (τ a) (τ b))
    (hinv : ∀ s, τ (.xorInv s) = xorL ((c.fanin s).map fun m => σ (.node m))) :
    ∀ cl ∈ f, ∀ l ∈ cl, σ l.v = τ l.v := by
  intro cl hcl
  obtain ⟨n, hn, cls, hc, hcl'⟩ := (cnf_mem c ord f hf cl).mp hcl
  have hn' : n ∈ c.nodeNames := (hord _).mem_iff.mp hn
  obtain ⟨p, hp, rfl⟩ := (mem_nodeNames c n).mp hn'
  obtain ⟨t, cls', ht, hc', hs⟩ := node_circ c ord hord hnd htyped hsingle hmulti p hp
  rw [hc] at hc'
  cases hc'
  have hsat : CNF.sat σ cls = true := by
    rw [cnf_sat_iff] at hσ ⊢
    intro cl' hcl''
    apply hσ
    rw [cnf_mem c ord f hf]
    exact ⟨p.1, hn, cls, hc, hcl''⟩
  apply hs.det σ τ hnode haux _ hsat cl hcl'
  rw [hinv]
  exact (xorL_perm ((hord (c.fanin p.1)).map fun m => σ (.node m))).symm

end global

/-! ## assumptions -/

theorem assumption_sat (σ : Var → Bool) (as : List (Name × Bool)) :
    CNF.sat σ (assumptionClauses as) = true ↔ ∀ p ∈ as, σ (.node p.1) = p.2 := by
  simp only [assumptionClauses, CNF.sat, List.all_map, List.all_eq_true, Function.comp_def, Clause.sat,
    List.any_cons, List.any_nil, Bool.or_false, Lit.sat]
  constructor
  · intro h p hp
    have := h p hp
    cases h2 : p.2 <;> simp [h2] at this ⊢ <;> exact this
  · intro h p hp
    rw [h p hp]
    cases p.2 <;> simp

end Tseitin
end CG
