/- C09 (unroll succeeds): a syntactic sufficient condition for the naming side conditions — when no node of the circuit
   is called like a per-step io name, `uid` appends no suffix and the names `<x>_<pfx>_<t>` are pairwise distinct -/
import CG.Proofs.UnrollOkMain
set_option linter.unusedSimpArgs false
set_option linter.unusedVariables false
namespace CG
namespace UnrollOk
open Circuit Unroll

/-- `<x>_<pfx>_<t>` determines `x` and `t` (the last underscore is followed by the decimal digits of `t`) -/
theorem base_inj {x x' pfx : String} {t t' : Nat}
    (h : x ++ "_" ++ pfx ++ "_" ++ toString t = x' ++ "_" ++ pfx ++ "_" ++ toString t') : x = x' ∧ t = t' := by
  have h' := congrArg (fun s => s.toList.reverse) h
  simp only [String.toList_append, List.reverse_append] at h'
  have e : "_".toList.reverse = ['_'] := rfl
  rw [e] at h'
  simp only [List.append_assoc, List.cons_append, List.nil_append] at h'
  have dig : ∀ i : Nat, ∀ ch ∈ (toString i).toList.reverse, ch.isDigit = true := fun i ch hch =>
    Arith.toString_digits i ch (List.mem_reverse.1 hch)
  obtain ⟨e1, e2⟩ := Arith.digits_sep _ _ _ _ (dig t) (dig t') h'
  have e3 := List.append_cancel_left e2
  injection e3 with _ e3
  refine ⟨String.toList_inj.1 (List.reverse_inj.1 e3), ?_⟩
  have := String.toList_inj.1 (List.reverse_inj.1 e1)
  simp only [Nat.toString_eq_repr] at this
  exact Nat.repr_inj.1 this

theorem uid_of_fresh {c : Circuit} {b : Name} (h : c.has b = false) : c.uid b = some b := by
  unfold Circuit.uid
  simp [h]

theorem N_of_fresh {c : Circuit} {pfx : String} {x : Name} {t : Nat}
    (h : c.has (x ++ "_" ++ pfx ++ "_" ++ toString t) = false) :
    N c pfx x t = x ++ "_" ++ pfx ++ "_" ++ toString t := by
  unfold N
  rw [uid_of_fresh h]
  rfl

theorem U_eq (j : Nat) (y : Name) : U j y = "unrolled_" ++ toString j ++ "_" ++ y := rfl

/-- the naming side conditions from syntactic hypotheses: addable io names, no node called like a per-step io name,
    no per-step io name of the shape `unrolled_<k>_<node>` -/
theorem namesOK_of_fresh {c : Circuit} {pfx : String} {io : List Name} (n : Nat)
    (hdig : ∀ x ∈ io, isDigit0 x = false)
    (hfresh : ∀ x ∈ io, ∀ t : Nat, c.has (x ++ "_" ++ pfx ++ "_" ++ toString t) = false)
    (hclash : ∀ x ∈ io, ∀ t : Nat, ∀ y, c.has y = true → ∀ k : Nat,
      x ++ "_" ++ pfx ++ "_" ++ toString t ≠ "unrolled_" ++ toString k ++ "_" ++ y) :
    NamesOK c pfx io n where
  dig := hdig
  inj := fun x hx x' hx' t _ t' _ e => by
    rw [N_of_fresh (hfresh x hx t), N_of_fresh (hfresh x' hx' t')] at e
    exact base_inj e
  copy := fun x hx t _ y hy j _ e => by
    rw [N_of_fresh (hfresh x hx t), U_eq] at e
    exact hclash x hx t y hy j e

end UnrollOk
end CG
