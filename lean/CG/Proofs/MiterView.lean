/- helper lemmas for C04 (miter): the exact node list and edge list of a successful `miter` -/
import CG.Proofs.MiterBase
set_option linter.unusedSimpArgs false
set_option linter.unusedVariables false
namespace CG
namespace Miter
open Circuit

def satTy (ep : List Name) : String := if ep.isEmpty then "0" else if ep.length > 1 then "or" else "buf"

def tieArgs (n : Name) : AddArgs := { n := n, ty := "input", fanout := ["c0_" ++ n, "c1_" ++ n] }
def satArgs (ep : List Name) : AddArgs := { n := "sat", ty := satTy ep, output := true }
def difArgs (n : Name) : AddArgs := { n := "dif_" ++ n, ty := "xor", fanin := ["c0_" ++ n, "c1_" ++ n], fanout := ["sat"] }

def m0 (c0 c1 : Circuit) : Circuit := { name := "miter_" ++ c0.name ++ "_" ++ c1.name }

theorem miter_eq (c0 c1 : Circuit) (sp ep : List Name) (ord : Ord)
    (hb0 : c0.bbs = []) (hb1 : c1.bbs = []) (hne : c1.nodes ≠ [])
    (ht0 : ∀ p ∈ c0.nodes, p.2.ty.isNone = false) (ht1 : ∀ p ∈ c1.nodes, p.2.ty.isNone = false) :
    Tx.miter c0 (some c1) (some sp) (some ep) ord =
      (liftO ((m0 c0 c1).addSubcircuit c0 "c0" []) >>= fun m1 =>
       liftO (m1.addSubcircuit c1 "c1" []) >>= fun m2 =>
       Tx.miterTie m2 sp >>= fun m3 =>
       Tx.addC m3 (satArgs ep) >>= fun m4 =>
       Tx.miterCompare m4 ep) := by
  have h1 : c1.nodes.isEmpty = false := by
    cases h : c1.nodes with
    | nil => exact absurd h hne
    | cons a l => rfl
  have a0 : c0.nodes.any (fun p => p.2.ty.isNone) = false := by
    rw [List.any_eq_false]; intro p hp; rw [ht0 p hp]; simp
  have a1 : c1.nodes.any (fun p => p.2.ty.isNone) = false := by
    rw [List.any_eq_false]; intro p hp; rw [ht1 p hp]; simp
  unfold Tx.miter
  simp only [hb0, hb1, h1, a0, a1, List.isEmpty_nil, Bool.not_true, Bool.false_eq_true, if_false,
    Bool.and_false, Bool.or_false, Bool.not_false, Bool.and_true]
  rfl


/-! ### the pieces of the miter -/

def nodesOf (c : Circuit) (name : Name) : List (Name × Attr) := c.nodes.map (fun p => (pref name p.1, stripA p.2))
def edgesOf (c : Circuit) (name : Name) : List (Name × Name) := c.edges.map (fun e => (pref name e.1, pref name e.2))
def tieNodes (sp : List Name) : List (Name × Attr) :=
  sp.map (fun s => (s, ({ ty := some "input", out := some false } : Attr)))
def tieEdges (sp : List Name) : List (Name × Name) := sp.flatMap (fun s => [(s, pref "c0" s), (s, pref "c1" s)])
def satNode (ep : List Name) : Name × Attr := ("sat", { ty := some (satTy ep), out := some true })
def difNodes (ep : List Name) : List (Name × Attr) :=
  ep.map (fun e => (dif e, ({ ty := some "xor", out := some false } : Attr)))
def difEdges (ep : List Name) : List (Name × Name) :=
  ep.flatMap (fun e => [(dif e, "sat"), (pref "c0" e, dif e), (pref "c1" e, dif e)])

/-- the exact shape of a successfully built miter -/
structure MView (c0 c1 : Circuit) (sp ep : List Name) (m : Circuit) : Prop where
  nodes : m.nodes = nodesOf c0 "c0" ++ nodesOf c1 "c1" ++ tieNodes sp ++ [satNode ep] ++ difNodes ep
  edges : m.edges = edgesOf c0 "c0" ++ edgesOf c1 "c1" ++ tieEdges sp ++ difEdges ep
  bbs : m.bbs = []
  wf : WF m

theorem plain_tie (n : Name) : Plain (tieArgs n) := by
  refine ⟨rfl, rfl, rfl, ?_, by simp [tieArgs], by simp [tieArgs]⟩
  simp only [tieArgs, List.nodup_cons, List.mem_singleton, List.not_mem_nil, not_false_eq_true, List.nodup_nil,
    and_true]
  rw [← pref_c0, ← pref_c1]
  exact c0_ne_c1 n n

theorem plain_sat (ep : List Name) : Plain (satArgs ep) := by
  refine ⟨rfl, rfl, rfl, ?_, ?_, ?_⟩ <;> simp [satArgs]

theorem plain_dif (n : Name) : Plain (difArgs n) := by
  refine ⟨rfl, rfl, rfl, by simp [difArgs], ?_, ?_⟩
  · simp only [difArgs, List.nodup_cons, List.mem_singleton, List.not_mem_nil, not_false_eq_true, List.nodup_nil,
      and_true]
    rw [← pref_c0, ← pref_c1]
    exact c0_ne_c1 n n
  · simp only [difArgs, List.mem_cons, List.not_mem_nil, or_false, not_or]
    rw [← pref_c0, ← pref_c1]
    exact ⟨(c0_ne_dif n n).symm, (c1_ne_dif n n).symm⟩

theorem newEdges_tie (s : Name) : newEdges (tieArgs s) = [(s, pref "c0" s), (s, pref "c1" s)] := by
  rw [pref_c0, pref_c1]; rfl

theorem newEdges_sat (ep : List Name) : newEdges (satArgs ep) = [] := rfl

theorem newEdges_dif (e : Name) : newEdges (difArgs e) = [(dif e, "sat"), (pref "c0" e, dif e), (pref "c1" e, dif e)] := by
  rw [pref_c0, pref_c1]; rfl

theorem wf_m0 (c0 c1 : Circuit) : WF (m0 c0 c1) :=
  ⟨List.nodup_nil, List.nodup_nil, fun e he => by cases he⟩

/-- with no connections the spliced circuit is exactly parent ++ prefixed child -/
theorem sub_exact {P sc P' : Circuit} {name : Name} (hP : WF P) (hsc : WF sc)
    (h : P.addSubcircuit sc name [] true = (P', .ok)) :
    P'.nodes = P.nodes ++ nodesOf sc name ∧ P'.edges = P.edges ++ edgesOf sc name ∧
      (sc.bbs = [] → P'.bbs = P.bbs) ∧ WF P' := by
  have F := addSub_facts hP hsc h
  obtain ⟨x, hx, hx'⟩ := F.ext
  have hnil : x = [] := by
    rw [List.eq_nil_iff_forall_not_mem]
    intro e he
    obtain ⟨p, hp, _⟩ := hx' e he
    cases hp
  refine ⟨F.nodes, by rw [hx, hnil, List.append_nil]; rfl, ?_, F.wf hP hsc⟩
  intro hb
  have := F.bbs (by rw [hb]; exact List.nodup_nil)
  rw [this, hb]; simp

theorem mview_of_steps {c0 c1 m1 m2 m3 m4 m : Circuit} {sp ep : List Name} (h0 : WF c0) (h1 : WF c1)
    (hb0 : c0.bbs = []) (hb1 : c1.bbs = [])
    (s1 : (m0 c0 c1).addSubcircuit c0 "c0" [] = (m1, .ok)) (s2 : m1.addSubcircuit c1 "c1" [] = (m2, .ok))
    (s3 : Tx.miterTie m2 sp = .ok m3) (s4 : Tx.addC m3 (satArgs ep) = .ok m4)
    (s5 : Tx.miterCompare m4 ep = .ok m) : MView c0 c1 sp ep m := by
  obtain ⟨n1, e1, b1, w1⟩ := sub_exact (wf_m0 c0 c1) h0 s1
  obtain ⟨n2, e2, b2, w2⟩ := sub_exact w1 h1 s2
  obtain ⟨n3, e3, b3, w3⟩ := foldAdd_ok tieArgs plain_tie sp m2 m3 w2 s3
  have A := addOK_of w3 (plain_sat ep) s4
  obtain ⟨n5, e5, b5, w5⟩ := foldAdd_ok difArgs plain_dif ep m4 m A.wf s5
  refine ⟨?_, ?_, ?_, w5⟩
  · rw [n5, A.nodes, n3, n2, n1]
    simp only [m0, List.nil_append]
    rfl
  · rw [e5, A.edges, e3, e2, e1, newEdges_sat]
    simp only [m0, List.nil_append, List.append_nil, newEdges_tie, newEdges_dif]
    rfl
  · rw [b5, A.bbs, b3, b2 hb1, b1 hb0]; rfl

theorem miter_steps {c0 c1 m : Circuit} {sp ep : List Name} {ord : Ord}
    (hb0 : c0.bbs = []) (hb1 : c1.bbs = []) (hne : c1.nodes ≠ [])
    (ht0 : ∀ p ∈ c0.nodes, p.2.ty.isNone = false) (ht1 : ∀ p ∈ c1.nodes, p.2.ty.isNone = false)
    (h : Tx.miter c0 (some c1) (some sp) (some ep) ord = .ok m) :
    ∃ m1 m2 m3 m4, (m0 c0 c1).addSubcircuit c0 "c0" [] = (m1, .ok) ∧ m1.addSubcircuit c1 "c1" [] = (m2, .ok) ∧
      Tx.miterTie m2 sp = .ok m3 ∧ Tx.addC m3 (satArgs ep) = .ok m4 ∧ Tx.miterCompare m4 ep = .ok m := by
  rw [miter_eq c0 c1 sp ep ord hb0 hb1 hne ht0 ht1] at h
  obtain ⟨m1, a1, h⟩ := bind_ok h
  obtain ⟨m2, a2, h⟩ := bind_ok h
  obtain ⟨m3, a3, h⟩ := bind_ok h
  obtain ⟨m4, a4, h⟩ := bind_ok h
  exact ⟨m1, m2, m3, m4, liftO_ok a1, liftO_ok a2, a3, a4, h⟩

theorem typed_isNone {c : Circuit} (h : LintClean c) : ∀ p ∈ c.nodes, p.2.ty.isNone = false := by
  intro p hp
  obtain ⟨t, ht, _⟩ := h.typed p hp
  rw [ht]; rfl

theorem mview_of_ok {c0 c1 m : Circuit} {sp ep : List Name} {ord : Ord}
    (h0 : LintClean c0) (h1 : LintClean c1) (hb0 : c0.bbs = []) (hb1 : c1.bbs = []) (hne : c1.nodes ≠ [])
    (h : Tx.miter c0 (some c1) (some sp) (some ep) ord = .ok m) : MView c0 c1 sp ep m := by
  obtain ⟨m1, m2, m3, m4, s1, s2, s3, s4, s5⟩ :=
    miter_steps hb0 hb1 hne (typed_isNone h0) (typed_isNone h1) h
  exact mview_of_steps h0.toWF h1.toWF hb0 hb1 s1 s2 s3 s4 s5

end Miter
end CG
