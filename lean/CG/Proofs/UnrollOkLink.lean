/- C09 (unroll succeeds), phase C of an iteration: step 0 retypes the state inputs, later steps wire them -/
import CG.Proofs.UnrollOkSub
set_option linter.unusedSimpArgs false
set_option linter.unusedVariables false
namespace CG
namespace UnrollOk
open Circuit Unroll

theorem addable_input : T.addable.contains "input" = true := by decide

theorem setType1_succeeds {c : Circuit} {y : Name} (h : c.has y = true) :
    c.setType [y] "input" = (c.setTyRaw y "input", .ok) := by
  unfold Circuit.setType
  rw [addable_input]
  simp only [Bool.not_true, Bool.false_eq_true, if_false, Circuit.setType.go, h, if_true]

/-- step 0 of phase C: every state input's io node exists, so `set_type` succeeds -/
theorem setTypeFold_succeeds (f : Name × Name → Name) : ∀ (l : List (Name × Name)) (P : Circuit),
    (∀ p ∈ l, P.has (f p) = true) →
    ∃ uc, l.foldlM (fun uc p => liftO (uc.setType [f p] "input")) P = .ok uc
  | [], P, _ => ⟨P, rfl⟩
  | p :: l, P, h => by
    obtain ⟨uc, huc⟩ := setTypeFold_succeeds f l (P.setTyRaw (f p) "input") (fun q hq => by
      rw [setTyRaw_has]; exact h q (List.mem_cons_of_mem _ hq))
    refine ⟨uc, ?_⟩
    rw [List.foldlM_cons, setType1_succeeds (h p (by simp))]
    exact huc

/-- a fold of single `connect` calls is `connectAll` -/
theorem connectFold_eq (f g : Name × Name → Name) : ∀ (l : List (Name × Name)) (P : Circuit),
    l.foldlM (fun uc p => liftO (uc.connect [f p] [g p])) P =
      liftO (P.connectAll (l.map (fun p => ([f p], [g p]))))
  | [], P => rfl
  | p :: l, P => by
    rw [List.foldlM_cons, List.map_cons, connectAll]
    cases h : P.connect [f p] [g p] with
    | mk c1 o =>
      cases o with
      | ok =>
        show l.foldlM (fun uc p => liftO (uc.connect [f p] [g p])) c1 = _
        rw [connectFold_eq f g l c1]
      | _ => rfl

/-- later steps of phase C: the state inputs' io nodes are undriven buffers, the sources are ordinary nodes -/
theorem connectFold_succeeds (f g : Name × Name → Name) (l : List (Name × Name)) (P : Circuit)
    (hnd : (l.map g).Nodup)
    (hsrc : ∀ p ∈ l, ∃ t, P.ty? (f p) = some t ∧ t ≠ "bb_input" ∧ t ≠ "bb_output")
    (htgt : ∀ p ∈ l, P.ty? (g p) = some "buf" ∧ P.fanin (g p) = []) :
    ∃ uc, l.foldlM (fun uc p => liftO (uc.connect [f p] [g p])) P = .ok uc := by
  rw [connectFold_eq]
  have e : l.map (fun p => ([f p], [g p])) = (l.map (fun p => (f p, g p))).map (fun q => ([q.1], [q.2])) := by
    rw [List.map_map]; rfl
  rw [e]
  obtain ⟨uc, huc⟩ := Arith.connectAll_singles_ok (l.map (fun p => (f p, g p))) P
    (by rw [List.map_map]; exact hnd)
    (by
      intro q hq
      obtain ⟨p, hp, rfl⟩ := List.mem_map.1 hq
      exact ⟨hsrc p hp, "buf", (htgt p hp).1, by decide, fun _ => (htgt p hp).2⟩)
  exact ⟨uc, by rw [huc]; rfl⟩

end UnrollOk
end CG
