/- helper lemmas for C06: exact views of relabelCopy / graphUpdate / strip folds / setBB folds / connectAll -/
import CG.Proofs.ComposeBase
set_option linter.unusedSimpArgs false
set_option linter.unusedVariables false
namespace CG
open Circuit

/-! ### folds of `addNodeAttr` -/

theorem foldl_addNodeAttr_edges' (l : List (Name × Attr)) (acc : Circuit) :
    (l.foldl (fun acc p => acc.addNodeAttr p.1 p.2) acc).edges = acc.edges := by
  induction l generalizing acc with
  | nil => rfl
  | cons p l ih => simp only [List.foldl_cons]; rw [ih, addNodeAttr_edges]

theorem foldl_addNodeAttr_bbs' (l : List (Name × Attr)) (acc : Circuit) :
    (l.foldl (fun acc p => acc.addNodeAttr p.1 p.2) acc).bbs = acc.bbs := by
  induction l generalizing acc with
  | nil => rfl
  | cons p l ih => simp only [List.foldl_cons]; rw [ih, addNodeAttr_bbs]

theorem foldl_addNodeAttr_name' (l : List (Name × Attr)) (acc : Circuit) :
    (l.foldl (fun acc p => acc.addNodeAttr p.1 p.2) acc).name = acc.name := by
  induction l generalizing acc with
  | nil => rfl
  | cons p l ih => simp only [List.foldl_cons]; rw [ih, addNodeAttr_name]

theorem foldl_addNodeAttr_nodup' (l : List (Name × Attr)) (acc : Circuit) (h : acc.nodeNames.Nodup) :
    (l.foldl (fun acc p => acc.addNodeAttr p.1 p.2) acc).nodeNames.Nodup := by
  induction l generalizing acc with
  | nil => exact h
  | cons p l ih => simp only [List.foldl_cons]; exact ih _ (addNodeAttr_nodup _ _ h)

theorem foldl_addNodeAttr_has' (l : List (Name × Attr)) (acc : Circuit) (m : Name) :
    (l.foldl (fun acc p => acc.addNodeAttr p.1 p.2) acc).has m = (acc.has m || (l.map (·.1)).contains m) := by
  induction l generalizing acc with
  | nil => simp
  | cons p l ih =>
    simp only [List.foldl_cons]
    rw [ih, addNodeAttr_has]
    simp only [List.map_cons, List.contains_cons, Bool.or_assoc]

/-- all names fresh and distinct: the nodes are appended in order -/
theorem foldl_addNodeAttr_fresh : ∀ (l : List (Name × Attr)) (acc : Circuit), (l.map (·.1)).Nodup →
    (∀ p ∈ l, acc.has p.1 = false) →
    (l.foldl (fun acc p => acc.addNodeAttr p.1 p.2) acc).nodes = acc.nodes ++ l := by
  intro l
  induction l with
  | nil => intro acc _ _; simp
  | cons p l ih =>
    intro acc hnd hf
    simp only [List.map_cons, List.nodup_cons] at hnd
    simp only [List.foldl_cons]
    have hp : acc.has p.1 = false := hf p (by simp)
    rw [ih (acc.addNodeAttr p.1 p.2) hnd.2]
    · rw [addNodeAttr_fresh p.2 hp]; simp
    · intro q hq
      rw [addNodeAttr_has, hf q (List.mem_cons_of_mem _ hq)]
      have : q.1 ≠ p.1 := fun e => hnd.1 (e ▸ List.mem_map.2 ⟨q, hq, rfl⟩)
      simpa using this

/-- attribute view when every merged node carries both attributes -/
theorem foldl_addNodeAttr_attr_full : ∀ (l : List (Name × Attr)) (acc : Circuit), (l.map (·.1)).Nodup →
    (∀ p ∈ l, p.2.ty.isSome = true ∧ p.2.out.isSome = true) →
    (∀ n a, (n, a) ∈ l → (l.foldl (fun acc p => acc.addNodeAttr p.1 p.2) acc).attr? n = some a) ∧
    (∀ m, m ∉ l.map (·.1) → (l.foldl (fun acc p => acc.addNodeAttr p.1 p.2) acc).attr? m = acc.attr? m) := by
  intro l
  induction l with
  | nil => intro acc _ _; exact ⟨fun n a h => (by cases h), fun m _ => rfl⟩
  | cons p l ih =>
    intro acc hnd hfull
    obtain ⟨n0, a0⟩ := p
    simp only [List.map_cons, List.nodup_cons] at hnd
    obtain ⟨i1, i2⟩ := ih (acc.addNodeAttr n0 a0) hnd.2 (fun q hq => hfull q (List.mem_cons_of_mem _ hq))
    simp only [List.foldl_cons]
    constructor
    · intro n a hmem
      rcases List.mem_cons.1 hmem with e | hmem'
      · injection e with e1 e2; subst e1; subst e2
        rw [i2 n hnd.1, addNodeAttr_attr?, if_pos rfl]
        obtain ⟨f1, f2⟩ := hfull (n, a) (by simp)
        simp only [] at f1 f2
        cases hc : acc.attr? n with
        | none => rfl
        | some old =>
          simp only []
          cases ht : a.ty with
          | none => rw [ht] at f1; simp at f1
          | some t =>
            cases ho : a.out with
            | none => rw [ho] at f2; simp at f2
            | some b =>
              have : a = { ty := some t, out := some b } := by
                cases a; simp only [] at ht ho; rw [ht, ho]
              rw [this]; rfl
      · have hne : n ≠ n0 := by
          intro e; subst e; exact hnd.1 (List.mem_map.2 ⟨(n, a), hmem', rfl⟩)
        exact i1 n a hmem'
    · intro m hm
      simp only [List.map_cons, List.mem_cons, not_or] at hm
      rw [i2 m hm.2, addNodeAttr_attr?, if_neg hm.1]

/-! ### relabelCopy along an injective renaming: exact lists -/

theorem relabelCopy_exact {sc : Circuit} (hnd : sc.nodeNames.Nodup) (hed : sc.edges.Nodup) (f : Name → Name)
    (hf : ∀ a b, f a = f b → a = b) :
    (sc.relabelCopy f).nodes = sc.nodes.map (fun p => (f p.1, p.2)) ∧
    (sc.relabelCopy f).edges = sc.edges.map (fun e => (f e.1, f e.2)) ∧
    (sc.relabelCopy f).bbs = sc.bbs ∧ (sc.relabelCopy f).name = sc.name := by
  unfold relabelCopy
  simp only []
  have hfold1 : ∀ (l : List (Name × Attr)) (acc : Circuit),
      l.foldl (fun acc p => acc.addNodeAttr (f p.1) p.2) acc =
      (l.map (fun p => (f p.1, p.2))).foldl (fun acc p => acc.addNodeAttr p.1 p.2) acc := by
    intro l acc; rw [List.foldl_map]
  have hfold2 : ∀ (l : List (Name × Name)) (acc : Circuit),
      l.foldl (fun acc e => acc.addEdge (f e.1) (f e.2)) acc =
      (l.map (fun e => (f e.1, f e.2))).foldl (fun acc e => acc.addEdge e.1 e.2) acc := by
    intro l acc; rw [List.foldl_map]
  rw [hfold1, hfold2]
  have hnames : (sc.nodes.map (fun p => (f p.1, p.2))).map (·.1) = sc.nodeNames.map f := by
    simp [nodeNames, List.map_map, Function.comp_def]
  have hnd' : ((sc.nodes.map (fun p => (f p.1, p.2))).map (·.1)).Nodup := by
    rw [hnames]; exact nodup_map_of_inj hnd (fun x _ y _ e => hf x y e)
  have hn := foldl_addNodeAttr_fresh (sc.nodes.map (fun p => (f p.1, p.2))) { name := sc.name, bbs := sc.bbs } hnd'
    (fun p _ => by simp [has])
  have he := foldl_addNodeAttr_edges' (sc.nodes.map (fun p => (f p.1, p.2))) { name := sc.name, bbs := sc.bbs }
  have hb := foldl_addNodeAttr_bbs' (sc.nodes.map (fun p => (f p.1, p.2))) { name := sc.name, bbs := sc.bbs }
  have hnm := foldl_addNodeAttr_name' (sc.nodes.map (fun p => (f p.1, p.2))) { name := sc.name, bbs := sc.bbs }
  generalize (sc.nodes.map (fun p => (f p.1, p.2))).foldl (fun acc p => acc.addNodeAttr p.1 p.2)
      ({ name := sc.name, bbs := sc.bbs } : Circuit) = g1 at hn he hb hnm
  have hed' : (sc.edges.map (fun e => (f e.1, f e.2))).Nodup := by
    apply nodup_map_of_inj hed
    intro x _ y _ e
    injection e with e1 e2
    exact Prod.ext (hf _ _ e1) (hf _ _ e2)
  refine ⟨?_, ?_, ?_, ?_⟩
  · rw [foldl_addEdge_nodes, hn]; simp
  · rw [foldl_addEdge_edges_disj _ _ hed' (by rw [he]; simp), he]; simp
  · rw [foldl_addEdge_bbs, hb]
  · rw [foldl_addEdge_name, hnm]

/-! ### graphUpdate -/

theorem graphUpdate_bbs (c g : Circuit) : (c.graphUpdate g).bbs = c.bbs := by
  unfold graphUpdate; simp only []; rw [foldl_addEdge_bbs, foldl_addNodeAttr_bbs']

theorem graphUpdate_name (c g : Circuit) : (c.graphUpdate g).name = c.name := by
  unfold graphUpdate; simp only []; rw [foldl_addEdge_name, foldl_addNodeAttr_name']

theorem graphUpdate_edges (c g : Circuit) (hge : g.edges.Nodup) :
    (c.graphUpdate g).edges = c.edges ++ g.edges.filter (fun e => !c.edges.contains e) := by
  unfold graphUpdate; simp only []
  rw [foldl_addEdge_edges _ _ hge, foldl_addNodeAttr_edges']

theorem graphUpdate_edges_nodup (c g : Circuit) (h : c.edges.Nodup) : (c.graphUpdate g).edges.Nodup := by
  unfold graphUpdate; simp only []
  apply foldl_addEdge_nodup
  rw [foldl_addNodeAttr_edges']; exact h

theorem graphUpdate_mem_edges (c g : Circuit) (e : Name × Name) :
    e ∈ (c.graphUpdate g).edges ↔ e ∈ c.edges ∨ e ∈ g.edges := by
  unfold graphUpdate; simp only []
  rw [foldl_addEdge_mem, foldl_addNodeAttr_edges']

theorem graphUpdate_nodes_disj (c g : Circuit) (hg : g.nodeNames.Nodup)
    (hd : ∀ p ∈ g.nodes, c.has p.1 = false) : (c.graphUpdate g).nodes = c.nodes ++ g.nodes := by
  unfold graphUpdate; simp only []
  rw [foldl_addEdge_nodes, foldl_addNodeAttr_fresh g.nodes c hg hd]

theorem graphUpdate_nodup (c g : Circuit) (h : c.nodeNames.Nodup) : (c.graphUpdate g).nodeNames.Nodup := by
  unfold graphUpdate; simp only []
  rw [nodeNames_congr (foldl_addEdge_nodes _ _)]
  exact foldl_addNodeAttr_nodup' _ _ h

theorem graphUpdate_has (c g : Circuit) (m : Name) : (c.graphUpdate g).has m = (c.has m || g.has m) := by
  unfold graphUpdate; simp only []
  rw [has_congr (foldl_addEdge_nodes _ _), foldl_addNodeAttr_has']
  congr 1
  rw [Bool.eq_iff_iff, List.contains_iff_mem, has_iff_mem]; rfl

theorem graphUpdate_attr_full (c g : Circuit) (hg : g.nodeNames.Nodup) (hfull : FullA g) :
    (∀ n a, (n, a) ∈ g.nodes → (c.graphUpdate g).attr? n = some a) ∧
    (∀ m, g.has m = false → (c.graphUpdate g).attr? m = c.attr? m) := by
  obtain ⟨i1, i2⟩ := foldl_addNodeAttr_attr_full g.nodes c hg hfull
  unfold graphUpdate; simp only []
  constructor
  · intro n a h; rw [attr?_congr (foldl_addEdge_nodes _ _)]; exact i1 n a h
  · intro m hm; rw [attr?_congr (foldl_addEdge_nodes _ _)]
    exact i2 m ((has_false_iff g m).1 hm)

/-! ### folds of setTyRaw / setOutRaw: exact node list -/

theorem foldl_setTyRaw_nodes (t : String) : ∀ (L : List Name) (c : Circuit),
    (L.foldl (fun acc n => acc.setTyRaw n t) c).nodes =
      c.nodes.map (fun p => if L.contains p.1 then (p.1, { p.2 with ty := some t }) else p) := by
  intro L
  induction L with
  | nil => intro c; simp
  | cons n L ih =>
    intro c
    simp only [List.foldl_cons]
    rw [ih]
    unfold setTyRaw
    simp only [List.map_map]
    apply List.map_congr_left
    intro p _
    simp only [Function.comp, List.contains_cons]
    by_cases h1 : (p.1 == n) = true
    · by_cases h2 : L.contains p.1 = true
      · simp [h1, h2]
      · simp [h1, h2]
    · by_cases h2 : L.contains p.1 = true
      · simp [h1, h2]
      · simp [h1, h2]

theorem foldl_setOutRaw_nodes (b : Bool) : ∀ (L : List Name) (c : Circuit),
    (L.foldl (fun acc n => acc.setOutRaw n b) c).nodes =
      c.nodes.map (fun p => if L.contains p.1 then (p.1, { p.2 with out := some b }) else p) := by
  intro L
  induction L with
  | nil => intro c; simp
  | cons n L ih =>
    intro c
    simp only [List.foldl_cons]
    rw [ih]
    unfold setOutRaw
    simp only [List.map_map]
    apply List.map_congr_left
    intro p _
    simp only [Function.comp, List.contains_cons]
    by_cases h1 : (p.1 == n) = true
    · by_cases h2 : L.contains p.1 = true
      · simp [h1, h2]
      · simp [h1, h2]
    · by_cases h2 : L.contains p.1 = true
      · simp [h1, h2]
      · simp [h1, h2]

theorem foldl_setTyRaw_frame (t : String) (L : List Name) (c : Circuit) :
    (L.foldl (fun acc n => acc.setTyRaw n t) c).edges = c.edges ∧
    (L.foldl (fun acc n => acc.setTyRaw n t) c).bbs = c.bbs ∧
    (L.foldl (fun acc n => acc.setTyRaw n t) c).name = c.name := by
  induction L generalizing c with
  | nil => exact ⟨rfl, rfl, rfl⟩
  | cons n L ih =>
    simp only [List.foldl_cons]
    obtain ⟨a, b, d⟩ := ih (c.setTyRaw n t)
    exact ⟨a, b, d⟩

theorem foldl_setOutRaw_frame (b : Bool) (L : List Name) (c : Circuit) :
    (L.foldl (fun acc n => acc.setOutRaw n b) c).edges = c.edges ∧
    (L.foldl (fun acc n => acc.setOutRaw n b) c).bbs = c.bbs ∧
    (L.foldl (fun acc n => acc.setOutRaw n b) c).name = c.name := by
  induction L generalizing c with
  | nil => exact ⟨rfl, rfl, rfl⟩
  | cons n L ih =>
    simp only [List.foldl_cons]
    obtain ⟨a, b', d⟩ := ih (c.setOutRaw n b)
    exact ⟨a, b', d⟩

/-! ### inputs / outputs membership through the node list -/

theorem mem_inputs_of_mem {c : Circuit} (hnd : c.nodeNames.Nodup) {n : Name} {a : Attr} (h : (n, a) ∈ c.nodes) :
    n ∈ c.inputs ↔ a.ty = some "input" := by
  rw [mem_inputs hnd, ty?, attr?_of_mem hnd h]
  rfl

theorem mem_outputs_of_mem {c : Circuit} (hnd : c.nodeNames.Nodup) {n : Name} {a : Attr} (h : (n, a) ∈ c.nodes) :
    n ∈ c.outputs ↔ a.out = some true := by
  unfold outputs
  simp only [List.mem_map, List.mem_filter]
  constructor
  · rintro ⟨⟨n', a'⟩, ⟨hp, hq⟩, e⟩
    simp only [] at e; subst e
    have h1 := attr?_of_mem hnd hp
    rw [attr?_of_mem hnd h] at h1
    injection h1 with h1; subst h1
    simp only [] at hq
    cases ho : a.out with
    | none => rw [ho] at hq; simp at hq
    | some b => rw [ho] at hq; simp at hq; rw [hq]
  · intro ho
    exact ⟨(n, a), ⟨h, by simp [ho]⟩, rfl⟩

theorem mem_inputs_has {c : Circuit} {m : Name} (h : m ∈ c.inputs) : c.has m = true := by
  unfold inputs filterType at h
  simp only [List.mem_map, List.mem_filter] at h
  obtain ⟨⟨n, a⟩, ⟨hp, _⟩, e⟩ := h
  simp only [] at e; subst e
  rw [has_iff_mem]; exact List.mem_map.2 ⟨(n, a), hp, rfl⟩

/-! ### registry folds -/

theorem foldl_setBB_frame (f : Name → Name) (l : List (Name × BBox)) (c : Circuit) :
    (l.foldl (fun acc p => acc.setBB (f p.1) p.2) c).nodes = c.nodes ∧
    (l.foldl (fun acc p => acc.setBB (f p.1) p.2) c).edges = c.edges ∧
    (l.foldl (fun acc p => acc.setBB (f p.1) p.2) c).name = c.name := by
  induction l generalizing c with
  | nil => exact ⟨rfl, rfl, rfl⟩
  | cons p l ih =>
    simp only [List.foldl_cons]
    obtain ⟨a, b, d⟩ := ih (c.setBB (f p.1) p.2)
    exact ⟨by rw [a, setBB_nodes], by rw [b, setBB_edges], by rw [d, setBB_name]⟩

theorem lookup_append_none {β} (l : List (Name × β)) (k k' : Name) (b : β) (h : l.lookup k = none) (hne : k ≠ k') :
    (l ++ [(k', b)]).lookup k = none := by
  rw [List.lookup_append, h]
  have : (k == k') = false := by simpa using hne
  simp [List.lookup_cons, this]

theorem foldl_setBB_bbs (f : Name → Name) : ∀ (l : List (Name × BBox)) (c : Circuit),
    (l.map (fun p => f p.1)).Nodup → (∀ p ∈ l, c.bbs.lookup (f p.1) = none) →
    (l.foldl (fun acc p => acc.setBB (f p.1) p.2) c).bbs = c.bbs ++ l.map (fun p => (f p.1, p.2)) := by
  intro l
  induction l with
  | nil => intro c _ _; simp
  | cons p l ih =>
    intro c hnd hf
    simp only [List.map_cons, List.nodup_cons] at hnd
    simp only [List.foldl_cons]
    have hp : c.bbs.lookup (f p.1) = none := hf p (by simp)
    have hs : (c.setBB (f p.1) p.2).bbs = c.bbs ++ [(f p.1, p.2)] := by
      unfold setBB; rw [hp]; rfl
    rw [ih _ hnd.2, hs]
    · simp
    · intro q hq
      rw [hs]
      apply lookup_append_none _ _ _ _ (hf q (List.mem_cons_of_mem _ hq))
      intro e
      exact hnd.1 (e ▸ List.mem_map.2 ⟨q, hq, rfl⟩)

/-! ### connect / connectAll -/

theorem goV_ne_ok {c : Circuit} {us : List Name} : ∀ vs, connectCheck.goV c us vs ≠ some .ok := by
  intro vs
  induction vs with
  | nil => rw [connectCheck.goV]; intro h; cases h
  | cons w vs ih =>
    rw [connectCheck.goV]
    cases hw : c.ty? w with
    | none => simp only []; intro h; cases h
    | some t =>
      simp only []
      split
      · intro h; cases h
      · split
        · intro h; cases h
        · exact ih

theorem goU_ne_ok {c : Circuit} {vs : List Name} : ∀ us, connectCheck.goU c vs us ≠ some .ok := by
  intro us
  induction us with
  | nil => rw [connectCheck.goU]; intro h; cases h
  | cons w us ih =>
    rw [connectCheck.goU]
    cases hw : c.ty? w with
    | none => simp only []; intro h; cases h
    | some t =>
      simp only []
      split
      · intro h; cases h
      · split
        · split
          · intro h; cases h
          · split
            · intro h; cases h
            · exact ih
        · exact ih

theorem connectCheck_ne_ok (c : Circuit) (us vs : List Name) : c.connectCheck us vs ≠ some .ok := by
  unfold connectCheck
  split
  · intro h; cases h
  · split
    · intro h; cases h
    · cases hv : connectCheck.goV c us vs with
      | some o =>
        simp only []
        intro h; exact goV_ne_ok vs (hv.trans h)
      | none => simp only []; exact goU_ne_ok us

theorem connect_ok {c c' : Circuit} {us vs : List Name} (h : c.connect us vs = (c', .ok)) :
    c'.nodes = c.nodes ∧ c'.bbs = c.bbs ∧ c'.name = c.name ∧
    (∃ x, c'.edges = c.edges ++ x ∧ ∀ e ∈ x, e.1 ∈ us ∧ e.2 ∈ vs) ∧
    (∀ e, e ∈ c'.edges ↔ e ∈ c.edges ∨ (e.1 ∈ us ∧ e.2 ∈ vs)) ∧
    (c.edges.Nodup → c'.edges.Nodup) ∧
    (us ≠ [] → vs ≠ [] → c.connectCheck us vs = none) := by
  unfold connect at h
  by_cases he : (us.isEmpty || vs.isEmpty) = true
  · rw [if_pos he] at h
    injection h with h1 _
    subst h1
    refine ⟨rfl, rfl, rfl, ⟨[], by simp, fun _ h => by cases h⟩, ?_, fun h => h, ?_⟩
    · intro e
      constructor
      · exact Or.inl
      · rintro (h | ⟨h1, h2⟩)
        · exact h
        · rw [Bool.or_eq_true, List.isEmpty_iff, List.isEmpty_iff] at he
          rcases he with he | he
          · rw [he] at h1; cases h1
          · rw [he] at h2; cases h2
    · intro h1 h2
      rw [Bool.or_eq_true, List.isEmpty_iff, List.isEmpty_iff] at he
      rcases he with he | he
      · exact absurd he h1
      · exact absurd he h2
  · rw [if_neg he] at h
    cases hc : c.connectCheck us vs with
    | some o =>
      rw [hc] at h
      simp only [] at h
      injection h with _ h2
      subst h2
      exact absurd hc (connectCheck_ne_ok c us vs)
    | none =>
      rw [hc] at h
      simp only [] at h
      injection h with h1 _
      subst h1
      exact ⟨addEdges_nodes c us vs, addEdges_bbs c us vs, addEdges_name c us vs, addEdges_ext c us vs,
        addEdges_mem c us vs, fun h => addEdges_nodup us vs h, fun _ _ => rfl⟩

end CG
