/-
  C09 (unroll succeeds): `CG.C09.unroll_ok` is FALSE as stated.  Two closed circuits satisfy all its hypotheses
  (`Good`, `Pairing`, `1 ≤ n`, `AddableNames`, `NoStepClash`) while `tx.unroll` raises ValueError:

  * `Pin`: an input `a` driving a node `b` typed `bb_input` and marked as output.  `LintClean` with `bbs = []` admits
    pin-typed nodes (the linter's "pin without blackbox" check only looks at names containing a dot).  `unroll` creates
    the io node `b_p_0` and asks `add_subcircuit` to connect the copy `unrolled_0_b` to it; `connect` rejects a
    `bb_input` source.  Missing hypothesis: `PinOutputsOK` (every other hypothesis of the corrected `unroll_ok'` holds).
  * `Uid`: inputs `a`, `a_0` and a gate `a_0_0`, prefix `"0"`.  The step-0 name of `a` is `a_0_0`, which is taken, so
    `uid` returns `a_0_0_0`; this is also the (plain, free) step-0 name of `a_0`.  The second `add` raises ValueError.
    `NoStepClash` only compares the un-suffixed names with the names of the copies; the missing hypothesis is
    `StepNamesOK.distinct` on the names really used (`NoPinOutputs`, hence `PinOutputsOK`, holds here).

  `PinOut` shows why `PinOutputsOK` is weaker than `NoPinOutputs`: an output typed `bb_output` without any fan-out is
  accepted by `connect` as a source (`unroll_ok_iff` says that `PinOutputsOK` is exactly what is needed).
  (This file imports the property file `CG/Props/C09New.lean` and is therefore not imported by it.)
-/
import CG.Props.C09Ok
namespace CG.C09.OkCex
open CG Circuit CG.C09

theorem ordOK_id : OrdOK (id : Ord) := fun l => List.Perm.refl l

/-- a name starting with `a` is not the name of a spliced copy -/
theorem ne_unrolled {x : String} {l : List Char} (hx : x.toList = 'a' :: l) (pfx T K y : String) :
    x ++ "_" ++ pfx ++ "_" ++ T ≠ "unrolled_" ++ K ++ "_" ++ y := by
  intro h
  have h' := congrArg String.toList h
  simp [String.toList_append, hx] at h'

/-! ### `Pin`: an output typed as a blackbox pin -/

def pin : Circuit :=
  { nodes := [("a", { ty := some "input", out := some false }), ("b", { ty := some "bb_input", out := some true })],
    edges := [("a", "b")] }

theorem pin_good : Good pin ∧ Pairing pin [] :=
  ⟨⟨Limit.lintClean_of_checks pin ⟨by decide, by decide, by decide⟩ (by decide) (by decide) (by decide), rfl⟩,
    ⟨by decide, by decide, by decide, by decide, by decide⟩⟩

theorem pin_addable : AddableNames pin := by unfold AddableNames; decide

theorem pin_io : pin.io = ["a", "b"] := by decide

/-- `a_p_t` and `b_p_t` are not of the shape `unrolled_k_y`: compare the first characters.  (Stated for the two io names
    by hand since `NoStepClash` quantifies over all steps.) -/
theorem pin_noclash : NoStepClash pin "p" := by
  intro x hx t y _ k
  rw [pin_io] at hx
  simp only [List.mem_cons, List.not_mem_nil, or_false] at hx
  rcases hx with rfl | rfl
  · exact ne_unrolled (l := []) rfl _ _ _ _
  · intro h
    have h' := congrArg String.toList h
    simp [String.toList_append] at h'

theorem pin_fails : Tx.unroll pin 1 [] "p" id = .error .valueError :=
  UnrollOk.eq_of_isValueError (by decide +kernel)

/-- the missing hypothesis fails … -/
theorem pin_hpin : ¬ PinOutputsOK pin := fun h => (h "b" (by decide)).1 (by decide)

/-- … and all naming hypotheses of the corrected theorem hold: the pin hypothesis is what is missing -/
theorem pin_names : StepNamesOK pin "p" 1 where
  addable := by decide
  distinct := by decide
  noCopy := by
    have h : ∀ x ∈ pin.io, ∀ t, t < 1 → ∀ y ∈ pin.nodeNames, ∀ k, k < 1 →
        stepName pin "p" x t ≠ "unrolled_" ++ toString k ++ "_" ++ y := by decide
    exact fun x hx t ht y hy k hk => h x hx t ht y ((Circuit.has_iff_mem _ _).1 hy) k hk

/-! ### `Uid`: a uniquified io name collides with the plain io name of another node -/

def uidc : Circuit :=
  { nodes := [("a", { ty := some "input", out := some false }), ("a_0", { ty := some "input", out := some false }),
              ("a_0_0", { ty := some "and", out := some true })],
    edges := [("a", "a_0_0"), ("a_0", "a_0_0")] }

theorem uidc_good : Good uidc ∧ Pairing uidc [] :=
  ⟨⟨Limit.lintClean_of_checks uidc ⟨by decide, by decide, by decide⟩ (by decide) (by decide) (by decide), rfl⟩,
    ⟨by decide, by decide, by decide, by decide, by decide⟩⟩

theorem uidc_addable : AddableNames uidc := by unfold AddableNames; decide

theorem uidc_io : uidc.io = ["a", "a_0", "a_0_0"] := by decide

theorem uidc_noclash : NoStepClash uidc "0" := by
  intro x hx t y _ k
  rw [uidc_io] at hx
  simp only [List.mem_cons, List.not_mem_nil, or_false] at hx
  rcases hx with rfl | rfl | rfl
  · exact ne_unrolled (l := []) rfl _ _ _ _
  · exact ne_unrolled (l := ['_', '0']) rfl _ _ _ _
  · exact ne_unrolled (l := ['_', '0', '_', '0']) rfl _ _ _ _

theorem uidc_fails : Tx.unroll uidc 1 [] "0" id = .error .valueError :=
  UnrollOk.eq_of_isValueError (by decide +kernel)

/-- the two io nodes `a` and `a_0` get the same step-0 name -/
theorem uidc_same : stepName uidc "0" "a" 0 = "a_0_0_0" ∧ stepName uidc "0" "a_0" 0 = "a_0_0_0" := by decide

theorem uidc_hnames : ¬ StepNamesOK uidc "0" 1 := fun h =>
  absurd (h.distinct "a" (by decide) "a_0" (by decide) 0 (by decide) 0 (by decide) (by decide)).1 (by decide)

theorem uidc_hpin : NoPinOutputs uidc := by unfold NoPinOutputs; decide

/-! ### `unroll_ok` is false as stated -/

/-- the statement of `CG.C09.unroll_ok` -/
def UnrollOkStatement : Prop :=
  ∀ (c : Circuit) (n : Nat) (stateIO : List (Name × Name)) (pfx : String) (ord : Ord), OrdOK ord → Good c →
    Pairing c stateIO → 1 ≤ n → AddableNames c → NoStepClash c pfx → ∃ r, Tx.unroll c n stateIO pfx ord = .ok r

theorem unroll_ok_false_pin : ¬ UnrollOkStatement := by
  intro h
  obtain ⟨r, hr⟩ := h pin 1 [] "p" id ordOK_id pin_good.1 pin_good.2 (Nat.le_refl 1) pin_addable pin_noclash
  rw [pin_fails] at hr
  cases hr

theorem unroll_ok_false_uid : ¬ UnrollOkStatement := by
  intro h
  obtain ⟨r, hr⟩ := h uidc 1 [] "0" id ordOK_id uidc_good.1 uidc_good.2 (Nat.le_refl 1) uidc_addable uidc_noclash
  rw [uidc_fails] at hr
  cases hr

/-- even with `NoPinOutputs` (the stronger pin hypothesis) added, the original naming hypotheses are not enough -/
theorem unroll_ok_false_uid' : ¬ (∀ (c : Circuit) (n : Nat) (stateIO : List (Name × Name)) (pfx : String) (ord : Ord),
    OrdOK ord → Good c → Pairing c stateIO → 1 ≤ n → AddableNames c → NoStepClash c pfx → NoPinOutputs c →
    ∃ r, Tx.unroll c n stateIO pfx ord = .ok r) := by
  intro h
  obtain ⟨r, hr⟩ := h uidc 1 [] "0" id ordOK_id uidc_good.1 uidc_good.2 (Nat.le_refl 1) uidc_addable uidc_noclash
    uidc_hpin
  rw [uidc_fails] at hr
  cases hr

/-! ### `PinOut`: `NoPinOutputs` is not necessary — a `bb_output` output without fan-out is fine (`PinOutputsOK`) -/

def pinOut : Circuit := { nodes := [("a", { ty := some "bb_output", out := some true })], edges := [] }

theorem pinOut_good : Good pinOut :=
  ⟨Limit.lintClean_of_checks pinOut ⟨by decide, by decide, by decide⟩ (by decide) (by decide) (by decide), rfl⟩

theorem pinOut_ok : (Tx.unroll pinOut 2 [] "p" id).toOption.isSome = true ∧ ¬ NoPinOutputs pinOut ∧
    PinOutputsOK pinOut :=
  ⟨by decide +kernel, fun h => (h "a" (by decide)).2 (by decide), by unfold PinOutputsOK; decide⟩

end CG.C09.OkCex
