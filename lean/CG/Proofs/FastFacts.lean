/- C14 helper: facts about the restricted subset shared by the two parser replays -/
import CG.Proofs.FastDefs
import CG.Proofs.VRoundFinal
namespace CG
namespace FV
open Verilog FastVerilog Circuit

/-! ### lists -/

theorem rev_ind {α : Type} {P : List α → Prop} (h0 : P []) (hs : ∀ l a, P l → P (l ++ [a])) : ∀ l, P l := by
  intro l
  have h : ∀ l : List α, P l.reverse := by
    intro l
    induction l with
    | nil => exact h0
    | cons a l ih => rw [List.reverse_cons]; exact hs _ _ ih
  have := h l.reverse
  rwa [List.reverse_reverse] at this

theorem eq_of_mem_flatMap_nodup {α β : Type} {f : α → List β} : ∀ {l : List α}, (l.flatMap f).Nodup →
    ∀ {a b : α}, a ∈ l → b ∈ l → ∀ {x : β}, x ∈ f a → x ∈ f b → a = b
  | [], _, _, _, ha, _, _, _, _ => nomatch ha
  | c :: l, h, a, b, ha, hb, x, hxa, hxb => by
    rw [List.flatMap_cons, List.nodup_append] at h
    obtain ⟨_, h2, h3⟩ := h
    rcases List.mem_cons.1 ha with rfl | ha' <;> rcases List.mem_cons.1 hb with rfl | hb'
    · rfl
    · exact absurd rfl (h3 x hxa x (List.mem_flatMap.2 ⟨b, hb', hxb⟩))
    · exact absurd rfl (h3 x hxb x (List.mem_flatMap.2 ⟨a, ha', hxa⟩))
    · exact eq_of_mem_flatMap_nodup h2 ha' hb' hxa hxb

/-! ### names -/

theorem Plain.nameOK {n : Name} (h : Plain n) : Limit.NameOK n := by
  refine ⟨h.2.1, ?_⟩
  cases he : n.isEmpty with
  | false => rfl
  | true => exact absurd (String.isEmpty_iff.1 he) h.1

theorem Plain.nodot {n : Name} (h : Plain n) : ¬ n.toList.contains '.' = true := h.2.2.1

theorem Plain.ne_pin {n : Name} (h : Plain n) (i g : Name) : n ≠ i ++ "." ++ g := VR.ne_pin_of_nodot h.nodot i g

theorem Plain.ne_ties {n : Name} (h : Plain n) :
    n ≠ "tie0" ∧ n ≠ "tie1" ∧ n ≠ "tie_0" ∧ n ≠ "tie_1" ∧ n ≠ "tie_x" := by
  have := h.2.2.2.2
  simp only [List.mem_cons, List.not_mem_nil, or_false, not_or] at this
  exact this

theorem Plain.not_isTie {n : Name} (h : Plain n) : ¬ VR.isTie n := by
  obtain ⟨_, _, h3, h4, h5⟩ := h.ne_ties
  rintro (h | h | h)
  · exact h3 h
  · exact h4 h
  · exact h5 h

theorem pin_not_plain (i g : Name) : ¬ Plain (i ++ "." ++ g) := fun h => h.ne_pin i g rfl

theorem pin_ne_ties {i : Name} (_hi : Plain i) (g : Name) :
    i ++ "." ++ g ≠ "tie0" ∧ i ++ "." ++ g ≠ "tie1" ∧ i ++ "." ++ g ≠ "tie_0" ∧ i ++ "." ++ g ≠ "tie_1" ∧
    i ++ "." ++ g ≠ "tie_x" := by
  have hd := VR.pin_has_dot i g
  refine ⟨?_, ?_, ?_, ?_, ?_⟩ <;> intro h <;> rw [h] at hd <;> revert hd <;> decide

/-! ### operands -/

/-- an operand whose net name does not collide with the constant nodes -/
def ROp.Valid (t0 t1 : Name) : ROp → Prop
  | .net n => n ≠ t0 ∧ n ≠ t1
  | _ => True

theorem nm_inj {t0 t1 : Name} (h01 : t0 ≠ t1) {a b : ROp} (ha : a.Valid t0 t1) (hb : b.Valid t0 t1)
    (h : a.nm t0 t1 = b.nm t0 t1) : a = b := by
  cases a <;> cases b <;> simp only [ROp.nm, ROp.Valid] at h ha hb
  · rw [h]
  · exact absurd h ha.1
  · exact absurd h ha.2
  · exact absurd h.symm hb.1
  · rfl
  · exact absurd h h01
  · exact absurd h.symm hb.2
  · exact absurd h.symm h01
  · rfl

theorem dedup_mem {α : Type} [BEq α] [LawfulBEq α] : ∀ (l : List α) (x : α), x ∈ dedup l ↔ x ∈ l
  | [], x => by simp [dedup]
  | y :: l, x => by
    rw [dedup, List.mem_cons, List.mem_cons, List.mem_filter, dedup_mem l x]
    constructor
    · rintro (h | ⟨h, _⟩)
      · exact Or.inl h
      · exact Or.inr h
    · rintro (h | h)
      · exact Or.inl h
      · by_cases hxy : x = y
        · exact Or.inl hxy
        · exact Or.inr ⟨h, by simpa using hxy⟩

theorem dedup_map_inj {α β : Type} [BEq α] [LawfulBEq α] [BEq β] [LawfulBEq β] (f : α → β) :
    ∀ (l : List α), (∀ a ∈ l, ∀ b ∈ l, f a = f b → a = b) → dedup (l.map f) = (dedup l).map f
  | [], _ => rfl
  | x :: l, h => by
    rw [List.map_cons, dedup, dedup, List.map_cons,
      dedup_map_inj f l (fun a ha b hb => h a (by simp [ha]) b (by simp [hb])), List.filter_map]
    congr 2
    apply List.filter_congr
    intro y hy
    have hy' : y ∈ l := (dedup_mem l y).1 hy
    simp only [Function.comp]
    by_cases hyx : y = x
    · simp [hyx]
    · have : f y ≠ f x := fun e => hyx (h y (by simp [hy']) x (by simp) e)
      rw [beq_false_of_ne this, beq_false_of_ne hyx]

theorem count_map_inj {α β : Type} [BEq α] [LawfulBEq α] [BEq β] [LawfulBEq β] (f : α → β) :
    ∀ (l : List α) (x : α), (∀ a ∈ l, f a = f x → a = x) → (l.map f).count (f x) = l.count x
  | [], _, _ => rfl
  | y :: l, x, h => by
    rw [List.map_cons, List.count_cons, List.count_cons, count_map_inj f l x (fun a ha => h a (by simp [ha]))]
    by_cases hyx : y = x
    · simp [hyx]
    · have : f y ≠ f x := fun e => hyx (h y (by simp) e)
      simp [hyx, this]

theorem parity_map (t0 t1 : Name) (h01 : t0 ≠ t1) (ty : String) (ops : List ROp) (hv : ∀ a ∈ ops, a.Valid t0 t1) :
    FastVerilog.parityFanin t0 ty (ops.map (ROp.nm t0 t1)) = (parityOps ty ops).map (ROp.nm t0 t1) := by
  have hinj : ∀ a ∈ ops, ∀ b ∈ ops, a.nm t0 t1 = b.nm t0 t1 → a = b := fun a ha b hb => nm_inj h01 (hv a ha) (hv b hb)
  unfold FastVerilog.parityFanin parityOps
  rw [dedup_map_inj _ ops hinj, List.length_map, List.length_map]
  by_cases hc : ((ty == "xor" || ty == "xnor") && decide ((dedup ops).length < ops.length)) = true
  · rw [if_pos hc, if_pos hc]
    simp only []
    have hf : List.filter (fun p => (ops.map (ROp.nm t0 t1)).count p % 2 == 1) ((dedup ops).map (ROp.nm t0 t1)) =
        ((dedup ops).filter (fun p => ops.count p % 2 == 1)).map (ROp.nm t0 t1) := by
      rw [List.filter_map]
      congr 1
      apply List.filter_congr
      intro y hy
      have hy' : y ∈ ops := (dedup_mem ops y).1 hy
      simp only [Function.comp]
      rw [count_map_inj _ ops y (fun a ha e => hinj a ha y hy' e)]
    rw [hf, List.isEmpty_map]
    split
    · rfl
    · rfl
  · rw [if_neg hc, if_neg hc]

theorem vparity_eq (ty : String) (fi : List Name) : Verilog.parityFanin ty fi = FastVerilog.parityFanin "tie_0" ty fi := rfl

theorem mem_parityOps {ty : String} {ops : List ROp} {a : ROp} (h : a ∈ parityOps ty ops) : a ∈ ops ∨ a = .c0 := by
  unfold parityOps at h
  split at h
  · simp only [] at h
    split at h
    · right; simpa using h
    · left; exact (dedup_mem ops a).1 (List.mem_filter.1 h).1
  · exact Or.inl h

theorem parityOps_ne_nil {ty : String} {ops : List ROp} (h : ops ≠ []) : parityOps ty ops ≠ [] := by
  unfold parityOps
  split
  · simp only []
    split
    · simp
    · rename_i h1 h2
      intro e; rw [e] at h2; simp at h2
  · exact h

theorem dedup_length_le {α : Type} [BEq α] : ∀ l : List α, (dedup l).length ≤ l.length
  | [] => Nat.le_refl _
  | x :: l => by
    rw [dedup, List.length_cons, List.length_cons]
    exact Nat.succ_le_succ (Nat.le_trans (List.length_filter_le _ _) (dedup_length_le l))

theorem parityOps_single (ty : String) (a : ROp) : parityOps ty [a] = [a] := by
  unfold parityOps
  rw [if_neg]
  simp [dedup]

/-! ### what a statement defines -/

theorem gate_supported {t : String} (h : t ∈ gateTypes) : t ∈ Expected.supported_types := by
  simp only [gateTypes, List.mem_cons, List.not_mem_nil, or_false] at h
  rcases h with rfl | rfl | rfl | rfl | rfl | rfl | rfl | rfl <;> decide

theorem buf_gate : "buf" ∈ gateTypes := by decide

/-- a defined node is a plain driven net with a gate type, or a pin node of the statement's instance -/
theorem dty_cases {bbs : List BBox} {s : RStmt} (hok : s.OK bbs) {n : Name} {t : String} (h : s.dty bbs n t) :
    (Plain n ∧ n ∈ s.defs bbs ∧ t ∈ gateTypes) ∨
    (∃ inst g, s.instName = [inst] ∧ Plain inst ∧ Plain g ∧ n = inst ++ "." ++ g ∧ (t = "bb_input" ∨ t = "bb_output")) := by
  cases s with
  | gate ty inst out ops =>
    obtain ⟨rfl, rfl⟩ := h
    exact Or.inl ⟨hok.2.2.1, by simp [RStmt.defs], hok.1⟩
  | assign l r =>
    obtain ⟨rfl, rfl⟩ := h
    exact Or.inl ⟨hok.1, by simp [RStmt.defs], buf_gate⟩
  | bb ty inst pins =>
    obtain ⟨_, hinst, d, hd, hpl, hnd, hpn, hpm, hpo⟩ := hok
    obtain ⟨d', hd', hc⟩ := h
    rw [hd] at hd'; injection hd' with hd'; subst hd'
    rcases hc with ⟨p, hp, hpo', rfl⟩ | ⟨g, hg, rfl, rfl⟩ | ⟨g, hg, rfl, rfl⟩
    · left
      refine ⟨(hpo _ hp _ rfl).1 n (by simp [ROp.nets]), ?_, buf_gate⟩
      simp only [RStmt.defs, hd]
      rw [List.mem_flatMap]
      exact ⟨_, hp, by simp [hpo', ROp.nets]⟩
    · right
      exact ⟨inst, g, rfl, hinst, hpl g (by simp [hg]), rfl, Or.inl rfl⟩
    · right
      exact ⟨inst, g, rfl, hinst, hpl g (by simp [hg]), rfl, Or.inr rfl⟩

theorem dty_of_defs {bbs : List BBox} {s : RStmt} (hok : s.OK bbs) {n : Name} (h : n ∈ s.defs bbs) :
    ∃ t, s.dty bbs n t := by
  cases s with
  | gate ty inst out ops =>
    simp only [RStmt.defs, List.mem_singleton] at h
    exact ⟨ty, h, rfl⟩
  | assign l r =>
    simp only [RStmt.defs, List.mem_singleton] at h
    exact ⟨"buf", h, rfl⟩
  | bb ty inst pins =>
    obtain ⟨_, hinst, d, hd, hpl, hnd, hpn, hpm, hpo⟩ := hok
    simp only [RStmt.defs, hd] at h
    rw [List.mem_flatMap] at h
    obtain ⟨⟨p, o⟩, hp, hx⟩ := h
    by_cases hc : d.outs.contains p = true
    · simp only [hc, if_true] at hx
      cases o with
      | none => simp at hx
      | some o =>
        cases o with
        | net m =>
          simp only [Option.map_some, Option.getD_some, ROp.nets, List.mem_singleton] at hx
          subst hx
          exact ⟨"buf", d, hd, Or.inl ⟨p, hp, by simpa using hc, rfl⟩⟩
        | c0 => simp [ROp.nets] at hx
        | c1 => simp [ROp.nets] at hx
    · rw [if_neg hc] at hx; cases hx

theorem dty_supported {bbs : List BBox} {s : RStmt} (hok : s.OK bbs) {n : Name} {t : String} (h : s.dty bbs n t) :
    t ∈ Expected.supported_types := by
  rcases dty_cases hok h with ⟨_, _, h⟩ | ⟨_, _, _, _, _, _, rfl | rfl⟩
  · exact gate_supported h
  · decide
  · decide

theorem dty_fun_same {bbs : List BBox} {s : RStmt} (hok : s.OK bbs) {n : Name} {t t' : String}
    (h : s.dty bbs n t) (h' : s.dty bbs n t') : t = t' := by
  cases s with
  | gate ty inst out ops => rw [h.2, h'.2]
  | assign l r => rw [h.2, h'.2]
  | bb ty inst pins =>
    obtain ⟨_, hinst, d, hd, hpl, hnd, hpn, hpm, hpo⟩ := hok
    obtain ⟨d1, hd1, hc⟩ := h
    obtain ⟨d2, hd2, hc'⟩ := h'
    rw [hd] at hd1 hd2; injection hd1 with hd1; injection hd2 with hd2; subst hd1; subst hd2
    have hdisj : ∀ g, g ∈ d.ins → g ∈ d.outs → False := by
      intro g h1 h2
      rw [List.nodup_append] at hnd
      exact hnd.2.2 g h1 g h2 rfl
    have hnet : ∀ p, (p, some (ROp.net n)) ∈ pins → Plain n := fun p hp => (hpo _ hp _ rfl).1 n (by simp [ROp.nets])
    rcases hc with ⟨p, hp, _, rfl⟩ | ⟨g, hg, e, rfl⟩ | ⟨g, hg, e, rfl⟩ <;>
      rcases hc' with ⟨p', hp', _, rfl⟩ | ⟨g', hg', e', rfl⟩ | ⟨g', hg', e', rfl⟩
    · rfl
    · exact absurd e' ((hnet p hp).ne_pin _ _)
    · exact absurd e' ((hnet p hp).ne_pin _ _)
    · exact absurd e ((hnet p' hp').ne_pin _ _)
    · rfl
    · rw [e] at e'; have := VR.pin_inj_right e'; subst this; exact (hdisj g hg hg').elim
    · exact absurd e ((hnet p' hp').ne_pin _ _)
    · rw [e] at e'; have := VR.pin_inj_right e'; subst this; exact (hdisj g hg' hg).elim
    · rfl

/-- the hypotheses on a list of statements used by the replays (a prefix-closed part of `Restricted`) -/
structure RL (bbs : List BBox) (ins : List Name) (ss : List RStmt) : Prop where
  ok : ∀ s ∈ ss, s.OK bbs
  insPlain : ∀ i ∈ ins, Plain i
  defsNodup : (ins ++ ss.flatMap (RStmt.defs bbs)).Nodup
  instsNodup : (ss.flatMap RStmt.instName).Nodup

theorem RL.of_restricted {r : RMod} {bbs : List BBox} (h : Restricted r bbs) : RL bbs r.inputs r.stmts :=
  ⟨h.stmts, h.inputsPlain, h.defsNodup, h.instsNodup⟩

theorem RL.init {bbs : List BBox} {ins : List Name} {ss : List RStmt} {s : RStmt} (h : RL bbs ins (ss ++ [s])) :
    RL bbs ins ss := by
  refine ⟨fun x hx => h.ok x (by simp [hx]), h.insPlain, ?_, ?_⟩
  · have := h.defsNodup
    rw [List.flatMap_append, ← List.append_assoc] at this
    exact (List.nodup_append.1 this).1
  · have := h.instsNodup
    rw [List.flatMap_append] at this
    exact (List.nodup_append.1 this).1

theorem RL.last_ok {bbs : List BBox} {ins : List Name} {ss : List RStmt} {s : RStmt} (h : RL bbs ins (ss ++ [s])) :
    s.OK bbs := h.ok s (by simp)

/-- two definitions of one node come from the same statement -/
theorem RL.same_stmt {bbs : List BBox} {ins : List Name} {ss : List RStmt} (h : RL bbs ins ss) {s s' : RStmt}
    (hs : s ∈ ss) (hs' : s' ∈ ss) {n : Name} {t t' : String} (hd : s.dty bbs n t) (hd' : s'.dty bbs n t') : s = s' := by
  have hn := (List.nodup_append.1 h.defsNodup).2.1
  rcases dty_cases (h.ok s hs) hd with ⟨hp, hdef, _⟩ | ⟨i, g, hi, hpi, hpg, e, _⟩ <;>
    rcases dty_cases (h.ok s' hs') hd' with ⟨hp', hdef', _⟩ | ⟨i', g', hi', hpi', hpg', e', _⟩
  · exact eq_of_mem_flatMap_nodup hn hs hs' hdef hdef'
  · exact absurd e' (hp.ne_pin _ _)
  · exact absurd e (hp'.ne_pin _ _)
  · rw [e] at e'
    have := (VR.pin_inj hpi.nodot hpi'.nodot e').1
    subst this
    exact eq_of_mem_flatMap_nodup h.instsNodup hs hs' (x := i) (by rw [hi]; simp) (by rw [hi']; simp)

theorem RL.not_input {bbs : List BBox} {ins : List Name} {ss : List RStmt} (h : RL bbs ins ss) {s : RStmt}
    (hs : s ∈ ss) {n : Name} {t : String} (hd : s.dty bbs n t) : n ∉ ins := by
  intro hi
  rcases dty_cases (h.ok s hs) hd with ⟨_, hdef, _⟩ | ⟨i, g, _, _, _, e, _⟩
  · exact (List.nodup_append.1 h.defsNodup).2.2 n hi n (List.mem_flatMap.2 ⟨s, hs, hdef⟩) rfl
  · exact (h.insPlain n hi).ne_pin _ _ e

theorem RL.defTy_fun {bbs : List BBox} {ins : List Name} {ss : List RStmt} (h : RL bbs ins ss) {n : Name}
    {t t' : String} (h1 : DefTy bbs ins ss n t) (h2 : DefTy bbs ins ss n t') : t = t' := by
  rcases h1 with ⟨hi, rfl⟩ | ⟨s, hs, hd⟩ <;> rcases h2 with ⟨hi', rfl⟩ | ⟨s', hs', hd'⟩
  · rfl
  · exact absurd hi (h.not_input hs' hd')
  · exact absurd hi' (h.not_input hs hd)
  · have := h.same_stmt hs hs' hd hd'
    subst this
    exact dty_fun_same (h.ok s hs) hd hd'

/-- what the last statement defines was not defined before -/
theorem RL.fresh {bbs : List BBox} {ins : List Name} {ss : List RStmt} {s : RStmt} (h : RL bbs ins (ss ++ [s]))
    {n : Name} {t t' : String} (hd : s.dty bbs n t) : ¬ DefTy bbs ins ss n t' := by
  rintro (⟨hi, _⟩ | ⟨s', hs', hd'⟩)
  · exact h.not_input (by simp) hd hi
  · have hn := (List.nodup_append.1 h.defsNodup).2.1
    rw [List.flatMap_append, List.nodup_append] at hn
    have hin := h.instsNodup
    rw [List.flatMap_append, List.nodup_append] at hin
    rcases dty_cases h.last_ok hd with ⟨hp, hdef, _⟩ | ⟨i, g, hi, hpi, hpg, e, _⟩ <;>
      rcases dty_cases (h.ok s' (by simp [hs'])) hd' with ⟨hp', hdef', _⟩ | ⟨i', g', hi', hpi', hpg', e', _⟩
    · exact hn.2.2 n (List.mem_flatMap.2 ⟨s', hs', hdef'⟩) n (by simpa using hdef) rfl
    · exact absurd e' (hp.ne_pin _ _)
    · exact absurd e (hp'.ne_pin _ _)
    · rw [e] at e'
      have := (VR.pin_inj hpi.nodot hpi'.nodot e').1
      subst this
      exact hin.2.2 i (List.mem_flatMap.2 ⟨s', hs', by rw [hi']; simp⟩) i (by simp [hi]) rfl

theorem defTy_append {bbs : List BBox} {ins : List Name} {ss : List RStmt} {s : RStmt} {n : Name} {t : String} :
    DefTy bbs ins (ss ++ [s]) n t ↔ DefTy bbs ins ss n t ∨ s.dty bbs n t := by
  unfold DefTy
  constructor
  · rintro (h | ⟨s', hs', hd⟩)
    · exact Or.inl (Or.inl h)
    · rcases List.mem_append.1 hs' with h | h
      · exact Or.inl (Or.inr ⟨s', h, hd⟩)
      · rw [List.mem_singleton] at h; subst h; exact Or.inr hd
  · rintro ((h | ⟨s', hs', hd⟩) | h)
    · exact Or.inl h
    · exact Or.inr ⟨s', by simp [hs'], hd⟩
    · exact Or.inr ⟨s, by simp, h⟩

theorem edgeOf_append {bbs : List BBox} {ss : List RStmt} {s : RStmt} {t0 t1 : Name} {e : Name × Name} :
    EdgeOf bbs (ss ++ [s]) t0 t1 e ↔ EdgeOf bbs ss t0 t1 e ∨ ∃ a b, s.edge bbs a b ∧ e = (a.nm t0 t1, b) := by
  unfold EdgeOf
  constructor
  · rintro ⟨s', hs', h⟩
    rcases List.mem_append.1 hs' with h' | h'
    · exact Or.inl ⟨s', h', h⟩
    · rw [List.mem_singleton] at h'; subst h'; exact Or.inr h
  · rintro (⟨s', hs', h⟩ | h)
    · exact ⟨s', by simp [hs'], h⟩
    · exact ⟨s, by simp, h⟩

theorem regOf_append {bbs : List BBox} {ss : List RStmt} {s : RStmt} {q : Name × BBox} :
    RegOf bbs (ss ++ [s]) q ↔ RegOf bbs ss q ∨ s.reg bbs q := by
  unfold RegOf
  constructor
  · rintro ⟨s', hs', h⟩
    rcases List.mem_append.1 hs' with h' | h'
    · exact Or.inl ⟨s', h', h⟩
    · rw [List.mem_singleton] at h'; subst h'; exact Or.inr h
  · rintro (⟨s', hs', h⟩ | h)
    · exact ⟨s', by simp [hs'], h⟩
    · exact ⟨s, by simp, h⟩

/-! ### edges of a statement -/

theorem edge_tgt {bbs : List BBox} {s : RStmt} {a : ROp} {b : Name} (h : s.edge bbs a b) : ∃ t, s.dty bbs b t := by
  cases s with
  | gate ty inst out ops => exact ⟨ty, h.2, rfl⟩
  | assign l r => exact ⟨"buf", h.2, rfl⟩
  | bb ty inst pins =>
    obtain ⟨d, hd, p, o, hp, hc⟩ := h
    rcases hc with ⟨hpi, _, rfl⟩ | ⟨hpo, _, rfl⟩
    · exact ⟨"bb_input", d, hd, Or.inr (Or.inl ⟨p, hpi, rfl, rfl⟩)⟩
    · exact ⟨"buf", d, hd, Or.inl ⟨p, hp, hpo, rfl⟩⟩

theorem edge_src {bbs : List BBox} {s : RStmt} (hok : s.OK bbs) {a : ROp} {b : Name} (h : s.edge bbs a b) :
    a = .c0 ∨ a = .c1 ∨ (∃ n, a = .net n ∧ n ∈ s.uses bbs ∧ Plain n) ∨ (∃ n, a = .net n ∧ s.dty bbs n "bb_output") := by
  cases s with
  | gate ty inst out ops =>
    rcases mem_parityOps h.1 with hm | rfl
    · cases a with
      | c0 => exact Or.inl rfl
      | c1 => exact Or.inr (Or.inl rfl)
      | net n =>
        have hu : n ∈ ops.flatMap ROp.nets := List.mem_flatMap.2 ⟨_, hm, by simp [ROp.nets]⟩
        exact Or.inr (Or.inr (Or.inl ⟨n, rfl, hu, hok.2.2.2.2.2 n hu⟩))
    · exact Or.inl rfl
  | assign l r =>
    obtain ⟨rfl, _⟩ := h
    cases a with
    | c0 => exact Or.inl rfl
    | c1 => exact Or.inr (Or.inl rfl)
    | net n => exact Or.inr (Or.inr (Or.inl ⟨n, rfl, by simp [RStmt.uses, ROp.nets], hok.2 n (by simp [ROp.nets])⟩))
  | bb ty inst pins =>
    obtain ⟨_, hinst, d, hd, hpl, hnd, hpn, hpm, hpo⟩ := hok
    obtain ⟨d', hd', p, o, hp, hc⟩ := h
    rw [hd] at hd'; injection hd' with hd'; subst hd'
    rcases hc with ⟨hpi, rfl, rfl⟩ | ⟨hpo', rfl, rfl⟩
    · cases a with
      | c0 => exact Or.inl rfl
      | c1 => exact Or.inr (Or.inl rfl)
      | net n =>
        refine Or.inr (Or.inr (Or.inl ⟨n, rfl, ?_, (hpo _ hp _ rfl).1 n (by simp [ROp.nets])⟩))
        simp only [RStmt.uses, hd]
        rw [List.mem_flatMap]
        exact ⟨_, hp, by simp [hpi, ROp.nets]⟩
    · exact Or.inr (Or.inr (Or.inr ⟨_, rfl, d, hd, Or.inr (Or.inr ⟨p, hpo', rfl, rfl⟩)⟩))

/-- the source operand of an edge never collides with a constant node's name -/
theorem edge_src_valid {bbs : List BBox} {s : RStmt} (hok : s.OK bbs) {a : ROp} {b : Name} (h : s.edge bbs a b)
    {t0 t1 : Name} (ht0 : t0 ∈ ["tie0", "tie1", "tie_0", "tie_1", "tie_x"]) (ht1 : t1 ∈ ["tie0", "tie1", "tie_0", "tie_1", "tie_x"]) :
    a.Valid t0 t1 := by
  have key : ∀ n, (Plain n ∨ ∃ i g, Plain i ∧ n = i ++ "." ++ g) → n ≠ t0 ∧ n ≠ t1 := by
    intro n hn
    have : n ∉ ["tie0", "tie1", "tie_0", "tie_1", "tie_x"] := by
      rcases hn with hn | ⟨i, g, hi, rfl⟩
      · exact hn.2.2.2.2
      · have := pin_ne_ties hi g
        simp only [List.mem_cons, List.not_mem_nil, or_false, not_or]
        exact this
    exact ⟨fun e => this (e ▸ ht0), fun e => this (e ▸ ht1)⟩
  rcases edge_src hok h with rfl | rfl | ⟨n, rfl, _, hp⟩ | ⟨n, rfl, hd⟩
  · trivial
  · trivial
  · exact key n (Or.inl hp)
  · rcases dty_cases hok hd with ⟨_, _, hg⟩ | ⟨i, g, _, hi, _, e, _⟩
    · exact absurd hg (by decide)
    · exact key n (Or.inr ⟨i, g, hi, e⟩)

/-! ### consequences of `Restricted` -/

theorem Restricted.def_of_mem_defs {r : RMod} {bbs : List BBox} (h : Restricted r bbs) {n : Name}
    (hn : n ∈ r.inputs ∨ n ∈ r.stmts.flatMap (RStmt.defs bbs)) : ∃ t, DefTy bbs r.inputs r.stmts n t := by
  rcases hn with hn | hn
  · exact ⟨"input", Or.inl ⟨hn, rfl⟩⟩
  · obtain ⟨s, hs, hd⟩ := List.mem_flatMap.1 hn
    obtain ⟨t, ht⟩ := dty_of_defs (h.stmts s hs) hd
    exact ⟨t, Or.inr ⟨s, hs, ht⟩⟩

/-- a floating net has a plain name: it is neither a constant node nor a pin -/
theorem floating_plain {bbs : List BBox} {ins : List Name} {ss : List RStmt} (hok : ∀ s ∈ ss, s.OK bbs) {n : Name}
    (hf : Floating bbs ins ss n) : Plain n := by
  obtain ⟨⟨s, hs, b, hb⟩, hnd⟩ := hf
  rcases edge_src (hok s hs) hb with e | e | ⟨m, e, _, hp⟩ | ⟨m, e, hd⟩
  · cases e
  · cases e
  · injection e with e; subst e; exact hp
  · injection e with e; subst e
    exact absurd (Or.inr ⟨s, hs, hd⟩) (hnd _)

/-- the source of an edge is a constant, a defined node or a floating net -/
theorem edge_src_cases {bbs : List BBox} {ins : List Name} {ss : List RStmt} (hok : ∀ s ∈ ss, s.OK bbs) {s : RStmt}
    (hs : s ∈ ss) {a : ROp} {b : Name} (h : s.edge bbs a b) :
    a = .c0 ∨ a = .c1 ∨ ∃ n, a = .net n ∧ ((∃ t, DefTy bbs ins ss n t) ∨ (Floating bbs ins ss n ∧ Plain n)) := by
  rcases edge_src (hok s hs) h with rfl | rfl | ⟨n, rfl, _, hp⟩ | ⟨n, rfl, hd⟩
  · exact Or.inl rfl
  · exact Or.inr (Or.inl rfl)
  · refine Or.inr (Or.inr ⟨n, rfl, ?_⟩)
    by_cases hd : ∃ t, DefTy bbs ins ss n t
    · exact Or.inl hd
    · exact Or.inr ⟨⟨⟨s, hs, b, h⟩, fun t ht => hd ⟨t, ht⟩⟩, hp⟩
  · exact Or.inr (Or.inr ⟨n, rfl, Or.inl ⟨_, Or.inr ⟨s, hs, hd⟩⟩⟩)

theorem Restricted.out_def {r : RMod} {bbs : List BBox} (h : Restricted r bbs) {o : Name} (ho : o ∈ r.outputs) :
    ∃ t, DefTy bbs r.inputs r.stmts o t :=
  h.def_of_mem_defs (h.outputsDriven o ho)

/-- every defined node is plain or a pin; in particular no constant-node name is defined -/
theorem defTy_name {bbs : List BBox} {ins : List Name} {ss : List RStmt} (h : RL bbs ins ss) {n : Name} {t : String}
    (hd : DefTy bbs ins ss n t) : Plain n ∨ ∃ i g, Plain i ∧ n = i ++ "." ++ g := by
  rcases hd with ⟨hi, _⟩ | ⟨s, hs, hd⟩
  · exact Or.inl (h.insPlain n hi)
  · rcases dty_cases (h.ok s hs) hd with ⟨hp, _, _⟩ | ⟨i, g, _, hi, _, e, _⟩
    · exact Or.inl hp
    · exact Or.inr ⟨i, g, hi, e⟩

theorem defTy_not_tie {bbs : List BBox} {ins : List Name} {ss : List RStmt} (h : RL bbs ins ss) {n : Name} {t : String}
    (hd : DefTy bbs ins ss n t) : n ∉ ["tie0", "tie1", "tie_0", "tie_1", "tie_x"] := by
  rcases defTy_name h hd with hn | ⟨i, g, hi, rfl⟩
  · exact hn.2.2.2.2
  · have := pin_ne_ties hi g
    simp only [List.mem_cons, List.not_mem_nil, or_false, not_or]
    exact this

theorem defTy_supported {bbs : List BBox} {ins : List Name} {ss : List RStmt} (h : RL bbs ins ss) {n : Name} {t : String}
    (hd : DefTy bbs ins ss n t) : t ∈ Expected.supported_types := by
  rcases hd with ⟨_, rfl⟩ | ⟨s, hs, hd⟩
  · decide
  · exact dty_supported (h.ok s hs) hd

end FV
end CG
