/- C17 (algorithm) helpers, part 11: one supergate — single output, induced wiring, shape of its inputs -/
import CG.Proofs.SGAlgoClosure
import CG.Proofs.SGAlgoCircuit
set_option linter.unusedSectionVars false
set_option linter.unusedVariables false
set_option linter.unusedSimpArgs false
namespace CG
namespace SGA
open Query Supergates Q

theorem filter_eq_singleton {p : Name → Bool} {h : Name} : ∀ {l : List Name}, l.Nodup → h ∈ l →
    (∀ n ∈ l, p n = true ↔ n = h) → l.filter p = [h]
  | [], _, hm, _ => absurd hm List.not_mem_nil
  | x :: xs, hnd, hm, hp => by
    have hnd' := List.nodup_cons.mp hnd
    by_cases hx : x = h
    · subst hx
      have : xs.filter p = [] := by
        rw [List.filter_eq_nil_iff]
        intro a ha hpa
        have := (hp a (List.mem_cons_of_mem _ ha)).mp hpa
        exact hnd'.1 (this ▸ ha)
      rw [List.filter_cons, if_pos ((hp x List.mem_cons_self).mpr rfl), this]
    · have hpx : ¬ p x = true := fun h1 => hx ((hp x List.mem_cons_self).mp h1)
      rw [List.filter_cons, if_neg hpx]
      refine filter_eq_singleton hnd'.2 ?_ (fun n hn => hp n (List.mem_cons_of_mem _ hn))
      rcases List.mem_cons.mp hm with h1 | h1
      · exact absurd h1.symm hx
      · exact h1

theorem has_of_cone (c2 : Circuit) (hwf : WF c2) {o x : Name} (ho : c2.has o = true) (hx : x ∈ coneOf c2 o) :
    c2.has x = true := by
  rcases ((mem_cone c2 hwf o x).mp hx).cases with h | h
  · exact h ▸ ho
  · obtain ⟨b, he, _⟩ := Plus.head h
    exact (hwf.closed (x, b) he).1

/-- the hypotheses shared by all per-supergate statements -/
structure SGCtx (c2 : Circuit) (o h : Name) (S : List Name) : Prop where
  clean : LintClean c2
  acyc : Acyclic c2
  fanin2 : ∀ n, (c2.fanin n).length ≤ 2
  root : c2.has o = true
  head : HeadOf c2 o h
  nd : S.Nodup
  mem : ∀ x, x ∈ S ↔ InS c2 o h x

namespace SGCtx
variable {c2 : Circuit} {o h : Name} {S : List Name}

theorem wf (X : SGCtx c2 o h S) : WF c2 := X.clean.toWF

theorem head_mem (X : SGCtx c2 o h S) : h ∈ S := (X.mem h).mpr (Or.inl rfl)

theorem mem_cone (X : SGCtx c2 o h S) {x : Name} (hx : x ∈ S) : x ∈ coneOf c2 o :=
  InS.mem c2 X.wf X.acyc o X.head.1 ((X.mem x).mp hx)

theorem chain_of_ne (X : SGCtx c2 o h S) {x : Name} (hx : x ∈ S) (hne : x ≠ h) : Chain (domChildren c2 o) h x :=
  ((X.mem x).mp hx).resolve_left hne

theorem ne_root_of_ne (X : SGCtx c2 o h S) {x : Name} (hx : x ∈ S) (hne : x ≠ h) : x ≠ o :=
  fun h1 => not_SD_root c2 (h1 ▸ chain_SD c2 X.wf X.acyc o (X.chain_of_ne hx hne))

/-- a member other than the head drives a member -/
theorem loaded (X : SGCtx c2 o h S) {x : Name} (hx : x ∈ S) (hne : x ≠ h) : loadedIn c2 S x = true := by
  have hxc := X.mem_cone hx
  have hxo := X.ne_root_of_ne hx hne
  rcases ((SGA.mem_cone c2 X.wf o x).mp hxc).cases with h1 | h1
  · exact absurd h1 hxo
  · obtain ⟨w, he, hw⟩ := Plus.head h1
    have hwc : w ∈ coneOf c2 o := (SGA.mem_cone c2 X.wf o w).mpr hw
    exact (loadedIn_iff c2 S x).mpr ⟨w, he, hx,
      (X.mem w).mpr (fanout_closed c2 X.wf X.acyc o (X.chain_of_ne hx hne) he hwc)⟩

theorem outputs_eq (X : SGCtx c2 o h S) : (sgCircuit c2 o h S).outputs = [h] := by
  rw [sg_outputs_eq]
  refine filter_eq_singleton X.nd X.head_mem ?_
  intro n hn
  constructor
  · intro hf
    refine Classical.byContradiction (fun hne => ?_)
    have hno := X.ne_root_of_ne hn hne
    have hl := X.loaded hn hne
    rw [hl] at hf
    have h1 : (n == h) = false := by simpa using hne
    have h2 : (n == o) = false := by simpa using hno
    rw [h1, h2] at hf
    simp at hf
  · intro hnh
    subst hnh
    simp

theorem single (X : SGCtx c2 o h S) : (sgCircuit c2 o h S).outputs.length = 1 := by
  rw [X.outputs_eq]; rfl

theorem ty_some (X : SGCtx c2 o h S) {n : Name} (hn : n ∈ S) : ∃ t, c2.ty? n = some t ∧ t ∈ Expected.supported_types :=
  ty_some_of_has c2 X.clean (has_of_cone c2 X.wf X.root (X.mem_cone hn))

/-- an internal node is a constant or has a driver in the set -/
theorem internal_cases (X : SGCtx c2 o h S) {n : Name} (hn : n ∈ internal (sgCircuit c2 o h S)) :
    n ∈ S ∧ (c2.fanin n = [] ∨ ∃ a, (a, n) ∈ c2.edges ∧ a ∈ S) := by
  obtain ⟨hnS, hty⟩ := (mem_sg_internal c2 o h S n).mp hn
  refine ⟨hnS, ?_⟩
  by_cases hd : drivenIn c2 S n = true
  · obtain ⟨a, he, ha, _⟩ := (drivenIn_iff c2 S n).mp hd
    exact Or.inr ⟨a, he, ha⟩
  · rw [Bool.not_eq_true] at hd
    left
    obtain ⟨t, ht, _⟩ := X.ty_some hnS
    have hcst : ¬ (((c2.ty? n).getD "" ≠ "0" ∧ (c2.ty? n).getD "" ≠ "1" ∧ (c2.ty? n).getD "" ≠ "x")) :=
      fun h1 => hty ((sgTy_input_iff c2 X.clean S n).mpr ⟨h1, hd⟩)
    rw [ht, Option.getD_some] at hcst
    apply X.clean.noFanin n t ht
    by_cases h0 : t = "0"
    · subst h0; decide
    · by_cases h1 : t = "1"
      · subst h1; decide
      · by_cases hx : t = "x"
        · subst hx; decide
        · exact absurd ⟨h0, h1, hx⟩ hcst

theorem induced (X : SGCtx c2 o h S) {n : Name} (hn : n ∈ internal (sgCircuit c2 o h S)) :
    c2.has n = true ∧ (sgCircuit c2 o h S).ty? n = c2.ty? n ∧
      (∀ x, x ∈ (sgCircuit c2 o h S).fanin n ↔ x ∈ c2.fanin n) := by
  obtain ⟨hnS, hty⟩ := (mem_sg_internal c2 o h S n).mp hn
  obtain ⟨_, hcases⟩ := X.internal_cases hn
  refine ⟨has_of_cone c2 X.wf X.root (X.mem_cone hnS), ?_, ?_⟩
  · obtain ⟨t, ht, _⟩ := X.ty_some hnS
    rw [sg_ty c2 o h S hnS, sgTy_of_ne_input c2 S n hty, ht, Option.getD_some]
  · intro x
    rw [sg_fanin, Q.mem_fanin]
    constructor
    · exact fun h1 => h1.1
    · intro he
      refine ⟨he, ?_, hnS⟩
      rcases hcases with h1 | ⟨a, hea, ha⟩
      · have := Q.mem_fanin.mpr he
        rw [h1] at this
        exact absurd this List.not_mem_nil
      · exact (X.mem x).mpr (fanin_closed c2 X.wf X.acyc o X.fanin2 X.head ((X.mem n).mp hnS)
          ((X.mem a).mp ha) hea he)

/-- an input of the supergate has no fan-in at all or is a frontier node -/
theorem input_cases (X : SGCtx c2 o h S) {a : Name} (ha : a ∈ (sgCircuit c2 o h S).inputs) :
    a ∈ S ∧ (c2.fanin a = [] ∨ (a ≠ h ∧ 1 < (childrenOf (domChildren c2 o) a).length)) := by
  obtain ⟨haS, hty⟩ := (mem_sg_inputs c2 o h S a).mp ha
  have hnd := ((sgTy_input_iff c2 X.clean S a).mp hty).2
  have hnot : ∀ y, (y, a) ∈ c2.edges → y ∉ S := by
    intro y he hy
    have := (drivenIn_iff c2 S a).mpr ⟨y, he, hy, haS⟩
    rw [hnd] at this
    cases this
  refine ⟨haS, ?_⟩
  by_cases hah : a = h
  · left
    subst hah
    rw [List.eq_nil_iff_forall_not_mem]
    intro y hy
    have he := Q.mem_fanin.mp hy
    have hyc : y ∈ coneOf c2 o := cone_fanin c2 X.wf X.head.1 he
    exact hnot y he ((X.mem y).mpr (Or.inr (chain_of_par c2 X.wf X.acyc o hyc
      (head_fanins c2 X.wf X.acyc o X.fanin2 X.head he))))
  · by_cases hgt : 1 < (childrenOf (domChildren c2 o) a).length
    · exact Or.inr ⟨hah, hgt⟩
    · left
      rw [List.eq_nil_iff_forall_not_mem]
      intro y hy
      have he := Q.mem_fanin.mp hy
      exact hnot y he ((X.mem y).mpr (Or.inr (fanins_of_nonfrontier c2 X.wf X.acyc o (X.chain_of_ne haS hah) hgt he)))

theorem inputs_nodup (X : SGCtx c2 o h S) : (sgCircuit c2 o h S).inputs.Nodup := by
  rw [sg_inputs_eq]
  exact X.nd.filter _

theorem inputs_has (X : SGCtx c2 o h S) {a : Name} (ha : a ∈ (sgCircuit c2 o h S).inputs) : c2.has a = true :=
  has_of_cone c2 X.wf X.root (X.mem_cone ((mem_sg_inputs c2 o h S a).mp ha).1)

end SGCtx

end SGA
end CG
