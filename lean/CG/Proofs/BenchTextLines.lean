/- C15 (character level) helper: the lines of a canonical bench text and the misses of the four patterns -/
import CG.Proofs.BenchTextSearch
import CG.Proofs.BenchTextLineIO
import CG.Proofs.BenchTextLineGate
set_option linter.unusedSimpArgs false
set_option linter.unusedVariables false
namespace CG
namespace BenchText
open Regex

def kDFF : List Char := ['D', 'F', 'F']
/-- the keywords the writer emits for gates -/
def upKws : List (List Char) :=
  [['B', 'U', 'F'], ['N', 'O', 'T'], ['O', 'R'], ['N', 'O', 'R'], ['A', 'N', 'D'], ['N', 'A', 'N', 'D'], ['X', 'O', 'R'],
   ['X', 'N', 'O', 'R']]

/-- a line of a canonical bench text -/
inductive Ln where
  | inp (n : List Char)
  | out (n : List Char)
  | gate (n K A : List Char)
  | dff (n A : List Char)
  | blank

def Ln.chars : Ln → List Char
  | .inp n => kINPUT ++ '(' :: (n ++ [')'])
  | .out n => kOUTPUT ++ '(' :: (n ++ [')'])
  | .gate n K A => n ++ ' ' :: '=' :: ' ' :: (K ++ '(' :: (A ++ [')']))
  | .dff n A => n ++ ' ' :: '=' :: ' ' :: (kDFF ++ '(' :: (A ++ [')']))
  | .blank => []

def Ln.ok : Ln → Prop
  | .inp n => IdentL n
  | .out n => IdentL n
  | .gate n K A => IdentL n ∧ K ∈ upKws ∧ AllArg A ∧ A ≠ []
  | .dff n A => IdentL n ∧ AllArg A ∧ A ≠ []
  | .blank => True

theorem upKws_letters {K : List Char} (h : K ∈ upKws) : AllLetter K ∧ K ≠ [] := by
  have : ∀ K ∈ upKws, AllLetter K ∧ K ≠ [] := by decide
  exact this K h
theorem kwsOK_gate : KwsOK gateKws := by
  refine ⟨by decide, ?_⟩
  have : ∀ K ∈ gateKws, AllLetter K ∧ K ≠ [] := by decide
  exact this
theorem kwsOK_dff : KwsOK dffKws := by
  refine ⟨by decide, ?_⟩
  have : ∀ K ∈ dffKws, AllLetter K ∧ K ≠ [] := by decide
  exact this

/-! ### misses of the INPUT/OUTPUT patterns -/

section
variable (ctx : Ctx) {K0 k0 : List Char}

theorem io_miss (hK : AllLetter K0) (hk : AllLetter k0) (hK0 : K0 ≠ []) (hk0 : k0 ≠ []) {H0 K' A u t rest s' : List Char}
    {c' : Caps} (hH0 : H0 = [] ∨ ∃ Z, H0 = Z ++ [' ']) (hH0p : '(' ∉ H0) (hK' : AllLetter K') (hK'0 : K' ≠ [])
    (hs1 : ¬ K0 <:+ K') (hs2 : ¬ k0 <:+ K') (hA : '(' ∉ A) (hu : u ++ t = (H0 ++ K') ++ '(' :: (A ++ [')'])) (ht : t ≠ []) :
    ¬ Den ctx (rxIO K0 k0) (t ++ rest) [] s' c' := by
  rcases suf_append hu with ⟨H', ⟨u', hH'⟩, e⟩ | ⟨u', e⟩
  · rw [e]
    intro h
    have hno : '(' ∉ H' := by
      intro hm
      have := mem_of_suf hH' hm
      rcases List.mem_append.mp this with hm | hm
      · exact hH0p hm
      · exact absurd (hK' _ hm) (by decide)
    have : (H' ++ '(' :: (A ++ [')'])) ++ rest = H' ++ '(' :: (A ++ ')' :: rest) := by simp
    rw [this] at h
    rcases io_header ctx hK hk hH0 hK' hK'0 hH' hno h with h1 | h1
    · exact hs1 h1
    · exact hs2 h1
  · rcases suf_cons e with rfl | ⟨u'', e⟩
    · exact io_first ctx hK hk hK0 hk0 (by decide)
    · obtain ⟨B, rfl, u3, hB⟩ := suf_snoc e ht
      have : (B ++ [')']) ++ rest = B ++ ')' :: rest := by simp
      rw [this]
      exact io_fail_tail ctx hK hk (fun hm => hA (mem_of_suf hB hm))
end

/-! ### misses of the gate/DFF patterns -/

section
variable (ctx : Ctx) {kws : List (List Char)}

theorem gate_miss_noeq (hk : KwsOK kws) {X u t rest s' : List Char} {c' : Caps} (hX : '=' ∉ X) (hu : u ++ t = X ++ [')'])
    (ht : t ≠ []) : ¬ Den ctx (rxGate kws) (t ++ rest) [] s' c' := by
  obtain ⟨B, rfl, u3, hB⟩ := suf_snoc hu ht
  have : (B ++ [')']) ++ rest = B ++ ')' :: rest := by simp
  rw [this]
  exact gate_fail_tail ctx hk (fun hm => hX (mem_of_suf hB hm))

theorem gate_miss_line (hk : KwsOK kws) {n K' A u t rest s' : List Char} {c' : Caps} (hn : AllIdC n) (hK' : AllLetter K')
    (hK'0 : K' ≠ []) (hA : AllArg A) (hnk : K' ∉ kws)
    (hu : u ++ t = n ++ ' ' :: '=' :: ' ' :: (K' ++ '(' :: (A ++ [')']))) (ht : t ≠ []) :
    ¬ Den ctx (rxGate kws) (t ++ rest) [] s' c' := by
  rcases suf_append hu with ⟨n', ⟨u', hn'⟩, e⟩ | ⟨u', e⟩
  · rw [e]
    intro h
    have : (n' ++ ' ' :: '=' :: ' ' :: (K' ++ '(' :: (A ++ [')']))) ++ rest =
        n' ++ ' ' :: '=' :: ' ' :: (K' ++ '(' :: (A ++ ')' :: rest)) := by simp
    rw [this] at h
    exact hnk (gate_align ctx hk (fun z hz => hn z (mem_of_suf hn' hz)) hK' hK'0 hA h).1
  · rcases suf_cons e with rfl | ⟨u'', e⟩
    · exact gate_first ctx hk (by decide)
    · rcases suf_cons e with rfl | ⟨u3, e⟩
      · exact gate_first ctx hk (by decide)
      · have e' : u3 ++ t = (' ' :: (K' ++ '(' :: A)) ++ [')'] := by rw [e]; simp
        refine gate_miss_noeq ctx hk ?_ e' ht
        intro hm
        simp only [List.mem_cons, List.mem_append] at hm
        rcases hm with hm | hm | hm | hm
        · exact absurd hm (by decide)
        · exact absurd (hK' _ hm) (by decide)
        · exact absurd hm (by decide)
        · exact hA.not_mem (Or.inr (Or.inr rfl)) hm
end

end BenchText
end CG
