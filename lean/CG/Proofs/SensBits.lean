/- helper lemmas for C11: binary digit arithmetic used by the descending search of `props.sensitivity` -/
import CG.Proofs.SensFlip
set_option linter.unusedSimpArgs false
set_option linter.unusedVariables false
namespace CG
namespace Sens
open Arith Logic

theorem sumBits_lt (g : Nat → Bool) : ∀ n, sumBits g n < 2 ^ n
  | 0 => by simp [sumBits_zero]
  | n + 1 => by
    rw [sumBits_succ, Nat.pow_succ]
    have := sumBits_lt g n
    have hb : b2n (g n) ≤ 1 := b2n_le _
    have : b2n (g n) * 2 ^ n ≤ 2 ^ n := by
      calc b2n (g n) * 2 ^ n ≤ 1 * 2 ^ n := Nat.mul_le_mul_right _ hb
        _ = 2 ^ n := Nat.one_mul _
    omega

/-- the high bits only add a multiple of `2^L` -/
theorem sumBits_split (g : Nat → Bool) (L : Nat) : ∀ K, L ≤ K → ∃ r, sumBits g K = sumBits g L + 2 ^ L * r := by
  intro K
  induction K with
  | zero =>
    intro h
    have : L = 0 := by omega
    subst this
    exact ⟨0, by simp⟩
  | succ K ih =>
    intro h
    by_cases hL : L = K + 1
    · subst hL; exact ⟨0, by simp⟩
    · obtain ⟨r, hr⟩ := ih (by omega)
      obtain ⟨d, hd⟩ : ∃ d, K = L + d := ⟨K - L, by omega⟩
      refine ⟨r + b2n (g K) * 2 ^ d, ?_⟩
      rw [sumBits_succ, hr, Nat.mul_add, hd, Nat.pow_add]
      have : 2 ^ L * (b2n (g (L + d)) * 2 ^ d) = b2n (g (L + d)) * (2 ^ L * 2 ^ d) := by
        rw [Nat.mul_left_comm]
      rw [this, Nat.add_assoc]

/-- binary digits are unique -/
theorem sumBits_inj (g g' : Nat → Bool) : ∀ K, sumBits g K = sumBits g' K → ∀ i, i < K → g i = g' i := by
  intro K
  induction K with
  | zero => intro _ i hi; omega
  | succ K ih =>
    intro h i hi
    rw [sumBits_succ, sumBits_succ] at h
    have h1 := sumBits_lt g K
    have h2 := sumBits_lt g' K
    have key : g K = g' K ∧ sumBits g K = sumBits g' K := by
      cases hg : g K <;> cases hg' : g' K <;> rw [hg, hg'] at h <;> simp [b2n] at h ⊢ <;> omega
    by_cases hiK : i = K
    · rw [hiK]; exact key.1
    · exact ih key.2 i (by omega)

theorem sumBits_shift (g : Nat → Bool) : ∀ n, sumBits g (n + 1) = b2n (g 0) + 2 * sumBits (fun i => g (i + 1)) n
  | 0 => by simp [sumBits_succ, sumBits_zero]
  | n + 1 => by
    rw [sumBits_succ, sumBits_shift g n, sumBits_succ, Nat.pow_succ]
    have : b2n (g (n + 1)) * (2 ^ n * 2) = 2 * (b2n (g (n + 1)) * 2 ^ n) := by
      rw [Nat.mul_comm (2 ^ n) 2, Nat.mul_left_comm]
    rw [this]
    omega

/-- little-endian bit lists: the Horner fold of `bin_to_int` is the weighted sum -/
theorem horner_reverse : ∀ b : List Bool, horner b.reverse 0 = sumBits (fun i => b.getD i false) b.length
  | [] => rfl
  | x :: b => by
    rw [List.reverse_cons, horner_append, horner_reverse b, List.length_cons, sumBits_shift]
    have h1 : (fun i => (x :: b).getD (i + 1) false) = fun i => b.getD i false := by
      funext i
      simp [List.getD]
    have h2 : (x :: b).getD 0 false = x := by simp [List.getD]
    rw [h1, h2]
    simp only [horner, List.foldl_cons, List.foldl_nil, b2n]
    omega

theorem intToBin_val (i w : Nat) :
    sumBits (fun j => (intToBin i w true).getD j false) (intToBin i w true).length = i := by
  rw [← horner_reverse]
  have := bin_roundtrip_any' i w true
  rw [binToInt_eq] at this
  simpa using this

theorem intToBin_length (i w : Nat) : (intToBin i w true).length = w - (binDigits i).length + (binDigits i).length := by
  unfold intToBin
  simp
  omega

end Sens
end CG
