/- C07 helper: relabelOne / relabel / fill_blackbox -/
import CG.Proofs.ApiSubc
set_option linter.unusedSimpArgs false
set_option linter.unusedVariables false
namespace CG
open Circuit

/-! ### relabelOne: rename an existing node to a fresh name -/

theorem relabelOne_view {c : Circuit} (h : WS c) {old new : Name} (ho : c.has old = true)
    (hn : c.has new = false) :
    WS (c.relabelOne old new) ∧ (c.relabelOne old new).bbs = c.bbs ∧
    (∀ m, (c.relabelOne old new).attr? m =
      if m = old then none else if m = new then c.attr? old else c.attr? m) := by
  have hne : new ≠ old := by intro e; subst e; rw [ho] at hn; cases hn
  have hne' : (new == old) = false := by simpa using hne
  have ho' := ho
  rw [has_eq_isSome] at ho'
  unfold relabelOne
  cases ha : c.attr? old with
  | none => rw [ha] at ho'; simp at ho'
  | some a =>
    simp only [hne', Bool.false_eq_true, if_false]
    generalize hout : ((c.edges.filter (·.1 == old)).map (fun e => (new, if e.2 == old then new else e.2))) = outE
    generalize hin : ((c.edges.filter (·.2 == old)).map (fun e => (if e.1 == old then new else e.1, new))) = inE
    have hnodes := foldl_addEdge_nodes (outE ++ inE) ((c.addNodeAttr new a).removeNode old)
    have hattr : ∀ m, (List.foldl (fun c e => c.addEdge e.1 e.2) ((c.addNodeAttr new a).removeNode old)
        (outE ++ inE)).attr? m = if m = old then none else if m = new then some a else c.attr? m := by
      intro m
      rw [attr?_congr hnodes, removeNode_attr?, addNodeAttr_attr?, attr?_none_of_not_has hn]
    refine ⟨?_, by rw [foldl_addEdge_bbs, removeNode_bbs, addNodeAttr_bbs], hattr⟩
    -- the wiring clauses, by transfer along r
    let r : Name → Name := fun x => if x == old then new else x
    have r_old : r old = new := by simp [r]
    have r_ne : ∀ x, x ≠ old → r x = x := by
      intro x hx
      show (if (x == old) = true then new else x) = x
      rw [if_neg (by simpa using hx)]
    have hasF : ∀ m, (List.foldl (fun c e => c.addEdge e.1 e.2) ((c.addNodeAttr new a).removeNode old)
        (outE ++ inE)).has m = true ↔ (m ≠ old ∧ (m = new ∨ c.has m = true)) := by
      intro m
      rw [has_eq_isSome, hattr]
      by_cases e1 : m = old
      · simp [e1]
      · by_cases e2 : m = new
        · simp [e1, e2]
        · simp [e1, e2, has_eq_isSome]
    apply h.transfer r
    · intro x y hx hy e
      by_cases ex : x = old
      · by_cases ey : y = old
        · rw [ex, ey]
        · rw [ex, r_old, r_ne y ey] at e
          rw [← e, hn] at hy; cases hy
      · by_cases ey : y = old
        · rw [ey, r_old, r_ne x ex] at e
          rw [e, hn] at hx; cases hx
        · rw [r_ne x ex, r_ne y ey] at e; exact e
    · rw [nodeNames_congr hnodes]
      exact removeNode_nodup old (addNodeAttr_nodup new a h.nodup)
    · apply foldl_addEdge_nodup
      apply removeNode_edges_nodup
      rw [addNodeAttr_edges]; exact h.edgesNodup
    · intro m
      rw [hasF]
      constructor
      · rintro ⟨e1, e2 | e2⟩
        · exact ⟨old, ho, by rw [r_old]; exact e2⟩
        · exact ⟨m, e2, (r_ne m e1).symm⟩
      · rintro ⟨m0, hm0, e⟩
        by_cases e0 : m0 = old
        · subst e0; rw [r_old] at e; subst e; exact ⟨hne, Or.inl rfl⟩
        · rw [r_ne m0 e0] at e; subst e; exact ⟨e0, Or.inr hm0⟩
    · intro m0 hm0
      unfold ty?
      rw [hattr]
      by_cases e0 : m0 = old
      · subst e0; rw [r_old, if_neg hne, if_pos rfl, ha]
      · rw [r_ne m0 e0, if_neg e0]
        have : m0 ≠ new := by intro e; subst e; rw [hn] at hm0; cases hm0
        rw [if_neg this]
    · intro e
      rw [foldl_addEdge_mem, removeNode_mem, addNodeAttr_edges, List.mem_append, ← hout, ← hin]
      simp only [List.mem_map, List.mem_filter]
      constructor
      · rintro (⟨h1, h2, h3⟩ | ⟨e0, ⟨h0, hk⟩, rfl⟩ | ⟨e0, ⟨h0, hk⟩, rfl⟩)
        · exact ⟨e, h1, by rw [r_ne _ h2, r_ne _ h3]⟩
        · refine ⟨e0, h0, ?_⟩
          have : e0.1 = old := by simpa using hk
          rw [this, r_old]
        · refine ⟨e0, h0, ?_⟩
          have : e0.2 = old := by simpa using hk
          rw [this, r_old]
      · rintro ⟨e0, h0, rfl⟩
        by_cases e1 : e0.1 = old
        · right; left
          refine ⟨e0, ⟨h0, by simpa using e1⟩, ?_⟩
          rw [e1, r_old]
        · by_cases e2 : e0.2 = old
          · right; right
            refine ⟨e0, ⟨h0, by simpa using e2⟩, ?_⟩
            rw [e2, r_old]
          · left
            rw [r_ne _ e1, r_ne _ e2]
            exact ⟨h0, e1, e2⟩

/-! ### relabel: a fold of relabelOne -/

structure RelInv (c : Circuit) (m : List (Name × Name)) (D : List Name) (ck : Circuit) : Prop where
  ws : WS ck
  bbs : ck.bbs = c.bbs
  a : ∀ x ∈ D, ck.attr? x = none
  b : ∀ x ∈ D, ∀ n, m.lookup x = some n → ck.attr? n = c.attr? x
  cc : ∀ y, y ∉ D → (∀ x ∈ D, m.lookup x ≠ some y) → ck.attr? y = c.attr? y

theorem RelInv.step {c : Circuit} {m : List (Name × Name)}
    (hfresh : ∀ x n, m.lookup x = some n → c.has n = false)
    (hinj : ∀ x y n, m.lookup x = some n → m.lookup y = some n → x = y)
    {D : List Name} {ck : Circuit} (I : RelInv c m D ck) (hD : ∀ x ∈ D, c.has x = true)
    {o n : Name} (hoD : o ∉ D) (ho : c.has o = true) (hl : m.lookup o = some n) :
    RelInv c m (D ++ [o]) (ck.relabelOne o n) := by
  have hcn : c.has n = false := hfresh o n hl
  -- o is untouched so far
  have ao : ck.attr? o = c.attr? o := by
    apply I.cc o hoD
    intro x _ hx
    rw [hfresh x o hx] at ho; cases ho
  have an : ck.attr? n = c.attr? n := by
    apply I.cc n
    · intro hnD; rw [hD n hnD] at hcn; cases hcn
    · intro x hx hx'
      have := hinj x o n hx' hl
      subst this; exact hoD hx
  have hko : ck.has o = true := by rw [has_eq_isSome, ao, ← has_eq_isSome]; exact ho
  have hkn : ck.has n = false := by
    rw [has_eq_isSome, an, ← has_eq_isSome]; exact hcn
  obtain ⟨w, hb, hat⟩ := relabelOne_view I.ws hko hkn
  have hno : n ≠ o := by intro e; subst e; rw [ho] at hcn; cases hcn
  refine ⟨w, by rw [hb, I.bbs], ?_, ?_, ?_⟩
  · intro x hx
    rw [hat]
    rcases List.mem_append.1 hx with hx | hx
    · by_cases e1 : x = o
      · rw [if_pos e1]
      · rw [if_neg e1]
        have : x ≠ n := by intro e; subst e; rw [hD x hx] at hcn; cases hcn
        rw [if_neg this]; exact I.a x hx
    · simp at hx; rw [if_pos hx]
  · intro x hx n' hl'
    rw [hat]
    have hcn' : c.has n' = false := hfresh x n' hl'
    have h1 : n' ≠ o := by intro e; subst e; rw [ho] at hcn'; cases hcn'
    rw [if_neg h1]
    rcases List.mem_append.1 hx with hxD | hxo
    · have h2 : n' ≠ n := by
        intro e; subst e
        have := hinj x o n' hl' hl
        subst this; exact hoD hxD
      rw [if_neg h2]; exact I.b x hxD n' hl'
    · simp at hxo; subst hxo
      rw [hl] at hl'; injection hl' with hl'; subst hl'
      rw [if_pos rfl]; exact ao
  · intro y hy hy'
    rw [hat]
    have h1 : y ≠ o := by intro e; apply hy; simp [e]
    have h2 : y ≠ n := by intro e; subst e; exact hy' o (by simp) hl
    rw [if_neg h1, if_neg h2]
    apply I.cc y
    · intro hyD; apply hy; simp [hyD]
    · intro x hx; exact hy' x (by simp [hx])

theorem RelInv.fold {c : Circuit} {m : List (Name × Name)}
    (hfresh : ∀ x n, m.lookup x = some n → c.has n = false)
    (hinj : ∀ x y n, m.lookup x = some n → m.lookup y = some n → x = y) :
    ∀ (todo D : List Name) (ck : Circuit), RelInv c m D ck → (D ++ todo).Nodup →
      (∀ x ∈ D ++ todo, c.has x = true ∧ (m.lookup x).isSome = true) →
      RelInv c m (D ++ todo) (todo.foldl (fun c o => match m.lookup o with
        | some n => c.relabelOne o n | none => c) ck) := by
  intro todo
  induction todo with
  | nil => intro D ck I _ _; simpa using I
  | cons o todo ih =>
    intro D ck I hnd hall
    simp only [List.foldl_cons]
    have ho := hall o (by simp)
    cases hl : m.lookup o with
    | none => rw [hl] at ho; simp at ho
    | some n =>
      simp only []
      have hoD : o ∉ D := by
        intro hx
        have := (List.nodup_append.1 hnd).2.2 o hx o (by simp)
        exact this rfl
      have I' := I.step hfresh hinj (fun x hx => (hall x (by simp [hx])).1) hoD ho.1 hl
      have e : D ++ o :: todo = (D ++ [o]) ++ todo := by simp
      rw [e] at hnd hall ⊢
      exact ih (D ++ [o]) _ I' hnd hall

theorem relabel_view {c : Circuit} (h : WS c) (m : List (Name × Name))
    (hfresh : ∀ x n, m.lookup x = some n → c.has n = false)
    (hinj : ∀ x y n, m.lookup x = some n → m.lookup y = some n → x = y) :
    WS (c.relabel m) ∧ (c.relabel m).bbs = c.bbs ∧
    (∀ x n, c.has x = true → m.lookup x = some n → (c.relabel m).attr? n = c.attr? x) ∧
    (∀ y, (m.lookup y = none ∨ c.has y = false) → (∀ x, c.has x = true → m.lookup x ≠ some y) →
      (c.relabel m).attr? y = c.attr? y) := by
  unfold relabel
  simp only []
  have I0 : RelInv c m [] c :=
    ⟨h, rfl, fun x hx => (by cases hx), fun x hx => (by cases hx), fun _ _ _ => rfl⟩
  have hmem : ∀ x, x ∈ c.nodeNames.filter (fun n => (m.lookup n).isSome) ↔
      (c.has x = true ∧ (m.lookup x).isSome = true) := by
    intro x; rw [List.mem_filter, has_iff_mem]
  have I := RelInv.fold hfresh hinj (c.nodeNames.filter (fun n => (m.lookup n).isSome)) [] c I0
    (by simpa using nodup_filter _ h.nodup) (by intro x hx; exact (hmem x).1 (by simpa using hx))
  simp only [List.nil_append] at I
  refine ⟨I.ws, I.bbs, ?_, ?_⟩
  · intro x n hx hl
    exact I.b x ((hmem x).2 ⟨hx, by rw [hl]; rfl⟩) n hl
  · intro y hy hy'
    apply I.cc y
    · intro hyD
      obtain ⟨h1, h2⟩ := (hmem y).1 hyD
      rcases hy with hy | hy
      · rw [hy] at h2; simp at h2
      · rw [hy] at h1; cases h1
    · intro x hx; exact hy' x ((hmem x).1 hx).1

/-! ### the pin renaming of fill_blackbox -/

theorem pinmap_lookup {inst : Name} {P : List Name} {x n : Name}
    (h : (P.map (fun p => (inst ++ "." ++ p, pref inst p))).lookup x = some n) :
    ∃ p ∈ P, x = inst ++ "." ++ p ∧ n = pref inst p := by
  obtain ⟨p, hp, e⟩ := List.mem_map.1 (lookup_mem h)
  injection e with e1 e2
  exact ⟨p, hp, e1.symm, e2.symm⟩

theorem pinmap_lookup_mem {inst : Name} {P : List Name} {p : Name} (hp : p ∈ P) :
    (P.map (fun p => (inst ++ "." ++ p, pref inst p))).lookup (inst ++ "." ++ p) = some (pref inst p) := by
  have hs : ((P.map (fun p => (inst ++ "." ++ p, pref inst p))).lookup (inst ++ "." ++ p)).isSome = true := by
    rw [lookup_isSome_iff, List.any_eq_true]
    exact ⟨_, List.mem_map.2 ⟨p, hp, rfl⟩, by simp⟩
  cases hl : (P.map (fun p => (inst ++ "." ++ p, pref inst p))).lookup (inst ++ "." ++ p) with
  | none => rw [hl] at hs; simp at hs
  | some n =>
    obtain ⟨p', _, e1, e2⟩ := pinmap_lookup hl
    rw [e2, pin_inj inst e1]

theorem fill_relabel {c : Circuit} (h : WS c) (inst : Name) (P : List Name)
    (hfr : ∀ p ∈ P, c.has (pref inst p) = false) :
    WS (c.relabel (P.map (fun p => (inst ++ "." ++ p, pref inst p)))) ∧
    (c.relabel (P.map (fun p => (inst ++ "." ++ p, pref inst p)))).bbs = c.bbs ∧
    (∀ p ∈ P, (c.relabel (P.map (fun p => (inst ++ "." ++ p, pref inst p)))).attr? (pref inst p) =
        c.attr? (inst ++ "." ++ p)) ∧
    (∀ y, (∀ p ∈ P, y ≠ inst ++ "." ++ p) → (∀ p ∈ P, y ≠ pref inst p) →
      (c.relabel (P.map (fun p => (inst ++ "." ++ p, pref inst p)))).attr? y = c.attr? y) := by
  have hfresh : ∀ x n, (P.map (fun p => (inst ++ "." ++ p, pref inst p))).lookup x = some n → c.has n = false := by
    intro x n hl
    obtain ⟨p, hp, _, e⟩ := pinmap_lookup hl
    rw [e]; exact hfr p hp
  have hinj : ∀ x y n, (P.map (fun p => (inst ++ "." ++ p, pref inst p))).lookup x = some n →
      (P.map (fun p => (inst ++ "." ++ p, pref inst p))).lookup y = some n → x = y := by
    intro x y n hx hy
    obtain ⟨p, _, e1, e2⟩ := pinmap_lookup hx
    obtain ⟨p', _, e1', e2'⟩ := pinmap_lookup hy
    rw [e2] at e2'
    rw [e1, e1', pref_inj inst e2']
  obtain ⟨w, hb, r1, r2⟩ := relabel_view h _ hfresh hinj
  refine ⟨w, hb, ?_, ?_⟩
  · intro p hp
    cases hh : c.has (inst ++ "." ++ p) with
    | true => exact r1 _ _ hh (pinmap_lookup_mem hp)
    | false =>
      rw [attr?_none_of_not_has hh, ← attr?_none_of_not_has (hfr p hp)]
      apply r2
      · right; exact hfr p hp
      · intro x hx hl
        obtain ⟨p', _, e1, e2⟩ := pinmap_lookup hl
        have := pref_inj inst e2
        subst this
        rw [e1, hh] at hx; cases hx
  · intro y hy1 hy2
    apply r2
    · left
      cases hl : (P.map (fun p => (inst ++ "." ++ p, pref inst p))).lookup y with
      | none => rfl
      | some n =>
        obtain ⟨p, hp, e1, _⟩ := pinmap_lookup hl
        exact absurd e1 (hy1 p hp)
    · intro x _ hl
      obtain ⟨p, hp, _, e2⟩ := pinmap_lookup hl
      exact hy2 p hp e2

/-- (proof-forced) state-dependent side condition of `fill_blackbox`: a pin node of the filled instance
    that is present has the pin type, and no other registered instance claims one of its pin nodes -/
def FillOK' (c : Circuit) (gone : List Name) (inst : Name) : Prop :=
  ∀ bb, c.bbs.lookup inst = some bb →
    (∀ p ∈ bb.ins, c.has (inst ++ "." ++ p) = true → c.ty? (inst ++ "." ++ p) = some "bb_input") ∧
    (∀ p ∈ bb.outs, c.has (inst ++ "." ++ p) = true → c.ty? (inst ++ "." ++ p) = some "bb_output") ∧
    (∀ q ∈ c.bbs, q.1 ≠ inst → ∀ g ∈ q.2.ins ++ q.2.outs, ∀ p ∈ bb.ins ++ bb.outs,
       q.1 ++ "." ++ g = inst ++ "." ++ p → inst ++ "." ++ p ∈ gone)

theorem fill_main {ord : Ord} (hord : ∀ l, (ord l).Perm l) {c sub : Circuit} {gone : List Name}
    (h : Inv' c gone) (hsub : Inv' sub [])
    (hK : ∀ n ∈ sub.outputs, sub.ty? n ≠ some "bb_input" ∧ sub.ty? n ≠ some "bb_output")
    (inst : Name) (bb : BBox)
    (hA : ∀ p ∈ bb.ins, c.has (inst ++ "." ++ p) = true → c.ty? (inst ++ "." ++ p) = some "bb_input")
    (hB : ∀ p ∈ bb.outs, c.has (inst ++ "." ++ p) = true → c.ty? (inst ++ "." ++ p) = some "bb_output")
    (hC : ∀ q ∈ c.bbs, q.1 ≠ inst → ∀ g ∈ q.2.ins ++ q.2.outs, ∀ p ∈ bb.ins ++ bb.outs,
       q.1 ++ "." ++ g = inst ++ "." ++ p → inst ++ "." ++ p ∈ gone)
    (hins : ∀ x, x ∈ sub.inputs ↔ x ∈ bb.ins) (houts : ∀ x, x ∈ sub.outputs ↔ x ∈ bb.outs)
    (hclash : ∀ n, sub.has n = true → c.has (pref inst n) = false) :
    Inv' (sub.bbs.foldl (fun acc p => acc.setBB (pref inst p.1) p.2)
      ((bb.outs.foldl (fun acc n => acc.setOutRaw (pref inst n) false)
        (bb.ins.foldl (fun acc n => acc.setTyRaw (pref inst n) "buf")
          ((c.relabel ((ord (union bb.outs bb.ins)).map (fun p => (inst ++ "." ++ p, pref inst p)))).graphUpdate
            (sub.relabelCopy (pref inst))))).popBB inst)) gone := by
  have hf : ∀ a b, pref inst a = pref inst b → a = b := fun a b e => pref_inj inst e
  have e1 : ∀ (L : List Name) (c0 : Circuit), L.foldl (fun acc n => acc.setTyRaw (pref inst n) "buf") c0 =
      (L.map (pref inst)).foldl (fun acc n => acc.setTyRaw n "buf") c0 := fun L c0 => by rw [List.foldl_map]
  have e2 : ∀ (L : List Name) (c0 : Circuit), L.foldl (fun acc n => acc.setOutRaw (pref inst n) false) c0 =
      (L.map (pref inst)).foldl (fun acc n => acc.setOutRaw n false) c0 := fun L c0 => by rw [List.foldl_map]
  rw [e1, e2]
  have hP : ∀ p, p ∈ ord (union bb.outs bb.ins) ↔ (p ∈ bb.outs ∨ p ∈ bb.ins) := by
    intro p; rw [(hord _).mem_iff, mem_union]
  have hsubhas : ∀ p, p ∈ ord (union bb.outs bb.ins) → sub.has p = true := by
    intro p hp
    rcases (hP p).1 hp with hp | hp
    · exact mem_outputs_has ((houts p).2 hp)
    · exact has_of_ty? ((mem_inputs hsub.1.nodup p).1 ((hins p).2 hp))
  obtain ⟨w1, hb1, r3, r4⟩ := fill_relabel h.1 inst (ord (union bb.outs bb.ins))
    (fun p hp => hclash p (hsubhas p hp))
  generalize (c.relabel ((ord (union bb.outs bb.ins)).map (fun p => (inst ++ "." ++ p, pref inst p)))) = c1
    at w1 hb1 r3 r4
  have hg := relabelCopy_WS hsub.1 (pref inst) hf
  obtain ⟨_, _, _, i4, i5, _⟩ := relabelCopy_view hsub.1 (pref inst) hf
  -- nodes of c1 with a prefixed name are renamed pins
  have hc1pref : ∀ m, sub.has m = true → c1.has (pref inst m) = true →
      m ∈ ord (union bb.outs bb.ins) ∧ c1.attr? (pref inst m) = c.attr? (inst ++ "." ++ m) := by
    intro m hm hc1
    by_cases hmP : m ∈ ord (union bb.outs bb.ins)
    · exact ⟨hmP, r3 m hmP⟩
    · exfalso
      have : c1.attr? (pref inst m) = c.attr? (pref inst m) := by
        apply r4
        · intro p _ e; exact pin_ne_pref inst p m e.symm
        · intro p hp e; exact hmP (by rw [hf _ _ e]; exact hp)
      rw [has_eq_isSome, this, ← has_eq_isSome, hclash m hm] at hc1
      cases hc1
  have hov : ∀ n, c1.has n = true → (sub.relabelCopy (pref inst)).has n = true →
       (c1.ty? n = some "bb_input" ∧ (sub.relabelCopy (pref inst)).ty? n = some "input") ∨
       (c1.ty? n = some "bb_output" ∧ ∃ t, (sub.relabelCopy (pref inst)).ty? n = some t ∧
          t ≠ "input" ∧ t ≠ "bb_input" ∧ t ≠ "bb_output") := by
    intro n hc1 hgn
    obtain ⟨m, hm, e⟩ := (i4 n).1 hgn
    subst e
    obtain ⟨hmP, hat⟩ := hc1pref m hm hc1
    have hcpin : c.has (inst ++ "." ++ m) = true := by
      rw [has_eq_isSome, ← hat, ← has_eq_isSome]; exact hc1
    have hty1 : c1.ty? (pref inst m) = c.ty? (inst ++ "." ++ m) := by unfold ty?; rw [hat]
    rw [hty1, i5 m hm]
    by_cases hmi : m ∈ bb.ins
    · left
      exact ⟨hA m hmi hcpin, (mem_inputs hsub.1.nodup m).1 ((hins m).2 hmi)⟩
    · right
      have hmo : m ∈ bb.outs := by
        rcases (hP m).1 hmP with h' | h'
        · exact h'
        · exact absurd h' hmi
      obtain ⟨t, ht⟩ := hsub.1.ty?_some hm
      obtain ⟨k1, k2⟩ := hK m ((houts m).2 hmo)
      refine ⟨hB m hmo hcpin, t, ht, ?_, ?_, ?_⟩
      · intro e; subst e
        exact hmi ((hins m).1 ((mem_inputs hsub.1.nodup m).2 ht))
      · intro e; subst e; exact k1 ht
      · intro e; subst e; exact k2 ht
  obtain ⟨w, hb, hty⟩ := strip_union w1 hg hov (bb.ins.map (pref inst)) (bb.outs.map (pref inst))
    (ins_names_iff hsub.1 (pref inst) hf bb.ins (fun x => (hins x).symm))
  generalize (List.foldl (fun acc n => acc.setOutRaw n false)
    (List.foldl (fun acc n => acc.setTyRaw n "buf") (c1.graphUpdate (sub.relabelCopy (pref inst)))
      (bb.ins.map (pref inst))) (bb.outs.map (pref inst))) = F at w hb hty
  have hpn := popBB_nodes F inst
  have hI5 : Inv' (F.popBB inst) gone := by
    refine ⟨w.congr (nodeNames_congr hpn) (ty?_congr hpn) (popBB_edges F inst), ?_⟩
    intro q hq
    obtain ⟨hq1, hq2⟩ := popBB_mem F inst hq
    rw [hb, hb1] at hq1
    obtain ⟨a, b⟩ := h.2 q hq1
    -- a pin node of another instance that is not gone keeps its type
    have keep : ∀ g, g ∈ q.2.ins ++ q.2.outs → q.1 ++ "." ++ g ∉ gone → ∀ t, c.ty? (q.1 ++ "." ++ g) = some t →
        (F.popBB inst).ty? (q.1 ++ "." ++ g) = some t := by
      intro g hg hgone t ht
      have hcx := has_of_ty? ht
      have hng : ¬ (sub.relabelCopy (pref inst)).has (q.1 ++ "." ++ g) = true := by
        intro hgn
        obtain ⟨m, hm, e⟩ := (i4 _).1 hgn
        rw [e, hclash m hm] at hcx; cases hcx
      rw [ty?_congr hpn, hty, if_neg hng]
      have : c1.attr? (q.1 ++ "." ++ g) = c.attr? (q.1 ++ "." ++ g) := by
        apply r4
        · intro p hp e
          apply hgone
          rw [e]
          apply hC q hq1 hq2 g hg p _ e
          rcases (hP p).1 hp with h' | h'
          · exact List.mem_append.2 (Or.inr h')
          · exact List.mem_append.2 (Or.inl h')
        · intro p hp e
          rw [e, hclash p (hsubhas p hp)] at hcx; cases hcx
      unfold ty? at ht ⊢
      rw [this]; exact ht
    exact ⟨fun g hg hgone => keep g (List.mem_append.2 (Or.inl hg)) hgone _ (a g hg hgone),
           fun g hg hgone => keep g (List.mem_append.2 (Or.inr hg)) hgone _ (b g hg hgone)⟩
  apply foldl_setBB_Inv (pref inst) sub.bbs _ gone hI5
  intro p hp
  obtain ⟨a, b⟩ := hsub.2 p hp
  constructor
  · intro g hg'
    rw [pref_pin, ty?_congr hpn]
    exact strip_ty_of_sub hsub.1 (pref inst) hf hty (a g hg' (by simp)) (by decide)
  · intro g hg'
    rw [pref_pin, ty?_congr hpn]
    exact strip_ty_of_sub hsub.1 (pref inst) hf hty (b g hg' (by simp)) (by decide)

theorem fillBlackbox_spec {ord : Ord} (hord : ∀ l, (ord l).Perm l) {c sub : Circuit} {gone : List Name}
    (h : Inv' c gone) (hsub : Inv' sub [])
    (hK : ∀ n ∈ sub.outputs, sub.ty? n ≠ some "bb_input" ∧ sub.ty? n ≠ some "bb_output")
    (inst : Name) (hfill : FillOK' c gone inst) :
    Inv' (c.fillBlackbox inst sub ord).1 gone ∧
    ((c.fillBlackbox inst sub ord).2 = .ok ∨ (c.fillBlackbox inst sub ord).2 = .valueError) ∧
    ((c.fillBlackbox inst sub ord).2 ≠ .ok → (c.fillBlackbox inst sub ord).1 = c) := by
  unfold fillBlackbox
  cases hl : c.bbs.lookup inst with
  | none => exact ⟨h, Or.inr rfl, fun _ => rfl⟩
  | some bb =>
    simp only []
    obtain ⟨hA, hB, hC⟩ := hfill bb hl
    split
    · exact ⟨h, Or.inr rfl, fun _ => rfl⟩
    · rw [not_any_untyped hsub.1]
      simp only [Bool.false_eq_true, if_false]
      split
      · exact ⟨h, Or.inr rfl, fun _ => rfl⟩
      · rename_i hs1
        split
        · exact ⟨h, Or.inr rfl, fun _ => rfl⟩
        · rename_i hs2
          split
          · exact ⟨h, Or.inr rfl, fun _ => rfl⟩
          · rename_i hcl
            have hclash : ∀ n, sub.has n = true → c.has (pref inst n) = false := by
              intro n hn
              cases hh : c.has (pref inst n) with
              | false => rfl
              | true =>
                exfalso; apply hcl
                exact List.any_eq_true.2 ⟨n, (has_iff_mem sub n).1 hn, hh⟩
            have hins := sameSet_iff (by simpa using hs1 : sameSet sub.inputs bb.ins = true)
            have houts := sameSet_iff (by simpa using hs2 : sameSet sub.outputs bb.outs = true)
            exact ⟨fill_main hord h hsub hK inst bb hA hB hC hins houts hclash, Or.inl rfl,
              fun hne => absurd rfl hne⟩

end CG
