/- C09 (sequential_unroll, semantics): transport of consistent valuations between the sequential circuit and the pruned
   circuit, and the nodes that survive pruning -/
import CG.Proofs.UnrollSeqSemPrune
set_option linter.unusedSimpArgs false
set_option linter.unusedVariables false
namespace CG
namespace USS
open Circuit Unroll Strip

/-- a valuation of the pruned circuit read back on the sequential circuit -/
def back (c : Circuit) (ig : List Name) (cs0 : Circuit) (A B : List Name) (w3 : Val) : Val :=
  pullVal c ig (extVal cs0 A (extVal (cs0.remove A) B w3))

section
variable {c cs0 : Circuit} {ig : List Name} {A B : List Name}

theorem back_consistent (hc : LintClean c) (S : StripView c ig cs0)
    (hA : ∀ x ∈ A, cs0.has x = true → Removable cs0 x)
    (hB : ∀ x ∈ B, (cs0.remove A).has x = true → Removable (cs0.remove A) x)
    {w3 : Val} (hw : Consistent ((cs0.remove A).remove B) w3) : Consistent c (back c ig cs0 A B w3) :=
  pull_consistent hc S _ (remove_extend (strip_wf hc.toWF S) hA
    (remove_extend (remove_wf (strip_wf hc.toWF S) A) hB hw))

theorem back_val (w3 : Val) {n : Name} (hd : dropped c ig n = false) (h1 : sname c ig n ∉ A) (h2 : sname c ig n ∉ B) :
    back c ig cs0 A B w3 n = w3 (sname c ig n) := by
  unfold back
  rw [pullVal_surv _ hd, extVal_off _ h1, extVal_off _ h2]

theorem fwd_consistent (hc : LintClean c) (S : StripView c ig cs0)
    (hA : ∀ x ∈ A, cs0.has x = true → Removable cs0 x)
    (hB : ∀ x ∈ B, (cs0.remove A).has x = true → Removable (cs0.remove A) x)
    {w : Val} (hw : Consistent c w) : Consistent ((cs0.remove A).remove B) (pushVal c ig w) :=
  remove_restrict (remove_wf (strip_wf hc.toWF S) A) hB
    (remove_restrict (strip_wf hc.toWF S) hA (push_consistent hc S w hw))

theorem remove2_has (m : Name) :
    ((cs0.remove A).remove B).has m = true ↔ cs0.has m = true ∧ m ∉ A ∧ m ∉ B := by
  rw [remove_has, remove_has, and_assoc]

theorem remove2_attr? {m : Name} (h1 : m ∉ A) (h2 : m ∉ B) : ((cs0.remove A).remove B).attr? m = cs0.attr? m := by
  rw [remove_attr?, if_neg h2, remove_attr?, if_neg h1]

end

theorem isOut_of_attr {c : Circuit} {x : Name} {a : Attr} (h : c.attr? x = some a) (ho : a.out = some true) :
    c.isOut x = true := by
  unfold Circuit.isOut
  rw [h]
  simp [ho]

section
variable {c cs0 : Circuit} {bb : BBox} {dPort qPort : Name} {ig : List Name}

/-- an (ordinary) output of the sequential circuit is an output of the pruned circuit under its own name -/
theorem out_survives (G : SeqGood' c bb dPort qPort) (K : NoClash c bb ig) (S : StripView c ig cs0) (ru : Bool) {o : Name} (ho : o ∈ c.outputs) :
    o ∈ (prune cs0 bb (insts c) dPort qPort ig ru).outputs ∧ sname c ig o = o ∧ dropped c ig o = false ∧
      c.has o = true := by
  obtain ⟨a, ha, hout⟩ := (mem_outputs_iff c o).1 ho
  have hpin := G.outsOrdinary o ho
  have hhas : c.has o = true := mem_outputs_has ho
  have hattr : cs0.attr? o = some a := by
    rw [S.attrKeep o hhas hpin]
    exact attr?_of_mem G.clean.nodup ha
  have h12 : o ∉ R12 c bb dPort qPort ig := not_R12_of_has K hhas
  have h3 : o ∉ R3 (cs0.remove (R12 c bb dPort qPort ig)) (insts c) qPort ru := by
    intro h
    unfold R3 at h
    cases ru with
    | false => cases h
    | true =>
      simp only [if_true, List.mem_filter, Bool.and_eq_true, Bool.not_eq_true'] at h
      have : (cs0.remove (R12 c bb dPort qPort ig)).isOut o = true :=
        isOut_of_attr (by rw [remove_attr?, if_neg h12]; exact hattr) hout
      rw [this] at h
      exact absurd h.2.2 (by simp)
  refine ⟨?_, sname_of_not_kept (kept_false_of_not_pin hpin), dropped_false_of_not_pin hpin, hhas⟩
  rw [prune_eq, mem_outputs_iff]
  exact ⟨a, attr?_mem (by rw [remove2_attr? h12 h3]; exact hattr), hout⟩

end
end USS
end CG
