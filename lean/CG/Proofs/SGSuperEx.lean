/- C17 (super-circuit): non-vacuity of the corrected theorem `C17.super_fill_equiv_fixed` — its hypotheses (in particular
   `SGSuper.NamesOK`) hold for the reconvergent example `C17.cR` (one kept supergate) and for a circuit with three kept
   supergates, so the call, the fills and the equivalence go through for them. -/
import CG.Props.C17Super
import CG.Proofs.SGSuperCex
set_option linter.unusedVariables false
namespace CG.SGSuperEx
open Supergates CG.C17 CG.SGSuperCex

/-- `NamesOK` from finite checks over the node list -/
theorem namesOK_of_checks (c : Circuit)
    (h1 : ∀ n ∈ c.nodeNames, n.isEmpty = false ∧ Circuit.isDigit0 n = false)
    (h2 : ∀ h ∈ c.nodeNames, ∀ n ∈ c.nodeNames, c.has (SGSuper.pre h n) = false ∧ c.has (SGSuper.pin h n) = false)
    (h3 : ∀ h ∈ c.nodeNames, ∀ n ∈ c.nodeNames, ∀ h' ∈ c.nodeNames, ∀ n' ∈ c.nodeNames,
      (SGSuper.pre h n = SGSuper.pre h' n' → h = h' ∧ n = n') ∧ (SGSuper.pin h n = SGSuper.pin h' n' → h = h' ∧ n = n') ∧
      SGSuper.pre h n ≠ SGSuper.pin h' n') : SGSuper.NamesOK c where
  nameOK := fun n hn => h1 n (has_mem c n hn)
  preFree := fun h n hh hn => (h2 h (has_mem c h hh) n (has_mem c n hn)).1
  pinFree := fun h n hh hn => (h2 h (has_mem c h hh) n (has_mem c n hn)).2
  preInj := fun h n h' n' hh hn hh' hn' =>
    (h3 h (has_mem c h hh) n (has_mem c n hn) h' (has_mem c h' hh') n' (has_mem c n' hn')).1
  pinInj := fun h n h' n' hh hn hh' hn' =>
    (h3 h (has_mem c h hh) n (has_mem c n hn) h' (has_mem c h' hh') n' (has_mem c n' hn')).2.1
  prePin := fun h n h' n' hh hn hh' hn' =>
    (h3 h (has_mem c h hh) n (has_mem c n hn) h' (has_mem c h' hh') n' (has_mem c n' hn')).2.2

/-! ### the reconvergent example `cR` -/

theorem cR_namesOK : SGSuper.NamesOK C17.cR :=
  namesOK_of_checks C17.cR (by decide +kernel) (by decide +kernel) (by decide +kernel)

theorem cR_clean : LintClean C17.cR :=
  Limit.lintClean_of_checks C17.cR ⟨by decide, by decide, by decide⟩ (by decide) (by decide) (by decide)

theorem cR_acyclic : Acyclic C17.cR := ⟨fun n => ["a", "b", "g", "h", "o"].idxOf n, by decide⟩

theorem cR_limit : Tx.limitFanin C17.cR 2 id = .ok C17.cR := by decide +kernel

theorem cR_heads : (algo C17.cR (id C17.cR.outputs)).headsDistinct = true := by decide +kernel

theorem cR_super : ∃ s m full, runSuper C17.cR id = .ok (s, m) ∧ fillAll s m id = .ok full ∧ C17.EquivIO C17.cR full :=
  C17.super_fill_equiv_fixed C17.cR id ordOK_id cR_clean rfl cR_acyclic
    (fun n h => absurd h (fanin_small C17.cR (by decide) n)) (no_bbo C17.cR (by decide)) (by decide)
    C17.cR cR_limit cR_namesOK cR_heads

/-- the instances actually created for `cR`: the single supergate `sg_o` -/
theorem cR_instances : (runSuper C17.cR id).toOption.map (fun r => r.2.map (·.1)) = some ["sg_o"] := by decide +kernel

/-! ### three kept supergates: `o = xor(and(a,b), or(c,d))` -/

def cT : Circuit :=
  { nodes := [("a", { ty := some "input", out := some false }), ("b", { ty := some "input", out := some false }),
              ("c", { ty := some "input", out := some false }), ("d", { ty := some "input", out := some false }),
              ("x", { ty := some "and", out := some false }), ("y", { ty := some "or", out := some false }),
              ("o", { ty := some "xor", out := some true })],
    edges := [("a", "x"), ("b", "x"), ("c", "y"), ("d", "y"), ("x", "o"), ("y", "o")] }

theorem cT_namesOK : SGSuper.NamesOK cT :=
  namesOK_of_checks cT (by decide +kernel) (by decide +kernel) (by decide +kernel)

theorem cT_clean : LintClean cT :=
  Limit.lintClean_of_checks cT ⟨by decide, by decide, by decide⟩ (by decide) (by decide) (by decide)

theorem cT_acyclic : Acyclic cT := ⟨fun n => ["a", "b", "c", "d", "x", "y", "o"].idxOf n, by decide⟩

theorem cT_limit : Tx.limitFanin cT 2 id = .ok cT := by decide +kernel

theorem cT_heads : (algo cT (id cT.outputs)).headsDistinct = true := by decide +kernel

theorem cT_super : ∃ s m full, runSuper cT id = .ok (s, m) ∧ fillAll s m id = .ok full ∧ C17.EquivIO cT full :=
  C17.super_fill_equiv_fixed cT id ordOK_id cT_clean rfl cT_acyclic
    (fun n h => absurd h (fanin_small cT (by decide) n)) (no_bbo cT (by decide)) (by decide)
    cT cT_limit cT_namesOK cT_heads

/-- three instances are created (heads `o`, `x`, `y`) … -/
theorem cT_instances : (runSuper cT id).toOption.map (fun r => r.2.map (·.1)) = some ["sg_o", "sg_x", "sg_y"] := by
  decide +kernel

/-- … and, independently of the general theorem, the model computes that all of them can be filled -/
theorem cT_fill_ok : ((runSuper cT id >>= fun r => fillAll r.1 r.2 id).toOption.map (fun f => f.bbs.isEmpty)) = some true := by
  decide +kernel

#print axioms cR_namesOK
#print axioms cR_super
#print axioms cT_namesOK
#print axioms cT_super

end CG.SGSuperEx
