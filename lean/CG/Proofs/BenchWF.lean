/- C15 helper: what the writer emits for a writable circuit is a well-formed netlist -/
import CG.Proofs.BenchWrite
import CG.Proofs.ArithNames
set_option linter.unusedSimpArgs false
set_option linter.unusedVariables false
namespace CG
namespace BenchP
open Circuit Ternary Bench

/-- copy of `C15.Writable` (which lives in the property file) -/
structure WritableP (c : Circuit) : Prop where
  clean : LintClean c
  nobb : c.bbs = []
  hasInput : c.inputs ≠ []
  types : ∀ p ∈ c.nodes, ∀ t, p.2.ty = some t → t ∈ gateTysP ∨ t = "0" ∨ t = "1" ∨ t = "input"
  names : ∀ p ∈ c.nodes, p.1 ≠ "" ∧ Circuit.isDigit0 p.1 = false ∧ ¬ hasDotB p.1

/-- the non-input nodes -/
def nonInputs (c : Circuit) : List Name := c.nodeNames.filter (fun n => !c.inputs.contains n)

theorem mem_nonInputs (c : Circuit) (x : Name) : x ∈ nonInputs c ↔ (c.has x = true ∧ x ∉ c.inputs) := by
  unfold nonInputs
  rw [List.mem_filter, has_iff_mem]
  simp

theorem inputs_nodup {c : Circuit} (h : c.nodeNames.Nodup) : c.inputs.Nodup := by
  unfold Circuit.inputs Circuit.filterType
  exact (List.filter_sublist.map _).nodup h

theorem outputs_nodup {c : Circuit} (h : c.nodeNames.Nodup) : c.outputs.Nodup := by
  unfold Circuit.outputs
  exact (List.filter_sublist.map _).nodup h

/-- the name `uid` picks for the inverter is acceptable to the reader -/
theorem uid_inv_name (c : Circuit) (i r : Name) (hi : i ≠ "" ∧ Circuit.isDigit0 i = false ∧ ¬ hasDotB i)
    (h : c.uid (i ++ "_inv") = some r) : r ≠ "" ∧ Circuit.isDigit0 r = false ∧ ¬ hasDotB r := by
  have hok : Limit.NameOK i := nameOK_of hi
  have hdot : '.' ∉ i.toList := by
    have := hi.2.2
    unfold hasDotB at this
    simpa using this
  have key : Limit.NameOK r ∧ ¬ hasDotB r := by
    rcases (Limit.uid_spec c _ r h).2 with rfl | ⟨j, rfl⟩
    · refine ⟨hok.append _, ?_⟩
      unfold hasDotB
      rw [String.toList_append]
      simp only [List.contains_iff_mem, List.mem_append, not_or]
      exact ⟨hdot, by decide⟩
    · unfold uidName
      refine ⟨((hok.append _).append _).append _, ?_⟩
      unfold hasDotB
      rw [String.toList_append, String.toList_append, String.toList_append]
      simp only [List.contains_iff_mem, List.mem_append, not_or]
      refine ⟨⟨⟨hdot, by decide⟩, by decide⟩, ?_⟩
      intro hm
      exact absurd (Arith.toString_digits j _ hm) (by decide)
  refine ⟨?_, key.1.1, key.2⟩
  intro e
  have := key.1.2
  rw [e] at this
  exact absurd this (by decide)

section
variable {c : Circuit} {ord : Ord}

theorem WritableP.attr (hc : WritableP c) {x : Name} (hx : c.has x = true) :
    ∃ a t, (x, a) ∈ c.nodes ∧ c.attr? x = some a ∧ a.ty = some t ∧ c.ty? x = some t := by
  obtain ⟨a, ha⟩ := Limit.attr_of_has hx
  have hm := attr?_mem ha
  obtain ⟨t, ht, _⟩ := hc.clean.typed (x, a) hm
  exact ⟨a, t, hm, ha, ht, by rw [ty_of_attr ha]; exact ht⟩

theorem WritableP.nameFacts (hc : WritableP c) {x : Name} (hx : c.has x = true) :
    x ≠ "" ∧ Circuit.isDigit0 x = false ∧ ¬ hasDotB x := by
  obtain ⟨a, t, hm, _⟩ := hc.attr hx
  exact hc.names (x, a) hm

/-- a non-input node carries a gate type or is a constant -/
theorem WritableP.nonInput_ty (hc : WritableP c) {x : Name} (hx : x ∈ nonInputs c) :
    ∃ t, c.ty? x = some t ∧ (T.primitive.contains t = true ∨ t = "0" ∨ t = "1") := by
  obtain ⟨hh, hni⟩ := (mem_nonInputs c x).mp hx
  obtain ⟨a, t, hm, ha, ht, hty⟩ := hc.attr hh
  refine ⟨t, hty, ?_⟩
  rcases hc.types (x, a) hm t ht with h | h | h | h
  · exact Or.inl (List.contains_iff_mem.mpr (gateTys_facts h).2.2.2.2)
  · exact Or.inr (Or.inl h)
  · exact Or.inr (Or.inr h)
  · exfalso
    apply hni
    rw [CG.mem_inputs hc.clean.nodup, hty, h]

theorem prim_facts {t : String} (h : T.primitive.contains t = true) :
    t ∈ gateTysP ∧ (t ∈ singleTypes ∨ t ∈ multiTypes) ∧ ((t = "buf" ∨ t = "not") → t ∈ singleTypes) := by
  have : t ∈ T.primitive := List.contains_iff_mem.mp h
  have e : T.primitive = ["buf", "and", "or", "xor", "not", "nand", "nor", "xnor"] := by decide
  rw [e] at this
  simp only [List.mem_cons, List.not_mem_nil, or_false] at this
  rcases this with rfl | rfl | rfl | rfl | rfl | rfl | rfl | rfl <;> decide

/-- the written netlist is well formed -/
theorem WritableP.wfp (hc : WritableP c) (hord : OrdOK ord) {i : Name} {gs : List Def} {invO : Option Name}
    (hi : i ∈ c.inputs) (h : WInv c ord i (ord (nonInputs c)) gs invO) :
    WFP (ord c.inputs) gs [] (ord c.outputs) := by
  have hnd := hc.clean.nodup
  have hin : ∀ x, x ∈ ord c.inputs ↔ x ∈ c.inputs := fun x => (hord _).mem_iff
  have hL : ∀ x, x ∈ ord (nonInputs c) ↔ (c.has x = true ∧ x ∉ c.inputs) := fun x => by
    rw [(hord _).mem_iff, mem_nonInputs]
  have hihas : c.has i = true := mem_inputs_has hi
  have hnode : ∀ x, c.has x = true → x ∈ ord c.inputs ∨ x ∈ BenchP.names gs := by
    intro x hx
    by_cases hxi : x ∈ c.inputs
    · exact Or.inl ((hin x).mpr hxi)
    · exact Or.inr ((h.mem x).mpr (Or.inl ((hL x).mpr ⟨hx, hxi⟩)))
  have hgsName : ∀ x ∈ BenchP.names gs, x ≠ "" ∧ Circuit.isDigit0 x = false ∧ ¬ hasDotB x := by
    intro x hx
    rcases (h.mem x).mp hx with h1 | h1
    · exact hc.nameFacts ((hL x).mp h1).1
    · exact uid_inv_name c i x (hc.nameFacts hihas) (h.uid x h1).1
  refine ⟨?_, ?_, ?_, ?_, ?_, ?_, ?_⟩
  · rintro n (hn | hn | hn)
    · exact hc.nameFacts (mem_inputs_has ((hin n).mp hn))
    · exact hgsName n hn
    · cases hn
  · rw [List.map_nil, List.append_nil, List.nodup_append]
    refine ⟨(hord _).nodup_iff.mpr (inputs_nodup hnd), h.nodup, ?_⟩
    intro a ha b hb hab
    rw [hin] at ha
    rcases (h.mem b).mp hb with h1 | h1
    · exact ((hL b).mp h1).2 (hab ▸ ha)
    · have := h.inv_fresh h1
      rw [← hab, mem_inputs_has ha] at this; cases this
  · intro g hg
    rcases h.desc g hg with ⟨_, t, _, hd | ⟨_, h2, _⟩ | ⟨_, h2, _⟩⟩ | ⟨_, h2, _⟩
    · rw [hd.2.1]; exact (prim_facts hd.1).1
    · rw [h2]; decide
    · rw [h2]; decide
    · rw [h2]; decide
  · intro g hg
    rcases h.desc g hg with ⟨hgL, t, hty, hd | ⟨_, h2, inv, h3, h4⟩ | ⟨_, h2, inv, h3, h4⟩⟩ | ⟨_, h2, h3⟩
    · obtain ⟨hp, e1, e2⟩ := hd
      have hperm : (ord (c.fanin g.1)).Perm (c.fanin g.1) := hord _
      have hlen : 1 ≤ (c.fanin g.1).length ∧ ((t = "buf" ∨ t = "not") → (c.fanin g.1).length = 1) := by
        obtain ⟨_, h5, h6⟩ := prim_facts hp
        constructor
        · rcases h5 with h5 | h5
          · rw [hc.clean.single g.1 t hty h5]; exact Nat.le_refl _
          · exact hc.clean.multi g.1 t hty h5
        · intro h7; exact hc.clean.single g.1 t hty (h6 h7)
      rw [e2, e1]
      refine ⟨?_, hperm.nodup_iff.mpr (fanin_nodup hc.clean.edgesNodup _), ?_⟩
      · intro e
        have := hperm.length_eq
        rw [e] at this
        have h8 := hlen.1
        rw [← this] at h8
        exact absurd h8 (by simp)
      · intro h7; rw [hperm.length_eq]; exact hlen.2 h7
    all_goals
      first
      | (have hne : i ≠ inv := by
           rintro rfl
           have := h.inv_fresh h3
           rw [hihas] at this; cases this
         rw [h4, h2]
         exact ⟨by simp, by simp [hne], fun h7 => by rcases h7 with h7 | h7 <;> exact absurd h7 (by decide)⟩)
      | (rw [h3, h2]; exact ⟨by simp, by simp, fun _ => rfl⟩)
  · intro g hg x hx
    have key : x ∈ ord c.inputs ∨ x ∈ BenchP.names gs := by
      rcases h.desc g hg with ⟨hgL, t, hty, hd | ⟨_, h2, inv, h3, h4⟩ | ⟨_, h2, inv, h3, h4⟩⟩ | ⟨_, h2, h3⟩
      · rw [hd.2.2, (hord _).mem_iff, mem_fanin] at hx
        exact hnode x (hc.clean.closed _ hx).1
      · rw [h4] at hx
        simp only [List.mem_cons, List.not_mem_nil, or_false] at hx
        rcases hx with rfl | rfl
        · exact Or.inl ((hin _).mpr hi)
        · exact Or.inr ((h.mem _).mpr (Or.inr h3))
      · rw [h4] at hx
        simp only [List.mem_cons, List.not_mem_nil, or_false] at hx
        rcases hx with rfl | rfl
        · exact Or.inl ((hin _).mpr hi)
        · exact Or.inr ((h.mem _).mpr (Or.inr h3))
      · rw [h3, List.mem_singleton] at hx
        rw [hx]; exact Or.inl ((hin _).mpr hi)
    rcases key with k | k
    · exact Or.inl k
    · exact Or.inr (Or.inl k)
  · intro d hd; cases hd
  · intro o ho
    have : c.has o = true := mem_outputs_has ((hord _).mem_iff.mp ho)
    rcases hnode o this with k | k
    · exact Or.inl k
    · exact Or.inr (Or.inl k)

/-- the writer succeeds; its statements are those of a netlist `(inputs, gs, [], outputs)` described by `WInv` -/
theorem WritableP.written (hc : WritableP c) (hord : OrdOK ord) :
    ∃ i gs invO, i ∈ c.inputs ∧ WInv c ord i (ord (nonInputs c)) gs invO ∧
      toStmts c ord = .ok (stmtsP (ord c.inputs) gs [] (ord c.outputs)) := by
  have hperm : (ord c.inputs).Perm c.inputs := hord _
  cases hoi : ord c.inputs with
  | nil =>
    rw [hoi] at hperm
    exact absurd (List.nil_perm.mp hperm) hc.hasInput
  | cons i rest =>
    have hi : i ∈ c.inputs := hperm.mem_iff.mp (by rw [hoi]; simp)
    have hty : ∀ p ∈ c.nodes, p.2.ty.isSome = true := by
      intro p hp
      obtain ⟨t, ht, _⟩ := hc.clean.typed p hp
      rw [ht]; rfl
    obtain ⟨gs, invO, e, h⟩ := wfold c ord i (ord (nonInputs c)) [] [] none (WInv.init c ord i)
      (by
        rw [List.nil_append]
        refine (hord _).nodup_iff.mpr ?_
        unfold nonInputs
        exact hc.clean.nodup.sublist List.filter_sublist)
      (by
        intro n hn
        exact hc.nonInput_ty ((hord _).mem_iff.mp hn))
    rw [List.nil_append] at h
    refine ⟨i, gs, invO, hi, h, ?_⟩
    unfold toStmts
    rw [toGateStmts_eq c ord i rest hc.nobb hty hoi]
    have e' : (ord (c.nodeNames.filter (fun n => !c.inputs.contains n))).foldlM (wstep c ord i) ([], none)
        = .ok (gs.map toS, invO) := e
    rw [e']
    simp only [bind, Except.bind, pure, Except.pure, stmtsP, List.map_nil, List.append_nil, hoi]
    rfl
end

end BenchP
end CG
