/- C13 helper (popcount 4/4): the output buffers, the removal of an unused `tie0`, the whole generator -/
import CG.Proofs.ArithPop3
set_option linter.unusedSimpArgs false
set_option linter.unusedVariables false
namespace CG
namespace Arith
open Logic Circuit Limit
open Tx (addC)

def outNode (j : Nat) : Name × Attr := ("out_" ++ toString j, { ty := some "buf", out := some true })

structure OutInv (c0 : Circuit) (p0 : List Name) (n : Nat) (c : Circuit) : Prop where
  inv : Inv' c []
  bbs : c.bbs = c0.bbs
  nodes : c.nodes = c0.nodes ++ (List.range n).map outNode
  edges : ∀ e, e ∈ c.edges ↔ e ∈ c0.edges ∨ ∃ j, j < n ∧ e = (p0.getD j "", "out_" ++ toString j)

theorem getD_mem (l : List Name) (j : Nat) (h : j < l.length) : l.getD j "" ∈ l := by
  simp only [List.getD, List.getElem?_eq_getElem h, Option.getD_some]
  exact List.getElem_mem h

theorem outLoop_ok {w i : Nat} {c0 : Circuit} {p0 : List Name} (h : PopInv w c0 [p0] i) : ∀ n, n ≤ p0.length →
    ∃ c, (List.range n).foldlM (fun c j =>
        addC c { n := "out_" ++ toString j, ty := "buf", fanin := [p0.getD j ""], output := true }) c0 = .ok c ∧
      OutInv c0 p0 n c
  | 0, _ => ⟨c0, rfl, ⟨h.inv, rfl, by simp, fun e => by simp⟩⟩
  | n + 1, hn => by
    obtain ⟨c, e, I⟩ := outLoop_ok h n (by omega)
    have hfresh : c.has ("out_" ++ toString n) = false := by
      cases hh : c.has ("out_" ++ toString n) with
      | false => rfl
      | true =>
        rcases (has_append I.nodes _).1 hh with h0 | ⟨a, ha⟩
        · exact absurd (h.names _ h0) (not_PName_out w i n)
        · obtain ⟨k, hk, e⟩ := List.mem_map.1 ha
          rw [List.mem_range] at hk
          injection e with e _
          have := (idx_inj "out_").1 e
          omega
    have hsrc : c0.has (p0.getD n "") = true := h.queue p0 (by simp) _ (getD_mem p0 n (by omega))
    obtain ⟨c', e', _, r⟩ := add_spec c I.inv ("out_" ++ toString n) "buf" [p0.getD n ""] [] true hfresh
      (nameOK_out n) (by decide) (fun h => by rcases h with h | h <;> exact absurd h (by decide)) (fun _ => by simp)
      (by
        intro u hu
        simp only [List.mem_singleton] at hu
        subst hu
        obtain ⟨t, ht, _⟩ := h.inv.1.typed _ hsrc
        have hg := h.plain _ t ht
        refine ⟨t, by rw [ty?_append_left I.nodes hsrc]; exact ht, ?_, ?_⟩ <;>
          (rintro rfl; revert hg; decide))
      (fun u hu => by cases hu)
    refine ⟨c', ?_, ⟨r.inv, by rw [r.bbs, I.bbs], ?_, ?_⟩⟩
    · rw [foldlM_range_succ, e, bind_ok]; exact e'
    · rw [r.nodes, I.nodes, List.range_succ, List.map_append, List.append_assoc]; rfl
    · intro e
      rw [r.edges, I.edges]
      simp only [List.not_mem_nil, and_false, false_or, List.mem_singleton]
      constructor
      · rintro ((h0 | ⟨j, hj, h0⟩) | ⟨h1, h2⟩)
        · exact Or.inl h0
        · exact Or.inr ⟨j, by omega, h0⟩
        · exact Or.inr ⟨n, by omega, Prod.ext h1 h2⟩
      · rintro (h0 | ⟨j, hj, h0⟩)
        · exact Or.inl (Or.inl h0)
        · by_cases hjn : j = n
          · subst hjn; rw [h0]; exact Or.inr ⟨rfl, rfl⟩
          · exact Or.inl (Or.inr ⟨j, by omega, h0⟩)

/-- everything about the circuit with the output buffers, before `tie0` is possibly removed -/
structure OutRes (w : Nat) (c : Circuit) (m : Nat) : Prop where
  inv : Inv' c []
  driven : Driven c
  tie0 : ("tie0", { ty := some "0", out := some false }) ∈ c.nodes
  outputs : c.outputs = (List.range m).map (fun j => "out_" ++ toString j)
  inputs : ∀ x, x ∈ c.inputs ↔ ∃ k, k < w ∧ x = "in_" ++ toString k
  sem : ∀ v, Consistent c v → bitsVal v "out_" m = onesCount v w

theorem outRes_of {w i : Nat} {c0 c : Circuit} {p0 : List Name} (h : PopInv w c0 [p0] i)
    (I : OutInv c0 p0 p0.length c) : OutRes w c p0.length := by
  have hwf0 := wf_of_inv h.inv
  have hwf := wf_of_inv I.inv
  have hnotout : ∀ j, c0.has ("out_" ++ toString j) = false := fun j => not_has_of h.names (not_PName_out w i j)
  refine ⟨I.inv, ?_, by rw [I.nodes]; exact List.mem_append.2 (Or.inl h.tie0), ?_, ?_, ?_⟩
  · intro x t ht hs
    rcases ty?_append_cases I.nodes hwf.nodup ht with ⟨_, h0⟩ | ⟨a, ha, _⟩
    · obtain ⟨u, hu⟩ := h.driven x t h0 hs
      exact ⟨u, (I.edges _).2 (Or.inl hu)⟩
    · obtain ⟨j, hj, e⟩ := List.mem_map.1 ha
      rw [List.mem_range] at hj
      injection e with e _
      exact ⟨p0.getD j "", (I.edges _).2 (Or.inr ⟨j, hj, by rw [e]⟩)⟩
  · unfold Circuit.outputs
    rw [I.nodes, List.filter_append, List.map_append]
    have h1 : (c0.nodes.filter fun p => p.2.out.getD false).map (·.1) = [] := h.outputs
    have h2 : ((List.range p0.length).map outNode).filter (fun p => p.2.out.getD false) =
        (List.range p0.length).map outNode := by
      rw [List.filter_eq_self]
      intro p hp
      obtain ⟨j, _, rfl⟩ := List.mem_map.1 hp
      rfl
    rw [h1, h2, List.nil_append, List.map_map]
    rfl
  · intro x
    rw [← h.inputs x]
    unfold Circuit.inputs Circuit.filterType
    rw [I.nodes, List.filter_append, List.map_append]
    have h2 : ∀ f : Name × Attr → Bool, (∀ j, f (outNode j) = false) →
        ((List.range p0.length).map outNode).filter f = [] := by
      intro f hf
      rw [List.filter_eq_nil_iff]
      intro p hp
      obtain ⟨j, _, rfl⟩ := List.mem_map.1 hp
      rw [hf j]; simp
    rw [h2 _ (fun j => by rfl), List.map_nil, List.append_nil]
  · intro v hv
    have hc0 : Consistent c0 v := by
      apply consistent_sub v hwf0 hwf.edgesNodup ?_ ?_ hv
      · intro p hp; rw [I.nodes]; exact List.mem_append.2 (Or.inl hp)
      · intro p hp t _ _ u
        rw [I.edges]
        constructor
        · rintro (h0 | ⟨j, _, e⟩)
          · exact h0
          · injection e with _ e2
            have := has_of_mem hp
            rw [e2, hnotout] at this; cases this
        · exact Or.inl
    have hs := h.sem v hc0
    simp only [List.map_cons, List.map_nil, List.sum_cons, List.sum_nil, Nat.add_zero] at hs
    rw [← hs, bitsVal_eq_sumBits]
    unfold vecVal
    apply sumBits_congr
    intro j hj
    apply buf_val hv hwf.edgesNodup (a := (outNode j).2)
    · rw [I.nodes]
      exact List.mem_append.2 (Or.inr (List.mem_map.2 ⟨j, List.mem_range.2 hj, rfl⟩))
    · rfl
    · intro u
      rw [I.edges]
      constructor
      · rintro (h0 | ⟨j', _, e⟩)
        · have := (hwf0.closed _ h0).2
          rw [hnotout] at this; cases this
        · injection e with e1 e2
          have := (idx_inj "out_").1 e2
          rw [this, e1]
      · rintro rfl; exact Or.inr ⟨j, hj, rfl⟩

/-! ### removing an unused `tie0` -/

structure PopSpec (w : Nat) (c : Circuit) (m : Nat) : Prop where
  lint : LintClean c
  outputs : c.outputs = (List.range m).map (fun j => "out_" ++ toString j)
  inputs : ∀ x, x ∈ c.inputs ↔ ∃ k, k < w ∧ x = "in_" ++ toString k
  sem : ∀ v, Consistent c v → bitsVal v "out_" m = onesCount v w

theorem OutRes.spec {w m : Nat} {c : Circuit} (R : OutRes w c m) : PopSpec w c m :=
  ⟨lintClean_of_WS R.inv.1 R.driven, R.outputs, R.inputs, R.sem⟩

theorem onesCount_congr {v v' : Val} (w : Nat) (h : ∀ k : Nat, v' ("in_" ++ toString k) = v ("in_" ++ toString k)) :
    onesCount v' w = onesCount v w := by
  unfold onesCount
  congr 1
  apply List.filter_congr
  intro k _
  exact h k

theorem remove_tie0 {w m : Nat} {c : Circuit} (R : OutRes w c m) (hno : (c.fanout "tie0").isEmpty = true) :
    PopSpec w (c.remove ["tie0"]) m := by
  have hwf := wf_of_inv R.inv
  have hrm : c.remove ["tie0"] = c.removeNode "tie0" := rfl
  have hty0 : c.ty? "tie0" = some "0" := by rw [ty?_of_mem hwf.nodup R.tie0]
  have hfo : ∀ e ∈ c.edges, e.1 ≠ "tie0" := by
    intro e he e1
    have hm : e.2 ∈ c.fanout "tie0" := mem_fanout.2 (by rw [← e1]; exact he)
    rw [List.isEmpty_iff] at hno
    rw [hno] at hm; cases hm
  have hfi : ∀ e ∈ c.edges, e.2 ≠ "tie0" := by
    intro e he e2
    have := R.inv.1.noFanin e.1 e.2 he "0" (by rw [e2]; exact hty0)
    exact this (by decide)
  have hedges : (c.removeNode "tie0").edges = c.edges := by
    unfold removeNode
    simp only []
    rw [List.filter_eq_self]
    intro e he
    have h1 : (e.1 == "tie0") = false := by simpa using hfo e he
    have h2 : (e.2 == "tie0") = false := by simpa using hfi e he
    rw [h1, h2]; rfl
  have hnodes : (c.removeNode "tie0").nodes = c.nodes.filter (fun p => !(p.1 == "tie0")) := rfl
  have hws : WS (c.removeNode "tie0") := by
    have := (remove_Inv R.inv ["tie0"]).1
    rw [hrm] at this
    exact this
  have hattr0 : ∀ a, ("tie0", a) ∈ c.nodes → a = { ty := some "0", out := some false } := by
    intro a ha
    have h1 := attr?_of_mem hwf.nodup ha
    rw [attr?_of_mem hwf.nodup R.tie0] at h1
    injection h1 with h1; exact h1.symm
  rw [hrm]
  refine ⟨lintClean_of_WS hws ?_, ?_, ?_, ?_⟩
  · intro x t ht hs
    rw [removeNode_ty?] at ht
    by_cases hx : x = "tie0"
    · rw [if_pos hx] at ht; cases ht
    · rw [if_neg hx] at ht
      obtain ⟨u, hu⟩ := R.driven x t ht hs
      exact ⟨u, by rw [hedges]; exact hu⟩
  · rw [← R.outputs]
    unfold Circuit.outputs
    rw [hnodes, List.filter_filter]
    congr 1
    apply List.filter_congr
    intro p hp
    by_cases h1 : p.1 = "tie0"
    · have : p.2 = { ty := some "0", out := some false } := hattr0 p.2 (by rw [← h1]; exact hp)
      rw [this]; simp
    · have : (p.1 == "tie0") = false := by simpa using h1
      rw [this]; simp
  · intro x
    rw [← R.inputs x, mem_inputs hws.nodup, mem_inputs hwf.nodup, removeNode_ty?]
    by_cases hx : x = "tie0"
    · rw [if_pos hx, hx, hty0]
      constructor
      · intro h; cases h
      · intro h; injection h with h; exact absurd h (by decide)
    · rw [if_neg hx]
  · intro v hv
    have hc : Consistent c (upd v "tie0" false) := by
      intro p hp t ht b hb
      by_cases h1 : p.1 = "tie0"
      · have h2 : p.2 = { ty := some "0", out := some false } := hattr0 p.2 (by rw [← h1]; exact hp)
        rw [h2] at ht
        injection ht with ht
        subst ht
        rw [gate_zero] at hb
        injection hb with hb
        rw [h1, upd_self, hb]
      · have hp' : p ∈ (c.removeNode "tie0").nodes := by
          rw [hnodes]
          exact List.mem_filter.2 ⟨hp, by simpa using h1⟩
        rw [upd_ne v false h1]
        apply hv p hp' t ht b
        have hf : (c.removeNode "tie0").fanin p.1 = c.fanin p.1 := by
          unfold Circuit.fanin; rw [hedges]
        rw [hf]
        have : (c.fanin p.1).map (upd v "tie0" false) = (c.fanin p.1).map v := by
          apply List.map_congr_left
          intro u hu
          apply upd_ne
          exact hfo (u, p.1) (mem_fanin.1 hu)
        rw [← this]
        exact hb
    have := R.sem _ hc
    rw [onesCount_congr (v := v) w (fun k => upd_ne v false (by name_ne))] at this
    rw [← this]
    symm
    rw [bitsVal_eq_sumBits, bitsVal_eq_sumBits]
    apply sumBits_congr
    intro j _
    exact upd_ne v false (by name_ne)

/-! ### the whole generator -/

theorem popcount_full (w : Nat) (hw : 1 ≤ w) : ∃ c m, popcount w = .ok c ∧ PopSpec w c m := by
  obtain ⟨ci, c0, ei, e0, h0⟩ := popcount_init w
  obtain ⟨c1, p0, i1, e1, h1⟩ := popcountLoop_ok (w + 1) c0 _ 0 h0 (by simpa using hw) (by simp)
  obtain ⟨c2, e2, I⟩ := outLoop_ok h1 p0.length (Nat.le_refl _)
  have R := outRes_of h1 I
  by_cases hno : (c2.fanout "tie0").isEmpty = true
  · refine ⟨c2.remove ["tie0"], p0.length, ?_, remove_tie0 R hno⟩
    unfold popcount
    rw [ei, bind_ok, e0, bind_ok, e1, bind_ok]
    simp only []
    rw [e2, bind_ok, if_pos hno]
    rfl
  · refine ⟨c2, p0.length, ?_, R.spec⟩
    unfold popcount
    rw [ei, bind_ok, e0, bind_ok, e1, bind_ok]
    simp only []
    rw [e2, bind_ok, if_neg hno]
    rfl

end Arith
end CG
