/- helper lemmas for C06 (strip_blackboxes): the graph after the two pin folds, and after the relabel -/
import CG.Proofs.StripBase
set_option linter.unusedSimpArgs false
set_option linter.unusedVariables false
namespace CG.Strip
open CG Circuit

/-! ### small facts -/

theorem mem_filterType1 {c : Circuit} (hnd : c.nodeNames.Nodup) (t : String) (x : Name) :
    x ∈ c.filterType [t] ↔ c.ty? x = some t := by
  simp only [Circuit.filterType, List.mem_map, List.mem_filter]
  constructor
  · rintro ⟨p, ⟨hp, hq⟩, rfl⟩
    have ha := attr?_of_mem hnd (n := p.1) (a := p.2) hp
    cases hty : p.2.ty with
    | none => simp [hty] at hq
    | some t' =>
      simp only [hty, List.contains_iff_mem, List.mem_singleton] at hq
      simp [Circuit.ty?, ha, hty, hq]
  · intro hty
    simp only [Circuit.ty?] at hty
    cases ha : c.attr? x with
    | none => simp [ha] at hty
    | some a =>
      simp only [ha, Option.bind_some] at hty
      exact ⟨(x, a), ⟨attr?_mem ha, by simp [hty]⟩, rfl⟩

theorem filterType_nodup {c : Circuit} (hnd : c.nodeNames.Nodup) (ts : List String) : (c.filterType ts).Nodup := by
  unfold Circuit.filterType
  exact List.Nodup.sublist (List.filter_sublist.map _) hnd

theorem isPin_iff (c : Circuit) (n : Name) :
    isPin c n = true ↔ c.ty? n = some "bb_input" ∨ c.ty? n = some "bb_output" := by
  simp [isPin]

theorem has_of_isPin {c : Circuit} {n : Name} (h : isPin c n = true) : c.has n = true := by
  rcases (isPin_iff c n).1 h with h | h <;> exact has_of_ty? h

theorem kept_isPin {c : Circuit} {ig : List Name} {n : Name} (h : kept c ig n = true) : isPin c n = true := by
  simp only [kept, Bool.and_eq_true] at h; exact h.1

theorem kept_not_dropped {c : Circuit} {ig : List Name} {n : Name} (h : kept c ig n = true) :
    dropped c ig n = false := by
  simp only [kept, Bool.and_eq_true, Bool.not_eq_true'] at h
  simp only [dropped, h.2, Bool.and_false]

theorem dropped_isPin {c : Circuit} {ig : List Name} {n : Name} (h : dropped c ig n = true) : isPin c n = true := by
  simp only [dropped, Bool.and_eq_true] at h; exact h.1

theorem dropped_false_of_not_pin {c : Circuit} {ig : List Name} {n : Name} (h : isPin c n = false) :
    dropped c ig n = false := by
  simp [dropped, h]

theorem kept_false_of_not_pin {c : Circuit} {ig : List Name} {n : Name} (h : isPin c n = false) :
    kept c ig n = false := by
  simp [kept, h]

theorem kept_of_pin_not_dropped {c : Circuit} {ig : List Name} {n : Name} (h : isPin c n = true)
    (hd : dropped c ig n = false) : kept c ig n = true := by
  simp only [dropped, h, Bool.true_and] at hd
  simp only [kept, h, hd, Bool.true_and, Bool.not_false]

theorem sname_of_not_kept {c : Circuit} {ig : List Name} {n : Name} (h : kept c ig n = false) :
    sname c ig n = n := by
  simp [sname, h]

theorem sname_of_kept {c : Circuit} {ig : List Name} {n : Name} (h : kept c ig n = true) :
    sname c ig n = Tx.replaceDots n := by
  simp [sname, h]

/-! ### after the two folds -/

structure PhaseView (c : Circuit) (ig : List Name) (r : Circuit × List Name) : Prop where
  nodup : r.1.nodeNames.Nodup
  edgesNodup : c.edges.Nodup → r.1.edges.Nodup
  name : r.1.name = c.name
  attrD : ∀ m, dropped c ig m = true → r.1.attr? m = none
  attrI : ∀ m, c.ty? m = some "bb_input" → kept c ig m = true →
    r.1.attr? m = some { ty := some "buf", out := some true }
  attrO : ∀ m a, c.attr? m = some a → a.ty = some "bb_output" → kept c ig m = true →
    r.1.attr? m = some { a with ty := some "input" }
  attrN : ∀ m, isPin c m = false → r.1.attr? m = c.attr? m
  edges : ∀ e, e ∈ r.1.edges ↔ e ∈ c.edges ∧ dropped c ig e.1 = false ∧ dropped c ig e.2 = false
  pins : ∀ x, x ∈ r.2 ↔ kept c ig x = true
  pinsNodup : r.2.Nodup

theorem phaseView {c : Circuit} (ig : List Name) {ord : Ord} (hord : OrdOK ord) (hnd : c.nodeNames.Nodup) :
    PhaseView c ig (phase c ig ord) := by
  have hL1 : ∀ m, m ∈ ord (c.filterType ["bb_input"]) ↔ c.ty? m = some "bb_input" := fun m => by
    rw [(hord _).mem_iff, mem_filterType1 hnd]
  have hL2 : ∀ m, m ∈ ord (c.filterType ["bb_output"]) ↔ c.ty? m = some "bb_output" := fun m => by
    rw [(hord _).mem_iff, mem_filterType1 hnd]
  have hN1 : (ord (c.filterType ["bb_input"])).Nodup := (hord _).nodup_iff.2 (filterType_nodup hnd _)
  have hN2 : (ord (c.filterType ["bb_output"])).Nodup := (hord _).nodup_iff.2 (filterType_nodup hnd _)
  have V1 := foldView ig "bb_input" (ord (c.filterType ["bb_input"])) c []
  generalize hr1 : (ord (c.filterType ["bb_input"])).foldl (stepF ig "bb_input") (c, []) = r1 at V1
  have V2 := foldView ig "bb_output" (ord (c.filterType ["bb_output"])) r1.1 r1.2
  have hph : phase c ig ord = (ord (c.filterType ["bb_output"])).foldl (stepF ig "bb_output") (r1.1, r1.2) := by
    unfold phase; rw [hr1]
  rw [hph]
  generalize (ord (c.filterType ["bb_output"])).foldl (stepF ig "bb_output") (r1.1, r1.2) = r2 at V2
  generalize ord (c.filterType ["bb_input"]) = L1 at hL1 hN1 V1
  generalize ord (c.filterType ["bb_output"]) = L2 at hL2 hN2 V2
  have hattr : ∀ m, r2.1.attr? m =
      if m ∈ L2 then (if ig.contains (Tx.lastDot m) then none else (c.attr? m).map (upd "bb_output"))
      else if m ∈ L1 then (if ig.contains (Tx.lastDot m) then none else (c.attr? m).map (upd "bb_input"))
      else c.attr? m := by
    intro m
    rw [V2.attr m, V1.attr m]
    by_cases h2 : m ∈ L2
    · have h1 : m ∉ L1 := by
        intro h1
        have a := (hL1 m).1 h1
        rw [(hL2 m).1 h2] at a
        simp at a
      simp only [h2, h1, if_true, if_false]
    · simp only [h2, if_false]
  have hdrop : ∀ y, dropped c ig y = true ↔ (y ∈ L1 ∨ y ∈ L2) ∧ ig.contains (Tx.lastDot y) = true := by
    intro y
    simp only [dropped, Bool.and_eq_true, isPin_iff, hL1, hL2]
  have hkept : ∀ y, kept c ig y = true ↔ (y ∈ L1 ∨ y ∈ L2) ∧ ig.contains (Tx.lastDot y) = false := by
    intro y
    simp only [kept, Bool.and_eq_true, isPin_iff, hL1, hL2, Bool.not_eq_true']
  have hdropF : ∀ y, dropped c ig y = false ↔
      (∀ x ∈ L1, ig.contains (Tx.lastDot x) = true → y ≠ x) ∧
      (∀ x ∈ L2, ig.contains (Tx.lastDot x) = true → y ≠ x) := by
    intro y
    constructor
    · intro h
      refine ⟨?_, ?_⟩
      · intro x hx hi e; subst e
        rw [(hdrop y).2 ⟨Or.inl hx, hi⟩] at h; cases h
      · intro x hx hi e; subst e
        rw [(hdrop y).2 ⟨Or.inr hx, hi⟩] at h; cases h
    · rintro ⟨a1, a2⟩
      cases hd : dropped c ig y with
      | false => rfl
      | true =>
        obtain ⟨h | h, hi⟩ := (hdrop y).1 hd
        · exact absurd rfl (a1 y h hi)
        · exact absurd rfl (a2 y h hi)
  refine ⟨V2.nodup (V1.nodup hnd), fun hed => V2.edgesNodup (V1.edgesNodup hed), by rw [V2.name, V1.name], ?_, ?_, ?_, ?_, ?_, ?_, ?_⟩
  · intro m hm
    obtain ⟨h, hi⟩ := (hdrop m).1 hm
    rw [hattr m]
    by_cases h2 : m ∈ L2
    · simp only [h2, hi, if_true]
    · have h1 : m ∈ L1 := h.resolve_right h2
      simp only [h2, h1, hi, if_true, if_false]
  · intro m hty hk
    obtain ⟨_, hi⟩ := (hkept m).1 hk
    have h1 : m ∈ L1 := (hL1 m).2 hty
    have h2 : m ∉ L2 := by
      intro h2
      have a := (hL2 m).1 h2
      rw [hty] at a; simp at a
    rw [hattr m]
    simp only [h2, h1, hi, if_true, if_false, Bool.false_eq_true]
    have hh : (c.attr? m).isSome = true := by rw [← has_eq_isSome]; exact has_of_ty? hty
    cases ha : c.attr? m with
    | none => rw [ha] at hh; cases hh
    | some a => simp [upd]
  · intro m a ha hty hk
    obtain ⟨_, hi⟩ := (hkept m).1 hk
    have hty' : c.ty? m = some "bb_output" := by simp [Circuit.ty?, ha, hty]
    have h2 : m ∈ L2 := (hL2 m).2 hty'
    rw [hattr m]
    simp only [h2, hi, if_true, if_false, Bool.false_eq_true, ha, Option.map_some]
    simp [upd]
  · intro m hm
    have h1 : m ∉ L1 := by
      intro h1
      rw [(isPin_iff c m).2 (Or.inl ((hL1 m).1 h1))] at hm; cases hm
    have h2 : m ∉ L2 := by
      intro h2
      rw [(isPin_iff c m).2 (Or.inr ((hL2 m).1 h2))] at hm; cases hm
    rw [hattr m]
    simp only [h1, h2, if_false]
  · intro e
    rw [V2.edges e, V1.edges e, hdropF e.1, hdropF e.2]
    constructor
    · rintro ⟨⟨he, a1⟩, a2⟩
      exact ⟨he, ⟨fun x hx hi => (a1 x hx hi).1, fun x hx hi => (a2 x hx hi).1⟩,
        ⟨fun x hx hi => (a1 x hx hi).2, fun x hx hi => (a2 x hx hi).2⟩⟩
    · rintro ⟨he, ⟨a1, a2⟩, ⟨b1, b2⟩⟩
      exact ⟨⟨he, fun x hx hi => ⟨a1 x hx hi, b1 x hx hi⟩⟩, fun x hx hi => ⟨a2 x hx hi, b2 x hx hi⟩⟩
  · intro x
    rw [V2.pins, V1.pins, hkept x]
    simp only [List.nil_append, List.mem_append, List.mem_filter, Bool.not_eq_true']
    constructor
    · rintro (⟨h, hi⟩ | ⟨h, hi⟩)
      · exact ⟨Or.inl h, hi⟩
      · exact ⟨Or.inr h, hi⟩
    · rintro ⟨h | h, hi⟩
      · exact Or.inl ⟨h, hi⟩
      · exact Or.inr ⟨h, hi⟩
  · rw [V2.pins, V1.pins]
    simp only [List.nil_append]
    refine List.nodup_append.2 ⟨nodup_filter _ hN1, nodup_filter _ hN2, ?_⟩
    intro a ha b hb e
    subst e
    have a1 := (hL1 a).1 (List.mem_filter.1 ha).1
    have a2 := (hL2 a).1 (List.mem_filter.1 hb).1
    rw [a1] at a2; simp at a2

theorem PhaseView.has {c : Circuit} {ig : List Name} {r : Circuit × List Name} (P : PhaseView c ig r) (m : Name) :
    r.1.has m = (c.has m && !dropped c ig m) := by
  cases hp : isPin c m with
  | false =>
    rw [has_eq_isSome, P.attrN m hp, ← has_eq_isSome, dropped_false_of_not_pin hp]; simp
  | true =>
    rw [has_of_isPin hp]
    cases hd : dropped c ig m with
    | true => rw [has_eq_isSome, P.attrD m hd]; rfl
    | false =>
      have hk := kept_of_pin_not_dropped hp hd
      rcases (isPin_iff c m).1 hp with h | h
      · rw [has_eq_isSome, P.attrI m h hk]; rfl
      · have hh : (c.attr? m).isSome = true := by rw [← has_eq_isSome]; exact has_of_ty? h
        cases ha : c.attr? m with
        | none => rw [ha] at hh; cases hh
        | some a =>
          have hty : a.ty = some "bb_output" := by simpa [Circuit.ty?, ha] using h
          rw [has_eq_isSome, P.attrO m a ha hty hk]; rfl

/-! ### the relabel -/

theorem relabelOne_name (c : Circuit) (o n : Name) : (c.relabelOne o n).name = c.name := by
  unfold relabelOne
  cases c.attr? o with
  | none => rfl
  | some a =>
    simp only []
    split
    · exact addNodeAttr_name c n a
    · rw [foldl_addEdge_name]
      show (c.addNodeAttr n a).name = c.name
      exact addNodeAttr_name c n a

theorem relabel_name (c : Circuit) (m : List (Name × Name)) : (c.relabel m).name = c.name := by
  unfold relabel
  simp only []
  generalize c.nodeNames.filter (fun n => (m.lookup n).isSome) = L
  suffices ∀ (L : List Name) (ck : Circuit), (L.foldl (fun c o => match m.lookup o with
      | some n => c.relabelOne o n | none => c) ck).name = ck.name from this L c
  intro L
  induction L with
  | nil => intro ck; rfl
  | cons o L ih =>
    intro ck
    simp only [List.foldl_cons]
    rw [ih]
    cases m.lookup o with
    | none => rfl
    | some n => exact relabelOne_name ck o n

theorem lookup_pmap (x : Name) : ∀ l : List Name,
    (pmap l).lookup x = if x ∈ l then some (Tx.replaceDots x) else none
  | [] => by simp [pmap]
  | y :: l => by
    have ih := lookup_pmap x l
    unfold pmap at ih ⊢
    simp only [List.map_cons, List.lookup_cons, List.mem_cons]
    by_cases e : x = y
    · subst e; simp
    · have : (x == y) = false := by simpa using e
      simp only [this, e, false_or]
      exact ih

/-- what a successful `strip_blackboxes` returns, stated on attributes and edge membership -/
structure StripView (c : Circuit) (ig : List Name) (c' : Circuit) : Prop where
  nodup : c'.nodeNames.Nodup
  edgesNodup : c'.edges.Nodup
  name : c'.name = c.name
  attrKeep : ∀ n, c.has n = true → isPin c n = false → c'.attr? n = c.attr? n
  attrIn : ∀ n, c.ty? n = some "bb_input" → kept c ig n = true →
    c'.attr? (Tx.replaceDots n) = some { ty := some "buf", out := some true }
  attrOut : ∀ n a, c.attr? n = some a → a.ty = some "bb_output" → kept c ig n = true →
    c'.attr? (Tx.replaceDots n) = some { a with ty := some "input" }
  has : ∀ m, c'.has m = true ↔ ∃ n, c.has n = true ∧ dropped c ig n = false ∧ m = sname c ig n
  inj : ∀ n₁ n₂, c.has n₁ = true → c.has n₂ = true → dropped c ig n₁ = false → dropped c ig n₂ = false →
    sname c ig n₁ = sname c ig n₂ → n₁ = n₂
  edges : ∀ e, e ∈ c'.edges ↔ ∃ a b, (a, b) ∈ c.edges ∧ dropped c ig a = false ∧ dropped c ig b = false ∧
    e = (sname c ig a, sname c ig b)

theorem StripView.congr {c : Circuit} {ig : List Name} {c' c'' : Circuit} (S : StripView c ig c')
    (hn : c''.nodes = c'.nodes) (he : c''.edges = c'.edges) (hname : c''.name = c'.name) : StripView c ig c'' := by
  refine ⟨by rw [nodeNames_congr hn]; exact S.nodup, by rw [he]; exact S.edgesNodup, by rw [hname, S.name], ?_, ?_, ?_,
    ?_, S.inj, ?_⟩
  · intro n h1 h2; rw [attr?_congr hn]; exact S.attrKeep n h1 h2
  · intro n h1 h2; rw [attr?_congr hn]; exact S.attrIn n h1 h2
  · intro n a h1 h2 h3; rw [attr?_congr hn]; exact S.attrOut n a h1 h2 h3
  · intro m; rw [has_congr hn]; exact S.has m
  · intro e; rw [he]; exact S.edges e

theorem stripView {c : Circuit} {ig : List Name} {r : Circuit × List Name} (P : PhaseView c ig r)
    (hed : c.edges.Nodup)
    (hchk : (pmap r.2).any (fun p => r.1.has p.2) = false)
    (hdd : ¬ (dedup ((pmap r.2).map (·.2))).length < (pmap r.2).length) :
    StripView c ig (r.1.relabel (pmap r.2)) := by
  have hlk : ∀ x n, (pmap r.2).lookup x = some n → kept c ig x = true ∧ n = Tx.replaceDots x := by
    intro x n h
    rw [lookup_pmap] at h
    by_cases hx : x ∈ r.2
    · rw [if_pos hx] at h; injection h with h
      exact ⟨(P.pins x).1 hx, h.symm⟩
    · rw [if_neg hx] at h; cases h
  have hlk' : ∀ x, kept c ig x = true → (pmap r.2).lookup x = some (Tx.replaceDots x) := by
    intro x hx
    rw [lookup_pmap, if_pos ((P.pins x).2 hx)]
  have hfresh : ∀ x n, (pmap r.2).lookup x = some n → r.1.has n = false := by
    intro x n h
    have hm := lookup_mem h
    have := (List.any_eq_false.1 hchk) (x, n) hm
    simpa using this
  have hndm : (r.2.map Tx.replaceDots).Nodup := by
    have h := nodup_of_dedup_length ((pmap r.2).map (·.2)) (by rw [List.length_map]; exact hdd)
    have e : (pmap r.2).map (·.2) = r.2.map Tx.replaceDots := by
      unfold pmap; rw [List.map_map]; rfl
    rw [← e]; exact h
  have hrd : ∀ x y, kept c ig x = true → kept c ig y = true → Tx.replaceDots x = Tx.replaceDots y → x = y :=
    fun x y hx hy e => eq_of_map_nodup Tx.replaceDots r.2 hndm x ((P.pins x).2 hx) y ((P.pins y).2 hy) e
  have hinj : ∀ x y n, (pmap r.2).lookup x = some n → (pmap r.2).lookup y = some n → x = y := by
    intro x y n hx hy
    obtain ⟨kx, ex⟩ := hlk x n hx
    obtain ⟨ky, ey⟩ := hlk y n hy
    exact hrd x y kx ky (by rw [← ex, ← ey])
  have I := relabel_view' P.nodup (P.edgesNodup hed) (pmap r.2) hfresh hinj
  have hsurv : ∀ n, c.has n = true → dropped c ig n = false → r.1.has n = true := by
    intro n h1 h2; rw [P.has, h1, h2]; rfl
  have hD : ∀ x, x ∈ r.1.nodeNames.filter (fun n => ((pmap r.2).lookup n).isSome) ↔ kept c ig x = true := by
    intro x
    rw [List.mem_filter, ← has_iff_mem]
    constructor
    · rintro ⟨_, h⟩
      cases hl : (pmap r.2).lookup x with
      | none => rw [hl] at h; cases h
      | some n => exact (hlk x n hl).1
    · intro hk
      exact ⟨hsurv x (has_of_isPin (kept_isPin hk)) (kept_not_dropped hk), by rw [hlk' x hk]; rfl⟩
  generalize r.1.nodeNames.filter (fun n => ((pmap r.2).lookup n).isSome) = D at I hD
  have hr : ∀ x, rD (pmap r.2) D x = sname c ig x := by
    intro x
    unfold rD sname
    cases hk : kept c ig x with
    | true => rw [if_pos ((hD x).2 hk), hlk' x hk]; rfl
    | false =>
      have : x ∉ D := by intro h; rw [(hD x).1 h] at hk; cases hk
      rw [if_neg this]; rfl
  -- a surviving non-kept node is not an exposed name
  have hnot : ∀ n, c.has n = true → dropped c ig n = false → ∀ x ∈ D, (pmap r.2).lookup x ≠ some n := by
    intro n h1 h2 x _ hl
    have := hfresh x n hl
    rw [hsurv n h1 h2] at this; cases this
  have hinjS : ∀ n₁ n₂, c.has n₁ = true → c.has n₂ = true → dropped c ig n₁ = false → dropped c ig n₂ = false →
      sname c ig n₁ = sname c ig n₂ → n₁ = n₂ := by
    intro n₁ n₂ h1 h2 d1 d2 e
    cases k1 : kept c ig n₁ with
    | true =>
      cases k2 : kept c ig n₂ with
      | true =>
        rw [sname_of_kept k1, sname_of_kept k2] at e
        exact hrd n₁ n₂ k1 k2 e
      | false =>
        rw [sname_of_kept k1, sname_of_not_kept k2] at e
        exact absurd (by rw [hlk' n₁ k1, e]) (hnot n₂ h2 d2 n₁ ((hD n₁).2 k1))
    | false =>
      cases k2 : kept c ig n₂ with
      | true =>
        rw [sname_of_not_kept k1, sname_of_kept k2] at e
        exact absurd (by rw [hlk' n₂ k2, e]) (hnot n₁ h1 d1 n₂ ((hD n₂).2 k2))
      | false =>
        rw [sname_of_not_kept k1, sname_of_not_kept k2] at e
        exact e
  refine ⟨I.nodup, I.edgesNodup, by rw [relabel_name, P.name], ?_, ?_, ?_, ?_, hinjS, ?_⟩
  · intro n h1 h2
    have hd := dropped_false_of_not_pin (ig := ig) h2
    rw [I.cc n (by intro h; have := (hD n).1 h; rw [kept_false_of_not_pin h2] at this; cases this)
      (hnot n h1 hd), P.attrN n h2]
  · intro n hty hk
    rw [I.b n ((hD n).2 hk) _ (hlk' n hk), P.attrI n hty hk]
  · intro n a ha hty hk
    rw [I.b n ((hD n).2 hk) _ (hlk' n hk), P.attrO n a ha hty hk]
  · intro m
    constructor
    · intro hm
      by_cases hmD : m ∈ D
      · rw [has_eq_isSome, I.a m hmD] at hm; cases hm
      · by_cases hex : ∃ x ∈ D, (pmap r.2).lookup x = some m
        · obtain ⟨x, hx, hl⟩ := hex
          have hk := (hD x).1 hx
          refine ⟨x, has_of_isPin (kept_isPin hk), kept_not_dropped hk, ?_⟩
          rw [sname_of_kept hk, (hlk x m hl).2]
        · have hcc := I.cc m hmD (fun x hx hl => hex ⟨x, hx, hl⟩)
          rw [has_eq_isSome, hcc, ← has_eq_isSome, P.has] at hm
          simp only [Bool.and_eq_true, Bool.not_eq_true'] at hm
          refine ⟨m, hm.1, hm.2, ?_⟩
          cases hk : kept c ig m with
          | true => exact absurd ((hD m).2 hk) hmD
          | false => rw [sname_of_not_kept hk]
    · rintro ⟨n, h1, h2, rfl⟩
      cases hk : kept c ig n with
      | true =>
        rw [sname_of_kept hk, has_eq_isSome, I.b n ((hD n).2 hk) _ (hlk' n hk), ← has_eq_isSome]
        exact hsurv n h1 h2
      | false =>
        have hnD : n ∉ D := by intro h; rw [(hD n).1 h] at hk; cases hk
        rw [sname_of_not_kept hk, has_eq_isSome, I.cc n hnD (hnot n h1 h2), ← has_eq_isSome]
        exact hsurv n h1 h2
  · intro e
    rw [I.edges e]
    constructor
    · rintro ⟨e0, he0, rfl⟩
      obtain ⟨h1, h2, h3⟩ := (P.edges e0).1 he0
      exact ⟨e0.1, e0.2, h1, h2, h3, by rw [hr, hr]⟩
    · rintro ⟨a, b, h1, h2, h3, rfl⟩
      exact ⟨(a, b), (P.edges (a, b)).2 ⟨h1, h2, h3⟩, by rw [hr, hr]⟩

end CG.Strip
