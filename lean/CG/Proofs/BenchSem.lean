/- C15 helper: what follows from the structural description `Built` — interface, fan-in, gate equations, flops -/
import CG.Proofs.BenchBuild
import CG.Proofs.LimitGate
set_option linter.unusedSimpArgs false
set_option linter.unusedVariables false
namespace CG
namespace BenchP
open Circuit Ternary Bench

theorem eq_singleton_of {l : List Name} {a : Name} (hnd : l.Nodup) (h : ∀ u, u ∈ l ↔ u = a) : l = [a] := by
  have hp : l.Perm [a] := (List.perm_ext_iff_of_nodup hnd (by simp)).mpr (by simpa using h)
  exact List.perm_singleton.mp hp

theorem eq_of_map_nodup {α β : Type} {f : α → β} {l : List α} (hnd : (l.map f).Nodup) {a b : α} (ha : a ∈ l)
    (hb : b ∈ l) (e : f a = f b) : a = b := by
  induction l with
  | nil => cases ha
  | cons x l ih =>
    simp only [List.map_cons, List.nodup_cons] at hnd
    rcases List.mem_cons.mp ha with h1 | h1 <;> rcases List.mem_cons.mp hb with h2 | h2
    · rw [h1, h2]
    · exfalso; apply hnd.1; rw [← h1, e]; exact List.mem_map.mpr ⟨b, h2, rfl⟩
    · exfalso; apply hnd.1; rw [← h2, ← e]; exact List.mem_map.mpr ⟨a, h1, rfl⟩
    · exact ih hnd.2 h1 h2

section
variable {D : List Def} {dffs : List (Name × Name)} {outs : List Name} {c : Circuit}

theorem Built.wf (h : Built D dffs outs c) : WF c := ⟨h.nodupN, h.nodupE, h.closed⟩

theorem Built.ty (h : Built D dffs outs c) {d : Def} (hd : d ∈ D) : c.ty? d.1 = some d.2.1 := by
  rw [ty_of_attr (h.attrD d hd)]

theorem Built.hasD (h : Built D dffs outs c) {d : Def} (hd : d ∈ D) : c.has d.1 = true :=
  has_of_attr' (h.attrD d hd)

/-- fan-in of a defined net that is not a flop output: its operands -/
theorem Built.fanin_mem (h : Built D dffs outs c) (hnd : (names D).Nodup) (hdot : ∀ x ∈ names D, ¬ hasDotB x)
    {d : Def} (hd : d ∈ D) (hq : d.1 ∉ dffs.map (·.1)) (u : Name) : u ∈ c.fanin d.1 ↔ u ∈ d.2.2 := by
  rw [mem_fanin, h.edges]
  constructor
  · rintro (⟨d', hd', h1, h2⟩ | ⟨d', hd', h1 | h1⟩)
    · have : d' = d := def_eq_of_name hnd hd' hd h1.symm
      rw [← this]; exact h2
    · exfalso
      have : d.1 = pinD d'.1 := (Prod.ext_iff.mp h1).2
      exact hdot d.1 (List.mem_map.mpr ⟨d, hd, rfl⟩) (by rw [this]; exact pinD_dot _)
    · exfalso
      have : d.1 = d'.1 := (Prod.ext_iff.mp h1).2
      exact hq (List.mem_map.mpr ⟨d', hd', this.symm⟩)
  · intro hu
    exact Or.inl ⟨d, hd, rfl, hu⟩

theorem Built.fanin_perm (h : Built D dffs outs c) (hnd : (names D).Nodup) (hdot : ∀ x ∈ names D, ¬ hasDotB x)
    {d : Def} (hd : d ∈ D) (hq : d.1 ∉ dffs.map (·.1)) (hops : d.2.2.Nodup) : (c.fanin d.1).Perm d.2.2 :=
  (List.perm_ext_iff_of_nodup (fanin_nodup h.nodupE _) hops).mpr (h.fanin_mem hnd hdot hd hq)

/-- every consistent valuation satisfies the gate equation stated on the declared operand list -/
theorem Built.gate_eq (h : Built D dffs outs c) (hnd : (names D).Nodup) (hdot : ∀ x ∈ names D, ¬ hasDotB x)
    {d : Def} (hd : d ∈ D) (hq : d.1 ∉ dffs.map (·.1)) (hops : d.2.2.Nodup) (v : Val) (hv : Consistent c v)
    (b : Bool) (hb : gateFn d.2.1 (d.2.2.map v) = some b) : v d.1 = b := by
  apply hv (d.1, _) (attr?_mem (h.attrD d hd)) d.2.1 rfl b
  rw [Limit.gateFn_perm_any d.2.1 ((h.fanin_perm hnd hdot hd hq hops).map v)]
  exact hb

/-- the same for a gate line whose operands may repeat: the node carries the parity-normalised definition, and its
    fan-in set computes the declared gate function of the declared operand list -/
theorem Built.gate_eq_norm (h : Built D dffs outs c) (hnd : (names D).Nodup) (hdot : ∀ x ∈ names D, ¬ hasDotB x)
    {g : Def} (hd : normDef g ∈ D) (hq : g.1 ∉ dffs.map (·.1)) (hty : g.2.1 ∈ gateTysP)
    (h1 : (g.2.1 = "buf" ∨ g.2.1 = "not") → g.2.2.length = 1) (v : Val) (hv : Consistent c v)
    (b : Bool) (hb : gateFn g.2.1 (g.2.2.map v) = some b) : v g.1 = b := by
  apply hv (g.1, _) (attr?_mem (h.attrD (normDef g) hd)) (normDef g).2.1 rfl b
  exact (parityGate_sem hty h1 v (fanin_nodup h.nodupE _) (h.fanin_mem hnd hdot hd hq)).trans hb

theorem Built.fanin_pinD (h : Built D dffs outs c) (hdot : ∀ x ∈ names D, ¬ hasDotB x)
    (hsub : ∀ d ∈ dffs, d.1 ∈ names D) (hnd : (dffs.map (·.1)).Nodup) {d : Name × Name} (hd : d ∈ dffs) :
    c.fanin (pinD d.1) = [d.2] := by
  apply eq_singleton_of (fanin_nodup h.nodupE _)
  intro u
  rw [mem_fanin, h.edges]
  constructor
  · rintro (⟨d', hd', h1, h2⟩ | ⟨d', hd', h1 | h1⟩)
    · exfalso
      exact hdot d'.1 (List.mem_map.mpr ⟨d', hd', rfl⟩) (by rw [← h1]; exact pinD_dot _)
    · obtain ⟨e1, e2⟩ := Prod.ext_iff.mp h1
      have e3 : d.1 = d'.1 := pinD_inj e2
      have : d = d' := by
        exact eq_of_map_nodup hnd hd hd' e3
      rw [this]; exact e1
    · exfalso
      have : pinD d.1 = d'.1 := (Prod.ext_iff.mp h1).2
      exact hdot d'.1 (hsub d' hd') (by rw [← this]; exact pinD_dot _)
  · intro hu
    rw [hu]
    exact Or.inr ⟨d, hd, Or.inl rfl⟩

theorem Built.fanin_q (h : Built D dffs outs c) (hdot : ∀ x ∈ names D, ¬ hasDotB x) (hDnd : (names D).Nodup)
    (hsub : ∀ d ∈ dffs, (d.1, "buf", []) ∈ D) (hnd : (dffs.map (·.1)).Nodup) {d : Name × Name} (hd : d ∈ dffs) :
    c.fanin d.1 = [pinQ d.1] := by
  apply eq_singleton_of (fanin_nodup h.nodupE _)
  intro u
  rw [mem_fanin, h.edges]
  constructor
  · rintro (⟨d', hd', h1, h2⟩ | ⟨d', hd', h1 | h1⟩)
    · exfalso
      have : d' = (d.1, "buf", []) := def_eq_of_name hDnd hd' (hsub d hd) h1.symm
      rw [this] at h2; cases h2
    · exfalso
      have : d.1 = pinD d'.1 := (Prod.ext_iff.mp h1).2
      exact hdot d.1 (List.mem_map.mpr ⟨_, hsub d hd, rfl⟩) (by rw [this]; exact pinD_dot _)
    · obtain ⟨e1, e2⟩ := Prod.ext_iff.mp h1
      simp only at e1 e2
      rw [e1, e2]
  · intro hu
    rw [hu]
    exact Or.inr ⟨d, hd, Or.inr rfl⟩

theorem Built.mem_outputs (h : Built D dffs outs c) (houts : ∀ x ∈ outs, x ∈ names D) (x : Name) :
    x ∈ c.outputs ↔ x ∈ outs := by
  constructor
  · intro hx
    have hh := mem_outputs_has hx
    rcases (h.has x).mp hh with h1 | ⟨d, hd, h1 | h1⟩
    · obtain ⟨d, hd, rfl⟩ := List.mem_map.mp h1
      have := (mem_outputs_of_mem h.nodupN (attr?_mem (h.attrD d hd))).mp hx
      simpa using this
    · exfalso
      have := (mem_outputs_of_mem h.nodupN (attr?_mem (h1 ▸ (h.attrP d hd).1))).mp hx
      exact absurd this (by decide)
    · exfalso
      have := (mem_outputs_of_mem h.nodupN (attr?_mem (h1 ▸ (h.attrP d hd).2))).mp hx
      exact absurd this (by decide)
  · intro hx
    obtain ⟨d, hd, rfl⟩ := List.mem_map.mp (houts x hx)
    apply (mem_outputs_of_mem h.nodupN (attr?_mem (h.attrD d hd))).mpr
    simp [hx]

theorem Built.mem_inputs (h : Built D dffs outs c) (x : Name) :
    x ∈ c.inputs ↔ ∃ d ∈ D, d.1 = x ∧ d.2.1 = "input" := by
  rw [CG.mem_inputs h.nodupN]
  constructor
  · intro hx
    rcases (h.has x).mp (has_of_ty? hx) with h1 | ⟨d, hd, h1 | h1⟩
    · obtain ⟨d, hd, rfl⟩ := List.mem_map.mp h1
      rw [h.ty hd] at hx
      exact ⟨d, hd, rfl, Option.some.inj hx⟩
    · exfalso
      rw [h1, ty_of_attr (h.attrP d hd).1] at hx
      exact absurd hx (by decide)
    · exfalso
      rw [h1, ty_of_attr (h.attrP d hd).2] at hx
      exact absurd hx (by decide)
  · rintro ⟨d, hd, rfl, h2⟩
    rw [h.ty hd, h2]
end

section
variable {ins : List Name} {gates : List Def} {dffs : List (Name × Name)} {outs : List Name}

theorem WFP0.gate_not_dff (hw : WFP0 ins gates dffs outs) {g : Def} (hg : g ∈ gates) : g.1 ∉ dffs.map (·.1) := by
  intro hm
  have := (List.nodup_append.mp hw.defsNodup).2.2 g.1
    (List.mem_append.mpr (Or.inr (List.mem_map.mpr ⟨g, hg, rfl⟩))) g.1 hm
  exact this rfl

/-- the statement of `C15.build_sem`, over the proof-side copies of the definitions -/
theorem build_semP (name : String) (hw : WFP0 ins gates dffs outs) :
    ∃ c, build name (stmtsP ins gates dffs outs) = .ok c ∧
      (∀ x, x ∈ c.inputs ↔ x ∈ ins) ∧ (∀ x, x ∈ c.outputs ↔ x ∈ outs) ∧
      (∀ g ∈ gates, g.2.2.Nodup → c.ty? g.1 = some g.2.1 ∧ (c.fanin g.1).Perm g.2.2) ∧
      (∀ v, Consistent c v → ∀ g ∈ gates, ∀ b, gateFn g.2.1 (g.2.2.map v) = some b → v g.1 = b) ∧
      (∀ d ∈ dffs, c.bbs.lookup (d.1 ++ "_dff") = some dffBB ∧ c.ty? d.1 = some "buf" ∧
          c.fanin (d.1 ++ "_dff.D") = [d.2] ∧ c.fanin d.1 = [d.1 ++ "_dff.Q"]) := by
  obtain ⟨c, e, h⟩ := build_struct0 name hw
  have hndAll : (names (defsOf ins (gates.map normDef) dffs)).Nodup := by
    rw [names_defsOf_norm, ← List.append_assoc]; exact hw.defsNodup
  have hdot : ∀ x ∈ names (defsOf ins (gates.map normDef) dffs), ¬ hasDotB x :=
    fun x hx => (hw.names x (mem_names_defsOf_norm.mp hx)).2.2
  have hgD : ∀ g ∈ gates, normDef g ∈ defsOf ins (gates.map normDef) dffs := fun g hg => by
    unfold defsOf
    exact List.mem_append.mpr (Or.inr (List.mem_append.mpr (Or.inl (List.mem_map.mpr ⟨g, hg, rfl⟩))))
  have hdD : ∀ d ∈ dffs, ((d.1, "buf", []) : Def) ∈ defsOf ins (gates.map normDef) dffs := fun d hd => by
    unfold defsOf dffDefs
    simp only [List.mem_append, List.mem_map]
    exact Or.inr (Or.inr ⟨d, hd, rfl⟩)
  have hdnd : (dffs.map (·.1)).Nodup := (List.nodup_append.mp hw.defsNodup).2.1
  refine ⟨c, e, ?_, ?_, ?_, ?_, ?_⟩
  · intro x
    rw [h.mem_inputs]
    constructor
    · rintro ⟨d, hd, rfl, h2⟩
      unfold defsOf at hd
      rcases List.mem_append.mp hd with h1 | h1
      · obtain ⟨n, hn, rfl⟩ := List.mem_map.mp h1; exact hn
      · exfalso
        rcases List.mem_append.mp h1 with h1 | h1
        · obtain ⟨g, hg, rfl⟩ := List.mem_map.mp h1
          exact (normDef_facts (hw.gateTy g hg) (hw.gateArity g hg).2).2.2.1 h2
        · obtain ⟨n, hn, rfl⟩ := List.mem_map.mp h1
          exact absurd (show "buf" = "input" from h2) (by decide)
    · intro hx
      refine ⟨(x, "input", []), ?_, rfl, rfl⟩
      unfold defsOf insDefs
      simp only [List.mem_append, List.mem_map]
      exact Or.inl ⟨x, hx, rfl⟩
  · exact h.mem_outputs (fun x hx => mem_names_defsOf_norm.mpr (hw.outsDef x hx))
  · intro g hg hops
    have hgD' := hgD g hg
    rw [normDef_nodup hops] at hgD'
    exact ⟨h.ty hgD', h.fanin_perm hndAll hdot hgD' (hw.gate_not_dff hg) hops⟩
  · intro v hv g hg b hb
    exact h.gate_eq_norm hndAll hdot (hgD g hg) (hw.gate_not_dff hg) (hw.gateTy g hg) (hw.gateArity g hg).2 v hv b hb
  · intro d hd
    refine ⟨h.bbsP d hd, h.ty (hdD d hd), ?_, ?_⟩
    · exact h.fanin_pinD hdot (fun d' hd' => List.mem_map.mpr ⟨_, hdD d' hd', rfl⟩) hdnd hd
    · exact h.fanin_q hdot hndAll hdD hdnd hd
end

end BenchP
end CG
