/-
  CG.Tx — transforms of tx.py, following the code line by line (order of operations, `uid`
  naming, exception class).  Every Python `set` iteration goes through `ord`.
-/
import CG.Ops
namespace CG

abbrev E := Except Outcome

def liftO (r : Circuit × Outcome) : E Circuit :=
  match r with
  | (c, .ok) => .ok c
  | (_, o) => .error o

def addE (c : Circuit) (a : Circuit.AddArgs) : E (Circuit × Name) :=
  match c.add a with
  | (c', .ok, n) => .ok (c', n)
  | (_, o, _) => .error o

def uidE (c : Circuit) (n : Name) : E Name :=
  match c.uid n with
  | some r => .ok r
  | none => .error .fuel

namespace Tx

/-- `c.copy()` -/
def copy (c : Circuit) : Circuit := c

def stripIO (c : Circuit) : Circuit :=
  let c1 := c.inputs.foldl (fun acc n => acc.setTyRaw n "buf") c
  c.outputs.foldl (fun acc n => acc.setOutRaw n false) c1

def stripOutputs (c : Circuit) : Circuit := c.outputs.foldl (fun acc n => acc.setOutRaw n false) c

def stripInputs (c : Circuit) : Circuit := c.inputs.foldl (fun acc n => acc.setTyRaw n "buf") c

/-- text after the last '.' -/
def lastDot (n : Name) : Name :=
  String.ofList ((n.toList.reverse.takeWhile (· != '.')).reverse)

def replaceDots (n : Name) : Name := String.ofList (n.toList.map (fun ch => if ch == '.' then '_' else ch))

/-- `tx.strip_blackboxes(c, ignore_pins)`; `ord` enumerates the `filter_type` sets -/
def stripBlackboxes (c : Circuit) (ignore : List Name) (ord : Ord) : E Circuit := do
  if c.nodes.any (fun p => p.2.ty.isNone) then throw .keyError
  let step (want : String) (acc : Circuit × List Name) (n : Name) : Circuit × List Name :=
    if ignore.contains (lastDot n) then (acc.1.removeNode n, acc.2)
    else if want == "bb_input" then ((acc.1.setTyRaw n "buf").setOutRaw n true, acc.2 ++ [n])
    else (acc.1.setTyRaw n "input", acc.2 ++ [n])
  let (g1, pins1) := (ord (c.filterType ["bb_input"])).foldl (step "bb_input") (c, [])
  let (g2, pins) := (ord (c.filterType ["bb_output"])).foldl (step "bb_output") (g1, pins1)
  let mapping := pins.map (fun n => (n, replaceDots n))
  -- the new names must be free in the graph and pairwise distinct (fix K32)
  if mapping.any (fun p => g2.has p.2) || (dedup (mapping.map (·.2))).length < mapping.length then throw .valueError
  pure { (g2.relabel mapping) with bbs := [] }

/-- `tx.subcircuit(c, nodes, modify_io)`; `nodes` in the caller's iteration order, `ord` for `c.edges()` -/
def subcircuit (c : Circuit) (nodes : List Name) (modifyIO : Bool) (ordE : List (Name × Name) → List (Name × Name)) :
    E Circuit := do
  let mut sc : Circuit := {}
  for node in nodes do
    match c.attr? node with
    | none => throw .keyError
    | some a =>
      match a.ty with
      | none => throw .keyError
      | some t =>
        if (T.subcircuitL 0).contains t then throw .notImplemented
        let (sc', _) ← addE sc { n := node, ty := t, output := a.out.getD false }
        sc := sc'
  for e in ordE c.edges do
    if nodes.contains e.1 && nodes.contains e.2 then
      sc ← liftO (sc.connect [e.1] [e.2])
  if modifyIO then
    for node in sc.nodeNames do
      match sc.ty? node with
      | none => throw .keyError
      | some t =>
        if !(T.subcircuitL 1).contains t && (sc.fanin node).isEmpty then
          sc ← liftO (sc.setType [node] "input")
      if (sc.fanout node).isEmpty then
        sc ← liftO (sc.setOutput [node] true)
  pure sc

def gatemapLookup (t : String) : Option String := T.gatemap.lookup t

/-- inner `while len(ck.fanin(n)) > k` loop of `limit_fanin` -/
def limitFaninNode (k : Nat) (ord : Ord) (n : Name) : Nat → Nat → Circuit → E Circuit
  | 0, _, _ => .error .fuel
  | fuel + 1, i, ck =>
    if (ck.fanin n).length > k then
      match ord (ck.fanin n) with
      | f0 :: f1 :: _ =>
        let ck1 := ck.disconnect [f0, f1] [n]
        match ck1.ty? n with
        | none => .error .keyError
        | some t =>
          match gatemapLookup t with
          | none => .error .keyError
          | some gt =>
            match addE ck1 { n := n ++ "_limit_fanin_" ++ toString i, ty := gt, fanin := [f0, f1], fanout := [n], uid := true } with
            | .error e => .error e
            | .ok (ck2, _) => limitFaninNode k ord n fuel (i + 1) ck2
      | _ => .error (.other "impossible")
    else .ok ck

def limitFanin (c : Circuit) (k : Nat) (ord : Ord) : E Circuit :=
  if k < 2 then .error .valueError else
  (ord c.nodeNames).foldlM (fun ck n => limitFaninNode k ord n (ck.edges.length + 2) 0 ck) c

def limitFanoutNode (k : Nat) (ord : Ord) (n : Name) : Nat → Nat → Circuit → E Circuit
  | 0, _, _ => .error .fuel
  | fuel + 1, i, ck =>
    if (ck.fanout n).length > k then
      match ord (ck.fanout n) with
      | f0 :: f1 :: _ =>
        let ck1 := ck.disconnect [n] [f0, f1]
        match addE ck1 { n := n ++ "_limit_fanout_" ++ toString i, ty := "buf", fanin := [n], fanout := [f0, f1], uid := true } with
        | .error e => .error e
        | .ok (ck2, _) => limitFanoutNode k ord n fuel (i + 1) ck2
      | _ => .error (.other "impossible")
    else .ok ck

def limitFanout (c : Circuit) (k : Nat) (ord : Ord) : E Circuit :=
  if k < 2 then .error .valueError else
  (ord c.nodeNames).foldlM (fun ck n => limitFanoutNode k ord n (ck.edges.length + 2) 0 ck) c

def inter (a b : List Name) : List Name := a.filter b.contains

/-- add and keep only the circuit -/
def addC (c : Circuit) (a : Circuit.AddArgs) : E Circuit := (addE c a).map (·.1)

def miterTie (m : Circuit) (sp : List Name) : E Circuit :=
  sp.foldlM (fun m n => addC m { n := n, ty := "input", fanout := ["c0_" ++ n, "c1_" ++ n] }) m

def miterCompare (m : Circuit) (ep : List Name) : E Circuit :=
  ep.foldlM (fun m n => addC m { n := "dif_" ++ n, ty := "xor", fanin := ["c0_" ++ n, "c1_" ++ n], fanout := ["sat"] }) m

/-- `tx.miter(c0, c1, startpoints, endpoints)`; only `None` selects the default startpoints and endpoints (K51 repair); an empty `c1` is falsy as in Python -/
def miter (c0 : Circuit) (c1? : Option Circuit) (sp? ep? : Option (List Name)) (ord : Ord) : E Circuit :=
  if !c0.bbs.isEmpty then .error .valueError else
  -- `c1 and c1.blackboxes`: an empty circuit is falsy
  if (match c1? with | some c1 => !c1.nodes.isEmpty && !c1.bbs.isEmpty | none => false) then .error .valueError else
  let c1 := match c1? with
    | some c1 => if c1.nodes.isEmpty then c0 else c1
    | none => c0
  if c0.nodes.any (fun p => p.2.ty.isNone) || c1.nodes.any (fun p => p.2.ty.isNone) then .error .keyError else
  let sp := match sp? with
    | some l => l
    | none => ord (inter c0.startpointsAll c1.startpointsAll)
  let ep := match ep? with
    | some l => l
    | none => ord (inter c0.endpointsAll c1.endpointsAll)
  let m0 : Circuit := { name := "miter_" ++ c0.name ++ "_" ++ c1.name }
  liftO (m0.addSubcircuit c0 "c0" []) >>= fun m1 =>
  liftO (m1.addSubcircuit c1 "c1" []) >>= fun m2 =>
  miterTie m2 sp >>= fun m3 =>
  addC m3 { n := "sat", ty := if ep.isEmpty then "0" else if ep.length > 1 then "or" else "buf", output := true } >>= fun m4 =>
  miterCompare m4 ep

/-- the companion-name table of `ternary`: `{n: c.uid(f"{n}_X") for n in c}` -/
def ternaryMapping (c : Circuit) : E (List (Name × Name)) :=
  c.nodeNames.mapM (fun n => (uidE c (n ++ "_X")).map (fun x => (n, x)))

/-- the helper gates of one and/nand (or/nor) operand -/
def ternaryIs0 (mp : Name → Name) (z : Name) (t : Circuit) (p : Name) : E Circuit :=
  addC t { n := p ++ "_is_0", ty := "nor", fanout := [z], fanin := [p, mp p], uid := true }

def ternaryIs1 (mp : Name → Name) (o : Name) (t : Circuit) (p : Name) : E Circuit :=
  addE t { n := p ++ "_is_1", ty := "and", fanout := [o], fanin := [p], uid := true } >>= fun r =>
  addC r.1 { n := p ++ "_not_x", ty := "not", fanout := [r.2], fanin := [mp p], uid := true }

/-- the body of `ternary`'s main loop for node `n` -/
def ternaryNode (c : Circuit) (ord : Ord) (mp : Name → Name) (t : Circuit) (n : Name) : E Circuit :=
  match c.ty? n with
  | none => .error .keyError
  | some ty =>
    let fi := ord (c.fanin n)
    let isOut := c.isOut n
    if (T.ternaryL 0).contains ty then
      addC t { n := mp n, ty := "and", output := isOut, allowRedef := true } >>= fun t1 =>
      addC t1 { n := n ++ "_x_in_fi", ty := "or", fanout := [mp n], fanin := fi.map mp, uid := true, addConnected := true } >>= fun t2 =>
      addE t2 { n := n ++ "_0_not_in_fi", ty := "nor", fanout := [mp n], uid := true } >>= fun r =>
      fi.foldlM (ternaryIs0 mp r.2) r.1
    else if (T.ternaryL 1).contains ty then
      addC t { n := mp n, ty := "and", output := isOut, allowRedef := true } >>= fun t1 =>
      addC t1 { n := n ++ "_x_in_fi", ty := "or", fanout := [mp n], fanin := fi.map mp, uid := true, addConnected := true } >>= fun t2 =>
      addE t2 { n := n ++ "_1_not_in_fi", ty := "nor", fanout := [mp n], uid := true } >>= fun r =>
      fi.foldlM (ternaryIs1 mp r.2) r.1
    else if (T.ternaryL 2).contains ty then
      match fi with
      | [] => .error .keyError
      | p :: _ => addC t { n := mp n, ty := "buf", fanin := [mp p], output := isOut, addConnected := true, allowRedef := true }
    else if (T.ternaryL 3).contains ty then
      addC t { n := mp n, ty := "or", fanin := fi.map mp, output := isOut, addConnected := true, allowRedef := true }
    else if (T.ternaryL 4).contains ty then
      addC t { n := mp n, ty := "0", output := isOut, allowRedef := true }
    else if (T.ternaryL 5).contains ty then
      addC t { n := mp n, ty := "input", allowRedef := true }
    else .error .valueError

/-- `tx.ternary(c)`: returns the encoded circuit and the mapping (in graph order) -/
def ternary (c : Circuit) (ord : Ord) : E (Circuit × List (Name × Name)) :=
  if !c.bbs.isEmpty then .error .valueError else
  ternaryMapping c >>= fun mapping =>
  let mp := fun n => (mapping.lookup n).getD ""
  c.nodeNames.foldlM (ternaryNode c ord mp) c >>= fun t => pure (t, mapping)

/-- state of `unroll`'s loop: the unrolled circuit and the io map -/
abbrev UState := Circuit × List (Name × List Name)

def ioName (ioMap : List (Name × List Name)) (x : Name) (t : Nat) : Name := ((ioMap.lookup x).getD []).getD t ""

/-- creation of the per-step io node for `x` -/
def unrollIO (c : Circuit) (stateIO : List (Name × Name)) (pfx : String) (itr : Nat) (s : UState) (x : Name) : E UState :=
  uidE c (x ++ "_" ++ pfx ++ "_" ++ toString itr) >>= fun newIO =>
  -- only state *inputs* are forced to buffers; a state output that is itself a primary input stays an input (fix K33)
  let t := if stateIO.any (fun p => p.2 == x) then "buf"
           else if c.inputs.contains x then "input" else "buf"
  addC s.1 { n := newIO, ty := t, output := c.isOut x } >>= fun uc =>
  pure (uc, s.2.map (fun p => if p.1 == x then (p.1, p.2 ++ [newIO]) else p))

/-- one iteration of `unroll`'s outer loop -/
def unrollStep (c : Circuit) (io : List Name) (stateIO : List (Name × Name)) (pfx : String) (s : UState) (itr : Nat) :
    E UState :=
  io.foldlM (unrollIO c stateIO pfx itr) s >>= fun s1 =>
  let nm := ioName s1.2
  liftO (s1.1.addSubcircuit c ("unrolled_" ++ toString itr) (io.map (fun x => (x, [nm x itr])))) >>= fun uc =>
  (if itr == 0 then
    stateIO.foldlM (fun uc p => liftO (uc.setType [nm p.2 0] "input")) uc
  else
    stateIO.foldlM (fun uc p => liftO (uc.connect [nm p.1 (itr - 1)] [nm p.2 itr])) uc) >>= fun uc' =>
  pure (uc', s1.2)

/-- `tx.unroll(c, n, state_io, prefix)`: returns the unrolled circuit and the io map (io in `ord` order) -/
def unroll (c : Circuit) (n : Nat) (stateIO : List (Name × Name)) (pfx : String) (ord : Ord) : E UState :=
  if !c.bbs.isEmpty then .error .valueError else
  if n < 1 then .error .valueError else
  if c.nodes.any (fun p => p.2.ty.isNone) then .error .keyError else
  let io := ord c.io
  if stateIO.any (fun p => !io.contains p.1 || !io.contains p.2) then .error .valueError else
  (List.range n).foldlM (unrollStep c io stateIO pfx) ({}, io.map (fun x => (x, [])))

end Tx
end CG
