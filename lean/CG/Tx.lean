/-
  CG.Tx — transforms of tx.py, following the code line by line (order of operations, `uid`
  naming, exception class).  Every Python `set` iteration goes through `ord`.
-/
import CG.Ops
namespace CG

abbrev E := Except Outcome

def liftO (r : Circuit × Outcome) : E Circuit :=
  match r with
  | (c, .ok) => .ok c
  | (_, o) => .error o

def addE (c : Circuit) (a : Circuit.AddArgs) : E (Circuit × Name) :=
  match c.add a with
  | (c', .ok, n) => .ok (c', n)
  | (_, o, _) => .error o

def uidE (c : Circuit) (n : Name) : E Name :=
  match c.uid n with
  | some r => .ok r
  | none => .error .fuel

namespace Tx

/-- `c.copy()` -/
def copy (c : Circuit) : Circuit := c

def stripIO (c : Circuit) : Circuit :=
  let c1 := c.inputs.foldl (fun acc n => acc.setTyRaw n "buf") c
  c.outputs.foldl (fun acc n => acc.setOutRaw n false) c1

def stripOutputs (c : Circuit) : Circuit := c.outputs.foldl (fun acc n => acc.setOutRaw n false) c

def stripInputs (c : Circuit) : Circuit := c.inputs.foldl (fun acc n => acc.setTyRaw n "buf") c

/-- text after the last '.' -/
def lastDot (n : Name) : Name :=
  String.ofList ((n.toList.reverse.takeWhile (· != '.')).reverse)

def replaceDots (n : Name) : Name := String.ofList (n.toList.map (fun ch => if ch == '.' then '_' else ch))

/-- `tx.strip_blackboxes(c, ignore_pins)`; `ord` enumerates the `filter_type` sets -/
def stripBlackboxes (c : Circuit) (ignore : List Name) (ord : Ord) : E Circuit := do
  if c.nodes.any (fun p => p.2.ty.isNone) then throw .keyError
  let step (want : String) (acc : Circuit × List Name) (n : Name) : Circuit × List Name :=
    if ignore.contains (lastDot n) then (acc.1.removeNode n, acc.2)
    else if want == "bb_input" then ((acc.1.setTyRaw n "buf").setOutRaw n true, acc.2 ++ [n])
    else (acc.1.setTyRaw n "input", acc.2 ++ [n])
  let (g1, pins1) := (ord (c.filterType ["bb_input"])).foldl (step "bb_input") (c, [])
  let (g2, pins) := (ord (c.filterType ["bb_output"])).foldl (step "bb_output") (g1, pins1)
  let mapping := pins.map (fun n => (n, replaceDots n))
  if mapping.any (fun p => g2.has p.2) then throw .valueError
  pure { (g2.relabel mapping) with bbs := [] }

/-- `tx.subcircuit(c, nodes, modify_io)`; `nodes` in the caller's iteration order, `ord` for `c.edges()` -/
def subcircuit (c : Circuit) (nodes : List Name) (modifyIO : Bool) (ordE : List (Name × Name) → List (Name × Name)) :
    E Circuit := do
  let mut sc : Circuit := {}
  for node in nodes do
    match c.attr? node with
    | none => throw .keyError
    | some a =>
      match a.ty with
      | none => throw .keyError
      | some t =>
        if (T.subcircuitL 0).contains t then throw .notImplemented
        let (sc', _) ← addE sc { n := node, ty := t, output := a.out.getD false }
        sc := sc'
  for e in ordE c.edges do
    if nodes.contains e.1 && nodes.contains e.2 then
      sc ← liftO (sc.connect [e.1] [e.2])
  if modifyIO then
    for node in sc.nodeNames do
      match sc.ty? node with
      | none => throw .keyError
      | some t =>
        if !(T.subcircuitL 1).contains t && (sc.fanin node).isEmpty then
          sc ← liftO (sc.setType [node] "input")
      if (sc.fanout node).isEmpty then
        sc ← liftO (sc.setOutput [node] true)
  pure sc

def gatemapLookup (t : String) : Option String := T.gatemap.lookup t

/-- inner `while len(ck.fanin(n)) > k` loop of `limit_fanin` -/
def limitFaninNode (k : Nat) (ord : Ord) (n : Name) : Nat → Nat → Circuit → E Circuit
  | 0, _, _ => .error .fuel
  | fuel + 1, i, ck =>
    if (ck.fanin n).length > k then
      match ord (ck.fanin n) with
      | f0 :: f1 :: _ =>
        let ck1 := ck.disconnect [f0, f1] [n]
        match ck1.ty? n with
        | none => .error .keyError
        | some t =>
          match gatemapLookup t with
          | none => .error .keyError
          | some gt =>
            match addE ck1 { n := n ++ "_limit_fanin_" ++ toString i, ty := gt, fanin := [f0, f1], fanout := [n], uid := true } with
            | .error e => .error e
            | .ok (ck2, _) => limitFaninNode k ord n fuel (i + 1) ck2
      | _ => .error (.other "impossible")
    else .ok ck

def limitFanin (c : Circuit) (k : Nat) (ord : Ord) : E Circuit :=
  if k < 2 then .error .valueError else
  (ord c.nodeNames).foldlM (fun ck n => limitFaninNode k ord n (ck.edges.length + 2) 0 ck) c

def limitFanoutNode (k : Nat) (ord : Ord) (n : Name) : Nat → Nat → Circuit → E Circuit
  | 0, _, _ => .error .fuel
  | fuel + 1, i, ck =>
    if (ck.fanout n).length > k then
      match ord (ck.fanout n) with
      | f0 :: f1 :: _ =>
        let ck1 := ck.disconnect [n] [f0, f1]
        match addE ck1 { n := n ++ "_limit_fanout_" ++ toString i, ty := "buf", fanin := [n], fanout := [f0, f1], uid := true } with
        | .error e => .error e
        | .ok (ck2, _) => limitFanoutNode k ord n fuel (i + 1) ck2
      | _ => .error (.other "impossible")
    else .ok ck

def limitFanout (c : Circuit) (k : Nat) (ord : Ord) : E Circuit :=
  if k < 2 then .error .valueError else
  (ord c.nodeNames).foldlM (fun ck n => limitFanoutNode k ord n (ck.edges.length + 2) 0 ck) c

def inter (a b : List Name) : List Name := a.filter b.contains

/-- `tx.miter(c0, c1, startpoints, endpoints)`; `none`/empty arguments are falsy as in Python -/
def miter (c0 : Circuit) (c1? : Option Circuit) (sp? ep? : Option (List Name)) (ord : Ord) : E Circuit := do
  if !c0.bbs.isEmpty then throw .valueError
  -- `c1 and c1.blackboxes`: an empty circuit is falsy
  match c1? with
  | some c1 => if !c1.nodes.isEmpty && !c1.bbs.isEmpty then throw .valueError
  | none => pure ()
  let c1 := match c1? with
    | some c1 => if c1.nodes.isEmpty then c0 else c1
    | none => c0
  if c0.nodes.any (fun p => p.2.ty.isNone) || c1.nodes.any (fun p => p.2.ty.isNone) then throw .keyError
  let sp := match sp? with
    | some l => if l.isEmpty then ord (inter c0.startpointsAll c1.startpointsAll) else l
    | none => ord (inter c0.startpointsAll c1.startpointsAll)
  let ep := match ep? with
    | some l => if l.isEmpty then ord (inter c0.endpointsAll c1.endpointsAll) else l
    | none => ord (inter c0.endpointsAll c1.endpointsAll)
  let m0 : Circuit := { name := "miter_" ++ c0.name ++ "_" ++ c1.name }
  let m1 ← liftO (m0.addSubcircuit c0 "c0" [])
  let mut m ← liftO (m1.addSubcircuit c1 "c1" [])
  for n in sp do
    let (m', _) ← addE m { n := n, ty := "input", fanout := ["c0_" ++ n, "c1_" ++ n] }
    m := m'
  let (m', _) ← addE m { n := "sat", ty := if ep.isEmpty then "0" else if ep.length > 1 then "or" else "buf",
                         output := true }
  m := m'
  for n in ep do
    let (m', _) ← addE m { n := "dif_" ++ n, ty := "xor", fanin := ["c0_" ++ n, "c1_" ++ n], fanout := ["sat"] }
    m := m'
  pure m

/-- `tx.ternary(c)`: returns the encoded circuit and the mapping (in graph order) -/
def ternary (c : Circuit) (ord : Ord) : E (Circuit × List (Name × Name)) := do
  if !c.bbs.isEmpty then throw .valueError
  let mut mapping : List (Name × Name) := []
  for n in c.nodeNames do
    mapping := mapping ++ [(n, ← uidE c (n ++ "_X"))]
  let mp := fun n => (mapping.lookup n).getD ""
  let mut t := c
  for n in c.nodeNames do
    match c.ty? n with
    | none => throw .keyError
    | some ty =>
      let fi := ord (c.fanin n)
      let isOut := c.isOut n
      if (T.ternaryL 0).contains ty then
        let (t1, _) ← addE t { n := mp n, ty := "and", output := isOut, allowRedef := true }
        let (t2, _) ← addE t1 { n := n ++ "_x_in_fi", ty := "or", fanout := [mp n], fanin := fi.map mp,
                                 uid := true, addConnected := true }
        let (t3, z) ← addE t2 { n := n ++ "_0_not_in_fi", ty := "nor", fanout := [mp n], uid := true }
        t := t3
        for p in fi do
          let (t', _) ← addE t { n := p ++ "_is_0", ty := "nor", fanout := [z], fanin := [p, mp p], uid := true }
          t := t'
      else if (T.ternaryL 1).contains ty then
        let (t1, _) ← addE t { n := mp n, ty := "and", output := isOut, allowRedef := true }
        let (t2, _) ← addE t1 { n := n ++ "_x_in_fi", ty := "or", fanout := [mp n], fanin := fi.map mp,
                                 uid := true, addConnected := true }
        let (t3, o) ← addE t2 { n := n ++ "_1_not_in_fi", ty := "nor", fanout := [mp n], uid := true }
        t := t3
        for p in fi do
          let (t', is1) ← addE t { n := p ++ "_is_1", ty := "and", fanout := [o], fanin := [p], uid := true }
          let (t'', _) ← addE t' { n := p ++ "_not_x", ty := "not", fanout := [is1], fanin := [mp p], uid := true }
          t := t''
      else if (T.ternaryL 2).contains ty then
        match fi with
        | [] => throw .keyError
        | p :: _ =>
          let (t1, _) ← addE t { n := mp n, ty := "buf", fanin := [mp p], output := isOut, addConnected := true,
                                  allowRedef := true }
          t := t1
      else if (T.ternaryL 3).contains ty then
        let (t1, _) ← addE t { n := mp n, ty := "or", fanin := fi.map mp, output := isOut, addConnected := true,
                                allowRedef := true }
        t := t1
      else if (T.ternaryL 4).contains ty then
        let (t1, _) ← addE t { n := mp n, ty := "0", output := isOut, allowRedef := true }
        t := t1
      else if (T.ternaryL 5).contains ty then
        let (t1, _) ← addE t { n := mp n, ty := "input", allowRedef := true }
        t := t1
      else throw .valueError
  pure (t, mapping)

/-- `tx.unroll(c, n, state_io, prefix)`: returns the unrolled circuit and the io map (io in `ord` order) -/
def unroll (c : Circuit) (n : Nat) (stateIO : List (Name × Name)) (pfx : String) (ord : Ord) :
    E (Circuit × List (Name × List Name)) := do
  if !c.bbs.isEmpty then throw .valueError
  if n < 1 then throw .valueError
  if c.nodes.any (fun p => p.2.ty.isNone) then throw .keyError
  let io := ord c.io
  for p in stateIO do
    if !io.contains p.1 then throw .valueError
    if !io.contains p.2 then throw .valueError
  let mut uc : Circuit := {}
  let mut ioMap : List (Name × List Name) := io.map (fun x => (x, []))
  for itr in List.range n do
    for x in io do
      let newIO ← uidE c (x ++ "_" ++ pfx ++ "_" ++ toString itr)
      let t := if stateIO.any (fun p => p.1 == x || p.2 == x) then "buf"
               else if c.inputs.contains x then "input" else "buf"
      let (uc', _) ← addE uc { n := newIO, ty := t, output := c.isOut x }
      uc := uc'
      ioMap := ioMap.map (fun p => if p.1 == x then (p.1, p.2 ++ [newIO]) else p)
    let nm := fun (x : Name) (t : Nat) => ((ioMap.lookup x).getD []).getD t ""
    uc ← liftO (uc.addSubcircuit c ("unrolled_" ++ toString itr) (io.map (fun x => (x, [nm x itr]))))
    if itr == 0 then
      for p in stateIO do
        uc ← liftO (uc.setType [nm p.2 0] "input")
    else
      for p in stateIO do
        uc ← liftO (uc.connect [nm p.1 (itr - 1)] [nm p.2 itr])
  pure (uc, ioMap)

end Tx
end CG
