/-
  CG.Own — ownership skeletons for C19 ("no function mutates or aliases its circuit arguments").

  A functional model cannot exhibit aliasing, so C19 is modelled on a heap.  Every public function of the library is
  transliterated by `tools/extract_own.py` (syntax-directed, no reasoning) into the small imperative IR below; the
  analysis `analyze` is a flow-sensitive abstract interpretation over {none < fresh < tainted} per variable
  (`tainted` = may share mutable cells with a circuit parameter); `wellOwned f` = no write through a tainted variable
  and no tainted return value.  Soundness w.r.t. a concrete cell/version heap semantics is proved in
  CG/Props/C19.lean.
-/
namespace CG
namespace Own

abbrev Var := String

inductive Rhs where
  | pure                              -- a value without mutable library state (str, int, bool, set/list of names, generator …)
  | alias (x : Var)                   -- `y = x`, `y = x.graph`, `y = x.blackboxes`: shares x's cells
  | fresh                             -- `Circuit()`, `x.copy()`, `x.graph.copy()`, `x.blackboxes.copy()`, `nx.relabel_nodes(g, m)`, `{}` …
  | build (parts : List Var)          -- `Circuit(graph=g, blackboxes=d)`: shares the cells of its parts
  | call (f : String) (args : List Var)   -- a library function, by its summary
deriving Repr, Inhabited, DecidableEq

inductive Stmt where
  | skip
  | assign (x : Var) (r : Rhs)
  | mutate (x : Var)                  -- any write through x (mutating method, item/attribute assignment)
  | exec (f : String) (args : List Var)   -- library call for effect only
  | seq (a b : Stmt)
  | ite (a b : Stmt)                  -- either branch (conditions are not interpreted)
  | loop (body : Stmt)                -- zero or more iterations
  | ret (r : Rhs)
  | raise
deriving Repr, Inhabited

structure Fn where
  name : String
  params : List Var                   -- the circuit-valued parameters (tainted on entry)
  body : Stmt
deriving Repr, Inhabited

/-- what a caller may assume of a callee -/
structure Summary where
  mutates : Bool                      -- may write to cells reachable from its arguments
  aliases : Bool                      -- its result may share cells with its arguments
deriving Repr, Inhabited, DecidableEq

inductive AVal where | none | fresh | tainted
deriving Repr, Inhabited, DecidableEq

def AVal.join : AVal → AVal → AVal
  | .tainted, _ => .tainted
  | _, .tainted => .tainted
  | .fresh, _ => .fresh
  | _, .fresh => .fresh
  | .none, .none => .none

abbrev AEnv := List (Var × AVal)

def AEnv.get (e : AEnv) (x : Var) : AVal := (e.lookup x).getD .none
def AEnv.set (e : AEnv) (x : Var) (v : AVal) : AEnv := (x, v) :: e.filter (fun p => p.1 != x)

def dedupV : List Var → List Var
  | [] => []
  | x :: xs => x :: (dedupV xs).filter (fun y => !(y == x))

def vars (a b : AEnv) : List Var := dedupV (a.map (·.1) ++ b.map (·.1))
def AEnv.join (a b : AEnv) : AEnv := (vars a b).map (fun x => (x, (a.get x).join (b.get x)))
def AEnv.le (a b : AEnv) : Bool := (vars a b).all (fun x => (a.get x).join (b.get x) == b.get x)

abbrev Sums := List (String × Summary)

/-- an unknown callee is assumed to do anything -/
def sumOf (s : Sums) (f : String) : Summary := (s.lookup f).getD { mutates := true, aliases := true }

def anyTainted (e : AEnv) (xs : List Var) : Bool := xs.any (fun x => e.get x == .tainted)

def aRhs (s : Sums) (e : AEnv) : Rhs → AVal
  | .pure => .none
  | .alias x => e.get x
  | .fresh => .fresh
  | .build parts => if anyTainted e parts then .tainted else .fresh
  | .call f args => if (sumOf s f).aliases && anyTainted e args then .tainted else .fresh

/-- result of analysing a statement: the environments with which control may leave it normally, whether a write
    through a tainted variable may happen, whether a tainted value may be returned -/
structure ARes where
  env : AEnv
  mutates : Bool := false
  aliases : Bool := false
deriving Repr, Inhabited

def callMutates (s : Sums) (e : AEnv) (f : String) (args : List Var) : Bool := (sumOf s f).mutates && anyTainted e args

def rhsMutates (s : Sums) (e : AEnv) : Rhs → Bool
  | .call f args => callMutates s e f args
  | _ => false

/-- fixpoint iteration for a loop whose body analysis is `step` -/
def iterLoop (step : AEnv → ARes) : Nat → AEnv → Bool → Bool → ARes
  | 0, cur, _, a => { env := cur, mutates := true, aliases := a }     -- no fixpoint within the fuel: give up (never accept)
  | k + 1, cur, m, a =>
    let r := step cur
    let nxt := cur.join r.env
    if nxt.le cur then { env := cur, mutates := m || r.mutates, aliases := a || r.aliases }
    else iterLoop step k nxt (m || r.mutates) (a || r.aliases)

/-- abstract interpretation; `fuel` bounds the fixpoint iteration of loops (2·#vars + 2 always suffices) -/
def analyze (s : Sums) (fuel : Nat) (st : Stmt) (e : AEnv) : ARes :=
  match st with
  | .skip => { env := e }
  | .assign x r => { env := e.set x (aRhs s e r), mutates := rhsMutates s e r }
  | .mutate x => { env := e, mutates := e.get x == .tainted }
  | .exec f args => { env := e, mutates := callMutates s e f args }
  | .seq a b =>
    let ra := analyze s fuel a e
    let rb := analyze s fuel b ra.env
    { env := rb.env, mutates := ra.mutates || rb.mutates, aliases := ra.aliases || rb.aliases }
  | .ite a b =>
    let ra := analyze s fuel a e
    let rb := analyze s fuel b e
    { env := ra.env.join rb.env, mutates := ra.mutates || rb.mutates, aliases := ra.aliases || rb.aliases }
  | .loop body => iterLoop (fun cur => analyze s fuel body cur) fuel e false false
  | .ret r => { env := e, mutates := rhsMutates s e r, aliases := aRhs s e r == .tainted }
  | .raise => { env := e }
termination_by structural st

def entryEnv (f : Fn) : AEnv := f.params.map (fun p => (p, AVal.tainted))

def stmtVars : Stmt → List Var
  | .assign x _ => [x]
  | .seq a b | .ite a b => stmtVars a ++ stmtVars b
  | .loop b => stmtVars b
  | _ => []

def summarize (s : Sums) (f : Fn) : Summary :=
  let r := analyze s (2 * ((dedupV (stmtVars f.body)).length + f.params.length) + 2) f.body (entryEnv f)
  { mutates := r.mutates, aliases := r.aliases }

/-- the function neither writes through nor returns anything that may share cells with its circuit arguments -/
def wellOwned (s : Sums) (f : Fn) : Bool := !(summarize s f).mutates && !(summarize s f).aliases

/-- analyse the functions in the given (dependency) order, each against the summaries of the earlier ones -/
def summaries : List Fn → Sums → Sums
  | [], acc => acc
  | f :: fs, acc => summaries fs (acc ++ [(f.name, summarize acc f)])

def allWellOwned (fs : List Fn) : Bool := (summaries fs []).all (fun p => !p.2.mutates && !p.2.aliases)

def offenders (fs : List Fn) : List String :=
  ((summaries fs []).filter (fun p => p.2.mutates || p.2.aliases)).map (·.1)

end Own
end CG
