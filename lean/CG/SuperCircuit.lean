/-
  CG.SuperCircuit — the `construct_supercircuit=True` branch of `tx.supergates`, as coded: a new circuit holding the primary
  inputs, the outputs (as buffers unless they are inputs) and, for every minimal supergate with at least one internal node, a
  blackbox instance `sg_<head>` whose pins are wired to nets named like the supergate's inputs and head.
  The order in which Python visits the supergates (a dict filled from a set of Circuit objects, i.e. `id()` order) and the
  members of `supergate.io()` only affects the ORDER of nodes and edges of the result, which is compared as a set.
-/
import CG.SupergatesAlgo
namespace CG
namespace Supergates
open Tx (addC)

/-- `supergate.io()` in iteration order -/
def sgIO (sg : Circuit) (ord : Ord) : List Name := ord (dedup (sg.inputs ++ sg.outputs))

/-- one iteration of the loop over `minimal_supergate_circuits.items()` -/
def superStep (ord : Ord) (s : Circuit) (p : Found × Circuit) : E Circuit :=
  let sg := p.2
  if (internal sg).isEmpty then pure s else
  let sgName := "sg_" ++ p.1.head
  let bb : BBox := { name := sgName, ins := sg.inputs, outs := [p.1.head] }
  let io := sgIO sg ord
  io.foldlM (fun (s : Circuit) n => if s.has n then pure s else addC s { n := n, ty := "buf" }) s >>= fun s =>
  liftO (s.addBlackbox bb sgName (io.map (fun i => (i, [i]))) ord)

/-- the super-circuit built from the fan-in-limited circuit `c2` and its minimal supergates `ms` (in visiting order) -/
def superCircuit (c2 : Circuit) (ord : Ord) (ms : List (Found × Circuit)) : E Circuit :=
  (ord c2.inputs).foldlM (fun (s : Circuit) i => addC s { n := i, ty := "input" }) ({ name := c2.name ++ "_supergates" } : Circuit) >>= fun s =>
  (ord c2.outputs).foldlM (fun (s : Circuit) o =>
      if s.has o then liftO (s.setOutput [o] true) else addC s { n := o, ty := "buf", output := true }) s >>= fun s =>
  ms.foldlM (superStep ord) s

/-- `tx.supergates(c, construct_supercircuit=True)`: the super-circuit and the map instance name ↦ supergate -/
def runSuper (c : Circuit) (ord : Ord) : E (Circuit × List (Name × Circuit)) :=
  if c.outputs.length > 1 then .error .valueError else
  if !c.bbs.isEmpty then .error .notImplemented else
  Tx.limitFanin c 2 ord >>= fun c2 =>
  let r := algo c2 (ord c2.outputs)
  superCircuit c2 ord r.sgs >>= fun s =>
  pure (s, (r.sgs.filter (fun p => !(internal p.2).isEmpty)).map (fun p => ("sg_" ++ p.1.head, p.2)))

/-- replacing every supergate blackbox of the super-circuit by its supergate -/
def fillAll (s : Circuit) (m : List (Name × Circuit)) (ord : Ord) : E Circuit :=
  m.foldlM (fun (s : Circuit) p => liftO (s.fillBlackbox p.1 p.2 ord)) s

end Supergates
end CG
