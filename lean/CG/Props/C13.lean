/-
  C13 — generated arithmetic blocks compute the arithmetic they name; bit helpers.
  Property theorems only; helper lemmas live in CG/Proofs/Arith*.lean.
-/
import CG.Logic
import CG.Spec
import CG.Props.C06
import CG.Proofs.Arith
namespace CG.C13
open Logic

def b2n (b : Bool) : Nat := if b then 1 else 0

/-- value of the bit vector `pre_0 … pre_{w-1}` (little endian) under a valuation -/
def bitsVal (v : Val) (pre : String) (w : Nat) : Nat :=
  (List.range w).foldl (fun acc i => acc + b2n (v (pre ++ toString i)) * 2 ^ i) 0

/-- number of true inputs `in_0 … in_{w-1}` -/
def onesCount (v : Val) (w : Nat) : Nat := ((List.range w).filter (fun i => v ("in_" ++ toString i))).length

/-- clog2(n) = ⌈log2 n⌉, and values below 1 are rejected -/
theorem clog2_spec (n : Nat) (h : 1 ≤ n) :
    ∃ k, clog2 n = .ok k ∧ n ≤ 2 ^ k ∧ (k = 0 ∨ 2 ^ (k - 1) < n) := by
  exact Arith.clog2_spec' n h

theorem clog2_rejects_zero : clog2 0 = .error .valueError := by
  rfl

/-- bin_to_int(int_to_bin(i, w, lend), lend) = i for every i < 2^w and both endiannesses, with exactly w bits -/
theorem bin_roundtrip (i w : Nat) (lend : Bool) (h : i < 2 ^ w) (hw : 1 ≤ w) :
    binToInt (intToBin i w lend) lend = i ∧ (intToBin i w lend).length = w := by
  exact ⟨Arith.bin_roundtrip_any' i w lend, Arith.length_intToBin i w lend h hw⟩

/-- `zfill` never truncates: the round trip holds for every i, whatever the requested width -/
theorem bin_roundtrip_any (i w : Nat) (lend : Bool) : binToInt (intToBin i w lend) lend = i := by
  exact Arith.bin_roundtrip_any' i w lend

theorem half_adder_correct :
    ∃ c, halfAdder = .ok c ∧ LintClean c ∧ c.inputs = ["x", "y"] ∧ c.outputs = ["c", "s"] ∧
      ∀ v, Consistent c v → v "s" = Bool.xor (v "x") (v "y") ∧ v "c" = (v "x" && v "y") := by
  exact ⟨Arith.HA, Arith.halfAdder_eq, Arith.HA_lint, by decide, by decide, Arith.HA_sem⟩

theorem full_adder_correct :
    ∃ c, fullAdder = .ok c ∧ LintClean c ∧ c.inputs = ["x", "y", "cin"] ∧ c.outputs = ["cout", "s"] ∧
      ∀ v, Consistent c v → b2n (v "s") + 2 * b2n (v "cout") = b2n (v "x") + b2n (v "y") + b2n (v "cin") := by
  exact ⟨Arith.FA, Arith.fullAdder_eq, Arith.FA_lint, by decide, by decide, Arith.FA_sem⟩

/-- **C13 (adder).** for every width and both carry options the ripple-carry adder is lint-clean and outputs
    a + b + cin modulo 2^w, with the carry-out bit when requested -/
theorem adder_correct (w : Nat) (ci co : Bool) :
    ∃ c, adder w ci co = .ok c ∧ LintClean c ∧
      (∀ x, x ∈ c.outputs ↔ ((∃ i, i < w ∧ x = "out_" ++ toString i) ∨ (co = true ∧ x = "cout"))) ∧
      (∀ x, x ∈ c.inputs ↔ ((∃ i, i < w ∧ (x = "a_" ++ toString i ∨ x = "b_" ++ toString i)) ∨ (ci = true ∧ x = "cin"))) ∧
      ∀ v, Consistent c v →
        let total := bitsVal v "a_" w + bitsVal v "b_" w + (if ci then b2n (v "cin") else 0)
        bitsVal v "out_" w = total % 2 ^ w ∧ (co = true → b2n (v "cout") = total / 2 ^ w) := by
  obtain ⟨c, hc, spec⟩ := Arith.adder_full w ci co
  exact ⟨c, hc, spec.lint, spec.outputs, spec.inputs, fun v hv => spec.sem v hv⟩

/-- **C13 (mux).** for every width ≥ 1: `out` = in_i where i is the value on the select lines, 0 when i ≥ w -/
theorem mux_correct (w : Nat) (hw : 1 ≤ w) :
    ∃ c k, clog2 w = .ok k ∧ mux w = .ok c ∧ LintClean c ∧ c.outputs = ["out"] ∧
      ∀ v, Consistent c v →
        let i := bitsVal v "sel_" k
        v "out" = (if i < w then v ("in_" ++ toString i) else false) := by
  obtain ⟨c, k, hk, hc, hl, ho, hs⟩ := Arith.mux_full w hw
  exact ⟨c, k, hk, hc, hl, ho, fun v hv => hs v hv⟩

/-- **C13 (popcount).** for every width ≥ 1 the outputs out_0 … out_{m-1} are the binary count of ones on the inputs -/
theorem popcount_correct (w : Nat) (hw : 1 ≤ w) :
    ∃ c m, popcount w = .ok c ∧ LintClean c ∧
      c.outputs = (List.range m).map (fun i => "out_" ++ toString i) ∧
      (∀ x, x ∈ c.inputs ↔ ∃ i, i < w ∧ x = "in_" ++ toString i) ∧
      ∀ v, Consistent c v → bitsVal v "out_" m = onesCount v w := by
  obtain ⟨c, m, hc, spec⟩ := Arith.popcount_full w hw
  exact ⟨c, m, hc, spec.lint, spec.outputs, spec.inputs, fun v hv => spec.sem v hv⟩

/-! non-vacuity / sanity: concrete instances evaluate -/
example : (adder 2 true true).toOption.map (fun c => c.nodes.length) = some 34 := by decide
example : (mux 3).toOption.map (fun c => c.nodes.length) = some 11 := by decide
example : (popcount 3).toOption.map (fun c => c.outputs) = some ["out_0", "out_1", "out_2"] := by decide +kernel

end CG.C13
