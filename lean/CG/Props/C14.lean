/-
  C14 — the fast Verilog parser agrees with the full parser on its documented subset.
  The theorem is at statement level: a netlist of the restricted subset is a list of statements (`RMod`); `toFParsed`
  is what the fast parser's regular expressions deliver for it and `toModule` what the grammar delivers; the theorem
  compares the two graph-assembly stages (`FastVerilog.assemble`, `Verilog.transform`) for every such netlist, every
  statement order and every set-iteration order.  The character level (CPython `re` on the extracted patterns vs
  CG/Regex.lean, lark vs CG/Verilog.lean's lexer/parser) is tied to the real code by differential testing: C14_partial.
  Property theorems only; helper lemmas live in CG/Proofs/Fast*.lean.
-/
import CG.FastVerilog
import CG.Verilog
import CG.Spec
import CG.Proofs.Fast
namespace CG.C14
open Verilog FastVerilog

/-- static tie: the regular expressions and the gate table of fast_verilog.py are the ones the model was written for -/
theorem tables_regex_fast : Generated.regex_fast = some Verilog.Expected.regex_fast := by rfl
theorem tables_primitive : Generated.primitive_gates = some CG.Expected.primitive_gates := by decide

/-- an operand of the restricted subset: a net or a 1-bit constant -/
inductive ROp where
  | net (n : Name)
  | c0
  | c1
deriving Repr, Inhabited, DecidableEq

/-- a statement of the restricted subset -/
inductive RStmt where
  | gate (ty inst out : Name) (ops : List ROp)                 -- `ty inst (out, ops...);`
  | assign (lhs : Name) (rhs : ROp)                            -- `assign lhs = rhs;`
  | bb (ty inst : Name) (pins : List (Name × Option ROp))      -- `ty inst (.p(x), .q());`
deriving Repr, Inhabited

structure RMod where
  name : Name
  inputs : List Name
  outputs : List Name
  stmts : List RStmt
deriving Repr, Inhabited

/-! ### what each parser's front end delivers -/

def ROp.expr : ROp → Expr
  | .net n => .id n
  | .c0 => .const "0"
  | .c1 => .const "1"

def ROp.text : ROp → String
  | .net n => n
  | .c0 => "1'b0"
  | .c1 => "1'b1"

def RStmt.item : RStmt → Item
  | .gate ty inst out ops => .inst ty [(inst, .positional (.id out :: ops.map ROp.expr))]
  | .assign l r => .assign [(l, r.expr)]
  | .bb ty inst pins => .inst ty [(inst, .named (pins.map (fun p => (p.1, p.2.map ROp.expr))))]

/-- the grammar's view: declarations, then the statements in their order -/
def RMod.toModule (r : RMod) : Module :=
  { name := r.name,
    ports := r.inputs ++ r.outputs.filter (fun o => !r.inputs.contains o),
    items := r.inputs.map (fun i => Item.input [i]) ++ r.outputs.map (fun o => Item.output [o]) ++ r.stmts.map RStmt.item }

def RStmt.finst : RStmt → Option FInst
  | .gate ty inst out ops => some (.inst ty inst (out :: ops.map ROp.text) [])
  | .bb ty inst pins => some (.inst ty inst [] (pins.filterMap (fun p => p.2.map (fun o => (p.1, o.text)))))
  | .assign .. => none

def RStmt.fassign : RStmt → Option (Name × String)
  | .assign l r => some (l, r.text)
  | _ => none

/-- the regular expressions' view: instances and assigns are collected separately -/
def RMod.toFParsed (r : RMod) : FParsed :=
  { name := r.name, inputs := dedup r.inputs, insts := r.stmts.filterMap RStmt.finst,
    assigns := r.stmts.filterMap RStmt.fassign, outputs := r.outputs }

/-! ### the documented restrictions -/

def Plain (n : Name) : Prop :=
  n ≠ "" ∧ Circuit.isDigit0 n = false ∧ ¬ n.toList.contains '.' ∧ ¬ n.startsWith "\\" ∧
  n ∉ ["tie0", "tie1", "tie_0", "tie_1", "tie_x"]

def ROp.nets : ROp → List Name
  | .net n => [n]
  | _ => []

/-- nets a statement drives -/
def RStmt.defs (bbs : List BBox) : RStmt → List Name
  | .gate _ _ out _ => [out]
  | .assign l _ => [l]
  | .bb ty _ pins =>
    match bbs.find? (fun b => b.name == ty) with
    | some d => pins.flatMap (fun p => if d.outs.contains p.1 then (p.2.map ROp.nets).getD [] else [])
    | none => []

/-- nets a statement reads -/
def RStmt.uses (bbs : List BBox) : RStmt → List Name
  | .gate _ _ _ ops => ops.flatMap ROp.nets
  | .assign _ r => r.nets
  | .bb ty _ pins =>
    match bbs.find? (fun b => b.name == ty) with
    | some d => pins.flatMap (fun p => if d.ins.contains p.1 then (p.2.map ROp.nets).getD [] else [])
    | none => []

def RStmt.OK (bbs : List BBox) : RStmt → Prop
  | .gate ty inst out ops =>
    ty ∈ gateTypes ∧ Plain inst ∧ Plain out ∧ ops ≠ [] ∧ ((ty = "buf" ∨ ty = "not") → ops.length = 1) ∧
    (∀ n ∈ ops.flatMap ROp.nets, Plain n)
  | .assign l r => Plain l ∧ ∀ n ∈ r.nets, Plain n
  | .bb ty inst pins =>
    ty ∉ CG.Expected.primitive_gates ∧ Plain inst ∧
    ∃ d, bbs.find? (fun b => b.name == ty) = some d ∧
      (∀ g ∈ d.ins ++ d.outs, Plain g) ∧ (d.ins ++ d.outs).Nodup ∧
      (pins.map (·.1)).Nodup ∧ (∀ p ∈ pins, p.1 ∈ d.ins ++ d.outs) ∧
      (∀ p ∈ pins, ∀ o, p.2 = some o → (∀ n ∈ o.nets, Plain n) ∧ (p.1 ∈ d.outs → ∃ n, o = .net n))

def RStmt.instName : RStmt → List Name
  | .bb _ inst _ => [inst]
  | _ => []

/-- the fast parser's documented subset: every net is an input or driven at most once, every net declared as an
    output is an input or driven, nets that are only read (floating wires) are allowed, unary gates have one operand,
    blackbox instances use named ports of a known blackbox, names are acceptable and do not collide with either
    parser's constant nodes -/
structure Restricted (r : RMod) (bbs : List BBox) : Prop where
  stmts : ∀ s ∈ r.stmts, s.OK bbs
  inputsPlain : ∀ i ∈ r.inputs, Plain i
  defsNodup : (r.inputs ++ r.stmts.flatMap (RStmt.defs bbs)).Nodup
  outputsDriven : ∀ o ∈ r.outputs, o ∈ r.inputs ∨ o ∈ r.stmts.flatMap (RStmt.defs bbs)
  outputsNodup : r.outputs.Nodup
  instsNodup : (r.stmts.flatMap RStmt.instName).Nodup

/-! ### agreement up to the name of the shared constant nodes -/

def tieMap (n : Name) : Name := if n = "tie0" then "tie_0" else if n = "tie1" then "tie_1" else n

def renameTies (c : Circuit) : Circuit :=
  { c with nodes := c.nodes.map (fun p => (tieMap p.1, p.2)), edges := c.edges.map (fun e => (tieMap e.1, tieMap e.2)) }

/-- type and output mark of a node; a missing `output` attribute (the fast parser sets none on inputs and constants)
    reads as False, as `Circuit.is_output`/`outputs()` treat it -/
def view (c : Circuit) (n : Name) : Option (Option String × Bool) := (c.attr? n).map (fun a => (a.ty, a.out.getD false))

def SameCircuit (a b : Circuit) : Prop :=
  a.name = b.name ∧ (∀ n, view a n = view b n) ∧ (∀ e, e ∈ a.edges ↔ e ∈ b.edges) ∧ (∀ q, q ∈ a.bbs ↔ q ∈ b.bbs)

/-! ### glue: the helper files work on a mirror of the definitions above (`CG.FV`) -/
namespace Glue

theorem flatMap_congr' {α β : Type} {f g : α → List β} (l : List α) (h : ∀ a, f a = g a) : l.flatMap f = l.flatMap g := by
  rw [funext h]
theorem filterMap_congr' {α β : Type} {f g : α → Option β} (l : List α) (h : ∀ a, f a = g a) :
    l.filterMap f = l.filterMap g := by
  rw [funext h]
theorem map_congr' {α β : Type} {f g : α → β} (l : List α) (h : ∀ a, f a = g a) : l.map f = l.map g := by
  rw [funext h]

def op : ROp → FV.ROp
  | .net n => .net n
  | .c0 => .c0
  | .c1 => .c1

def stmt : RStmt → FV.RStmt
  | .gate ty inst out ops => .gate ty inst out (ops.map op)
  | .assign l r => .assign l (op r)
  | .bb ty inst pins => .bb ty inst (pins.map (fun p => (p.1, p.2.map op)))

def mod (r : RMod) : FV.RMod :=
  { name := r.name, inputs := r.inputs, outputs := r.outputs, stmts := r.stmts.map stmt }

theorem op_expr (o : ROp) : (op o).expr = o.expr := by cases o <;> rfl
theorem op_text (o : ROp) : (op o).text = o.text := by cases o <;> rfl
theorem op_nets (o : ROp) : (op o).nets = o.nets := by cases o <;> rfl

theorem opt_expr (o : Option ROp) : (o.map op).map FV.ROp.expr = o.map ROp.expr := by
  cases o <;> simp [op_expr]
theorem opt_text (k : Name) (o : Option ROp) :
    (o.map op).map (fun o => (k, FV.ROp.text o)) = o.map (fun o => (k, o.text)) := by
  cases o <;> simp [op_text]
theorem opt_nets (o : Option ROp) : ((o.map op).map FV.ROp.nets).getD [] = (o.map ROp.nets).getD [] := by
  cases o <;> simp [op_nets]

theorem stmt_item (s : RStmt) : (stmt s).item = s.item := by
  cases s with
  | gate ty inst out ops =>
    simp only [stmt, FV.RStmt.item, RStmt.item, List.map_map]
    rw [map_congr' ops (fun o => show (FV.ROp.expr ∘ op) o = ROp.expr o from op_expr o)]
  | assign l r => simp only [stmt, FV.RStmt.item, RStmt.item, op_expr]
  | bb ty inst pins =>
    simp only [stmt, FV.RStmt.item, RStmt.item, List.map_map]
    rw [map_congr' pins (g := fun p => (p.1, p.2.map ROp.expr)) (fun p => by simp only [Function.comp, opt_expr])]

theorem stmt_finst (s : RStmt) : (stmt s).finst = s.finst := by
  cases s with
  | gate ty inst out ops =>
    simp only [stmt, FV.RStmt.finst, RStmt.finst, List.map_map]
    rw [map_congr' ops (fun o => show (FV.ROp.text ∘ op) o = ROp.text o from op_text o)]
  | assign l r => rfl
  | bb ty inst pins =>
    simp only [stmt, FV.RStmt.finst, RStmt.finst, List.filterMap_map]
    rw [filterMap_congr' pins (g := fun p => p.2.map (fun o => (p.1, o.text)))
      (fun p => by simp only [Function.comp, opt_text])]

theorem stmt_fassign (s : RStmt) : (stmt s).fassign = s.fassign := by
  cases s with
  | gate ty inst out ops => rfl
  | assign l r => simp only [stmt, FV.RStmt.fassign, RStmt.fassign, op_text]
  | bb ty inst pins => rfl

theorem ops_nets (ops : List ROp) : (ops.map op).flatMap FV.ROp.nets = ops.flatMap ROp.nets := by
  rw [List.flatMap_map]
  exact flatMap_congr' ops op_nets

theorem stmt_defs (bbs : List BBox) (s : RStmt) : (stmt s).defs bbs = s.defs bbs := by
  cases s with
  | gate ty inst out ops => rfl
  | assign l r => rfl
  | bb ty inst pins =>
    simp only [stmt, FV.RStmt.defs, RStmt.defs]
    cases bbs.find? (fun b => b.name == ty) with
    | none => rfl
    | some d =>
      simp only [List.flatMap_map]
      apply flatMap_congr'
      intro p
      simp only [opt_nets]

theorem stmt_uses (bbs : List BBox) (s : RStmt) : (stmt s).uses bbs = s.uses bbs := by
  cases s with
  | gate ty inst out ops => exact ops_nets ops
  | assign l r => exact op_nets r
  | bb ty inst pins =>
    simp only [stmt, FV.RStmt.uses, RStmt.uses]
    cases bbs.find? (fun b => b.name == ty) with
    | none => rfl
    | some d =>
      simp only [List.flatMap_map]
      apply flatMap_congr'
      intro p
      simp only [opt_nets]

theorem stmt_instName (s : RStmt) : (stmt s).instName = s.instName := by
  cases s <;> rfl

theorem stmt_OK (bbs : List BBox) (s : RStmt) (h : s.OK bbs) : (stmt s).OK bbs := by
  cases s with
  | gate ty inst out ops =>
    obtain ⟨h1, h2, h3, h4, h5, h6⟩ := h
    refine ⟨h1, h2, h3, by simpa using h4, by simpa using h5, ?_⟩
    rw [ops_nets]; exact h6
  | assign l r =>
    obtain ⟨h1, h2⟩ := h
    exact ⟨h1, by rw [op_nets]; exact h2⟩
  | bb ty inst pins =>
    obtain ⟨h1, h2, d, hd, h3, h4, h5, h6, h7⟩ := h
    refine ⟨h1, h2, d, hd, h3, h4, ?_, ?_, ?_⟩
    · rw [List.map_map]; exact h5
    · intro p hp
      obtain ⟨p0, hp0, rfl⟩ := List.mem_map.1 hp
      exact h6 p0 hp0
    · intro p hp o ho
      obtain ⟨p0, hp0, rfl⟩ := List.mem_map.1 hp
      simp only [Option.map_eq_some_iff] at ho
      obtain ⟨o0, ho0, rfl⟩ := ho
      obtain ⟨g1, g2⟩ := h7 p0 hp0 o0 ho0
      refine ⟨by rw [op_nets]; exact g1, fun hk => ?_⟩
      obtain ⟨n, rfl⟩ := g2 hk
      exact ⟨n, rfl⟩

theorem flatMap_stmts {β : Type} (f : FV.RStmt → List β) (g : RStmt → List β) (hfg : ∀ s, f (stmt s) = g s)
    (ss : List RStmt) : (ss.map stmt).flatMap f = ss.flatMap g := by
  rw [List.flatMap_map]
  exact flatMap_congr' ss hfg

theorem toModule (r : RMod) : (mod r).toModule = r.toModule := by
  simp only [mod, FV.RMod.toModule, RMod.toModule, List.map_map]
  rw [map_congr' r.stmts (fun s => show (FV.RStmt.item ∘ stmt) s = RStmt.item s from stmt_item s)]

theorem toFParsed (r : RMod) : (mod r).toFParsed = r.toFParsed := by
  simp only [mod, FV.RMod.toFParsed, RMod.toFParsed, List.filterMap_map]
  rw [filterMap_congr' r.stmts (fun s => show (FV.RStmt.finst ∘ stmt) s = RStmt.finst s from stmt_finst s),
    filterMap_congr' r.stmts (fun s => show (FV.RStmt.fassign ∘ stmt) s = RStmt.fassign s from stmt_fassign s)]

theorem restricted {r : RMod} {bbs : List BBox} (h : Restricted r bbs) : FV.Restricted (mod r) bbs where
  stmts := by
    intro s hs
    obtain ⟨s0, hs0, rfl⟩ := List.mem_map.1 hs
    exact stmt_OK bbs s0 (h.stmts s0 hs0)
  inputsPlain := h.inputsPlain
  defsNodup := by
    show (r.inputs ++ (r.stmts.map stmt).flatMap (FV.RStmt.defs bbs)).Nodup
    rw [flatMap_stmts _ _ (stmt_defs bbs)]; exact h.defsNodup
  outputsDriven := by
    intro o ho
    show o ∈ r.inputs ∨ o ∈ (r.stmts.map stmt).flatMap (FV.RStmt.defs bbs)
    rw [flatMap_stmts _ _ (stmt_defs bbs)]
    exact h.outputsDriven o ho
  outputsNodup := h.outputsNodup
  instsNodup := by
    show ((r.stmts.map stmt).flatMap FV.RStmt.instName).Nodup
    rw [flatMap_stmts _ _ stmt_instName]; exact h.instsNodup

theorem renameTies_eq (c : Circuit) : FV.renameTies c = renameTies c := rfl
theorem same_iff (a b : Circuit) : FV.SameCircuit a b ↔ SameCircuit a b := Iff.rfl

/-- both parsers build the specification circuit of `CG.FV` -/
theorem specs {r : RMod} {bbs : List BBox} (ord ordIn ord' : Ord) (hord : OrdOK ord) (hordIn : OrdOK ordIn)
    (hord' : OrdOK ord') (h : Restricted r bbs) :
    ∃ cf cv, FastVerilog.assemble r.toFParsed bbs ord ordIn = .ok cf ∧ Verilog.transform r.toModule bbs ord' = .ok cv ∧
      FV.Spec (mod r) bbs "tie0" "tie1" cf ∧ FV.Spec (mod r) bbs "tie_0" "tie_1" cv := by
  obtain ⟨cf, hf, sf⟩ := FV.fast_spec (restricted h) ord ordIn hord hordIn
  obtain ⟨cv, hv, sv⟩ := FV.full_spec (restricted h) ord' hord'
  rw [toFParsed] at hf
  rw [toModule] at hv
  exact ⟨cf, cv, hf, hv, sf, sv⟩

end Glue

/-- **C14.** for every netlist of the restricted subset — any gate mix and arity, constants as gate operands, in assigns
    and on blackbox input pins, unconnected pins, any statement order (use before definition), repeated operands —
    both parsers succeed and return the same circuit up to the name of the constant nodes: same name, same nodes with
    the same types and output marks, same edges, same blackbox registry; for every set-iteration order on either side -/
theorem fast_agrees_full (r : RMod) (bbs : List BBox) (ord ordIn ord' : Ord) (hord : OrdOK ord) (hordIn : OrdOK ordIn)
    (hord' : OrdOK ord') (h : Restricted r bbs) :
    ∃ cf cv, FastVerilog.assemble r.toFParsed bbs ord ordIn = .ok cf ∧ Verilog.transform r.toModule bbs ord' = .ok cv ∧
      SameCircuit (renameTies cf) cv := by
  obtain ⟨cf, cv, hf, hv, sf, sv⟩ := Glue.specs ord ordIn ord' hord hordIn hord' h
  exact ⟨cf, cv, hf, hv, FV.spec_same (Glue.restricted h) sf sv⟩

/-- hence the same inputs, outputs and (by identical graphs) the same function at every node -/
theorem fast_same_io (r : RMod) (bbs : List BBox) (ord ordIn ord' : Ord) (hord : OrdOK ord) (hordIn : OrdOK ordIn)
    (hord' : OrdOK ord') (h : Restricted r bbs) (cf cv : Circuit)
    (hf : FastVerilog.assemble r.toFParsed bbs ord ordIn = .ok cf) (hv : Verilog.transform r.toModule bbs ord' = .ok cv) :
    (∀ x, x ∈ cf.inputs ↔ x ∈ cv.inputs) ∧ (∀ x, x ∈ cf.outputs ↔ x ∈ cv.outputs) ∧
    (∀ x, x ∈ cv.inputs ↔ x ∈ r.inputs) ∧ (∀ x, x ∈ cv.outputs ↔ x ∈ r.outputs) ∧
    ∀ v : Val, Consistent cv v → Consistent cf (fun n => v (tieMap n)) := by
  obtain ⟨cf', cv', hf', hv', sf, sv⟩ := Glue.specs ord ordIn ord' hord hordIn hord' h
  rw [hf] at hf'; injection hf' with hf'; subst hf'
  rw [hv] at hv'; injection hv' with hv'; subst hv'
  have hr := Glue.restricted h
  refine ⟨fun x => ?_, fun x => ?_, fun x => FV.spec_inputs hr sv x, fun x => FV.spec_outputs hr sv x,
    fun v hc => FV.spec_consistent hr sf sv v hc⟩
  · rw [FV.spec_inputs hr sf x, FV.spec_inputs hr sv x]
  · rw [FV.spec_outputs hr sf x, FV.spec_outputs hr sv x]

/-- the result of the fast parser is well formed and lint-clean (undriven nets are excluded by the restrictions) -/
theorem fast_lint_clean (r : RMod) (bbs : List BBox) (ord ordIn : Ord) (hord : OrdOK ord) (hordIn : OrdOK ordIn)
    (h : Restricted r bbs) (cf : Circuit) (hf : FastVerilog.assemble r.toFParsed bbs ord ordIn = .ok cf) :
    WF cf ∧ ∀ n t, cf.ty? n = some t → t ∈ CG.Expected.supported_types := by
  obtain ⟨cf', hf', sf⟩ := FV.fast_spec (Glue.restricted h) ord ordIn hord hordIn
  rw [Glue.toFParsed, hf] at hf'; injection hf' with hf'; subst hf'
  exact ⟨sf.wf, fun n t ht => FV.spec_types (Glue.restricted h) sf ht⟩

/-! non-vacuity: a netlist with a flop (unconnected clock), a constant operand, an assign and use before definition -/
def exBB : BBox := { name := "ff", ins := ["clk", "d"], outs := ["q"] }
def ex : RMod :=
  { name := "top", inputs := ["a", "b"], outputs := ["o", "q"],
    stmts := [.gate "nand" "g_1" "o" [.net "w", .net "b", .c1], .bb "ff" "u" [("clk", none), ("d", some (.net "o")), ("q", some (.net "q"))],
              .assign "w" (.net "a")] }
example : ((FastVerilog.assemble ex.toFParsed [exBB] id id).toOption.map (fun c => (c.nodes.length, c.edges.length))) = some (9, 6) := by
  decide +kernel
example : ((Verilog.transform ex.toModule [exBB] id).toOption.map (fun c => (c.nodes.length, c.edges.length))) = some (9, 6) := by
  decide +kernel
example : Restricted ex [exBB] := by
  have hp : ∀ n ∈ ["g_1", "o", "w", "b", "u", "clk", "d", "q", "a"], Plain n := by
    unfold Plain; decide +kernel
  refine ⟨?_, fun i hi => hp i (by revert hi; simp only [ex]; decide +revert), by decide +kernel, by decide +kernel,
    by decide +kernel, by decide +kernel⟩
  intro s hs
  simp only [ex, List.mem_cons, List.not_mem_nil, or_false] at hs
  rcases hs with rfl | rfl | rfl
  · refine ⟨by decide, hp _ (by decide), hp _ (by decide), by simp, by decide, ?_⟩
    intro n hn
    simp only [ROp.nets, List.flatMap_cons, List.flatMap_nil, List.append_nil, List.cons_append, List.nil_append,
      List.mem_cons, List.not_mem_nil, or_false] at hn
    rcases hn with rfl | rfl <;> exact hp _ (by decide)
  · refine ⟨by decide, hp _ (by decide), exBB, by decide +kernel, ?_, by decide, by decide, by decide, ?_⟩
    · intro g hg
      exact hp g (by revert hg; simp only [exBB]; decide +revert)
    · intro p hpm o ho
      simp only [List.mem_cons, List.not_mem_nil, or_false] at hpm
      rcases hpm with rfl | rfl | rfl
      · cases ho
      · injection ho with ho; subst ho
        exact ⟨fun n hn => by simp only [ROp.nets, List.mem_singleton] at hn; subst hn; exact hp _ (by decide),
          fun hc => absurd hc (by decide)⟩
      · injection ho with ho; subst ho
        exact ⟨fun n hn => by simp only [ROp.nets, List.mem_singleton] at hn; subst hn; exact hp _ (by decide),
          fun _ => ⟨"q", rfl⟩⟩
  · exact ⟨hp _ (by decide), fun n hn => by simp only [ROp.nets, List.mem_singleton] at hn; subst hn; exact hp _ (by decide)⟩

/-! regression (K38): a floating wire `fl` — read by an `and` gate and by a blackbox input pin, never declared or driven —
    is allowed by the subset; both readers create it as an undriven `buf` that is not an output -/
def exF : RMod :=
  { name := "top", inputs := ["a"], outputs := ["o", "q"],
    stmts := [.gate "and" "g_1" "o" [.net "fl", .net "a"],
              .bb "ff" "u" [("clk", none), ("d", some (.net "fl")), ("q", some (.net "q"))]] }
example : ((FastVerilog.assemble exF.toFParsed [exBB] id id).toOption.map
    (fun c => (view c "fl", c.fanin "fl", c.fanout "fl", c.nodes.length))) =
    some (some (some "buf", false), [], ["o", "u.d"], 7) := by
  decide +kernel
example : ((Verilog.transform exF.toModule [exBB] id).toOption.map
    (fun c => (view c "fl", c.fanin "fl", c.fanout "fl", c.nodes.length))) =
    some (some (some "buf", false), [], ["o", "u.d"], 7) := by
  decide +kernel
example : Restricted exF [exBB] := by
  have hp : ∀ n ∈ ["g_1", "o", "fl", "a", "u", "clk", "d", "q"], Plain n := by
    unfold Plain; decide +kernel
  refine ⟨?_, fun i hi => hp i (by revert hi; simp only [exF]; decide +revert), by decide +kernel, by decide +kernel,
    by decide +kernel, by decide +kernel⟩
  intro s hs
  simp only [exF, List.mem_cons, List.not_mem_nil, or_false] at hs
  rcases hs with rfl | rfl
  · refine ⟨by decide, hp _ (by decide), hp _ (by decide), by simp, by decide, ?_⟩
    intro n hn
    simp only [ROp.nets, List.flatMap_cons, List.flatMap_nil, List.append_nil, List.cons_append, List.nil_append,
      List.mem_cons, List.not_mem_nil, or_false] at hn
    rcases hn with rfl | rfl <;> exact hp _ (by decide)
  · refine ⟨by decide, hp _ (by decide), exBB, by decide +kernel, ?_, by decide, by decide, by decide, ?_⟩
    · intro g hg
      exact hp g (by revert hg; simp only [exBB]; decide +revert)
    · intro p hpm o ho
      simp only [List.mem_cons, List.not_mem_nil, or_false] at hpm
      rcases hpm with rfl | rfl | rfl
      · cases ho
      · injection ho with ho; subst ho
        exact ⟨fun n hn => by simp only [ROp.nets, List.mem_singleton] at hn; subst hn; exact hp _ (by decide),
          fun hc => absurd hc (by decide)⟩
      · injection ho with ho; subst ho
        exact ⟨fun n hn => by simp only [ROp.nets, List.mem_singleton] at hn; subst hn; exact hp _ (by decide),
          fun _ => ⟨"q", rfl⟩⟩

end CG.C14
